#!/usr/bin/env python3
"""tools/impl_coverage.py [--tier quick] [PROP ...]: statement coverage of the PRODUCT code reached by the conformance
harnesses (vacuity check on the implementation side: a statement no harness run executes cannot be bound to the
specification, a change there cannot be detected). Runs each check with VERIF_COVER set (test binaries built with
-cover -coverpkg=./...), merges the profiles and prints, per file anchored by the property, the uncovered blocks.
Not part of any verdict; output under /tmp (removed unless --keep)."""
import argparse, json, os, re, shutil, subprocess, sys, tempfile

HERE = os.path.dirname(os.path.dirname(os.path.abspath(__file__)))
MOD = "github.com/AliyunContainerService/terway/"


def main():
    ap = argparse.ArgumentParser()
    ap.add_argument("props", nargs="*")
    ap.add_argument("--tier", default="quick")
    ap.add_argument("--keep", action="store_true")
    ap.add_argument("--all-files", action="store_true", help="report every product file touched, not only anchors")
    ap.add_argument("--out", default=None)
    a = ap.parse_args()
    P = {}
    for l in open(os.path.join(HERE, "properties.jsonl")):
        p = json.loads(l)
        P[p["id"]] = p
    props = a.props or sorted(P)
    report = {}
    # go's cover tool does not read overlay-only files: use a scratch worktree with the harness files copied in
    repo = os.environ.get("VERIF_REPO", "/repo")
    wt = tempfile.mkdtemp(prefix="verif-covrepo-")
    os.rmdir(wt)
    subprocess.run(["git", "-C", repo, "worktree", "add", "-q", "--detach", wt, "HEAD"], check=True)
    subprocess.run(["cp", "-r", os.path.join(HERE, "harness", "overlay") + "/.", wt], check=True)
    pk = subprocess.run(["go", "list", "-tags", "default_build", "./..."], cwd=repo, stdout=subprocess.PIPE, text=True,
                        env=dict(os.environ, GOFLAGS="-mod=mod", GOPROXY="off")).stdout.split()
    pk = [x for x in pk if "/mocks" not in x and "/generated/" not in x and "/tests" not in x and "/hack" not in x]
    try:
        _run(a, P, props, report, wt, ",".join(pk))
    finally:
        subprocess.run(["git", "-C", repo, "worktree", "remove", "--force", wt])
        subprocess.run(["git", "-C", repo, "worktree", "prune"])
    if a.out:
        json.dump(report, open(a.out, "w"), indent=1, default=list)


def _run(a, P, props, report, wt, coverpkg):
    for pid in props:
        d = tempfile.mkdtemp(prefix="verif-cover-%s-" % pid)
        env = dict(os.environ, VERIF_COVER=d, VERIF_REPO=wt, VERIF_COVERPKG=coverpkg)
        r = subprocess.run([os.path.join(HERE, "check"), pid, "--tier", a.tier], cwd=HERE, env=env,
                           stdout=subprocess.PIPE, stderr=subprocess.STDOUT, text=True)
        last = [l for l in r.stdout.splitlines() if l.startswith(("PASS", "FAIL", "ERROR"))][-1:]
        blocks = {}   # (file, span) -> [nstmt, count]
        for f in os.listdir(d):
            for l in open(os.path.join(d, f)):
                m = re.match(r"(\S+):(\d+)\.\d+,(\d+)\.\d+ (\d+) (\d+)$", l.strip())
                if not m or not m.group(1).startswith(MOD):
                    continue
                k = (m.group(1)[len(MOD):], int(m.group(2)), int(m.group(3)))
                b = blocks.setdefault(k, [int(m.group(4)), 0])
                b[1] += int(m.group(5))
        anchors = set(P[pid]["anchors"]["files"])
        files = {}
        for (f, lo, hi), (n, c) in blocks.items():
            if "/zz_verif" in f or f.startswith("zzverif/") or f.endswith("_test.go"):
                continue
            if not a.all_files and f not in anchors:
                continue
            e = files.setdefault(f, {"stmts": 0, "covered": 0, "uncovered": []})
            e["stmts"] += n
            if c > 0:
                e["covered"] += n
            else:
                e["uncovered"].append((lo, hi))
        print("== %s (%s) %s" % (pid, a.tier, " ".join(last)))
        for f in sorted(files):
            e = files[f]
            unc = sorted(e["uncovered"])
            merged = []
            for lo, hi in unc:
                if merged and lo <= merged[-1][1] + 1:
                    merged[-1][1] = max(merged[-1][1], hi)
                else:
                    merged.append([lo, hi])
            pct = 100.0 * e["covered"] / max(1, e["stmts"])
            print("  %-55s %5.1f%% of %4d stmts; uncovered: %s" % (f, pct, e["stmts"], " ".join("%d-%d" % (x, y) for x, y in merged)))
            e["uncovered_merged"] = merged
        for f in sorted(anchors - set(files)):
            print("  %-55s not executed at all (or not a Go file in a harness binary)" % f)
        report[pid] = files
        if not a.keep:
            shutil.rmtree(d, ignore_errors=True)


if __name__ == "__main__":
    main()
