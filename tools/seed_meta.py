#!/usr/bin/env python3
"""tools/seed_meta.py <P>-<n> <round-text> <history-text>: writes seeded/<P>-<n>/meta.json from meta.agent.json + confirm.txt."""
import json, os, re, sys
sid, rnd, hist = sys.argv[1], sys.argv[2], sys.argv[3]
d = os.path.join(os.path.dirname(os.path.dirname(os.path.abspath(__file__))), "seeded", sid)
a = json.load(open(os.path.join(d, "meta.agent.json")))
conf = open(os.path.join(d, "confirm.txt")).read().strip()
m = re.search(r"check_quick=(\d+)", conf)
out = {
    "id": sid, "property": sid.split("-")[0],
    "written_by": "independent sub-agent given only the property text and a scratch worktree (%s)" % rnd,
    "title": a.get("title"), "what_breaks": a.get("what_breaks"), "needs": a.get("needs"), "demo_cmd": a.get("demo_cmd"),
    "confirmed": conf,
    "ran": "tools/confirm_seed.sh (demo without/with, build, package tests, quick check with VERIF_REPO on the changed worktree)",
    "caught_by_quick_check": bool(m and m.group(1) == "1"),
    "history": hist,
}
json.dump(out, open(os.path.join(d, "meta.json"), "w"), indent=1)
print(sid, out["caught_by_quick_check"])
