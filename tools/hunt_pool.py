#!/usr/bin/env python3
"""Debug helper (not a check): run the pool harness many times and print traces where an address a pod holds is unassigned."""
import sys,os,json,glob,concurrent.futures
sys.path.insert(0,'/verif/lib')
from vlib import *
seeds=[int(x) for x in sys.argv[1].split(',')]; nrand=sys.argv[2]
ctx=Ctx('hunt','quick',1)
b=go_build_tests(ctx,['pkg/eni'])['pkg/eni']
def one(a):
    seed,k=a
    tf=os.path.join(ctx.scratch,'t%d_%d.ndjson'%(seed,k))
    rc,out=run_test_bin(ctx,b,'TestVerifPool',env={'VERIF_TRACE':tf,'VERIF_SHARD':'%d/16'%k,'VERIF_RANDOM':nrand,'VERIF_SEED':str(seed)},timeout=3000)
    return rc
jobs=[(s,k) for s in seeds for k in range(16)]
with concurrent.futures.ThreadPoolExecutor(16) as ex: rcs=list(ex.map(one,jobs))
print('rcs',set(rcs))
traces=[];cur=None
for f in sorted(glob.glob(ctx.scratch+'/t*.ndjson')):
    for l in open(f):
        r=json.loads(l)
        if r['ev']=='reset': cur=[r]; traces.append(cur)
        else: cur.append(r)
print('traces',len(traces))
found=0
for t in traces:
    held={}
    for i,r in enumerate(t):
        if r['ev']=='alloc_ret' and r['ok']: held[r['pod']]=(r['e'],r['a4'])
        if r['ev']=='release_call' and held.get(r['pod'])==(r['e'],r['a4']): held.pop(r['pod'])
        if r['ev']=='unassign_begin':
            bad=[(p,e,a) for p,(e,a) in held.items() if e==r['e'] and a in r['addrs']]
            if bad:
                found+=1
                if found>3: break
                print('FOUND scen',t[0]['scen'],t[0]['conf'],bad)
                for x in t[:i+2]:
                    if x['ev'] in ('release_ret','load'): continue
                    print('   ',x['seq'],{k:v for k,v in x.items() if k not in ('seq','st','cloud','conf')})
print('found',found)
