#!/bin/sh
# usage: tools/confirm_seed.sh <seed-out-dir> <PROP> <n> <demo-file> <dest-dir-in-repo> <go-test-run-regex> [tags]
# Confirms an independently written breaking change in a scratch worktree (demo passes without / fails with the change,
# tree builds, touched package tests pass), runs the /verif check on the changed tree, stores everything in seeded/<PROP>-<n>/.
set -u
S=$(realpath "$1"); PROP=$2; N=$3; DEMO=$4; DEST=$5; RUN=$6; TAGS=${7:-default_build}
OUT=/verif/seeded/$PROP-$N; mkdir -p "$OUT"
W=$(mktemp -d /tmp/cs-XXXXXX); rmdir "$W"
git -C /repo worktree add -q --detach "$W" HEAD || exit 2
export GOFLAGS=-mod=mod GOPROXY=off
cd "$W"
cp "$S/$DEMO" "$DEST/"
${PREFIX:-} go test -tags "$TAGS" -vet=off -count=1 -run "$RUN" "./$DEST/" > "$OUT/demo_without.txt" 2>&1; r0=$?
git apply "$S/patch.diff" || { echo "patch does not apply"; cd /; git -C /repo worktree remove --force "$W"; exit 2; }
go build -tags default_build ./... > "$OUT/build.txt" 2>&1; rb=$?
${PREFIX:-} go test -tags "$TAGS" -vet=off -count=1 -run "$RUN" "./$DEST/" > "$OUT/demo_with.txt" 2>&1; r1=$?
rm -f "$DEST/$DEMO"
go test -tags default_build -vet=off -count=1 -skip 'TestControllers|TestAPIs' "./$DEST/" > "$OUT/pkgtests_with.txt" 2>&1; rt=$?
cd /verif && VERIF_REPO="$W" timeout 1800 ./check "$PROP" --tier quick > "$OUT/check_quick.txt" 2>&1; rc=$?
git -C /repo worktree remove --force "$W"; git -C /repo worktree prune
cp "$S/patch.diff" "$S/$DEMO" "$OUT/"; cp "$S/meta.json" "$OUT/meta.agent.json"
echo "seed $PROP-$N: demo_without=$r0 (want 0) build=$rb (want 0) demo_with=$r1 (want !=0) pkgtests_with=$rt (want 0) check_quick=$rc (want 1)" | tee "$OUT/confirm.txt"
