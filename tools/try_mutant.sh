#!/bin/sh
# usage: tools/try_mutant.sh <patch.diff> <PROP> [tier]   - applies the patch to /repo, runs the check, reverts.
set -u
P=$(realpath "$1"); PROP=$2; TIER=${3:-quick}
cd /repo || exit 2
git diff --quiet || { echo "repo dirty"; exit 2; }
git apply "$P" || { echo "patch does not apply"; exit 2; }
cd /verif && ./check "$PROP" --tier "$TIER" > /tmp/mutant.out 2>&1; rc=$?
git -C /repo checkout -- . ; git -C /repo clean -fdq
tail -3 /tmp/mutant.out
echo "mutant $(basename $(dirname $P))/$(basename $P) on $PROP -> rc=$rc"
