#!/bin/sh
# usage: tools/try_mutant.sh <patch.diff> <PROP> [tier]
# Applies the patch in a scratch git worktree of /repo (never in /repo itself), runs the check against it, removes it.
set -u
P=$(realpath "$1"); PROP=$2; TIER=${3:-quick}
W=$(mktemp -d /tmp/mw-XXXXXX); rmdir "$W"
git -C /repo worktree add -q --detach "$W" HEAD || exit 2
( cd "$W" && git apply "$P" ) || { echo "patch does not apply: $P"; git -C /repo worktree remove --force "$W"; exit 2; }
cd /verif && VERIF_REPO="$W" ./check "$PROP" --tier "$TIER" > "$W.out" 2>&1; rc=$?
git -C /repo worktree remove --force "$W"; git -C /repo worktree prune
grep -E "^(VIOLATION|ERROR|PASS|FAIL|KNOWN)" "$W.out" | head -4
rm -f "$W.out"
echo "mutant $(basename $(dirname $P))/$(basename $P) on $PROP -> rc=$rc"
