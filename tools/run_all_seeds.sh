#!/bin/sh
# Self-test (not a manifest command): applies every seeded change that still applies to /repo HEAD in a scratch worktree
# and runs the quick check of its property; expected rc=1 for each. Prints one line per seed.
cd /verif
for d in seeded/*/; do
  n=$(basename $d); p=${n%%-*}
  if ! git -C /repo apply --check "/verif/$d/patch.diff" 2>/dev/null; then echo "$n: patch no longer applies to HEAD (kept for its base commit)"; continue; fi
  out=$(tools/try_mutant.sh "$d/patch.diff" "$p" 2>&1 | tail -n 1)
  echo "$n: $out"
done
