#!/bin/sh
# Self-test (not a manifest command): applies every seeded change that still applies to /repo HEAD in a scratch worktree
# and runs the quick check of its property; expected rc=1 for each. Prints one line per seed.
# usage: tools/run_all_seeds.sh [parallel jobs, default 1] [glob under seeded/, default *]
cd /verif
J=${1:-1}; G=${2:-*}
one() {
  d=$1; n=$(basename $d); p=${n%%-*}
  if ! git -C /repo apply --check "/verif/$d/patch.diff" 2>/dev/null; then echo "$n: patch no longer applies to HEAD (kept for its base commit)"; return; fi
  out=$(tools/try_mutant.sh "$d/patch.diff" "$p" 2>&1 | tail -n 1)
  echo "$n: $out"
}
if [ "$J" -le 1 ]; then
  for d in seeded/$G/; do one $d; done
else
  ls -d seeded/$G/ | xargs -P "$J" -I{} sh -c 'd={}; n=$(basename $d); p=${n%%-*}; if ! git -C /repo apply --check "/verif/$d/patch.diff" 2>/dev/null; then echo "$n: patch no longer applies to HEAD (kept for its base commit)"; else echo "$n: $(tools/try_mutant.sh "$d/patch.diff" "$p" 2>&1 | tail -n 1)"; fi'
fi
