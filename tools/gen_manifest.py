#!/usr/bin/env python3
"""Regenerates /verif/MANIFEST.json from the table below (kept in one place so it is always valid)."""
import json, os
HERE = os.path.dirname(os.path.dirname(os.path.abspath(__file__)))
ALL = ["C%02d" % i for i in range(1, 21)]

CHECKS = {
 "C14": dict(
   technique="TLA+ function spec (AddrMath.tla): TLC enumerates the input domain, real Go functions run on every case, TLC judges each (in,out) pair as one state",
   category="model_checking",
   text="Exhaustive, within a stated finite domain, comparison of the real classifier/gateway/name functions with a TLA+ relation written over byte tuples (CIDR membership, cls_u32 match semantics, third-from-last address). Right level because the property is a pure input/output relation; the quantifier 'all addresses' is reduced to all prefix lengths x boundary probes.",
   design_ref="DESIGN.md 2.6, 5 (C14)",
   note="Trusts: the harness projection of netlink keys to byte tuples; TLC's evaluation of the relation; finite domain (5 v4 / 3 v6 bases, boundary bit flips) instead of all 2^32/2^128 addresses."),
 "C16": dict(
   technique="TLA+ spec Token.tla model-checked by TLC; TLC-simulated + random + free-running scenarios driven through the real OpenAPI methods with a fake HTTP transport; recorded traces validated by TLC (Token_trace.tla); inductive invariant of the abstracted discipline (TokenCore.tla) checked by Apalache",
   category="model_checking",
   text="Token.tla states the token discipline (retry reuses a failed attempt's token, fresh otherwise, in-flight tokens distinct, no sharing across parameter sets) and is checked exhaustively for 2-3 concurrent callers. The real client code (option builders, key generator, every create/assign call site incl. rollback) is bound by trace validation: each recorded execution must be a behaviour of the spec with the token choice as a silent step.",
   design_ref="DESIGN.md 4.5, 5 (C16)",
   note="Trusts: the fake http.RoundTripper as the cloud; uuid renumbering; LRU capacity forced to 2; backoff Steps=1 (one request per call)."),
 "C17": dict(
   technique="TLA+ spec VSwitch.tla model-checked by TLC; TLC-simulated + random scenarios replayed on the real SwitchPool (fake clock, fake VPC) and validated line by line; concurrent rounds (cold cache, slow lookups) judged by TLC on what each call can have seen, Block atomic (VSwitch_conc.tla)",
   category="model_checking",
   text="VSwitch.tla gives GetOne/Block/expiry as actions whose guards are the property clauses (member of candidates, zone unless fallback, free>0 on the cached snapshot, ordered=first eligible, most=max free, blocked until expiry, caller slice unchanged). Sequential executions of the real selector are fully logged and must be behaviours of the spec; in concurrent executions Block is atomic and a selection must be explainable by the values its candidates' cache entries had while the call was in progress.",
   design_ref="DESIGN.md 4.5, 5 (C17)",
   note="Trusts: fake VPC and fake clock; concurrent rounds use a static cloud and no expiry; data-race freedom itself is not decided."),

 "C01": dict(
   technique="TLA+ spec NodePool.tla (observable steps of the node pool, guards = property clauses) model-checked by TLC; TLC-simulated + random scenarios driven through the real eni.Manager/Local on a fake cloud; recorded traces validated by TLC with Enforce={C01}",
   category="model_checking",
   text="Every recorded execution of the real pool (concurrent ADD / repeated ADD / cancel / DEL / replayed DEL / balancer / sync / remote removal / cloud faults) must be a behaviour of NodePool.tla with the C01 guards on: exclusive hand-out judged on what callers were told, hand-out only of addresses live during the request, repeated ADD returns the same address.",
   design_ref="DESIGN.md 4.1, 5 (C01)",
   note="Pool stages trust the fake factory.Factory (whose contract the factory layer checks: real pkg/factory/aliyun + OpenAPI client + metadata reader on a fake HTTP cloud, specs/Factory.tla, C01 clauses pushed down); schedules are what the Go scheduler produced under the driver's stimuli plus forced ones (slow waiter, balancer armed on a cloud call's end); internal state is bound by PoolSlot.tla at critical-section grain."),
 "C06": dict(
   technique="same traces as C01 validated against NodePool.tla with Enforce={C06}: every cloud call's arguments are judged at its begin event; critical-section projections against PoolSlot.tla; the factory layer (Factory.tla) with the C06 clauses at the OpenAPI boundary",
   category="model_checking",
   text="Quota clauses (addresses per interface, interfaces per node) and disposal clauses (never unassign a held or primary address, never delete trunk/RDMA or an interface in use) are guards of the cloud-call actions; HeldBacked/Quota invariants are evaluated in every state of every validated trace.",
   design_ref="DESIGN.md 4.1, 5 (C06)",
   note="'pending requests' on an interface being deleted are judged on the lock projections (PoolSlot.tla: InUse->Deleting only with empty queues)."),
 "C07": dict(
   technique="same traces as C01; every scenario ends with a drain and a quiescent observation (pool Status() next to the cloud state) judged by NodePool.tla's Quiescent action with Enforce={C07}; below the pool the real cloud factory + OpenAPI client + metadata reader on a fake HTTP cloud (virtual clock, full stack with the real pool) judged by Factory.tla with the C07 clauses (created = reported or gone)",
   category="model_checking",
   text="At quiescence: tracked interfaces = cloud interfaces, no orphan address in the cloud, nothing tracked as valid that the cloud lacks, no ghost owner, idle reserve inside the min/max band after a healthy drain.",
   design_ref="DESIGN.md 4.1, 5 (C07)",
   note="Lenient readings: idle primaries cannot be disposed and do not count against max-idle; error-after-effect results carry the created object."),
 "C12": dict(
   technique="TLA+ function spec NetConf.tla: TLC enumerates allocation results / CNI configurations, the real AllocIP -> protobuf -> parseSetupConf/getDatePath chain runs on each, TLC judges",
   category="model_checking",
   text="Exhaustive within a finite domain of allocation shapes (local, CRD, PodENI multi-interface, v4/v6/dual, trunk, default-route flag vectors, subnets, bandwidth overrides); relation written from the property text over byte tuples.",
   design_ref="DESIGN.md 2.6, 5 (C12)",
   note="Local results come from the real Local + Manager on a fake factory after a pre-history (localpool kind) and from a stub (local kind); finite domain."),
 "C15": dict(
   technique="TLA+ function spec Inputs.tla: bounded token language per user-writable field enumerated by TLC, real parsers run under recover, TLC judges",
   category="model_checking",
   text="All strings of <=3-4 tokens over a hostile token alphabet for every user-writable field; no panic; well-formed bandwidth accepted with the right value and monotone in the unit.",
   design_ref="DESIGN.md 2.6, 5 (C15)",
   note="Bounded token language instead of all byte strings (the technique fits this property least)."),
 "C18": dict(
   technique="TLA+ function spec Webhook.tla: TLC enumerates pods x PodNetworkings x cluster configs, real mutating webhook runs with the fake client, JSON patch applied, TLC judges",
   category="model_checking",
   text="Exhaustive within four input families (scope, inline network lists, network requests, selector matching); relation from the property text on the patched pod.",
   design_ref="DESIGN.md 2.6, 5 (C18)",
   note="One known finding (D7) is reported as KNOWN-FINDING; PodNetworking validation webhook is outside the property."),
 "C19": dict(
   technique="TLA+ function spec Capacity.tla: TLC enumerates instance-type limit vectors x configurations, real daemon limit/pool computation and node controllers run, TLC judges upper bounds",
   category="model_checking",
   text="Exhaustive within a finite domain of limit vectors and configurations; oracle = upper bounds from the property text.",
   design_ref="DESIGN.md 2.6, 5 (C19)",
   note="daemon/builder.go setupENIManager and device-plugin counts are not executed; default cap ratio only."),
 "C20": dict(
   technique="TLA+ function spec ConfigChain.tla: RFC 7396 MergePatch as a recursive TLA+ operator + CNI chain relation; real MergeConfigAndUnmarshal / mergeConfigList run in a private mount+net namespace; TLC judges",
   category="model_checking",
   text="Merge laws and merge-patch semantics on real eni_conf keys; generated CNI chain coherence over plugin lists x kernel features x recorded capabilities.",
   design_ref="DESIGN.md 2.6, 5 (C20)",
   note="Needs root for unshare -m -n; malformed JSON and float members outside the domain."),

 "C10": dict(
   technique="TLA+ spec PodEni.tla (phase machine, cloud ENIs, Enforce-tagged C10 guards) model-checked by TLC; TLC-simulated, enumerated and random scenarios drive the real ReconcilePod / ReconcilePodENI / collectors on one fake API server + fake cloud with a gate before every API or cloud call; traces validated by TLC",
   category="model_checking",
   text="Every PodENI phase write, every attach/detach/delete cloud call (with the liveness of the bound pod at that moment) and the quiescent state of each scenario must be a behaviour of PodEni.tla with the C10 guards on: documented phase steps only, no pull from a live pod instance, non-fixed deletion ends with ENI and record gone, partial creation failure leaves no unrecorded ENI.",
   design_ref="DESIGN.md 4.4, 5 (C10), 11.6",
   note="Reads are fresh (no informer staleness); D10 edges tolerated by default (VERIF_C10_STRICT=1 makes them violations); known finding D18."),
 "C11": dict(
   technique="same machinery as C10 with Enforce={C11}: release strategies around the TTL boundary by shifting stored timestamps, cloud ENI populations for the leak collector",
   category="model_checking",
   text="Fixed-IP records keep their allocation set, are only reaped when no allocation says keep (Never = forever, TTL since last seen), are re-bound to the recreated pod; the leak collector only touches ENIs with both cluster tags, older than the grace period and unreferenced.",
   design_ref="DESIGN.md 4.4, 5 (C11), 11.6",
   note="Virtual time by data (stored timestamps shifted), 1 s slack for second-granular time stamps; known finding D18."),

 "C13": dict(
   technique="TLA+ specs Fib.tla (Linux policy-routing model: rules by priority, longest-prefix tables, fall-through) + Datapath.tla (Setup/Teardown whose effect is bound from the trace); level 1: real generate*Cfg* functions of all four datapaths on TLC-simulated configurations, judged by TLC with the Fib Lookups; level 2: real PolicyRoute/ExclusiveENI Setup/Teardown in a private network namespace, kernel state dumped after every step and validated by TLC",
   category="model_checking",
   text="Delivery to the pod interface, egress via the owning ENI and its gateway, exactly one default route per enabled family, nothing for a disabled family, teardown removes all and only the pod's state - as guards of the Setup/Teardown actions evaluated on what the implementation actually produced (nic.Conf values at level 1, kernel rules/routes/links at level 2).",
   design_ref="DESIGN.md 4.6, 5 (C13), 11.6",
   note="The sandbox kernel lacks ipvlan, 802.1q vlan, prio qdisc and u32/vlan tc actions: ipvlan/vlan datapaths and tc parts are decided at level 1 only; the Fib model itself is compared with the kernel's route lookups in the thorough tier; needs root for unshare -n."),

 "C02": dict(
   technique="TLA+ spec Ipam.tla (Node CR record, cloud, pods, NodeRuntime; Enforce-tagged guards) model-checked by TLC; TLC-simulated + directed + random scenarios drive the real ReconcileNode together with the real daemon side (CRDV2, NodeRuntime sync) on a fake API server + fake cloud; the whole Node CR is logged after every reconcile and validated by TLC",
   category="model_checking",
   text="Binding invariants of the published per-node record (one pod per address, one address per family per pod, dual stack on one interface, new bindings only on Valid addresses of InUse interfaces, RDMA segregation, take-over of reported addresses) are evaluated by TLC on every recorded Node CR and every reconcile step.",
   design_ref="DESIGN.md 4.3, 5 (C02), 11.6",
   note="Fresh reads (no informer staleness); environment with cloud drift and partially bound initial records; EFLO path not covered."),

 "C04": dict(
   technique="TLA+ spec Daemon.tla (RPC handlers at effect-point grain, disk/memory records, pool owners, Enforce-tagged guards) model-checked by TLC; TLC-simulated + random scenarios drive the real networkService (real eni.Manager/Local, real bolt storage, fake cloud and API server) with gates inside the handlers and cancellation at the k-th touch of the request context; traces validated by TLC",
   category="model_checking",
   text="Stale/duplicate/concurrent CNI requests: 'processing' exclusion, stale container IDs neither release nor return the allocation, repeated ADD returns the same address, repeated DEL is a no-op, a failed ADD hands back what it took (and only that) - as guards on every recorded handler step and as owner/record agreement at every quiescent observation.",
   design_ref="DESIGN.md 4.2, 5 (C04), 11.6",
   note="Local (non-CRD) IPAM mode, IPv4; DB write failures not injected; a rejected trace is re-validated with no property enforced to separate machinery faults (exit 2) from violations."),
 "C05": dict(
   technique="same harness as C04 plus crash-point enumeration: at every effect point of every scenario a second daemon is built from copies of the bolt file and the cloud state through the real start-up path and probed (owners, follow-up ADD for every pod); SIGKILL sampling of a child streaming Put/Delete; judged by Daemon.tla's Crash/Restart/Probe actions with Enforce={C05}",
   category="model_checking",
   text="Acknowledged ADDs keep their address across a restart at any effect point, the address is not offered to another pod, unacknowledged requests' addresses become reusable, acknowledged ADD/DEL are on disk after a kill.",
   design_ref="DESIGN.md 4.2, 5 (C05), 11.6",
   note="bolt's page-level crash consistency is only sampled by SIGKILL (no power-loss model); the builder's orchestration lines around the start-up pieces are replicated in the harness."),
 "C09": dict(
   technique="same harness as C04 inside a private network namespace: (stored records x pod states) matrices, sticky pods, API lookup errors, detached interfaces, three GC passes, GC against gated requests; judged by Daemon.tla's GC actions with Enforce={C09}",
   category="model_checking",
   text="Vanished pods are collected within two passes, existing pods and pods with a request in flight never, one uncleanable record does not block the others, repeated passes are idempotent.",
   design_ref="DESIGN.md 4.2, 5 (C09), 11.6",
   note="CRD-mode cleanRuntimeNode is covered by the Ipam family (C03), not here; netlink errors other than a missing device are not injected; needs root for unshare -n."),

 "C03": dict(
   technique="same machinery as C02 (Ipam.tla, real ReconcileNode + real daemon side CRDV2 / NodeRuntime sync) with Enforce={C03}: every unbind / mark-deleting / unassign in the recorded Node CR and cloud calls is judged against the pod list and the NodeRuntime teardown reports at that moment; every 'deleted' report against processed DELs / verified-absent lookups",
   category="model_checking",
   text="No reclaim of an address while its pod exists or before its teardown was reported; reclaim does happen once gone and reported; the agent reports teardown only for processed DELs or verified-absent pods.",
   design_ref="DESIGN.md 4.3, 5 (C03), 11.6",
   note="Known finding D8 (stale 'deleted' stamp survives a later ADD) is reported as KNOWN-FINDING; validated on an environment without drift and without partially bound initial records."),
 "C08": dict(
   technique="same machinery as C02 with Enforce={C08}: quota guards on every create/assign cloud call, roll-back-or-recorded after mid-way failures, and at the end of every scenario a drain, a fixed-point observation, a forced full sync and an agreement observation judged by Ipam.tla",
   category="model_checking",
   text="Per-interface and per-node quotas on every cloud request; convergence to a fixed point (all eligible pods bound, idle within [min,max], no further cloud mutation) under a healthy cloud; after failures whatever was created is deleted or recorded for deletion; record equals cloud after a full sync.",
   design_ref="DESIGN.md 4.3, 5 (C08), 11.6",
   note="Known findings D19, D20, D24, D25, D26 (three oscillations, two leaks) are matched by trace-computed signatures and reported as KNOWN-FINDING; EFLO path not covered."),
}

NA_REASON = "not built yet in this round of work; see DESIGN.md section 10 (build order) - the property is planned to be decided by the TLA+ pipeline"

def main():
    checks = []
    for pid in ALL:
        if pid not in CHECKS:
            continue
        c = CHECKS[pid]
        checks.append(dict(
            property_id=pid,
            quick_cmd="./check %s --tier quick" % pid,
            thorough_cmd="./check %s --tier thorough" % pid,
            evidence_file="/verif/evidence/%s.json" % pid,
            replay_cmd_template="./check %s --replay {path}" % pid,
            engine="tla-pipeline",
            level_claimed=dict(category=c["category"], text=c["text"], design_ref=c["design_ref"]),
            level_note=c["note"],
            technique=c["technique"]))
    na = [dict(property_id=p, reason=CHECKS.get(p, {}).get("na", NA_REASON)) for p in ALL if p not in CHECKS]
    m = dict(
        version=1,
        setup_cmd="./setup.sh",
        hooks=dict(guard="verif",
                   enable="go test -c -overlay <scratch>/overlay.json -tags default_build,verif -vet=off -o <scratch>/x.test ./<pkg>  (run in /repo; the overlay only ADDS files from /verif/harness/overlay, it never replaces a repository file)",
                   baseline_off_cmd="cd /repo && go test -mod=mod -json -vet=off -count=1 -timeout 25m ./...",
                   source_commits=[],
                   add_only=True),
        engines=[dict(name="tla-pipeline", path="/verif/check", serves_properties=[c["property_id"] for c in checks],
                      kind_free_text="TLA+ specifications (specs/*.tla) checked by TLC; TLC-generated scenarios/inputs driven through the real Go code built from /repo with a build overlay; recorded traces / results validated by TLC against the specification")],
        checks=checks,
        notes="Exit codes: 0 held, 1 VIOLATION line, 2 machinery error. known_findings.json lists genuine defects (known / fixed). See DESIGN.md.",
        not_applicable=na)
    with open(os.path.join(HERE, "MANIFEST.json"), "w") as fh:
        json.dump(m, fh, indent=1)
    print("MANIFEST.json: %d checks, %d not_applicable" % (len(checks), len(na)))

if __name__ == "__main__":
    main()
