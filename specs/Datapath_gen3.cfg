SPECIFICATION MCSpec
CONSTANTS
  Enforce = {"C13"}
  NsIds = {0, 1, 2, 3}
  Atts = {1, 2, 3, 4, 5, 6}
  MCPods = {1, 2}
  MCDps = {"policy"}
  MCFams = {"v4", "v6", "dual"}
  MCTrunk = {FALSE}
  MCExtra = {0, 1, 2}
  MCMulti = {FALSE}
  MCHow = {"generic", "cni"}
  MCSteal = TRUE
  MCEniGone = FALSE
  MCEnis = {1, 2}
  BadDesign = ""
  GenLen = 8
  GenOn = TRUE
CHECK_DEADLOCK FALSE
