------------------------------- MODULE Daemon -------------------------------
(* C04 / C05 / C09 - the node daemon (daemon/daemon.go AllocIP, ReleaseIP, GetIPInfo, gcPods, the     *)
(* restart path of daemon/builder.go, pkg/storage) at the grain of its externally visible steps:       *)
(*   - CNI requests of the container runtime, split into call and reply;                               *)
(*   - calls the daemon makes to its dependencies: the API server (pod lookup, node-local pod list,     *)
(*     existence check), the resource database (Put / Delete, split into begin and end), the cloud      *)
(*     (address assignment by the pool);                                                                *)
(*   - environment steps: a pod appears / vanishes / its sandbox exits, an interface is detached, the   *)
(*     API starts or stops failing, the daemon process is killed and started again;                     *)
(*   - observations: a quiescent snapshot (disk, memory mirror, the pool's own owner table), the        *)
(*     first snapshot of a restarted daemon, and "probes" (what a daemon restarted from the disk and    *)
(*     cloud state of this instant would believe and hand out) which do not change the state.           *)
(* The daemon's internals (pending-pod set, service RW lock, the pool, the in-memory mirror) are not    *)
(* state of this specification.  State is: the dependencies (API objects, disk, cloud), what the        *)
(* runtime was told (acked), and bookkeeping needed to state the properties.                            *)
(* Every conjunct is an interface fact (I) or a clause of a listed property, written G("Cxx", ...).     *)
(* GA(...) is a clause demanded by each of C04, C05 and C09 (the pool's owner table must agree with     *)
(* the records after a failed ADD / after a restart / after a GC pass).                                 *)
(*                                                                                                      *)
(* Lenient readings (a false alarm is worse than a miss):                                               *)
(*  - a reply is logged after the handler returned, i.e. after it left the service lock and the         *)
(*    pending set; "request r is inside its handler" therefore ends silently: when a step that is       *)
(*    only possible after r left (another request of the same pod enters, a GC pass lists the pods)    *)
(*    is seen, r is assumed to have left (st = "outP"/"outG"); a later in-handler step of r is then     *)
(*    what the property forbids.  The same for a GC pass and a request entering after it.              *)
(*  - "the same address" for a repeated ADD and "still owns" after a restart are demanded only while   *)
(*    the acknowledged address is still assigned to an attached interface in the cloud;                 *)
(*  - a pod whose DEL was inside its handler when the daemon was killed (or when another pod asked) is  *)
(*    not owed its address; neither is a pod that is gone from the node and the API;                    *)
(*  - "the container ID recorded at the pod's latest successful ADD" is the one in the daemon's record, *)
(*    also when the reply of that ADD never reached the runtime (a DEL of that sandbox is effective);   *)
(*  - GC may delete on the strength of its own API answers (not in the local list + existence check    *)
(*    said no) or when the pod really is gone; a sticky pod need not be kept for an extra period;      *)
(*  - "within two passes" counts only passes during which nothing changed and no API call failed.      *)
EXTENDS Integers, FiniteSets, Sequences, TLC

CONSTANTS Pods,      \* pod ids (naturals >= 1)
          Rpcs,      \* request ids
          Enis,      \* interface ids
          Enforce    \* subset of {"C04", "C05", "C09"}

G(p, clause) == IF p \in Enforce THEN clause ELSE TRUE
GA(clause) == Enforce \cap {"C04", "C05", "C09"} = {} \/ clause

NoRec == [c |-> 0, e |-> 0, a |-> 0, a6 |-> 0, s |-> FALSE]   \* a stored record: container id, interface, IPv4 address, IPv6 address (0 = none), sticky
NoAck == [c |-> 0, e |-> 0, a |-> 0, a6 |-> 0]
NoPod == [api |-> FALSE, loc |-> "none", sticky |-> FALSE, cached |-> FALSE]
NoEni == [on |-> FALSE, as |-> {}]
NoWr  == [p |-> 0, rec |-> NoRec, by |-> ""]
NoRpc == [st |-> "none", k |-> "", p |-> 0, c |-> 0, ovl |-> FALSE, found |-> FALSE, sticky |-> FALSE, eff |-> FALSE,
          wrec |-> NoRec, wdel |-> FALSE, snap |-> NoRec]
IdleGc == [st |-> "idle", live |-> {}, exist |-> [p \in Pods |-> "?"], dirty |-> FALSE, lerr |-> FALSE, wrote |-> FALSE]

VARIABLES cloud,    \* cloud[e]: [on, as] - interface attached, its addresses
          pod,      \* pod[p]: [api, loc, sticky, cached] - API object on this node; node-local list entry ("none"|"run"|"exited")
          disk,     \* disk[p]: the record in the bolt file (NoRec = none)
          wr,       \* the database write in progress (begin seen, end not yet)
          acked,    \* acked[p]: the allocation the runtime was told pod p holds (latest acknowledged ADD not yet released)
          rpc,      \* rpc[r]: a CNI request from its call to its reply
          gc,       \* the GC pass in progress
          gcn,      \* gcn[p]: undisturbed passes that ended with the record of a vanished pod p still there
          apierr,   \* the API existence check fails at the moment
          conv,     \* the last pass changed nothing and nothing happened since
          up,       \* the daemon process is running
          dbf       \* pods whose ADD took an address and then failed at the database write (no record, no rollback yet)

vars == <<cloud, pod, disk, wr, acked, rpc, gc, gcn, apierr, conv, up, dbf>>

Open(r) == rpc[r].st \in {"called", "in", "outP", "outG"}
InHandler(r) == rpc[r].st \in {"in", "outP", "outG"}
AckLiveIn(ak, p) == ak[p] # NoAck /\ cloud[ak[p].e].on /\ ak[p].a \in cloud[ak[p].e].as /\ (ak[p].a6 = 0 \/ ak[p].a6 \in cloud[ak[p].e].as)
AckLive(p) == AckLiveIn(acked, p)
Vanished(p) == ~pod[p].api /\ pod[p].loc # "run"
SameAlloc(rec, ak) == rec.e = ak.e /\ rec.a = ak.a /\ rec.a6 = ak.a6                    \* the same address (pair, on a dual-stack node)
Overlap(x, y) == x.e = y.e /\ (x.a = y.a \/ (x.a6 # 0 /\ x.a6 = y.a6))                \* one address of either family in both

Init == /\ cloud = [e \in Enis |-> NoEni]
        /\ pod = [p \in Pods |-> NoPod]
        /\ disk = [p \in Pods |-> NoRec]
        /\ wr = NoWr
        /\ acked = [p \in Pods |-> NoAck]
        /\ rpc = [r \in Rpcs |-> NoRpc]
        /\ gc = IdleGc
        /\ gcn = [p \in Pods |-> 0]
        /\ apierr = FALSE /\ conv = FALSE /\ up = TRUE /\ dbf = {}

Reset(cl) == /\ cloud' = cl
             /\ pod' = [p \in Pods |-> NoPod]
             /\ disk' = [p \in Pods |-> NoRec]
             /\ wr' = NoWr
             /\ acked' = [p \in Pods |-> NoAck]
             /\ rpc' = [r \in Rpcs |-> NoRpc]
             /\ gc' = IdleGc
             /\ gcn' = [p \in Pods |-> 0]
             /\ apierr' = FALSE /\ conv' = FALSE /\ up' = TRUE /\ dbf' = {}

(* ---------------------------------------------------------------- environment *)

Disturb == gc' = IF gc.st # "idle" THEN [gc EXCEPT !.dirty = TRUE] ELSE gc

EnvPod(p, v) ==
    /\ pod' = [pod EXCEPT ![p] = v]
    /\ gcn' = [gcn EXCEPT ![p] = 0]
    /\ Disturb /\ conv' = FALSE
    /\ UNCHANGED <<cloud, disk, wr, acked, rpc, apierr, up, dbf>>

EnvDetach(e) ==
    /\ cloud' = [cloud EXCEPT ![e] = NoEni]
    /\ conv' = FALSE
    /\ UNCHANGED <<pod, disk, wr, acked, rpc, gc, gcn, apierr, up, dbf>>

EnvApiErr(on) ==
    /\ apierr' = on
    /\ Disturb /\ conv' = FALSE
    /\ UNCHANGED <<cloud, pod, disk, wr, acked, rpc, gcn, up, dbf>>

(* something outside the daemon's control goes wrong for a moment (e.g. netlink unusable): a pass running now is not undisturbed *)
EnvDisturb ==
    /\ Disturb /\ conv' = FALSE
    /\ UNCHANGED <<cloud, pod, disk, wr, acked, rpc, gcn, apierr, up, dbf>>

(* the pool changed the cloud: k in {"create", "assign", "unassign", "delete"} *)
CloudEnd(k, e, as) ==
    /\ e \in Enis
    /\ cloud' = [cloud EXCEPT ![e] = CASE k \in {"create", "assign"} -> [on |-> TRUE, as |-> @.as \cup as]
                                        [] k = "unassign" -> [@ EXCEPT !.as = @ \ as]
                                        [] OTHER -> NoEni]
    /\ UNCHANGED <<pod, disk, wr, acked, rpc, gc, gcn, apierr, conv, up, dbf>>

(* ---------------------------------------------------------------- CNI requests *)

RpcCall(r, k, p, c) ==
    /\ up /\ rpc[r].st = "none"
    /\ LET ov == \E q \in Rpcs : q # r /\ Open(q) /\ rpc[q].p = p IN
       rpc' = [q \in Rpcs |-> IF q = r THEN [NoRpc EXCEPT !.st = "called", !.k = k, !.p = p, !.c = c, !.ovl = ov]
                              ELSE IF Open(q) /\ rpc[q].p = p THEN [rpc[q] EXCEPT !.ovl = TRUE] ELSE rpc[q]]
    /\ conv' = FALSE
    /\ UNCHANGED <<cloud, pod, disk, wr, acked, gc, gcn, apierr, up, dbf>>

(* The handler looked the pod up: it holds the pod's pending entry and the service lock (shared) now. *)
(* chk: the answer comes from the harness's fake of k8s.Kubernetes (an interface fact); otherwise it is the answer  *)
(* of the real pkg/k8s code (its own pod cache included) and is taken as reported.                                 *)
GetPod(r, found, sticky, chk) ==
    /\ rpc[r].st = "called"
    /\ LET p == rpc[r].p IN
       /\ chk => found = (pod[p].api \/ pod[p].cached)                                               \* (I)
       /\ (chk /\ found) => sticky = pod[p].sticky                                                   \* (I)
       /\ rpc' = [q \in Rpcs |->
             IF q = r THEN [rpc[r] EXCEPT !.st = "in", !.found = found, !.sticky = sticky,
                                          !.eff = (rpc[r].k = "del" /\ found /\ ~sticky /\ disk[p] # NoRec /\ disk[p].c = rpc[r].c)]
             ELSE IF rpc[q].st = "in" /\ rpc[q].p = p THEN [rpc[q] EXCEPT !.st = "outP", !.snap = disk[p]]   \* it must have left
             ELSE rpc[q]]
    /\ gc' = IF gc.st = "in" THEN [gc EXCEPT !.st = "out"] ELSE gc                                   \* the pass must be over
    /\ UNCHANGED <<cloud, pod, disk, wr, acked, gcn, apierr, conv, up, dbf>>

(* what the daemon still owes: not the address of a pod whose effective DEL is inside its handler (the address is *)
(* on its way back to the pool; this is also what a daemon killed now still owes after its restart)          *)
Owed == [p \in Pods |-> IF \/ \E r \in Rpcs : InHandler(r) /\ rpc[r].k = "del" /\ rpc[r].p = p /\ rpc[r].eff
                           \/ (wr.by = "gc" /\ wr.p = p /\ wr.rec = NoRec)                 \* being collected
                        THEN NoAck ELSE acked[p]]

StillInside(r) == /\ G("C04", rpc[r].st # "outP")      \* no second request of the pod was let in meanwhile
                  /\ G("C09", rpc[r].st # "outG")      \* no GC pass ran meanwhile
GcMayTouch(p) == \/ (p \notin gc.live /\ gc.exist[p] = "no")
                 \/ Vanished(p)
GcInside == /\ gc.st \in {"in", "out"}
            /\ G("C09", gc.st = "in")                  \* no request was let in meanwhile
            /\ G("C09", ~conv)                         \* a pass after a pass that changed nothing changes nothing

PutBegin(p, rec) ==
    /\ wr = NoWr
    /\ \/ \E r \in Rpcs :
            /\ InHandler(r) /\ rpc[r].k = "add" /\ rpc[r].p = p /\ rpc[r].c = rec.c
            /\ StillInside(r)
            /\ G("C04", AckLive(p) => SameAlloc(rec, acked[p]))                                      \* repeated ADD: the same address
            /\ G("C05", \A q \in Pods \ {p} : (AckLiveIn(Owed, q) /\ ~Vanished(q)) => ~Overlap(rec, Owed[q]))   \* never an address another pod (still there) was told it holds
            /\ wr' = [p |-> p, rec |-> rec, by |-> "rpc"]
            /\ gcn' = [gcn EXCEPT ![p] = 0]
            /\ UNCHANGED gc
       \/ /\ GcInside
          /\ G("C09", GcMayTouch(p))                                                                 \* never a pod that exists
          /\ G("C09", disk[p] # NoRec /\ rec.c = disk[p].c /\ SameAlloc(rec, disk[p]))               \* the allocation itself is not altered
          /\ wr' = [p |-> p, rec |-> rec, by |-> "gc"]
          /\ gc' = [gc EXCEPT !.wrote = TRUE]
          /\ UNCHANGED gcn
       \/ /\ ~(\E r \in Rpcs : InHandler(r) /\ rpc[r].k = "add" /\ rpc[r].p = p /\ rpc[r].c = rec.c) /\ gc.st \notin {"in", "out"}
          /\ GA(FALSE)                                  \* a record written by nobody: no ADD of that sandbox is inside its handler, no pass runs
          /\ wr' = [p |-> p, rec |-> rec, by |-> "orphan"]
          /\ UNCHANGED <<gc, gcn>>
    /\ UNCHANGED <<cloud, pod, disk, acked, rpc, apierr, conv, up, dbf>>

DelBegin(p) ==
    /\ wr = NoWr
    /\ \/ \E r \in Rpcs :
            /\ InHandler(r) /\ rpc[r].k = "del" /\ rpc[r].p = p
            /\ StillInside(r)
            /\ G("C04", disk[p] = NoRec \/ disk[p].c = rpc[r].c)                                     \* a stale DEL releases nothing
            /\ wr' = [p |-> p, rec |-> NoRec, by |-> "rpc"]
            /\ UNCHANGED gc
       \/ /\ GcInside
          /\ G("C09", GcMayTouch(p))
          /\ wr' = [p |-> p, rec |-> NoRec, by |-> "gc"]
          /\ gc' = [gc EXCEPT !.wrote = TRUE]
       \/ /\ ~(\E r \in Rpcs : InHandler(r) /\ rpc[r].k = "del" /\ rpc[r].p = p) /\ gc.st \notin {"in", "out"}
          /\ GA(FALSE)                                  \* a record deleted by nobody
          /\ wr' = [p |-> p, rec |-> NoRec, by |-> "orphan"]
          /\ UNCHANGED gc
    /\ UNCHANGED <<cloud, pod, disk, acked, rpc, gcn, apierr, conv, up, dbf>>

WriteEnd(p, ok) ==
    /\ wr.p = p
    /\ disk' = IF ok THEN [disk EXCEPT ![p] = wr.rec] ELSE disk
    /\ rpc' = [r \in Rpcs |->
          IF ok /\ wr.by = "rpc" /\ InHandler(r) /\ rpc[r].p = p
          THEN IF wr.rec # NoRec /\ rpc[r].k = "add" /\ rpc[r].c = wr.rec.c THEN [rpc[r] EXCEPT !.wrec = wr.rec]
               ELSE IF wr.rec = NoRec /\ rpc[r].k = "del" THEN [rpc[r] EXCEPT !.wdel = TRUE]
               ELSE rpc[r]
          ELSE rpc[r]]
    /\ acked' = IF ok /\ wr.by = "gc" /\ wr.rec = NoRec THEN [acked EXCEPT ![p] = NoAck] ELSE acked   \* collected
    /\ gcn' = IF ok /\ wr.rec = NoRec THEN [gcn EXCEPT ![p] = 0] ELSE gcn
    /\ wr' = NoWr
    /\ dbf' = IF wr.by = "rpc" /\ wr.rec # NoRec THEN (IF ok THEN dbf \ {p} ELSE dbf \cup {p}) ELSE dbf
    /\ gc' = IF ~ok /\ wr.by = "gc" THEN [gc EXCEPT !.dirty = TRUE] ELSE gc        \* a pass whose database write failed is not an undisturbed pass
    /\ UNCHANGED <<cloud, pod, apierr, conv, up>>

RpcRet(r, ok, code, e, a, a6) ==
    /\ Open(r)
    /\ LET p == rpc[r].p
           k == rpc[r].k
           c == rpc[r].c
           seen == IF rpc[r].st = "in" THEN disk[p] ELSE rpc[r].snap        \* what a GET can have read
           mine == [c |-> c, e |-> e, a |-> a, a6 |-> a6]
       IN
       /\ (~ok /\ code = "processing") =>
             /\ G("C04", rpc[r].ovl)                                                                 \* only while another request of the pod is in flight
             /\ G("C04", rpc[r].st = "called")                                                       \* and without any effect
       /\ (k = "add" /\ ok) =>
             /\ rpc[r].st # "called"                                                                 \* (I)
             /\ G("C05", rpc[r].wrec # NoRec /\ SameAlloc(rpc[r].wrec, mine))                        \* the record was written before the reply
             /\ G("C04", AckLive(p) => SameAlloc(mine, acked[p]))
             /\ G("C04", rpc[r].wrec # NoRec /\ rpc[r].wrec.c = c)                                  \* the record names the sandbox of this (the latest successful) ADD
       /\ (k = "del" /\ ok /\ rpc[r].eff) => G("C05", rpc[r].wdel)                                   \* an acknowledged DEL is on disk
       /\ (k = "get" /\ ok /\ a # 0) =>
             G("C04", rpc[r].st # "called" /\ seen # NoRec /\ seen.c = c /\ SameAlloc(seen, mine))   \* only the current sandbox gets the allocation
       /\ acked' = IF k = "add" /\ ok /\ disk[p] # NoRec /\ disk[p].c = c /\ SameAlloc(disk[p], mine)
                      THEN [acked EXCEPT ![p] = mine]
                   ELSE IF k = "del" /\ ok /\ rpc[r].eff /\ disk[p] = NoRec
                      THEN [acked EXCEPT ![p] = NoAck]
                   ELSE acked
    /\ rpc' = [rpc EXCEPT ![r] = NoRpc]
    /\ UNCHANGED <<cloud, pod, disk, wr, gc, gcn, apierr, conv, up, dbf>>

(* ---------------------------------------------------------------- garbage collection *)

GcCall ==
    /\ up /\ gc.st = "idle"
    /\ gc' = [IdleGc EXCEPT !.st = "called"]
    /\ UNCHANGED <<cloud, pod, disk, wr, acked, rpc, gcn, apierr, conv, up, dbf>>

(* The pass holds the service lock (exclusive) and read the node-local pod list. *)
LocalPods(live, err) ==
    /\ gc.st = "called"
    /\ ~err => live = { p \in Pods : pod[p].loc = "run" }                                            \* (I)
    /\ gc' = [gc EXCEPT !.st = "in", !.live = live, !.lerr = err]
    /\ rpc' = [r \in Rpcs |-> IF rpc[r].st = "in" THEN [rpc[r] EXCEPT !.st = "outG", !.snap = disk[rpc[r].p]] ELSE rpc[r]]
    /\ UNCHANGED <<cloud, pod, disk, wr, acked, gcn, apierr, conv, up, dbf>>

(* cons: the API server was asked for a consistent read; otherwise (resourceVersion=0) it may answer from its watch   *)
(* cache, i.e. with what the node-local list showed already: that is not "the API server confirms the absence".       *)
PodExist(p, exist, err, cons) ==
    /\ gc.st \in {"in", "out"}
    /\ G("C09", gc.st = "in")
    /\ err = apierr                                                                                  \* (I)
    /\ ~err => exist = (IF cons THEN pod[p].api ELSE pod[p].loc = "run")                             \* (I) store / watch cache
    /\ gc' = [gc EXCEPT !.exist[p] = IF err THEN "err" ELSE IF exist THEN "yes" ELSE IF cons THEN "no" ELSE "stale"]
    /\ UNCHANGED <<cloud, pod, disk, wr, acked, rpc, gcn, apierr, conv, up, dbf>>

GcRet(err) ==
    /\ gc.st \in {"called", "in", "out"}
    /\ LET clean == gc.st # "called" /\ ~gc.dirty /\ ~gc.lerr /\ ~apierr
           due(p) == clean /\ Vanished(p) /\ disk[p] # NoRec /\ wr.p # p
       IN /\ G("C09", \A p \in Pods : due(p) => gcn[p] = 0)                                          \* gone within two passes
          /\ gcn' = [p \in Pods |-> IF due(p) THEN 1 ELSE IF disk[p] = NoRec THEN 0 ELSE gcn[p]]
          /\ conv' = (clean /\ ~gc.wrote /\ \A r \in Rpcs : ~Open(r))
    /\ gc' = IdleGc
    /\ UNCHANGED <<cloud, pod, disk, wr, acked, rpc, apierr, up, dbf>>

(* The periodic loop (startGarbageCollectionLoop) observed after one of its passes: it must still be there, waiting *)
(* for the next period - also when that pass failed (a pass that cannot proceed must not be the last one).          *)
GcLoop(alive) ==
    /\ G("C09", alive)
    /\ UNCHANGED vars

(* ---------------------------------------------------------------- observations *)

(* ex: pods whose ADD failed at the database write. The address such an ADD leaves with the pool until the retry or *)
(* the next restart is outside the quantifiers of C04 (no database faults), C05 (restart) and C09 (lenient).       *)
OwnersAgree(own, d, ak, ex) ==
    /\ \A x \in own : x.p \in ex \/ (x.p \in Pods /\ d[x.p] # NoRec /\ d[x.p].e = x.e /\ x.a \in {d[x.p].a, d[x.p].a6})   \* no owner without a record
    /\ \A p \in Pods : (AckLiveIn(ak, p) /\ ~Vanished(p)) =>                                       \* an acknowledged pod (still there) owns its address(es)
          /\ [e |-> ak[p].e, a |-> ak[p].a, p |-> p] \in own
          /\ (ak[p].a6 # 0 => [e |-> ak[p].e, a |-> ak[p].a6, p |-> p] \in own)

(* Two stored records never name one address: a restart replays both, whichever is replayed last owns the address. *)
NoDupRecords(d) == \A p, q \in Pods : (p # q /\ d[p] # NoRec /\ d[q] # NoRec) => ~Overlap(d[p], d[q])

(* Quiescent: no request, no pass, no write in progress.  own = the pool's own owner table. *)
Obs(diskobs, memobs, own, cl) ==
    /\ up /\ wr = NoWr /\ gc.st = "idle" /\ \A r \in Rpcs : ~Open(r)                                 \* (I)
    /\ cl = cloud                                                                                    \* (I) fake and specification agree
    /\ G("C05", diskobs = disk)                                                                      \* what was acknowledged is on disk
    /\ G("C05", memobs = diskobs)                                                                    \* the mirror equals the disk
    /\ G("C05", NoDupRecords(diskobs))
    /\ GA(OwnersAgree(own, disk, acked, dbf))
    /\ UNCHANGED vars

AckedAfterKill == Owed
DiskAfterKill == {disk} \cup (IF wr = NoWr THEN {} ELSE {[disk EXCEPT ![wr.p] = wr.rec]})            \* the write in progress: all or nothing

Crash ==
    /\ up
    /\ up' = FALSE
    /\ acked' = AckedAfterKill
    /\ rpc' = [r \in Rpcs |-> NoRpc]
    /\ gc' = IdleGc
    /\ conv' = FALSE
    /\ UNCHANGED <<cloud, pod, disk, wr, gcn, apierr, dbf>>

(* First snapshot of the daemon started again from the bolt file and the cloud. *)
Restart(diskobs, memobs, own) ==
    /\ ~up
    /\ G("C05", diskobs \in DiskAfterKill)                                                           \* acknowledged writes are durable, the unfinished one atomic
    /\ G("C05", memobs = diskobs)
    /\ G("C05", NoDupRecords(diskobs))
    /\ G("C05", OwnersAgree(own, diskobs, acked, {}))                                                    \* acknowledged pods own their address again, nothing else is owned
    /\ disk' = diskobs /\ wr' = NoWr /\ up' = TRUE /\ dbf' = {}
    /\ gcn' = [p \in Pods |-> 0]
    /\ UNCHANGED <<cloud, pod, acked, rpc, gc, apierr, conv>>

(* What a daemon restarted from the state of this very instant believes (diskobs, own) and hands out *)
(* (adds: one follow-up ADD per existing pod, in sequence).  No state change.                        *)
Probe(diskobs, own, adds) ==
    /\ up
    /\ LET ak == AckedAfterKill
           n == Len(adds)
       IN /\ G("C05", diskobs \in DiskAfterKill)
          /\ G("C05", NoDupRecords(diskobs))
          /\ G("C05", OwnersAgree(own, diskobs, ak, {}))
          /\ G("C05", \A i \in 1..n : adds[i].ok =>
                 /\ (AckLiveIn(ak, adds[i].p) => SameAlloc(adds[i], ak[adds[i].p]))                  \* same address again
                 /\ \A q \in Pods \ {adds[i].p} : AckLiveIn(ak, q) => ~Overlap(adds[i], ak[q])     \* never another pod's
                 /\ \A j \in 1..(i - 1) : (adds[j].ok /\ adds[j].p # adds[i].p) => ~Overlap(adds[i], adds[j]))
    /\ UNCHANGED vars

(* The bolt file written by a bare stream of Put/Delete (kill sampling): no request attribution. *)
RawBegin(p, rec) ==
    /\ wr = NoWr
    /\ wr' = [p |-> p, rec |-> rec, by |-> "raw"]
    /\ UNCHANGED <<cloud, pod, disk, acked, rpc, gc, gcn, apierr, conv, up, dbf>>

-----------------------------------------------------------------------------
(* State invariants (theorems of the guarded specification) *)
AckedExclusive == \A p, q \in Pods : (p # q /\ AckLiveIn(Owed, p) /\ AckLiveIn(Owed, q)) => ~Overlap(Owed[p], Owed[q])
AckedOnDisk == \A p \in Pods :
                  (acked[p] # NoAck /\ wr.p # p /\ ~(\E r \in Rpcs : InHandler(r) /\ rpc[r].p = p) /\ gc.st = "idle" /\ up)
                  => (disk[p] # NoRec /\ (AckLive(p) => SameAlloc(disk[p], acked[p])))
OneWriter == \A r, q \in Rpcs : (r # q /\ rpc[r].st = "in" /\ rpc[q].st = "in") => rpc[r].p # rpc[q].p
GcAlone == gc.st = "in" => \A r \in Rpcs : rpc[r].st # "in"
=============================================================================
