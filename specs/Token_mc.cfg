SPECIFICATION Spec
CONSTANTS
  Calls = {1, 2}
  Tok = {1, 2, 3, 4}
  Cap = 1
  Params = {3, 4, 19, 20, 17}
INVARIANTS TypeOK InflightDistinct NoCrossParamShare FailedSound
PROPERTIES RetryReuses OkTokenRetired
CHECK_DEADLOCK FALSE
