SPECIFICATION MCSpec
CONSTANTS
  Enforce = {"C13"}
  NsIds = {0, 1, 2}
  Atts = {1, 2, 3, 4}
  MCPods = {1, 2}
  MCDps = {"policy", "ipvlan"}
  MCFams = {"v4", "v6", "dual"}
  MCTrunk = {FALSE, TRUE}
  MCExtra = {0, 1}
  MCMulti = {FALSE}
  MCHow = {"cni"}
  MCSteal = FALSE
  MCEniGone = FALSE
  MCEnis = {1}
  BadDesign = ""
  GenLen = 0
  GenOn = FALSE
INVARIANT InvC13
CHECK_DEADLOCK FALSE
