INIT GInit
NEXT GNext
CONSTANTS
  Calls = {1, 2, 3}
  Tok = {1, 2, 3, 4, 5, 6, 7, 8, 9, 10, 11, 12}
  Cap = 2
  Params = {1, 2, 3, 4, 5, 6, 7, 8, 9, 10, 11, 12, 13, 14, 15, 16, 17, 18, 19, 20, 21}
  MaxLen = 24
CHECK_DEADLOCK FALSE
