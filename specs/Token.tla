------------------------------- MODULE Token -------------------------------
(* C16 - a retried cloud mutation reuses its idempotency token.               *)
(*                                                                             *)
(* Observable alphabet: a caller invokes a create-interface / assign-address   *)
(* API with a parameter set; the cloud receives a request carrying a client    *)
(* token; the cloud answers ok / fail; the call returns to the caller.         *)
(* The token is chosen somewhere between invocation and the request reaching   *)
(* the cloud (Pick is an internal step: the generator is a lock-protected      *)
(* cache, the request is built outside any lock).                              *)
(*                                                                             *)
(* Parameter sets are rows of ParamTable; two rows are the same parameters     *)
(* when all fields agree with tags compared as a SET of key/value pairs (a Go  *)
(* map has no order). Key(p) is the canonical representative.                  *)
EXTENDS Integers, FiniteSets, Sequences, TLC

CONSTANTS Calls,      \* call slots (concurrent callers)
          Tok,        \* token universe (small naturals; uuids are numbered by first appearance)
          Cap         \* number of parameter sets the failed-token cache can remember

ParamTable == <<
  [api |-> "create",  vsw |-> "vsw-1", sgs |-> <<"sg-1">>,         eni |-> "",      ipc |-> 1, ip6 |-> 0, trunk |-> FALSE, tags |-> <<>>],
  [api |-> "create",  vsw |-> "vsw-1", sgs |-> <<"sg-1">>,         eni |-> "",      ipc |-> 1, ip6 |-> 0, trunk |-> FALSE, tags |-> << <<"k1", "v1">> >>],
  [api |-> "create",  vsw |-> "vsw-1", sgs |-> <<"sg-1", "sg-2">>, eni |-> "",      ipc |-> 3, ip6 |-> 3, trunk |-> FALSE, tags |-> << <<"k1", "v1">>, <<"k2", "v2">>, <<"k3", "v3">> >>],
  [api |-> "create",  vsw |-> "vsw-1", sgs |-> <<"sg-1", "sg-2">>, eni |-> "",      ipc |-> 3, ip6 |-> 3, trunk |-> FALSE, tags |-> << <<"k3", "v3">>, <<"k1", "v1">>, <<"k2", "v2">> >>],
  [api |-> "create",  vsw |-> "vsw-1", sgs |-> <<"sg-1", "sg-2">>, eni |-> "",      ipc |-> 3, ip6 |-> 3, trunk |-> FALSE, tags |-> << <<"k1", "v1">>, <<"k2", "v2">>, <<"k3", "OTHER">> >>],
  [api |-> "create",  vsw |-> "vsw-1", sgs |-> <<"sg-1", "sg-2">>, eni |-> "",      ipc |-> 3, ip6 |-> 3, trunk |-> TRUE,  tags |-> << <<"k1", "v1">>, <<"k2", "v2">>, <<"k3", "v3">> >>],
  [api |-> "create",  vsw |-> "vsw-2", sgs |-> <<"sg-1">>,         eni |-> "",      ipc |-> 1, ip6 |-> 0, trunk |-> FALSE, tags |-> << <<"k1", "v1">>, <<"k2", "v2">> >>],
  [api |-> "assign4", vsw |-> "",      sgs |-> <<>>,               eni |-> "eni-1", ipc |-> 2, ip6 |-> 0, trunk |-> FALSE, tags |-> <<>>],
  [api |-> "assign4", vsw |-> "",      sgs |-> <<>>,               eni |-> "eni-1", ipc |-> 3, ip6 |-> 0, trunk |-> FALSE, tags |-> <<>>],
  [api |-> "assign4", vsw |-> "",      sgs |-> <<>>,               eni |-> "eni-2", ipc |-> 2, ip6 |-> 0, trunk |-> FALSE, tags |-> <<>>],
  [api |-> "assign6", vsw |-> "",      sgs |-> <<>>,               eni |-> "eni-1", ipc |-> 0, ip6 |-> 2, trunk |-> FALSE, tags |-> <<>>],
  [api |-> "assign6", vsw |-> "",      sgs |-> <<>>,               eni |-> "eni-2", ipc |-> 0, ip6 |-> 2, trunk |-> FALSE, tags |-> <<>>],
  [api |-> "eflo_create", vsw |-> "vsw-1", sgs |-> <<"sg-1">>,     eni |-> "",      ipc |-> 1, ip6 |-> 0, trunk |-> FALSE, tags |-> <<>>],
  [api |-> "eflo_create", vsw |-> "vsw-2", sgs |-> <<"sg-1">>,     eni |-> "",      ipc |-> 1, ip6 |-> 0, trunk |-> FALSE, tags |-> <<>>],
  [api |-> "eflo_assign", vsw |-> "",  sgs |-> <<>>,               eni |-> "leni-1", ipc |-> 1, ip6 |-> 0, trunk |-> FALSE, tags |-> <<>>],
  [api |-> "eflo_assign", vsw |-> "",  sgs |-> <<>>,               eni |-> "leni-2", ipc |-> 1, ip6 |-> 0, trunk |-> FALSE, tags |-> <<>>],
  [api |-> "assign4", vsw |-> "",      sgs |-> <<>>,               eni |-> "",      ipc |-> 1, ip6 |-> 0, trunk |-> FALSE, tags |-> <<>>],
  [api |-> "create",  vsw |-> "",      sgs |-> <<"sg-1">>,         eni |-> "",      ipc |-> 1, ip6 |-> 0, trunk |-> FALSE, tags |-> <<>>],
  [api |-> "create",  vsw |-> "vsw-1", sgs |-> <<"sg-1">>,         eni |-> "",      ipc |-> 2, ip6 |-> 0, trunk |-> FALSE, tags |-> << <<"k1", "same">>, <<"k2", "same">>, <<"k3", "same">>, <<"k4", "same">> >>],
  [api |-> "create",  vsw |-> "vsw-1", sgs |-> <<"sg-1">>,         eni |-> "",      ipc |-> 2, ip6 |-> 0, trunk |-> FALSE, tags |-> << <<"k4", "same">>, <<"k2", "same">>, <<"k1", "same">>, <<"k3", "same">> >>],
  [api |-> "create",  vsw |-> "vsw-1", sgs |-> <<"sg-1">>,         eni |-> "",      ipc |-> 2, ip6 |-> 0, trunk |-> FALSE, tags |-> << <<"a", "x">>, <<"b", "true">>, <<"c", "true">>, <<"d", "">>, <<"e", "">> >>]
>>

CONSTANT Params       \* subset of 1..Len(ParamTable) used by a configuration

Range(s) == { s[i] : i \in 1..Len(s) }
SameParams(i, j) ==
    LET a == ParamTable[i]  b == ParamTable[j] IN
    /\ a.api = b.api /\ a.vsw = b.vsw /\ a.sgs = b.sgs /\ a.eni = b.eni
    /\ a.ipc = b.ipc /\ a.ip6 = b.ip6 /\ a.trunk = b.trunk
    /\ Range(a.tags) = Range(b.tags)
KeyF == [p \in 1..Len(ParamTable) |->
            CHOOSE q \in 1..Len(ParamTable) : SameParams(p, q) /\ \A r \in 1..Len(ParamTable) : SameParams(p, r) => q <= r]
Key(p) == KeyF[p]

(* Requests the API layer refuses before anything is sent. *)
ValidRow(p) == LET a == ParamTable[p] IN
    CASE a.api = "create"      -> a.vsw # "" /\ Len(a.sgs) > 0
      [] a.api = "eflo_create" -> a.vsw # "" /\ Len(a.sgs) > 0 /\ a.ipc <= 1
      [] a.api = "assign4"     -> a.eni # "" /\ a.ipc > 0
      [] a.api = "assign6"     -> a.eni # "" /\ a.ip6 > 0
      [] a.api = "eflo_assign" -> a.eni # "" /\ a.ipc = 1
      [] OTHER -> FALSE

ValidF == [p \in 1..Len(ParamTable) |-> ValidRow(p)]
Valid(p) == ValidF[p]

VARIABLES pc,       \* pc[c]  \in {"idle", "invoked", "picked", "sent", "responded", "settled"}
          par,      \* par[c] parameter row of the call in slot c
          tok,      \* tok[c] token of the call in slot c (0 = none)
          res,      \* res[c] \in {"none", "ok", "fail"}
          failed,   \* failed[k]: tokens of failed attempts for canonical parameters k, available for reuse
          used,     \* tokens ever handed out
          owner     \* owner[t]: canonical parameters token t was first issued for (0 = never issued)

vars == <<pc, par, tok, res, failed, used, owner>>

Keys == { Key(p) : p \in Params }

Init == /\ pc = [c \in Calls |-> "idle"]
        /\ par = [c \in Calls |-> 0]
        /\ tok = [c \in Calls |-> 0]
        /\ res = [c \in Calls |-> "none"]
        /\ failed = [k \in Keys |-> {}]
        /\ used = {}
        /\ owner = [t \in Tok |-> 0]

Invoke(c, p) ==
    /\ pc[c] = "idle"
    /\ pc' = [pc EXCEPT ![c] = "invoked"]
    /\ par' = [par EXCEPT ![c] = p]
    /\ UNCHANGED <<tok, res, failed, used, owner>>

(* The property clause: when a failed token for these parameters is remembered, the new attempt *)
(* takes one of them; otherwise the token has never been used by anyone.                          *)
Pick(c) ==
    /\ pc[c] = "invoked"
    /\ Valid(par[c])
    /\ LET k == Key(par[c]) IN
       IF failed[k] # {}
       THEN \E t \in failed[k] :
              /\ tok' = [tok EXCEPT ![c] = t]
              /\ failed' = [failed EXCEPT ![k] = @ \ {t}]
              /\ UNCHANGED <<used, owner>>
       ELSE \E t \in Tok \ used :
              /\ tok' = [tok EXCEPT ![c] = t]
              /\ used' = used \cup {t}
              /\ owner' = [owner EXCEPT ![t] = k]
              /\ UNCHANGED failed
    /\ pc' = [pc EXCEPT ![c] = "picked"]
    /\ UNCHANGED <<par, res>>

RejectInvalid(c) ==
    /\ pc[c] = "invoked"
    /\ ~Valid(par[c])
    /\ pc' = [pc EXCEPT ![c] = "idle"]
    /\ UNCHANGED <<par, tok, res, failed, used, owner>>

(* The request reaches the cloud carrying token t. *)
Send(c, t) ==
    /\ pc[c] = "picked"
    /\ tok[c] = t
    /\ pc' = [pc EXCEPT ![c] = "sent"]
    /\ UNCHANGED <<par, tok, res, failed, used, owner>>

Respond(c, o) ==
    /\ pc[c] = "sent"
    /\ o \in {"ok", "fail"}
    /\ res' = [res EXCEPT ![c] = o]
    /\ pc' = [pc EXCEPT ![c] = "responded"]
    /\ UNCHANGED <<par, tok, failed, used, owner>>

(* After the answer the API layer remembers a failed attempt's token for the retry (internal   *)
(* step: it happens before the call returns, not atomically with the answer). The cache holds   *)
(* at most Cap parameter sets; remembering one more forgets some other (policy-free: any).      *)
Settle(c) ==
    /\ pc[c] = "responded"
    /\ LET k == Key(par[c]) IN
       IF res[c] = "fail"
       THEN LET holders == { q \in Keys : failed[q] # {} } IN
            IF k \in holders \/ Cardinality(holders) < Cap
            THEN failed' = [failed EXCEPT ![k] = @ \cup {tok[c]}]
            ELSE \E q \in holders : failed' = [failed EXCEPT ![k] = {tok[c]}, ![q] = {}]
       ELSE UNCHANGED failed
    /\ pc' = [pc EXCEPT ![c] = "settled"]
    /\ UNCHANGED <<par, tok, res, used, owner>>

(* Return to the caller. *)
Return(c) ==
    /\ pc[c] = "settled"
    /\ pc' = [pc EXCEPT ![c] = "idle"]
    /\ tok' = [tok EXCEPT ![c] = 0]
    /\ res' = [res EXCEPT ![c] = "none"]
    /\ UNCHANGED <<par, failed, used, owner>>

Next == \E c \in Calls :
           \/ \E p \in Params : Invoke(c, p)
           \/ Pick(c) \/ RejectInvalid(c)
           \/ Send(c, tok[c])
           \/ \E o \in {"ok", "fail"} : Respond(c, o)
           \/ Settle(c)
           \/ Return(c)

Spec == Init /\ [][Next]_vars

-----------------------------------------------------------------------------
InFlight(c) == pc[c] \in {"picked", "sent", "responded"}   \* token held by a live attempt

TypeOK == /\ pc \in [Calls -> {"idle", "invoked", "picked", "sent", "responded", "settled"}]
          /\ tok \in [Calls -> Tok \cup {0}]
          /\ used \subseteq Tok

(* distinct requests in flight at the same time never share a token *)
InflightDistinct == \A c, d \in Calls : c # d /\ InFlight(c) /\ InFlight(d) => tok[c] # tok[d]
(* requests with different parameters never share a token *)
NoCrossParamShare == \A c \in Calls : InFlight(c) => owner[tok[c]] = Key(par[c])
(* a remembered token is not in flight and belongs to these parameters *)
FailedSound == \A k \in Keys : \A t \in failed[k] : owner[t] = k /\ \A c \in Calls : InFlight(c) => tok[c] # t
(* the retry carries the token of a failed attempt when one is remembered *)
RetryReuses == [][\A c \in Calls : pc[c] = "invoked" /\ pc'[c] = "picked" /\ failed[Key(par[c])] # {}
                      => tok'[c] \in failed[Key(par[c])]]_vars
(* a token acknowledged with ok is never issued again *)
OkTokenRetired == [][\A c \in Calls : pc[c] = "responded" /\ res[c] = "ok" /\ pc'[c] = "settled"
                      => \A k \in Keys : tok[c] \notin failed'[k]]_vars

StateBound == Cardinality(used) <= Cardinality(Tok)
=============================================================================
