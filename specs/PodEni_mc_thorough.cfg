SPECIFICATION MCSpec
CONSTANTS
  Names = {1}
  Enis = {1, 2}
  Calls = {1, 2}
  Enforce = {"C10", "C11"}
  Lenient = TRUE
  Grace = 2
  Slack = 0
  MaxUid = 2
  MaxT = 2
  MaxDepth = 2
  EnvDepth = 1
  Nodes = {1}
  Kinds = {"e", "t"}
  TTL = 2
  MaxLen = 0
  GenOn = FALSE
  StrayOn = FALSE
INVARIANTS NoUnrecorded FixedKept FramesSane
CHECK_DEADLOCK FALSE
