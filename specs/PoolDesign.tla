----------------------------- MODULE PoolDesign -----------------------------
(* The node pool's DESIGN at the grain of its critical sections (pkg/eni/local.go,       *)
(* manager.go): one action per lock-protected section or external call.  NodePool.tla    *)
(* states what an observer may see; this module states how the implementation is built,  *)
(* so that TLC can explore every interleaving of its goroutines for a few requests and   *)
(* decide whether the design itself guarantees C01 / C06 / C07.                          *)
(*                                                                                       *)
(* Goroutines modelled: the caller's Manager.Allocate (offer, per-request receiver,      *)
(* collector, return), Local.Allocate's direct-path commit goroutine, one allocWorker    *)
(* per queued request, factoryAllocWorker, factoryDisposeWorker, Manager.syncPool's      *)
(* Dispose, Local.sync, the daemon's Release.  IPv4 only; one address per request.       *)
(*                                                                                       *)
(* The switches Fix* select the behaviour before / after the defects found by the        *)
(* conformance checks were repaired (see DESIGN.md section 6): with a switch FALSE TLC   *)
(* reproduces the defect at design level, with all TRUE the invariants hold.             *)
EXTENDS Integers, FiniteSets, Sequences, TLC

CONSTANTS Pods, Reqs, Slots, Addrs, Cap, Batch, MaxIdle,
          FixCollector,    \* D5 : Manager.Allocate forwards a received result even if the context is done
          FixPinned,       \* D13: an empty slot refuses a request pinned to an interface
          FixKeep,         \* D14: a cancelled repeated ADD keeps the address the pod already holds
          FixDangling,     \* D17: canDispose counts waiters whose job was popped (danging)
          FixABA,          \* D12: an address re-assigned by the cloud while a pod still holds it keeps its owner
          DriftOn,         \* environment: addresses may be removed remotely (and the periodic sync runs)
          Healthy          \* the cloud never fails (used for the liveness question)

NoIP == [owner |-> 0, st |-> "none", primary |-> FALSE]

VARIABLES cloud,   \* cloud[s]: set of addresses the cloud has on the interface of slot s ({} and eni[s] = FALSE: no interface)
          eni,     \* eni[s]: the slot has an interface (attached in the cloud and known to the pool)
          status,  \* status[s] \in {"init", "creating", "inUse", "deleting"}
          ips,     \* ips[s][a]: [owner (pod or 0), st \in {"none","valid","invalid","deleting"}, primary]
          queue,   \* queue[s]: requests in allocatingV4 (jobs the factory still has to serve)
          dang,    \* dang[s]: requests whose job was popped (danging) and that still wait for an address
          fop,     \* fop[s]: factory call in flight: [k |-> "none"|"create"|"assign"|"unassign"|"delete", n, addrs]
          req,     \* req[r]: [pc, pod, pin, slot, addr, keep, cancelled, res]
          held,    \* held[p]: <<slot, addr>> the daemon was told pod p holds, or <<0, 0>>
          gone     \* history: <<slot, addr>> pairs removed remotely since they were last assigned

vars == <<cloud, eni, status, ips, queue, dang, fop, req, held, gone>>

NoReq == [pc |-> "new", pod |-> 0, pin |-> 0, slot |-> 0, addr |-> 0, keep |-> FALSE, cancelled |-> FALSE, res |-> 0]
NoOp  == [k |-> "none", n |-> 0, addrs |-> {}]

Tracked(s) == { a \in Addrs : ips[s][a].st # "none" }
Owned(s, p) == { a \in Tracked(s) : ips[s][a].owner = p }
InUse(s) == { a \in Tracked(s) : ips[s][a].owner # 0 }
Idle(s) == Tracked(s) \ InUse(s)
Avail(s, p) == IF Owned(s, p) # {} THEN Owned(s, p)                            \* PeekAvailable: the pod's own address first ...
               ELSE { a \in Tracked(s) : ips[s][a].st = "valid" /\ ips[s][a].owner = 0 }   \* ... else any valid idle one
LiveQ(s) == { r \in queue[s] : req[r].pc = "queued" }
LiveD(s) == { r \in dang[s] : req[r].pc = "queued" }
CanDispose(s) == InUse(s) = {} /\ LiveQ(s) = {} /\ (FixDangling => LiveD(s) = {})
UsedEverywhere == UNION { cloud[s] : s \in Slots }

Init == /\ cloud = [s \in Slots |-> {}] /\ eni = [s \in Slots |-> FALSE]
        /\ status = [s \in Slots |-> "init"]
        /\ ips = [s \in Slots |-> [a \in Addrs |-> NoIP]]
        /\ queue = [s \in Slots |-> {}] /\ dang = [s \in Slots |-> {}]
        /\ fop = [s \in Slots |-> NoOp]
        /\ req = [r \in Reqs |-> NoReq]
        /\ held = [p \in Pods |-> <<0, 0>>]
        /\ gone = {}

(* ------------------------------------------------------------------ Manager.Allocate: offer to the slots *)
(* Local.Allocate on slot s for request r of pod p pinned to interface of slot pin (0: not pinned).          *)
Refuses(s, p, pin) ==
    \/ status[s] = "deleting"
    \/ pin # 0 /\ (IF eni[s] THEN s # pin ELSE FixPinned)                     \* NetworkInterfaceMismatch
    \/ Avail(s, p) = {} /\ Cardinality(Tracked(s)) + Cardinality(LiveQ(s)) >= Cap   \* Full

Call(r, p) ==
    /\ req[r].pc = "new" /\ \A q \in Reqs : req[q].pod = p => req[q].pc \in {"new", "done"}   \* the daemon serialises a pod's requests
    /\ LET pin == held[p][1] IN                                               \* daemon.setRequest pins the stored interface
       \/ /\ \A s \in Slots : Refuses(s, p, pin)
          /\ req' = [req EXCEPT ![r] = [NoReq EXCEPT !.pc = "done", !.pod = p]]   \* "no eni can handle the allocation"
          /\ UNCHANGED <<ips, queue>>
       \/ \E s \in Slots :                                                    \* policy-free: any slot that accepts
             /\ ~Refuses(s, p, pin)
             /\ IF Avail(s, p) # {}
                THEN \E a \in Avail(s, p) :                                   \* direct path: owner set under the lock
                        /\ ips' = [ips EXCEPT ![s][a].owner = p]
                        /\ req' = [req EXCEPT ![r] = [NoReq EXCEPT !.pc = "direct", !.pod = p, !.pin = pin, !.slot = s, !.addr = a,
                                                                    !.keep = (ips[s][a].owner = p)]]
                        /\ UNCHANGED queue
                ELSE /\ queue' = [queue EXCEPT ![s] = @ \cup {r}]
                     /\ req' = [req EXCEPT ![r] = [NoReq EXCEPT !.pc = "queued", !.pod = p, !.pin = pin, !.slot = s]]
                     /\ UNCHANGED ips
    /\ UNCHANGED <<cloud, eni, status, dang, fop, held, gone>>

Cancel(r) == /\ req[r].pc \in {"direct", "queued", "sent"} /\ ~req[r].cancelled
             /\ req' = [req EXCEPT ![r].cancelled = TRUE]
             /\ UNCHANGED <<cloud, eni, status, ips, queue, dang, fop, held, gone>>

(* commit / commitKeep: select { ctx.Done -> release and close | send } ; with both ready Go picks either *)
CommitOutcome(r, s, a, keep) ==
    \/ /\ req[r].cancelled                                                    \* cancel branch
       /\ ips' = IF keep /\ FixKeep THEN ips ELSE [ips EXCEPT ![s][a].owner = IF @ = req[r].pod THEN 0 ELSE @]
       /\ req' = [req EXCEPT ![r].pc = "closed"]
    \/ /\ ips' = ips                                                          \* send branch (the manager's receiver takes it)
       /\ req' = [req EXCEPT ![r].pc = "sent", ![r].addr = a, ![r].slot = s]

CommitDirect(r) ==
    /\ req[r].pc = "direct"
    /\ CommitOutcome(r, req[r].slot, req[r].addr, req[r].keep)
    /\ UNCHANGED <<cloud, eni, status, queue, dang, fop, held, gone>>

(* allocWorker: under the lock, ctx check first, then peek + commit in one critical section; on exit the request *)
(* leaves the queues (switchIPv4 may move one danging request back into the queue)                               *)
WorkerExit(s, r) ==
    /\ queue' = [queue EXCEPT ![s] = IF r \in @ /\ dang[s] # {} THEN (@ \ {r}) \cup {CHOOSE d \in dang[s] : TRUE} ELSE @ \ {r}]
    /\ dang' = [dang EXCEPT ![s] = IF r \in queue[s] /\ @ # {} THEN @ \ {CHOOSE d \in dang[s] : TRUE} ELSE @ \ {r}]

WorkerStep(r) ==
    /\ req[r].pc = "queued"
    /\ LET s == req[r].slot  p == req[r].pod IN
       \/ /\ req[r].cancelled                                                 \* close(respCh)
          /\ req' = [req EXCEPT ![r].pc = "closed"]
          /\ WorkerExit(s, r)
          /\ UNCHANGED ips
       \/ /\ ~req[r].cancelled /\ Avail(s, p) # {}
          /\ \E a \in Avail(s, p) :
                LET keep == ips[s][a].owner = p IN
                \/ /\ ips' = [ips EXCEPT ![s][a].owner = p]                   \* commit: send
                   /\ req' = [req EXCEPT ![r].pc = "sent", ![r].addr = a]
                   /\ WorkerExit(s, r)
    /\ UNCHANGED <<cloud, eni, status, fop, held, gone>>

(* the manager's per-request goroutine: select { ctx.Done | recv } then forwards to the collector *)
MgrRecv(r) ==
    /\ req[r].pc \in {"sent", "closed"} \/ (req[r].cancelled /\ req[r].pc \in {"direct", "queued"})
    /\ \/ /\ req[r].pc = "sent"
          /\ \/ req' = [req EXCEPT ![r].pc = "got", ![r].res = req[r].addr]              \* result reaches the collector
             \/ /\ req[r].cancelled /\ ~FixCollector                                    \* D5: dropped between the two selects
                /\ req' = [req EXCEPT ![r].pc = "got", ![r].res = 0]
       \/ /\ req[r].pc = "closed"
          /\ req' = [req EXCEPT ![r].pc = "got", ![r].res = 0]
       \/ /\ req[r].cancelled /\ req[r].pc \in {"direct", "queued"}                     \* ctx.Done wins, nothing received
          /\ req' = [req EXCEPT ![r].pc = IF @ = "direct" THEN "abandonedD" ELSE "abandonedQ"]
    /\ UNCHANGED <<cloud, eni, status, ips, queue, dang, fop, held, gone>>

(* an abandoned request's pool-side goroutine still runs: it sees ctx.Done *)
AbandonedFinish(r) ==
    /\ req[r].pc \in {"abandonedD", "abandonedQ"}
    /\ LET s == req[r].slot IN
       IF req[r].pc = "abandonedD"
       THEN /\ ips' = IF req[r].keep /\ FixKeep THEN ips ELSE [ips EXCEPT ![s][req[r].addr].owner = IF @ = req[r].pod THEN 0 ELSE @]
            /\ UNCHANGED <<queue, dang>>
       ELSE /\ WorkerExit(s, r) /\ UNCHANGED ips
    /\ req' = [req EXCEPT ![r].pc = "got", ![r].res = 0]
    /\ UNCHANGED <<cloud, eni, status, fop, held, gone>>

(* Manager.Allocate returns to the daemon.  Success only without error; with an error the daemon rolls back what *)
(* the call returned (AllocIP: eniMgr.Release(resp)).                                                            *)
Return(r) ==
    /\ req[r].pc = "got"
    /\ LET p == req[r].pod  s == req[r].slot  a == req[r].res IN
       IF a # 0 /\ ~req[r].cancelled
       THEN /\ held' = [held EXCEPT ![p] = <<s, a>>]
            /\ UNCHANGED ips
       ELSE /\ ips' = IF a # 0 THEN [ips EXCEPT ![s][a].owner = IF @ = p THEN 0 ELSE @] ELSE ips   \* roll-back release
            /\ held' = IF a # 0 /\ held[p] = <<s, a>> THEN [held EXCEPT ![p] = <<0, 0>>] ELSE held
    /\ req' = [req EXCEPT ![r].pc = "done"]
    /\ UNCHANGED <<cloud, eni, status, queue, dang, fop, gone>>

Release(p) ==
    /\ held[p] # <<0, 0>> /\ \A q \in Reqs : req[q].pod = p => req[q].pc \in {"new", "done"}
    /\ LET s == held[p][1]  a == held[p][2] IN
       ips' = IF eni[s] THEN [ips EXCEPT ![s][a].owner = IF @ = p THEN 0 ELSE @] ELSE ips
    /\ held' = [held EXCEPT ![p] = <<0, 0>>]
    /\ UNCHANGED <<cloud, eni, status, queue, dang, fop, req, gone>>

(* ------------------------------------------------------------------ factoryAllocWorker *)
FactoryBegin(s) ==
    /\ fop[s] = NoOp /\ LiveQ(s) # {} /\ status[s] \in {"init", "inUse"}
    /\ IF ~eni[s]
       THEN /\ status' = [status EXCEPT ![s] = "creating"]
            /\ fop' = [fop EXCEPT ![s] = [k |-> "create", n |-> IF Cardinality(LiveQ(s)) < Batch THEN Cardinality(LiveQ(s)) ELSE Batch, addrs |-> {}]]
       ELSE /\ fop' = [fop EXCEPT ![s] = [k |-> "assign", n |-> IF Cardinality(LiveQ(s)) < Batch THEN Cardinality(LiveQ(s)) ELSE Batch, addrs |-> {}]]
            /\ UNCHANGED status
    /\ UNCHANGED <<cloud, eni, ips, queue, dang, req, held, gone>>

PopJobs(s, n) ==   \* popNIPv4Jobs: the first n jobs move to danging (order abstracted: any n)
    \E J \in SUBSET queue[s] : /\ Cardinality(J) = (IF Cardinality(queue[s]) < n THEN Cardinality(queue[s]) ELSE n)
                              /\ queue' = [queue EXCEPT ![s] = @ \ J]
                              /\ dang' = [dang EXCEPT ![s] = @ \cup J]

FactoryEnd(s) ==
    /\ fop[s].k \in {"create", "assign"}
    /\ \E ok \in (IF Healthy THEN {TRUE} ELSE BOOLEAN) :
         IF ok /\ Cardinality(Addrs \ UsedEverywhere) >= fop[s].n
         THEN \E A \in SUBSET (Addrs \ UsedEverywhere) :
                /\ Cardinality(A) = fop[s].n
                /\ cloud' = [cloud EXCEPT ![s] = @ \cup A]
                /\ ips' = [ips EXCEPT ![s] = [a \in Addrs |-> IF a \in A
                               THEN (IF FixABA /\ ips[s][a].owner # 0 THEN [ips[s][a] EXCEPT !.st = "valid"]   \* PutValid keeps an address in use
                                     ELSE [owner |-> 0, st |-> "valid", primary |-> (fop[s].k = "create" /\ a = CHOOSE m \in A : \A x \in A : m <= x)])
                               ELSE @[a]]]
                /\ gone' = gone \ { <<s, a>> : a \in A }
                /\ eni' = [eni EXCEPT ![s] = TRUE]
                /\ status' = [status EXCEPT ![s] = "inUse"]
                /\ PopJobs(s, fop[s].n)
         ELSE /\ status' = [status EXCEPT ![s] = IF fop[s].k = "create" THEN "init" ELSE @]     \* failed before any effect
              /\ UNCHANGED <<cloud, ips, eni, queue, dang, gone>>
    /\ fop' = [fop EXCEPT ![s] = NoOp]
    /\ UNCHANGED <<req, held>>

(* ------------------------------------------------------------------ syncPool / Dispose / factoryDisposeWorker *)
TotalIdle == Cardinality(UNION { { <<s, a>> : a \in Idle(s) } : s \in { t \in Slots : eni[t] /\ status[t] = "inUse" } })

Dispose(s) ==
    /\ eni[s] /\ status[s] = "inUse" /\ TotalIdle > MaxIdle
    /\ \/ /\ CanDispose(s) /\ TotalIdle - MaxIdle >= Cardinality(Tracked(s))             \* the whole interface
          /\ status' = [status EXCEPT ![s] = "deleting"]
          /\ UNCHANGED ips
       \/ \E a \in Idle(s) : /\ ~ips[s][a].primary /\ ips[s][a].st \in {"valid", "invalid"}  \* one idle address
                             /\ ips' = [ips EXCEPT ![s][a].st = "deleting"]
                             /\ UNCHANGED status
    /\ UNCHANGED <<cloud, eni, queue, dang, fop, req, held, gone>>

DisposeBegin(s) ==
    /\ fop[s] = NoOp /\ eni[s]
    /\ IF status[s] = "deleting"
       THEN /\ CanDispose(s)
            /\ fop' = [fop EXCEPT ![s] = [k |-> "delete", n |-> 0, addrs |-> {}]]
       ELSE LET D == { a \in Tracked(s) : ips[s][a].st = "deleting" } IN
            /\ D # {}
            /\ fop' = [fop EXCEPT ![s] = [k |-> "unassign", n |-> 0, addrs |-> D]]
    /\ UNCHANGED <<cloud, eni, status, ips, queue, dang, req, held, gone>>

DisposeEnd(s) ==
    /\ fop[s].k \in {"unassign", "delete"}
    /\ IF fop[s].k = "unassign"
       THEN /\ cloud' = [cloud EXCEPT ![s] = @ \ fop[s].addrs]
            /\ ips' = [ips EXCEPT ![s] = [a \in Addrs |-> IF a \in fop[s].addrs THEN NoIP ELSE @[a]]]
            /\ UNCHANGED <<eni, status>>
       ELSE /\ cloud' = [cloud EXCEPT ![s] = {}]
            /\ ips' = [ips EXCEPT ![s] = [a \in Addrs |-> NoIP]]
            /\ eni' = [eni EXCEPT ![s] = FALSE]
            /\ status' = [status EXCEPT ![s] = "init"]
    /\ fop' = [fop EXCEPT ![s] = NoOp]
    /\ UNCHANGED <<queue, dang, req, held, gone>>

(* ------------------------------------------------------------------ environment drift and the periodic sync *)
RemoteRemove(s) ==
    /\ DriftOn /\ eni[s] /\ Cardinality(gone) < 1
    /\ \E a \in cloud[s] : /\ ~ips[s][a].primary
                           /\ cloud' = [cloud EXCEPT ![s] = @ \ {a}]
                           /\ gone' = gone \cup {<<s, a>>}
    /\ UNCHANGED <<eni, status, ips, queue, dang, fop, req, held>>

Sync(s) ==
    /\ DriftOn /\ eni[s] /\ status[s] = "inUse"
    /\ ips' = [ips EXCEPT ![s] = [a \in Addrs |-> IF @[a].st = "valid" /\ a \notin cloud[s] THEN [@[a] EXCEPT !.st = "invalid"] ELSE @[a]]]
    /\ ips' # ips
    /\ UNCHANGED <<cloud, eni, status, queue, dang, fop, req, held, gone>>

Next == \/ \E r \in Reqs, p \in Pods : Call(r, p)
        \/ \E r \in Reqs : Cancel(r) \/ CommitDirect(r) \/ WorkerStep(r) \/ MgrRecv(r) \/ AbandonedFinish(r) \/ Return(r)
        \/ \E p \in Pods : Release(p)
        \/ \E s \in Slots : FactoryBegin(s) \/ FactoryEnd(s) \/ Dispose(s) \/ DisposeBegin(s) \/ DisposeEnd(s) \/ RemoteRemove(s) \/ Sync(s)

Spec == Init /\ [][Next]_vars

(* Liveness (beyond the listed properties): with a healthy cloud and no cancellation, is every queued request served?  *)
(* Progress = everything except the caller's own Cancel / new calls / releases and the environment.                    *)
Progress == \/ \E r \in Reqs : CommitDirect(r) \/ WorkerStep(r) \/ MgrRecv(r) \/ AbandonedFinish(r) \/ Return(r)
            \/ \E s \in Slots : FactoryBegin(s) \/ FactoryEnd(s) \/ DisposeBegin(s) \/ DisposeEnd(s)
LiveSpec == Init /\ [][Next]_vars /\ WF_vars(Progress)
NoStuckWaiter == \A r \in Reqs : (req[r].pc = "queued" /\ ~req[r].cancelled) ~> (req[r].pc # "queued" \/ req[r].cancelled)

-----------------------------------------------------------------------------
(* C01: what the daemon was told two pods hold never coincides *)
Exclusive == \A p, q \in Pods : p # q /\ held[p] # <<0, 0>> => held[p] # held[q]
(* C06: an address a pod holds is never named by an unassign call, its interface never by a delete call *)
NeverUnassignHeld == \A s \in Slots, p \in Pods : fop[s].k = "unassign" /\ held[p][1] = s => held[p][2] \notin fop[s].addrs
NeverDeleteInUse == \A s \in Slots, p \in Pods : fop[s].k = "delete" => held[p][1] # s
(* C01/C06: a held address is backed by the cloud *)
HeldBacked == \A p \in Pods : held[p] # <<0, 0>> => held[p][2] \in cloud[held[p][1]] \/ held[p] \in gone
QuotaAddr == \A s \in Slots : Cardinality(cloud[s]) <= Cap
(* C07: at quiescence (no request open, no factory call in flight) no address is owned by a pod that holds none *)
Quiet == (\A r \in Reqs : req[r].pc \in {"new", "done"}) /\ (\A s \in Slots : fop[s] = NoOp)
NoGhostOwner == Quiet => \A s \in Slots, a \in Addrs : ips[s][a].owner # 0 => held[ips[s][a].owner] = <<s, a>>
TrackedEqualsCloud == Quiet /\ ~DriftOn => \A s \in Slots : Tracked(s) = cloud[s]
=============================================================================
