----------------------------- MODULE Ipam_trace -----------------------------
(* Trace validation of recorded executions of the real cluster IPAM controller (ReconcileNode) and the real  *)
(* daemon side of the protocol (CRDV2, cleanRuntimeNode) against Ipam.tla.  Every observable step is logged   *)
(* with its arguments, so the walk is linear.  Lines without a specification action are consumed by TSkip.    *)
EXTENDS Ipam, Json, IOUtils, TLCExt

Log == ndJsonDeserialize(IOEnv.VERIF_TRACE)
VARIABLE l

Rng(s) == { s[i] : i \in 1..Len(s) }
IsEv(k) == l <= Len(Log) /\ Log[l].ev = k /\ l' = l + 1
Skipped == {"lookup", "sync_deleted", "pod_exist_err", "drift_mid", "drift_settle"}

CloudOf(lst) == [e \in Enis |-> IF \E i \in 1..Len(lst) : lst[i].e = e
                                THEN LET x == lst[CHOOSE i \in 1..Len(lst) : lst[i].e = e] IN
                                     [on |-> TRUE, att |-> x.att, type |-> x.type, rdma |-> x.rdma, primary |-> x.primary, v4 |-> Rng(x.v4), v6 |-> Rng(x.v6)]
                                ELSE NoEni]
EnisOf(lst) == { [e |-> x.e, st |-> x.st, type |-> x.type, rdma |-> x.rdma] : x \in Rng(lst) }
IpsOf(lst) == { [e |-> x.e, a |-> x.a, p |-> x.p, u |-> x.u, st |-> x.st, prim |-> x.prim] : x \in Rng(lst) }
PodsOf(lst) == [p \in Pods |-> IF \E i \in 1..Len(lst) : lst[i].p = p
                               THEN LET x == lst[CHOOSE i \in 1..Len(lst) : lst[i].p = p] IN
                                    [u |-> x.u, live |-> x.live, rdma |-> x.rdma, r4 |-> x.r4, r6 |-> x.r6]
                               ELSE NoPod]
UpsOf(lst) == [u \in Uids |-> \E i \in 1..Len(lst) : lst[i].u = u /\ lst[i].up]
RtOf(lst) == [u \in Uids |-> IF \E i \in 1..Len(lst) : lst[i].u = u
                             THEN LET x == lst[CHOOSE i \in 1..Len(lst) : lst[i].u = u] IN [ini |-> x.ini, del |-> x.del]
                             ELSE NoRt]
PnOf(lst) == [u \in Uids |-> IF \E i \in 1..Len(lst) : lst[i].u = u THEN lst[CHOOSE i \in 1..Len(lst) : lst[i].u = u].p ELSE 0]
ConfOf(c) == [v4 |-> c.v4, v6 |-> c.v6, cap4 |-> c.cap4, cap6 |-> c.cap6, sec |-> c.sec, trunk |-> c.trunk, rdma |-> c.rdma,
              min |-> c.min, max |-> c.max, maxEni |-> c.maxEni]

TReset   == IsEv("reset") /\ LET e == Log[l] IN
                Reset(ConfOf(e.conf), CloudOf(e.cloud), EnisOf(e.enis), IpsOf(e.ips), PodsOf(e.pods), UpsOf(e.pods), [u \in Uids |-> NoGiven])
TSkip    == l <= Len(Log) /\ Log[l].ev \in Skipped /\ l' = l + 1 /\ UNCHANGED vars
TPodC    == IsEv("pod_create") /\ LET e == Log[l] IN PodCreate(e.p, e.u, e.rdma)
TPodG    == IsEv("pod_gone") /\ PodGone(Log[l].p, Log[l].u)
TPodX    == IsEv("pod_exit") /\ PodExit(Log[l].p, Log[l].u)
TPodR    == IsEv("pod_report") /\ LET e == Log[l] IN PodReport(e.p, e.u, e.r4, e.r6)
TCniAdd  == IsEv("cni_add") /\ LET e == Log[l] IN CniAdd(e.p, e.u, e.ok, e.e, e.a4, e.a6)
TCniDel  == IsEv("cni_del") /\ CniDel(Log[l].p, Log[l].u)
TFlush   == IsEv("flush") /\ Flush(Log[l].ok)
TExist   == IsEv("pod_exist") /\ PodExist(Log[l].p, Log[l].res)
TGcDone  == IsEv("daemon_gc") /\ GcDone
TRt      == IsEv("rt") /\ RtWrite(Log[l].by, RtOf(Log[l].pods), PnOf(Log[l].pods), Rng(Log[l].local))
TRestart == IsEv("restart") /\ Restart
TRecB    == IsEv("reconcile_begin") /\ ReconcileBegin
TCrW     == IsEv("cr_write") /\ CrWrite(Log[l].ok)
TEarly   == IsEv("describe_fail") /\ EarlyReturn
TCr      == IsEv("cr") /\ CrUpdate(EnisOf(Log[l].enis), IpsOf(Log[l].ips))
TCreateB == IsEv("create_begin") /\ LET e == Log[l] IN CreateBegin(e.n4, e.n6, e.type, e.rdma)
TCreateE == IsEv("create_end") /\ LET e == Log[l] IN CreateEnd(e.e, e.type, e.rdma, e.primary, Rng(e.v4), Rng(e.v6))
TAttach  == IsEv("attach") /\ Attach(Log[l].e, Log[l].effect)
TAssignB == IsEv("assign_begin") /\ LET e == Log[l] IN AssignBegin(e.e, e.fam, e.n)
TAssignE == IsEv("assign_end") /\ LET e == Log[l] IN AssignEnd(e.e, e.fam, Rng(e.addrs), e.told)
TUnassB  == IsEv("unassign_begin") /\ LET e == Log[l] IN UnassignBegin(e.e, e.fam, Rng(e.addrs))
TUnassE  == IsEv("unassign_end") /\ LET e == Log[l] IN UnassignEnd(e.e, e.fam, Rng(e.addrs), e.effect)
TDetach  == IsEv("detach") /\ Detach(Log[l].e, Log[l].effect)
TDeleteB == IsEv("delete_begin") /\ DeleteBegin(Log[l].e)
TDeleteE == IsEv("delete_end") /\ DeleteEnd(Log[l].e, Log[l].effect)
TDescr   == IsEv("describe") /\ Describe
TDriftR  == IsEv("drift_remove") /\ DriftRemove(Log[l].e, Log[l].a)
TDriftA  == IsEv("drift_add") /\ DriftAdd(Log[l].e, Log[l].a)
TConf    == IsEv("conf_change") /\ ConfChange(ConfOf(Log[l].conf))
TDrain   == IsEv("drain") /\ Drain
TFix     == IsEv("fixpoint") /\ LET e == Log[l] IN
                /\ crE = EnisOf(e.enis) /\ crI = IpsOf(e.ips) /\ cloud = CloudOf(e.cloud)              \* (I) the harness and the walk agree on the state
                /\ Fixpoint(e.stable)
TSynced  == IsEv("synced") /\ LET e == Log[l] IN
                /\ crE = EnisOf(e.enis) /\ crI = IpsOf(e.ips) /\ cloud = CloudOf(e.cloud)
                /\ Synced

TInit == Init /\ l = 1
TNext == TReset \/ TSkip \/ TPodC \/ TPodG \/ TPodX \/ TPodR \/ TCniAdd \/ TCniDel \/ TFlush \/ TExist \/ TGcDone \/ TRt
         \/ TRestart \/ TRecB \/ TCrW \/ TEarly \/ TCr \/ TCreateB \/ TCreateE \/ TAttach \/ TAssignB \/ TAssignE \/ TUnassB \/ TUnassE
         \/ TDetach \/ TDeleteB \/ TDeleteE \/ TDescr \/ TDriftR \/ TDriftA \/ TConf \/ TDrain \/ TFix \/ TSynced
TSpec == TInit /\ [][TNext]_<<vars, l>>

HighWater == IF l > TLCGet(1) THEN TLCSet(1, l) ELSE TRUE
ASSUME TLCSet(1, 0)
InvC02 == BindingOk
InvC03 == HeldBacked
InvC08 == QuotaAddr /\ QuotaEni
NotAccepted == ~(l > Len(Log))
Report == PrintT(<<"HIGHWATER", TLCGet(1)>>)
=============================================================================
