------------------------------ MODULE Inputs ------------------------------
(* C15 - user-controlled input can be rejected but can never crash a component.   *)
(*                                                                                *)
(* Function specification.  "For all byte strings in every user-writable field"   *)
(* is replaced by an exhaustive BOUNDED TOKEN LANGUAGE per field: every string of *)
(* at most n tokens over a small alphabet (digits, sign, dot, exponent, unit      *)
(* spellings, blanks, NUL, multi-byte letters and digits, invalid UTF-8, JSON     *)
(* punctuation, 4096-character runs) plus, for the JSON-valued fields, every      *)
(* schema key filled with every value of a hostile JSON value set (null, wrong    *)
(* scalar, wrong container, nested null, overflowing number, huge string, deep    *)
(* nesting).  An input string is a TUPLE OF TOKENS; the harness concatenates the  *)
(* tokens (names in angle brackets stand for bytes that cannot be written here,   *)
(* see the table in harness/overlay/zzverif/inputstok/inputstok.go).              *)
(*                                                                                *)
(* Relation (from the property text, independent of the Go code):                 *)
(*   R1  the outcome of a call is never a panic                  (every case)     *)
(*   R2  a well-formed bandwidth value - a positive decimal number, optionally    *)
(*       followed by one of the documented units K, M, G - is accepted, with or   *)
(*       without the unit                                                         *)
(*   R3  the accepted value scales with the unit: no unit = the number itself,    *)
(*       K/M/G/T = the number times 1000^k or 1024^k (either convention is        *)
(*       allowed, the property does not fix one), hence strictly monotonic in     *)
(*       the unit                                                                 *)
(*   R4  a malformed value is "ignored or reported as an error": it must not be   *)
(*       turned into a setting (bandwidth > 0, pod-eni = true, a priority class,  *)
(*       a network-card index outside the node's cards)                           *)
(*                                                                                *)
(* Lenient readings (written down because the property text leaves them open):    *)
(*  - "well-formed bandwidth" is only the documented form  <digits>[.<0|5>][K|M|G]*)
(*    (docs/qos.md uses "10M").  Blanks around the value, a sign, an exponent,    *)
(*    lower-case or long unit spellings (k, KB, Ki, KiB, T, B, ...) zero, numbers *)
(*    with 7 or more digits and Unicode digits are NEITHER required to be accepted*)
(*    nor required to be rejected; when such a spelling is accepted in the unit   *)
(*    ladder its value must still fit its magnitude (R3).                         *)
(*  - "malformed" (R4) is only what no reasonable parser could accept: a value    *)
(*    containing a junk token (NUL, CJK letter, JSON punctuation, backslash,      *)
(*    invalid UTF-8, the non-unit letter X, a 4096-letter run) or containing no   *)
(*    token of the field's vocabulary at all.  Everything between well-formed and *)
(*    malformed is free.                                                          *)
(*  - a fractional number without unit ("1.5") may be truncated, rounded or       *)
(*    rejected.                                                                   *)
(*  - for JSON-valued fields, configuration and stored records only R1 is         *)
(*    required: the property allows both "ignored" and "reported".                *)
(*  - stored records are quantified over the values of their string fields; the   *)
(*    structure is the one the daemon writes (PodInfo present).                   *)
(*  - rpc ipType / daemon mode are not user-writable: only the values the daemon  *)
(*    produces are in the domain.                                                 *)
EXTENDS Integers, Sequences, FiniteSets, TLC, SequencesExt

CONSTANT Tier            \* "quick" | "thorough"
Thorough == Tier = "thorough"

---------------------------------------------------------------------------
(* Token strings *)

StrUpTo(A, n) == UNION { [1..k -> A] : k \in 0..n }
StrOfLen(A, n) == [1..n -> A]
Absent == <<"<ABSENT>">>          \* the field / annotation is not set at all

Junk == {"<NUL>", "<CJK>", "{", "}", "[", "<DQ>", ":", ",", "<BS>", "X", "<LONGA>", "<BAD8>"}
HasJunk(t) == \E i \in 1..Len(t) : t[i] \in Junk
HasTok(t, S) == \E i \in 1..Len(t) : t[i] \in S
CountTok(t, S) == Cardinality({i \in 1..Len(t) : t[i] \in S})

---------------------------------------------------------------------------
(* Natural numbers too large for TLC integers: little-endian digit sequences in   *)
(* base B without leading (= trailing in the sequence) zero digits; zero is <<>>. *)

RECURSIVE Limbs(_, _)
Limbs(n, B) == IF n = 0 THEN <<>> ELSE <<n % B>> \o Limbs(n \div B, B)
Zeros(k) == [i \in 1..k |-> 0]
Less(a, b) ==       \* a < b for normalised digit sequences of the same base
    \/ Len(a) < Len(b)
    \/ /\ Len(a) = Len(b)
       /\ \E i \in 1..Len(a) : a[i] < b[i] /\ \A j \in (i + 1)..Len(a) : a[j] = b[j]

(* (d + half/2) * B^k for k >= 1, and d for k = 0 (half must be FALSE then). *)
Scaled(d, half, k, B) ==
    IF k = 0 THEN Limbs(d, B)
    ELSE IF half THEN Zeros(k - 1) \o <<B \div 2>> \o Limbs(d, B)
    ELSE IF d = 0 THEN <<>> ELSE Zeros(k) \o Limbs(d, B)

---------------------------------------------------------------------------
(* Bandwidth grammar over tokens *)

DigTok == {"0", "1", "5", "10", "007", "512", "999"}
DigLen(t) == CASE t \in {"0", "1", "5"} -> 1 [] t = "10" -> 2 [] OTHER -> 3
DigVal(t) == CASE t = "0" -> 0 [] t = "1" -> 1 [] t = "5" -> 5 [] t = "10" -> 10 [] t = "007" -> 7
               [] t = "512" -> 512 [] t = "999" -> 999
Pow10(n) == CASE n = 1 -> 10 [] n = 2 -> 100 [] n = 3 -> 1000

RECURSIVE NumOf(_)        \* value and digit count of a tuple of digit tokens
NumOf(t) == IF t = <<>> THEN [v |-> 0, n |-> 0]
            ELSE LET r == NumOf(SubSeq(t, 1, Len(t) - 1))
                     x == t[Len(t)]
                 IN  IF r.n + DigLen(x) > 6 THEN [v |-> 0, n |-> 99]
                     ELSE [v |-> r.v * Pow10(DigLen(x)) + DigVal(x), n |-> r.n + DigLen(x)]

MustUnit == {"K", "M", "G"}                  \* the documented spellings
Mag(u) == CASE u \in {"", "B", "b"} -> 0
            [] u \in {"K", "k", "KB", "Ki", "KiB", "kb"} -> 1
            [] u \in {"M", "m", "MB", "Mi", "MiB"} -> 2
            [] u \in {"G", "g", "GB", "Gi", "GiB"} -> 3
            [] u \in {"T", "t", "TB", "Ti", "TiB"} -> 4

(* Parse of a token string as  <digits>[.<0|5>]<tail> : ok = there is a number of *)
(* at most 6 digits; the number is d + half/2; tail = the tokens after it.        *)
BwParse(t) ==
    LET k == CHOOSE k \in 0..Len(t) : (\A i \in 1..k : t[i] \in DigTok) /\ (k = Len(t) \/ t[k + 1] \notin DigTok)
        num == NumOf(SubSeq(t, 1, k))
        rest == SubSeq(t, k + 1, Len(t))
        frac == Len(rest) >= 2 /\ rest[1] = "." /\ rest[2] \in {"0", "5"}
    IN  [ok |-> k >= 1 /\ num.n <= 6, d |-> num.v, half |-> frac /\ rest[2] = "5",
         tail |-> IF frac THEN SubSeq(rest, 3, Len(rest)) ELSE rest]

(* Shape of a token string as a bandwidth value: wf = it is well-formed in the    *)
(* sense above (positive number, no tail or one documented unit; a fractional     *)
(* number needs a unit); then the value is (d + half/2) * unit.                    *)
NotWF == [wf |-> FALSE, d |-> 0, half |-> FALSE, u |-> ""]
BwShape(t) ==
    LET p == BwParse(t) IN
    IF ~p.ok \/ Len(p.tail) > 1 THEN NotWF
    ELSE IF Len(p.tail) = 1 /\ p.tail[1] \notin MustUnit THEN NotWF
    ELSE IF p.d = 0 /\ ~p.half THEN NotWF
    ELSE IF p.half /\ p.tail = <<>> THEN NotWF
    ELSE [wf |-> TRUE, d |-> p.d, half |-> p.half, u |-> IF p.tail = <<>> THEN "" ELSE p.tail[1]]

BwMalformed(t) == HasJunk(t) \/ ~HasTok(t, DigTok \cup {"<LONG9>", "<ARD>", "<FW1>"})

(* v1024 / v1000: the returned value as digit sequences in base 1024 and 1000.    *)
ValueIs(v1024, v1000, d, half, k) == v1024 = Scaled(d, half, k, 1024) \/ v1000 = Scaled(d, half, k, 1000)
ValueFits(r, sh) ==      \* r = [err, v1024, v1000]; sh well-formed
    IF Mag(sh.u) = 0 /\ sh.half
    THEN r.v1024 \in {Limbs(sh.d, 1024), Limbs(sh.d + 1, 1024)}     \* truncated or rounded
    ELSE ValueIs(r.v1024, r.v1000, sh.d, sh.half, Mag(sh.u))

BadBandwidthResult(t, r) ==
    LET sh == BwShape(t) IN
    (IF sh.wf /\ r.err THEN {"wellformed_bandwidth_rejected"} ELSE {})
    \cup (IF sh.wf /\ ~r.err /\ ~ValueFits(r, sh) THEN {"wellformed_bandwidth_wrong_value"} ELSE {})
    \cup (IF BwMalformed(t) /\ ~r.err /\ r.v1024 # <<>> THEN {"malformed_bandwidth_accepted"} ELSE {})

(* Unit ladder: one number, every unit spelling; results in the order of in.units *)
BadScale(in, out) ==
    LET n == Len(in.units)
        num == BwParse(in.num)                          \* the number alone (ok, empty tail)
        acc(i) == ~out.res[i].err
        sh(i) == [wf |-> TRUE, d |-> num.d, half |-> num.half, u |-> in.units[i]]
        must(i) == in.units[i] \in MustUnit \/ (in.units[i] = "" /\ ~num.half)
    IN  (IF \E i \in 1..n : must(i) /\ ~acc(i) THEN {"wellformed_bandwidth_rejected"} ELSE {})
        \cup (IF \E i \in 1..n : acc(i) /\ ~ValueFits(out.res[i], sh(i)) THEN {"unit_scale_wrong"} ELSE {})
        \cup (IF \E i, j \in 1..n : acc(i) /\ acc(j) /\ Mag(in.units[i]) < Mag(in.units[j])
                                    /\ ~Less(out.res[i].v1024, out.res[j].v1024)
              THEN {"not_monotonic_in_unit"} ELSE {})

---------------------------------------------------------------------------
(* Other annotation vocabularies *)

BoolTok == {"true", "false", "True", "t", "yes", "1", "0"}
PrioTok == {"best-effort", "burstable", "guaranteed", "Guaranteed"}
FlagMalformed(t) == HasJunk(t) \/ ~HasTok(t, BoolTok)
PrioMalformed(t) == HasJunk(t) \/ CountTok(t, PrioTok) # 1

BadConvert(in, out) ==
    LET t == in.val
        sh == BwShape(t)
        dir(v1024, v1000) == [err |-> FALSE, v1024 |-> v1024, v1000 |-> v1000]
        okBw(r) == (sh.wf => ValueFits(r, sh)) /\ (BwMalformed(t) => r.v1024 = <<>>)
    IN  (IF okBw(dir(out.in1024, out.in1000)) /\ okBw(dir(out.eg1024, out.eg1000)) THEN {}
         ELSE IF sh.wf THEN {"wellformed_bandwidth_not_applied"} ELSE {"malformed_bandwidth_accepted"})
        \cup (IF FlagMalformed(t) /\ out.podeni THEN {"malformed_pod_eni_flag_accepted"} ELSE {})
        \cup (IF FlagMalformed(t) /\ out.stick THEN {"malformed_ip_reservation_flag_accepted"} ELSE {})
        \cup (IF PrioMalformed(t) /\ out.prio # "" THEN {"malformed_priority_accepted"} ELSE {})
        \cup (IF out.prio # "" /\ out.prio \notin PrioTok THEN {"malformed_priority_accepted"} ELSE {})

---------------------------------------------------------------------------
(* Domain: annotation scalars *)

BwCore == {"1", "5", "10", "0", "+", "-", ".", "e", "K", "M", "G", "k", "B",
           " ", "<NUL>", "<CJK>", "{", "X", "<LONG9>", "<LONGA>"}
BwMore == {"007", "Ki", "<ARD>", "<DQ>", "512", "999", "E", "m", "g", "T", "KB", "KiB", "Mi", "MB", "b", "i", "<KELVIN>", "<TAB>", "<NBSP>",
           "<FW1>", "<BAD8>", "}", ":", "<BS>", "<NL>"}
BwTiny == {"1", "5", "10", "0", ".", "K", "M", "G", "k", " ", "-", "+", "e", "X", "<NUL>", "<LONG9>"}

BwStrings == IF Thorough THEN StrUpTo(BwCore \cup BwMore, 3) \cup StrOfLen(BwTiny, 4)
             ELSE StrUpTo(BwCore, 3) \cup { <<d, ".", f, u>> : d \in {"1", "10", "0"}, f \in {"0", "5"}, u \in {"K", "G", "X"} }
BwSet == { [fn |-> "bandwidth", val |-> t] : t \in BwStrings }

Ladder == <<"", "B", "b", "K", "k", "KB", "Ki", "KiB", "M", "m", "MB", "Mi", "MiB", "G", "g", "GB", "Gi", "GiB",
            "T", "t", "TB", "Ti", "TiB">>
LadderNums == { <<"1">>, <<"5">>, <<"10">>, <<"007">>, <<"512">>, <<"999">>, <<"1", "0", "007">>, <<"999", "999">>,
                <<"1", ".", "5">>, <<"0", ".", "5">>, <<"10", ".", "0">>, <<"999", ".", "5">>, <<"512", "512", ".", "5">> }
ScaleSet == { [fn |-> "bwscale", num |-> x, units |-> Ladder] : x \in LadderNums }

ConvAlpha == {"1", "5", "0", ".", "M", "K", " ", "-", "<NUL>", "<CJK>", "X", "<LONG9>",
              "true", "false", "True", "t", "yes", "best-effort", "burstable", "guaranteed", "Guaranteed"}
ConvSet == { [fn |-> "convertpod", val |-> t, mode |-> m, erdma |-> e] :
               t \in StrUpTo(ConvAlpha, IF Thorough THEN 3 ELSE 2) \cup {Absent},
               m \in {"ENIMultiIP", "ENIOnly"}, e \in {FALSE, TRUE} }

---------------------------------------------------------------------------
(* Domain: JSON-valued fields.  A document is a tuple of tokens. *)

HVq == {"null", "true", "-1", "1e999", "\"s\"", "[]", "[null]", "[{}]", "{}", "{\"a\":null}"}
HVt == HVq \cup {"0", "1.5", "\"\"", "\"eth0\"", "[\"a\"]", "[1]", "[[]]", "<LONGSTR>", "<DEEP>", "<NUL>", "\"<BAD8>\"",
                 "99999999999999999999", "{\"a\":{\"b\":[null]}}"}
HV == IF Thorough THEN HVt ELSE HVq
JsonPunct == {"{", "}", "[", "]", ":", ",", "<DQ>", "null", "1", "-", "\"a\"", " ", "<NUL>", "<BS>"}
RawJson == StrUpTo(JsonPunct, IF Thorough THEN 3 ELSE 2)

Holes(pre, post) == { <<pre, v, post>> : v \in HV }

PnKeys == {"vSwitchOptions", "securityGroupIDs", "interface", "extraRoutes", "eniOptions", "vSwitchSelectOptions",
           "resourceGroupID", "networkInterfaceTrafficMode", "defaultRoute", "allocationType"}
PnDocs ==
    { <<v>> : v \in HV } \cup Holes("{\"podNetworks\":", "}")
    \cup Holes("{\"podNetworks\":[", "]}") \cup Holes("{\"podNetworks\":[{\"interface\":\"eth0\"},", "]}")
    \cup UNION { Holes("{\"podNetworks\":[{\"interface\":\"eth0\",\"" \o k \o "\":", "}]}") : k \in PnKeys }
    \cup Holes("{\"podNetworks\":[{\"interface\":", "}]}")
    \cup Holes("{\"podNetworks\":[{\"interface\":\"eth0\",\"allocationType\":{\"type\":", "}}]}")
    \cup Holes("{\"podNetworks\":[{\"interface\":\"eth0\",\"allocationType\":{\"type\":\"Fixed\",\"releaseStrategy\":", "}}]}")
    \cup Holes("{\"podNetworks\":[{\"interface\":\"eth0\",\"allocationType\":{\"type\":\"Fixed\",\"releaseStrategy\":\"TTL\",\"releaseAfter\":", "}}]}")
    \cup Holes("{\"podNetworks\":[{\"interface\":\"eth0\",\"extraRoutes\":[{\"dst\":", "}]}]}")
    \cup Holes("{\"podNetworks\":[{\"interface\":\"eth0\",\"eniOptions\":{\"eniType\":", "}}]}")
    \cup Holes("{\"podNetworks\":[{\"interface\":\"eth0\",\"vSwitchOptions\":[\"vsw-1\"],\"securityGroupIDs\":[\"sg-1\"],\"allocationType\":", "}]}")
    \cup { <<"{\"podNetworks\":[{\"interface\":\"eth0\"},{\"interface\":\"eth0\"}]}">>,
           <<"{\"podNetworks\":[{\"interface\":\"eth0\"},{\"interface\":\"eth1\"}]}">>,
           <<"{\"podNetworks\":[{\"interface\":\"", "<LONGA>", "\"}]}">>,
           <<"{\"podNetworks\":[{\"interface\":\"eth0\",\"securityGroupIDs\":[\"1\",\"2\",\"3\",\"4\",\"5\",\"6\",\"7\",\"8\",\"9\",\"10\",\"11\"]}]}">>,
           <<"{\"podNetworks\":[{\"interface\":\"eth0\",\"allocationType\":{\"type\":\"Fixed\",\"releaseStrategy\":\"TTL\",\"releaseAfter\":\"-5m\"}}]}">>,
           <<"{\"podNetworks\":[{\"interface\":\"eth0\",\"allocationType\":{\"type\":\"Elastic\"}}]}">> }
    \cup RawJson

ReqDocs ==
    { <<v>> : v \in HV } \cup Holes("[", "]")
    \cup UNION { Holes("[{\"network\":\"pn1\",\"" \o k \o "\":", "}]") : k \in {"interfaceName", "defaultRoute", "routes", "network"} }
    \cup Holes("[{\"network\":\"pn1\",\"routes\":[", "]}]") \cup Holes("[{\"network\":\"pn1\",\"routes\":[{\"dst\":", "}]}]")
    \cup Holes("[{\"network\":", "}]")
    \cup { <<"[{\"network\":\"pn1\"}]">>, <<"[{\"network\":\"pn1\"},{\"network\":\"pn1\"}]">>, <<"[{\"network\":\"missing\"}]">>,
           <<"[{\"network\":\"pn1\",\"interfaceName\":\"eth1\"},{\"network\":\"pn2\"}]">>, <<"[{\"network\":\"notready\"}]">>,
           <<"[{\"network\":\"withselector\"}]">> }

PodNetworksSet == { [fn |-> "podnetworks", doc |-> d] : d \in PnDocs \cup ReqDocs }

(* The admission webhook on a pod carrying the annotations. *)
(* cm = content of the eni_conf key of the eni-config ConfigMap the webhook reads its defaults from  *)
(* (Absent: there is no such ConfigMap).                                                            *)
WhCm == <<"{\"version\":\"1\",\"max_pool_size\":5,\"vswitches\":{\"cn-a\":[\"vsw-1\"],\"cn-b\":[\"vsw-2\"]},\"security_group\":\"sg-1\"}">>
WhBase == [fn |-> "webhook", pn |-> Absent, req |-> Absent, pnw |-> Absent, eni |-> Absent, containers |-> 1,
           ipam |-> "crd", sts |-> FALSE, hostnet |-> FALSE, cm |-> WhCm]
WebhookSet ==
    { [WhBase EXCEPT !.pn = d, !.sts = s] : d \in PnDocs, s \in {FALSE, TRUE} }
    \cup { [WhBase EXCEPT !.req = d, !.sts = s] : d \in ReqDocs, s \in {FALSE, TRUE} }
    \cup { [fn |-> "webhook", pn |-> a, req |-> b, pnw |-> c, eni |-> e, containers |-> n, ipam |-> i, sts |-> s, hostnet |-> FALSE, cm |-> m] :
             a \in {Absent, <<"{\"podNetworks\":[{\"interface\":\"eth0\"}]}">>, <<"null">>},
             b \in {Absent, <<"[{\"network\":\"pn1\"}]">>},
             c \in {Absent, <<"pn1">>},
             e \in {Absent, <<"true">>, <<"<NUL>">>},
             n \in {0, 1}, i \in {"crd", "default"}, s \in {FALSE, TRUE},
             m \in {WhCm, Absent, <<"{">>, <<"null">>, <<"{\"security_groups\":null,\"vswitches\":null}">>} }
    \cup { [WhBase EXCEPT !.hostnet = TRUE, !.eni = e, !.containers = n, !.pn = a] :
             e \in {Absent, <<"true">>}, n \in {0, 1}, a \in {Absent, <<"{">>, <<"{\"podNetworks\":[{\"interface\":\"eth0\"}]}">>} }
    \cup { [WhBase EXCEPT !.cm = m, !.pn = d] : m \in { <<v>> : v \in HV }, d \in {Absent, <<"{\"podNetworks\":[{\"interface\":\"eth0\"}]}">>} }

(* The webhook on a raw, possibly undecodable, admission object. *)
RawObjDocs ==
    { <<v>> : v \in HV } \cup RawJson
    \cup Holes("{\"metadata\":", "}") \cup Holes("{\"spec\":", "}")
    \cup Holes("{\"metadata\":{\"annotations\":", "},\"spec\":{\"containers\":[{\"name\":\"c\"}]}}")
    \cup Holes("{\"metadata\":{\"labels\":", "},\"spec\":{\"containers\":[{\"name\":\"c\"}]}}")
    \cup Holes("{\"metadata\":{\"ownerReferences\":", "},\"spec\":{\"containers\":[{\"name\":\"c\"}]}}")
    \cup Holes("{\"metadata\":{\"annotations\":{\"k8s.aliyun.com/pod-eni\":\"true\"}},\"spec\":{\"containers\":", "}}")
    \cup Holes("{\"metadata\":{\"annotations\":{\"k8s.aliyun.com/pod-eni\":\"true\"}},\"spec\":{\"containers\":[", "]}}")
    \cup Holes("{\"metadata\":{\"annotations\":{\"k8s.aliyun.com/pod-eni\":\"true\"}},\"spec\":{\"containers\":[{\"name\":\"c\",\"resources\":", "}]}}")
    \cup Holes("{\"metadata\":{\"annotations\":{\"k8s.aliyun.com/pod-eni\":\"true\"}},\"spec\":{\"containers\":[{\"name\":\"c\"}],\"affinity\":", "}}")
    \cup Holes("{\"metadata\":{\"annotations\":{\"k8s.aliyun.com/pod-eni\":\"true\"}},\"spec\":{\"containers\":[{\"name\":\"c\"}],\"hostNetwork\":", "}}")
    \cup Holes("{\"spec\":{\"vSwitchOptions\":", "}}") \cup Holes("{\"spec\":{\"securityGroupIDs\":", "}}")
    \cup Holes("{\"spec\":{\"selector\":", "}}") \cup Holes("{\"spec\":{\"allocationType\":", "}}")
WebhookRawSet == { [fn |-> "webhookraw", kind |-> k, doc |-> d] : k \in {"Pod", "PodNetworking"}, d \in RawObjDocs }

(* NUMA hints: annotation cpuSet = {"<container>":{"<numa node>":{...}}} *)
NumaKeys == {"0", "1", "-1", "7", "x", "", "99999999999999999999", "<LONG9>", "2147483647", " 1", "<ARD>"}
NumaDocs ==
    { <<v>> : v \in HV } \cup RawJson \cup Holes("{\"c1\":", "}") \cup Holes("{\"c1\":{\"0\":", "}}")
    \cup Holes("{\"c1\":{\"0\":{}},\"c2\":", "}")
    \cup { <<"{\"c1\":{\"", k, "\":{}}}">> : k \in NumaKeys }
    \cup { <<"{\"c1\":{\"", k, "\":{}},\"c2\":{\"", k2, "\":null}}">> : k \in NumaKeys, k2 \in {"0", "1", "x"} }
    \cup { <<"{\"c1\":{\"0\":{},\"1\":{}}}">>, <<"">> }
NumaSet == { [fn |-> "numa", doc |-> d, cards |-> c] : d \in NumaDocs \cup {Absent}, c \in {0, 1, 2, 4} }

---------------------------------------------------------------------------
(* Domain: daemon configuration (ConfigMap eni_conf, optional per-node override merged on top) *)

CfgKeys == {"max_pool_size", "region_id", "vswitches", "security_groups", "enable_eni_trunking", "eni_cap_ratio",
            "enable_patch_pod_ips", "backoff_override", "extra_routes", "access_key", "ip_stack", "eni_tags",
            "kube_client_qps", "rate_limit", "security_group", "ipam_type"}
CfgDoc(k, v) == <<"{\"" \o k \o "\":", v, "}">>
ConfigPairs ==
    { [top |-> t, base |-> b] : t \in { <<v>> : v \in HV } \cup {<<"">>, <<"{}">>}, b \in { <<v>> : v \in HV } \cup {<<"">>, <<"{}">>} }
    \cup { [top |-> <<"">>, base |-> CfgDoc(k, v)] : k \in CfgKeys, v \in HV }
    \cup { [top |-> CfgDoc(k, w), base |-> CfgDoc(k, v)] : k \in CfgKeys, v \in HV,
                                                          w \in IF Thorough THEN HV ELSE {"null", "{}", "[null]", "\"s\"", "-1"} }
    \cup { [top |-> t, base |-> <<"{\"version\":\"1\",\"max_pool_size\":5,\"vswitches\":{\"z\":[\"vsw-1\"]},\"security_group\":\"sg-1\"}">>] : t \in RawJson }
    \cup { [top |-> <<"">>, base |-> b] : b \in RawJson }
    \cup { [top |-> <<"{\"ip_stack\":\"", s, "\"}">>, base |-> <<"{\"ip_stack\":\"", s2, "\"}">>] :
             s \in {"ipv4", "ipv6", "dual", "", "x", "<NUL>"}, s2 \in {"ipv4", "dual", "x"} }
    \cup { [top |-> <<"">>, base |-> <<"{\"security_groups\":[\"1\",\"2\",\"3\",\"4\",\"5\",\"6\",\"7\",\"8\",\"9\",\"10\"],\"security_group\":\"", s, "\"}">>] :
             s \in {"1", "11", ""} }
ConfigSet == { [fn |-> "config", top |-> p.top, base |-> p.base] : p \in ConfigPairs }

---------------------------------------------------------------------------
(* Domain: addresses handed to the plugin and kept in stored records *)

IpTok == {"10.0.0.1", "/24", "/33", "/", "fd00::1", "/64", "::ffff:1.2.3.4", "256.1.1.1", ".", ":", "%eth0", " ",
          "<NUL>", "<LONG9>", "-1", "e"}
IpStrings == StrUpTo(IpTok, 2)
IpProbe == { <<"10.0.0.1">>, <<"10.0.0.1", "/24">>, <<"fd00::1">>, <<"fd00::1", "/64">>, <<"">>, <<"x">>, <<"10.0.0.1", "/33">> }
IpSetSet ==
    { [fn |-> "ipset", ip4 |-> a, ip6 |-> <<"">>, sub4 |-> c, sub6 |-> <<"">>, ipnil |-> FALSE, subnil |-> FALSE] : a \in IpStrings, c \in IpProbe }
    \cup { [fn |-> "ipset", ip4 |-> <<"">>, ip6 |-> a, sub4 |-> <<"">>, sub6 |-> c, ipnil |-> FALSE, subnil |-> FALSE] : a \in IpStrings, c \in IpProbe }
    \cup { [fn |-> "ipset", ip4 |-> c, ip6 |-> <<"fd00::1">>, sub4 |-> a, sub6 |-> <<"fd00::1", "/64">>, ipnil |-> FALSE, subnil |-> FALSE] :
             a \in IpStrings, c \in {<<"10.0.0.1">>, <<"">>} }
    \cup { [fn |-> "ipset", ip4 |-> a, ip6 |-> b, sub4 |-> a, sub6 |-> b, ipnil |-> x, subnil |-> y] :
             a \in IpProbe, b \in IpProbe, x \in BOOLEAN, y \in BOOLEAN }

(* rpc.NetConf as received by the plugin; hostile strings in one field at a time, *)
(* and every combination of absent sub-messages.                                  *)
ScBase == [fn |-> "setupconf", iptype |-> "ENIMultiIP", basic |-> TRUE, eni |-> TRUE, pod |-> TRUE,
           podip |-> TRUE, cidr |-> TRUE, gw |-> TRUE, svc |-> TRUE, enigw |-> TRUE, trunk |-> FALSE, strip |-> "",
           podip4 |-> <<"10.0.0.5">>, podip6 |-> <<"">>, cidr4 |-> <<"10.0.0.0/24">>, cidr6 |-> <<"">>,
           gw4 |-> <<"10.0.0.253">>, gw6 |-> <<"">>, svc4 |-> <<"172.16.0.0/16">>, svc6 |-> <<"">>,
           enigw4 |-> <<"10.0.0.253">>, routes |-> <<>>, hoststack |-> <<>>, mac |-> <<"">>, prio |-> <<"">>]
ScFields == {"podip4", "podip6", "cidr4", "cidr6", "gw4", "gw6", "svc4", "svc6", "enigw4", "prio"}
(* The ENI MAC comes from the cloud, not from a user, and a MAC without a device makes the plugin  *)
(* wait 10 s: the domain keeps it empty (no device lookup).                                        *)
Put(r, f, v) == [r EXCEPT ![f] = v]
ScStrings == IF Thorough THEN IpStrings ELSE StrUpTo(IpTok, 1) \cup IpProbe \cup { <<"10.0.0.1", x>> : x \in IpTok } \cup { <<"fd00::1", x>> : x \in IpTok }
SetupConfSet ==
    { Put(Put(ScBase, f, s), "iptype", ty) : f \in ScFields, s \in ScStrings, ty \in {"ENIMultiIP", "VPCENI"} }
    \cup { [Put(ScBase, "iptype", ty) EXCEPT !.routes = <<s, <<"fd00::/64">> >>, !.hoststack = <<s>>] : s \in ScStrings, ty \in {"ENIMultiIP", "VPCENI"} }
    (* each list alone as well: the first malformed host-stack CIDR ends the call before the routes are parsed *)
    \cup { [Put(ScBase, "iptype", ty) EXCEPT !.routes = <<s, <<"fd00::/64">> >>] : s \in ScStrings, ty \in {"ENIMultiIP", "VPCENI"} }
    \cup { [Put(ScBase, "iptype", ty) EXCEPT !.routes = << <<"10.1.0.0/16">>, s>>] : s \in ScStrings, ty \in {"ENIMultiIP", "VPCENI"} }
    \cup { [Put(ScBase, "iptype", ty) EXCEPT !.hoststack = << <<"169.254.0.0/16">>, s>>] : s \in ScStrings, ty \in {"ENIMultiIP", "VPCENI"} }
    \cup { [ScBase EXCEPT !.iptype = ty, !.basic = a, !.eni = b, !.pod = c, !.podip = d, !.cidr = e, !.gw = f, !.svc = g, !.enigw = b /\ tr,
                          !.trunk = tr, !.strip = IF tr THEN "vlan" ELSE "", !.routes = r] :
             ty \in {"ENIMultiIP", "VPCENI"}, a \in BOOLEAN, b \in BOOLEAN, c \in BOOLEAN, d \in BOOLEAN, e \in BOOLEAN, f \in BOOLEAN,
             g \in BOOLEAN, tr \in BOOLEAN,
             r \in { <<>>, << <<"0.0.0.0/0">> >>, << <<"10.1.0.0/16">>, <<"fd00::/64">> >> } }

(* CNI network configuration (stdin) and CNI_ARGS as given to the plugin binary. *)
CniKeys == {"mtu", "host_stack_cidrs", "runtimeConfig", "vlan_strip_type", "cniVersion", "ipam", "dns", "prevResult",
            "veth_prefix", "disable_host_peer", "bandwidth_mode", "enable_network_priority", "debug", "name", "capabilities"}
CniDocs ==
    { <<v>> : v \in HV } \cup RawJson
    \cup UNION { Holes("{\"cniVersion\":\"0.4.0\",\"name\":\"terway\",\"type\":\"terway\",\"" \o k \o "\":", "}") : k \in CniKeys }
    \cup Holes("{\"runtimeConfig\":{\"bandwidth\":", "}}") \cup Holes("{\"runtimeConfig\":{\"bandwidth\":{\"ingressRate\":", "}}}")
    \cup Holes("{\"runtimeConfig\":{\"bandwidth\":{\"egressRate\":", ",\"egressBurst\":-1}}}")
    \cup Holes("{\"host_stack_cidrs\":[", "]}")
    \cup { <<"{\"host_stack_cidrs\":[\"", s[1], "\"]}">> : s \in StrOfLen(IpTok, 1) }
    \cup { <<"{\"cniVersion\":\"0.4.0\",\"name\":\"terway\",\"type\":\"terway\",\"mtu\":1500}">> }
CniArgs == { <<"K8S_POD_NAME=a;K8S_POD_NAMESPACE=b;K8S_POD_INFRA_CONTAINER_ID=c">>, <<"">>, <<";">>, <<"=">>, <<"IP=notanip">>,
             <<"IP=1.2.3.4;X">>, <<"IgnoreUnknown=1;FOO=bar">>, <<"FOO=bar">>, <<"K8S_POD_NAME">>, <<"K8S_POD_NAME=", "<NUL>">>,
             <<"K8S_POD_NAME=", "<LONGA>">>, <<"IgnoreUnknown=", "<CJK>">>, <<"=;=;">> }
CniConfSet ==
    { [fn |-> "cniconf", stdin |-> d, args |-> <<"K8S_POD_NAME=a;K8S_POD_NAMESPACE=b;K8S_POD_INFRA_CONTAINER_ID=c">>] : d \in CniDocs }
    \cup { [fn |-> "cniconf", stdin |-> <<"{\"cniVersion\":\"0.4.0\",\"name\":\"terway\",\"type\":\"terway\"}">>, args |-> a] : a \in CniArgs }

(* Records of the daemon's local store, replayed into the node pool at start. *)
IdTok == {"00:11:22:33:44:55", ".", "10.0.0.2", "10.0.0.9", "x", "<NUL>", "<LONG9>", "fd00::2", ":", " "}
ResIds == StrUpTo(IdTok, 3)
ResIdSet == { [fn |-> "resid", id |-> t] : t \in ResIds }
RecAddr == { <<"">>, <<"10.0.0.2">>, <<"10.0.0.9">>, <<"fd00::2">>, <<"x">>, <<"10.0.0.2", "/24">>, <<"<NUL>">>, <<"10.0.0.2", "%eth0">>,
             <<"::ffff:10.0.0.2">>, <<"<LONG9>">> }
LocalLoadSet ==
    { [fn |-> "localload", type |-> ty, id |-> t, eniid |-> <<"">>, ipv4 |-> <<"">>, ipv6 |-> <<"">>, stack |-> "dual"] :
        ty \in {"eniIp", "eni", "", "<NUL>"}, t \in IF Thorough THEN ResIds ELSE StrUpTo(IdTok, 2) \cup { <<"00:11:22:33:44:55", ".", x>> : x \in IdTok } }
    \cup { [fn |-> "localload", type |-> "eniIp", id |-> <<"x">>, eniid |-> e, ipv4 |-> a, ipv6 |-> b, stack |-> st] :
        e \in {<<"eni-1">>, <<"eni-2">>, <<"<NUL>">>}, a \in RecAddr, b \in RecAddr, st \in {"dual", "ipv4"} }

(* Records of the daemon's pod store (pkg/k8s storage). *)
StoredDocs == { <<v>> : v \in HV } \cup RawJson \cup Holes("{\"Pod\":", "}") \cup Holes("{\"Pod\":{\"PodIPs\":", "}}")
              \cup Holes("{\"Pod\":{\"PodIPs\":{\"IPv4\":", "}}}") \cup Holes("{\"Pod\":{\"Name\":", "}}")
              \cup Holes("{\"Pod\":{\"TcIngress\":", "}}") \cup Holes("{\"Pod\":{\"IPStickTime\":", "}}")
StoredSet == { [fn |-> "stored", doc |-> d] : d \in StoredDocs }

---------------------------------------------------------------------------
DomSet == BwSet \cup ScaleSet \cup ConvSet \cup PodNetworksSet \cup WebhookSet \cup WebhookRawSet \cup NumaSet
          \cup ConfigSet \cup IpSetSet \cup SetupConfSet \cup CniConfSet \cup ResIdSet \cup LocalLoadSet \cup StoredSet

DomSeq == SetToSeq(DomSet)

---------------------------------------------------------------------------
(* Relation: c = [id, in, out, panic] *)

BadIn(in, out) ==
    CASE in.fn = "bandwidth" -> BadBandwidthResult(in.val, out)
      [] in.fn = "bwscale" -> BadScale(in, out)
      [] in.fn = "convertpod" -> IF in.val = Absent
                                 THEN (IF out.in1024 = <<>> /\ out.eg1024 = <<>> /\ ~out.podeni /\ out.prio = "" THEN {} ELSE {"setting_without_annotation"})
                                 ELSE BadConvert(in, out)
      [] in.fn = "numa" ->       \* idxs: network card chosen for each of a few ENIs, -1 = none
            IF \A i \in 1..Len(out.idxs) : out.idxs[i] = -1 \/ (in.cards >= 2 /\ out.idxs[i] \in 0..(in.cards - 1))
            THEN {} ELSE {"network_card_index_out_of_range"}
      [] in.fn \in {"podnetworks", "webhook", "webhookraw", "config", "ipset", "setupconf", "cniconf", "resid", "localload", "stored"} ->
            IF out.done THEN {} ELSE {"call_did_not_return"}
      [] OTHER -> {"unknown_case"}

Bad(c) == IF c.panic # "" THEN {"panic"} ELSE BadIn(c.in, c.out)

---------------------------------------------------------------------------
(* Sanity of the oracle's own helpers *)
ASSUME Limbs(0, 1024) = <<>> /\ Limbs(1023, 1024) = <<1023>> /\ Limbs(1536, 1024) = <<512, 1>> /\ Limbs(1500, 1000) = <<500, 1>>
ASSUME Less(<<1023>>, <<0, 1>>) /\ ~Less(<<0, 1>>, <<0, 1>>) /\ Less(<<5, 1>>, <<4, 2>>) /\ Less(<<>>, <<1>>)
ASSUME Scaled(5, FALSE, 2, 1024) = <<0, 0, 5>> /\ Scaled(1, TRUE, 1, 1024) = <<512, 1>> /\ Scaled(1, TRUE, 1, 1000) = <<500, 1>>
ASSUME Scaled(0, TRUE, 2, 1024) = <<0, 512>> /\ Scaled(1007, FALSE, 1, 1000) = <<0, 7, 1>>
ASSUME NumOf(<<"1", "0", "007">>) = [v |-> 10007, n |-> 5] /\ NumOf(<<"999", "999", "1">>).n > 6
ASSUME BwShape(<<"10", "M">>) = [wf |-> TRUE, d |-> 10, half |-> FALSE, u |-> "M"]
ASSUME BwShape(<<"1", ".", "5", "G">>) = [wf |-> TRUE, d |-> 1, half |-> TRUE, u |-> "G"]
ASSUME BwShape(<<"5">>).wf /\ BwShape(<<"007">>).d = 7 /\ BwShape(<<"0", ".", "5", "K">>).wf /\ ~BwShape(<<"1", ".", "5">>).wf /\ BwShape(<<"1", ".", "0">>).wf
ASSUME BwParse(<<"1", ".", "5">>) = [ok |-> TRUE, d |-> 1, half |-> TRUE, tail |-> <<>>] /\ \A x \in LadderNums : BwParse(x).ok /\ BwParse(x).tail = <<>>
ASSUME ~BwShape(<<"0">>).wf /\ ~BwShape(<<"0", ".", "0", "K">>).wf /\ ~BwShape(<<>>).wf /\ ~BwShape(<<"K">>).wf
ASSUME ~BwShape(<<" ", "5">>).wf /\ ~BwShape(<<"5", "k">>).wf /\ ~BwShape(<<"5", "M", "M">>).wf /\ ~BwShape(<<"-", "5">>).wf
ASSUME ~BwShape(<<"5", ".">>).wf /\ ~BwShape(<<"5", ".", "1">>).wf /\ ~BwShape(<<"5", "e", "1">>).wf
ASSUME BwMalformed(<<>>) /\ BwMalformed(<<"K">>) /\ BwMalformed(<<"5", "<NUL>">>) /\ ~BwMalformed(<<" ", "5">>) /\ ~BwMalformed(<<"5", "k">>)
ASSUME \A t \in StrUpTo(BwTiny, 3) : ~(BwShape(t).wf /\ BwMalformed(t))
ASSUME BadBandwidthResult(<<"1", "M">>, [err |-> FALSE, v1024 |-> <<0, 0, 1>>, v1000 |-> <<576, 48, 1>>]) = {}
ASSUME BadBandwidthResult(<<"1", "M">>, [err |-> FALSE, v1024 |-> <<576, 976>>, v1000 |-> <<0, 0, 1>>]) = {}
ASSUME BadBandwidthResult(<<"1", "M">>, [err |-> FALSE, v1024 |-> <<0, 1>>, v1000 |-> <<24, 1>>]) = {"wellformed_bandwidth_wrong_value"}
ASSUME BadBandwidthResult(<<"1">>, [err |-> TRUE, v1024 |-> <<>>, v1000 |-> <<>>]) = {"wellformed_bandwidth_rejected"}
ASSUME BadBandwidthResult(<<"X">>, [err |-> FALSE, v1024 |-> <<1>>, v1000 |-> <<1>>]) = {"malformed_bandwidth_accepted"}
ASSUME FlagMalformed(<<"5">>) /\ ~FlagMalformed(<<"true">>) /\ FlagMalformed(<<"true", "<NUL>">>)
ASSUME PrioMalformed(<<>>) /\ ~PrioMalformed(<<"burstable">>) /\ PrioMalformed(<<"burstable", "burstable">>)
=============================================================================
