SPECIFICATION Spec
CONSTANTS
  Pods = {1, 2}
  Reqs = {1, 2, 3}
  Slots = {1, 2}
  Addrs = {1, 2, 3}
  Cap = 2
  Batch = 1
  MaxIdle = 0
  FixCollector = TRUE
  FixPinned = FALSE
  FixKeep = TRUE
  FixDangling = TRUE
  FixABA = TRUE
  Healthy = FALSE
  DriftOn = FALSE
INVARIANTS Exclusive NeverUnassignHeld NeverDeleteInUse HeldBacked QuotaAddr NoGhostOwner TrackedEqualsCloud
CHECK_DEADLOCK FALSE
