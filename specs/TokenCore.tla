----------------------------- MODULE TokenCore -----------------------------
(* The token discipline of Token.tla with parameter sets abstracted to their canonical keys, typed for Apalache:  *)
(* IndInv is an INDUCTIVE invariant (Init => IndInv, IndInv /\ Next => IndInv'), so the safety part of C16 holds  *)
(* for ANY number of steps, not only within TLC's bounds (the sets Calls, Keys, Tok stay finite parameters).       *)
EXTENDS Integers, FiniteSets

CONSTANTS
    \* @type: Set(Int);
    Calls,
    \* @type: Set(Int);
    Keys,
    \* @type: Set(Int);
    Tok,
    \* @type: Int;
    Cap

VARIABLES
    \* @type: Int -> Str;
    pc,
    \* @type: Int -> Int;
    par,
    \* @type: Int -> Int;
    tok,
    \* @type: Int -> Str;
    res,
    \* @type: Int -> Set(Int);
    failed,
    \* @type: Set(Int);
    used,
    \* @type: Int -> Int;
    owner

CInit == Calls = {1, 2, 3} /\ Keys = {1, 2, 3} /\ Tok = {1, 2, 3, 4, 5, 6} /\ Cap = 2

PCs == {"idle", "invoked", "picked", "sent", "responded", "settled"}
InFlight(c) == pc[c] \in {"picked", "sent", "responded"}

Init == /\ pc = [c \in Calls |-> "idle"] /\ par = [c \in Calls |-> 1] /\ tok = [c \in Calls |-> 0]
        /\ res = [c \in Calls |-> "none"] /\ failed = [k \in Keys |-> {}] /\ used = {} /\ owner = [t \in Tok |-> 0]

Invoke(c, p) == /\ pc[c] = "idle" /\ pc' = [pc EXCEPT ![c] = "invoked"] /\ par' = [par EXCEPT ![c] = p]
                /\ UNCHANGED <<tok, res, failed, used, owner>>
Pick(c) == /\ pc[c] = "invoked"
           /\ LET k == par[c] IN
              \/ /\ failed[k] # {}
                 /\ \E t \in failed[k] : tok' = [tok EXCEPT ![c] = t] /\ failed' = [failed EXCEPT ![k] = failed[k] \ {t}]
                 /\ UNCHANGED <<used, owner>>
              \/ /\ failed[k] = {}
                 /\ \E t \in Tok \ used : tok' = [tok EXCEPT ![c] = t] /\ used' = used \union {t} /\ owner' = [owner EXCEPT ![t] = k]
                 /\ UNCHANGED failed
           /\ pc' = [pc EXCEPT ![c] = "picked"] /\ UNCHANGED <<par, res>>
Send(c) == pc[c] = "picked" /\ pc' = [pc EXCEPT ![c] = "sent"] /\ UNCHANGED <<par, tok, res, failed, used, owner>>
Respond(c, o) == /\ pc[c] = "sent" /\ res' = [res EXCEPT ![c] = o] /\ pc' = [pc EXCEPT ![c] = "responded"]
                 /\ UNCHANGED <<par, tok, failed, used, owner>>
Settle(c) == /\ pc[c] = "responded"
             /\ LET k == par[c] IN
                \/ /\ res[c] = "fail"
                   /\ LET holders == { q \in Keys : failed[q] # {} } IN
                      \/ /\ (k \in holders \/ Cardinality(holders) < Cap)
                         /\ failed' = [failed EXCEPT ![k] = failed[k] \union {tok[c]}]
                      \/ /\ ~(k \in holders \/ Cardinality(holders) < Cap)
                         /\ \E q \in holders : failed' = [failed EXCEPT ![k] = {tok[c]}, ![q] = {}]
                \/ res[c] # "fail" /\ UNCHANGED failed
             /\ pc' = [pc EXCEPT ![c] = "settled"] /\ UNCHANGED <<par, tok, res, used, owner>>
Return(c) == /\ pc[c] = "settled" /\ pc' = [pc EXCEPT ![c] = "idle"] /\ tok' = [tok EXCEPT ![c] = 0]
             /\ res' = [res EXCEPT ![c] = "none"] /\ UNCHANGED <<par, failed, used, owner>>

Next == \E c \in Calls : \/ \E p \in Keys : Invoke(c, p)
                         \/ Pick(c) \/ Send(c) \/ Settle(c) \/ Return(c)
                         \/ \E o \in {"ok", "fail"} : Respond(c, o)

TypeOK == /\ pc \in [Calls -> PCs] /\ par \in [Calls -> Keys] /\ tok \in [Calls -> Tok \union {0}]
          /\ res \in [Calls -> {"none", "ok", "fail"}] /\ failed \in [Keys -> SUBSET Tok] /\ used \in SUBSET Tok
          /\ owner \in [Tok -> Keys \union {0}]

InflightDistinct == \A c, d \in Calls : c # d /\ InFlight(c) /\ InFlight(d) => tok[c] # tok[d]
NoCrossParamShare == \A c \in Calls : InFlight(c) => tok[c] \in Tok /\ owner[tok[c]] = par[c]
FailedSound == \A k \in Keys : \A t \in failed[k] : owner[t] = k /\ \A c \in Calls : InFlight(c) => tok[c] # t
Aux == /\ \A t \in Tok : t \notin used => owner[t] = 0
       /\ \A t \in Tok : owner[t] # 0 => t \in used
       /\ \A k \in Keys : failed[k] \subseteq used
       /\ \A c \in Calls : InFlight(c) => tok[c] \in used
       /\ \A c \in Calls : pc[c] \in {"responded", "settled"} => tok[c] \in used /\ owner[tok[c]] = par[c]
       /\ \A c \in Calls : pc[c] = "responded" => res[c] \in {"ok", "fail"}

IndInv == TypeOK /\ InflightDistinct /\ NoCrossParamShare /\ FailedSound /\ Aux
IndInit == IndInv
=============================================================================
