------------------------------ MODULE PoolSlot ------------------------------
(* The state of one pool slot (pkg/eni Local) as projected at the end of every critical section *)
(* - i.e. whenever its lock is released, including inside cond.Wait - and the transition rules  *)
(* that two consecutive projections must obey.  This binds the implementation's INTERNAL state  *)
(* to the design (PoolDesign.tla) at critical-section grain: the observable specification       *)
(* NodePool.tla sees a wrong decision only when it reaches the cloud or a caller, this one sees *)
(* it in the critical section that takes it.                                                    *)
(*                                                                                              *)
(* A projection: [status, eni, ents (set of [a, owner, st, primary, fam]), q, d, cap]           *)
(*   q = live requests in the allocating queues, d = live requests in the danging lists.        *)
(* Clauses are tagged with the property they belong to; untagged conjuncts are facts about how  *)
(* the data structure works (I).                                                                *)
EXTENDS Integers, FiniteSets, Sequences, TLC

CONSTANTS Slots, Enforce
G(p, clause) == IF p \in Enforce THEN clause ELSE TRUE   \* (IF, not \/: TLC would split a disjunction into two successors per guard)

VARIABLE slot      \* slot[s]: the last projection of slot s
svars == <<slot>>

Empty == [status |-> "Init", eni |-> 0, ents |-> {}, q |-> 0, d |-> 0, cap |-> 0]
SInit == slot = [s \in Slots |-> Empty]

Ent(P, a) == CHOOSE x \in P.ents : x.a = a
Has(P, a) == \E x \in P.ents : x.a = a
AddrsOf(P) == { x.a : x \in P.ents }
InUse(P) == { x \in P.ents : x.owner # 0 }

StatusStep(o, n) ==
    \/ o = n
    \/ <<o, n>> \in { <<"Init", "Creating">>, <<"Creating", "InUse">>, <<"Creating", "Init">>, <<"Creating", "Deleting">>,
                      <<"InUse", "Deleting">>, <<"Deleting", "Init">> }

(* one address entry from old projection o to new projection n *)
EntryStep(o, n, a) ==
    IF ~Has(o, a)
    THEN LET y == Ent(n, a) IN                                              \* entry appears: from the cloud's answer
         /\ y.owner = 0 /\ y.st \in {"Valid", "Deleting"}
    ELSE IF ~Has(n, a)
    THEN LET x == Ent(o, a) IN                                              \* entry disappears
         /\ G("C06", x.owner = 0)                                           \* never an address a pod holds
         /\ (x.st = "Deleting" \/ n.status = "Init")                        \* unassigned, or the whole interface is gone
    ELSE LET x == Ent(o, a)  y == Ent(n, a) IN
         /\ x.primary = y.primary /\ x.fam = y.fam
         /\ G("C01", x.owner # 0 /\ y.owner # 0 => x.owner = y.owner)       \* an address never passes from pod to pod directly
         /\ G("C01", x.owner = 0 /\ y.owner # 0 => x.st = "Valid")          \* hand-out only of valid addresses
         /\ G("C06", y.st = "Deleting" /\ x.st # "Deleting" => x.owner = 0 /\ y.owner = 0 /\ ~y.primary)   \* dispose only idle, never primary
         /\ (x.st = "Deleting" => y.st \in {"Deleting", "Valid"})
         /\ (x.st = "Deleting" /\ y.st = "Valid" => y.owner # 0)            \* only an address in use is ever rescued

Step(s, n) ==
    LET o == slot[s] IN
    /\ StatusStep(o.status, n.status)
    /\ (n.status = "Init" => n.ents = {} /\ n.eni = 0)
    /\ (o.eni # 0 /\ n.eni # 0 => o.eni = n.eni)
    /\ (o.status = "InUse" /\ n.status = "InUse" => n.eni = o.eni)
    /\ \A a \in AddrsOf(o) \cup AddrsOf(n) : (o.status = "Deleting" /\ n.status = "Init") \/ o.eni = 0 \/ EntryStep(o, n, a)
    /\ G("C06", o.status = "InUse" /\ n.status = "Deleting" =>                \* an interface is given up only when idle
            InUse(o) = {} /\ o.q = 0 /\ o.d = 0)
    /\ G("C06", o.status = "Deleting" /\ n.status = "Init" => InUse(o) = {})
    /\ slot' = [slot EXCEPT ![s] = n]

SReset == slot' = [s \in Slots |-> Empty]

(* state invariants of a projection *)
DeletingIdle == \A s \in Slots : \A x \in slot[s].ents : x.st = "Deleting" => x.owner = 0 /\ ~x.primary
OneOwnerPerPod == \A s \in Slots : \A x, y \in slot[s].ents : x.owner # 0 /\ x.owner = y.owner /\ x.fam = y.fam => x.a = y.a
=============================================================================
