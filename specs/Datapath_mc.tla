----------------------------- MODULE Datapath_mc -----------------------------
(* Bounded closure of Datapath.tla.  The effect of Setup / Teardown, which the specification     *)
(* leaves to the implementation, is supplied here by a *reference design* written at the level   *)
(* of nic.Conf values (RefSetup) and of kernel state (RefTeardown).  TLC then                     *)
(*  (a) checks exhaustively, for small constants, that the guarded actions are jointly           *)
(*      satisfiable by that design for every setup / teardown order of several pods sharing an   *)
(*      ENI, that they imply InvC13, and that the deliberately broken designs of BadDesign are    *)
(*      each refused by a guard (Datapath_mc_bad.cfg is one instance, props/c13.py runs them all:  *)
(*      the guards are not vacuous);                                                              *)
(*  (b) in simulation mode generates scenarios: hist records the controllable steps (which pod,  *)
(*      which datapath / families / options, teardown and how) and Finish appends it to           *)
(*      IOEnv.VERIF_SCEN.  The Go harness maps the abstract step to concrete addresses.           *)
(* The reference design is never used as an oracle for the code: traces are judged by the         *)
(* guards of Datapath.tla alone.                                                                  *)
EXTENDS Datapath, Json, IOUtils

CONSTANTS MCPods,       \* pods that may be set up
          MCDps,        \* datapaths
          MCFams,       \* subset of {"v4", "v6", "dual"}
          MCTrunk,      \* subset of BOOLEAN
          MCExtra,      \* subset of 0..2
          MCMulti,      \* subset of BOOLEAN
          MCHow,        \* teardown variants, subset of {"cni", "dp", "generic"} (generic = GenericTearDown alone, the fallback DEL)
          BadDesign,    \* "" or the name of a seeded design error
          MCSteal,      \* BOOLEAN: may a pod be given the address of a pod that was never torn down (lost / late DEL)
          MCEniGone,    \* BOOLEAN: may an ENI vanish while pods use it
          MCEnis,       \* ENIs (subnets) to choose from, subset of {1, 2}
          GenLen, GenOn
VARIABLES hist,         \* controllable steps so far (scenario), only when GenOn
          served,       \* every pod of MCPods was set up at the same time at least once
          eniGone,      \* ENIs that vanished from the node
          orphaned,     \* some pod was live on an ENI when it vanished
          freed         \* per pod slot: subnet (ENI number) and families of the address its last, torn-down pod held; e = 0: none

(* ---------------------------------------------------------------- concrete values of the bounded model *)
B16(a, b, y, z) == <<253, 0, 0, a, 0, b, 0, 0, 0, 0, 0, 0, 0, 0, y, z>>
Ip4(e, k) == <<10, 10 + e, 0, k>>
Ip6(e, k) == B16(16, e, 0, k)
HostNo(p, i) == 16 * p + i + 1
(* ae = the subnet the pod address comes from: normally that of ENI e; when an address is re-used it may be another ENI's *)
(* ap = the pod slot the host number of the address comes from: normally p itself                                        *)
MCCfg(p, i, dp, fam, e, ae, ap, def, multi, extra, trunk, peer) ==
    LET v4 == fam # "v6"  v6 == fam # "v4" IN
    [att |-> 2 * (p - 1) + i + 1, pod |-> p, dp |-> dp, ifname |-> IF i = 0 THEN "eth0" ELSE "eth1",
     hostveth |-> IF i = 0 THEN <<"caliA0", "caliB0", "caliC0">>[p] ELSE <<"caliA1", "caliB1", "caliC1">>[p],
     eni |-> IF dp = "exclusive" THEN "eniX" ELSE IF e = 1 THEN "eth1" ELSE "eth2",
     slave |-> IF dp = "ipvlan" THEN (IF e = 1 THEN "ipvl_3" ELSE "ipvl_4") ELSE "",
     ip4 |-> IF v4 THEN Ip4(ae, HostNo(ap, i)) ELSE <<>>, len4 |-> IF v4 THEN 24 ELSE 0,
     ip6 |-> IF v6 THEN Ip6(ae, HostNo(ap, i)) ELSE <<>>, len6 |-> IF v6 THEN 64 ELSE 0,
     gw4 |-> IF v4 THEN Ip4(e, 253) ELSE <<>>, gw6 |-> IF v6 THEN B16(16, e, 255, 253) ELSE <<>>,
     egw4 |-> IF v4 /\ trunk THEN <<10, 99, 0, 253>> ELSE <<>>, egw6 |-> IF v6 /\ trunk THEN B16(153, 0, 255, 253) ELSE <<>>,
     strip |-> trunk, defroute |-> def, multi |-> multi, peer |-> peer,
     extra |-> (IF extra >= 1 /\ v4 THEN <<[ip |-> <<100, 100, 0, 0>>, len |-> 16, gw |-> Ip4(e, 253)]>> ELSE <<>>)
               \o (IF extra >= 1 /\ v6 THEN <<[ip |-> B16(238, 1, 0, 0), len |-> 64, gw |-> B16(16, e, 255, 253)]>> ELSE <<>>),
     host4 |-> IF v4 THEN <<10, 88, 0, 10>> ELSE <<>>, host6 |-> IF v6 THEN B16(136, 0, 0, 16) ELSE <<>>, eniIdx |-> 2 + e, aeni |-> ae, apod |-> ap, enigone |-> FALSE, superseded |-> FALSE]

(* ---------------------------------------------------------------- the reference design *)
Rt(t, dst, dev, gw, scope) == [table |-> t, dst |-> dst, dev |-> dev, gw |-> gw, scope |-> scope, metric |-> 0, type |-> "unicast", proto |-> "boot"]
Rl(f, prio, src, dst, oif, t) == [fam |-> f, prio |-> prio, src |-> src, dst |-> dst, iif |-> "", oif |-> oif, table |-> t, proto |-> "boot"]
Cf(n, dev, addrs, routes, rules, sys) == [ns |-> n, dev |-> dev, addrs |-> addrs, neighs |-> <<>>, routes |-> routes, rules |-> rules, sysctl |-> sys]
WithNeighs(cf, ng) == [cf EXCEPT !.neighs = ng]
Lk(n, name, idx, kind, peer) == [ns |-> n, name |-> name, idx |-> idx, kind |-> kind, peer |-> peer, mac |-> "mac-" \o name]
FamSeq(c) == (IF 4 \in Fams(c) THEN <<4>> ELSE <<>>) \o (IF 6 \in Fams(c) THEN <<6>> ELSE <<>>)
Flat(F(_), s) == FoldLeft(LAMBDA acc, x : acc \o F(x), <<>>, s)
If(b, s) == IF b THEN s ELSE <<>>
SubLen(c, f) == IF f = 4 THEN c.len4 ELSE c.len6
Sys6(c, dev) == If(6 \in Fams(c), <<[key |-> "net/ipv6/conf/" \o dev \o "/disable_ipv6=0", fam |-> 6]>>)
Bad(x) == BadDesign = x
NoFreed == [e |-> 0, fam |-> "", ap |-> 0]
FamName(c) == IF Fams(c) = {4} THEN "v4" ELSE IF Fams(c) = {6} THEN "v6" ELSE "dual"

PodTable(c) == 1000 + (IF c.ifname = "eth0" THEN 2 ELSE 3)
EniTable(c) == 1000 + c.eniIdx
PodIdx(c) == IF c.ifname = "eth0" THEN 2 ELSE 3
HostIdx(c) == 10 + c.att

(* what every datapath puts into the pod for the container interface; gw = next hop of the main default route *)
PodConf(c, alen(_), maingw(_), more(_)) ==
    Cf(c.pod, c.ifname,
       Flat(LAMBDA f : <<[ip |-> IPof(c, f), len |-> alen(f)]>>, FamSeq(c)),
       Flat(LAMBDA f : If(c.defroute, <<Rt(TMain, Default(f), c.ifname, maingw(f), "universe")>>)
                       \o If(c.multi, <<Rt(PodTable(c), Default(f), c.ifname, GWof(c, f), "universe")>>)
                       \o more(f), FamSeq(c))
       \o Flat(LAMBDA x : <<Rt(TMain, [ip |-> x.ip, len |-> x.len], c.ifname, x.gw, "universe")>>, c.extra),
       If(c.multi, <<Rl(4, 512, AnyPfx, AnyPfx, c.ifname, PodTable(c))>>)
       \o Flat(LAMBDA f : If(c.multi, <<Rl(f, 512, Host(IPof(c, f)), AnyPfx, "", PodTable(c))>>), FamSeq(c)),
       Sys6(c, c.ifname))

RefSetup(c) ==
    CASE c.dp = "policy" ->
        [links |-> <<Lk(c.pod, c.ifname, PodIdx(c), "veth", HostIdx(c)), Lk(0, c.hostveth, HostIdx(c), "veth", PodIdx(c))>>,
         confs |-> << WithNeighs(PodConf(c, LAMBDA f : MaxLen(IPof(c, f)), LAMBDA f : LinkIP(f), LAMBDA f : <<>>),
                                 Flat(LAMBDA f : If(~Bad("no_stub_neighbour"), <<[dev |-> c.ifname, ip |-> LinkIP(f), mac |-> "mac-" \o c.hostveth]>>), FamSeq(c))),
                      Cf(0, c.eni, <<>>,
                         Flat(LAMBDA f : <<Rt(EniTable(c), Default(f), c.eni,
                                              IF c.strip /\ ~Bad("trunk_uses_member_gateway") THEN EGWof(c, f) ELSE GWof(c, f), "universe")>>, FamSeq(c)),
                         <<>>, Sys6(c, c.eni)),
                      Cf(0, c.hostveth, <<>>,
                         Flat(LAMBDA f : <<Rt(TMain, Host(IPof(c, f)), c.hostveth, NoGw, "link")>>, FamSeq(c)),
                         Flat(LAMBDA f : If(~Bad("no_to_pod_rule"), <<Rl(f, 512, AnyPfx, Host(IPof(c, f)), "", TMain)>>)
                                         \o <<Rl(f, 2048, Host(IPof(c, f)), AnyPfx, "", IF Bad("from_rule_to_main") THEN TMain ELSE EniTable(c))>>, FamSeq(c))
                         \o If(Bad("v6_rule_for_v4_pod") /\ 6 \notin Fams(c), <<Rl(6, 512, AnyPfx, Host(Ip6(1, 200 + c.att)), "", TMain)>>),
                         Sys6(c, c.hostveth)) >>]
      [] c.dp = "exclusive" ->
        [links |-> <<Lk(c.pod, c.ifname, PodIdx(c), "device", 0)>>
                   \o If(c.peer /\ c.ifname = "eth0", <<Lk(c.pod, "veth1", 4, "veth", HostIdx(c)), Lk(0, c.hostveth, HostIdx(c), "veth", 4)>>),
         confs |-> << PodConf(c, LAMBDA f : IF c.multi THEN SubLen(c, f) ELSE MaxLen(IPof(c, f)), LAMBDA f : GWof(c, f),
                              LAMBDA f : If(f = 6, <<Rt(TMain, Host(GWof(c, f)), c.ifname, NoGw, "link")>>)) >>
                   \o If(c.peer /\ c.ifname = "eth0",
                         << Cf(c.pod, "veth1", Flat(LAMBDA f : <<[ip |-> IPof(c, f), len |-> MaxLen(IPof(c, f))]>>, FamSeq(c)),
                               Flat(LAMBDA f : <<Rt(TMain, Host(LinkIP(f)), "veth1", NoGw, "link")>>, FamSeq(c)), <<>>, Sys6(c, "veth1")),
                            Cf(0, c.hostveth, Flat(LAMBDA f : <<[ip |-> LinkIP(f), len |-> MaxLen(LinkIP(f))]>>, FamSeq(c)),
                               Flat(LAMBDA f : <<Rt(TMain, Host(IPof(c, f)), c.hostveth, NoGw, "link")>>, FamSeq(c)), <<>>, Sys6(c, c.hostveth)) >>)]
      [] c.dp = "ipvlan" ->
        [links |-> <<Lk(c.pod, c.ifname, PodIdx(c), "ipvlan", 0), Lk(0, c.slave, 20 + c.eniIdx, "ipvlan", 0)>>,
         confs |-> << PodConf(c, LAMBDA f : IF c.strip THEN MaxLen(IPof(c, f)) ELSE SubLen(c, f), LAMBDA f : GWof(c, f), LAMBDA f : <<>>),
                      Cf(0, c.slave, <<>>, Flat(LAMBDA f : <<Rt(TMain, Host(IPof(c, f)), c.slave, NoGw, "link")>>, FamSeq(c)), <<>>, <<>>) >>]
      [] c.dp = "vlan" ->
        [links |-> <<Lk(c.pod, c.ifname, PodIdx(c), "vlan", 0)>>,
         confs |-> << PodConf(c, LAMBDA f : SubLen(c, f), LAMBDA f : GWof(c, f), LAMBDA f : <<>>) >>]

(* teardown of a pod as the CNI DEL does it: the pod's links go (and with a veth its host peer), then rules are selected by *)
(* priority and pod address, routes by pod address                                                                        *)
RefTeardown(S, gone) ==
    LET cs == { live[a] : a \in gone }
        addrs == UNION { PodAddrs(c) : c \in cs }
        h1 == FoldLeft(LAMBDA s, name : DelLink(s, name), S[0],
                       SetToSeq({ c.hostveth : c \in { x \in cs : x.dp \in {"policy", "exclusive"} /\ ~(Bad("teardown_keeps_link") /\ x.dp = "policy") } }))
        skip == IF Bad("teardown_skips_rules_without_eni") THEN UNION { PodAddrs(c) : c \in { x \in cs : x.enigone } } ELSE {}
        h2 == [h1 EXCEPT !.rules = { r \in @ : ~(r.prio \in (IF Bad("teardown_keeps_from_rule") THEN {512} ELSE {512, 2048})
                                                  /\ (r.src \in addrs \ skip \/ r.dst \in addrs \ skip)) },
                         !.routes = { r \in @ : ~(r.dst \in addrs /\ r.table = TMain)
                                                /\ ~(Bad("teardown_flushes_eni_table") /\ r.table \in { EniTable(c) : c \in cs }) }]
    IN  [n \in NsIds |-> IF n = 0 THEN h2 ELSE IF n \in { c.pod : c \in cs } THEN EmptyNs ELSE S[n]]

(* the fallback DEL (utils.GenericTearDown alone): the pod's links go, and with a veth its host peer and what hangs on it; the *)
(* pod's rules -- and routes on devices that stay, like the ipvlan slave -- are left behind                                   *)
RefGeneric(S, gone) ==
    LET cs == { live[a] : a \in gone }
        h1 == FoldLeft(LAMBDA s, name : DelLink(s, name), S[0], SetToSeq({ c.hostveth : c \in { x \in cs : x.dp \in {"policy", "exclusive"} } }))
    IN  [n \in NsIds |-> IF n = 0 THEN h1 ELSE IF n \in { c.pod : c \in cs } THEN EmptyNs ELSE S[n]]

(* ---------------------------------------------------------------- initial node: eth0 with the node addresses and default routes, two ENIs *)
NodeNs ==
    LET s0 == [EmptyNs EXCEPT !.links = { [name |-> "lo", idx |-> 1, kind |-> "device", peer |-> 0, mac |-> ""], [name |-> "eth0", idx |-> 2, kind |-> "device", peer |-> 0, mac |-> "mac-eth0"],
                                          [name |-> "eth1", idx |-> 3, kind |-> "device", peer |-> 0, mac |-> "mac-eth1"], [name |-> "eth2", idx |-> 4, kind |-> "device", peer |-> 0, mac |-> "mac-eth2"] }]
        s1 == AddAddr(AddAddr(s0, "eth0", <<10, 88, 0, 10>>, 24), "eth0", B16(136, 0, 0, 16), 64)
        s2 == AddRoute(s1, [Rt(TMain, Default(4), "eth0", <<10, 88, 0, 253>>, "universe") EXCEPT !.proto = "static"])
    IN  AddRoute(s2, [Rt(TMain, Default(6), "eth0", B16(136, 0, 255, 253), "universe") EXCEPT !.proto = "static", !.metric = 1024])

MCInit == /\ ns = [n \in NsIds |-> IF n = 0 THEN NodeNs ELSE EmptyNs]
          /\ live = [a \in Atts |-> NoAtt]
          /\ owned = [a \in Atts |-> {}]
          /\ hist = <<>>
          /\ served = FALSE
          /\ freed = [p \in MCPods |-> NoFreed]
          /\ eniGone = {} /\ orphaned = FALSE

ASet == IF Len(hist) > 0 THEN hist[1].aset ELSE 0
H(x) == hist' = IF GenOn THEN Append(hist, x) ELSE hist
AttId(p, i) == 2 * (p - 1) + i + 1

StepRec(p, i, dp, fam, e, def, multi, extra, trunk, peer) ==
    [a |-> "setup", p |-> p, i |-> i, dp |-> dp, fam |-> fam, eni |-> e, def |-> def, multi |-> multi, extra |-> extra, trunk |-> trunk,
     peer |-> peer, aset |-> ASet, how |-> "", keep |-> FALSE, steal |-> 0]

(* parameter choices of a first interface; the generator draws one at random per step instead of branching over all *)
Params == { r \in [dp : MCDps, fam : MCFams, e : MCEnis, multi : MCMulti, extra : MCExtra, trunk : MCTrunk, peer : BOOLEAN, aset : 0..2, keep : BOOLEAN] :
              /\ (r.trunk => r.dp \in {"policy", "ipvlan"}) /\ (~r.peer => r.dp = "exclusive")
              /\ (~GenOn => r.aset = 0) }
Draw(S) == IF GenOn /\ S # {} THEN {RandomElement(S)} ELSE S

Step ==
  \/ \E p \in MCPods : \E r \in Draw(Params) :
        /\ ~IsLive(live, AttId(p, 0)) /\ ~IsLive(live, AttId(p, 1))
        (* an ENI is a trunk or it is not: the pods sharing it agree *)
        /\ \A b \in Atts : IsLive(live, b) /\ live[b].dp \in {"policy", "ipvlan"} /\ r.dp \in {"policy", "ipvlan"} /\ live[b].eniIdx = 2 + r.e => live[b].strip = r.trunk
        /\ r.dp # "exclusive" => r.e \notin eniGone
        (* keep: the new pod in this slot is given the address the slot's previous pod held (possibly on another ENI now) *)
        /\ (~GenOn /\ r.keep) => freed[p].e # 0
        (* random draws are bound by \E over a singleton so that each is made once per step *)
        /\ \E kd \in (IF GenOn THEN {RandomElement(1..4)} ELSE {IF r.keep THEN 2 ELSE 1}) :        \* the generator favours re-use
           \E sd \in (IF GenOn THEN {RandomElement(1..2)} ELSE {1}) :
           LET kp == freed[p].e # 0 /\ kd # 1
               (* steal: the pod is given the address a veth pod of another slot still carries (that pod is gone, its DEL lost or late) *)
               cands == IF MCSteal /\ ~kp /\ r.dp \in {"policy", "exclusive"}
                        THEN { q \in MCPods \ {p} : LET b == AttId(q, 0) IN Active(live, b) /\ live[b].dp = "policy" /\ ~live[b].multi /\ ~live[b].enigone }
                        ELSE {} IN
           \E q \in (IF GenOn THEN (IF sd = 1 THEN {RandomElement(IF cands = {} THEN {0} ELSE cands)} ELSE {0}) ELSE {0} \cup cands) :
             LET kp2 == kp
               v == IF q = 0 THEN NoAtt ELSE live[AttId(q, 0)]
               ae == IF q # 0 THEN v.aeni ELSE IF kp THEN freed[p].e ELSE r.e
               ap == IF q # 0 THEN v.apod ELSE IF kp THEN freed[p].ap ELSE p
               fam == IF q # 0 THEN FamName(v) ELSE IF kp THEN freed[p].fam ELSE r.fam
               c == MCCfg(p, 0, r.dp, fam, r.e, ae, ap, TRUE, r.multi, r.extra, r.trunk, r.peer)
               ref == RefSetup(c)
               A == Applied(ns, ref.links, ref.confs)
               S == IF Bad("stale_from_rule_kept") THEN [A EXCEPT ![0].rules = @ \cup { x \in ns[0].rules : x.prio = 2048 /\ x.src \in PodAddrs(c) }]
                    ELSE IF Bad("stale_route_kept") /\ \E x \in ns[0].routes : x.table = TMain /\ x.dst \in PodAddrs(c)
                    THEN [A EXCEPT ![0].routes = { x \in @ : ~(x.table = TMain /\ x.dst \in PodAddrs(c)) } \cup { x \in ns[0].routes : x.table = TMain /\ x.dst \in PodAddrs(c) }]
                    ELSE A IN
           /\ SetupOk(c, S)
           /\ G("C13", Judge(ViolSysctl(c, ref.confs)))
           /\ freed' = [freed EXCEPT ![p] = NoFreed] /\ UNCHANGED <<eniGone, orphaned>>
           /\ H([StepRec(p, 0, r.dp, fam, r.e, TRUE, r.multi, r.extra, r.trunk, r.peer) EXCEPT !.aset = (IF Len(hist) > 0 THEN hist[1].aset ELSE r.aset), !.keep = kp, !.steal = q])
  \/ \E p \in MCPods : \E extra \in Draw(MCExtra) :
        (* the second interface of a multi-network pod: other ENI, no default route, same datapath and families *)
        /\ IsLive(live, AttId(p, 0)) /\ live[AttId(p, 0)].multi /\ ~IsLive(live, AttId(p, 1))
        /\ LET c0 == live[AttId(p, 0)]
               fam == FamName(c0)
               e == 5 - c0.eniIdx
               c == MCCfg(p, 1, c0.dp, fam, e, e, p, FALSE, TRUE, extra, c0.strip, FALSE)
               ref == RefSetup(c) IN
           /\ \A b \in Atts : IsLive(live, b) /\ live[b].dp \in {"policy", "ipvlan"} /\ c.dp \in {"policy", "ipvlan"} /\ live[b].eniIdx = c.eniIdx => live[b].strip = c.strip
           /\ SetupOk(c, Applied(ns, ref.links, ref.confs))
           /\ G("C13", Judge(ViolSysctl(c, ref.confs)))
           /\ (c.dp # "exclusive" => e \notin eniGone)
           /\ UNCHANGED <<freed, eniGone, orphaned>>
           /\ H(StepRec(p, 1, c0.dp, fam, e, FALSE, TRUE, extra, c0.strip, FALSE))
  \/ \E p \in MCPods : \E how \in Draw(MCHow) :
        /\ AttsOf(p) # {}
        (* the late DEL of a pod whose address was handed on finds no allocation record: it is the fallback DEL *)
        /\ LET sup == \E a \in AttsOf(p) : IsLive(live, a) /\ live[a].superseded
               hw == IF sup THEN "generic" ELSE how IN
           /\ IF hw = "generic" THEN TeardownGeneric(p, RefGeneric(ns, AttsOf(p)), AttsOf(p))
              ELSE TeardownOk(p, RefTeardown(ns, AttsOf(p)), AttsOf(p))
           /\ freed' = [freed EXCEPT ![p] = IF ~sup /\ IsLive(live, AttId(p, 0)) /\ (GenOn \/ "generic" \in MCHow)
                                            THEN [e |-> live[AttId(p, 0)].aeni, fam |-> FamName(live[AttId(p, 0)]), ap |-> live[AttId(p, 0)].apod] ELSE @]
           /\ UNCHANGED <<eniGone, orphaned>>
           /\ H([a |-> "teardown", p |-> p, i |-> 0, dp |-> "", fam |-> "", eni |-> 0, def |-> FALSE, multi |-> FALSE, extra |-> 0, trunk |-> FALSE,
              peer |-> FALSE, aset |-> ASet, how |-> hw, keep |-> FALSE, steal |-> 0])

EniName(e) == IF e = 1 THEN "eth1" ELSE "eth2"
UsersOf(e) == { a \in Atts : IsLive(live, a) /\ live[a].eni = EniName(e) /\ live[a].dp \in {"policy", "ipvlan", "vlan"} }
EniGoneStep ==
    /\ MCEniGone
    /\ \E e \in MCEnis \ eniGone :
          /\ GenOn => (UsersOf(e) # {} /\ RandomElement(1..3) = 1)       \* the generator: only while pods use it, and not too often
          /\ EniGone(EniName(e), [ns EXCEPT ![0] = DelLink(@, EniName(e))])
          /\ eniGone' = eniGone \cup {e} /\ orphaned' = (orphaned \/ UsersOf(e) # {})
          /\ UNCHANGED freed
          /\ H([a |-> "enigone", p |-> 0, i |-> 0, dp |-> "", fam |-> "", eni |-> e, def |-> FALSE, multi |-> FALSE, extra |-> 0, trunk |-> FALSE,
                peer |-> FALSE, aset |-> ASet, how |-> "", keep |-> FALSE, steal |-> 0])

Emit(h) == Serialize(ToJson(h) \o "\n", IOEnv.VERIF_SCEN,
                     [format |-> "TXT", charset |-> "UTF-8", openOptions |-> <<"WRITE", "CREATE", "APPEND">>]).exitValue = 0
Finish == /\ Len(hist) > 0 /\ hist[1].a # "end"
          /\ Emit(hist)
          /\ hist' = <<[a |-> "end"]>>
          /\ UNCHANGED <<vars, served, freed, eniGone, orphaned>>

AllServed(L) == \A p \in MCPods : IsLive(L, AttId(p, 0))
MCNext == IF GenOn /\ Len(hist) >= GenLen THEN Finish
          ELSE IF GenOn /\ Len(hist) > 0 /\ hist[1].a = "end" THEN UNCHANGED <<vars, hist, served, freed, eniGone, orphaned>>
          ELSE (Step \/ EniGoneStep) /\ served' = (served \/ AllServed(live'))
MCSpec == MCInit /\ [][MCNext]_<<vars, hist, served, freed, eniGone, orphaned>>

(* with a seeded design error (BadDesign # "") some guard must refuse a step: the pods can never be all set up and then all *)
(* torn down again.  Checked as an invariant by the *_bad runs: the guards are not vacuous.                                *)
(* for the design error "a stale from-rule of the address survives Setup" (all teardowns generic): a policy-route pod can never *)
(* be set up with an address that was last held on another ENI                                                                   *)
(* for "a host route of the address on another link survives Setup": no pod can ever be set up with a stolen address *)
StealRefused == ~\E a \in Atts : Active(live, a) /\ live[a].apod # live[a].pod
ReuseRefused == ~\E a \in Atts : IsLive(live, a) /\ live[a].dp = "policy" /\ live[a].aeni # live[a].eniIdx - 2
(* for "Teardown without an ENI index skips the rules": once a pod lost its ENI the node can never be idle again *)
OrphanRefused == ~(orphaned /\ \A a \in Atts : ~IsLive(live, a) /\ owned[a] = {})
BadRefused == ~(served /\ \A a \in Atts : ~IsLive(live, a) /\ owned[a] = {})
=============================================================================
