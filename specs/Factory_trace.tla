--------------------------- MODULE Factory_trace ---------------------------
(* Trace validation of recorded executions of the real factory (pkg/factory/aliyun on the real OpenAPI     *)
(* client and the real metadata reader, fake HTTP transports) against Factory.tla.  Every step is logged    *)
(* with its arguments and results, so the walk is linear.                                                    *)
EXTENDS Factory, Json, IOUtils, TLCExt

Log == ndJsonDeserialize(IOEnv.VERIF_TRACE)
VARIABLE l

Rng(s) == { s[i] : i \in 1..Len(s) }
IsEv(k) == l <= Len(Log) /\ Log[l].ev = k /\ l' = l + 1
Skipped == {"dbg"}

CloudOf(lst) == [e \in Enis |-> IF \E i \in 1..Len(lst) : lst[i].e = e
                                THEN LET x == lst[CHOOSE i \in 1..Len(lst) : lst[i].e = e] IN
                                     [st |-> x.st, inst |-> x.inst, type |-> x.type, rdma |-> x.rdma, vsw |-> x.vsw, primary |-> x.primary,
                                      v4 |-> Rng(x.v4), v6 |-> Rng(x.v6), tagged |-> x.tagged]
                                ELSE NoEni]
MetaOf(lst) == [e \in Enis |-> IF \E i \in 1..Len(lst) : lst[i].e = e
                               THEN LET x == lst[CHOOSE i \in 1..Len(lst) : lst[i].e = e] IN [on |-> x.on, v4 |-> Rng(x.v4), v6 |-> Rng(x.v6)]
                               ELSE NoMeta]
ConfOf(c) == [v4 |-> c.v4, v6 |-> c.v6, tagf |-> c.tagf]
HttpOf(x) == [c |-> x.c, act |-> x.act, tok |-> x.tok, e |-> x.e, inst |-> x.inst, n4 |-> x.n4, n6 |-> x.n6, addrs |-> Rng(x.addrs), vsw |-> x.vsw,
              type |-> x.type, rdma |-> x.rdma, out |-> x.out, code |-> x.code, eff |-> x.eff, re |-> x.re, rp |-> x.rp, tagged |-> x.tagged,
              r4 |-> Rng(x.r4), r6 |-> Rng(x.r6)]

TReset  == IsEv("reset") /\ Reset(ConfOf(Log[l].conf), CloudOf(Log[l].cloud), MetaOf(Log[l].meta))
TSkip   == l <= Len(Log) /\ Log[l].ev \in Skipped /\ l' = l + 1 /\ UNCHANGED vars
TCall   == IsEv("call") /\ LET x == Log[l] IN Call(x.c, x.k, x.e, x.fam, x.n4, x.n6, x.type, Rng(x.addrs))
THttp   == IsEv("http") /\ Http(HttpOf(Log[l]))
TEnv    == IsEv("env") /\ LET x == Log[l] IN
             CASE x.k = "attach_done" -> AttachDone(x.e)
               [] x.k = "detach_done" -> DetachDone(x.e)
               [] x.k = "meta_sync" -> MetaSync(x.e, [on |-> x.on, v4 |-> Rng(x.v4), v6 |-> Rng(x.v6)])
               [] x.k = "remote_remove" -> RemoteRemove(x.e, x.fam, x.a)
TRet    == IsEv("ret") /\ LET x == Log[l] IN Ret(x.c, x.k, x.err, x.eni, Rng(x.v4), Rng(x.v6), Rng(x.enis))
(* end of a scenario: the specification's cloud and metadata are the fake's (the two models of the cloud agree) *)
TFinal  == IsEv("final") /\ cloud = CloudOf(Log[l].cloud) /\ meta = MetaOf(Log[l].meta) /\ Open = {} /\ UNCHANGED vars

TQuiet  == IsEv("quiescent") /\ Quiescent({ [e |-> x.e, status |-> x.status, v4 |-> Rng(x.v4), v6 |-> Rng(x.v6), valid4 |-> Rng(x.valid4), valid6 |-> Rng(x.valid6)]
                                              : x \in Rng(Log[l].st) })

TInit == Init /\ l = 1
TNext == TReset \/ TSkip \/ TCall \/ THttp \/ TEnv \/ TRet \/ TFinal \/ TQuiet
TSpec == TInit /\ [][TNext]_<<vars, l>>

HighWater == IF l > TLCGet(1) THEN TLCSet(1, l) ELSE TRUE
ASSUME TLCSet(1, 0)
InvC01 == HandedBacked
InvC06 == TRUE
InvC07 == NoOrphan
InvF   == TRUE
InvALL == HandedBacked /\ NoOrphan
NotAccepted == ~(l > Len(Log))
Report == PrintT(<<"HIGHWATER", TLCGet(1)>>)
=============================================================================
