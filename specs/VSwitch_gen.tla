---------------------------- MODULE VSwitch_gen ----------------------------
(* Scenario generator for C17: behaviours of VSwitch.tla with a history of the controllable steps *)
(* (getone arguments, block, tick, cloud drift).  Results chosen by the spec are not exported:      *)
(* the scenario is a stimulus, the trace check is the oracle.                                       *)
EXTENDS VSwitch, Json, IOUtils, Randomization

CONSTANT MaxLen
VARIABLE hist

GIdSeqs == {<<"v1", "v2", "v3", "v4">>, <<"v4", "v3", "v2", "v1">>, <<"v2", "v1">>, <<"v3">>, <<"v1", "v1", "v2">>, <<"v2", "v4", "v1", "v3">>, <<>>}
GClouds == RandomSubset(40, [Ids -> {Gone} \cup [zone : Zones, free : FreeVals]])

Emit(h) == Serialize(ToJson(h) \o "\n", IOEnv.VERIF_SCEN,
                     [format |-> "TXT", charset |-> "UTF-8", openOptions |-> <<"WRITE", "CREATE", "APPEND">>]).exitValue = 0

CloudRec(c) == [id \in Ids |-> [zone |-> c[id].zone, free |-> c[id].free]]
GInit == Init /\ hist = <<[a |-> "cloud", cloud |-> CloudRec(cloud)]>>

Step == LET k == RandomElement(1..10) IN
        IF k <= 5 THEN
           \E z \in Zones, ids \in IdSeqs, pol \in Policies, ign \in BOOLEAN :
             /\ LET F == { id \in Range(ids) : ~Live(id) /\ cloud[id] # Gone } IN
                \E r \in Range(ids) \cup {"none"} : GetOne(z, ids, pol, ign, F, r, ids)
             /\ hist' = Append(hist, [a |-> "getone", zone |-> z, ids |-> ids, pol |-> pol, ign |-> ign])
        ELSE IF k <= 7 THEN \E id \in Ids : Block(id) /\ hist' = Append(hist, [a |-> "block", id |-> id])
        ELSE IF k <= 9 /\ now < MaxT THEN Tick /\ hist' = Append(hist, [a |-> "tick"])
        ELSE \E id \in Ids, c \in {Gone} \cup [zone : Zones, free : FreeVals] :
             CloudSet(id, c) /\ hist' = Append(hist, [a |-> "cloudset", id |-> id, zone |-> c.zone, free |-> c.free])

Finish == /\ Len(hist) > 0 /\ Head(hist).a # "end"
          /\ Emit(hist)
          /\ hist' = <<[a |-> "end"]>>
          /\ UNCHANGED vars

GNext == IF Len(hist) < MaxLen THEN Step ELSE Finish
=============================================================================
