SPECIFICATION MCSpec
CONSTANTS
  Pods = {1, 2, 3}
  Rpcs = {1, 2, 3, 4}
  Enis = {1, 2}
  Cids = {1, 2, 3}
  Enforce = {"C04", "C05", "C09"}
  MaxLen = 40
  GenOn = TRUE
  Fam = "c09"
  MaxKill = 2
  MaxDetach = 1
  MaxEnv = 6
  NPS = 7
  MaxDbf = 0
  MaxFail = 0
CHECK_DEADLOCK FALSE
