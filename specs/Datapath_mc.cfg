SPECIFICATION MCSpec
CONSTANTS
  Enforce = {"C13"}
  NsIds = {0, 1, 2}
  Atts = {1, 2, 3, 4}
  MCPods = {1, 2}
  MCDps = {"policy", "exclusive", "ipvlan", "vlan"}
  MCFams = {"dual"}
  MCTrunk = {FALSE}
  MCExtra = {1}
  MCMulti = {FALSE, TRUE}
  MCHow = {"cni"}
  MCSteal = FALSE
  MCEniGone = FALSE
  MCEnis = {1, 2}
  BadDesign = ""
  GenLen = 0
  GenOn = FALSE
INVARIANT InvC13
CHECK_DEADLOCK FALSE
