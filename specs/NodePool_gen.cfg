SPECIFICATION MCSpec
CONSTANTS
  Pods = {1, 2, 3}
  Reqs = {1, 2, 3, 4, 5, 6, 7, 8}
  Enis = {1, 2, 3, 4}
  A4 = {1, 2, 3, 4, 5, 6, 7, 8}
  A6 = {}
  Enforce = {"C01", "C06", "C07"}
  MCCap = 2
  MCMaxEni = 2
  MCV6 = FALSE
  MaxLen = 26
  GenOn = TRUE
CHECK_DEADLOCK FALSE
