------------------------------ MODULE Ipam_mc ------------------------------
(* Bounded closure of Ipam.tla for TLC: an abstract controller, node agent and environment that may take any   *)
(* observable step the guards allow (the controller is sequential like the real one: a multi-call operation     *)
(* runs to its end, tracked by pc, before anything else happens).  Used (a) exhaustively, to check that the     *)
(* guarded steps imply the state invariants and are jointly satisfiable, and (b) in simulation mode as scenario *)
(* generator: hist records the steps the Go driver controls (pod life cycle, CNI ADD/DEL, report timer ticks    *)
(* and their failures, agent gc, reconcile markers, cloud fault plan).                                           *)
EXTENDS Ipam, Json, IOUtils

CONSTANTS MCCap, MCMaxEni, MCV6, MCMin, MCMax,
          MCForced,      \* pods may vanish while their sandbox is up (forced deletion)
          MCResandbox,   \* kubelet may ADD again for a pod UID whose DEL was processed (sandbox replaced)
          MCDrift,       \* addresses may vanish in the cloud behind the controller's back
          A4, A6,        \* address universes
          MaxLen, GenOn
VARIABLES hist, pend, pc
mvars == <<hist, pend, pc>>

Idle == [k |-> "idle"]
MCConf == [v4 |-> TRUE, v6 |-> MCV6, cap4 |-> MCCap, cap6 |-> IF MCV6 THEN MCCap ELSE 0, sec |-> MCMaxEni, trunk |-> FALSE,
           rdma |-> 0, min |-> MCMin, max |-> MCMax, maxEni |-> MCMaxEni]
MCInit == Init /\ hist = <<>> /\ pend = {} /\ pc = Idle
MCStart == conf.cap4 = 0 /\ Reset(MCConf, cloud, {}, {}, pods, up, given) /\ UNCHANGED mvars

Min(S) == CHOOSE x \in S : \A y \in S : x <= y
UsedA == UNION { Addrs(e) : e \in Enis }
Lowest(S, n) == CHOOSE T \in SUBSET S : Cardinality(T) = n /\ \A t \in T : \A s \in S \ T : t < s
Univ(f) == IF f = 4 THEN A4 ELSE A6
UidRefs == { pods[q].u : q \in Pods } \cup { x.u : x \in crI } \cup { u \in Uids : up[u] \/ rt[u] # NoRt } \cup delp \cup pend \cup told
Replace(S, x, y) == (S \ {x}) \cup {y}
H(x) == hist' = IF GenOn THEN Append(hist, x) ELSE hist
HRec == hist' = IF GenOn /\ (Len(hist) = 0 \/ hist[Len(hist)].a # "reconcile") THEN Append(hist, [a |-> "reconcile"]) ELSE hist
PlanOf(eff) == [a |-> "plan", outcomes |-> <<IF eff THEN "ok" ELSE "fb">>]
Fams == IF MCV6 THEN {4, 6} ELSE {4}
MCLocal == { u \in Uids : up[u] }                          \* the abstract agent keeps a record per sandbox that is up

(* ------------------------------------------------------------------ environment and node agent *)
EnvStep ==
  \/ \E p \in Pods : /\ Uids \ UidRefs # {}
                     /\ PodCreate(p, Min(Uids \ UidRefs), FALSE) /\ H([a |-> "pod_create", p |-> p]) /\ UNCHANGED <<pend, pc>>
  \/ \E p \in Pods : /\ pods[p].u # 0 /\ (up[pods[p].u] => MCForced)
                     /\ PodGone(p, pods[p].u) /\ H([a |-> "pod_delete", p |-> p, forced |-> up[pods[p].u]]) /\ UNCHANGED <<pend, pc>>
  \/ \E p \in Pods : LET u == pods[p].u
                         mine == { x \in crI : x.p = p /\ x.u \in {0, u} /\ x.st = "Valid" /\ EniSt(crE, x.e) = "InUse" } IN
        /\ PodLive(p) /\ ~up[u] /\ (u \in delp => MCResandbox)
        /\ IF mine = {} THEN CniAdd(p, u, FALSE, 0, 0, 0) /\ pend' = pend
           ELSE \E x \in mine :
                   LET m4 == { y \in mine : y.e = x.e /\ Fam(y.a) = 4 }
                       m6 == { y \in mine : y.e = x.e /\ Fam(y.a) = 6 } IN
                   /\ CniAdd(p, u, TRUE, x.e, IF m4 = {} THEN 0 ELSE (CHOOSE y \in m4 : TRUE).a, IF m6 = {} THEN 0 ELSE (CHOOSE y \in m6 : TRUE).a)
                   /\ pend' = pend \ {u}
        /\ H([a |-> "cni_add", p |-> p]) /\ UNCHANGED pc
  \/ \E p \in Pods : /\ pods[p].u # 0 /\ up[pods[p].u] /\ pods[p].r4 = 0 /\ pods[p].r6 = 0
                     /\ PodReport(p, pods[p].u, given[pods[p].u].a4, given[pods[p].u].a6) /\ UNCHANGED <<hist, pend, pc>>
  \/ \E u \in Uids : /\ up[u]
                     /\ CniDel(given[u].p, u) /\ pend' = pend \cup {u} /\ H([a |-> "cni_del", p |-> given[u].p]) /\ UNCHANGED pc
  \/ /\ pend # {}                                                                         \* report timer: the write
     /\ RtWrite("daemon", [u \in Uids |-> IF u \in pend THEN [rt[u] EXCEPT !.del = 2] ELSE rt[u]], [u \in Uids |-> 0], MCLocal)
     /\ pend' = {} /\ pc' = [k |-> "flushed"] /\ UNCHANGED hist
  \/ /\ pend = {} /\ Flush(TRUE) /\ H([a |-> "flush", fail |-> FALSE]) /\ UNCHANGED <<pend, pc>>
  \/ /\ pend # {} /\ Flush(FALSE) /\ H([a |-> "flush", fail |-> TRUE]) /\ UNCHANGED <<pend, pc>>
  \/ /\ RtWrite("daemon", [u \in Uids |->                                                   \* the five-minute job: forget / sync back
                  IF Final(u) = "deleted" /\ ~\E x \in crI : x.u = u THEN NoRt
                  ELSE IF rt[u] = NoRt /\ \E x \in crI : x.u = u THEN [ini |-> 1, del |-> 0] ELSE rt[u]], [u \in Uids |-> 0], MCLocal)
     /\ rt' # rt /\ H([a |-> "sync_deleted"]) /\ UNCHANGED <<pend, pc>>
  \/ \E u \in Uids : LET ps == { x.p : x \in { z \in crI : z.u = u } } IN                   \* agent gc: look-up, then mark
        /\ Final(u) = "initial" /\ ~up[u] /\ ps # {}
        /\ PodExist(CHOOSE p \in ps : TRUE, pods[CHOOSE p \in ps : TRUE].u # 0)
        /\ pc' = [k |-> "gc", u |-> u, p |-> CHOOSE p \in ps : TRUE] /\ H([a |-> "daemon_gc"]) /\ UNCHANGED pend
  \/ /\ MCDrift /\ Cardinality(rg) < 1
     /\ \E e \in Attached : \E a \in Addrs(e) : DriftRemove(e, a) /\ H([a |-> "drift_remove", k |-> e - 1, j |-> 0, fam |-> Fam(a)]) /\ UNCHANGED <<pend, pc>>

(* ------------------------------------------------------------------ controller *)
NewEntries(e, as, prim) == { [e |-> e, a |-> a, p |-> 0, u |-> 0, st |-> "Valid", prim |-> (a = prim)] : a \in as }
SyncE == crE \cup { [e |-> e, st |-> "InUse", type |-> cloud[e].type, rdma |-> cloud[e].rdma] : e \in Attached \ Recorded }
SyncI == { x \in crI : x.e \in Attached => x.a \in Addrs(x.e) }
         \cup UNION { NewEntries(e, { a \in Addrs(e) : ~\E x \in crI : x.e = e /\ x.a = a }, cloud[e].primary) : e \in Attached }

CtlStart ==
  \/ \E p \in Pods : /\ PodLive(p) /\ ~HasAll(p)                                             \* bind a pod
        /\ \E y \in InUseEnis : \E x4 \in IdleOn(y.e, 4) :
              LET b4 == [x4 EXCEPT !.p = p, !.u = pods[p].u] IN
              (IF conf.v6 THEN \E x6 \in IdleOn(y.e, 6) :
                                  CrUpdate(crE, (crI \ {x4, x6}) \cup {b4, [x6 EXCEPT !.p = p, !.u = pods[p].u]})
               ELSE CrUpdate(crE, Replace(crI, x4, b4)))
        /\ HRec /\ UNCHANGED <<pend, pc>>
  \/ \E x \in Bound(crI) : CrUpdate(crE, Replace(crI, x, [x EXCEPT !.p = 0, !.u = 0])) /\ HRec /\ UNCHANGED <<pend, pc>>     \* release
  \/ \E x \in Bound(crI) : /\ PodLive(x.p) /\ pods[x.p].u # x.u                                                            \* UID refresh
                           /\ CrUpdate(crE, Replace(crI, x, [x EXCEPT !.u = pods[x.p].u])) /\ HRec /\ UNCHANGED <<pend, pc>>
  \/ \E x \in crI : /\ ~x.prim /\ x.st = "Valid"                                                                            \* trim: mark
                    /\ CrUpdate(crE, Replace(crI, x, [x EXCEPT !.st = "Deleting"])) /\ HRec /\ UNCHANGED <<pend, pc>>
  \/ \E x \in crI : /\ x.st = "Deleting" /\ EniSt(crE, x.e) = "InUse"                                                       \* trim: unassign
                    /\ UnassignBegin(x.e, Fam(x.a), {x.a}) /\ pc' = [k |-> "un", x |-> x] /\ HRec /\ UNCHANGED pend
  \/ \E y \in InUseEnis : \E f \in Fams : \E n \in 1..2 :                                                                   \* grow an interface
        AssignBegin(y.e, f, n) /\ pc' = [k |-> "as", e |-> y.e, f |-> f, n |-> n] /\ HRec /\ UNCHANGED pend
  \/ \E n4 \in 1..2 : /\ CreateBegin(n4, IF MCV6 THEN n4 ELSE 0, "Secondary", FALSE)                                         \* new interface
                      /\ pc' = [k |-> "cr", n |-> n4] /\ HRec /\ UNCHANGED pend
  \/ \E y \in InUseEnis : /\ CrUpdate(Replace(crE, y, [y EXCEPT !.st = "Deleting"]), crI) /\ HRec /\ UNCHANGED <<pend, pc>>  \* give an interface up
  \/ \E y \in crE : /\ y.st = "Deleting" /\ Detach(y.e, TRUE) /\ pc' = [k |-> "del", e |-> y.e] /\ HRec /\ UNCHANGED pend
  \/ /\ Describe /\ pc' = [k |-> "sync"] /\ H([a |-> "reconcile", full |-> TRUE]) /\ UNCHANGED pend                           \* full synchronisation

CtlCont ==
  \/ /\ pc.k = "flushed" /\ Flush(TRUE) /\ pc' = Idle /\ H([a |-> "flush", fail |-> FALSE]) /\ UNCHANGED pend
  \/ /\ pc.k = "gc"
     /\ \/ /\ RtWrite("daemon", [rt EXCEPT ![pc.u].del = 2], [u \in Uids |-> IF u = pc.u THEN pc.p ELSE 0], MCLocal) /\ pc' = Idle
        \/ /\ GcDone /\ pc' = Idle
     /\ UNCHANGED <<hist, pend>>
  \/ /\ pc.k = "un" /\ \E eff \in BOOLEAN :
        /\ UnassignEnd(pc.x.e, Fam(pc.x.a), {pc.x.a}, eff)
        /\ pc' = (IF eff THEN [k |-> "drop", x |-> pc.x] ELSE Idle) /\ H(PlanOf(eff)) /\ UNCHANGED pend
  \/ /\ pc.k = "drop" /\ CrUpdate(crE, crI \ {pc.x}) /\ pc' = Idle /\ UNCHANGED <<hist, pend>>
  \/ /\ pc.k = "as" /\ \E out \in {"ok", "fb", "fa"} :
        LET free == Univ(pc.f) \ UsedA
            fits == Cardinality(free) >= pc.n /\ Cardinality(FamSet(pc.e, pc.f)) + pc.n <= CapOf(pc.f)
            as == IF out = "fb" THEN {} ELSE Lowest(free, pc.n) IN
        /\ (out # "fb" => fits)
        /\ AssignEnd(pc.e, pc.f, as, out = "ok")
        /\ pc' = (IF out = "ok" THEN [k |-> "asrec", e |-> pc.e, as |-> as] ELSE Idle)
        /\ H([a |-> "plan", outcomes |-> <<out>>]) /\ UNCHANGED pend
  \/ /\ pc.k = "asrec" /\ CrUpdate(crE, crI \cup NewEntries(pc.e, pc.as, 0)) /\ pc' = Idle /\ UNCHANGED <<hist, pend>>
  \/ /\ pc.k = "cr"
     /\ \/ /\ CreateEnd(0, "", FALSE, 0, {}, {}) /\ pc' = Idle /\ H(PlanOf(FALSE))
        \/ /\ \E e \in Enis : ~cloud[e].on
           /\ Cardinality(A4 \ UsedA) >= pc.n /\ (MCV6 => Cardinality(A6 \ UsedA) >= pc.n)
           /\ LET e == Min({ x \in Enis : ~cloud[x].on })
                  s4 == Lowest(A4 \ UsedA, pc.n)
                  s6 == IF MCV6 THEN Lowest(A6 \ UsedA, pc.n) ELSE {} IN
              CreateEnd(e, "Secondary", FALSE, Min(s4), s4, s6) /\ pc' = [k |-> "att", e |-> e]
           /\ H(PlanOf(TRUE))
     /\ UNCHANGED pend
  \/ /\ pc.k = "att" /\ \E eff \in BOOLEAN :
        /\ Attach(pc.e, eff) /\ pc' = [k |-> (IF eff THEN "rec" ELSE "rb"), e |-> pc.e] /\ H(PlanOf(eff)) /\ UNCHANGED pend
  \/ /\ pc.k = "rec"
     /\ CrUpdate(crE \cup {[e |-> pc.e, st |-> "InUse", type |-> "Secondary", rdma |-> FALSE]}, crI \cup NewEntries(pc.e, Addrs(pc.e), cloud[pc.e].primary))
     /\ pc' = Idle /\ UNCHANGED <<hist, pend>>
  \/ /\ pc.k = "rb" /\ DeleteBegin(pc.e) /\ pc' = [k |-> "rbd", e |-> pc.e] /\ UNCHANGED <<hist, pend>>
  \/ /\ pc.k = "rbd" /\ \E eff \in BOOLEAN :
        /\ DeleteEnd(pc.e, eff) /\ pc' = (IF eff THEN Idle ELSE [k |-> "rbrec", e |-> pc.e]) /\ H(PlanOf(eff)) /\ UNCHANGED pend
  \/ /\ pc.k = "rbrec" /\ CrUpdate(crE \cup {[e |-> pc.e, st |-> "Deleting", type |-> "Secondary", rdma |-> FALSE]}, crI)
     /\ pc' = Idle /\ UNCHANGED <<hist, pend>>
  \/ /\ pc.k = "del" /\ DeleteBegin(pc.e) /\ pc' = [k |-> "del2", e |-> pc.e] /\ UNCHANGED <<hist, pend>>
  \/ /\ pc.k = "del2" /\ \E eff \in BOOLEAN :
        /\ DeleteEnd(pc.e, eff) /\ pc' = (IF eff THEN [k |-> "delrec", e |-> pc.e] ELSE Idle) /\ H(PlanOf(eff)) /\ UNCHANGED pend
  \/ /\ pc.k = "delrec" /\ CrUpdate({ y \in crE : y.e # pc.e }, { x \in crI : x.e # pc.e }) /\ pc' = Idle /\ UNCHANGED <<hist, pend>>
  \/ /\ pc.k = "sync" /\ CrUpdate(SyncE, SyncI) /\ pc' = Idle /\ UNCHANGED <<hist, pend>>

Step == IF pc # Idle THEN CtlCont
        ELSE IF seen # {} THEN ReconcileBegin /\ UNCHANGED mvars          \* the reconcile is over: what it learned from the cloud is forgotten
        ELSE EnvStep \/ CtlStart

Emit(h) == Serialize(ToJson(h) \o "\n", IOEnv.VERIF_SCEN,
                     [format |-> "TXT", charset |-> "UTF-8", openOptions |-> <<"WRITE", "CREATE", "APPEND">>]).exitValue = 0
ConfStep == [a |-> "conf", conf |-> [v4 |-> TRUE, v6 |-> MCV6, cap4 |-> MCCap + 1, cap6 |-> MCCap + 1, sec |-> MCMaxEni, trunk |-> FALSE, rdma |-> 0,
                                     min |-> MCMin, max |-> MCMax, pre |-> 1, preIPs |-> 2, init |-> "empty"]]
Finish == /\ Len(hist) > 0 /\ hist[1].a # "end"
          /\ Emit(<<ConfStep>> \o hist)
          /\ hist' = <<[a |-> "end"]>>
          /\ UNCHANGED <<vars, pend, pc>>

MCNext == IF conf.cap4 = 0 THEN MCStart
          ELSE IF GenOn /\ Len(hist) >= MaxLen THEN Finish
          ELSE IF GenOn /\ Len(hist) > 0 /\ hist[1].a = "end" THEN UNCHANGED <<vars, mvars>>
          ELSE Step
MCSpec == MCInit /\ [][MCNext]_<<vars, mvars>>

(* no two running sandboxes hold one address - a theorem only while a teardown report cannot go stale *)
Exclusive == \A u1, u2 \in Uids : u1 # u2 /\ up[u1] /\ up[u2] =>
                ({given[u1].a4, given[u1].a6} \cap {given[u2].a4, given[u2].a6}) \ {0} = {}
=============================================================================
