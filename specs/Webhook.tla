------------------------------ MODULE Webhook ------------------------------
(* C18 - the admission webhook only touches pods it owns and always emits a   *)
(* complete spec.                                                             *)
(*                                                                            *)
(* Function specification: DomSeq is a finite structured domain of admission  *)
(* situations (a pod, the PodNetworking objects and the namespace of the      *)
(* cluster, the control-plane configuration); Bad(c) is the relation of the   *)
(* property text evaluated on the admission answer and on the pod that        *)
(* LEAVES admission (the input pod with the returned JSON patch applied),     *)
(* written from the property text over plain values. Nothing here follows the *)
(* order of checks of the Go code.                                            *)
(*                                                                            *)
(* Readings taken where the text leaves room (always the lenient one):        *)
(*  R1 "labelled as ignored" = label k8s.aliyun.com/ignore-by-terway="true".  *)
(*  R2 "centralized-IPAM mode" = ipamType "crd". For the intermediate value    *)
(*     "preferCRD" neither behaviour is demanded.                             *)
(*  R3 "match no network definition" = the pod carries none of the three      *)
(*     network annotations, does not already carry the pod-eni mark, and no   *)
(*     PodNetworking of the cluster selects it (a PodNetworking selects a pod *)
(*     when it has at least one selector and all selectors it has match).     *)
(*     When a selecting PodNetworking exists but is not usable (not Ready, or *)
(*     fixed-IP for a pod without stable name) both "admit unchanged" and     *)
(*     "refuse" are accepted.                                                 *)
(*  R4 the out-of-scope sentence wins over the deny sentences (a host-network *)
(*     pod with conflicting annotations is admitted unchanged). A pod without *)
(*     containers is invalid for the API server; nothing but "no crash" and   *)
(*     "marked => complete" is demanded for it.                               *)
(*  R5 "the webhook marks" = the pod is admitted, leaves with pod-eni = true  *)
(*     and either did not carry the mark before or was changed by the webhook.*)
(*  R6 "at most ten security groups": zero groups is accepted (text gives no  *)
(*     lower bound). "an allocation type": the field is present (not null).   *)
(*     "parseable network list": a JSON object with a non-empty list          *)
(*     podNetworks of objects (a pod marked for an ENI with no network at all *)
(*     is not a network list).                                                *)
(*  R7 "device request equal to the number of networks": the sum over all     *)
(*     containers of the requests for aliyun/eni and aliyun/member-eni; which *)
(*     of the two names is used, and in which container, is free.             *)
(*  R8 zone affinity. Z = zones every requested network has a vSwitch in, as  *)
(*     far as the cluster objects say: for pod-networks-request the           *)
(*     intersection over the named PodNetworkings' status; for a selected     *)
(*     PodNetworking its status zones. The zones a node may be in according   *)
(*     to the REQUIRED node affinity of the leaving pod (union over terms of  *)
(*     the intersection of the term's "zone In" expressions; everything when  *)
(*     there is no term / no expression) must be a subset of Z. Not demanded: *)
(*     for networks given inline (zones unknown to the webhook), for          *)
(*     DaemonSet pods (pinned to their node by the DaemonSet controller), and *)
(*     when Z is empty or unknown (the text does not say whether to refuse or *)
(*     to admit unconstrained - see report).                                  *)
(*  R9 "fixed-IP allocations are refused for pods without a stable name":     *)
(*     such a pod never leaves admission marked with a Fixed entry (refusing  *)
(*     the pod, or not using the fixed definition, are both fine). Stable     *)
(*     name = no owner, or owned by a StatefulSet.                            *)
(*  The eni-config ConfigMap (cluster defaults) is valid and has vSwitches    *)
(*  and security groups, or is absent (field cm).                             *)
(*  TLC note: no bound identifier of this module may be called z, i, bad or *)
(*  N: the generated _Gen/_Judge wrappers declare VARIABLE z / VARIABLES i,   *)
(*  bad and define N; a bound name equal to a wrapper variable makes TLC      *)
(*  treat DomSeq as non-constant and re-evaluate it on every access.          *)
EXTENDS Integers, Sequences, FiniteSets, TLC, SequencesExt

CONSTANT Tier            \* "quick" | "thorough"

Thorough == Tier = "thorough"
Rng(s) == { s[ix] : ix \in 1..Len(s) }

------------------------------------------------------------------------
(* Constructors of the case description *)

Lbl(k, v) == [k |-> k, v |-> v]
Sel(k, v) == [on |-> TRUE, k |-> k, v |-> v]
NoSel     == [on |-> FALSE, k |-> "", v |-> ""]

PN(name, ready, fixed, ps, ns, zones, attach, nsg) ==
    [name |-> name, ready |-> ready, fixed |-> fixed, podSel |-> ps, nsSel |-> ns,
     zones |-> zones, attach |-> attach, nsg |-> nsg]

Entry(ifn, nvsw, nsg, alloc) == [ifn |-> ifn, nvsw |-> nvsw, nsg |-> nsg, alloc |-> alloc]
Ref(ifn, net) == [ifn |-> ifn, net |-> net]

NetsAbsent   == [form |-> "absent", entries |-> <<>>]
NetsBad      == [form |-> "bad", entries |-> <<>>]
NetsList(es) == [form |-> "list", entries |-> es]
ReqsAbsent   == [form |-> "absent", refs |-> <<>>]
ReqsBad      == [form |-> "bad", refs |-> <<>>]
ReqsList(rs) == [form |-> "list", refs |-> rs]

Web == <<Lbl("app", "web")>>
TeamA == <<Lbl("team", "a")>>

Base == [fn |-> "pod", hostNet |-> FALSE, ignore |-> FALSE, owner |-> "ReplicaSet", ncont |-> 1,
         labels |-> Web, nsLabels |-> TeamA, podEni |-> FALSE,
         nets |-> NetsAbsent, reqs |-> ReqsAbsent, pnAnno |-> FALSE, aff |-> 0, prevZone |-> "",
         pns |-> <<>>, ipam |-> "", trunk |-> TRUE, inject |-> TRUE, cm |-> TRUE]

Owners   == {"none", "StatefulSet", "ReplicaSet", "DaemonSet"}
OwnersQ  == IF Thorough THEN Owners ELSE {"none", "ReplicaSet", "DaemonSet"}
Ipams    == IF Thorough THEN {"", "crd", "preferCRD"} ELSE {"", "crd"}

------------------------------------------------------------------------
(* Family E: scope. Host network / ignore label / container count x every    *)
(* subset of the three network annotations (well-formed payloads) x a        *)
(* cluster with or without a selecting PodNetworking x configuration.        *)

PnA   == PN("pn-a", TRUE, FALSE, NoSel, NoSel, <<"z1", "z2">>, "Default", 1)
PnSelWeb == PN("pn-m", TRUE, FALSE, Sel("app", "web"), NoSel, <<"z1", "z2">>, "Default", 2)

FamE ==
    { [Base EXCEPT !.hostNet = h, !.ignore = g, !.ncont = n, !.nets = a, !.reqs = r, !.pnAnno = p,
                   !.pns = P, !.ipam = ix, !.inject = j, !.owner = o]
      : h \in BOOLEAN, g \in BOOLEAN, n \in 0..2,
        a \in {NetsAbsent, NetsList(<<Entry("eth0", 2, 1, "nil")>>)},
        r \in {ReqsAbsent, ReqsList(<<Ref("eth0", "pn-a")>>)},
        p \in BOOLEAN, P \in {<<>>, <<PnA, PnSelWeb>>}, ix \in Ipams, j \in BOOLEAN,
        o \in {"none", "ReplicaSet"} }

------------------------------------------------------------------------
(* Family N: inline network lists (annotation pod-networks): interface names  *)
(* of length 0, 1, 4, 5, 6, duplicates, 0/1/10/11 security groups, vSwitches  *)
(* given or not, allocation type absent / Elastic / Fixed, malformed JSON,    *)
(* empty list.                                                                *)

IfNames == {"", "e", "eth0", "eth1", "eth10", "eth100"}
Singles == { <<Entry(f, v, s, a)>> : f \in IfNames, v \in {0, 2}, s \in {0, 1, 10, 11}, a \in {"nil", "Elastic", "Fixed"} }
Doubles == { <<Entry("eth0", v1, 1, "nil"), Entry(f, v, s, a)>>
             : v1 \in {0, 2}, f \in {"eth0", "eth1"}, v \in {0, 2}, s \in {0, 1, 11}, a \in {"nil", "Fixed"} }
          \cup { <<Entry("eth1", v1, s1, "nil"), Entry("eth0", v, 0, "Elastic")>> : v1 \in {0, 1}, s1 \in {0, 1}, v \in {0, 1} }
Triples == { <<Entry("eth0", 1, 1, "nil"), Entry("eth1", v, 1, a), Entry(f, 1, 10, "Elastic")>>
             : v \in {0, 1}, a \in {"nil", "Fixed"}, f \in {"eth1", "eth2", "net100"} }
Payloads == { NetsList(es) : es \in Singles \cup Doubles \cup (IF Thorough THEN Triples ELSE {}) }
              \cup {NetsBad, NetsList(<<>>)}

FamN ==
    { [Base EXCEPT !.nets = a, !.owner = o, !.inject = j, !.trunk = t, !.ipam = ix, !.ncont = n]
      : a \in Payloads, o \in Owners, j \in BOOLEAN,
        t \in (IF Thorough THEN BOOLEAN ELSE {TRUE}), ix \in (IF Thorough THEN Ipams ELSE {"crd"}),
        n \in (IF Thorough THEN {1, 2} ELSE {1}) }
    \cup { [Base EXCEPT !.nets = NetsList(es), !.cm = FALSE, !.owner = o]
           : es \in { s \in Singles : s[1].nsg \in {0, 1} /\ s[1].alloc = "nil" }, o \in {"none", "ReplicaSet"} }

------------------------------------------------------------------------
(* Family R: pod-networks-request. The cluster holds definitions without      *)
(* selector in different zones (so that intersections are {z2}, {z1,z2}, {}), *)
(* a fixed-IP one, a not-ready one, one with a selector, one asking for a     *)
(* dedicated (non-trunk) ENI, one with eleven security groups; requests name  *)
(* one to three of them (or a missing one) with default / explicit /          *)
(* duplicate / too long interface names.                                      *)

ReqCluster == << PnA,
                 PN("pn-b", TRUE, FALSE, NoSel, NoSel, <<"z2", "z3">>, "Default", 10),
                 PN("pn-c", TRUE, FALSE, NoSel, NoSel, <<"z3">>, "Default", 1),
                 PN("pn-e", TRUE, FALSE, NoSel, NoSel, <<"z1", "z2", "z3">>, "ENI", 1),
                 PN("pn-f", TRUE, TRUE, NoSel, NoSel, <<"z1", "z2">>, "Default", 1),
                 PN("pn-g", TRUE, FALSE, NoSel, NoSel, <<"z2">>, "Default", 11),
                 PN("pn-n", FALSE, FALSE, NoSel, NoSel, <<"z1", "z2">>, "Default", 1),
                 PN("pn-s", TRUE, FALSE, Sel("app", "web"), NoSel, <<"z1", "z2">>, "Default", 1) >>
ReqNames == {"pn-a", "pn-b", "pn-c", "pn-e", "pn-f", "pn-g", "pn-n", "pn-s", "pn-missing"}

Refs1 == { <<Ref(f, n)>> : f \in {"", "eth1", "eth100"}, n \in ReqNames }
Refs2 == { <<Ref("", n1), Ref(f, n2)>>
           : n1 \in (IF Thorough THEN ReqNames ELSE {"pn-a", "pn-e", "pn-f"}), f \in {"", "net1", "eth100"}, n2 \in ReqNames }
Refs3 == { <<Ref("", "pn-a"), Ref("net1", n2), Ref(f, n3)>>
           : n2 \in {"pn-b", "pn-e", "pn-f"}, f \in {"net1", "net2"}, n3 \in {"pn-a", "pn-b", "pn-c", "pn-e"} }
(* three networks whose first two share no zone (the running intersection is empty before the last one) *)
RefsDisj == { <<Ref("", pr[1]), Ref("net1", pr[2]), Ref("net2", n3)>>
              : pr \in {<<"pn-a", "pn-c">>, <<"pn-c", "pn-g">>, <<"pn-c", "pn-f">>}, n3 \in {"pn-a", "pn-b", "pn-e", "pn-c"} }
ReqPayloads == { ReqsList(r) : r \in Refs1 \cup Refs2 \cup RefsDisj \cup (IF Thorough THEN Refs3 ELSE {}) } \cup {ReqsBad, ReqsList(<<>>)}

FamR ==
    { [Base EXCEPT !.reqs = r, !.pns = ReqCluster, !.owner = o, !.aff = a, !.inject = j, !.trunk = t, !.labels = <<>>]
      : r \in ReqPayloads, o \in OwnersQ, a \in (IF Thorough THEN 0..2 ELSE {0, 2}), j \in BOOLEAN, t \in BOOLEAN }
    \cup { [Base EXCEPT !.reqs = ReqsList(r), !.pns = ReqCluster, !.owner = o, !.prevZone = zn, !.aff = a, !.labels = <<>>]
           : r \in { <<Ref("", "pn-f")>>, <<Ref("", "pn-a"), Ref("net1", "pn-f")>>, <<Ref("", "pn-a")>> },
             o \in {"none", "StatefulSet", "ReplicaSet"}, zn \in {"z1", "z3"}, a \in {0, 1} }

------------------------------------------------------------------------
(* Family S: selector matching. One or two PodNetworkings with pod and/or    *)
(* namespace selectors that match or not, Ready or not, Elastic or Fixed, x  *)
(* pod labels x namespace labels x owner x IPAM type x a pod that already    *)
(* carries the pod-eni mark.                                                  *)

PodSels == {NoSel, Sel("app", "web"), Sel("app", "db")}
NsSels  == {NoSel, Sel("team", "a"), Sel("team", "b")}
OnePN == { <<PN("pn-1", rd, fx, ps, ns, zs, "Default", 1)>>
           : rd \in BOOLEAN, fx \in BOOLEAN, ps \in PodSels, ns \in NsSels,
             zs \in (IF Thorough THEN {<<"z1", "z2">>, <<>>} ELSE {<<"z1", "z2">>}) }

FamS1 ==
    { [Base EXCEPT !.pns = P, !.labels = l, !.nsLabels = nl, !.owner = o, !.ipam = ix, !.podEni = e, !.inject = j, !.aff = a]
      : P \in OnePN \cup {<<>>}, l \in {<<>>, Web}, nl \in {<<>>, TeamA}, o \in OwnersQ, ix \in Ipams,
        e \in BOOLEAN, j \in BOOLEAN, a \in (IF Thorough THEN {0, 2} ELSE {0}) }

First2  == { PN("pn-1", TRUE, FALSE, Sel("app", "web"), NoSel, <<"z1", "z2">>, "Default", 1),
             PN("pn-1", FALSE, FALSE, Sel("app", "web"), NoSel, <<"z1", "z2">>, "Default", 1),
             PN("pn-1", TRUE, TRUE, NoSel, Sel("team", "a"), <<"z1">>, "Default", 1),
             PN("pn-1", TRUE, FALSE, Sel("app", "db"), NoSel, <<"z1", "z2">>, "Default", 1),
             PN("pn-1", TRUE, FALSE, Sel("app", "web"), Sel("team", "b"), <<"z1", "z2">>, "Default", 1) }
Second2 == { PN("pn-2", TRUE, FALSE, Sel("app", "web"), NoSel, <<"z3">>, "Default", 1),
             PN("pn-2", TRUE, FALSE, NoSel, Sel("team", "a"), <<"z2">>, "ENI", 10),
             PN("pn-2", TRUE, FALSE, Sel("app", "db"), Sel("team", "a"), <<"z3">>, "Trunk", 1),
             PN("pn-2", TRUE, FALSE, NoSel, NoSel, <<"z3">>, "Default", 1) }

FamS2 ==
    { [Base EXCEPT !.pns = <<p1, p2>>, !.owner = o, !.aff = a, !.ipam = ix, !.trunk = t, !.prevZone = zn, !.ncont = n]
      : p1 \in First2, p2 \in Second2, o \in Owners, a \in 0..2, ix \in Ipams, t \in BOOLEAN,
        zn \in (IF Thorough THEN {"", "z1"} ELSE {""}), n \in (IF Thorough THEN {1, 2} ELSE {1}) }

DomSet == FamE \cup FamN \cup FamR \cup FamS1 \cup FamS2
DomSeq == SetToSeq(DomSet)

------------------------------------------------------------------------
(* The relation, from the property text. c = [id, in, out, panic].           *)
(* out: allowed, unchanged (leaving pod = input pod), applyErr, podEni,       *)
(* netsOk, entries [ifn, nvsw, nsg, allocSet, allocType], reqEni, reqMember,  *)
(* aff (per required term the value lists of its zone-In expressions).        *)

ZoneU == {"z1", "z2", "z3", "zn-elsewhere"}      \* "zn-elsewhere": any zone no network lives in

SelMatches(sel, labels) == \E ix \in 1..Len(labels) : labels[ix].k = sel.k /\ labels[ix].v = sel.v
Selects(p, in) == /\ p.podSel.on \/ p.nsSel.on
                  /\ p.podSel.on => SelMatches(p.podSel, in.labels)
                  /\ p.nsSel.on => SelMatches(p.nsSel, in.nsLabels)
Selecting(in) == { p \in Rng(in.pns) : Selects(p, in) }

Stable(in) == in.owner \in {"none", "StatefulSet"}
NumAnno(in) == (IF in.nets.form # "absent" THEN 1 ELSE 0) + (IF in.reqs.form # "absent" THEN 1 ELSE 0)
               + (IF in.pnAnno THEN 1 ELSE 0)
Conflict(in) == NumAnno(in) >= 2
InScope(in) == ~in.hostNet /\ ~in.ignore /\ in.ncont > 0

MustBeUntouched(in) ==
    \/ in.hostNet
    \/ in.ignore
    \/ in.ipam = "" /\ NumAnno(in) = 0 /\ ~in.podEni /\ Selecting(in) = {}

Marked(in, out) == out.allowed /\ out.podEni /\ (~in.podEni \/ ~out.unchanged)

Distinct(s) == \A ix, j \in 1..Len(s) : ix # j => s[ix] # s[j]
StrLen(s) == Len(s)     \* TLC: strings are sequences of characters

(* zones a node may be in according to the required node affinity *)
TermZones(t) == { zn \in ZoneU : \A ix \in 1..Len(t) : zn \in Rng(t[ix]) }
AllowedZones(aff) == IF Len(aff) = 0 THEN ZoneU ELSE UNION { TermZones(aff[k]) : k \in 1..Len(aff) }

InputAllowed(in) == IF in.aff = 1 THEN {"z1", "z2", "z3"} ELSE ZoneU   \* what the pod's own affinity allowed (harness: term 1 names z1..z3, term 2 no zone)
ByName(in, n) == CHOOSE p \in Rng(in.pns) : p.name = n
Resolvable(in) == \A ix \in 1..Len(in.reqs.refs) : \E p \in Rng(in.pns) : p.name = in.reqs.refs[ix].net
CommonZones(in) == { zn \in ZoneU : \A ix \in 1..Len(in.reqs.refs) : zn \in Rng(ByName(in, in.reqs.refs[ix].net).zones) }

ByRequest(in)  == in.nets.form = "absent" /\ in.reqs.form = "list" /\ Len(in.reqs.refs) > 0 /\ ~in.pnAnno
BySelector(in) == in.nets.form = "absent" /\ in.reqs.form = "absent"
Usable(p, in)  == p.ready /\ (p.fixed => Stable(in))

ZoneBad(in, out) ==
    LET az == AllowedZones(out.aff) IN
    IF in.owner = "DaemonSet" THEN FALSE
    ELSE IF ByRequest(in) /\ Resolvable(in)
         THEN IF CommonZones(in) # {} THEN ~(az \subseteq CommonZones(in))
              \* no common zone: admitting the pod without a zone restriction is tolerated (R8), but a restriction the
              \* webhook adds must still not pin the pod to zones in which some requested network has no vSwitch
              ELSE az # InputAllowed(in) /\ az # {}
    ELSE IF BySelector(in) /\ (\E p \in Selecting(in) : Usable(p, in))
         THEN ~(\E p \in Selecting(in) : Rng(p.zones) = {} \/ az \subseteq Rng(p.zones))
    ELSE FALSE

Incomplete(in, out) ==
    LET es == out.entries
        cnt  == Len(es)
    IN  (IF out.netsOk THEN {} ELSE {"marked_without_parseable_network_list"})
        \cup (IF out.netsOk /\ cnt = 0 THEN {"marked_with_empty_network_list"} ELSE {})
        \cup (IF \E ix \in 1..cnt : StrLen(es[ix].ifn) < 1 \/ StrLen(es[ix].ifn) > 5 THEN {"interface_name_not_1_to_5_chars"} ELSE {})
        \cup (IF Distinct([ix \in 1..cnt |-> es[ix].ifn]) THEN {} ELSE {"interface_name_not_unique"})
        \cup (IF \E ix \in 1..cnt : es[ix].nvsw = 0 THEN {"entry_without_vswitches"} ELSE {})
        \cup (IF \E ix \in 1..cnt : es[ix].nsg > 10 THEN {"entry_with_more_than_ten_security_groups"} ELSE {})
        \cup (IF \E ix \in 1..cnt : ~es[ix].allocSet THEN {"entry_without_allocation_type"} ELSE {})
        \cup (IF in.inject /\ out.netsOk /\ out.reqEni + out.reqMember # cnt THEN {"device_request_not_number_of_networks"} ELSE {})
        \cup (IF ZoneBad(in, out) THEN {"zone_affinity_wider_than_common_zones"} ELSE {})

Bad(c) ==
    IF c.panic # "" THEN {"panic"}
    ELSE LET in == c.in  out == c.out IN
    IF in.fn # "pod" THEN {"unknown_case"}
    ELSE
        (IF out.applyErr # "" \/ out.decodeErr # "" THEN {"patch_not_applicable"} ELSE {})
        \cup (IF MustBeUntouched(in) /\ ~(out.allowed /\ out.unchanged) THEN {"out_of_scope_pod_touched_or_refused"} ELSE {})
        \cup (IF InScope(in) /\ Conflict(in) /\ out.allowed THEN {"conflicting_annotations_admitted"} ELSE {})
        \cup (IF Marked(in, out) THEN Incomplete(in, out) ELSE {})
        \cup (IF Marked(in, out) /\ ~Stable(in) /\ (\E ix \in 1..Len(out.entries) : out.entries[ix].allocType = "Fixed")
              THEN {"fixed_ip_admitted_for_pod_without_stable_name"} ELSE {})

------------------------------------------------------------------------
(* Sanity of the oracle itself, checked by TLC when the domain is generated. *)
ASSUME AllowedZones(<<>>) = ZoneU
ASSUME AllowedZones(<< <<>> >>) = ZoneU
ASSUME AllowedZones(<< << <<"z1", "z2">>, <<"z2", "z3">> >> >>) = {"z2"}
ASSUME AllowedZones(<< << <<"z1">> >>, << <<"z3">>, <<"z1", "z2", "z3">> >> >>) = {"z1", "z3"}
ASSUME AllowedZones(<< << <<"z1">> >>, <<>> >>) = ZoneU
ASSUME SelMatches(Sel("app", "web"), Web) /\ ~SelMatches(Sel("app", "db"), Web) /\ ~SelMatches(Sel("app", "web"), <<>>)
ASSUME Selects(PnSelWeb, Base) /\ ~Selects(PnA, Base)
ASSUME ~Selects(PN("x", TRUE, FALSE, Sel("app", "web"), Sel("team", "b"), <<>>, "Default", 1), Base)
ASSUME MustBeUntouched(Base) /\ ~MustBeUntouched([Base EXCEPT !.ipam = "crd"])
ASSUME ~MustBeUntouched([Base EXCEPT !.pns = <<PnSelWeb>>]) /\ MustBeUntouched([Base EXCEPT !.pns = <<PnSelWeb>>, !.hostNet = TRUE])
ASSUME Conflict([Base EXCEPT !.pnAnno = TRUE, !.reqs = ReqsBad]) /\ ~Conflict([Base EXCEPT !.pnAnno = TRUE])
ASSUME CommonZones([Base EXCEPT !.pns = ReqCluster, !.reqs = ReqsList(<<Ref("", "pn-a"), Ref("n", "pn-b")>>)]) = {"z2"}
ASSUME CommonZones([Base EXCEPT !.pns = ReqCluster, !.reqs = ReqsList(<<Ref("", "pn-a"), Ref("n", "pn-c")>>)]) = {}
ASSUME StrLen("eth10") = 5 /\ StrLen("") = 0
ASSUME Distinct(<<"a", "b">>) /\ ~Distinct(<<"a", "b", "a">>)
ASSUME Stable([Base EXCEPT !.owner = "none"]) /\ ~Stable(Base)
=============================================================================
