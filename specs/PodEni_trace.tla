---------------------------- MODULE PodEni_trace ----------------------------
(* Trace validation of recorded executions of the real pod controller, PodENI controller, its two  *)
(* collectors and the daemon-side record check (one controller-runtime fake API server, one fake    *)
(* cloud) against PodEni.tla.  Every observable step is logged with its arguments, so the walk is   *)
(* linear.  Lines without a specification action (elapse markers, failed writes, failed reads - a   *)
(* failed read shows the function nothing, so the step may do nothing, but every guard on what it   *)
(* does next stays in force -, reads of records,                                                    *)
(* describe calls, "unstable" markers) are consumed without a state change.                          *)
EXTENDS PodEni, Json, IOUtils, TLCExt

Log == ndJsonDeserialize(IOEnv.VERIF_TRACE)
VARIABLE l

IsEv(k) == l <= Len(Log) /\ Log[l].ev = k /\ l' = l + 1
Skipped == {"elapse", "pe_fail", "read_fail", "unstable", "note"}

AllocOf(j) == [e |-> j.e, fixed |-> j.fixed, strat |-> j.strat, ttl |-> j.ttl, ip |-> j.ip]
PeOf(j) == IF ~j.ex THEN NoPe
           ELSE [ex |-> TRUE, phase |-> j.phase, uid |-> j.uid, del |-> j.del,
                 allocs |-> { AllocOf(j.allocs[i]) : i \in 1..Len(j.allocs) }, seen |-> j.seen]
Pick(lst, key, k) == lst[CHOOSE i \in 1..Len(lst) : lst[i][key] = k]
Has(lst, key, k) == \E i \in 1..Len(lst) : lst[i][key] = k
PodsOf(lst) == [n \in Names |-> IF Has(lst, "n", n)
                                THEN LET x == Pick(lst, "n", n) IN [ex |-> x.ex, uid |-> x.uid, run |-> x.run, term |-> x.term, node |-> x.node, fixed |-> x.fixed]
                                ELSE NoPod]
RecsOf(lst) == [n \in Names |-> IF Has(lst, "n", n) THEN PeOf(Pick(lst, "n", n)) ELSE NoPe]
EnisOf(lst) == [e \in Enis |-> IF Has(lst, "e", e)
                               THEN LET x == Pick(lst, "e", e) IN [ex |-> TRUE, st |-> x.st, inst |-> x.inst, ours |-> x.ours, created |-> x.created]
                               ELSE NoEni]

TReset  == IsEv("reset") /\ LET e == Log[l] IN Reset(e.t, PodsOf(e.pods), RecsOf(e.recs), EnisOf(e.enis))
TSkip   == l <= Len(Log) /\ Log[l].ev \in Skipped /\ l' = l + 1 /\ UNCHANGED vars
TPod    == IsEv("pod") /\ LET e == Log[l] IN
              \/ e.op = "create" /\ PodCreate(e.t, e.n, e.uid, e.node, e.fixed)
              \/ e.op = "term" /\ PodTerm(e.t, e.n)
              \/ e.op = "exit" /\ PodExit(e.t, e.n)
              \/ e.op = "gone" /\ PodGone(e.t, e.n)
TCall   == IsEv("call") /\ LET e == Log[l] IN CallBegin(e.t, e.c, e.who, e.n)
TRet    == IsEv("ret") /\ LET e == Log[l] IN CallEnd(e.t, e.c)
TPodGet == IsEv("pod_get") /\ LET e == Log[l] IN PodGet(e.t, e.c, e.who, e.n, e.found, e.run)
TList   == IsEv("rec_list") /\ LET e == Log[l] IN RecList(e.t, e.c)
TWrite  == IsEv("pe_write") /\ LET e == Log[l] IN PeWrite(e.t, e.c, e.who, e.n, PeOf(e.post))
TCloud  == IsEv("cloud") /\ LET e == Log[l] IN
              \/ e.op = "create" /\ CloudCreate(e.t, e.c, e.who, e.e, e.ours, e.created)
              \/ e.op = "attach" /\ CloudAttach(e.t, e.e, e.inst, e.effect)
              \/ e.op = "detach" /\ CloudDetach(e.t, e.c, e.who, e.e, e.effect)
              \/ e.op = "delete" /\ CloudDelete(e.t, e.c, e.who, e.e, e.effect)
TDaemon == IsEv("daemon") /\ LET e == Log[l] IN Daemon(e.t, e.n, e.uid, e.ok)
TQuiet  == IsEv("quiescent") /\ Quiescent(Log[l].t)

TInit == Init /\ l = 1
TNext == TReset \/ TSkip \/ TPod \/ TCall \/ TRet \/ TPodGet \/ TList \/ TWrite \/ TCloud \/ TDaemon \/ TQuiet
TSpec == TInit /\ [][TNext]_<<vars, l>>

HighWater == IF l > TLCGet(1) THEN TLCSet(1, l) ELSE TRUE
ASSUME TLCSet(1, 0)
InvC10 == NoUnrecorded
InvC11 == FixedKept
NotAccepted == ~(l > Len(Log))
Report == PrintT(<<"HIGHWATER", TLCGet(1)>>)
=============================================================================
