------------------------------ MODULE Factory ------------------------------
(* The node daemon's cloud factory (pkg/factory/aliyun, type Aliyun) at the true cloud boundary:           *)
(*   - calls of factory.Factory by the pool (CreateNetworkInterface, AssignNIPv4/6, UnAssignNIPv4/6,       *)
(*     DeleteNetworkInterface, LoadNetworkInterface, GetAttachedNetworkInterface), split into call/return; *)
(*   - every OpenAPI request the factory sends through the real client (one step per HTTP request: what    *)
(*     was asked, what the cloud did, what the client was told - the fake cloud serves a request           *)
(*     atomically, so begin and end coincide);                                                             *)
(*   - environment steps: an attachment / detachment completes, the instance metadata catches up with the  *)
(*     cloud (the metadata is a lagging copy), an address disappears on the cloud side.                    *)
(* The factory's internals (retry loops, polling, vSwitch cache, token cache) are not state here.  Every   *)
(* conjunct is an interface fact (I) - the fake cloud's own contract - or a clause of a listed property,   *)
(* G("Cxx", ...), or of the factory's own contract towards the pool, G("F", ...).                          *)
(*                                                                                                          *)
(* Clauses pushed down from the pool level (NodePool.tla judges the pool against a fake factory that is    *)
(* ASSUMED to honour them; here the real factory is judged):                                               *)
(*  C07  when a call returns, everything the cloud created on its behalf during the call is reported to    *)
(*       the caller (also next to an error) or exists no more; 'nil' from UnAssign / Delete means gone.    *)
(*       Lenient: a resource whose every announcement was lost (the last creating reply of the call was    *)
(*       lost and no delivered reply ever named it) is outside the clause - the client cannot know it;     *)
(*       the cloud replays the answer of a repeated ClientToken, so one delivered retry DOES recover it.   *)
(*       (A call whose every attempt loses the reply leaves the resource behind; the NEXT call with the    *)
(*       same arguments re-uses the token and recovers it - for CreateNetworkInterface only if it picks    *)
(*       the same vSwitch, which the random selection policy does not guarantee.  Recorded, not judged.)   *)
(*  C01  what a successful call reports is assigned to that interface of this instance at return time.     *)
(*  C06  the OpenAPI requests of a call ask exactly for what the caller asked: same interface, same count, *)
(*       same addresses, and no mutation the call does not imply.                                          *)
(* Assumptions about the cloud (lenient where the real service is not documented precisely): deleting an   *)
(* interface that does not exist succeeds; detaching one that is not attached succeeds; unassigning        *)
(* removes whatever of the named addresses is still assigned and only fails (InvalidIp.IpUnassigned) when  *)
(* none is.                                                                                                 *)
EXTENDS Integers, FiniteSets, Sequences, TLC

CONSTANTS Slots,     \* driver slots: concurrent callers of the factory
          Enis,      \* interface ids the cloud may use (the instance's primary interface included)
          Enforce    \* subset of {"C01", "C06", "C07", "F"}

G(p, clause) == IF p \in Enforce THEN clause ELSE TRUE

NoEni  == [st |-> "none", inst |-> 0, type |-> "", rdma |-> FALSE, vsw |-> 0, primary |-> 0, v4 |-> {}, v6 |-> {}, tagged |-> FALSE]
NoMeta == [on |-> FALSE, v4 |-> {}, v6 |-> {}]
NoCall == [k |-> "idle", e |-> 0, fam |-> 0, n4 |-> 0, n6 |-> 0, type |-> "", addrs |-> {},
           mE |-> {}, tE |-> {}, mA |-> {}, tA |-> {}, lost |-> FALSE, blk |-> {},
           views4 |-> {}, views6 |-> {}, att |-> {}, att0 |-> {}, touched |-> {}]

VARIABLES conf,     \* [v4, v6, tagf]: families the daemon enabled, whether a tag filter is configured
          cloud,    \* cloud[e]: [st: none|Available|Attaching|InUse|Detaching, inst: 0 none|1 this|2 other, type, rdma, vsw, primary, v4, v6, tagged]
          meta,     \* meta[e]: [on, v4, v6] - what the instance metadata shows for e (lags behind cloud)
          memo,     \* answers the cloud remembers per ClientToken: set of [t, act, e, r]
          blocked,  \* vSwitches the factory was told are exhausted
          calls,    \* calls[c]: the factory call in flight in slot c (NoCall = none)
          rg,       \* <<e, fam, a>> removed on the cloud side since it was last assigned
          acct      \* history: [enis, addrs: reported to the caller or there from the start; exE, exA: excused (never announced); handed: reported by a successful call]

vars == <<conf, cloud, meta, memo, blocked, calls, rg, acct>>

C(e) == IF e \in Enis THEN cloud[e] ELSE NoEni
M(e) == IF e \in Enis THEN meta[e] ELSE NoMeta
Fam(x, f) == IF f = 4 THEN x.v4 ELSE x.v6
Trip(e, f, S) == { <<e, f, a>> : a \in S }
View(x) == IF x.inst = 1 THEN [on |-> TRUE, v4 |-> x.v4, v6 |-> x.v6] ELSE NoMeta      \* what the metadata will show once it caught up
UsedA(f) == UNION { Fam(cloud[e], f) : e \in Enis }
Mutations == {"CreateNetworkInterface", "AttachNetworkInterface", "AssignPrivateIpAddresses", "AssignIpv6Addresses",
              "UnassignPrivateIpAddresses", "UnassignIpv6Addresses", "DetachNetworkInterface", "DeleteNetworkInterface"}
AssignAct(f) == IF f = 4 THEN "AssignPrivateIpAddresses" ELSE "AssignIpv6Addresses"
Exhausted == {"InvalidVSwitchId.IpNotEnough", "QuotaExceeded.PrivateIpAddress"}
AttachedNow == { e \in Enis : cloud[e].inst = 1 \/ meta[e].on }
Open == { c \in Slots : calls[c].k # "idle" }

Init == /\ conf = [v4 |-> TRUE, v6 |-> FALSE, tagf |-> FALSE]
        /\ cloud = [e \in Enis |-> NoEni] /\ meta = [e \in Enis |-> NoMeta]
        /\ memo = {} /\ blocked = {} /\ rg = {}
        /\ calls = [c \in Slots |-> NoCall]
        /\ acct = [enis |-> {}, addrs |-> {}, exE |-> {}, exA |-> {}, handed |-> {}]

AllTrips(cl) == UNION { Trip(e, 4, cl[e].v4) \cup Trip(e, 6, cl[e].v6) : e \in Enis }
Reset(cf, cl, mt) ==
    /\ conf' = cf /\ cloud' = cl /\ meta' = mt
    /\ memo' = {} /\ blocked' = {} /\ rg' = {}
    /\ calls' = [c \in Slots |-> NoCall]
    /\ acct' = [enis |-> { e \in Enis : cl[e].st # "none" }, addrs |-> AllTrips(cl), exE |-> {}, exA |-> {}, handed |-> AllTrips(cl)]

(* every open call notes that interface e changed under it / what the metadata showed meanwhile *)
Note(cs, e) == [c \in Slots |-> IF cs[c].k = "idle" THEN cs[c] ELSE
                   [cs[c] EXCEPT !.touched = @ \cup {e}, !.att = @ \cup (IF cloud'[e].inst = 1 \/ meta'[e].on THEN {e} ELSE {}),
                                 !.views4 = IF cs[c].k = "load" /\ cs[c].e = e THEN @ \cup {meta'[e].v4} ELSE @,
                                 !.views6 = IF cs[c].k = "load" /\ cs[c].e = e THEN @ \cup {meta'[e].v6} ELSE @]]

(* ---------------------------------------------------------------- the pool calls the factory *)

Call(c, k, e, fam, n4, n6, type, addrs) ==
    /\ calls[c].k = "idle"                                                                            \* (I)
    /\ calls' = [calls EXCEPT ![c] = [NoCall EXCEPT !.k = k, !.e = e, !.fam = fam, !.n4 = n4, !.n6 = n6, !.type = type, !.addrs = addrs,
                                       !.blk = blocked, !.att = AttachedNow, !.att0 = AttachedNow,
                                       !.views4 = {M(e).v4}, !.views6 = {M(e).v6}]]
    /\ UNCHANGED <<conf, cloud, meta, memo, blocked, rg, acct>>

(* ---------------------------------------------------------------- one OpenAPI request of the call in slot h.c *)
(* h: [c, act, tok, e, inst, n4, n6, addrs, vsw, type, rdma, out: ok|err|lost, code, eff, re, rp, r4, r6]                                  *)
(* out = "lost": the cloud did what was asked, the client got no usable answer.  eff: the cloud state changed.                            *)

Implied(cl, h) ==       \* the mutations a call implies (C06)
    CASE cl.k = "create" ->
           \/ /\ h.act = "CreateNetworkInterface" /\ h.n4 = cl.n4 /\ h.n6 = cl.n6
              /\ h.type = (IF cl.type = "trunk" THEN "Trunk" ELSE "Secondary") /\ h.rdma = (cl.type = "erdma")
           \/ h.act = "AttachNetworkInterface" /\ h.e \in cl.mE \cup cl.tE /\ h.inst = 1
           \/ h.act \in {"DetachNetworkInterface", "DeleteNetworkInterface"} /\ h.e \in cl.mE \cup cl.tE            \* handing back what it just created
      [] cl.k = "assign" ->
           \/ h.act = "AssignPrivateIpAddresses" /\ cl.fam = 4 /\ h.e = cl.e /\ h.n4 = cl.n4
           \/ h.act = "AssignIpv6Addresses" /\ cl.fam = 6 /\ h.e = cl.e /\ h.n6 = cl.n6
           \/ h.act = "UnassignPrivateIpAddresses" /\ h.e = cl.e /\ Trip(h.e, 4, h.addrs) \subseteq cl.mA \cup cl.tA    \* handing back
           \/ h.act = "UnassignIpv6Addresses" /\ h.e = cl.e /\ Trip(h.e, 6, h.addrs) \subseteq cl.mA \cup cl.tA
      [] cl.k = "unassign" ->
           /\ h.act = (IF cl.fam = 4 THEN "UnassignPrivateIpAddresses" ELSE "UnassignIpv6Addresses")
           /\ h.e = cl.e /\ h.addrs = cl.addrs
      [] cl.k = "delete" ->
           \/ h.act = "DetachNetworkInterface" /\ h.e = cl.e /\ h.inst = 1
           \/ h.act = "DeleteNetworkInterface" /\ h.e = cl.e
      [] OTHER -> FALSE

Http(h) ==
    LET c == h.c  cl == calls[c]  x == C(h.e)
        replay == h.tok # 0 /\ \E m \in memo : m.t = h.tok
        mm == CHOOSE m \in memo : m.t = h.tok
        done == h.out \in {"ok", "lost"}
        fam == IF h.act \in {"AssignIpv6Addresses", "UnassignIpv6Addresses"} THEN 6 ELSE 4
        rr == IF fam = 4 THEN h.r4 ELSE h.r6
        creating == h.act \in {"CreateNetworkInterface", "AssignPrivateIpAddresses", "AssignIpv6Addresses"}
    IN
    /\ UNCHANGED <<conf, meta>>
    /\ c \in Slots /\ cl.k # "idle"                                                                   \* (I) requests belong to a call
    /\ G("C06", h.act \in Mutations => Implied(cl, h))
    /\ G("F", h.act = "CreateNetworkInterface" => h.vsw \notin cl.blk)                              \* an exhausted vSwitch is not tried again
    /\ (h.eff => done) /\ (replay /\ done => ~h.eff)                                                  \* (I)
    /\ IF ~done THEN                                                                                  \* refused: nothing changed
          /\ UNCHANGED <<cloud, memo, rg, acct>>
          /\ blocked' = IF h.act = "CreateNetworkInterface" /\ h.code \in Exhausted THEN blocked \cup {h.vsw} ELSE blocked
          /\ calls' = [calls EXCEPT ![c].blk = IF h.act = "CreateNetworkInterface" /\ h.code \in Exhausted THEN @ \cup {h.vsw} ELSE @]
       ELSE
          /\ blocked' = blocked
          /\ CASE h.act = "CreateNetworkInterface" ->
                    IF replay THEN /\ mm.act = h.act /\ h.re = mm.e                                   \* (I) same token, same answer
                                   /\ UNCHANGED <<cloud, memo, rg>>
                    ELSE /\ h.eff /\ h.re \in Enis /\ cloud[h.re].st = "none"                         \* (I) a fresh interface with fresh addresses
                         /\ h.rp \in h.r4 /\ h.r4 \cap UsedA(4) = {} /\ h.r6 \cap UsedA(6) = {}
                         /\ cloud' = [cloud EXCEPT ![h.re] = [st |-> "Available", inst |-> 0, type |-> h.type, rdma |-> h.rdma, vsw |-> h.vsw,
                                                               primary |-> h.rp, v4 |-> h.r4, v6 |-> h.r6, tagged |-> h.tagged]]
                         /\ memo' = IF h.tok = 0 THEN memo ELSE memo \cup {[t |-> h.tok, act |-> h.act, e |-> h.re, r |-> {}]}
                         /\ rg' = rg \ (Trip(h.re, 4, h.r4) \cup Trip(h.re, 6, h.r6))
               [] h.act \in {"AssignPrivateIpAddresses", "AssignIpv6Addresses"} ->
                    IF replay THEN /\ mm.act = h.act /\ rr = mm.r /\ UNCHANGED <<cloud, memo, rg>>   \* (I)
                    ELSE /\ h.e \in Enis /\ x.st # "none" /\ rr \cap UsedA(fam) = {}                  \* (I)
                         /\ h.eff = (rr # {})
                         /\ cloud' = [cloud EXCEPT ![h.e] = IF fam = 4 THEN [@ EXCEPT !.v4 = @ \cup rr] ELSE [@ EXCEPT !.v6 = @ \cup rr]]
                         /\ memo' = IF h.tok = 0 THEN memo ELSE memo \cup {[t |-> h.tok, act |-> h.act, e |-> h.e, r |-> rr]}
                         /\ rg' = rg \ Trip(h.e, fam, rr)
               [] h.act = "AttachNetworkInterface" ->
                    /\ h.eff /\ h.e \in Enis /\ x.st = "Available"                                    \* (I)
                    /\ cloud' = [cloud EXCEPT ![h.e] = [@ EXCEPT !.st = "Attaching", !.inst = h.inst]]
                    /\ UNCHANGED <<memo, rg>>
               [] h.act \in {"UnassignPrivateIpAddresses", "UnassignIpv6Addresses"} ->
                    /\ h.eff /\ h.e \in Enis /\ rr # {} /\ rr \subseteq Fam(x, fam) \cap h.addrs   \* (I)
                    /\ (fam = 4 => x.primary \notin rr)
                    /\ cloud' = [cloud EXCEPT ![h.e] = IF fam = 4 THEN [@ EXCEPT !.v4 = @ \ rr] ELSE [@ EXCEPT !.v6 = @ \ rr]]
                    /\ memo' = { m \in memo : ~(m.e = h.e /\ m.act = AssignAct(fam) /\ m.r \cap rr # {}) }                   \* the cloud forgets an answer that is no longer true
                    /\ UNCHANGED rg
               [] h.act = "DetachNetworkInterface" ->
                    /\ IF h.eff THEN /\ h.e \in Enis /\ x.st \in {"InUse", "Attaching"} /\ x.inst = h.inst   \* (I)
                                     /\ cloud' = [cloud EXCEPT ![h.e] = [@ EXCEPT !.st = "Detaching"]]
                       ELSE UNCHANGED cloud
                    /\ UNCHANGED <<memo, rg>>
               [] h.act = "DeleteNetworkInterface" ->
                    /\ IF h.eff THEN /\ h.e \in Enis /\ x.st = "Available"                            \* (I)
                                     /\ cloud' = [cloud EXCEPT ![h.e] = NoEni]
                       ELSE x.st = "none" /\ UNCHANGED cloud                                           \* (I) deleting nothing succeeds
                    /\ memo' = { m \in memo : m.e # h.e }
                    /\ UNCHANGED rg
               [] OTHER -> ~h.eff /\ UNCHANGED <<cloud, memo, rg>>                                      \* reads
          /\ LET ne == IF h.act = "CreateNetworkInterface" THEN {h.re} ELSE {}
                 na == IF h.act \in {"AssignPrivateIpAddresses", "AssignIpv6Addresses"}
                       THEN Trip(IF replay THEN mm.e ELSE h.e, fam, rr)
                       ELSE IF h.act = "CreateNetworkInterface" THEN Trip(h.re, 4, h.r4) \cup Trip(h.re, 6, h.r6) ELSE {}
                 gone == IF h.act \in {"UnassignPrivateIpAddresses", "UnassignIpv6Addresses"} THEN Trip(h.e, fam, rr)
                         ELSE IF h.act = "DeleteNetworkInterface" /\ h.eff THEN Trip(h.e, 4, x.v4) \cup Trip(h.e, 6, x.v6) ELSE {}
                 c1 == [cl EXCEPT !.mE = IF h.eff THEN @ \cup ne ELSE @, !.mA = IF h.eff THEN @ \cup na ELSE @,
                                  !.tE = IF h.out = "ok" THEN @ \cup ne ELSE @, !.tA = IF h.out = "ok" THEN @ \cup na ELSE @,
                                  !.lost = IF creating THEN h.out = "lost" ELSE @]
                 te == IF h.eff /\ h.act = "CreateNetworkInterface" THEN h.re ELSE h.e
             IN /\ calls' = IF h.eff /\ te \in Enis THEN Note([calls EXCEPT ![c] = c1], te) ELSE [calls EXCEPT ![c] = c1]
                /\ acct' = [acct EXCEPT !.handed = @ \ gone]

(* ---------------------------------------------------------------- environment *)

AttachDone(e) ==
    /\ UNCHANGED <<conf, meta, memo, blocked, rg, acct>>
    /\ e \in Enis /\ cloud[e].st = "Attaching"                                                         \* (I)
    /\ cloud' = [cloud EXCEPT ![e].st = "InUse"]
    /\ calls' = Note(calls, e)

DetachDone(e) ==
    /\ UNCHANGED <<conf, meta, memo, blocked, rg, acct>>
    /\ e \in Enis /\ cloud[e].st = "Detaching"                                                         \* (I)
    /\ cloud' = [cloud EXCEPT ![e] = [@ EXCEPT !.st = "Available", !.inst = 0]]
    /\ calls' = Note(calls, e)

MetaSync(e, view) ==
    /\ UNCHANGED <<conf, cloud, memo, blocked, rg, acct>>
    /\ e \in Enis /\ view = View(cloud[e])                                                              \* (I) the metadata shows the cloud's present state
    /\ meta' = [meta EXCEPT ![e] = view]
    /\ calls' = Note(calls, e)

RemoteRemove(e, fam, a) ==
    /\ UNCHANGED <<conf, meta, blocked, acct>>
    /\ e \in Enis /\ a \in Fam(cloud[e], fam) /\ (fam = 4 => a # cloud[e].primary)                      \* (I)
    /\ cloud' = [cloud EXCEPT ![e] = IF fam = 4 THEN [@ EXCEPT !.v4 = @ \ {a}] ELSE [@ EXCEPT !.v6 = @ \ {a}]]
    /\ memo' = { m \in memo : ~(m.e = e /\ m.act = AssignAct(fam) /\ a \in m.r) }                                                 \* the cloud forgets an answer that is no longer true
    /\ rg' = rg \cup {<<e, fam, a>>}
    /\ calls' = Note(calls, e)

(* ---------------------------------------------------------------- the factory returns *)
(* r: what CreateNetworkInterface / GetAttachedNetworkInterface say about an interface:                 *)
(*    [e, mac, trunk, erdma, primary, vsw, cidr4, cidr6, gw4, gw6] (mac: the interface whose MAC it is;   *)
(*    cidr/gw: the vSwitch whose CIDR / gateway it is; 0 = unset)                                        *)

Described(r, x, v6) ==
    /\ r.mac = r.e /\ r.primary = x.primary /\ r.vsw = x.vsw /\ r.cidr4 = x.vsw /\ r.gw4 = x.vsw
    /\ (v6 => r.cidr6 = x.vsw /\ r.gw6 = x.vsw)

RetCreate(c, err, r, v4, v6) ==
    LET cl == calls[c]  x == C(r.e)
        must == IF cl.lost THEN cl.mE \cap cl.tE ELSE cl.mE
    IN
    /\ G("C07", \A y \in must : y = r.e \/ cloud[y].st = "none")                                       \* created => reported (also with an error) or gone
    /\ G("C07", ~err => \A t \in cl.mA : t[1] = r.e =>                                                  \* every address the new interface was created with is reported
                  t[3] \in (IF t[2] = 4 THEN v4 ELSE v6) \/ t[3] \notin Fam(x, t[2]))
    /\ G("C01", ~err => /\ r.e \in Enis /\ x.inst = 1 /\ x.st \in {"Attaching", "InUse"}              \* attached to this instance
                        /\ v4 \subseteq x.v4 /\ v6 \subseteq x.v6)                                      \* reported addresses are assigned to it
    /\ G("F", ~err => /\ x.st = "InUse" /\ M(r.e).on /\ v4 \subseteq M(r.e).v4 /\ v6 \subseteq M(r.e).v6   \* usable: attached, visible in the metadata
                      /\ Described(r, x, cl.n6 > 0)
                      /\ r.trunk = (cl.type = "trunk") /\ r.erdma = (cl.type = "erdma")
                      /\ x.type = (IF cl.type = "trunk" THEN "Trunk" ELSE "Secondary") /\ x.rdma = (cl.type = "erdma"))
    /\ acct' = [acct EXCEPT !.enis = @ \cup ({r.e} \cap Enis), !.exE = @ \cup (cl.mE \ must),
                            !.addrs = @ \cup (IF r.e \in Enis THEN Trip(r.e, 4, x.v4) \cup Trip(r.e, 6, x.v6) ELSE {}),
                            !.exA = @ \cup { t \in cl.mA : t[1] \in cl.mE \ must },
                            !.handed = IF err THEN @ ELSE @ \cup Trip(r.e, 4, v4) \cup Trip(r.e, 6, v6)]

RetAssign(c, err, v4, v6) ==
    LET cl == calls[c]  x == C(cl.e)  got == IF cl.fam = 4 THEN v4 ELSE v6
        must == IF cl.lost THEN cl.mA \cap cl.tA ELSE cl.mA
    IN
    /\ G("C07", \A t \in must : (t[1] = cl.e /\ t[2] = cl.fam /\ t[3] \in got) \/ t[3] \notin Fam(C(t[1]), t[2]))   \* assigned => reported (also with an error) or gone
    /\ G("C01", ~err => \A a \in got : a \in Fam(x, cl.fam) \/ <<cl.e, cl.fam, a>> \in rg)               \* reported => assigned to that interface
    /\ G("C06", Cardinality(cl.mA \ rg) <= (IF cl.fam = 4 THEN cl.n4 ELSE cl.n6))                          \* the cloud was not made to assign more than asked
                                  \* (an address taken away behind the daemon's back during the call, after which the retried token yields a fresh one, is not the factory's doing)
    /\ G("F", ~err => got \subseteq Fam(M(cl.e), cl.fam))                                                   \* visible in the metadata
    /\ acct' = [acct EXCEPT !.addrs = @ \cup Trip(cl.e, cl.fam, got), !.exA = @ \cup (cl.mA \ must),
                            !.handed = IF err THEN @ ELSE @ \cup Trip(cl.e, cl.fam, got)]

RetUnassign(c, err) ==
    LET cl == calls[c] IN
    /\ G("C07", ~err => cl.addrs \cap Fam(C(cl.e), cl.fam) = {})                                          \* 'nil' means the cloud has them no more
    /\ G("F", ~err => cl.addrs \cap Fam(M(cl.e), cl.fam) = {})                                            \* ... and neither has the metadata
    /\ UNCHANGED acct

RetDelete(c, err) ==
    /\ G("C07", ~err => C(calls[c].e).st = "none")                                                        \* 'nil' means the interface is gone
    /\ UNCHANGED acct

RetLoad(c, err, v4, v6) ==
    LET cl == calls[c] IN
    /\ G("C01", ~err => /\ \E V \in cl.views4 : v4 \subseteq V                                            \* nothing but what the instance metadata showed during the call
                        /\ \E V \in cl.views6 : v6 \subseteq V)
    /\ G("F", ~err => /\ (IF conf.v4 THEN v4 \in cl.views4 ELSE v4 = {})                                  \* ... and all of it, per enabled family
                      /\ (IF conf.v6 THEN v6 \in cl.views6 ELSE v6 = {}))
    /\ UNCHANGED acct

RetAttached(c, err, rs) ==        \* rs: set of interface descriptions
    LET cl == calls[c]
        want == { e \in cl.att0 \ cl.touched : /\ cloud[e].inst = 1 /\ cloud[e].st = "InUse" /\ meta[e].on /\ cloud[e].type # "Primary"
                                               /\ (conf.tagf => cloud[e].tagged) }
    IN
    /\ G("C01", ~err => \A r \in rs : /\ r.e \in cl.att                                                   \* attached to this instance (cloud or its metadata) during the call
                                      /\ (C(r.e).st # "none" => /\ r.trunk = (C(r.e).type = "Trunk") /\ r.erdma = C(r.e).rdma
                                                                /\ (conf.tagf => C(r.e).tagged)))          \* right type; tag filter honoured
    /\ G("F", ~err => /\ \A r \in rs : C(r.e).type # "Primary" /\ (r.e \notin cl.touched /\ C(r.e).st # "none" => Described(r, C(r.e), conf.v6))
                      /\ want \subseteq { r.e : r \in rs }                                                 \* complete
                      /\ \A r1, r2 \in rs : r1.e = r2.e => r1 = r2)
    /\ UNCHANGED acct

Ret(c, k, err, r, v4, v6, rs) ==
    /\ c \in Slots /\ calls[c].k = k /\ k # "idle"                                                       \* (I)
    /\ CASE k = "create" -> RetCreate(c, err, r, v4, v6)
         [] k = "assign" -> RetAssign(c, err, v4, v6)
         [] k = "unassign" -> RetUnassign(c, err)
         [] k = "delete" -> RetDelete(c, err)
         [] k = "load" -> RetLoad(c, err, v4, v6)
         [] k = "attached" -> RetAttached(c, err, rs)
    /\ calls' = [calls EXCEPT ![c] = NoCall]
    /\ UNCHANGED <<conf, cloud, meta, memo, blocked, rg>>

(* ---------------------------------------------------------------- full stack: the pool's own view at quiescence *)
(* st: set of [e, status, v4, v6, valid4, valid6] - Status() of every slot of the real pool (e = 0: empty slot), after *)
(* a drain with a healthy cloud.  C07 at pool level, now with the real factory underneath: the interfaces the pool   *)
(* tracks are the secondary interfaces the cloud has attached to this instance, no address of theirs is unknown to   *)
(* the pool, and nothing the pool counts as valid is missing in the cloud.                                           *)
Quiescent(st) ==
    LET tracked == { s \in st : s.e # 0 } IN
    /\ Open = {}                                                                                          \* (I)
    /\ G("C07", { s.e : s \in tracked } = { e \in Enis : cloud[e].inst = 1 /\ cloud[e].type # "Primary" })
    /\ G("C07", \A s \in tracked : C(s.e).v4 \subseteq s.v4 /\ C(s.e).v6 \subseteq s.v6)
    /\ G("C07", \A s \in tracked : s.valid4 \subseteq C(s.e).v4 /\ s.valid6 \subseteq C(s.e).v6)
    /\ G("C07", \A e \in Enis : cloud[e].st # "none" /\ e \notin acct.exE => cloud[e].inst # 0)          \* nothing left behind unattached (lenient: except
                                                                                                          \* what was never announced to the client, see C07 above)
    /\ UNCHANGED vars

-----------------------------------------------------------------------------
(* State invariants: theorems of the guarded specification, evaluated in every state of a validated trace *)
OpenE == UNION { calls[c].mE : c \in Slots }
OpenA == UNION { calls[c].mA : c \in Slots }
(* C07: nothing exists in the cloud that no caller was told about (or that was never announced to the client) *)
NoOrphan == /\ \A e \in Enis : cloud[e].st # "none" => e \in acct.enis \cup acct.exE \cup OpenE
            /\ \A e \in Enis : \A f \in {4, 6} : \A a \in Fam(cloud[e], f) :
                   e \in acct.exE \/ <<e, f, a>> \in acct.addrs \cup acct.exA \cup OpenA
(* C01: what a successful call reported stays assigned until somebody takes it away *)
HandedBacked == \A t \in acct.handed : t[1] \in Enis /\ (t[3] \in Fam(cloud[t[1]], t[2]) \/ t \in rg)
=============================================================================
