-------------------------------- MODULE Fib --------------------------------
(* A model of Linux policy routing, sufficient for C13.                                       *)
(*                                                                                            *)
(* A network namespace is a record                                                            *)
(*   links  : set of [name, idx, kind, peer, mac]     (peer = ifindex of a veth peer, 0 = none) *)
(*   addrs  : set of [dev, ip, len, scope]                                                    *)
(*   rules  : set of [fam, prio, src, dst, iif, oif, table, proto]                            *)
(*   routes : set of [table, dst, dev, gw, scope, metric, type, proto]                        *)
(*   neighs : set of [dev, ip, mac]                    (permanent entries only)               *)
(* Addresses are byte tuples in network order (length 4 = IPv4, 16 = IPv6); a prefix is       *)
(* [ip, len]; "no prefix" (rule matches every address) is [ip |-> <<>>, len |-> 0]; "no       *)
(* gateway" (directly connected) is <<>>.  Devices are referred to by name.                   *)
(*                                                                                            *)
(* Lookups(s, pkt) is the kernel's fib_rules walk: rules of the packet's family in priority   *)
(* order; a rule matches on source prefix, destination prefix, input and output interface;    *)
(* the table of a matching rule is searched by longest prefix, then lowest metric; a miss     *)
(* falls through to the next rule.  Where the kernel's choice depends on something the state  *)
(* does not show (insertion order of rules with equal priority, of routes with equal prefix   *)
(* and metric) every candidate is returned: Lookups is a *set* and callers quantify over it.  *)
(*                                                                                            *)
(* AddAddr / AddRoute / AddRule / AddNeigh model what `ip addr/route/rule/neigh replace` do   *)
(* to a namespace (used where no kernel is available: level 1 of the C13 check, and the       *)
(* bounded closure).  The thorough tier validates Lookups against `ip route get` of the real  *)
(* kernel on every recorded state.                                                            *)
EXTENDS Integers, Sequences, FiniteSets, Bitwise, TLC

PrefBits(p, k) == IF p >= 8 * k THEN 8 ELSE IF p <= 8 * (k - 1) THEN 0 ELSE p - 8 * (k - 1)
MaskByte(p, k) == 256 - 2 ^ (8 - PrefBits(p, k))
InCidr(a, base, p) ==
    /\ Len(a) = Len(base)
    /\ IF p = 0 THEN TRUE
       ELSE IF p = 8 * Len(base) THEN a = base
       ELSE \A k \in 1..((p + 7) \div 8) : (a[k] & MaskByte(p, k)) = (base[k] & MaskByte(p, k))
Network(base, p) == [k \in 1..Len(base) |-> base[k] & MaskByte(p, k)]

FamOf(a) == IF Len(a) = 4 THEN 4 ELSE 6
MaxLen(a) == 8 * Len(a)
Zero(fam) == IF fam = 4 THEN <<0, 0, 0, 0>> ELSE <<0, 0, 0, 0, 0, 0, 0, 0, 0, 0, 0, 0, 0, 0, 0, 0>>
NoGw == <<>>
AnyPfx == [ip |-> <<>>, len |-> 0]
Pfx(ip, n) == [ip |-> ip, len |-> n]
Host(ip) == [ip |-> ip, len |-> MaxLen(ip)]
Default(fam) == [ip |-> Zero(fam), len |-> 0]
PMatch(p, a) == p.ip = <<>> \/ InCidr(a, p.ip, p.len)

TMain == 254
TLocal == 255
TDefault == 253

(* ---------------------------------------------------------------- namespaces *)
BaseRules == { [fam |-> f, prio |-> pt[1], src |-> AnyPfx, dst |-> AnyPfx, iif |-> "", oif |-> "", table |-> pt[2], proto |-> "kernel"]
               : f \in {4, 6}, pt \in {<<0, TLocal>>, <<32766, TMain>>} }
             \cup { [fam |-> 4, prio |-> 32767, src |-> AnyPfx, dst |-> AnyPfx, iif |-> "", oif |-> "", table |-> TDefault, proto |-> "kernel"] }
EmptyNs == [links |-> {}, addrs |-> {}, rules |-> BaseRules, routes |-> {}, neighs |-> {}]

(* ---------------------------------------------------------------- lookup *)
(* pkt = [src, dst, iif, oif]; src may be <<>> (unspecified, locally generated without bind) *)
RuleMatches(r, pkt) ==
    /\ r.fam = FamOf(pkt.dst)
    /\ (r.src.ip = <<>> \/ (pkt.src # <<>> /\ InCidr(pkt.src, r.src.ip, r.src.len)))
    /\ PMatch(r.dst, pkt.dst)
    /\ (r.iif = "" \/ r.iif = pkt.iif)
    /\ (r.oif = "" \/ r.oif = pkt.oif)

SetMax(S) == CHOOSE x \in S : \A y \in S : y <= x
SetMin(S) == CHOOSE x \in S : \A y \in S : x <= y

TableHits(s, t, pkt) ==
    LET C == { r \in s.routes : /\ r.table = t
                                /\ InCidr(pkt.dst, r.dst.ip, r.dst.len)
                                /\ (pkt.oif = "" \/ r.dev = pkt.oif) }
    IN  IF C = {} THEN {}
        ELSE LET L == SetMax({ r.dst.len : r \in C })
                 D == { r \in C : r.dst.len = L }
                 M == SetMin({ r.metric : r \in D })
             IN  { r \in D : r.metric = M }

NoRoute == [kind |-> "none", dev |-> "", gw |-> NoGw, table |-> 0]
Res(r) == [kind |-> r.type, dev |-> r.dev, gw |-> r.gw, table |-> r.table]

Lookups(s, pkt) ==
    LET HP == { h \in { <<r.prio, TableHits(s, r.table, pkt)>> : r \in { q \in s.rules : RuleMatches(q, pkt) } } : h[2] # {} }
    IN  IF HP = {} THEN {NoRoute}
        ELSE LET P == SetMin({ h[1] : h \in HP })
             IN  { Res(x) : x \in UNION { h[2] : h \in { g \in HP : g[1] = P } } }

(* ---------------------------------------------------------------- the kernel's reaction to configuration *)
(* ip addr add: the address, its local-table entry and (prefix shorter than the address) the connected route *)
AddAddr(s, dev, ip, len) ==
    LET conn == IF len < MaxLen(ip)
                THEN {[table |-> TMain, dst |-> Pfx(Network(ip, len), len), dev |-> dev, gw |-> NoGw, scope |-> "link",
                       metric |-> IF FamOf(ip) = 4 THEN 0 ELSE 256, type |-> "unicast", proto |-> "kernel"]}
                ELSE {}
        loc  == {[table |-> TLocal, dst |-> Host(ip), dev |-> dev, gw |-> NoGw, scope |-> "host", metric |-> 0, type |-> "local", proto |-> "kernel"]}
    IN  [s EXCEPT !.addrs = @ \cup {[dev |-> dev, ip |-> ip, len |-> len, scope |-> "universe"]},
                  !.routes = @ \cup conn \cup loc]

(* ip route replace: a route with the same table, destination and metric is replaced *)
AddRoute(s, r) ==
    [s EXCEPT !.routes = { x \in @ : ~(x.table = r.table /\ x.dst = r.dst /\ x.metric = r.metric) } \cup {r}]

(* ensure-style rule: rules with the same selector and priority but another table are replaced *)
AddRule(s, r) ==
    [s EXCEPT !.rules = { x \in @ : ~(x.fam = r.fam /\ x.prio = r.prio /\ x.src = r.src /\ x.dst = r.dst /\ x.oif = r.oif /\ x.iif = r.iif) } \cup {r}]

AddNeigh(s, n) == [s EXCEPT !.neighs = { x \in @ : ~(x.dev = n.dev /\ x.ip = n.ip) } \cup {n}]

AddLink(s, l) == [s EXCEPT !.links = { x \in @ : x.name # l.name /\ x.idx # l.idx } \cup {l}]

(* ip link del: everything that hangs on the device goes with it *)
DelLink(s, name) ==
    [s EXCEPT !.links = { x \in @ : x.name # name },
              !.addrs = { x \in @ : x.dev # name },
              !.routes = { x \in @ : x.dev # name },
              !.neighs = { x \in @ : x.dev # name }]

(* ---------------------------------------------------------------- self-checks of the operators *)
ASSUME InCidr(<<10, 1, 2, 3>>, <<10, 1, 0, 0>>, 16) /\ ~InCidr(<<10, 2, 2, 3>>, <<10, 1, 0, 0>>, 16)
ASSUME InCidr(<<10, 1, 2, 3>>, <<0, 0, 0, 0>>, 0) /\ ~InCidr(<<10, 1, 2, 3>>, Zero(6), 0)
ASSUME Network(<<192, 168, 9, 77>>, 22) = <<192, 168, 8, 0>>
ASSUME LET s0 == AddAddr(EmptyNs, "eth0", <<10, 0, 0, 5>>, 24)
           s1 == AddRoute(s0, [table |-> TMain, dst |-> Default(4), dev |-> "eth0", gw |-> <<10, 0, 0, 253>>, scope |-> "universe",
                               metric |-> 0, type |-> "unicast", proto |-> "boot"])
           s2 == AddRoute(s1, [table |-> 1003, dst |-> Default(4), dev |-> "eth1", gw |-> <<10, 0, 1, 253>>, scope |-> "universe",
                               metric |-> 0, type |-> "unicast", proto |-> "boot"])
           s3 == AddRule(s2, [fam |-> 4, prio |-> 2048, src |-> Host(<<10, 0, 1, 9>>), dst |-> AnyPfx, iif |-> "", oif |-> "", table |-> 1003, proto |-> "boot"])
           p(src, dst) == [src |-> src, dst |-> dst, iif |-> "", oif |-> ""]
       IN  /\ Lookups(s3, p(<<>>, <<8, 8, 8, 8>>)) = {[kind |-> "unicast", dev |-> "eth0", gw |-> <<10, 0, 0, 253>>, table |-> TMain]}
           /\ Lookups(s3, p(<<>>, <<10, 0, 0, 9>>)) = {[kind |-> "unicast", dev |-> "eth0", gw |-> NoGw, table |-> TMain]}
           /\ Lookups(s3, p(<<>>, <<10, 0, 0, 5>>)) = {[kind |-> "local", dev |-> "eth0", gw |-> NoGw, table |-> TLocal]}
           /\ Lookups(s3, p(<<10, 0, 1, 9>>, <<8, 8, 8, 8>>)) = {[kind |-> "unicast", dev |-> "eth1", gw |-> <<10, 0, 1, 253>>, table |-> 1003]}
           /\ Lookups(s3, p(<<10, 0, 1, 9>>, <<10, 0, 0, 5>>)) = {[kind |-> "local", dev |-> "eth0", gw |-> NoGw, table |-> TLocal]}
           /\ Lookups(s3, p(<<>>, <<253, 0, 0, 0, 0, 0, 0, 0, 0, 0, 0, 0, 0, 0, 0, 1>>)) = {NoRoute}
           /\ Lookups(DelLink(s3, "eth0"), p(<<>>, <<8, 8, 8, 8>>)) = {NoRoute}
=============================================================================
