----------------------------- MODULE PodEni_mc -----------------------------
(* Bounded closure of PodEni.tla for TLC.  The environment (pods, virtual clock, stray cloud           *)
(* interfaces) is free; the four controller functions and the daemon are abstract processes that        *)
(* follow the documented design (DESIGN.md A.4) at the grain of their API / cloud calls, every           *)
(* observable step being one guarded action of PodEni.tla.  Invocations nest like the harness's gates:   *)
(* between two calls of an invocation the environment may move and complete invocations of the other     *)
(* functions may run (stack discipline, depth <= MaxDepth).                                              *)
(* Used (a) exhaustively: the guarded steps imply the state invariants and are jointly satisfiable       *)
(* (coverage), and (b) in simulation mode as scenario generator: hist records the controllable steps in  *)
(* the flat form  begin .. gate .. end  that the Go driver folds into nested "mids".                      *)
EXTENDS PodEni, Json, IOUtils

CONSTANTS MaxUid, MaxT, MaxDepth, EnvDepth, Nodes, Kinds, TTL, MaxLen, GenOn, StrayOn
VARIABLES stk, hist

mcvars == <<vars, stk, hist>>

Min(S) == CHOOSE x \in S : \A y \in S : x <= y
H(x) == hist' = IF GenOn THEN Append(hist, x) ELSE hist
HH(x, y) == hist' = IF GenOn THEN Append(Append(hist, x), y) ELSE hist
Top == stk[Len(stk)]
Depth == Len(stk)
SetTop(f) == stk' = [stk EXCEPT ![Len(stk)] = f]
Pop == stk' = SubSeq(stk, 1, Len(stk) - 1)
NoFrame == [who |-> "", n |-> 0, c |-> 0, at |-> "", p |-> NoPod, r |-> NoPe, S |-> [m \in Names |-> NoPe], todo |-> {}, node |-> 0, k |-> 0]

(* allocation kinds a pod may ask for: "e" elastic, "t" fixed/TTL, "n" fixed/Never *)
AllocFor(k, e) == [e |-> e, fixed |-> k # "e", strat |-> IF k = "t" THEN "TTL" ELSE IF k = "n" THEN "Never" ELSE "",
                   ttl |-> IF k = "t" THEN TTL ELSE -1, ip |-> ""]
KindSeqs == { <<k>> : k \in Kinds } \cup (IF "t" \in Kinds /\ "n" \in Kinds THEN {<<"t", "n">>} ELSE {})
VARIABLE want      \* want[n]: the allocation kinds pod n asks for (sequence)
allvars == <<mcvars, want>>

FreeEni == Min({ e \in Enis : ~eni[e].ex /\ ~Referenced(e) })
HasFree == \E e \in Enis : ~eni[e].ex /\ ~Referenced(e)

MCInit == Init /\ stk = <<>> /\ hist = <<>> /\ want = [n \in Names |-> <<>>]

(* ------------------------------------------------------------------ start: optional stray interfaces for the leak collector *)
Strays == IF StrayOn THEN { [e |-> Min(Enis), ours |-> o, st |-> s] : o \in BOOLEAN, s \in {"Available", "InUse"} } \cup {[e |-> 0, ours |-> FALSE, st |-> ""]}
          ELSE {[e |-> 0, ours |-> FALSE, st |-> ""]}
Start(s) ==
    /\ now = 0 /\ hist = <<>> /\ stk = <<>> /\ \A n \in Names : ~pod[n].ex /\ pod[n].uid = 0 /\ ~pe[n].ex
    /\ \A e \in Enis : ~eni[e].ex
    /\ Reset(1, pod, pe, [e \in Enis |-> IF e = s.e THEN [ex |-> TRUE, st |-> s.st, inst |-> IF s.st = "InUse" THEN 2 ELSE 0, ours |-> s.ours, created |-> 1] ELSE NoEni])
    /\ hist' = <<[a |-> "conf", names |-> Cardinality(Names), eniOnly |-> <<1, 2>>,
                  enis |-> IF s.e = 0 THEN <<>> ELSE <<[e |-> s.e, tag |-> IF s.ours THEN "ours" ELSE "othercluster", age |-> 0, st |-> s.st,
                                                        typ |-> IF s.st = "InUse" THEN "Member" ELSE "Secondary", inst |-> 2]>>]>>
    /\ UNCHANGED <<stk, want>>

(* ------------------------------------------------------------------ environment *)
(* generation bias (simulation picks uniformly among successor states; the environment has many): in generator mode  *)
(* the environment moves only at every third recorded item, the daemon is asked only now and then                    *)
EnvTurn == Len(stk) <= EnvDepth /\ (~GenOn \/ Len(hist) % 3 = 1)
DaemonTurn == Len(stk) <= EnvDepth /\ (~GenOn \/ Len(hist) % 7 = 4)
Env ==
    \/ \E n \in Names, node \in Nodes, ks \in KindSeqs :
          /\ EnvTurn /\ pod[n].uid < MaxUid /\ (GenOn => node = 1 + ((pod[n].uid + n) % Cardinality(Nodes)))
          /\ (pe[n].ex /\ HasFixed(pe[n]) => ks[1] # "e")
          /\ PodCreate(now, n, pod[n].uid + 1, node, \E i \in 1..Len(ks) : ks[i] # "e")
          /\ want' = [want EXCEPT ![n] = ks]
          /\ H([a |-> "pod_create", n |-> n, node |-> node, owner |-> "sts", via |-> IF (pod[n].uid + n + node) % 2 = 0 THEN "node" ELSE "anno",
                kind |-> [i \in 1..Len(ks) |-> [fixed |-> ks[i] # "e", strat |-> IF ks[i] = "t" THEN "TTL" ELSE IF ks[i] = "n" THEN "Never" ELSE "", ttl |-> IF ks[i] = "t" THEN 400000 ELSE 0]]])
          /\ UNCHANGED stk
    \/ \E n \in Names : EnvTurn /\ ~pod[n].term /\ PodTerm(now, n) /\ H([a |-> "pod_term", n |-> n]) /\ UNCHANGED <<stk, want>>
    \/ \E n \in Names : EnvTurn /\ pod[n].run /\ PodExit(now, n) /\ H([a |-> "pod_exit", n |-> n]) /\ UNCHANGED <<stk, want>>
    \/ \E n \in Names : EnvTurn /\ PodGone(now, n) /\ H([a |-> "pod_gone", n |-> n]) /\ UNCHANGED <<stk, want>>
    \/ \E dt \in 1..3 :
       /\ (EnvTurn \/ Len(hist) % 3 = 2) /\ now + dt <= MaxT /\ Depth = 0 /\ now' = now + dt /\ H([a |-> "elapse", ms |-> 200000 * dt])
       /\ UNCHANGED <<pod, pe, eni, obs, fx, call, made, stk, want>>
    \/ \E n \in Names : \E u \in {pod[n].uid, pod[n].uid + 1} \ {0} :
          /\ DaemonTurn /\ Daemon(now, n, u, pe[n].ex /\ ~pe[n].del /\ pe[n].phase = "Bind" /\ pe[n].uid = u)
          /\ H([a |-> "daemon", n |-> n, stale |-> u # pod[n].uid]) /\ UNCHANGED <<stk, want>>

(* ------------------------------------------------------------------ invocations *)
Begin(who, n) ==
    /\ Depth < MaxDepth
    /\ \A i \in 1..Len(stk) : ~(stk[i].who = who /\ stk[i].n = n)          \* one worker per key
    /\ CallBegin(now, Depth + 1, who, n)
    /\ stk' = Append(stk, [NoFrame EXCEPT !.who = who, !.n = n, !.c = Depth + 1,
                                          !.at = IF who \in {"pc"} THEN "rp" ELSE IF who = "gcl" THEN "d" ELSE "rr"])
    /\ H([a |-> "begin", who |-> who, n |-> n]) /\ UNCHANGED want
Ret == /\ CallEnd(now, Top.c) /\ Pop /\ H([a |-> "end"]) /\ UNCHANGED want
Goto(at) == SetTop([Top EXCEPT !.at = at])
Gate(l) == H([a |-> "gate", l |-> l])
FaultTurn == ~GenOn \/ Len(hist) % 4 = 0
Fault(op, nth) == FaultTurn /\ HH([a |-> "fault", op |-> op, nth |-> nth], [a |-> "gate", l |-> IF op \in {"create", "attach", "detach", "delete"} THEN "c" ELSE "w"])
ReadFault(op) == FaultTurn /\ HH([a |-> "fault", op |-> op, nth |-> 1], [a |-> "gate", l |-> "rp"])
Same == UNCHANGED <<now, pod, pe, eni, obs, fx, call, made>>

(* ---- pod controller *)
PcStep ==
    LET f == Top  n == f.n IN
    /\ f.who = "pc" /\ UNCHANGED want
    /\ \/ /\ f.at = "rp" /\ Same /\ ReadFault("get_pod") /\ Goto("ret")
       \/ /\ f.at = "rp" /\ PodGet(now, f.c, "pc", n, pod[n].ex, pod[n].run) /\ Gate("rp")
          /\ SetTop([f EXCEPT !.p = pod[n], !.at = IF ~pod[n].ex \/ ~pod[n].run THEN "del_rr" ELSE IF pod[n].term THEN "ret" ELSE "cr_rr"])
       \/ /\ f.at = "del_rr" /\ Same /\ Gate("rr")
          /\ LET r == pe[n] IN
             SetTop([f EXCEPT !.r = r, !.at = IF ~r.ex \/ Eff(r) = "Deleting" THEN "ret"
                                              ELSE IF HasFixed(r) THEN (IF Ph(r) = "Detaching" THEN "ret" ELSE "w_detaching") ELSE "w_deleting"])
       \/ /\ f.at = "cr_rr" /\ Same /\ Gate("rr")
          /\ LET r == pe[n] IN
             SetTop([f EXCEPT !.r = r, !.todo = {}, !.at =
                       IF ~r.ex THEN (IF HasFree /\ want[n] # <<>> THEN "create" ELSE "ret")
                       ELSE IF r.del THEN "ret"
                       ELSE IF Ph(r) = "Unbind" THEN (IF r.uid = f.p.uid THEN "w_binding" ELSE "w_uid")
                       ELSE IF Ph(r) = "Bind" THEN (IF r.uid = f.p.uid THEN "ret" ELSE IF HasFixed(r) THEN "w_detaching" ELSE "w_delete")
                       ELSE "ret"])
       \/ /\ f.at \in {"w_detaching", "w_deleting", "w_binding", "w_uid"} /\ Gate("w") /\ Goto("ret")
          /\ IF pe[n] = f.r                                                  \* optimistic lock
             THEN PeWrite(now, f.c, "pc", n, IF f.at = "w_uid" THEN [f.r EXCEPT !.uid = f.p.uid]
                                        ELSE [f.r EXCEPT !.phase = IF f.at = "w_detaching" THEN "Detaching" ELSE IF f.at = "w_deleting" THEN "Deleting" ELSE "Binding"])
             ELSE Same
       \/ /\ f.at = "w_delete" /\ Gate("w") /\ Goto("ret")
          /\ IF pe[n].ex THEN PeWrite(now, f.c, "pc", n, [pe[n] EXCEPT !.del = TRUE]) ELSE Same
       \/ /\ f.at = "create" /\ Cardinality(f.todo) < Len(want[n]) /\ HasFree
          /\ \/ CloudCreate(now, f.c, "pc", FreeEni, TRUE, now) /\ Gate("c") /\ SetTop([f EXCEPT !.todo = @ \cup {FreeEni}])
             \/ CloudCreate(now, f.c, "pc", 0, FALSE, now) /\ Fault("create", Cardinality(f.todo) + 1) /\ Goto("rollback")
       \/ /\ f.at = "create" /\ Cardinality(f.todo) < Len(want[n]) /\ ~HasFree /\ Same /\ Goto("rollback") /\ hist' = hist
       \/ /\ f.at = "create" /\ Cardinality(f.todo) = Len(want[n])
          /\ \/ /\ ~pe[n].ex /\ Gate("w") /\ Goto("ret")
                /\ LET es == f.todo
                       first == Min(es)
                       al == { AllocFor(want[n][IF e = first THEN 1 ELSE Len(want[n])], e) : e \in es }
                   IN PeWrite(now, f.c, "pc", n, [ex |-> TRUE, phase |-> "", uid |-> f.p.uid, del |-> FALSE, allocs |-> al, seen |-> NoTime])
             \/ Same /\ Fault("pe_create", 1) /\ Goto("rollback")
       \/ /\ f.at = "rollback" /\ f.todo # {} /\ Gate("c")
          /\ LET e == Min(f.todo) IN CloudDelete(now, f.c, "pc", e, TRUE) /\ SetTop([f EXCEPT !.todo = @ \ {e}])
       \/ /\ f.at = "rollback" /\ f.todo = {} /\ Same /\ Goto("ret") /\ hist' = hist
       \/ /\ f.at = "ret" /\ Ret

(* ---- PodENI controller *)
InUseOf(r) == { e \in AllocEnis(r) : eni[e].ex /\ eni[e].st = "InUse" }
EcStep ==
    LET f == Top  n == f.n IN
    /\ f.who = "ec" /\ UNCHANGED want
    /\ \/ /\ f.at = "rr" /\ Same /\ Gate("rr")
          /\ LET r == pe[n] IN
             SetTop([f EXCEPT !.r = r, !.todo = InUseOf(r), !.k = 0, !.at =
                       IF ~r.ex THEN "ret"
                       ELSE IF r.del THEN (IF Ph(r) = "Unbind" THEN "fin_delete0" ELSE "fin_detach")
                       ELSE IF Ph(r) \in {"Bind", "Unbind"} THEN "ret"
                       ELSE IF Ph(r) = "Detaching" THEN "detach"
                       ELSE IF Ph(r) = "Deleting" THEN "w_delete" ELSE "rp"])
       \/ /\ f.at = "rp" /\ Same /\ (\E op \in {"get_pod", "get_node"} : ReadFault(op)) /\ Goto("ret")
       \/ /\ f.at = "rp" /\ PodGet(now, f.c, "ec", n, pod[n].ex, pod[n].run) /\ Gate("rp")
          /\ SetTop([f EXCEPT !.node = pod[n].node, !.todo = AllocEnis(f.r),
                              !.at = IF ~pod[n].ex \/ (Ph(f.r) = "Binding" /\ ~HasFixed(f.r)) THEN "ret" ELSE "attach"])
       \/ /\ f.at = "attach" /\ f.todo # {} /\ LET e == Min(f.todo) IN
             \/ /\ eni[e].ex /\ (eni[e].st = "InUse" => eni[e].inst = f.node)
                /\ CloudAttach(now, e, f.node, TRUE) /\ Gate("c") /\ SetTop([f EXCEPT !.todo = @ \ {e}, !.k = @ + 1])
             \/ CloudAttach(now, e, f.node, FALSE) /\ Fault("attach", f.k + 1) /\ Goto("ret")
       \/ /\ f.at = "attach" /\ f.todo = {} /\ Gate("w") /\ Goto("ret")
          /\ IF pe[n] = f.r THEN PeWrite(now, f.c, "ec", n, [f.r EXCEPT !.phase = "Bind", !.seen = IF HasFixed(f.r) THEN now ELSE @]) ELSE Same
       \/ /\ f.at \in {"detach", "fin_detach"} /\ f.todo # {} /\ LET e == Min(f.todo) IN
             \/ CloudDetach(now, f.c, "ec", e, TRUE) /\ Gate("c") /\ SetTop([f EXCEPT !.todo = @ \ {e}, !.k = @ + 1])
             \/ CloudDetach(now, f.c, "ec", e, FALSE) /\ Fault("detach", f.k + 1) /\ Goto("ret")
       \/ /\ f.at = "detach" /\ f.todo = {} /\ Gate("w") /\ Goto("ret")
          /\ IF pe[n] = f.r THEN PeWrite(now, f.c, "ec", n, [f.r EXCEPT !.phase = "Unbind"]) ELSE Same
       \/ /\ f.at = "w_delete" /\ Gate("w") /\ Goto("ret")
          /\ IF pe[n].ex THEN PeWrite(now, f.c, "ec", n, [pe[n] EXCEPT !.del = TRUE]) ELSE Same
       \/ /\ f.at \in {"fin_detach", "fin_delete0"} /\ (f.at = "fin_detach" => f.todo = {}) /\ Same /\ hist' = hist
          /\ SetTop([f EXCEPT !.at = "fin_delete", !.k = 0, !.todo = { e \in AllocEnis(f.r) : eni[e].ex }])
       \/ /\ f.at = "fin_delete" /\ f.todo # {} /\ LET e == Min(f.todo) IN
             \/ /\ eni[e].st # "InUse"
                /\ CloudDelete(now, f.c, "ec", e, TRUE) /\ Gate("c") /\ SetTop([f EXCEPT !.todo = @ \ {e}, !.k = @ + 1])
             \/ CloudDelete(now, f.c, "ec", e, FALSE) /\ Fault("delete", f.k + 1) /\ Goto("ret")
       \/ /\ f.at = "fin_delete" /\ f.todo = {} /\ Gate("w") /\ Goto("ret")
          /\ IF pe[n] = f.r THEN PeWrite(now, f.c, "ec", n, NoPe) ELSE Same
       \/ /\ f.at = "ret" /\ Ret

(* ---- collector of records (TTL / Never), works on the snapshot of its initial list *)
CodeKeeps(r) == \E a \in r.allocs : a.fixed /\ (a.strat # "TTL" \/ a.ttl < 0 \/ r.seen + a.ttl > now)
NextName(S, n) == IF \E m \in Names : m > n /\ S[m].ex THEN Min({ m \in Names : m > n /\ S[m].ex }) ELSE 0
GcrStep ==
    LET f == Top IN
    /\ f.who = "gcr" /\ UNCHANGED want
    /\ \/ /\ f.at = "rr" /\ RecList(now, f.c) /\ Gate("rr")
          /\ SetTop([f EXCEPT !.S = pe, !.n = NextName(pe, 0), !.at = IF NextName(pe, 0) = 0 THEN "ret" ELSE "rp"])
       \/ /\ f.at = "rp" /\ PodGet(now, f.c, "gcr", f.n, pod[f.n].ex, pod[f.n].run) /\ Gate("rp")
          /\ LET r == f.S[f.n] IN
             SetTop([f EXCEPT !.at = IF pod[f.n].ex /\ pod[f.n].run THEN (IF HasFixed(r) THEN "w_seen" ELSE "next")
                                      ELSE IF Ph(r) \in {"Detaching", "Deleting", "Binding"} \/ CodeKeeps(r) THEN "next" ELSE "w_del"])
       \/ /\ f.at = "rp" /\ Same /\ Goto("next")                                   \* the pod read or the node read fails: nothing is done for this record
          /\ \E op \in {"get_pod", "get_node"} : ReadFault(op)
       \/ /\ f.at = "w_seen" /\ Gate("w") /\ Goto("next")
          /\ IF pe[f.n].ex THEN PeWrite(now, f.c, "gcr", f.n, [pe[f.n] EXCEPT !.seen = now]) ELSE Same
       \/ /\ f.at = "w_del" /\ Gate("w") /\ Goto("next")
          /\ IF pe[f.n] = f.S[f.n] THEN PeWrite(now, f.c, "gcr", f.n, [f.S[f.n] EXCEPT !.phase = "Deleting"]) ELSE Same
       \/ /\ f.at = "next" /\ Same /\ hist' = hist
          /\ SetTop([f EXCEPT !.n = NextName(f.S, f.n), !.at = IF NextName(f.S, f.n) = 0 THEN "ret" ELSE "rp"])
       \/ /\ f.at = "ret" /\ CallEnd(now, f.c) /\ Pop /\ H([a |-> "end"])

(* ---- collector of leaked interfaces *)
GclStep ==
    LET f == Top IN
    /\ f.who = "gcl" /\ UNCHANGED want
    /\ \/ /\ f.at = "d" /\ Same /\ Gate("d")
          /\ SetTop([f EXCEPT !.todo = { e \in Enis : eni[e].ex /\ eni[e].ours /\ eni[e].created + Grace <= now }, !.at = "rr"])
       \/ /\ f.at = "rr" /\ Same /\ Gate("rr")
          /\ SetTop([f EXCEPT !.todo = { e \in f.todo : ~Referenced(e) }, !.at = "reap"])
       \/ /\ f.at = "reap" /\ f.todo # {} /\ Gate("c")
          /\ LET e == Min(f.todo) IN
             /\ IF eni[e].ex /\ eni[e].st = "InUse" THEN CloudDetach(now, f.c, "gcl", e, TRUE) ELSE CloudDelete(now, f.c, "gcl", e, eni[e].ex)
             /\ SetTop([f EXCEPT !.todo = @ \ {e}])
       \/ /\ f.at = "reap" /\ f.todo = {} /\ CallEnd(now, f.c) /\ Pop /\ H([a |-> "end"])

Step == \/ Env
        \/ \E n \in Names : Begin("pc", n) \/ Begin("ec", n)
        \/ Begin("gcr", 0) \/ Begin("gcl", 0)
        \/ (Depth > 0 /\ (PcStep \/ EcStep \/ GcrStep \/ GclStep))

Emit(h) == Serialize(ToJson(h) \o "\n", IOEnv.VERIF_SCEN,
                     [format |-> "TXT", charset |-> "UTF-8", openOptions |-> <<"WRITE", "CREATE", "APPEND">>]).exitValue = 0
Finish == /\ Depth = 0 /\ Len(hist) > 1 /\ hist[1].a # "done"
          /\ Emit(hist)
          /\ hist' = <<[a |-> "done"]>>
          /\ UNCHANGED <<vars, stk, want>>

MCNext == IF hist = <<>> /\ now = 0 THEN (\E s \in Strays : Start(s))
          ELSE IF GenOn /\ hist[1].a = "done" THEN UNCHANGED allvars
          ELSE IF GenOn /\ Len(hist) >= MaxLen /\ Depth = 0 THEN Finish
          ELSE IF GenOn /\ Len(hist) >= MaxLen THEN (PcStep \/ EcStep \/ GcrStep \/ GclStep)
          ELSE Step
MCSpec == MCInit /\ [][MCNext]_allvars

(* Design-level reading of the phase machine (run with Enforce = {}, cfg PodEni_design.cfg): the letter of C10.   *)
(* TLC answers with the D10 history (Unbind -> Detaching by a further reconcile of the vanished pod).               *)
StrictEdges == [][\A n \in Names : pe[n].ex => Eff(pe[n]) = Eff(pe'[n]) \/ <<Eff(pe[n]), Eff(pe'[n])>> \in Documented]_pe

(* what the exhaustive run checks on top of the guards *)
FramesSane == \A i \in 1..Len(stk) : call[stk[i].c].open /\ call[stk[i].c].who = stk[i].who
=============================================================================
