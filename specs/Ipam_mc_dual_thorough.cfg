SPECIFICATION MCSpec
CONSTANTS
  Pods = {1, 2}
  Uids = {1, 2}
  Enis = {1}
  Enforce = {"C02", "C03", "C08"}
  MCCap = 1
  MCMaxEni = 1
  MCV6 = TRUE
  MCMin = 0
  MCMax = 1
  MCForced = FALSE
  MCResandbox = TRUE
  MCDrift = FALSE
  A4 = {1, 2, 3}
  A6 = {101, 102}
  MaxLen = 0
  GenOn = FALSE
INVARIANTS BindingOk HeldBacked QuotaAddr QuotaEni Exclusive
CHECK_DEADLOCK FALSE
