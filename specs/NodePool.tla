------------------------------ MODULE NodePool ------------------------------
(* C01 / C06 / C07 - the node daemon's local ENI/IP pool, at the grain of its     *)
(* externally visible effects:                                                    *)
(*   - calls of the pool API by the daemon (Allocate / Release / pool balancer /  *)
(*     periodic sync), each split into call and return;                           *)
(*   - calls the pool makes to the cloud through factory.Factory, each split into *)
(*     begin (arguments) and end (result, effect);                                *)
(*   - environment steps (an address removed remotely, inhibit timer expiry);     *)
(*   - quiescent observations (the pool's own Status() next to the cloud state).  *)
(* The pool's internals (queues, condition variable, worker goroutines) are not   *)
(* state of this specification: whatever the implementation does between two      *)
(* observable steps is allowed as long as every observable step satisfies the     *)
(* guards below.  Each guard is either an interface fact (I) or a clause of a     *)
(* listed property, tagged G("Cxx", ...) so that one property can be enforced at  *)
(* a time.                                                                         *)
EXTENDS Integers, FiniteSets, Sequences, TLC

CONSTANTS Pods,      \* pod ids (naturals >= 1)
          Reqs,      \* request ids
          Enis,      \* ENI ids the cloud may hand out
          A4, A6,    \* address universes (naturals; 0 = no address)
          Enforce    \* subset of {"C01", "C06", "C07"}

G(p, clause) == IF p \in Enforce THEN clause ELSE TRUE   \* (IF, not \/: TLC would split a disjunction into two successors per guard)

NoHold == [eni |-> 0, v4 |-> 0, v6 |-> 0]
NoEni  == [on |-> FALSE, type |-> "", v4 |-> {}, v6 |-> {}, primary |-> 0]

VARIABLES conf,     \* [cap, maxEni, v4, v6, minIdle, maxIdle, total]: the pool configuration of this run
          cloud,    \* cloud[e]: [on, type, v4, v6, primary] - what the cloud has for ENI e (on = exists and attached)
          held,     \* held[p]: what the daemon was told pod p holds (NoHold = nothing)
          req,      \* req[r]: [st |-> "none"|"open"|"done", pod, ok] ; ok = <<eni, addr>> pairs that were live at some instant of r
          dead,     \* <<eni, addr>> pairs unassigned by the daemon or seen as removed by its sync, since they were last assigned
          rr,       \* <<eni, addr>> pairs removed remotely and not yet seen by a sync
          rg,       \* <<eni, addr>> pairs removed remotely since they were last assigned (seen or not)
          ops       \* cloud calls in flight: set of [id, k, e, fam, n, addrs] (id: smallest id not in flight)

vars == <<conf, cloud, held, req, dead, rr, rg, ops>>

Attached == { e \in Enis : cloud[e].on }
FreeId == CHOOSE i \in 0..Cardinality(ops) : \A o \in ops : o.id # i
Pairs(e, S) == { <<e, a>> : a \in S }
AllPairs(e) == Pairs(e, cloud[e].v4 \cup cloud[e].v6)
Live == ((UNION { AllPairs(e) : e \in Attached }) \cup { x \in rr : cloud[x[1]].on }) \ dead   \* assigned, or removed remotely but not yet seen by a sync
HeldPairs == UNION { (IF held[p].v4 # 0 THEN {<<held[p].eni, held[p].v4>>} ELSE {}) \cup
                     (IF held[p].v6 # 0 THEN {<<held[p].eni, held[p].v6>>} ELSE {}) : p \in Pods }
OpenReqs == { r \in Reqs : req[r].st = "open" }
AddOk(S) == [r \in Reqs |-> IF req[r].st = "open" THEN [req[r] EXCEPT !.ok = @ \cup S] ELSE req[r]]
DelOk(S) == [r \in Reqs |-> IF req[r].st = "open" THEN [req[r] EXCEPT !.ok = @ \ S] ELSE req[r]]
Fam(e, f) == IF f = 4 THEN cloud[e].v4 ELSE cloud[e].v6
UsedAddrs == (UNION { cloud[e].v4 \cup cloud[e].v6 : e \in Enis }) \cup (UNION { o.addrs : o \in ops })   \* incl. addresses named by a call in flight

Init == /\ conf = [cap |-> 0, maxEni |-> 0, v4 |-> TRUE, v6 |-> FALSE, minIdle |-> 0, maxIdle |-> 0, total |-> 0]
        /\ cloud = [e \in Enis |-> NoEni]
        /\ held = [p \in Pods |-> NoHold]
        /\ req = [r \in Reqs |-> [st |-> "none", pod |-> 0, ok |-> {}]]
        /\ dead = {} /\ rr = {} /\ rg = {} /\ ops = {}

(* A run starts: configuration and the interfaces already attached to the node. *)
Reset(c, cl) ==
    /\ conf' = c /\ cloud' = cl
    /\ held' = [p \in Pods |-> NoHold]
    /\ req' = [r \in Reqs |-> [st |-> "none", pod |-> 0, ok |-> {}]]
    /\ dead' = {} /\ rr' = {} /\ rg' = {} /\ ops' = {}

(* ---------------------------------------------------------------- pool API *)

AllocCall(r, p) ==
    /\ req[r].st = "none"
    /\ req' = [req EXCEPT ![r] = [st |-> "open", pod |-> p, ok |-> Live]]
    /\ UNCHANGED <<conf, cloud, held, dead, rr, rg, ops>>

(* Manager.Allocate returned.  ok: a resource (e, a4, a6) was handed to the pod. *)
AllocRet(r, ok, e, a4, a6) ==
    /\ req[r].st = "open"
    /\ LET p == req[r].pod IN
       IF ok THEN
          /\ G("C01", (a4 # 0) = conf.v4 /\ (a6 # 0) = conf.v6)                                   \* one address per enabled family
          /\ G("C01", held[p] # NoHold => held[p] = [eni |-> e, v4 |-> a4, v6 |-> a6])            \* repeated ADD: same address
          /\ G("C01", held[p] = NoHold =>                                                           \* first hand-out: valid
                  /\ (a4 # 0 => <<e, a4>> \in req[r].ok)
                  /\ (a6 # 0 => <<e, a6>> \in req[r].ok))
          /\ G("C01", \A q \in Pods \ {p} :                                                         \* exclusive
                  /\ (a4 # 0 => ~(held[q].eni = e /\ held[q].v4 = a4))
                  /\ (a6 # 0 => ~(held[q].eni = e /\ held[q].v6 = a6)))
          /\ held' = [held EXCEPT ![p] = [eni |-> e, v4 |-> a4, v6 |-> a6]]
       ELSE UNCHANGED held
    /\ req' = [req EXCEPT ![r] = [st |-> "done", pod |-> req[r].pod, ok |-> {}]]
    /\ UNCHANGED <<conf, cloud, dead, rr, rg, ops>>

(* The daemon starts releasing what pod p was given (DEL, or roll-back of a failed ADD). *)
ReleaseCall(p, e, a4, a6) ==
    /\ held' = [held EXCEPT ![p] = IF held[p] = [eni |-> e, v4 |-> a4, v6 |-> a6] THEN NoHold ELSE @]
    /\ UNCHANGED <<conf, cloud, req, dead, rr, rg, ops>>

(* ---------------------------------------------------------------- cloud calls made by the pool *)

CreateBegin(n4, n6, type) ==
    /\ G("C06", n4 >= 1 /\ n4 <= conf.cap /\ n6 <= conf.cap)                                        \* addresses per interface
    /\ G("C06", Cardinality(Attached) + Cardinality({ o \in ops : o.k = "create" }) < conf.maxEni)  \* interfaces per node
    /\ ops' = ops \cup {[id |-> FreeId, k |-> "create", e |-> 0, fam |-> 0, n |-> n4, addrs |-> {}]}
    /\ UNCHANGED <<conf, cloud, held, req, dead, rr, rg>>

(* e = 0: nothing was created.  Otherwise the interface exists (also when the call reports an error). *)
CreateEnd(e, type, primary, v4s, v6s) ==
    /\ \E o \in ops : o.k = "create" /\ ops' = ops \ {o}
    /\ IF e = 0 THEN UNCHANGED <<cloud, dead, req>>
       ELSE /\ ~cloud[e].on /\ (v4s \cup v6s) \cap UsedAddrs = {}                                   \* (I) fresh
            /\ cloud' = [cloud EXCEPT ![e] = [on |-> TRUE, type |-> type, v4 |-> v4s, v6 |-> v6s, primary |-> primary]]
            /\ dead' = dead \ Pairs(e, v4s \cup v6s)
            /\ req' = AddOk(Pairs(e, v4s \cup v6s))
    /\ IF e = 0 THEN UNCHANGED <<rr, rg>> ELSE rr' = rr \ Pairs(e, v4s \cup v6s) /\ rg' = rg \ Pairs(e, v4s \cup v6s)
    /\ UNCHANGED <<conf, held>>

AssignBegin(e, fam, n) ==
    /\ cloud[e].on                                                                                   \* (I)
    /\ G("C06", n >= 1 /\ Cardinality(Fam(e, fam)) + n <= conf.cap)
    /\ ops' = ops \cup {[id |-> FreeId, k |-> "assign", e |-> e, fam |-> fam, n |-> n, addrs |-> {}]}
    /\ UNCHANGED <<conf, cloud, held, req, dead, rr, rg>>

AssignEnd(e, fam, addrs) ==
    /\ \E o \in ops : o.k = "assign" /\ o.e = e /\ o.fam = fam /\ ops' = ops \ {o}
    /\ addrs \cap UsedAddrs = {}                                                                     \* (I)
    /\ cloud' = [cloud EXCEPT ![e] = IF fam = 4 THEN [@ EXCEPT !.v4 = @ \cup addrs] ELSE [@ EXCEPT !.v6 = @ \cup addrs]]
    /\ dead' = dead \ Pairs(e, addrs)
    /\ req' = AddOk(Pairs(e, addrs))
    /\ rr' = rr \ Pairs(e, addrs) /\ rg' = rg \ Pairs(e, addrs)
    /\ UNCHANGED <<conf, held>>

UnassignBegin(e, fam, addrs) ==
    /\ G("C06", Pairs(e, addrs) \cap HeldPairs = {})                                                 \* never an address a pod holds
    /\ G("C06", cloud[e].primary \notin addrs)                                                       \* never the primary address
    /\ ops' = ops \cup {[id |-> FreeId, k |-> "unassign", e |-> e, fam |-> fam, n |-> 0, addrs |-> addrs]}
    /\ dead' = dead \cup Pairs(e, addrs)
    /\ req' = DelOk(Pairs(e, addrs))
    /\ UNCHANGED <<conf, cloud, held, rr, rg>>

UnassignEnd(e, fam, effect) ==
    /\ \E o \in ops : o.k = "unassign" /\ o.e = e /\ o.fam = fam /\ ops' = ops \ {o}
         /\ cloud' = IF effect THEN [cloud EXCEPT ![e] = IF fam = 4 THEN [@ EXCEPT !.v4 = @ \ o.addrs] ELSE [@ EXCEPT !.v6 = @ \ o.addrs]]
                     ELSE cloud
    /\ UNCHANGED <<conf, held, req, dead, rr, rg>>

DeleteBegin(e) ==
    /\ G("C06", cloud[e].type \notin {"trunk", "erdma"})                                             \* never the trunk / RDMA interface
    /\ G("C06", \A p \in Pods : held[p].eni # e)                                                     \* never an interface with an address in use
    /\ ops' = ops \cup {[id |-> FreeId, k |-> "delete", e |-> e, fam |-> 0, n |-> 0, addrs |-> {}]}
    /\ dead' = dead \cup AllPairs(e)
    /\ req' = DelOk(AllPairs(e))
    /\ UNCHANGED <<conf, cloud, held, rr, rg>>

DeleteEnd(e, effect) ==
    /\ \E o \in ops : o.k = "delete" /\ o.e = e /\ ops' = ops \ {o}
    /\ cloud' = IF effect THEN [cloud EXCEPT ![e] = NoEni] ELSE cloud
    /\ dead' = dead \cup AllPairs(e)
    /\ req' = DelOk(AllPairs(e))
    /\ UNCHANGED <<conf, held, rr, rg>>

(* The pool read the interface's addresses from the cloud (periodic sync / start-up). What is missing is now *)
(* "seen as removed"; requests already open keep their window (the hand-out may have happened before).       *)
Load(e) ==
    /\ dead' = dead \cup { x \in rr : x[1] = e }
    /\ rr' = { x \in rr : x[1] # e }
    /\ UNCHANGED <<conf, cloud, held, req, rg, ops>>

(* ---------------------------------------------------------------- environment *)

RemoteRemove(e, fam, a) ==
    /\ cloud[e].on /\ a \in Fam(e, fam) /\ a # cloud[e].primary
    /\ cloud' = [cloud EXCEPT ![e] = IF fam = 4 THEN [@ EXCEPT !.v4 = @ \ {a}] ELSE [@ EXCEPT !.v6 = @ \ {a}]]
    /\ rr' = rr \cup {<<e, a>>} /\ rg' = rg \cup {<<e, a>>}
    /\ UNCHANGED <<conf, held, req, dead, ops>>

(* ---------------------------------------------------------------- quiescent observation *)
(* st: sequence of per-slot records [eni, status, type, ents], ents: sequence of [a, owner, st, fam]; healthy:  *)
(* the drain ran with a healthy cloud, all inhibits cleared, a final sync and pool-balancer rounds.            *)

Ents(s) == { s.ents[i] : i \in 1..Len(s.ents) }
Quiescent(st, healthy) ==
    LET S == { st[i] : i \in 1..Len(st) }
        tracked == { s \in S : s.eni # 0 }
        idleNP == Cardinality(UNION { { <<s.eni, x.a>> : x \in { y \in Ents(s) : y.owner = 0 /\ y.st = "Valid" /\ y.a # cloud[s.eni].primary /\ y.fam = (IF conf.v4 THEN 4 ELSE 6) } } : s \in tracked })
        idleAll == Cardinality(UNION { { <<s.eni, x.a>> : x \in { y \in Ents(s) : y.owner = 0 /\ y.fam = (IF conf.v4 THEN 4 ELSE 6) } } : s \in { t \in tracked : t.status = "InUse" } })
        inUse == Cardinality(UNION { { <<s.eni, x.a>> : x \in { y \in Ents(s) : y.owner # 0 /\ y.fam = (IF conf.v4 THEN 4 ELSE 6) } } : s \in tracked })
        room == \E s \in S : \/ (s.eni = 0 /\ Cardinality(Attached) < conf.maxEni)
                              \/ (s.status = "InUse" /\ s.type # "erdma"       \* the reserve is filled with ordinary addresses: an RDMA interface cannot take them
                                  /\ Cardinality({ y \in Ents(s) : y.fam = (IF conf.v4 THEN 4 ELSE 6) }) < conf.cap)
    IN
    /\ ops = {} /\ OpenReqs = {}                                                                      \* (I) really quiescent
    /\ G("C07", { s.eni : s \in tracked } = Attached)                                                \* interfaces tracked = interfaces in the cloud
    /\ G("C07", \A s \in tracked : (cloud[s.eni].v4 \cup cloud[s.eni].v6) \subseteq { x.a : x \in Ents(s) })   \* no orphan address in the cloud
    /\ G("C07", \A s \in tracked : \A x \in Ents(s) : x.st = "Valid" => x.a \in cloud[s.eni].v4 \cup cloud[s.eni].v6)  \* nothing tracked as valid that the cloud lacks
    /\ G("C07", \A s \in tracked : \A x \in Ents(s) : x.owner # 0 =>                                 \* no ghost owner
            /\ x.owner \in Pods /\ held[x.owner].eni = s.eni /\ x.a \in {held[x.owner].v4, held[x.owner].v6})
    /\ G("C07", healthy => idleNP <= conf.maxIdle)                                                   \* idle reserve not above the band
    /\ G("C07", healthy /\ idleAll < conf.minIdle => ~(room /\ idleAll + inUse < conf.total))        \* ... nor below it while there is capacity
    /\ UNCHANGED vars

-----------------------------------------------------------------------------
(* State invariants (theorems of the guarded specification; evaluated in every state of a validated trace) *)
(* Two live pods never hold one address. An address is what it is on whatever interface it sits (the cloud may give a   *)
(* freed address to another interface). Lenient for one case the daemon cannot prevent: the address was removed from    *)
(* one holder's interface behind the daemon's back and the cloud assigned it to ANOTHER interface.                      *)
Exclusive == \A p, q \in Pods : p # q /\ held[p] # NoHold /\ held[q] # NoHold =>
                 /\ (held[p].v4 # 0 /\ held[p].v4 = held[q].v4 =>
                        held[p].eni # held[q].eni /\ (<<held[p].eni, held[p].v4>> \in rg \/ <<held[q].eni, held[q].v4>> \in rg))
                 /\ (held[p].v6 # 0 /\ held[p].v6 = held[q].v6 =>
                        held[p].eni # held[q].eni /\ (<<held[p].eni, held[p].v6>> \in rg \/ <<held[q].eni, held[q].v6>> \in rg))
(* an address a pod holds stays assigned in the cloud unless it was removed remotely *)
HeldBacked == \A p \in Pods : held[p] # NoHold =>
                 /\ (held[p].v4 # 0 => held[p].v4 \in cloud[held[p].eni].v4 \/ <<held[p].eni, held[p].v4>> \in rg)
                 /\ (held[p].v6 # 0 => held[p].v6 \in cloud[held[p].eni].v6 \/ <<held[p].eni, held[p].v6>> \in rg)
HeldNotUnassigned == \A o \in ops : o.k = "unassign" => Pairs(o.e, o.addrs) \cap HeldPairs = {}
QuotaAddr == \A e \in Attached : Cardinality(cloud[e].v4) <= conf.cap /\ Cardinality(cloud[e].v6) <= conf.cap
QuotaEni == Cardinality(Attached) <= conf.maxEni
=============================================================================
