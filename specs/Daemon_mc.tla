----------------------------- MODULE Daemon_mc -----------------------------
(* Bounded closure of Daemon.tla for TLC: an abstract daemon that takes any observable step the     *)
(* guards allow while following the lock discipline (one request per pod inside its handler, GC     *)
(* alone), plus the environment.  Used (a) exhaustively, to check that the guarded steps imply the  *)
(* state invariants and are jointly satisfiable (every action is reachable), and (b) in simulation  *)
(* mode as scenario generator: hist records the steps the Go driver controls (pod changes, request  *)
(* issue / gate / cancel / release, GC, interface detach, API failure, kill).                       *)
EXTENDS Daemon, Json, IOUtils

CONSTANTS Cids, MaxLen, GenOn, Fam,    \* Fam: "all" | "c04" | "c05" | "c09" - which stimuli the generator mixes
          MaxKill, MaxDetach, MaxEnv, MaxFail, MaxDbf, NPS
VARIABLES hist, bud

MCCloud == [e \in Enis |-> IF e = 1 THEN [on |-> TRUE, as |-> {1, 2}] ELSE IF e = 2 THEN [on |-> TRUE, as |-> {3}] ELSE NoEni]
MCInit == /\ Init /\ hist = <<>> /\ bud = [kill |-> 0, detach |-> 0, env |-> 0, fail |-> 0, dbf |-> 0, started |-> FALSE]
H(x) == hist' = IF GenOn THEN Append(hist, x) ELSE hist
Keep == UNCHANGED bud
Min(S) == CHOOSE x \in S : \A y \in S : x <= y

PodStateSeq == << [api |-> FALSE, loc |-> "none", sticky |-> FALSE, cached |-> FALSE],
                  [api |-> TRUE, loc |-> "exited", sticky |-> FALSE, cached |-> FALSE],
                  [api |-> TRUE, loc |-> "none", sticky |-> FALSE, cached |-> FALSE],
                  [api |-> FALSE, loc |-> "none", sticky |-> TRUE, cached |-> TRUE],
                  [api |-> FALSE, loc |-> "exited", sticky |-> FALSE, cached |-> FALSE],
                  [api |-> TRUE, loc |-> "run", sticky |-> TRUE, cached |-> FALSE],
                  [api |-> TRUE, loc |-> "run", sticky |-> FALSE, cached |-> FALSE] >>
PodStates == { PodStateSeq[i] : i \in 1..NPS }

FreeRpc == IF \E r \in Rpcs : rpc[r].st = "none" THEN Min({ r \in Rpcs : rpc[r].st = "none" }) ELSE 0
InUseBy(q) == (IF disk[q] # NoRec THEN {<<disk[q].e, disk[q].a>>} ELSE {})
              \cup (IF wr.p = q /\ wr.rec # NoRec THEN {<<wr.rec.e, wr.rec.a>>} ELSE {})
              \cup (IF acked[q] # NoAck THEN {<<acked[q].e, acked[q].a>>} ELSE {})
Avail(p) == { x \in UNION { { <<e, a>> : a \in cloud[e].as } : e \in { f \in Enis : cloud[f].on } } :
                 \A q \in Pods \ {p} : x \notin InUseBy(q) }
Mine(p) == { x \in Avail(p) : disk[p] # NoRec /\ x = <<disk[p].e, disk[p].a>> }
OwnOf(d) == { [e |-> d[p].e, a |-> d[p].a, p |-> p] : p \in { q \in Pods : d[q] # NoRec /\ cloud[d[q].e].on /\ d[q].a \in cloud[d[q].e].as } }
Quiet == wr = NoWr /\ gc.st = "idle" /\ \A r \in Rpcs : ~Open(r)
GateOf(k) == IF k = "add" THEN {"getpod", "put"} ELSE IF k = "del" THEN {"getpod", "del"} ELSE {"getpod"}
On(f) == Fam = "all" \/ Fam \in f

Step ==
  \/ \E p \in Pods, v \in PodStates :
        /\ pod[p] # v /\ bud.env < MaxEnv /\ (v.sticky => On({"c09"}))
        /\ EnvPod(p, v) /\ bud' = [bud EXCEPT !.env = @ + 1]
        /\ H([a |-> "pod", p |-> p, api |-> v.api, loc |-> v.loc, sticky |-> v.sticky, cached |-> v.cached])
  \/ \E e \in Enis : cloud[e].on /\ bud.detach < MaxDetach /\ On({"c05", "c09"}) /\ EnvDetach(e)
        /\ bud' = [bud EXCEPT !.detach = @ + 1] /\ H([a |-> "detach", e |-> e])
  \/ \E b \in BOOLEAN : apierr # b /\ On({"c09"}) /\ (b => bud.env < MaxEnv) /\ EnvApiErr(b)
        /\ bud' = [bud EXCEPT !.env = @ + (IF b THEN 1 ELSE 0)] /\ H([a |-> "apierr", on |-> b])
  (* requests *)
  \/ \E k \in {"add", "del", "get"}, p \in Pods, c \in Cids : \E g \in GateOf(k) :
        /\ FreeRpc # 0 /\ RpcCall(FreeRpc, k, p, c) /\ Keep
        /\ H([a |-> "call", k |-> k, p |-> p, c |-> c, gate |-> g, cancel |-> 0, us |-> 0])
  \/ \E r \in Rpcs : rpc[r].st = "called" /\
        \/ /\ ~(\E q \in Rpcs : q # r /\ InHandler(q) /\ rpc[q].p = rpc[r].p) /\ gc.st \notin {"in"}
           /\ GetPod(r, pod[rpc[r].p].api \/ pod[rpc[r].p].cached, pod[rpc[r].p].sticky, TRUE) /\ Keep /\ H([a |-> "obs"])
        \/ /\ \E q \in Rpcs : q # r /\ InHandler(q) /\ rpc[q].p = rpc[r].p
           /\ RpcRet(r, FALSE, "processing", 0, 0, 0) /\ Keep /\ H([a |-> "obs"])
  \/ \E r \in Rpcs : rpc[r].st = "in" /\ rpc[r].k = "add" /\
        \/ /\ rpc[r].found /\ rpc[r].wrec = NoRec /\ wr = NoWr
           /\ \E x \in (IF Mine(rpc[r].p) # {} THEN Mine(rpc[r].p) ELSE Avail(rpc[r].p)) :
                 PutBegin(rpc[r].p, [c |-> rpc[r].c, e |-> x[1], a |-> x[2], a6 |-> 0, s |-> rpc[r].sticky])
           /\ Keep /\ H([a |-> "obs"])
        \/ /\ rpc[r].wrec # NoRec /\ wr = NoWr
           /\ RpcRet(r, TRUE, "", rpc[r].wrec.e, rpc[r].wrec.a, 0) /\ Keep /\ H([a |-> "open", p |-> rpc[r].p])
        \/ /\ rpc[r].wrec = NoRec /\ wr.p # rpc[r].p /\ (rpc[r].found => bud.fail < MaxFail)
           /\ RpcRet(r, FALSE, IF rpc[r].found THEN "canceled" ELSE "invalid", 0, 0, 0)
           /\ bud' = [bud EXCEPT !.fail = @ + (IF rpc[r].found THEN 1 ELSE 0)]
           /\ H(IF rpc[r].found THEN [a |-> "cancel", p |-> rpc[r].p] ELSE [a |-> "open", p |-> rpc[r].p])
        \/ /\ rpc[r].wrec = NoRec /\ wr.p # rpc[r].p /\ rpc[r].p \in dbf                               \* its database write failed: error reply
           /\ RpcRet(r, FALSE, "error", 0, 0, 0) /\ Keep /\ H([a |-> "open", p |-> rpc[r].p])
  \/ \E r \in Rpcs : rpc[r].st = "in" /\ rpc[r].k = "del" /\
        \/ /\ rpc[r].eff /\ ~rpc[r].wdel /\ wr = NoWr /\ DelBegin(rpc[r].p) /\ Keep /\ H([a |-> "obs"])
        \/ /\ (rpc[r].eff => rpc[r].wdel) /\ wr.p # rpc[r].p
           /\ RpcRet(r, TRUE, "", 0, 0, 0) /\ Keep /\ H([a |-> "open", p |-> rpc[r].p])
        \/ /\ rpc[r].eff /\ ~rpc[r].wdel /\ wr.p # rpc[r].p /\ bud.dbf > 0                              \* its delete failed: error reply
           /\ RpcRet(r, FALSE, "error", 0, 0, 0) /\ Keep /\ H([a |-> "open", p |-> rpc[r].p])
  \/ \E r \in Rpcs : rpc[r].st = "in" /\ rpc[r].k = "get" /\
        LET d == disk[rpc[r].p] IN
        /\ IF rpc[r].found /\ d # NoRec /\ d.c = rpc[r].c THEN RpcRet(r, TRUE, "", d.e, d.a, 0)
           ELSE RpcRet(r, rpc[r].found, IF rpc[r].found THEN "" ELSE "invalid", 0, 0, 0)
        /\ Keep /\ H([a |-> "open", p |-> rpc[r].p])
  \/ wr # NoWr /\ WriteEnd(wr.p, TRUE) /\ Keep /\ H([a |-> "obs"])
  \/ wr # NoWr /\ wr.by = "rpc" /\ bud.dbf < MaxDbf /\ WriteEnd(wr.p, FALSE)                      \* the bolt write fails
        /\ bud' = [bud EXCEPT !.dbf = @ + 1] /\ H([a |-> "dbfault", op |-> IF wr.rec = NoRec THEN "del" ELSE "put"])
  (* garbage collection *)
  \/ On({"c04", "c09"}) /\ GcCall /\ Keep /\ H([a |-> "gc"])
  \/ gc.st = "called" /\ (\A r \in Rpcs : rpc[r].st # "in") /\ LocalPods({ p \in Pods : pod[p].loc = "run" }, FALSE) /\ Keep /\ H([a |-> "obs"])
  \/ gc.st = "in" /\ wr = NoWr /\ \E p \in Pods :
        \/ /\ disk[p] # NoRec /\ p \notin gc.live /\ gc.exist[p] = "?"
           /\ PodExist(p, IF apierr THEN FALSE ELSE pod[p].api, apierr, TRUE) /\ Keep /\ H([a |-> "obs"])
        \/ /\ disk[p] # NoRec /\ p \notin gc.live /\ gc.exist[p] = "no" /\ disk[p].s
           /\ PutBegin(p, [disk[p] EXCEPT !.s = FALSE]) /\ Keep /\ H([a |-> "obs"])
        \/ /\ disk[p] # NoRec /\ p \notin gc.live /\ gc.exist[p] = "no" /\ ~disk[p].s
           /\ DelBegin(p) /\ Keep /\ H([a |-> "obs"])
  \/ gc.st = "in" /\ wr = NoWr /\ GcRet(FALSE) /\ Keep /\ H([a |-> "obs"])
  (* kill and restart *)
  \/ On({"c05"}) /\ bud.kill < MaxKill /\ Crash /\ bud' = [bud EXCEPT !.kill = @ + 1] /\ H([a |-> "kill"])
  \/ ~up /\ \E d \in DiskAfterKill : Restart(d, d, OwnOf(d)) /\ Keep /\ H([a |-> "obs"])
  \/ Quiet /\ up /\ Obs(disk, disk, OwnOf(disk), cloud) /\ UNCHANGED <<hist, bud>>

Running == [api |-> TRUE, loc |-> "run", sticky |-> FALSE, cached |-> FALSE]
MCStart == /\ cloud' = MCCloud /\ pod' = [p \in Pods |-> Running]          \* Reset, with every pod running on the node
           /\ UNCHANGED <<disk, wr, acked, rpc, gc, gcn, apierr, conv, up, dbf>>
PodSteps == [i \in 1..Cardinality(Pods) |-> [a |-> "pod", p |-> i, api |-> TRUE, loc |-> "run", sticky |-> FALSE, cached |-> FALSE]]
Emit(h) == Serialize(ToJson(h) \o "\n", IOEnv.VERIF_SCEN,
                     [format |-> "TXT", charset |-> "UTF-8", openOptions |-> <<"WRITE", "CREATE", "APPEND">>]).exitValue = 0
ConfStep == [a |-> "conf", conf |-> [n1 |-> 2, n2 |-> 1, slots |-> 2, cap |-> 2, policy |-> "most_ips", fam |-> Fam, probe |-> (Fam = "c05")]]
Finish == /\ Len(hist) > 0 /\ hist[1].a # "end"
          /\ Emit(<<ConfStep>> \o PodSteps \o SelectSeq(hist, LAMBDA x : x.a # "obs"))
          /\ hist' = <<[a |-> "end"]>>
          /\ UNCHANGED <<vars, bud>>

MCNext == IF ~bud.started THEN MCStart /\ bud' = [bud EXCEPT !.started = TRUE] /\ hist' = hist
          ELSE IF GenOn /\ Len(hist) >= MaxLen THEN Finish
          ELSE IF GenOn /\ Len(hist) > 0 /\ hist[1].a = "end" THEN UNCHANGED <<vars, hist, bud>>
          ELSE Step
MCSpec == MCInit /\ [][MCNext]_<<vars, hist, bud>>
MCView == <<vars, bud>>
=============================================================================
