SPECIFICATION MCSpec
CONSTANTS
  Slots = {1}
  Enis = {1, 2, 3, 4, 5}
  Enforce = {"C01", "C06", "C07", "F"}
  A4 = {1, 2, 3, 4, 5, 6, 7, 8, 9, 10, 11, 12, 13, 14}
  A6 = {}
  Vsws = {1, 2}
  Toks = {1, 2, 3, 4, 5, 6, 7, 8}
  MaxHttp = 4
  MaxFaults = 5
  MaxCalls = 6
  V6On = FALSE
  GenOn = TRUE
  MaxLen = 8
CHECK_DEADLOCK FALSE
