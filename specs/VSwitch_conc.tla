---------------------------- MODULE VSwitch_conc ----------------------------
(* Concurrent GetOne / Block against the sequential specification.                               *)
(* Log: reset(cloud) | invoke(c, op, args) | return(c, res, after).                              *)
(* Block is atomic: its linearization point is a silent step between its invoke and its return.  *)
(* GetOne is NOT atomic in the implementation (it looks the candidates up one after the other,   *)
(* each lookup may take a round trip to the cloud, 'most' reads every candidate twice), and the   *)
(* property does not ask for atomicity. What it asks of a selection under concurrent Block calls  *)
(* is judged on what the call can have SEEN: obs[c][id] collects every value the cache entry of   *)
(* candidate id had while call c was in progress (fills are silent steps of any call in progress  *)
(* that names the id; the cloud is static and nothing expires during a round). The result must be *)
(* explainable by one observed value per look at a candidate:                                     *)
(*   - a chosen vSwitch was seen in the requested zone (or as fall-back) with free addresses;     *)
(*   - 'ordered': every candidate before it can have been seen ineligible; 'most': every other    *)
(*     candidate can have been seen ineligible or with no more free addresses;                    *)
(*   - "none": every candidate can have been seen ineligible (and, with fall-back, unusable).     *)
(* A vSwitch blocked BEFORE the call began (and filled before that) offers only its blocked value *)
(* to the call: choosing it is rejected ("not chosen again until its cache entry expires").       *)
EXTENDS VSwitch, Json, IOUtils, TLCExt

CONSTANT Callers
Log == ndJsonDeserialize(IOEnv.VERIF_TRACE)
VARIABLES l, st      \* st[c] = [pc |-> "idle"] | [pc |-> "invoked", e, obs] | [pc |-> "done", ...]

Idle == [pc |-> "idle"]
IsEv(k) == l <= Len(Log) /\ Log[l].ev = k /\ l' = l + 1
ToCloud(c) == [id \in Ids |-> IF c[id].free < 0 THEN Gone ELSE [zone |-> c[id].zone, free |-> c[id].free]]
ValOf(x) == [zone |-> x.zone, free |-> x.free]
NoObs == [id \in Ids |-> {}]
InCall(c, id) == st[c].pc = "invoked" /\ st[c].e.op = "getone" /\ id \in Range(st[c].e.ids)
(* every call in progress that names id sees the entry's new value *)
Seen(id, v) == [c \in Callers |-> IF InCall(c, id) THEN [st[c] EXCEPT !.obs = [@ EXCEPT ![id] = @ \cup {v}]] ELSE st[c]]

TReset == /\ IsEv("reset")
          /\ cloud' = ToCloud(Log[l].cloud)
          /\ cache' = [id \in Ids |-> None] /\ now' = 0 /\ blockedUntil' = [id \in Ids |-> -1]
          /\ last' = [res |-> "none", ids |-> <<>>, zone |-> "", pol |-> "", ign |-> FALSE, rz |-> "", rf |-> -1, tog |-> 0]
          /\ st' = [c \in Callers |-> Idle]
TInvoke == /\ IsEv("invoke")
           /\ st[Log[l].c].pc = "idle"
           /\ st' = [st EXCEPT ![Log[l].c] = [pc |-> "invoked", e |-> Log[l],
                                              obs |-> [id \in Ids |-> IF Live(id) THEN {ValOf(cache[id])} ELSE {}]]]
           /\ UNCHANGED vars
(* a call in progress describes a candidate that is not cached (the first to do so; the others find it cached) *)
Fill(id) == /\ l <= Len(Log) /\ UNCHANGED l
            /\ ~Live(id) /\ cloud[id] # Gone
            /\ \E c \in Callers : InCall(c, id)
            /\ cache' = [cache EXCEPT ![id] = [zone |-> cloud[id].zone, free |-> cloud[id].free, exp |-> now + TTL]]
            /\ st' = Seen(id, ValOf(cloud[id]))
            /\ UNCHANGED <<cloud, now, blockedUntil, last>>
LinBlock(c) == /\ l <= Len(Log) /\ UNCHANGED l
               /\ st[c].pc = "invoked" /\ st[c].e.op = "block"
               /\ LET id == st[c].e.id IN
                  /\ Block(id)
                  /\ st' = [(IF Live(id) THEN Seen(id, [zone |-> cache[id].zone, free |-> 0]) ELSE st) EXCEPT ![c] = [pc |-> "done"]]

(* what call c can have seen of candidate id *)
El(v, z) == v.zone = z /\ v.free > 0
Fb(v, z) == v.zone # z /\ v.free > 0
Looked(o, id)     == o[id] # {} \/ cloud[id] = Gone
CanBeEl(o, id, z)   == \E v \in o[id] : El(v, z)
CanBeInel(o, id, z) == cloud[id] = Gone \/ \E v \in o[id] : ~El(v, z)
CanBeFb(o, id, z)   == \E v \in o[id] : Fb(v, z)
CanBeNoFb(o, id, z) == cloud[id] = Gone \/ \E v \in o[id] : ~Fb(v, z)
Before(ids, r) == LET i == CHOOSE i \in 1..Len(ids) : ids[i] = r /\ \A j \in 1..(i - 1) : ids[j] # r IN { ids[j] : j \in 1..(i - 1) }

Explained(e, o, r) ==
    LET S == Range(e.ids)  z == e.zone  ord == e.pol \in {"ordered", ""} IN
    \/ /\ r \in S /\ CanBeEl(o, r, z)                                                    \* C17.member + zone + free
       /\ ord => \A id \in Before(e.ids, r) : Looked(o, id) /\ CanBeInel(o, id, z)        \* C17.ordered
       /\ e.pol = "most" => \A id \in S : Looked(o, id) /\                                \* C17.most
              (CanBeInel(o, id, z) \/ \E v \in o[id], w \in o[r] : El(w, z) /\ v.free <= w.free)
    \/ /\ r \in S /\ e.ign /\ CanBeFb(o, r, z)                                          \* zone fall-back only when enabled and needed
       /\ \A id \in S : Looked(o, id) /\ CanBeInel(o, id, z)
       /\ ord => \A id \in Before(e.ids, r) : CanBeNoFb(o, id, z)
       /\ e.pol = "most" => \A id \in S : CanBeNoFb(o, id, z) \/ \E v \in o[id], w \in o[r] : Fb(w, z) /\ v.free <= w.free
    \/ /\ r = "none"
       /\ \A id \in S : Looked(o, id) /\ CanBeInel(o, id, z) /\ (e.ign => CanBeNoFb(o, id, z))

TReturn == /\ IsEv("return")
           /\ LET c == Log[l].c IN
              /\ CASE Log[l].op = "block"  -> st[c].pc = "done"
                   [] Log[l].op = "shared" -> st[c].pc = "invoked" /\ st[c].e.ids = Log[l].after     \* C17.slice: a slice concurrent calls were given
                   [] OTHER -> /\ st[c].pc = "invoked"
                               /\ Log[l].after = st[c].e.ids                                        \* C17.slice
                               /\ Explained(st[c].e, st[c].obs, Log[l].res)
              /\ st' = [st EXCEPT ![c] = Idle]
           /\ UNCHANGED vars

TCloudInit == { [id \in Ids |-> Gone] }
TInit == Init /\ l = 1 /\ st = [c \in Callers |-> Idle]
TNext == TReset \/ TInvoke \/ (\E id \in Ids : Fill(id)) \/ (\E c \in Callers : LinBlock(c)) \/ TReturn
TSpec == TInit /\ [][TNext]_<<vars, l, st>>

HighWater == IF l > TLCGet(1) THEN TLCSet(1, l) ELSE TRUE
ASSUME TLCSet(1, 0)
PropInv == TRUE      \* the clauses are in Explained (the sequential trace specification keeps the state invariants)
NotAccepted == ~(l > Len(Log))
Report == PrintT(<<"HIGHWATER", TLCGet(1)>>)
=============================================================================
