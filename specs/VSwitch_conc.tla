---------------------------- MODULE VSwitch_conc ----------------------------
(* Linearizability of concurrent GetOne / Block against the sequential specification.          *)
(* Log: reset(cloud) | invoke(c, op, args) | return(c, res, after).  The linearization point    *)
(* of each call is a silent step between its invoke and its return; the cloud is static and     *)
(* nothing expires during a round, so which entries a call described is left to the spec (F).   *)
EXTENDS VSwitch, Json, IOUtils, TLCExt

CONSTANT Callers
Log == ndJsonDeserialize(IOEnv.VERIF_TRACE)
VARIABLES l, st      \* st[c] = [pc |-> "idle"|"invoked"|"done", op, args, res]

Idle == [pc |-> "idle"]
IsEv(k) == l <= Len(Log) /\ Log[l].ev = k /\ l' = l + 1
ToCloud(c) == [id \in Ids |-> IF c[id].free < 0 THEN Gone ELSE [zone |-> c[id].zone, free |-> c[id].free]]

TReset == /\ IsEv("reset")
          /\ cloud' = ToCloud(Log[l].cloud)
          /\ cache' = [id \in Ids |-> None] /\ now' = 0 /\ blockedUntil' = [id \in Ids |-> -1]
          /\ last' = [res |-> "none", ids |-> <<>>, zone |-> "", pol |-> "", ign |-> FALSE, rz |-> "", rf |-> -1, tog |-> 0]
          /\ st' = [c \in Callers |-> Idle]
TInvoke == /\ IsEv("invoke")
           /\ st[Log[l].c].pc = "idle"
           /\ st' = [st EXCEPT ![Log[l].c] = [pc |-> "invoked", e |-> Log[l]]]
           /\ UNCHANGED vars
Lin(c) == /\ l <= Len(Log) /\ UNCHANGED l
          /\ st[c].pc = "invoked"
          /\ LET e == st[c].e IN
             IF e.op = "block"
             THEN Block(e.id) /\ st' = [st EXCEPT ![c] = [pc |-> "done", res |-> "", after |-> <<>>]]
             ELSE IF e.op = "shared"      \* reading back a slice that concurrent calls were given: C17.slice
             THEN UNCHANGED vars /\ st' = [st EXCEPT ![c] = [pc |-> "done", res |-> "", after |-> e.ids]]
             ELSE \E F \in SUBSET Range(e.ids), r \in Range(e.ids) \cup {"none"} :
                    /\ GetOne(e.zone, e.ids, e.pol, e.ign, F, r, e.ids)
                    /\ st' = [st EXCEPT ![c] = [pc |-> "done", res |-> r, after |-> e.ids]]
TReturn == /\ IsEv("return")
           /\ LET c == Log[l].c IN
              /\ st[c].pc = "done"
              /\ Log[l].op = "getone" => st[c].res = Log[l].res /\ st[c].after = Log[l].after
              /\ Log[l].op = "shared" => st[c].after = Log[l].after
              /\ st' = [st EXCEPT ![c] = Idle]
           /\ UNCHANGED vars

TCloudInit == { [id \in Ids |-> Gone] }
TInit == Init /\ l = 1 /\ st = [c \in Callers |-> Idle]
TNext == TReset \/ TInvoke \/ (\E c \in Callers : Lin(c)) \/ TReturn
TSpec == TInit /\ [][TNext]_<<vars, l, st>>

HighWater == IF l > TLCGet(1) THEN TLCSet(1, l) ELSE TRUE
ASSUME TLCSet(1, 0)
PropInv == ChosenFromCandidates /\ ZoneRespected /\ HasFree
NotAccepted == ~(l > Len(Log))
Report == PrintT(<<"HIGHWATER", TLCGet(1)>>)
=============================================================================
