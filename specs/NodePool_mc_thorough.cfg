SPECIFICATION MCSpec
CONSTANTS
  Pods = {1, 2}
  Reqs = {1, 2}
  Enis = {1, 2}
  A4 = {1, 2, 3}
  A6 = {}
  Enforce = {"C01", "C06", "C07"}
  MCCap = 2
  MCMaxEni = 2
  MCV6 = FALSE
  MaxLen = 0
  GenOn = FALSE
INVARIANTS Exclusive HeldBacked HeldNotUnassigned QuotaAddr QuotaEni
CHECK_DEADLOCK FALSE
