SPECIFICATION MCSpec
CONSTANTS
  Names = {1}
  Enis = {1, 2, 3}
  Calls = {1, 2}
  Enforce = {"C10", "C11"}
  Lenient = TRUE
  Grace = 2
  Slack = 0
  MaxUid = 2
  MaxT = 3
  MaxDepth = 1
  EnvDepth = 1
  Nodes = {1, 2}
  Kinds = {"e", "t", "n"}
  TTL = 2
  MaxLen = 0
  GenOn = FALSE
  StrayOn = TRUE
INVARIANTS NoUnrecorded FixedKept FramesSane
CHECK_DEADLOCK FALSE
