----------------------------- MODULE Token_gen -----------------------------
(* Scenario generator: Token.tla plus a history of the controllable steps.   *)
(* Run with tlc -simulate; every behaviour is appended to IOEnv.VERIF_SCEN.   *)
EXTENDS Token, Json, IOUtils

CONSTANT MaxLen
VARIABLES hist, pset      \* pset: the few parameter sets this scenario uses (retries need repetition)

Emit(h) == Serialize(ToJson(h) \o "\n", IOEnv.VERIF_SCEN,
                     [format |-> "TXT", charset |-> "UTF-8", openOptions |-> <<"WRITE", "CREATE", "APPEND">>]).exitValue = 0

ASSUME ndJsonSerialize(IOEnv.VERIF_PARAMS, ParamTable)
GInit == Init /\ hist = <<>> /\ pset \in { S \in SUBSET Params : Cardinality(S) \in {2, 3} }

Step == \E c \in Calls :
          \/ \E p \in pset : Invoke(c, p) /\ hist' = Append(hist, [a |-> "invoke", c |-> c, p |-> p])
          \/ (Pick(c) \/ RejectInvalid(c) \/ Send(c, tok[c]) \/ Settle(c)) /\ hist' = hist
          \/ \E o \in {"ok", "fail"} : Respond(c, o) /\ hist' = Append(hist, [a |-> "respond", c |-> c, o |-> o])
          \/ Return(c) /\ hist' = Append(hist, [a |-> "return", c |-> c])

Finish == /\ Len(hist) > 0 /\ Head(hist).a # "end"
          /\ Emit(hist)
          /\ hist' = <<[a |-> "end"]>>
          /\ UNCHANGED vars

GNext == /\ UNCHANGED pset
         /\ IF Len(hist) < MaxLen /\ ENABLED Step THEN Step ELSE Finish
=============================================================================
