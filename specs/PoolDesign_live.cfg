SPECIFICATION LiveSpec
CONSTANTS
  Pods = {1, 2, 3}
  Reqs = {1, 2, 3}
  Slots = {1}
  Addrs = {1, 2, 3}
  Cap = 3
  Batch = 1
  MaxIdle = 2
  FixCollector = TRUE
  FixPinned = TRUE
  FixKeep = TRUE
  FixDangling = TRUE
  FixABA = TRUE
  Healthy = TRUE
  DriftOn = FALSE
PROPERTY NoStuckWaiter
CHECK_DEADLOCK FALSE
