SPECIFICATION MCSpec
CONSTANTS
  Pods = {1, 2}
  Reqs = {1, 2}
  Enis = {1}
  A4 = {1, 2}
  A6 = {101, 102}
  Enforce = {"C01", "C06", "C07"}
  MCCap = 2
  MCMaxEni = 1
  MCV6 = TRUE
  MaxLen = 0
  GenOn = FALSE
INVARIANTS Exclusive HeldBacked HeldNotUnassigned QuotaAddr QuotaEni
CHECK_DEADLOCK FALSE
