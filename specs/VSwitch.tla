------------------------------ MODULE VSwitch ------------------------------
(* C17 - vSwitch selection honours zone, capacity and policy without side     *)
(* effects.  State: what the cloud would answer for a vSwitch, the selector's  *)
(* expiring cache (a snapshot of zone/free count taken at fill time, free = 0  *)
(* once the vSwitch was reported exhausted), a discrete clock.                 *)
(*                                                                             *)
(* GetOne is one action whose parameters are everything observable about a     *)
(* call: arguments, the set of vSwitches it described in the cloud, the        *)
(* result and the caller's slice after the call.  Every conjunct is either an  *)
(* interface fact or a clause of the property (marked C17.x).                  *)
EXTENDS Integers, FiniteSets, Sequences, TLC

CONSTANTS Ids, Zones, FreeVals, TTL, MaxT, IdSeqs,  \* IdSeqs: candidate lists explored by the model
          DriftOn,                                 \* whether the cloud changes during a behaviour
          CloudInit                                \* initial cloud states explored

None == [zone |-> "", free |-> -1, exp |-> -1]
Gone == [zone |-> "", free |-> -1]
CONSTANT Policies      \* subset of {"ordered", "random", "most", ""} ("" behaves as ordered)

VARIABLES cloud,      \* cloud[id] \in [zone, free] or Gone
          cache,      \* cache[id] \in [zone, free, exp] or None
          now,
          blockedUntil, \* history: blockedUntil[id] = expiry of the cache entry that recorded the exhaustion (-1: not blocked)
          last        \* history: the last GetOne call (for the invariants)

vars == <<cloud, cache, now, blockedUntil, last>>

Range(s) == { s[i] : i \in 1..Len(s) }
Live(id) == cache[id] # None /\ now <= cache[id].exp       \* entry present and not expired

Init == /\ cloud \in CloudInit
        /\ cache = [id \in Ids |-> None]
        /\ now = 0
        /\ blockedUntil = [id \in Ids |-> -1]
        /\ last = [res |-> "none", ids |-> <<>>, zone |-> "", pol |-> "", ign |-> FALSE, rz |-> "", rf |-> -1, tog |-> 0]

(* cache after describing the set F (only ids that are not live in the cache are ever described) *)
Filled(F) == [id \in Ids |-> IF id \in F THEN [zone |-> cloud[id].zone, free |-> cloud[id].free, exp |-> now + TTL]
                             ELSE IF Live(id) THEN cache[id] ELSE None]

Eligible(v, id, z)  == v[id] # None /\ v[id].zone = z /\ v[id].free > 0
Fallback(v, id, z)  == v[id] # None /\ v[id].zone # z /\ v[id].free > 0
Examined(v, id)     == v[id] # None \/ cloud[id] = Gone        \* looked at: known, or the cloud has no such vSwitch
FirstIdx(ids, P(_)) == IF \E i \in 1..Len(ids) : P(ids[i]) THEN CHOOSE i \in 1..Len(ids) : P(ids[i]) /\ \A j \in 1..(i - 1) : ~P(ids[j]) ELSE 0

GetOne(z, ids, pol, ign, F, r, after) ==
    LET v   == Filled(F)
        S   == Range(ids)
        el  == { id \in S : Eligible(v, id, z) }
        fb  == { id \in S : Fallback(v, id, z) }
        all == \A id \in S : Examined(v, id)
    IN
    /\ now <= MaxT
    /\ pol \in Policies
    /\ F \subseteq { id \in S : ~Live(id) /\ cloud[id] # Gone }        \* interface fact: only misses are described
    /\ after = ids                                                      \* C17.slice: the caller's list is not touched
    /\ \/ /\ r \in el                                                   \* C17.member + C17.zone + C17.free
          /\ pol \in {"ordered", ""} =>                                 \* C17.ordered: first eligible candidate
                LET i == FirstIdx(ids, LAMBDA id : Eligible(v, id, z)) IN
                /\ ids[i] = r
                /\ \A j \in 1..(i - 1) : Examined(v, ids[j])
          /\ pol = "most" => /\ all                                     \* C17.most: most free addresses
                             /\ \A id \in el : v[id].free <= v[r].free
       \/ /\ r \in fb /\ ign /\ el = {} /\ all                          \* zone fallback only when enabled and needed
          /\ pol \in {"ordered", ""} => ids[FirstIdx(ids, LAMBDA id : Fallback(v, id, z))] = r
          /\ pol = "most" => \A id \in fb : v[id].free <= v[r].free
       \/ /\ r = "none" /\ el = {} /\ all /\ (ign => fb = {})
    /\ cache' = v
    /\ last' = [res |-> r, ids |-> ids, zone |-> z, pol |-> pol, ign |-> ign, rz |-> IF r = "none" THEN "" ELSE v[r].zone, rf |-> IF r = "none" THEN -1 ELSE v[r].free, tog |-> 1 - last.tog]
    /\ UNCHANGED <<cloud, now, blockedUntil>>

(* the caller reports the vSwitch exhausted: the entry, if live, is rewritten with free = 0 and a new lease *)
Block(id) ==
    /\ now <= MaxT
    /\ IF Live(id)
       THEN /\ cache' = [cache EXCEPT ![id] = [zone |-> cache[id].zone, free |-> 0, exp |-> now + TTL]]
            /\ blockedUntil' = [blockedUntil EXCEPT ![id] = now + TTL]
       ELSE /\ cache' = [cache EXCEPT ![id] = None]
            /\ UNCHANGED blockedUntil
    /\ UNCHANGED <<cloud, now, last>>

Tick == /\ now < MaxT
        /\ now' = now + 1
        /\ UNCHANGED <<cloud, cache, blockedUntil, last>>

CloudSet(id, c) == /\ cloud' = [cloud EXCEPT ![id] = c]
                   /\ UNCHANGED <<cache, now, blockedUntil, last>>

Next == \/ \E z \in Zones, ids \in IdSeqs, pol \in Policies, ign \in BOOLEAN, F \in SUBSET Ids, r \in Ids \cup {"none"} :
              GetOne(z, ids, pol, ign, F, r, ids)
        \/ \E id \in Ids : Block(id)
        \/ Tick
        \/ \E id \in Ids, c \in {Gone} \cup [zone : Zones, free : FreeVals] : DriftOn /\ CloudSet(id, c)

Spec == Init /\ [][Next]_vars

-----------------------------------------------------------------------------
(* Theorems of the specification, checked by TLC on the bounded model *)
ChosenFromCandidates == last.res # "none" => last.res \in Range(last.ids)
ZoneRespected == last.res # "none" /\ ~last.ign => last.rz = last.zone
HasFree == last.res # "none" => last.rf > 0
(* an exhausted vSwitch is not chosen again until its cache entry expires *)
BlockedNotChosen == [][\A id \in Ids : last'.res = id /\ last' # last => ~(blockedUntil[id] >= now)]_vars
(* something can always be selected when the cloud has an eligible candidate and nothing is cached *)
CanSelect == \A z \in Zones, ids \in IdSeqs :
                (\E id \in Range(ids) : cloud[id] # Gone /\ cloud[id].zone = z /\ cloud[id].free > 0) /\ (\A id \in Ids : ~Live(id))
                   => \E r \in Ids, F \in SUBSET Ids : ENABLED GetOne(z, ids, "ordered", FALSE, F, r, ids)
=============================================================================
