SPECIFICATION MCSpec
CONSTANTS
  Pods = {1, 2}
  Rpcs = {1, 2}
  Enis = {1, 2}
  Cids = {1, 2}
  Enforce = {"C04", "C05", "C09"}
  MaxLen = 0
  GenOn = FALSE
  Fam = "c04"
  MaxKill = 1
  MaxDetach = 0
  MaxEnv = 1
  NPS = 4
  MaxDbf = 0
  MaxFail = 1
INVARIANTS AckedExclusive AckedOnDisk OneWriter GcAlone
VIEW MCView
CHECK_DEADLOCK FALSE
