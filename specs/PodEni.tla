------------------------------- MODULE PodEni -------------------------------
(* C10 / C11 - the per-pod ENI record (PodENI) and its cloud interfaces, as driven by the pod      *)
(* controller (pkg/controller/pod), the PodENI controller with its two collectors                  *)
(* (pkg/controller/pod-eni) and read by the node daemon (pkg/eni/remote.go), at the grain of       *)
(* externally visible steps:                                                                        *)
(*   - environment: a pod is created / starts terminating / its sandbox exits / the object is gone; *)
(*     virtual time passes (every step carries the virtual clock t);                                *)
(*   - a controller function is called / returns (pc = ReconcilePod, ec = ReconcilePodENI,          *)
(*     gcr = gcCRPodENIs, gcl = the leaked-interface collector);                                    *)
(*   - every successful write to a PodENI object (create, update, status update, patch, delete,     *)
(*     finalizer removal) with the object as stored afterwards;                                     *)
(*   - every reading of a pod by a controller function (what it was shown);                         *)
(*   - every mutating cloud call (create / attach / detach / delete) with its effect;               *)
(*   - the daemon accepting or refusing a record for a sandbox; a quiescent observation.            *)
(* Controller internals are not state here.  Each conjunct is an interface fact (I) or a clause of  *)
(* C10 / C11 written G("Cxx", ...).                                                                  *)
(*                                                                                                  *)
(* Readings fixed here (lenient where the sentence leaves room):                                    *)
(*  R1 a record whose deletionTimestamp is set is "deleting" whatever status.phase says (the pod    *)
(*     controller deletes a stale non-fixed record of another pod instance directly);               *)
(*  R2 "bound to a pod instance" = the record's pod-uid annotation names that instance; "still      *)
(*     running" = the pod object exists and its phase is neither Succeeded nor Failed;              *)
(*  R3 D10: the pod controller moves a fixed-IP record of a vanished pod to Detaching from Initial, *)
(*     Unbind or Binding too.  These edges are not in the documented machine; they detach nothing   *)
(*     that is in use (NeverPull below still applies), end in Unbind, and Initial -> Detaching is    *)
(*     the only way a half-attached record of a vanished pod is ever released.  Tolerated iff       *)
(*     Lenient and the record is not bound to a running pod instance;                               *)
(*  R4 "the controller last observed the pod" = the PodENI controller marked the record Bind for    *)
(*     it (counted from the start of that reconcile), or its collector, working through a list that *)
(*     contains this fixed-IP record, found a pod of that name whose sandbox has not exited.  A     *)
(*     record that never reached Bind and was never seen by the collector has no observation (its   *)
(*     status.podLastSeen is unset as well) and is not protected by the TTL;                        *)
(*  R5 status.podLastSeen has second granularity: Slack (1 s) is granted on the TTL comparison;     *)
(*  R6 an allocation whose releaseAfter does not parse or is negative, or whose strategy is         *)
(*     unknown, is not constrained (the implementation keeps it);                                   *)
(*  R7 "referenced by no record" = unreferenced at some instant of that collector run;              *)
(*  R8 cloud faults are not injected into the roll-back deletes of a failed creation.               *)
EXTENDS Integers, FiniteSets, Sequences, TLC

CONSTANTS Names,     \* pod names (naturals >= 1)
          Enis,      \* interface ids
          Calls,     \* ids of controller-function invocations (reused; 0 = outside any invocation)
          Enforce,   \* subset of {"C10", "C11"}
          Lenient,   \* BOOLEAN: tolerate the D10 edges (R3)
          Grace,     \* leak-collector grace period (virtual ms)
          Slack      \* R5

G(p, clause) == IF p \in Enforce THEN clause ELSE TRUE

NoTime == -1000000000
NoPod  == [ex |-> FALSE, uid |-> 0, run |-> FALSE, term |-> FALSE, node |-> 0, fixed |-> FALSE]
NoPe   == [ex |-> FALSE, phase |-> "", uid |-> 0, del |-> FALSE, allocs |-> {}, seen |-> NoTime]
NoEni  == [ex |-> FALSE, st |-> "", inst |-> 0, ours |-> FALSE, created |-> NoTime]
NoCall == [open |-> FALSE, who |-> "", n |-> 0, t0 |-> 0, new |-> {}, unref |-> {}, snap |-> {}]

VARIABLES now,    \* virtual clock (ms)
          pod,    \* pod[n]: [ex, uid, run, term, node, fixed (asks for a fixed-IP allocation)]; uid keeps the last value after the object is gone
          pe,     \* pe[n]: the PodENI object of that name: [ex, phase, uid, del, allocs, seen]
                  \*        allocs: set of [e, fixed, strat, ttl, ip]; seen = status.podLastSeen or NoTime
          eni,    \* eni[e]: [ex, st in {"Available","InUse"}, inst, ours, created]
          obs,    \* obs[n]: when the PodENI controller last observed a pod for record n (R4)
          fx,     \* fx[n]: the fixed allocations promised to name n (set while the record is to be kept)
          call,   \* call[c]: [open, who, n, t0 (start), new (interfaces it created), unref (seen unreferenced, R7),
                  \*           snap (names whose fixed-IP record was in the list this invocation read and still is that record)]
          made    \* interfaces created by the pod controller in this run

vars == <<now, pod, pe, eni, obs, fx, call, made>>

Ph(r) == IF r.phase = "" THEN "Initial" ELSE r.phase
Eff(r) == IF ~r.ex THEN "Removed" ELSE IF r.del \/ r.phase = "Deleting" THEN "Deleting" ELSE Ph(r)      \* R1
AllocEnis(r) == { a.e : a \in r.allocs }
FixedOf(r) == { a \in r.allocs : a.fixed }
HasFixed(r) == FixedOf(r) # {}
Referenced(e) == \E n \in Names : pe[n].ex /\ e \in AllocEnis(pe[n])
Unref == { e \in Enis : ~Referenced(e) }
Live(n) == pod[n].ex /\ pod[n].run /\ pe[n].ex /\ pod[n].uid = pe[n].uid                               \* R2

LivePhases == {"Initial", "Bind", "Binding", "Unbind", "Detaching"}
Documented == {<<"Initial", "Bind">>, <<"Bind", "Detaching">>, <<"Detaching", "Unbind">>,
               <<"Unbind", "Binding">>, <<"Binding", "Bind">>, <<"Deleting", "Removed">>}
              \cup { <<x, "Deleting">> : x \in LivePhases }
D10Edges == {<<"Unbind", "Detaching">>, <<"Initial", "Detaching">>, <<"Binding", "Detaching">>}      \* R3
EdgeOK(n, a, b) == a = b \/ <<a, b>> \in Documented \/ (Lenient /\ <<a, b>> \in D10Edges /\ ~Live(n))

(* does allocation a of record n still say "keep" at time t ?  (R4, R5, R6) *)
KeepSays(n, a, t) == a.fixed /\ ( a.strat = "Never" \/ (a.strat = "TTL" /\ a.ttl >= 0 /\ obs[n] + a.ttl > t + Slack) )
MayRemove(n, t) == \A a \in pe[n].allocs : ~KeepSays(n, a, t)

(* no interface of a record bound to a running pod instance may be detached or deleted *)
NotPulled(e) == \A n \in Names : pe[n].ex /\ e \in AllocEnis(pe[n]) => ~Live(n)
(* what the leak collector may touch *)
Reapable(c, e, t) == eni[e].ex /\ eni[e].ours /\ eni[e].created + Grace <= t /\ c \in Calls /\ e \in call[c].unref

Adv(t) == t >= now /\ now' = t                                                                           \* (I)
AddUnref(S) == [c \in Calls |-> IF call[c].open /\ call[c].who = "gcl" THEN [call[c] EXCEPT !.unref = @ \cup S] ELSE call[c]]

Init == /\ now = 0
        /\ pod = [n \in Names |-> NoPod] /\ pe = [n \in Names |-> NoPe] /\ eni = [e \in Enis |-> NoEni]
        /\ obs = [n \in Names |-> NoTime] /\ fx = [n \in Names |-> {}]
        /\ call = [c \in Calls |-> NoCall] /\ made = {}

(* A run starts from given pods, records and cloud interfaces. *)
Reset(t, pods, recs, enis) ==
    /\ now' = t /\ pod' = pods /\ pe' = recs /\ eni' = enis
    /\ obs' = [n \in Names |-> IF recs[n].ex THEN recs[n].seen ELSE NoTime]
    /\ fx' = [n \in Names |-> IF recs[n].ex THEN FixedOf(recs[n]) ELSE {}]
    /\ call' = [c \in Calls |-> NoCall] /\ made' = {}

(* ------------------------------------------------------------------ environment *)
PodCreate(t, n, u, node, fixed) ==
    /\ Adv(t) /\ ~pod[n].ex /\ u > pod[n].uid                                                            \* (I) a new instance
    /\ pod' = [pod EXCEPT ![n] = [ex |-> TRUE, uid |-> u, run |-> TRUE, term |-> FALSE, node |-> node, fixed |-> fixed]]
    /\ UNCHANGED <<pe, eni, obs, fx, call, made>>
PodTerm(t, n) == /\ Adv(t) /\ pod[n].ex /\ pod' = [pod EXCEPT ![n].term = TRUE] /\ UNCHANGED <<pe, eni, obs, fx, call, made>>
PodExit(t, n) == /\ Adv(t) /\ pod[n].ex /\ pod' = [pod EXCEPT ![n].run = FALSE] /\ UNCHANGED <<pe, eni, obs, fx, call, made>>
PodGone(t, n) == /\ Adv(t) /\ pod[n].ex /\ pod' = [pod EXCEPT ![n].ex = FALSE, ![n].run = FALSE, ![n].term = FALSE]
                 /\ UNCHANGED <<pe, eni, obs, fx, call, made>>

(* ------------------------------------------------------------------ controller invocations *)
CallBegin(t, c, who, n) ==
    /\ Adv(t) /\ ~call[c].open                                                                           \* (I)
    /\ call' = [call EXCEPT ![c] = [open |-> TRUE, who |-> who, n |-> n, t0 |-> t, new |-> {}, unref |-> IF who = "gcl" THEN Unref ELSE {}, snap |-> {}]]
    /\ UNCHANGED <<pod, pe, eni, obs, fx, made>>

(* C10: when the pod controller returns (with or without an error) every interface it created in this *)
(* invocation is named by a record or has been deleted again.                                           *)
CallEnd(t, c) ==
    /\ Adv(t) /\ call[c].open                                                                            \* (I)
    /\ G("C10", call[c].who = "pc" => \A e \in call[c].new : ~eni[e].ex \/ Referenced(e))
    /\ call' = [call EXCEPT ![c] = NoCall]
    /\ UNCHANGED <<pod, pe, eni, obs, fx, made>>

(* a controller function listed the records *)
RecList(t, c) ==
    /\ Adv(t)
    /\ call' = IF c \in Calls THEN [call EXCEPT ![c].snap = { n \in Names : pe[n].ex /\ HasFixed(pe[n]) }] ELSE call
    /\ UNCHANGED <<pod, pe, eni, obs, fx, made>>

(* a controller function was shown pod n (found: the object exists; run: its sandbox has not exited).  The collector *)
(* of records "observes the pod" for the fixed-IP records of the list it is working through.                         *)
PodGet(t, c, who, n, found, run) ==
    /\ Adv(t) /\ found = pod[n].ex /\ run = pod[n].run                                                   \* (I) the API server tells the truth
    /\ obs' = IF who = "gcr" /\ found /\ run /\ c \in Calls /\ n \in call[c].snap THEN [obs EXCEPT ![n] = t] ELSE obs   \* R4
    /\ UNCHANGED <<pod, pe, eni, fx, call, made>>

(* ------------------------------------------------------------------ a write to PodENI n succeeded; post = the object afterwards *)
PeWrite(t, c, who, n, post) ==
    LET pre == pe[n] IN
    /\ Adv(t) /\ (pre.ex \/ post.ex)                                                                     \* (I)
    /\ IF ~pre.ex
       THEN /\ G("C10", Eff(post) = "Initial")                                                           \* a record is born Initial
       ELSE /\ G("C10", EdgeOK(n, Eff(pre), Eff(post)))                                                     \* documented phase machine
            /\ G("C10", ~post.ex => \A e \in AllocEnis(pre) : ~eni[e].ex)                                 \* record disappears only after its interfaces are deleted
            /\ G("C11", post.ex => post.allocs = pre.allocs)                                             \* same interfaces, same addresses
            /\ G("C11", Eff(pre) # "Deleting" /\ Eff(post) \in {"Deleting", "Removed"} => MayRemove(n, t))   \* kept until TTL / forever
            /\ G("C11", Ph(post) = "Bind" /\ Ph(pre) # "Bind" /\ HasFixed(pre) /\ pod[n].ex /\ pod[n].uid = post.uid =>   \* "gets it back": attached where the pod runs
                    \A e \in AllocEnis(post) : eni[e].ex /\ eni[e].st = "InUse" /\ eni[e].inst = pod[n].node)
    /\ pe' = [pe EXCEPT ![n] = IF post.ex THEN post ELSE NoPe]
    /\ obs' = IF ~post.ex \/ ~pre.ex THEN [obs EXCEPT ![n] = NoTime]
              ELSE IF who = "ec" /\ Ph(post) = "Bind" /\ Ph(pre) # "Bind"                                  \* R4: observed when that reconcile started
                   THEN [obs EXCEPT ![n] = IF c \in Calls THEN call[c].t0 ELSE t]
              ELSE obs
    /\ fx' = [fx EXCEPT ![n] = IF ~post.ex THEN {} ELSE IF ~pre.ex THEN FixedOf(post) ELSE @]
    /\ call' = [x \in Calls |-> LET y == AddUnref(IF ~post.ex THEN AllocEnis(pre) ELSE {})[x] IN
                                  IF ~post.ex \/ ~pre.ex THEN [y EXCEPT !.snap = @ \ {n}] ELSE y]
    /\ UNCHANGED <<pod, eni, made>>

(* ------------------------------------------------------------------ cloud calls (atomic in the fake: guard on the state before, then the effect) *)
CloudCreate(t, c, who, e, ours, created) ==       \* created: the creation time the cloud reports for it (second granularity, <= t)
    /\ Adv(t)
    /\ IF e = 0 THEN UNCHANGED <<eni, call, made>>
       ELSE /\ ~eni[e].ex                                                                                \* (I) fresh id
            /\ eni' = [eni EXCEPT ![e] = [ex |-> TRUE, st |-> "Available", inst |-> 0, ours |-> ours, created |-> created]]
            /\ call' = [x \in Calls |-> IF x = c THEN [call[x] EXCEPT !.new = @ \cup {e}]
                                        ELSE IF call[x].open /\ call[x].who = "gcl" THEN [call[x] EXCEPT !.unref = @ \cup {e}] ELSE call[x]]
            /\ made' = IF who = "pc" THEN made \cup {e} ELSE made
    /\ UNCHANGED <<pod, pe, obs, fx>>

CloudAttach(t, e, inst, effect) ==
    /\ Adv(t)
    /\ eni' = IF effect /\ eni[e].ex THEN [eni EXCEPT ![e].st = "InUse", ![e].inst = inst] ELSE eni
    /\ UNCHANGED <<pod, pe, obs, fx, call, made>>

CloudDetach(t, c, who, e, effect) ==
    /\ Adv(t)
    /\ G("C10", NotPulled(e))
    /\ G("C11", who = "gcl" => Reapable(c, e, t))
    /\ eni' = IF effect /\ eni[e].ex THEN [eni EXCEPT ![e].st = "Available", ![e].inst = 0] ELSE eni
    /\ UNCHANGED <<pod, pe, obs, fx, call, made>>

CloudDelete(t, c, who, e, effect) ==
    /\ Adv(t)
    /\ G("C10", NotPulled(e))
    /\ G("C11", who = "gcl" => Reapable(c, e, t))
    /\ eni' = IF effect THEN [eni EXCEPT ![e] = NoEni] ELSE eni
    /\ UNCHANGED <<pod, pe, obs, fx, call, made>>

(* ------------------------------------------------------------------ the node daemon is asked to set up sandbox (n, u) from the record *)
Daemon(t, n, u, ok) ==
    /\ Adv(t)
    /\ G("C10", ok => pe[n].ex /\ ~pe[n].del /\ pe[n].phase = "Bind" /\ pe[n].uid = u)
    /\ UNCHANGED <<pod, pe, eni, obs, fx, call, made>>

(* ------------------------------------------------------------------ quiescent observation: no faults, both controllers ran until nothing changed *)
Quiescent(t) ==
    /\ Adv(t) /\ \A c \in Calls : ~call[c].open                                                          \* (I)
    /\ G("C10", \A n \in Names : pe[n].ex /\ ~HasFixed(pe[n]) => Live(n))                                \* pod without fixed IP deleted => record gone ...
    /\ G("C10", \A e \in made : eni[e].ex => Referenced(e))                                              \* ... and no interface without a record
    /\ G("C11", \A n \in Names : fx[n] # {} /\ pod[n].ex /\ pod[n].run /\ ~pod[n].term /\ pod[n].fixed =>   \* recreated fixed-IP pod has its interfaces back
            /\ pe[n].ex /\ FixedOf(pe[n]) = fx[n] /\ pe[n].uid = pod[n].uid /\ Eff(pe[n]) = "Bind"
            /\ \A e \in AllocEnis(pe[n]) : eni[e].ex /\ eni[e].st = "InUse" /\ eni[e].inst = pod[n].node)
    /\ UNCHANGED <<pod, pe, eni, obs, fx, call, made>>

-----------------------------------------------------------------------------
(* State invariants: theorems of the guarded specification, evaluated in every state of a validated trace *)
NoUnrecorded == \A e \in made : eni[e].ex => Referenced(e) \/ \E c \in Calls : call[c].open /\ call[c].who = "pc" /\ e \in call[c].new
FixedKept    == \A n \in Names : fx[n] # {} => pe[n].ex /\ FixedOf(pe[n]) = fx[n]
=============================================================================
