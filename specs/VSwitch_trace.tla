--------------------------- MODULE VSwitch_trace ---------------------------
(* Trace validation for the sequential runs of the real SwitchPool (fake clock, fake VPC). *)
(* Every field of a GetOne call is logged, so the check is a linear walk.                  *)
EXTENDS VSwitch, Json, IOUtils, TLCExt

Log == ndJsonDeserialize(IOEnv.VERIF_TRACE)
VARIABLE l

IsEv(k) == l <= Len(Log) /\ Log[l].ev = k /\ l' = l + 1
ToCloud(c) == [id \in Ids |-> IF c[id].free < 0 THEN Gone ELSE [zone |-> c[id].zone, free |-> c[id].free]]

TReset == /\ IsEv("reset")
          /\ cloud' = ToCloud(Log[l].cloud)
          /\ cache' = [id \in Ids |-> None] /\ now' = 0 /\ blockedUntil' = [id \in Ids |-> -1]
          /\ last' = [res |-> "none", ids |-> <<>>, zone |-> "", pol |-> "", ign |-> FALSE, rz |-> "", rf |-> -1, tog |-> 0]
TGetOne == /\ IsEv("getone")
           /\ LET e == Log[l] IN GetOne(e.zone, e.ids, e.pol, e.ign, Range(e.described), e.res, e.after)
TBlock == IsEv("block") /\ Block(Log[l].id)
TTick == IsEv("tick") /\ Tick
TCloudSet == IsEv("cloudset") /\ LET e == Log[l] IN CloudSet(e.id, IF e.free < 0 THEN Gone ELSE [zone |-> e.zone, free |-> e.free])

TCloudInit == { [id \in Ids |-> Gone] }
TInit == Init /\ l = 1
TNext == TReset \/ TGetOne \/ TBlock \/ TTick \/ TCloudSet
TSpec == TInit /\ [][TNext]_<<vars, l>>

HighWater == IF l > TLCGet(1) THEN TLCSet(1, l) ELSE TRUE
ASSUME TLCSet(1, 0)
PropInv == ChosenFromCandidates /\ ZoneRespected /\ HasFree
NotAccepted == ~(l > Len(Log))
Report == PrintT(<<"HIGHWATER", TLCGet(1)>>)
=============================================================================
