INIT GInit
NEXT GNext
CONSTANTS
  Ids = {"v1", "v2", "v3", "v4"}
  Zones = {"a", "b"}
  FreeVals = {0, 1, 5}
  TTL = 2
  MaxT = 6
  IdSeqs <- GIdSeqs
  DriftOn = TRUE
  CloudInit <- GClouds
  Policies = {"ordered", "random", "most", ""}
  MaxLen = 25
CHECK_DEADLOCK FALSE
