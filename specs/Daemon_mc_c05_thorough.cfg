SPECIFICATION MCSpec
CONSTANTS
  Pods = {1, 2}
  Rpcs = {1, 2}
  Enis = {1, 2}
  Cids = {1, 2}
  Enforce = {"C04", "C05", "C09"}
  MaxLen = 0
  GenOn = FALSE
  Fam = "c05"
  MaxKill = 1
  MaxDetach = 1
  MaxEnv = 0
  NPS = 1
  MaxDbf = 1
  MaxFail = 0
INVARIANTS AckedExclusive AckedOnDisk OneWriter GcAlone
VIEW MCView
CHECK_DEADLOCK FALSE
