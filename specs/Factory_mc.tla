----------------------------- MODULE Factory_mc -----------------------------
(* Bounded closure of Factory.tla for TLC: an abstract factory that may send any OpenAPI request its call    *)
(* implies (C06 guards) and return any result the guards allow, on top of an abstract cloud that answers      *)
(* ok / refuses / loses the reply, remembers ClientTokens, attaches and detaches with a lag, and a metadata    *)
(* view that catches up whenever it likes.  Used (a) exhaustively: the guarded steps imply NoOrphan and       *)
(* HandedBacked and are jointly satisfiable, (b) in simulation mode as scenario generator: hist records what  *)
(* the Go driver controls (which call with which arguments, the outcome of every request, the lags).          *)
EXTENDS Factory, Json, IOUtils

CONSTANTS A4, A6, Vsws, Toks, MaxHttp, MaxFaults, MaxCalls, V6On, GenOn, MaxLen
VARIABLES hist,     \* scenario so far (GenOn only)
          ph,       \* ph[c]: <<action, outcome>> of the requests of the call in slot c (GenOn only)
          stim,     \* stim[c]: the driver's view of the call in slot c (GenOn only)
          nhttp,    \* nhttp[c]: requests of the call in slot c so far
          nfault,   \* faults injected so far
          ncall,    \* calls made so far
          targs     \* what each ClientToken was first used for: set of [t, act, e, n4, n6, vsw, type]

mcvars == <<hist, ph, stim, nhttp, nfault, ncall, targs>>

Min(S) == CHOOSE x \in S : \A y \in S : x <= y
RECURSIVE Sorted(_)
Sorted(S) == IF S = {} THEN <<>> ELSE <<Min(S)>> \o Sorted(S \ {Min(S)})
FirstN(S, n) == { x \in S : Cardinality({ y \in S : y < x }) < n }
Live == { e \in Enis : cloud[e].st # "none" }
Rank(e) == Cardinality({ x \in Live : x < e })
Sec(e, f) == IF f = 4 THEN cloud[e].v4 \ {cloud[e].primary} ELSE cloud[e].v6
IdxOf(e, f, S) == [i \in 1..Cardinality(S) |-> Cardinality({ y \in Sec(e, f) : y < Sorted(S)[i] })]
ZeroRec == [e |-> 0, mac |-> 0, trunk |-> FALSE, erdma |-> FALSE, primary |-> 0, vsw |-> 0, cidr4 |-> 0, cidr6 |-> 0, gw4 |-> 0, gw6 |-> 0]
Desc(e, v6) == LET x == cloud[e] IN
               [e |-> e, mac |-> e, trunk |-> x.type = "Trunk", erdma |-> x.rdma, primary |-> x.primary, vsw |-> x.vsw,
                cidr4 |-> x.vsw, cidr6 |-> IF v6 THEN x.vsw ELSE 0, gw4 |-> x.vsw, gw6 |-> IF v6 THEN x.vsw ELSE 0]
Fams == IF V6On THEN {4, 6} ELSE {4}

(* the run starts with one interface attached and visible (two addresses), everything else free *)
MCCloud == [e \in Enis |-> IF e = 1 THEN [st |-> "InUse", inst |-> 1, type |-> "Secondary", rdma |-> FALSE, vsw |-> 1, primary |-> 1,
                                          v4 |-> {1, 2}, v6 |-> IF V6On THEN {1} ELSE {}, tagged |-> TRUE]
                           ELSE NoEni]
MCMeta == [e \in Enis |-> View(MCCloud[e])]
MCInit == /\ Init /\ hist = <<>> /\ ph = [c \in Slots |-> <<>>] /\ stim = [c \in Slots |-> <<>>]
          /\ nhttp = [c \in Slots |-> 0] /\ nfault = 0 /\ ncall = 0 /\ targs = {}
MCStart == /\ Live = {} /\ Reset([v4 |-> TRUE, v6 |-> V6On, tagf |-> TRUE], MCCloud, MCMeta) /\ UNCHANGED mcvars

H(x) == hist' = IF GenOn THEN Append(hist, x) ELSE hist
Lag == {0, 1, 1000}      \* 1000: never during the call

(* ------------------------------------------------------------------ the pool calls *)
MCCall ==
  \E c \in Slots : calls[c].k = "idle" /\ ncall < MaxCalls /\ ncall' = ncall + 1 /\ nhttp' = [nhttp EXCEPT ![c] = 0]
    /\ ph' = [ph EXCEPT ![c] = <<>>] /\ UNCHANGED <<hist, nfault, targs>>
    /\ \E ml \in (IF GenOn THEN Lag ELSE {0}), al \in (IF GenOn THEN Lag ELSE {0}), dl \in (IF GenOn THEN {0, 1} ELSE {0}) :
       LET S(k, ei, fam, n4, n6, type, idx) ==
             stim' = [stim EXCEPT ![c] = IF GenOn THEN [a |-> "call", c |-> c, k |-> k, ei |-> ei, ghost |-> 0, fam |-> fam, n4 |-> n4, n6 |-> n6,
                                                         type |-> type, idx |-> idx, stale |-> 0, mlag |-> ml, alag |-> al, dlag |-> dl, trunk |-> 0, plan |-> <<>>]
                                         ELSE <<>>]
       IN
       \/ \E n4 \in 1..2, n6 \in (IF V6On THEN {0, 1} ELSE {0}), type \in {"secondary", "trunk"} :
             Call(c, "create", 0, 4, n4, n6, type, {}) /\ S("create", 0, 4, n4, n6, type, <<>>)
       \/ \E e \in Live, f \in Fams, n \in 1..2 :
             Call(c, "assign", e, f, IF f = 4 THEN n ELSE 0, IF f = 6 THEN n ELSE 0, "", {})
             /\ S("assign", Rank(e), f, IF f = 4 THEN n ELSE 0, IF f = 6 THEN n ELSE 0, "", <<>>)
       \/ \E e \in Live, f \in Fams : \E A \in SUBSET Sec(e, f) : A # {} /\ Cardinality(A) <= 2
             /\ Call(c, "unassign", e, f, 0, 0, "", A) /\ S("unassign", Rank(e), f, 0, 0, "", IdxOf(e, f, A))
       \/ \E e \in Live : Call(c, "delete", e, 4, 0, 0, "", {}) /\ S("delete", Rank(e), 4, 0, 0, "", <<>>)
       \/ \E e \in Live : Call(c, "load", e, 4, 0, 0, "", {}) /\ S("load", Rank(e), 4, 0, 0, "", <<>>)
       \/ Call(c, "attached", 0, 4, 0, 0, "", {}) /\ S("attached", 0, 4, 0, 0, "", <<>>)

(* ------------------------------------------------------------------ the abstract factory sends a request, the abstract cloud answers *)
NoH == [c |-> 0, act |-> "", tok |-> 0, e |-> 0, inst |-> 0, n4 |-> 0, n6 |-> 0, addrs |-> {}, vsw |-> 0, type |-> "", rdma |-> FALSE,
        out |-> "ok", code |-> "", eff |-> FALSE, re |-> 0, rp |-> 0, tagged |-> FALSE, r4 |-> {}, r6 |-> {}]
FreeA(U, f) == U \ UsedA(f)
FreshTok == IF \E t \in Toks : \A x \in targs : x.t # t THEN Min({ t \in Toks : \A x \in targs : x.t # t }) ELSE 0
Args(h) == [act |-> h.act, e |-> h.e, n4 |-> h.n4, n6 |-> h.n6, vsw |-> h.vsw, type |-> h.type]
TokFor(h) == {FreshTok} \cup { x.t : x \in { y \in targs : [act |-> y.act, e |-> y.e, n4 |-> y.n4, n6 |-> y.n6, vsw |-> y.vsw, type |-> y.type] = Args(h) } }

(* requests a call may send (arguments as the C06 guards demand; the request is judged by Http anyway) *)
Requests(c) ==
  LET cl == calls[c] IN
  CASE cl.k = "create" ->
         { [NoH EXCEPT !.c = c, !.act = "CreateNetworkInterface", !.n4 = cl.n4, !.n6 = cl.n6, !.vsw = v,
                       !.type = IF cl.type = "trunk" THEN "Trunk" ELSE "Secondary", !.tagged = TRUE] : v \in Vsws \ cl.blk }
         \cup { [NoH EXCEPT !.c = c, !.act = "AttachNetworkInterface", !.e = e, !.inst = 1] : e \in cl.tE }
         \cup { [NoH EXCEPT !.c = c, !.act = "DescribeNetworkInterfaces"] }
    [] cl.k = "assign" ->
         { [NoH EXCEPT !.c = c, !.act = AssignAct(cl.fam), !.e = cl.e, !.n4 = cl.n4, !.n6 = cl.n6] }
    [] cl.k = "unassign" ->
         { [NoH EXCEPT !.c = c, !.act = IF cl.fam = 4 THEN "UnassignPrivateIpAddresses" ELSE "UnassignIpv6Addresses", !.e = cl.e, !.addrs = cl.addrs] }
    [] cl.k = "delete" ->
         { [NoH EXCEPT !.c = c, !.act = a, !.e = cl.e, !.inst = IF a = "DetachNetworkInterface" THEN 1 ELSE 0] : a \in {"DetachNetworkInterface", "DeleteNetworkInterface"} }
    [] cl.k = "attached" -> { [NoH EXCEPT !.c = c, !.act = "DescribeNetworkInterfaces"] }
    [] OTHER -> {}

Creating(a) == a \in {"CreateNetworkInterface", "AssignPrivateIpAddresses", "AssignIpv6Addresses"}

(* the cloud's answer to request q carrying token t; out in ok | lost | err *)
Answer(q, t, out, code) ==
  LET x == C(q.e)
      fam == IF q.act \in {"AssignIpv6Addresses", "UnassignIpv6Addresses"} THEN 6 ELSE 4
      n == IF fam = 4 THEN q.n4 ELSE q.n6
      U == IF fam = 4 THEN A4 ELSE A6
      replay == t # 0 /\ \E m \in memo : m.t = t
      mm == CHOOSE m \in memo : m.t = t
      h0 == [q EXCEPT !.tok = t, !.out = out, !.code = code]
  IN
  IF out = "err" THEN {h0}
  ELSE CASE q.act = "CreateNetworkInterface" ->
              IF replay THEN {[h0 EXCEPT !.re = mm.e, !.rp = cloud[mm.e].primary, !.r4 = cloud[mm.e].v4, !.r6 = cloud[mm.e].v6]}
              ELSE IF Enis \ Live = {} \/ Cardinality(FreeA(A4, 4)) < q.n4 \/ Cardinality(FreeA(A6, 6)) < q.n6 THEN {}
              ELSE LET r4 == FirstN(FreeA(A4, 4), q.n4) IN
                   {[h0 EXCEPT !.eff = TRUE, !.re = Min(Enis \ Live), !.rp = Min(r4), !.r4 = r4, !.r6 = FirstN(FreeA(A6, 6), q.n6)]}
         [] Creating(q.act) ->
              IF replay THEN {IF fam = 4 THEN [h0 EXCEPT !.r4 = mm.r] ELSE [h0 EXCEPT !.r6 = mm.r]}
              ELSE IF x.st = "none" THEN {}
              ELSE { IF fam = 4 THEN [h0 EXCEPT !.eff = TRUE, !.r4 = FirstN(FreeA(U, fam), k)] ELSE [h0 EXCEPT !.eff = TRUE, !.r6 = FirstN(FreeA(U, fam), k)]
                     : k \in { j \in 1..n : j <= Cardinality(FreeA(U, fam)) /\ (j = n \/ j = 1) } }            \* all, or a partial grant of one
         [] q.act = "AttachNetworkInterface" -> IF x.st = "Available" THEN {[h0 EXCEPT !.eff = TRUE]} ELSE {}
         [] q.act \in {"UnassignPrivateIpAddresses", "UnassignIpv6Addresses"} ->
              LET g == (Fam(x, fam) \cap q.addrs) \ (IF fam = 4 THEN {x.primary} ELSE {}) IN
              IF g = {} THEN {} ELSE {IF fam = 4 THEN [h0 EXCEPT !.eff = TRUE, !.r4 = g] ELSE [h0 EXCEPT !.eff = TRUE, !.r6 = g]}
         [] q.act = "DetachNetworkInterface" ->
              IF x.st = "none" THEN {} ELSE {[h0 EXCEPT !.eff = x.st \in {"InUse", "Attaching"} /\ x.inst = q.inst]}
         [] q.act = "DeleteNetworkInterface" ->
              IF x.st \in {"none", "Available"} THEN {[h0 EXCEPT !.eff = x.st = "Available"]} ELSE {}
         [] OTHER -> IF out = "ok" THEN {h0} ELSE {}

PlanStr(h) == IF h.out = "err" THEN "eb:" \o h.code ELSE IF h.out = "lost" THEN "lost"
              ELSE IF Creating(h.act) /\ h.act # "CreateNetworkInterface" /\ h.eff /\ Cardinality(h.r4 \cup h.r6) < h.n4 + h.n6 THEN "partial:1" ELSE "ok"

MCHttp ==
  \E c \in Open : nhttp[c] < MaxHttp /\ nhttp' = [nhttp EXCEPT ![c] = @ + 1] /\ UNCHANGED <<hist, stim, ncall>>
    /\ \E q \in Requests(c) : \E t \in (IF Creating(q.act) THEN TokFor(q) ELSE {0}) :
       \E o \in {<<"ok", "">>, <<"lost", "">>, <<"err", "Throttling">>, <<"err", "InvalidVSwitchId.IpNotEnough">>} :
          /\ (o[1] # "ok" => nfault < MaxFaults)
          /\ (o[2] = "InvalidVSwitchId.IpNotEnough" => q.act \in {"CreateNetworkInterface", "AssignPrivateIpAddresses"} /\ ~(\E m \in memo : m.t = t))
          /\ nfault' = IF o[1] # "ok" THEN nfault + 1 ELSE nfault
          /\ \E h \in Answer(q, t, o[1], o[2]) :
               /\ Http(h)
               /\ targs' = IF t = 0 THEN targs ELSE targs \cup {[t |-> t, act |-> q.act, e |-> q.e, n4 |-> q.n4, n6 |-> q.n6, vsw |-> q.vsw, type |-> q.type]}
               /\ ph' = [ph EXCEPT ![c] = IF GenOn THEN Append(@, <<h.act, PlanStr(h)>>) ELSE @]

(* ------------------------------------------------------------------ environment *)
MCEnv ==
  /\ UNCHANGED mcvars
  /\ \/ \E e \in Enis : AttachDone(e)
     \/ \E e \in Enis : DetachDone(e)
     \/ \E e \in Enis : meta[e] # View(cloud[e]) /\ MetaSync(e, View(cloud[e]))
     \/ \E e \in Live, f \in Fams : \E a \in Sec(e, f) : Open = {} /\ rg = {} /\ RemoteRemove(e, f, a)

(* ------------------------------------------------------------------ the abstract factory returns: any result the guards accept *)
Acts == {"CreateNetworkInterface", "AttachNetworkInterface", "DescribeNetworkInterfaces", "AssignPrivateIpAddresses", "AssignIpv6Addresses",
         "UnassignPrivateIpAddresses", "UnassignIpv6Addresses", "DetachNetworkInterface", "DeleteNetworkInterface"}
PlanOf(s) == [a \in Acts |-> LET t == SelectSeq(s, LAMBDA x : x[1] = a) IN [i \in 1..Len(t) |-> t[i][2]]]

MCRet ==
  \E c \in Open : LET cl == calls[c] IN
    /\ UNCHANGED <<stim, nhttp, nfault, ncall, targs>>
    /\ ph' = [ph EXCEPT ![c] = <<>>]
    /\ hist' = IF GenOn THEN Append(hist, [stim[c] EXCEPT !.plan = PlanOf(ph[c])]) ELSE hist
    /\ CASE cl.k = "create" ->
              \/ \E e \in cl.tE : Ret(c, "create", FALSE, Desc(e, cl.n6 > 0), cloud[e].v4, cloud[e].v6, {})
              \/ \E e \in cl.tE : Ret(c, "create", TRUE, Desc(e, FALSE), {}, {}, {})
              \/ Ret(c, "create", TRUE, ZeroRec, {}, {}, {})
         [] cl.k = "assign" ->
              LET told == { t[3] : t \in { u \in cl.tA : u[1] = cl.e /\ u[2] = cl.fam } } IN
              \E err \in BOOLEAN : \E got \in {told, {}} :
                 Ret(c, "assign", err, ZeroRec, IF cl.fam = 4 THEN got ELSE {}, IF cl.fam = 6 THEN got ELSE {}, {})
         [] cl.k \in {"unassign", "delete"} -> \E err \in BOOLEAN : Ret(c, cl.k, err, ZeroRec, {}, {}, {})
         [] cl.k = "load" ->
              \/ Ret(c, "load", TRUE, ZeroRec, {}, {}, {})
              \/ \E v4 \in cl.views4, v6 \in cl.views6 : Ret(c, "load", FALSE, ZeroRec, v4, IF conf.v6 THEN v6 ELSE {}, {})
         [] cl.k = "attached" ->
              \/ Ret(c, "attached", TRUE, ZeroRec, {}, {}, {})
              \/ Ret(c, "attached", FALSE, ZeroRec, {}, {},
                     { Desc(e, conf.v6) : e \in { x \in Enis : cloud[x].inst = 1 /\ cloud[x].st = "InUse" /\ meta[x].on /\ cloud[x].tagged } })

Step == MCCall \/ MCHttp \/ MCEnv \/ MCRet

Emit(x) == Serialize(ToJson(x) \o "\n", IOEnv.VERIF_SCEN,
                     [format |-> "TXT", charset |-> "UTF-8", openOptions |-> <<"WRITE", "CREATE", "APPEND">>]).exitValue = 0
ConfStep == [a |-> "conf", conf |-> [v6 |-> V6On, policy |-> "random", tagf |-> TRUE, trunk |-> FALSE, erdma |-> FALSE, slots |-> Cardinality(Slots),
                                     pre |-> <<[inst |-> 1, type |-> "Secondary", rdma |-> FALSE, vsw |-> 1, n4 |-> 2, n6 |-> IF V6On THEN 1 ELSE 0, tagged |-> TRUE]>>,
                                     vsws |-> <<[v |-> 1, free |-> 30], [v |-> 2, free |-> 30]>>]]
Finish == /\ Len(hist) > 0 /\ hist[1].a # "end"
          /\ Emit(<<ConfStep>> \o hist)
          /\ hist' = <<[a |-> "end"]>>
          /\ UNCHANGED <<vars, ph, stim, nhttp, nfault, ncall, targs>>

MCNext == IF Live = {} /\ ncall = 0 THEN MCStart
          ELSE IF GenOn /\ Len(hist) > 0 /\ hist[1].a = "end" THEN UNCHANGED <<vars, mcvars>>
          ELSE IF GenOn /\ (Len(hist) >= MaxLen \/ (ncall >= MaxCalls /\ Open = {})) THEN Finish
          ELSE Step
MCSpec == MCInit /\ [][MCNext]_<<vars, mcvars>>
=============================================================================
