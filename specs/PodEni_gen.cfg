SPECIFICATION MCSpec
CONSTANTS
  Names = {1, 2}
  Enis = {1, 2, 3, 4, 5, 6}
  Calls = {1, 2, 3}
  Enforce = {"C10", "C11"}
  Lenient = TRUE
  Grace = 3
  Slack = 0
  MaxUid = 3
  MaxT = 7
  MaxDepth = 3
  EnvDepth = 3
  Nodes = {1, 2}
  Kinds = {"e", "t", "n"}
  TTL = 2
  MaxLen = 60
  GenOn = TRUE
  StrayOn = TRUE
CHECK_DEADLOCK FALSE
