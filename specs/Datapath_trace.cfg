\* trace validation (the text props/c13.py uses): VERIF_TRACE=<ndjson> tlc -workers 1 -config Datapath_trace.cfg Datapath_trace.tla
SPECIFICATION TSpec
CONSTANTS
  NsIds = {0, 1, 2, 3}
  Atts = {1, 2, 3, 4, 5, 6}
  Enforce = {"C13"}
CONSTRAINT InvC13
CONSTRAINT HighWater
INVARIANT NotAccepted
POSTCONDITION Report
ALIAS Short
CHECK_DEADLOCK FALSE
