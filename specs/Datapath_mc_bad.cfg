\* one seeded design error (the to-container rule is missing): some guard of Datapath.tla must refuse a step, so the
\* invariant BadRefused holds.  props/c13.py generates one such configuration per name in BAD_DESIGNS.
SPECIFICATION MCSpec
CONSTANTS
  Enforce = {"C13"}
  NsIds = {0, 1, 2}
  Atts = {1, 2, 3, 4}
  MCPods = {1, 2}
  MCDps = {"policy"}
  MCFams = {"dual"}
  MCTrunk = {FALSE}
  MCExtra = {1}
  MCMulti = {FALSE}
  MCHow = {"cni"}
  MCSteal = FALSE
  MCEniGone = FALSE
  MCEnis = {1}
  BadDesign = "no_to_pod_rule"
  GenLen = 0
  GenOn = FALSE
INVARIANT BadRefused
CHECK_DEADLOCK FALSE
