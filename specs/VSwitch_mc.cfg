SPECIFICATION Spec
CONSTANTS
  Ids = {"v1", "v2", "v3"}
  Zones = {"a", "b"}
  FreeVals = {0, 1, 5}
  TTL = 1
  MaxT = 2
  IdSeqs <- MCIdSeqs
  DriftOn = FALSE
  CloudInit <- MCClouds
  Policies = {"ordered", "random", "most"}
INVARIANTS ChosenFromCandidates ZoneRespected HasFree CanSelect
PROPERTIES BlockedNotChosen
CHECK_DEADLOCK FALSE
