--------------------------- MODULE NodePool_trace ---------------------------
(* Trace validation of recorded executions of the real pool (pkg/eni Manager + Local on a fake *)
(* cloud) against NodePool.tla.  Every observable step is logged with its arguments, so the    *)
(* walk is linear.  Lines the specification has no action for (cancel, balancer call/return,   *)
(* release return) are consumed without a state change.                                         *)
EXTENDS NodePool, Json, IOUtils, TLCExt

Log == ndJsonDeserialize(IOEnv.VERIF_TRACE)
VARIABLE l

Rng(s) == { s[i] : i \in 1..Len(s) }
IsEv(k) == l <= Len(Log) /\ Log[l].ev = k /\ l' = l + 1
Skipped == {"cancel", "syncpool_call", "syncpool_ret", "release_ret", "dbg", "cs", "adopt", "restart"}

CloudOf(lst) == [e \in Enis |-> IF \E i \in 1..Len(lst) : lst[i].e = e
                                THEN LET x == lst[CHOOSE i \in 1..Len(lst) : lst[i].e = e] IN
                                     [on |-> TRUE, type |-> x.type, v4 |-> Rng(x.v4), v6 |-> Rng(x.v6), primary |-> x.primary]
                                ELSE NoEni]
ConfOf(c) == [cap |-> c.cap, maxEni |-> c.maxEni, v4 |-> c.v4, v6 |-> c.v6, minIdle |-> c.minIdle, maxIdle |-> c.maxIdle, total |-> c.total]

TReset    == IsEv("reset") /\ Reset(ConfOf(Log[l].conf), CloudOf(Log[l].cloud))
TSkip     == l <= Len(Log) /\ Log[l].ev \in Skipped /\ l' = l + 1 /\ UNCHANGED vars
TAllocC   == IsEv("alloc_call") /\ AllocCall(Log[l].r, Log[l].pod)
TAllocR   == IsEv("alloc_ret") /\ LET e == Log[l] IN AllocRet(e.r, e.ok, e.e, e.a4, e.a6)
TRelease  == IsEv("release_call") /\ LET e == Log[l] IN ReleaseCall(e.pod, e.e, e.a4, e.a6)
TCreateB  == IsEv("create_begin") /\ LET e == Log[l] IN CreateBegin(e.n4, e.n6, e.type)
TCreateE  == IsEv("create_end") /\ LET e == Log[l] IN CreateEnd(e.e, e.type, e.primary, Rng(e.v4), Rng(e.v6))
TAssignB  == IsEv("assign_begin") /\ LET e == Log[l] IN AssignBegin(e.e, e.fam, e.n)
TAssignE  == IsEv("assign_end") /\ LET e == Log[l] IN AssignEnd(e.e, e.fam, Rng(e.addrs))
TUnassB   == IsEv("unassign_begin") /\ LET e == Log[l] IN UnassignBegin(e.e, e.fam, Rng(e.addrs))
TUnassE   == IsEv("unassign_end") /\ LET e == Log[l] IN UnassignEnd(e.e, e.fam, e.effect)
TDeleteB  == IsEv("delete_begin") /\ DeleteBegin(Log[l].e)
TDeleteE  == IsEv("delete_end") /\ DeleteEnd(Log[l].e, Log[l].effect)
TLoad     == IsEv("load") /\ Load(Log[l].e)
TRemove   == IsEv("remote_remove") /\ LET e == Log[l] IN RemoteRemove(e.e, e.fam, e.a)
TQuiesce  == IsEv("quiescent") /\ cloud = CloudOf(Log[l].cloud) /\ Quiescent(Log[l].st, Log[l].healthy)

TInit == Init /\ l = 1
TNext == TReset \/ TSkip \/ TAllocC \/ TAllocR \/ TRelease \/ TCreateB \/ TCreateE \/ TAssignB \/ TAssignE
         \/ TUnassB \/ TUnassE \/ TDeleteB \/ TDeleteE \/ TLoad \/ TRemove \/ TQuiesce
TSpec == TInit /\ [][TNext]_<<vars, l>>

HighWater == IF l > TLCGet(1) THEN TLCSet(1, l) ELSE TRUE
ASSUME TLCSet(1, 0)
InvC01 == Exclusive
InvC06 == HeldBacked /\ HeldNotUnassigned /\ QuotaAddr /\ QuotaEni
InvC07 == TRUE
NotAccepted == ~(l > Len(Log))
Report == PrintT(<<"HIGHWATER", TLCGet(1)>>)
=============================================================================
