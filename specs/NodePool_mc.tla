----------------------------- MODULE NodePool_mc -----------------------------
(* Bounded closure of NodePool.tla for TLC: an abstract pool that may take any observable step   *)
(* the guards allow.  Used (a) exhaustively, to check that the guarded steps imply the state      *)
(* invariants (Exclusive, HeldBacked, quotas) and are jointly satisfiable, and (b) in simulation  *)
(* mode as scenario generator: hist records the steps the Go driver can control.                  *)
EXTENDS NodePool, Json, IOUtils

CONSTANTS MCCap, MCMaxEni, MCV6, MaxLen, GenOn
VARIABLE hist

MCConf == [cap |-> MCCap, maxEni |-> MCMaxEni, v4 |-> TRUE, v6 |-> MCV6, minIdle |-> 0, maxIdle |-> 1, total |-> MCCap * MCMaxEni]
MCInit == /\ Init /\ hist = <<>>
MCStart == /\ conf.cap = 0 /\ Reset(MCConf, cloud) /\ hist' = hist

FreeA(S) == S \ UsedAddrs
Min(S) == CHOOSE x \in S : \A y \in S : x <= y
NextReq == IF \E r \in Reqs : req[r].st = "none" THEN Min({ r \in Reqs : req[r].st = "none" }) ELSE 0
H(x) == hist' = IF GenOn THEN Append(hist, x) ELSE hist

Step ==
  \/ \E p \in Pods : NextReq # 0 /\ (\A r \in OpenReqs : req[r].pod # p) /\ AllocCall(NextReq, p) /\ H([a |-> "alloc", p |-> p, pin |-> FALSE])
  \/ \E r \in OpenReqs :
        \/ \E x \in req[r].ok : \E y \in {<<0, 0>>} \cup { z \in req[r].ok : z[1] = x[1] /\ z[2] \in A6 } :
              /\ x[2] \in A4 /\ (y[2] # 0) = conf.v6
              /\ AllocRet(r, TRUE, x[1], x[2], y[2]) /\ H([a |-> "settle"])
        \/ held[req[r].pod] # NoHold /\ AllocRet(r, TRUE, held[req[r].pod].eni, held[req[r].pod].v4, held[req[r].pod].v6) /\ H([a |-> "settle"])
        \/ AllocRet(r, FALSE, 0, 0, 0) /\ H([a |-> "cancel", p |-> req[r].pod])
  \/ \E p \in Pods : held[p] # NoHold /\ (\A r \in OpenReqs : req[r].pod # p)
                     /\ ReleaseCall(p, held[p].eni, held[p].v4, held[p].v6) /\ H([a |-> "release", p |-> p])
  \/ \E n4 \in 1..2, n6 \in {0, 1} : (n6 > 0) = conf.v6 /\ CreateBegin(n4, n6, "secondary") /\ H([a |-> "wait", ms |-> 100])
  \/ \E o \in ops : o.k = "create" /\
        \/ CreateEnd(0, "", 0, {}, {}) /\ H([a |-> "plan", outcomes |-> <<"fb:vswfull">>])
        \/ /\ \E e \in Enis : ~cloud[e].on
           /\ Cardinality(FreeA(A4)) >= o.n
           /\ LET e  == Min({ x \in Enis : ~cloud[x].on })
                  s4 == CHOOSE S \in SUBSET FreeA(A4) : Cardinality(S) = o.n
                  s6 == IF conf.v6 /\ FreeA(A6) # {} THEN {Min(FreeA(A6))} ELSE {}
              IN CreateEnd(e, "secondary", Min(s4), s4, s6) /\ H([a |-> "plan", outcomes |-> <<"ok">>])
  \/ \E e \in Attached, f \in {4, 6}, n \in 1..2 : (f = 6 => conf.v6) /\ (\A o \in ops : ~(o.k \in {"assign", "delete"} /\ o.e = e))
              /\ AssignBegin(e, f, n) /\ H([a |-> "wait", ms |-> 100])
  \/ \E o \in ops : o.k = "assign" /\
        \E k \in 0..o.n : LET U == IF o.fam = 4 THEN A4 ELSE A6 IN
              /\ Cardinality(FreeA(U)) >= k
              /\ AssignEnd(o.e, o.fam, CHOOSE S \in SUBSET FreeA(U) : Cardinality(S) = k)
              /\ H([a |-> "plan", outcomes |-> <<IF k = o.n THEN "ok" ELSE IF k = 0 THEN "fb:ipquota" ELSE "partial:1">>])
  \/ \E e \in Attached, f \in {4, 6} : \E S \in SUBSET (Fam(e, f) \ {cloud[e].primary}) :
              S # {} /\ (\A o \in ops : ~(o.k \in {"unassign", "delete"} /\ o.e = e)) /\ UnassignBegin(e, f, S) /\ H([a |-> "syncpool"])
  \/ \E o \in ops : o.k = "unassign" /\ \E eff \in BOOLEAN : UnassignEnd(o.e, o.fam, eff) /\ H([a |-> "plan", outcomes |-> <<IF eff THEN "ok" ELSE "fb">>])
  \/ \E e \in Attached : (\A o \in ops : o.e # e) /\ DeleteBegin(e) /\ H([a |-> "syncpool"])
  \/ \E o \in ops : o.k = "delete" /\ \E eff \in BOOLEAN : DeleteEnd(o.e, eff) /\ H([a |-> "plan", outcomes |-> <<IF eff THEN "ok" ELSE "fb">>])
  \/ \E e \in Attached : Load(e) /\ rr # {} /\ H([a |-> "sync", slot |-> e])
  \/ \E e \in Attached, f \in {4, 6} : \E a \in Fam(e, f) : RemoteRemove(e, f, a) /\ Cardinality(rg) < 2 /\ H([a |-> "remove", k |-> e - 1, j |-> 0, fam |-> f])

Emit(h) == Serialize(ToJson(h) \o "\n", IOEnv.VERIF_SCEN,
                     [format |-> "TXT", charset |-> "UTF-8", openOptions |-> <<"WRITE", "CREATE", "APPEND">>]).exitValue = 0
ConfStep == [a |-> "conf", conf |-> [cap |-> MCCap + 1, batch |-> 2, slots |-> MCMaxEni, v4 |-> TRUE, v6 |-> MCV6, pre |-> 0,
                                     trunk |-> FALSE, policy |-> "most_ips", minIdle |-> 0, maxIdle |-> 1]]
Finish == /\ Len(hist) > 0 /\ hist[1].a # "end"
          /\ Emit(<<ConfStep>> \o hist)
          /\ hist' = <<[a |-> "end"]>>
          /\ UNCHANGED vars

MCNext == IF conf.cap = 0 THEN MCStart
          ELSE IF GenOn /\ Len(hist) >= MaxLen THEN Finish
          ELSE IF GenOn /\ Len(hist) > 0 /\ hist[1].a = "end" THEN UNCHANGED <<vars, hist>>
          ELSE Step
MCSpec == MCInit /\ [][MCNext]_<<vars, hist>>
=============================================================================
