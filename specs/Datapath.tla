------------------------------ MODULE Datapath ------------------------------
(* C13 -- the programmed datapath routes pod traffic as intended and is fully removed.          *)
(*                                                                                              *)
(* State: the network namespaces of a node (ns[0] = host, ns[p] = pod p), as Fib.tla records;   *)
(* live[a] = the SetupConfig of attachment a (one container interface of one pod) once its      *)
(* Setup succeeded; owned[a] = the rules, routes and links Setup(a) created in the host         *)
(* namespace that mention the pod's address or the pod's host-side link.  (What an earlier      *)
(* holder of the address left behind and Setup merely found in place is not the pod's: the      *)
(* exclusive-ENI datapath, for one, has no means to remove a veth pod's stale rules.)           *)
(*                                                                                              *)
(* Setup / Teardown have no effect of their own in this specification: the effect is whatever   *)
(* the implementation produced (a list of per-link configurations at level 1, the kernel's      *)
(* state at level 2), bound from the trace.  Every conjunct is an interface fact (I) or a       *)
(* clause of C13, G("C13", ..).  The clauses are collected by name (Viol.. operators return the *)
(* set of violated clause names) so that a rejection can say which sentence failed.             *)
(*                                                                                              *)
(* Readings (lenient wherever the sentence leaves room; the strict cases are noted):            *)
(*  * "delivers traffic for the pod's address to the pod's interface":                          *)
(*      - inside the pod the container interface carries the address;                           *)
(*      - policy-route veth: in the host namespace every lookup for the address (locally        *)
(*        generated, forwarded from the ENI, forwarded from another policy-route pod's veth)    *)
(*        ends, directly connected, at the pod's host-side veth, which is the peer of the       *)
(*        container interface;                                                                  *)
(*      - exclusive ENI with host peer, ipvlan: the locally generated lookup ends at the host   *)
(*        peer / the ipvl_<n> slave of the parent; vlan and peer-less exclusive ENI have no     *)
(*        host-side path (nothing is required there).                                           *)
(*  * "sends traffic sourced from the pod out of the interface that owns the address via that   *)
(*    interface's gateway":                                                                     *)
(*      - inside the pod (when the interface has the default route or the pod is multi-network) *)
(*        a packet from the interface's address to an outside destination leaves through that   *)
(*        interface; the next hop is the configured gateway -- for the veth datapath the        *)
(*        link-local stub 169.254.1.1 / fe80::1 is accepted as well (the pod's gateway there is *)
(*        the host end of the veth), and when the stub is the next hop it must be resolvable:   *)
(*        owned by the host end or a permanent neighbour with the host end's MAC;               *)
(*      - policy-route veth, host namespace: a packet from the pod's address entering on the    *)
(*        pod's veth leaves through the ENI of the configuration via that ENI's gateway (for a  *)
(*        trunk member: the trunk ENI's gateway, ENIGatewayIP -- strict, it is "that            *)
(*        interface's gateway").                                                                *)
(*  * "exactly one default route per enabled family": the interface has exactly one main-table  *)
(*    default route per enabled family iff DefaultRoute is set, none otherwise, and the pod's   *)
(*    namespace never has two for one family.                                                   *)
(*  * "creates nothing for a disabled family": nothing Setup writes (addresses, routes,         *)
(*    neighbours, rules with an address selector, IPv6 sysctls) belongs to a family the pod has *)
(*    no address of.  Lenient: a rule without any address selector ("oif ethN lookup T") is     *)
(*    family-neutral; what the kernel creates by itself (proto kernel routes, link-scope        *)
(*    addresses, multicast/local table entries) is not Setup's.                                 *)
(*  * "Teardown removes every pod-specific rule, route and link that setup created in the host  *)
(*    namespace and nothing that belongs to another pod": owned[a] is gone afterwards; owned[b] *)
(*    of every other live attachment is still there and b's delivery clauses still hold.        *)
(*    Per-ENI state shared by the pods of an ENI (table 1000+ifindex default route, gateway     *)
(*    host route, addresses on the ENI) is not pod-specific.                                    *)
(*  * The plugin's fallback DEL (daemon has no allocation record: utils.GenericTearDown only)   *)
(*    is a teardown variant of its own, TeardownGeneric: it need not remove the pod's rules and *)
(*    routes.  What it leaves behind stays in ns (nobody's), and a later Setup -- of a pod that  *)
(*    is given the same address, on the same or on another ENI -- must satisfy every Setup      *)
(*    clause in spite of it.                                                                    *)
(*  * An ENI may vanish from the node (detached / unplugged) while pods still use it: EniGone.  *)
(*    From then on nothing is promised about traffic of those pods through it (c.enigone), but  *)
(*    their Teardown -- which then runs without an ENI index -- still has to remove every       *)
(*    pod-specific rule, route and link and to leave the other pods alone.                      *)
(*  * A pod may be given an address whose previous holder was never torn down (DEL lost or     *)
(*    late): the previous holder's attachment is then superseded -- nothing is promised about   *)
(*    it any more -- and every Setup clause must hold for the new pod although the old pod's    *)
(*    link, route and rules are still there, and must keep holding when the old pod's late      *)
(*    (fallback) DEL finally runs.                                                              *)
(*  * A Setup that returns an error promises nothing for that attachment; it must still leave   *)
(*    the other pods alone.                                                                     *)
EXTENDS Fib, SequencesExt

CONSTANTS Enforce,      \* property ids whose clauses are enforced
          NsIds,        \* namespace ids, 0 = host
          Atts          \* attachment ids

VARIABLES ns, live, owned
vars == <<ns, live, owned>>

G(p, c) == IF p \in Enforce THEN c ELSE TRUE
(* a violated clause set blocks the step and says which clauses failed *)
Judge(V) == IF V = {} THEN TRUE ELSE PrintT(<<"C13BAD", V>>) /\ FALSE

NoAtt == [dp |-> "none"]
(* (I) attachment ids encode the pod: pod p has attachments 2p-1 (eth0) and 2p (eth1) *)
PodOfAtt(a) == ((a - 1) \div 2) + 1
IsLive(L, a) == L[a].dp # "none"
(* an attachment still has to be torn down (IsLive) but nothing is promised about it any more once its address was handed to *)
(* another pod (superseded): the pod behind it is gone, only its late DEL is still to come                                   *)
Active(L, a) == IsLive(L, a) /\ ~L[a].superseded

Ext(f) == IF f = 4 THEN <<203, 0, 113, 77>> ELSE <<32, 1, 13, 184, 255, 255, 0, 0, 0, 0, 0, 0, 0, 0, 0, 119>>
LinkIP(f) == IF f = 4 THEN <<169, 254, 1, 1>> ELSE <<254, 128, 0, 0, 0, 0, 0, 0, 0, 0, 0, 0, 0, 0, 0, 1>>

IPof(c, f) == IF f = 4 THEN c.ip4 ELSE c.ip6
GWof(c, f) == IF f = 4 THEN c.gw4 ELSE c.gw6
EGWof(c, f) == IF f = 4 THEN c.egw4 ELSE c.egw6
Fams(c) == { f \in {4, 6} : IPof(c, f) # <<>> }
Pkt(src, dst, iif) == [src |-> src, dst |-> dst, iif |-> iif, oif |-> ""]

(* ---------------------------------------------------------------- elements of a namespace: rules, routes, links *)
Elems(s) == { [k |-> "link", v |-> l] : l \in s.links }
            \cup { [k |-> "route", v |-> r] : r \in { x \in s.routes : x.proto # "kernel" } }
            \cup { [k |-> "rule", v |-> r] : r \in { x \in s.rules : x.proto # "kernel" } }

PodAddrs(c) == { Host(IPof(c, f)) : f \in Fams(c) }
HostLinks(c) == IF c.dp = "vlan" \/ c.hostveth = "" THEN {} ELSE {c.hostveth}
Mentions(x, c) ==
    CASE x.k = "link"  -> x.v.name \in HostLinks(c)
      [] x.k = "route" -> x.v.dev \in HostLinks(c) \/ x.v.dst \in PodAddrs(c)
      [] x.k = "rule"  -> x.v.src \in PodAddrs(c) \/ x.v.dst \in PodAddrs(c)

(* ---------------------------------------------------------------- clauses about one live attachment c in namespaces S *)
(* the veth datapath's in-pod gateway is a link-local stub nobody owns by default: a packet only leaves the pod if the host *)
(* end of the veth carries that address (and answers ARP/ND) or the pod has a permanent neighbour entry for it with the    *)
(* host end's MAC                                                                                                          *)
StubResolvable(S, c, f) ==
    \/ \E a \in S[0].addrs : a.dev = c.hostveth /\ a.ip = LinkIP(f)
    \/ \E n \in S[c.pod].neighs : n.dev = c.ifname /\ n.ip = LinkIP(f) /\ \E l \in S[0].links : l.name = c.hostveth /\ l.mac = n.mac
ViolInPod(S, c) ==
    LET C == S[c.pod] IN
    (IF \A f \in Fams(c) : \E a \in C.addrs : a.dev = c.ifname /\ a.ip = IPof(c, f) THEN {} ELSE {"pod_interface_lacks_pod_address"})
    \cup (IF (c.defroute \/ c.multi) =>
              \A f \in Fams(c) : \A r \in Lookups(C, Pkt(IPof(c, f), Ext(f), "")) :
                  r.kind = "unicast" /\ r.dev = c.ifname
                  /\ r.gw \in ({GWof(c, f)} \cup (IF c.dp = "policy" THEN {LinkIP(f)} ELSE {}))
          THEN {} ELSE {"from_pod_not_via_own_interface_and_gateway"})
    \cup (IF c.dp = "policy" /\ (c.defroute \/ c.multi) =>
              \A f \in Fams(c) : (\E r \in Lookups(C, Pkt(IPof(c, f), Ext(f), "")) : r.gw = LinkIP(f)) => StubResolvable(S, c, f)
          THEN {} ELSE {"link_local_gateway_not_resolvable"})
    \cup (IF \A f \in {4, 6} :
              /\ Cardinality({ r \in C.routes : r.table = TMain /\ r.dst = Default(f) /\ r.dev = c.ifname })
                    = (IF f \in Fams(c) /\ c.defroute THEN 1 ELSE 0)
              /\ Cardinality({ r \in C.routes : r.table = TMain /\ r.dst = Default(f) }) <= 1
          THEN {} ELSE {"not_exactly_one_default_route_per_enabled_family"})
    \cup (IF \A i \in 1..Len(c.extra) : \A r \in Lookups(C, Pkt(IPof(c, FamOf(c.extra[i].ip)), c.extra[i].ip, "")) :
                  r.kind = "unicast" /\ r.dev = c.ifname
          THEN {} ELSE {"extra_route_not_via_own_interface"})

(* the host-side device traffic for the pod must end at, "" when the datapath has no host-side path *)
HostDev(c) == CASE c.dp = "policy" -> c.hostveth
                [] c.dp = "exclusive" -> IF c.peer /\ c.ifname = "eth0" THEN c.hostveth ELSE ""
                [] c.dp = "ipvlan" -> c.slave
                [] OTHER -> ""
PodPeerName(c) == IF c.dp = "exclusive" THEN "veth1" ELSE c.ifname

ToPkts(S, L, c, f) ==
    {Pkt(<<>>, IPof(c, f), "")}
    \cup (IF c.dp = "policy"
          THEN (IF c.enigone THEN {} ELSE {Pkt(Ext(f), IPof(c, f), c.eni)})
               \cup { Pkt(IPof(L[b], f), IPof(c, f), L[b].hostveth) :
                        b \in { x \in Atts : Active(L, x) /\ L[x].dp = "policy" /\ x # c.att /\ f \in Fams(L[x]) } }
          ELSE {})

ViolHost(S, L, c) ==
    LET H == S[0]  d == HostDev(c) IN
    IF d = "" THEN {}
    ELSE
    (IF \E l \in H.links : l.name = d /\ (c.dp = "ipvlan" \/ \E m \in S[c.pod].links : m.name = PodPeerName(c) /\ l.peer \in {0, m.idx})
     THEN {} ELSE {"host_side_link_missing_or_not_peer_of_pod_interface"})
    \cup (IF \A f \in Fams(c) : \A pk \in ToPkts(S, L, c, f) : \A r \in Lookups(H, pk) :
                  r.kind = "unicast" /\ r.dev = d /\ r.gw = NoGw
          THEN {} ELSE {"to_pod_not_delivered_to_pod_interface"})
    \cup (IF c.dp = "policy" /\ ~c.enigone =>
              \A f \in Fams(c) : \A r \in Lookups(H, Pkt(IPof(c, f), Ext(f), c.hostveth)) :
                  r.kind = "unicast" /\ r.dev = c.eni /\ r.gw = (IF c.strip THEN EGWof(c, f) ELSE GWof(c, f))
          THEN {} ELSE {"from_pod_not_via_owning_eni_and_its_gateway"})

ViolAtt(S, L, c) == ViolInPod(S, c) \cup ViolHost(S, L, c)

(* ---------------------------------------------------------------- nothing for a disabled family *)
ElemFam(x) ==
    CASE x.k = "route" -> FamOf(x.v.dst.ip)
      [] x.k = "rule"  -> IF x.v.src.ip = <<>> /\ x.v.dst.ip = <<>> THEN 0 ELSE x.v.fam
      [] OTHER -> 0
(* what Setup(c) added to the state, kernel-made entries aside *)
NewAddrs(S0, S1, n) == { a \in S1[n].addrs \ S0[n].addrs : a.scope # "link" }
ViolDisabled(S0, S1, c) ==
    IF \A n \in {0, c.pod} :
          /\ \A x \in Elems(S1[n]) \ Elems(S0[n]) : ElemFam(x) \in Fams(c) \cup {0} \/ (x.k = "route" /\ x.v.table = TLocal)
          /\ \A a \in NewAddrs(S0, S1, n) : FamOf(a.ip) \in Fams(c)
          /\ \A x \in S1[n].neighs \ S0[n].neighs : FamOf(x.ip) \in Fams(c)
    THEN {} ELSE {"state_created_for_disabled_family"}

(* ---------------------------------------------------------------- other pods are left alone *)
ViolOthers(S, L, except) ==
    UNION { (IF owned[b] \subseteq Elems(S[0]) THEN {} ELSE {"removed_state_of_another_pod"})
            \cup { "other_pod:" \o v : v \in ViolAtt(S, L, L[b]) }
            : b \in { x \in Atts \ except : Active(L, x) } }

(* ---------------------------------------------------------------- actions *)
Init == /\ ns = [n \in NsIds |-> EmptyNs]
        /\ live = [a \in Atts |-> NoAtt]
        /\ owned = [a \in Atts |-> {}]

Reset(S) == ns' = S /\ live' = [a \in Atts |-> NoAtt] /\ owned' = [a \in Atts |-> {}]      \* (I)

(* (I) environment: the ENI named e vanished from the host namespace, S is the state afterwards *)
EniGone(e, S) ==
    /\ ns' = S
    /\ live' = [a \in Atts |-> IF IsLive(live, a) /\ live[a].eni = e /\ live[a].dp \in {"policy", "ipvlan", "vlan"}
                               THEN [live[a] EXCEPT !.enigone = TRUE] ELSE live[a]]
    /\ owned' = [a \in Atts |-> owned[a] \cap Elems(S[0])]

(* (I) an address has one holder: when Setup(c) is given an address another pod's attachment still carries, that pod is gone *)
(* (its DEL was lost or is late) and its attachment is superseded                                                          *)
Supersede(L, c) ==
    [a \in Atts |-> IF a # c.att /\ IsLive(L, a) /\ L[a].pod # c.pod /\ PodAddrs(L[a]) \cap PodAddrs(c) # {}
                    THEN [L[a] EXCEPT !.superseded = TRUE] ELSE L[a]]
SetupViol(c, S) ==
    LET L == Supersede([live EXCEPT ![c.att] = c], c) IN
    ViolAtt(S, L, c) \cup ViolDisabled(ns, S, c) \cup ViolOthers(S, L, {c.att})

(* Setup(c) succeeded and left the namespaces in state S *)
SetupOk(c, S) ==
    /\ c.att \in Atts /\ c.pod \in NsIds \ {0} /\ PodOfAtt(c.att) = c.pod                        \* (I)
    /\ ns' = S                                                                                  \* (I) bound from the trace
    /\ live' = Supersede([live EXCEPT ![c.att] = c], c)
    /\ owned' = [owned EXCEPT ![c.att] = (@ \cap Elems(S[0])) \cup { x \in Elems(S[0]) \ Elems(ns[0]) : Mentions(x, c) }]
    /\ G("C13", Judge(SetupViol(c, S)))

(* Setup(c) returned an error: no promise for c, the other pods must be intact.  What it created is remembered so that *)
(* a later Teardown has to remove it.                                                                                   *)
SetupFailed(c, S) ==
    /\ c.att \in Atts
    /\ ns' = S
    /\ live' = [live EXCEPT ![c.att] = NoAtt]
    /\ owned' = [owned EXCEPT ![c.att] = (@ \cap Elems(S[0])) \cup { x \in Elems(S[0]) \ Elems(ns[0]) : Mentions(x, c) }]
    /\ G("C13", Judge(ViolOthers(S, live', {c.att})))

AttsOf(p) == { a \in Atts : PodOfAtt(a) = p /\ (IsLive(live, a) \/ owned[a] # {}) }
TeardownViol(p, S, gone) ==
    LET L == [a \in Atts |-> IF a \in gone THEN NoAtt ELSE live[a]] IN
    (IF \A a \in gone : owned[a] \cap Elems(S[0]) = {} THEN {} ELSE {"teardown_left_pod_specific_state"})
    \cup ViolOthers(S, L, gone)

(* Teardown of pod p (all its attachments) succeeded and left the namespaces in state S *)
TeardownOk(p, S, gone) ==
    /\ ns' = S
    /\ live' = [a \in Atts |-> IF a \in gone THEN NoAtt ELSE live[a]]
    /\ owned' = [a \in Atts |-> IF a \in gone THEN {} ELSE owned[a]]
    /\ G("C13", Judge(TeardownViol(p, S, gone)))

(* the fallback DEL (GenericTearDown alone): the pod is gone, its host-side rules / routes may stay behind; the others are intact *)
TeardownGeneric(p, S, gone) ==
    /\ ns' = S
    /\ live' = [a \in Atts |-> IF a \in gone THEN NoAtt ELSE live[a]]
    /\ owned' = [a \in Atts |-> IF a \in gone THEN {} ELSE owned[a]]
    /\ G("C13", Judge(ViolOthers(S, live', gone)))

(* Teardown returned an error: it will be retried; nothing is promised for p, the others must be intact *)
TeardownFailed(p, S, gone) ==
    /\ ns' = S
    /\ live' = [a \in Atts |-> IF a \in gone THEN NoAtt ELSE live[a]]
    /\ owned' = [a \in Atts |-> IF a \in gone THEN {} ELSE owned[a]]
    /\ G("C13", Judge(ViolOthers(S, live', gone)))

(* ---------------------------------------------------------------- state invariant (a theorem of the guarded actions) *)
InvC13 == \A a \in Atts : Active(live, a) => ViolAtt(ns, live, live[a]) = {} /\ owned[a] \subseteq Elems(ns[0])

(* ---------------------------------------------------------------- level 1: the model's kernel applies nic.Conf values *)
RouteOf(r) == [table |-> r.table, dst |-> [ip |-> r.dst.ip, len |-> r.dst.len], dev |-> r.dev, gw |-> r.gw, scope |-> r.scope,
               metric |-> IF r.metric = 0 /\ Len(r.dst.ip) = 16 /\ r.proto # "kernel" THEN 1024 ELSE r.metric,
               type |-> r.type, proto |-> r.proto]
RuleOf(r) == [fam |-> r.fam, prio |-> r.prio, src |-> [ip |-> r.src.ip, len |-> r.src.len], dst |-> [ip |-> r.dst.ip, len |-> r.dst.len],
              iif |-> r.iif, oif |-> r.oif, table |-> r.table, proto |-> r.proto]
LinkOf(l) == [name |-> l.name, idx |-> l.idx, kind |-> l.kind, peer |-> l.peer, mac |-> l.mac]

(* nic.Setup order: addresses, neighbours, routes, rules *)
ApplyConf(S, cf) ==
    LET s1 == FoldLeft(LAMBDA s, a : AddAddr(s, cf.dev, a.ip, a.len), S[cf.ns], cf.addrs)
        s2 == FoldLeft(LAMBDA s, x : AddNeigh(s, [dev |-> x.dev, ip |-> x.ip, mac |-> x.mac]), s1, cf.neighs)
        s3 == FoldLeft(LAMBDA s, r : AddRoute(s, RouteOf(r)), s2, cf.routes)
        s4 == FoldLeft(LAMBDA s, r : AddRule(s, RuleOf(r)), s3, cf.rules)
    IN  [S EXCEPT ![cf.ns] = s4]
ApplyLinks(S, links) == FoldLeft(LAMBDA T, l : [T EXCEPT ![l.ns] = AddLink(@, LinkOf(l))], S, links)
Applied(S, links, confs) == FoldLeft(ApplyConf, ApplyLinks(S, links), confs)

(* sysctl entries are [key, fam]: fam = 6 / 4 for keys under net/ipv6 / net/ipv4 *)
ViolSysctl(c, confs) ==
    IF \A i \in 1..Len(confs) : \A j \in 1..Len(confs[i].sysctl) : confs[i].sysctl[j].fam \in Fams(c) \cup {0}
    THEN {} ELSE {"sysctl_for_disabled_family"}
=============================================================================
