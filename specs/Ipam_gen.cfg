SPECIFICATION MCSpec
CONSTANTS
  Pods = {1, 2, 3}
  Uids = {1, 2, 3, 4, 5, 6, 7, 8}
  Enis = {1, 2, 3, 4}
  Enforce = {"C02", "C03", "C08"}
  MCCap = 2
  MCMaxEni = 2
  MCV6 = FALSE
  MCMin = 0
  MCMax = 1
  MCForced = TRUE
  MCResandbox = TRUE
  MCDrift = FALSE
  A4 = {1, 2, 3, 4, 5, 6}
  A6 = {}
  MaxLen = 28
  GenOn = TRUE
CHECK_DEADLOCK FALSE
