---------------------------- MODULE AddrMath ----------------------------
(* C14 — address classifiers, derived gateways and interface names.          *)
(* Function specification: a finite, structured input domain DomSeq and the  *)
(* input/output relation Bad(c) (set of violated clauses of case c) written  *)
(* independently of the Go code: addresses are byte tuples, CIDR membership  *)
(* is defined bytewise, a u32 key matches a header when (word & mask) = val  *)
(* for the 4-byte word at the key's offset (the kernel's cls_u32 semantics). *)
EXTENDS Integers, Sequences, FiniteSets, Bitwise, TLC, SequencesExt

CONSTANT Tier            \* "quick" | "thorough"

------------------------------------------------------------------------
(* Address arithmetic over byte tuples (1-based, network byte order) *)

PrefBits(p, k) == IF p >= 8 * k THEN 8 ELSE IF p <= 8 * (k - 1) THEN 0 ELSE p - 8 * (k - 1)
MaskByte(p, k) == 256 - 2 ^ (8 - PrefBits(p, k))
InCidr(a, base, p) ==
    /\ Len(a) = Len(base)
    /\ \A k \in 1..Len(base) : (a[k] & MaskByte(p, k)) = (base[k] & MaskByte(p, k))
Network(base, p) == [k \in 1..Len(base) |-> base[k] & MaskByte(p, k)]
LastAddr(base, p) == [k \in 1..Len(base) |-> (base[k] & MaskByte(p, k)) | (255 - MaskByte(p, k))]
FlipBit(a, b) == LET k == (b \div 8) + 1
                     v == 2 ^ (7 - (b % 8))
                 IN  [a EXCEPT ![k] = a[k] ^^ v]
Complement(a) == [k \in 1..Len(a) |-> 255 - a[k]]

(* Third-from-last address of the subnet; <<>> when the subnet has fewer than   *)
(* four addresses (host part < 2 bits): last - 2 would leave the subnet.        *)
Gateway(base, p) ==
    LET n == Len(base)
        l == LastAddr(base, p)
    IN  IF 8 * n - p < 2 THEN <<>> ELSE [l EXCEPT ![n] = l[n] - 2]

------------------------------------------------------------------------
(* Packet headers as functions from byte offset to byte. IPv4: src at 12..15, *)
(* dst at 16..19.  IPv6: src at 8..23, dst at 24..39.                          *)

HdrByte(fam, src, dst, off) ==
    IF fam = 4
    THEN IF off \in 12..15 THEN src[off - 11] ELSE IF off \in 16..19 THEN dst[off - 15] ELSE 69
    ELSE IF off \in 8..23 THEN src[off - 7] ELSE IF off \in 24..39 THEN dst[off - 23] ELSE 96

KeyMatches(key, fam, src, dst) ==
    \A j \in 1..4 : (HdrByte(fam, src, dst, key.off + j - 1) & key.mask[j]) = key.val[j]
AllMatch(keys, fam, src, dst) == \A i \in 1..Len(keys) : KeyMatches(keys[i], fam, src, dst)

------------------------------------------------------------------------
(* Domain *)

V4Bases == { <<10, 0, 0, 0>>, <<192, 168, 1, 77>>, <<0, 0, 1, 0>>, <<255, 255, 255, 255>>, <<172, 16, 130, 129>> }
V6Bases == { <<253, 0, 0, 0, 0, 0, 0, 0, 0, 0, 0, 0, 0, 0, 0, 1>>,
             <<32, 1, 13, 184, 171, 205, 0, 18, 128, 0, 255, 1, 127, 64, 0, 93>>,
             <<0, 253, 170, 170, 0, 0, 0, 0, 0, 0, 0, 0, 0, 0, 0, 0>> }

NearBits(p, n) == IF Tier = "thorough" /\ n = 32 THEN 0..(n - 1)
                  ELSE IF Tier = "thorough" THEN ({ b \in 0..(n - 1) : b % 8 \in {0, 7} } \cup ((p - 10)..(p + 9))) \cap (0..(n - 1))
                  ELSE ({p - 9, p - 8, p - 2, p - 1, p, p + 1, p + 7, p + 8, 0, 31, 32, 63, 64, 95, 96, n - 1}) \cap (0..(n - 1))

Probes(base, p) == LET n == 8 * Len(base) IN
    {base, Network(base, p), LastAddr(base, p), Complement(base)} \cup { FlipBit(Network(base, p), b) : b \in NearBits(p, n) }
        \cup { FlipBit(LastAddr(base, p), b) : b \in NearBits(p, n) }

U32Set(fn, fam, bases, maxp, forms) ==
    UNION { UNION { { [fn |-> fn, fam |-> fam, ip |-> b, plen |-> p, form16 |-> f, probe |-> q] : q \in Probes(b, p), f \in forms }
                    : p \in 0..maxp } : b \in bases }

GwBases4 == V4Bases \cup { <<0, 10, 0, 0>>, <<100, 64, 0, 3>> }
GwBases6 == V6Bases \cup { <<0, 0, 0, 0, 0, 0, 0, 0, 0, 0, 0, 0, 0, 0, 0, 0>>, <<0, 0, 0, 0, 0, 0, 0, 1, 0, 0, 0, 0, 0, 0, 0, 0>> }

(* Go's net.IP cannot tell an IPv6 address inside ::ffff:0:0/96 from an IPv4 address, so IPv6     *)
(* subnets whose gateway would be an IPv4-mapped address (only ::/80 here) are outside the domain. *)
V4Mapped(a) == Len(a) = 16 /\ (\A k \in 1..10 : a[k] = 0) /\ a[11] = 255 /\ a[12] = 255
GwSet == { [fn |-> "gateway", fam |-> 4, ip |-> b, plen |-> p] : b \in GwBases4, p \in 0..32 }
    \cup { c \in { [fn |-> "gateway", fam |-> 6, ip |-> b, plen |-> p] : b \in GwBases6, p \in 0..128 } :
              ~V4Mapped(LastAddr(c.ip, c.plen)) }

Names == { "a", "nginx-7d8f9c-x2k4p", "pod-with-a-very-long-name-0123456789-0123456789-0123456789-abcdef", "p.eth1", "\\u4e2d" }
Spaces == { "default", "kube-system", "ns-with-a-rather-long-name-0123456789-0123456789-0123456789" }
IfLists == { <<"eth0", "eth1">>, <<"eth0", "eth1", "net1", "net2", "e">>, <<"eth1", "eth10", "eth11">>, <<"eth0", "eth", "th0", "0">> }

NameSet == { [fn |-> "vethname", ns |-> s, name |-> n, ifs |-> l, prefix |-> "cali"] : s \in Spaces, n \in Names, l \in IfLists }

TableSet == { [fn |-> "tableid", idx |-> [i \in 1..k |-> i - 1]] : k \in {2, 16, 65} }
              \cup { [fn |-> "tableid", idx |-> <<1, 2, 1000, 1001, 2000, 65535, 1000000>>] }

DomSet == U32Set("u32src", 4, V4Bases, 32, {FALSE, TRUE}) \cup U32Set("u32src", 6, V6Bases, 128, {FALSE})
          \cup U32Set("u32match", 4, V4Bases, 32, {FALSE})
          \cup (IF Tier = "thorough" THEN U32Set("u32match", 6, V6Bases, 128, {FALSE}) ELSE U32Set("u32match", 6, V6Bases, 12, {FALSE}))
          \cup U32Set("dstrule", 4, V4Bases, 32, {FALSE, TRUE})
          \cup GwSet \cup NameSet \cup TableSet

DomSeq == SetToSeq(DomSet)

------------------------------------------------------------------------
(* Relation: c = [in |-> <case>, out |-> <what the real function returned>, panic |-> string] *)

Distinct(s) == \A i, j \in 1..Len(s) : i # j => s[i] # s[j]

BadU32(in, out, dstSide) ==
    LET q   == in.probe
        oth == Complement(q)
        ok(src, dst) == AllMatch(out.keys, in.fam, src, dst) <=> InCidr(q, in.ip, in.plen)
    IN  IF dstSide
        THEN (IF ok(oth, q) /\ ok(in.ip, q) THEN {} ELSE {"classifier_not_exact"})
        ELSE (IF ok(q, oth) /\ ok(q, in.ip) THEN {} ELSE {"classifier_not_exact"})

Bad(c) ==
    IF c.panic # "" THEN {"panic"}
    ELSE LET in == c.in  out == c.out IN
    CASE in.fn \in {"u32src", "u32match"} -> BadU32(in, out, FALSE)
      [] in.fn = "dstrule" -> BadU32(in, out, TRUE)
      [] in.fn = "gateway" ->
            (IF out.gw = Gateway(in.ip, in.plen) THEN {} ELSE {"gateway_not_third_from_last"})
            \cup (IF out.idx = Gateway(in.ip, in.plen) THEN {} ELSE {"ip_at_index_minus3_wrong"})
      [] in.fn = "tableid" -> IF Distinct(out.ids) THEN {} ELSE {"table_id_not_unique"}
      [] in.fn = "vethname" ->
            (IF out.names = out.again THEN {} ELSE {"name_not_deterministic"})
            \cup (IF \A i \in 1..Len(out.lens) : out.lens[i] <= 15 /\ out.lens[i] >= 1 THEN {} ELSE {"name_too_long"})
            \cup (IF Distinct(out.names) THEN {} ELSE {"name_collision_between_interfaces"})
      [] OTHER -> {"unknown_case"}

(* Sanity of the oracle itself, checked by TLC when the domain is generated. *)
ASSUME Gateway(<<192, 168, 1, 0>>, 24) = <<192, 168, 1, 253>>
ASSUME Gateway(<<10, 0, 0, 0>>, 8) = <<10, 255, 255, 253>>
ASSUME Gateway(<<10, 0, 0, 0>>, 31) = <<>>
ASSUME Gateway(<<10, 0, 0, 0>>, 30) = <<10, 0, 0, 1>>
ASSUME InCidr(<<10, 1, 2, 3>>, <<10, 0, 0, 0>>, 8) /\ ~InCidr(<<11, 1, 2, 3>>, <<10, 0, 0, 0>>, 8)
ASSUME InCidr(<<10, 1, 2, 3>>, <<99, 0, 0, 0>>, 0)
ASSUME ~InCidr(<<10, 0, 0, 128>>, <<10, 0, 0, 0>>, 25) /\ InCidr(<<10, 0, 0, 127>>, <<10, 0, 0, 0>>, 25)
=============================================================================
