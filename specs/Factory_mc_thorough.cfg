SPECIFICATION MCSpec
CONSTANTS
  Slots = {1}
  Enis = {1, 2}
  Enforce = {"C01", "C06", "C07", "F"}
  A4 = {1, 2, 3, 4}
  A6 = {}
  Vsws = {1, 2}
  Toks = {1, 2}
  MaxHttp = 3
  MaxFaults = 2
  MaxCalls = 2
  V6On = FALSE
  GenOn = FALSE
  MaxLen = 0
INVARIANTS NoOrphan HandedBacked
CHECK_DEADLOCK FALSE
