---------------------------- MODULE Capacity ----------------------------
(* C19 - advertised node capacity never exceeds what the instance can deliver.   *)
(*                                                                               *)
(* Function specification (DESIGN 2.6): DomSeq is a finite, structured domain of *)
(* (instance-type description, configuration) pairs, Bad(c) the set of clauses   *)
(* of the property violated by what the real code advertised for that pair.      *)
(*                                                                               *)
(* Two chains of real code are judged (one fn each):                             *)
(*   "daemon": node annotation alibabacloud.com/instance-type-info               *)
(*             -> initInstanceLimit (GetLimitFromAnno/getInstanceType,           *)
(*             checkInstance) -> getPoolConfig; observed: Limits and its derived *)
(*             quotas, feature switches, PoolConfig.                             *)
(*   "node":   DescribeInstanceTypes -> ReconcileNode (NodeCap) -> the daemon's  *)
(*             nodeReconcile (ENISpec switches, flavor, pool) -> ReconcileNode   *)
(*             again (max-available-ip annotation, aliyun/eni and                *)
(*             aliyun/member-eni allocatable); observed: Node CR and k8s Node.   *)
(*                                                                               *)
(* The oracle is written from the property text over the instance-type           *)
(* description alone:                                                            *)
(*   it.q   EniQuantity: interfaces attachable incl. the primary one             *)
(*   it.tq  EniTotalQuantity: interfaces incl. trunk members (0 = not reported)  *)
(*   it.v4 / it.v6  private IPv4 / IPv6 addresses per interface                  *)
(*   it.trunkSup    EniTrunkSupported,   it.eri  EriQuantity                     *)
(* It never looks at how the Go code derives its numbers and is policy-free:     *)
(* only upper bounds are demanded, "disabled" is always acceptable, a rejected   *)
(* configuration advertises nothing and is acceptable.                           *)
(*                                                                               *)
(* Readings taken where the sentence leaves room (always the lenient one):       *)
(*  R1 "With the default capacity ratio": eni_cap_ratio and eni_cap_shift are    *)
(*     left at their defaults (1 / 0) in the whole domain; a positive shift      *)
(*     over-commits on purpose and is outside the statement.                     *)
(*  R2 "attachable secondary interfaces" = q - 1 (every instance has a primary   *)
(*     interface; the domain has q >= 1).                                        *)
(*  R3 "member-ENI count" limit = tq - q when trunking is supported, else 0.     *)
(*     The never-advertised upper quota MaxMemberAdapterLimit/MaximumTrunkPod    *)
(*     only has to stay within tq - 2 (primary + trunk excluded).                *)
(*  R4 an RDMA interface occupies a secondary slot: RDMA interfaces <=           *)
(*     min(eri, q - 1); RDMA capacity <= that times v4. Whether the RDMA share   *)
(*     is carved out of the pool capacity or counted beside it is left open:     *)
(*     either rdma <= capacity, or capacity + rdma <= (q-1)*v4.                  *)
(*  R5 IPv6: "not supported" = v6 = 0. When IPv6 is advertised every pod         *)
(*     address needs an IPv6 address on the same interface, hence capacity <=    *)
(*     slots * v6 as well. (Code that switches IPv6 off for v6 # v4 is fine.)    *)
(*  R6 trunk "not supported" = EniTrunkSupported false. A supported type with    *)
(*     no member quota may keep the switch on as long as it advertises 0.        *)
(*  R7 RDMA "not supported" = eri = 0 (switching it off for small types too is   *)
(*     fine).                                                                    *)
(*  R8 watermarks are those of the computed PoolConfig. Node.Spec.Pool in the    *)
(*     Node CR is the raw configuration handed to the IPAM controller (demand /  *)
(*     idle-keep numbers, bounded by the flavor when consumed), not an           *)
(*     advertised capacity, and is not judged.                                   *)
(*  R9 exclusive-ENI mode: one pod per interface, so the advertised count is     *)
(*     bounded by the slots themselves, not by slots * v4.                       *)
(*  R10 a flavor count is a cardinality: each count >= 0 (a negative count may   *)
(*     not be used to offset another entry), sum <= q - 1.                       *)
EXTENDS Integers, Sequences, FiniteSets, TLC, SequencesExt

CONSTANT Tier            \* "quick" | "thorough"

------------------------------------------------------------------------
(* What the instance can deliver, from its description only *)

Hi(a, b) == IF a >= b THEN a ELSE b
Lo(a, b) == IF a <= b THEN a ELSE b

Slots(it)       == it.q - 1                                              \* R2
MemberLimit(it) == IF it.trunkSup THEN Hi(0, it.tq - it.q) ELSE 0        \* R3
MemberCeil(it)  == IF it.trunkSup THEN Hi(0, it.tq - 2) ELSE 0           \* R3
RdmaSlots(it)   == Hi(0, Lo(it.eri, Slots(it)))                        \* R4
IPCeil(it)      == Slots(it) * it.v4

RECURSIVE SumCount(_)
SumCount(f) == IF f = <<>> THEN 0 ELSE Head(f).count + SumCount(Tail(f))

RECURSIVE SumCountOf(_, _, _)
SumCountOf(f, ty, mode) ==
    IF f = <<>> THEN 0
    ELSE (IF Head(f).type = ty /\ (mode = "" \/ Head(f).mode = mode) THEN Head(f).count ELSE 0)
         + SumCountOf(Tail(f), ty, mode)

If(cond, name) == IF cond THEN {name} ELSE {}

------------------------------------------------------------------------
(* Domain *)

Thorough == Tier = "thorough"

QFeat  == IF Thorough THEN {1, 2, 3, 4, 7, 8, 10} ELSE {1, 2, 3, 8}
QSize  == IF Thorough THEN 1..10 ELSE {1, 2, 3, 4, 8, 10}
V4Feat == IF Thorough THEN {1, 6} ELSE {6}
V4Size == IF Thorough THEN {1, 2, 6, 10, 20} ELSE {1, 6, 20}
Eris   == IF Thorough THEN 0..3 ELSE {0, 1, 3}
TqOf(q) == IF Thorough THEN {0, q, q + 1, q + 6} ELSE {0, q, q + 6}
V6Of(v) == {0, v, Hi(0, v - 1), v + 1}          \* none, equal, fewer, more
Stacks == {"ipv4", "dual", "ipv6"}
PoolSizes == IF Thorough THEN {0, 5, 50, 1000} ELSE {0, 5, 1000}
MaxEnis == IF Thorough THEN {0, 1, 3, 100} ELSE {0, 2, 100}
MinEnis == {0, 1, 100}

(* every feature combination x every kind of instance type, sizes pinned *)
FeatInst == UNION { UNION { { [q |-> q, tq |-> t, v4 |-> v, v6 |-> w, trunkSup |-> ts, eri |-> e]
                              : w \in V6Of(v), ts \in BOOLEAN, e \in Eris } : t \in TqOf(q), v \in V4Feat } : q \in QFeat }

FeatDaemon == { [fn |-> "daemon", it |-> it,
                 cfg |-> [maxEni |-> 0, minEni |-> 0, maxPool |-> 5, minPool |-> 0, stack |-> s,
                          trunk |-> tr, erdma |-> rd, ipam |-> ""]]
                : it \in FeatInst, s \in Stacks, tr \in BOOLEAN, rd \in BOOLEAN }

(* every sizing combination x adapters x addresses, features pinned (all supported and on / RDMA both ways) *)
SizeInst == { [q |-> q, tq |-> q + 6, v4 |-> v, v6 |-> v, trunkSup |-> TRUE, eri |-> e] : q \in QSize, v \in V4Size, e \in {0, 3} }

SizeDaemon == { [fn |-> "daemon", it |-> it,
                 cfg |-> [maxEni |-> me, minEni |-> mi, maxPool |-> mp, minPool |-> np, stack |-> "ipv4",
                          trunk |-> TRUE, erdma |-> it.eri > 0, ipam |-> ""]]
                : it \in SizeInst, me \in MaxEnis, mi \in MinEnis, mp \in PoolSizes, np \in PoolSizes }

CrdDaemon == { [fn |-> "daemon", it |-> it,
                cfg |-> [maxEni |-> me, minEni |-> p[3], maxPool |-> p[1], minPool |-> p[2], stack |-> "dual",
                         trunk |-> TRUE, erdma |-> it.eri > 0, ipam |-> "crd"]]
               : it \in SizeInst, me \in MaxEnis, p \in {<<5, 0, 0>>, <<1000, 1000, 0>>, <<5, 50, 1>>} }

(* the limits cached in the node annotation may describe another (larger) instance type: the instance was resized, *)
(* or there is no annotation at all and the limits come from the OpenAPI; the oracle judges against the real type  *)
AnnoDaemon == { [fn |-> "daemon", it |-> it, anno |-> a,
                 cfg |-> [maxEni |-> 0, minEni |-> 0, maxPool |-> mp, minPool |-> 0, stack |-> s,
                          trunk |-> TRUE, erdma |-> TRUE, ipam |-> ""]]
                : it \in { x \in FeatInst : x.q <= 4 }, a \in {"stale", "absent"}, s \in {"ipv4", "dual"}, mp \in {5, 1000} }

NodeSet == { [fn |-> "node", it |-> it,
              cfg |-> [maxPool |-> 5, minPool |-> 0, stack |-> s, trunk |-> tr, erdma |-> rd, excl |-> x]]
             : it \in FeatInst, s \in Stacks, tr \in BOOLEAN, rd \in BOOLEAN, x \in BOOLEAN }

(* Daemon (re)start on a node that already has k secondary interfaces attached: the real setupENIManager builds one pool *)
(* slot per attached interface plus the slots it may still fill; out = [err, attached, empty, advertised].               *)
RestartInst == { [q |-> q, tq |-> q, v4 |-> v, v6 |-> 0, trunkSup |-> FALSE, eri |-> 0] : q \in {2, 3, 4, 8}, v \in {1, 6} }
RestartSet == { [fn |-> "restart", it |-> it, attached |-> k,
                 cfg |-> [maxEni |-> 0, minEni |-> 0, maxPool |-> 5, minPool |-> 0, stack |-> "ipv4",
                          trunk |-> FALSE, erdma |-> FALSE, ipam |-> ""]]
               : it \in RestartInst, k \in 0..7 }

DomSet == FeatDaemon \cup SizeDaemon \cup CrdDaemon \cup AnnoDaemon \cup NodeSet \cup { d \in RestartSet : d.attached <= d.it.q - 1 }
DomSeq == SetToSeq(DomSet)

------------------------------------------------------------------------
(* Relation: c = [id, in, out, panic] *)

(* Limits as derived from the description, and the quotas computed from them. *)
BadLimits(it, l) ==
         If(l.adapters > it.q \/ l.exclusivePod > Slots(it), "limits_slots_exceed_attachable_interfaces")
    \cup If(l.v4 > it.v4 \/ l.multiIPPod > IPCeil(it), "limits_ip_capacity_exceeds_slots_times_addresses")
    \cup If(l.v6 > it.v6, "limits_ipv6_addresses_exceed_instance")
    \cup If(l.member > MemberLimit(it) \/ l.trunkPod > MemberLimit(it), "limits_member_eni_exceeds_instance")
    \cup If(l.maxMember > MemberCeil(it) \/ l.maxTrunkPod > MemberCeil(it), "limits_member_eni_ceiling_exceeds_instance")
    \cup If(l.erdmaRes > RdmaSlots(it) \/ l.erdmaAdapters > it.eri, "limits_rdma_exceeds_instance")

BadDaemon(in, out) ==
    IF out.rejected THEN {}
    ELSE LET it == in.it  l == out.lim  f == out.flags  p == out.pool IN
         BadLimits(it, l)
    \cup If(p.maxEni > Slots(it), "slots_exceed_attachable_interfaces")
    \cup If(p.capacity > p.maxEni * it.v4 \/ p.maxIPPerEni > it.v4, "ip_capacity_exceeds_slots_times_addresses")
    \cup If(f.v6 /\ p.capacity > p.maxEni * it.v6, "ip_capacity_exceeds_slots_times_ipv6_addresses")
    \cup If(~(0 <= p.minPool /\ p.minPool <= p.maxPool /\ p.maxPool <= p.capacity), "watermarks_not_0_le_min_le_max_le_capacity")
    \cup If(p.maxMemberEni > MemberLimit(it), "member_eni_exceeds_instance")
    \cup If(p.erdmaCapacity > RdmaSlots(it) * it.v4, "rdma_capacity_exceeds_instance")
    \cup If(~(p.erdmaCapacity <= p.capacity \/ p.capacity + p.erdmaCapacity <= IPCeil(it)), "rdma_plus_ip_capacity_exceeds_instance")
    \cup If(f.v6 /\ it.v6 = 0, "ipv6_advertised_but_unsupported")
    \cup If(f.trunk /\ ~it.trunkSup, "trunk_advertised_but_unsupported")
    \cup If(f.erdma /\ it.eri = 0, "rdma_advertised_but_unsupported")

BadNode(in, out) ==
    IF out.rejected THEN {}
    ELSE LET it == in.it  nc == out.cap  s == out.spec  fl == out.flavor
             slots == SumCount(fl)
             perSlot == IF in.cfg.excl THEN 1 ELSE it.v4            \* R9
             perSlot6 == IF in.cfg.excl THEN 1 ELSE it.v6
         IN
         If(nc.adapters > it.q, "nodecap_slots_exceed_attachable_interfaces")
    \cup If(nc.v4 > it.v4, "nodecap_ip_capacity_exceeds_slots_times_addresses")
    \cup If(nc.v6 > it.v6, "nodecap_ipv6_addresses_exceed_instance")
    \cup If(nc.member > MemberLimit(it), "nodecap_member_eni_exceeds_instance")
    \cup If(nc.maxMember > MemberCeil(it), "nodecap_member_eni_ceiling_exceeds_instance")
    \cup If(nc.eri > RdmaSlots(it), "nodecap_rdma_exceeds_instance")
    \cup If(\E i \in 1..Len(fl) : fl[i].count < 0, "flavor_negative_count")
    \cup If(slots > Slots(it), "flavor_slots_exceed_attachable_interfaces")
    \cup If(SumCountOf(fl, "Secondary", "HighPerformance") > RdmaSlots(it), "flavor_rdma_exceeds_instance")
    \cup If(SumCountOf(fl, "Trunk", "") > 0 /\ ~it.trunkSup, "flavor_trunk_but_unsupported")
    \cup If(out.annoIP > slots * perSlot, "annotated_ip_capacity_exceeds_slots_times_addresses")
    \cup If(s.v6 /\ out.annoIP > slots * perSlot6, "annotated_ip_capacity_exceeds_slots_times_ipv6_addresses")
    \cup If(out.allocEni > Slots(it) \/ out.capEni > Slots(it), "eni_resource_exceeds_attachable_interfaces")
    \cup If(out.allocMember > MemberLimit(it) \/ out.capMember > MemberLimit(it), "member_eni_resource_exceeds_instance")
    \cup If(s.v6 /\ it.v6 = 0, "ipv6_advertised_but_unsupported")
    \cup If(s.trunk /\ ~it.trunkSup, "trunk_advertised_but_unsupported")
    \cup If(s.erdma /\ it.eri = 0, "rdma_advertised_but_unsupported")

BadRestart(in, out) ==
    IF out.err # "" THEN {"restart_failed"}
    ELSE (IF out.attached + out.empty > Slots(in.it) THEN {"slots_exceed_attachable_interfaces"} ELSE {})
         \cup (IF out.advertised > IPCeil(in.it) THEN {"ip_capacity_exceeds_slots_times_addresses"} ELSE {})
         \cup (IF out.attached # in.attached THEN {"attached_interface_not_adopted"} ELSE {})

Bad(c) ==
    IF c.panic # "" THEN {"panic"}
    ELSE CASE c.in.fn = "daemon" -> BadDaemon(c.in, c.out)
           [] c.in.fn = "restart" -> BadRestart(c.in, c.out)
           [] c.in.fn = "node"   -> BadNode(c.in, c.out)
           [] OTHER -> {"unknown_case"}

------------------------------------------------------------------------
(* Sanity of the oracle's own helpers, checked by TLC when the domain is generated. *)

G6 == [q |-> 4, tq |-> 10, v4 |-> 10, v6 |-> 10, trunkSup |-> TRUE, eri |-> 1]     \* e.g. ecs.g6.xlarge-like
ASSUME Slots(G6) = 3 /\ IPCeil(G6) = 30 /\ MemberLimit(G6) = 6 /\ MemberCeil(G6) = 8 /\ RdmaSlots(G6) = 1
ASSUME MemberLimit([G6 EXCEPT !.trunkSup = FALSE]) = 0 /\ MemberLimit([G6 EXCEPT !.tq = 0]) = 0
ASSUME RdmaSlots([G6 EXCEPT !.q = 1, !.eri = 3]) = 0 /\ RdmaSlots([G6 EXCEPT !.q = 3, !.eri = 3]) = 2
ASSUME SumCount(<<[type |-> "Trunk", mode |-> "Standard", count |-> 1], [type |-> "Secondary", mode |-> "HighPerformance", count |-> 1],
                  [type |-> "Secondary", mode |-> "Standard", count |-> 2]>>) = 4
ASSUME SumCountOf(<<[type |-> "Trunk", mode |-> "Standard", count |-> 1], [type |-> "Secondary", mode |-> "HighPerformance", count |-> 1],
                    [type |-> "Secondary", mode |-> "Standard", count |-> 2]>>, "Secondary", "HighPerformance") = 1
ASSUME SumCount(<<>>) = 0
OkPool == [capacity |-> 30, maxEni |-> 3, maxMemberEni |-> 6, erdmaCapacity |-> 10, maxIPPerEni |-> 10, maxPool |-> 5, minPool |-> 0]
OkLim  == [adapters |-> 4, total |-> 10, v4 |-> 10, v6 |-> 10, member |-> 6, maxMember |-> 8, erdmaAdapters |-> 1, erdmaRes |-> 1,
           multiIPPod |-> 30, exclusivePod |-> 3, trunkPod |-> 6, maxTrunkPod |-> 8]
OkOut  == [rejected |-> FALSE, lim |-> OkLim, flags |-> [v4 |-> TRUE, v6 |-> TRUE, trunk |-> TRUE, erdma |-> TRUE], pool |-> OkPool]
OkIn   == [fn |-> "daemon", it |-> G6]
ASSUME BadDaemon(OkIn, OkOut) = {}
ASSUME BadDaemon(OkIn, [OkOut EXCEPT !.pool.maxEni = 4, !.pool.capacity = 40]) = {"slots_exceed_attachable_interfaces"}
ASSUME BadDaemon(OkIn, [OkOut EXCEPT !.pool.capacity = 31, !.flags.v6 = FALSE]) = {"ip_capacity_exceeds_slots_times_addresses"}
ASSUME BadDaemon(OkIn, [OkOut EXCEPT !.pool.minPool = 6]) = {"watermarks_not_0_le_min_le_max_le_capacity"}
ASSUME BadDaemon([OkIn EXCEPT !.it.v6 = 0], OkOut) = {"ipv6_advertised_but_unsupported", "ip_capacity_exceeds_slots_times_ipv6_addresses", "limits_ipv6_addresses_exceed_instance"}
ASSUME BadDaemon([OkIn EXCEPT !.it.eri = 0], [OkOut EXCEPT !.lim.erdmaAdapters = 0, !.lim.erdmaRes = 0, !.pool.erdmaCapacity = 0]) = {"rdma_advertised_but_unsupported"}
ASSUME DomSet # {} /\ \A d \in DomSet : d.it.q >= 1 /\ d.it.v4 >= 1 /\ d.cfg.maxPool >= 0 /\ d.cfg.minPool >= 0
=============================================================================
