---------------------------- MODULE Token_trace ----------------------------
(* Trace validation: is the recorded execution of the real client code a      *)
(* behaviour of Token.tla?  Log lines: reset | invoke | request | respond |   *)
(* return.  Pick is not observable (it happens inside the generator's lock    *)
(* between invoke and request) and is composed in as a silent step.           *)
EXTENDS Token, Json, IOUtils, TLCExt

Log == ndJsonDeserialize(IOEnv.VERIF_TRACE)
VARIABLE l

IsEv(k) == l <= Len(Log) /\ Log[l].ev = k /\ l' = l + 1

TReset == /\ IsEv("reset")
          /\ pc' = [c \in Calls |-> "idle"] /\ par' = [c \in Calls |-> 0] /\ tok' = [c \in Calls |-> 0]
          /\ res' = [c \in Calls |-> "none"] /\ failed' = [k \in Keys |-> {}] /\ used' = {} /\ owner' = [t \in Tok |-> 0]
TInvoke  == IsEv("invoke") /\ Invoke(Log[l].c, Log[l].p)
TPick    == l <= Len(Log) /\ UNCHANGED l /\ \E c \in Calls : Pick(c) \/ Settle(c)
TRequest == IsEv("request") /\ Send(Log[l].c, Log[l].t)
TRespond == IsEv("respond") /\ Respond(Log[l].c, Log[l].o)
TReturn  == IsEv("return") /\ LET c == Log[l].c IN
               IF Log[l].sent THEN Return(c) ELSE RejectInvalid(c)

TInit == Init /\ l = 1
TNext == TReset \/ TInvoke \/ TPick \/ TRequest \/ TRespond \/ TReturn
TSpec == TInit /\ [][TNext]_<<vars, l>>

(* high-water mark of consumed lines, for diagnosis of a rejected trace *)
HighWater == IF l > TLCGet(1) THEN TLCSet(1, l) ELSE TRUE
ASSUME TLCSet(1, 0)
PropInv == InflightDistinct /\ NoCrossParamShare /\ FailedSound
(* Acceptance by inverted invariant: TLC reports NotAccepted violated iff some behaviour of the *)
(* specification consumes the whole log with all property invariants holding on the way.       *)
NotAccepted == ~(l > Len(Log))
Report == PrintT(<<"HIGHWATER", TLCGet(1)>>)
=============================================================================
