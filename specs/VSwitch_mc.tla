---- MODULE VSwitch_mc ----
EXTENDS VSwitch
MCIdSeqs == {<<"v1", "v2", "v3">>, <<"v3", "v1">>}
MCIdSeqsT == {<<"v1", "v2", "v3">>, <<"v3", "v1", "v2">>, <<"v2">>}
C(z1, f1, z2, f2, z3, f3) == [id \in Ids |-> IF id = "v1" THEN (IF f1 < 0 THEN Gone ELSE [zone |-> z1, free |-> f1])
                                              ELSE IF id = "v2" THEN (IF f2 < 0 THEN Gone ELSE [zone |-> z2, free |-> f2])
                                              ELSE (IF f3 < 0 THEN Gone ELSE [zone |-> z3, free |-> f3])]
MCClouds == { C("a", 1, "a", 5, "b", 5), C("a", 0, "a", 1, "a", 1), C("b", 5, "a", -1, "a", 0), C("b", 1, "b", 5, "a", 0) }
MCCloudsQ == { C("a", 1, "a", 5, "b", 5), C("b", 1, "a", -1, "a", 0) }
MCCloudsT == [Ids -> {Gone} \cup [zone : Zones, free : FreeVals]]
====
