SPECIFICATION MCSpec
CONSTANTS
  Names = {1}
  Enis = {1, 2}
  Calls = {1, 2}
  Enforce = {}
  Lenient = TRUE
  Grace = 2
  Slack = 0
  MaxUid = 2
  MaxT = 2
  MaxDepth = 1
  EnvDepth = 1
  Nodes = {1}
  Kinds = {"t"}
  TTL = 2
  MaxLen = 0
  GenOn = FALSE
  StrayOn = FALSE
PROPERTY StrictEdges
CHECK_DEADLOCK FALSE
