--------------------------- MODULE Datapath_trace ---------------------------
(* Trace validation of recorded executions of the real datapath code against Datapath.tla.      *)
(*   reset       initial state of every namespace                                               *)
(*   env         level 2: the runtime made a pod namespace / an ENI appeared; dump afterwards    *)
(*   enigone     level 2: an ENI stand-in was deleted while pods may still use it; dump afterwards *)
(*   setup_c     level 1: SetupConfig + the nic.Conf values the generators returned; the model   *)
(*               kernel of Fib.tla applies them                                                  *)
(*   setup_d     level 2: SetupConfig + Setup's result + dump of every namespace afterwards      *)
(*   teardown_d  level 2: pod + variant (cni | dp | generic = GenericTearDown alone) + result +   *)
(*               dump afterwards                                                                 *)
(*   rget        level 2, thorough: the kernel's answer to `ip route get`; must be one of the    *)
(*               model's Lookups on the current state (interface fact: validates Fib.tla)        *)
(* Every step is logged, so the walk is linear.                                                  *)
EXTENDS Datapath, Json, IOUtils, TLCExt

Log == ndJsonDeserialize(IOEnv.VERIF_TRACE)
VARIABLE l

Rng(s) == { s[i] : i \in 1..Len(s) }
IsEv(k) == l <= Len(Log) /\ Log[l].ev = k /\ l' = l + 1

NsOf(d) == [links  |-> { LinkOf(x) : x \in Rng(d.links) },
            addrs  |-> { [dev |-> x.dev, ip |-> x.ip, len |-> x.len, scope |-> x.scope] : x \in Rng(d.addrs) },
            rules  |-> { RuleOf(x) : x \in Rng(d.rules) },
            routes |-> { RouteOf(x) : x \in Rng(d.routes) },
            neighs |-> { [dev |-> x.dev, ip |-> x.ip, mac |-> x.mac] : x \in Rng(d.neighs) }]
StateOf(dump) == [n \in NsIds |-> IF \E i \in 1..Len(dump) : dump[i].ns = n
                                  THEN NsOf(dump[CHOOSE i \in 1..Len(dump) : dump[i].ns = n]) ELSE EmptyNs]

TReset == IsEv("reset") /\ Reset(StateOf(Log[l].dump))

(* the runtime created a pod namespace / the node attached an ENI: not the datapath's doing *)
TEnv == IsEv("env") /\ ns' = StateOf(Log[l].dump) /\ UNCHANGED <<live, owned>>

TEniGone == IsEv("enigone") /\ EniGone(Log[l].eni, StateOf(Log[l].dump))

TSetupC == /\ IsEv("setup_c")
           /\ LET e == Log[l] IN
              /\ SetupOk(e.cfg, Applied(ns, e.links, e.confs))
              /\ G("C13", Judge(ViolSysctl(e.cfg, e.confs)))

TSetupD == /\ IsEv("setup_d")
           /\ LET e == Log[l] IN
              IF e.ok THEN SetupOk(e.cfg, StateOf(e.dump)) ELSE SetupFailed(e.cfg, StateOf(e.dump))

TTeardownD == /\ IsEv("teardown_d")
              /\ LET e == Log[l] IN
                 IF ~e.ok THEN TeardownFailed(e.pod, StateOf(e.dump), AttsOf(e.pod))
                 ELSE IF e.how = "generic" THEN TeardownGeneric(e.pod, StateOf(e.dump), AttsOf(e.pod))
                 ELSE TeardownOk(e.pod, StateOf(e.dump), AttsOf(e.pod))

KernelAgrees(e) ==
    LET M == Lookups(ns[e.ns], e.pkt) IN
    IF e.res.err # "" THEN \E m \in M : m.kind \notin {"unicast", "local"}
    ELSE \E m \in M : /\ m.kind = e.res.kind
                      /\ (m.kind = "local" \/ (m.dev = e.res.dev /\ m.gw = e.res.gw /\ m.table = e.res.table))
TRget == /\ IsEv("rget")
         /\ IF KernelAgrees(Log[l]) THEN TRUE
            ELSE PrintT(<<"FIBMODEL", l, Log[l].pkt, Log[l].res, Lookups(ns[Log[l].ns], Log[l].pkt)>>) /\ FALSE
         /\ UNCHANGED vars

TInit == Init /\ l = 1
TNext == TReset \/ TEnv \/ TEniGone \/ TSetupC \/ TSetupD \/ TTeardownD \/ TRget
TSpec == TInit /\ [][TNext]_<<vars, l>>

HighWater == IF l > TLCGet(1) THEN TLCSet(1, l) ELSE TRUE
ASSUME TLCSet(1, 0)
NotAccepted == ~(l > Len(Log))
Report == PrintT(<<"HIGHWATER", TLCGet(1)>>)
Short == [line |-> l]        \* ALIAS: keep TLC's error-trace output small
=============================================================================
