--------------------------- MODULE PoolSlot_trace ---------------------------
(* Validates the stream of critical-section projections recorded by the tracing locker the pool *)
(* harness installs into every Local (events "cs"), against PoolSlot.tla.                       *)
EXTENDS PoolSlot, Json, IOUtils, TLCExt

Log == ndJsonDeserialize(IOEnv.VERIF_TRACE)
VARIABLE l
Rng(s) == { s[i] : i \in 1..Len(s) }
IsEv(k) == l <= Len(Log) /\ Log[l].ev = k /\ l' = l + 1
Proj(e) == [status |-> e.status, eni |-> e.eni, ents |-> Rng(e.ents), q |-> e.q, d |-> e.d, cap |-> e.cap]

TReset == IsEv("reset") /\ SReset
TAdopt == IsEv("adopt") /\ slot' = [slot EXCEPT ![Log[l].slot] = Proj(Log[l])]   \* start-up: interface loaded from the cloud
TCs    == IsEv("cs") /\ Step(Log[l].slot, Proj(Log[l]))
TInit == SInit /\ l = 1
TNext == TReset \/ TAdopt \/ TCs
TSpec == TInit /\ [][TNext]_<<svars, l>>

HighWater == IF l > TLCGet(1) THEN TLCSet(1, l) ELSE TRUE
ASSUME TLCSet(1, 0)
InvC01 == OneOwnerPerPod
InvC06 == DeletingIdle
InvC07 == TRUE
NotAccepted == ~(l > Len(Log))
Report == PrintT(<<"HIGHWATER", TLCGet(1)>>)
=============================================================================
