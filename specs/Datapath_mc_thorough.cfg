\* thorough tier, one of several runs (props/c13.py: all4, fam, pods3, pods3x, mixed, mixed2, multi): three pods on two ENIs
SPECIFICATION MCSpec
CONSTANTS
  Enforce = {"C13"}
  NsIds = {0, 1, 2, 3}
  Atts = {1, 2, 3, 4, 5, 6}
  MCPods = {1, 2, 3}
  MCDps = {"policy"}
  MCFams = {"v4", "dual"}
  MCTrunk = {FALSE}
  MCExtra = {1}
  MCMulti = {FALSE, TRUE}
  MCHow = {"cni"}
  MCSteal = FALSE
  MCEniGone = FALSE
  MCEnis = {1, 2}
  BadDesign = ""
  GenLen = 0
  GenOn = FALSE
INVARIANT InvC13
CHECK_DEADLOCK FALSE
