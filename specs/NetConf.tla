---------------------------- MODULE NetConf ----------------------------
(* C12 - every ADD yields a complete, self-consistent network configuration.                     *)
(*                                                                                               *)
(* Function specification (DESIGN 2.6): DomSeq is a finite, structured set of ADD situations      *)
(* (what the node's resource back-end allocated for the pod x the pod's limits x the CNI         *)
(* configuration and runtime bandwidth override); Bad(c) is the set of clauses of the property   *)
(* that the observed behaviour of the real daemon + plugin violates for case c.                  *)
(*                                                                                               *)
(* What is observed per case (harness/overlay/plugin/terway/zz_verif_netconf_test.go):           *)
(*   out.err     error text of the daemon's AllocIP ("" = reply)                                 *)
(*   out.nets    the reply's NetConf list after the protobuf hop, addresses as byte tuples       *)
(*   out.setups  per NetConf the SetupConfig the plugin's parser produced (or its error), plus   *)
(*               dpdirect = the plugin's datapath selector applied to (IP type, VLAN mode of the *)
(*               CNI configuration, trunk flag of that NetConf) alone                            *)
(*   out.downs   per NetConf of GetIPInfo the TeardownCfg of the plugin's parser                 *)
(*                                                                                               *)
(* The relation is written from the property text over byte tuples; nothing here is derived from *)
(* the Go code.  Readings taken where the sentence leaves room (always the lenient one):         *)
(*  R1 "names exactly one default-route interface": exactly one NetConf of a reply carries the   *)
(*     default-route flag.  The daemon may instead refuse the ADD, but only for an inconsistent  *)
(*     allocation: more than one allocation flagged as default route, or no allocation for the   *)
(*     pod's primary interface.  When the allocation flags exactly one interface, that interface *)
(*     must be the one flagged in the reply (the daemon may default, it may not override).       *)
(*  R2 "primary interface": the interface the runtime asked for (eth0); an empty interface name  *)
(*     on the wire means "the primary one".  Order of NetConfs is free; duplicates are not judged.*)
(*  R3 "addresses inside the reported subnet with that subnet's reserved gateway": judged on the *)
(*     subnet *the reply reports*; the reply need not repeat the vSwitch prefix literally.       *)
(*     Reserved gateway = third-from-last address of the subnet.  For the node-local pool the    *)
(*     gateway is an answer of the cloud metadata service (environment, fields gw4/gw6 of the    *)
(*     case); the clause then says the daemon hands it on unchanged.                             *)
(*  R4 "datapath determined solely by IP type, trunking and VLAN mode": the datapath of a        *)
(*     SetupConfig equals the plugin's selector evaluated on that triple alone, the selector is  *)
(*     history-free and yields a known datapath.  WHICH datapath a triple maps to is not stated  *)
(*     by the property and not judged.  The teardown path derives its datapath without the trunk *)
(*     flag by design; the property speaks about ADD, so teardown datapaths are not judged.      *)
(*  R5 "recovers exactly the addresses, routes and limits": container address + prefix length   *)
(*     and gateway per family; default-route flag and extra-route destinations (as a multiset;   *)
(*     a route's next hop may be absent or the gateway of the destination's family); limits in   *)
(*     bytes/s as sent, unless the runtime passed a bandwidth override (bits/s), which wins;     *)
(*     override/8 may be rounded either way.                                                     *)
EXTENDS Integers, Sequences, FiniteSets, Bitwise, TLC, SequencesExt

CONSTANT Tier            \* "quick" | "thorough"

------------------------------------------------------------------------
(* Address arithmetic over byte tuples (1-based, network byte order) *)

PrefBits(p, k) == IF p >= 8 * k THEN 8 ELSE IF p <= 8 * (k - 1) THEN 0 ELSE p - 8 * (k - 1)
MaskByte(p, k) == 256 - 2 ^ (8 - PrefBits(p, k))
InCidr(a, base, p) ==
    /\ Len(a) = Len(base)
    /\ Len(a) > 0
    /\ \A k \in 1..Len(base) : (a[k] & MaskByte(p, k)) = (base[k] & MaskByte(p, k))
Network(base, p) == [k \in 1..Len(base) |-> base[k] & MaskByte(p, k)]
LastAddr(base, p) == [k \in 1..Len(base) |-> (base[k] & MaskByte(p, k)) | (255 - MaskByte(p, k))]

(* Third-from-last address; <<>> when the subnet has fewer than four addresses or is absent. *)
Gateway(base, p) ==
    LET n == Len(base)
        l == LastAddr(base, p)
    IN  IF n = 0 \/ 8 * n - p < 2 THEN <<>> ELSE [l EXCEPT ![n] = l[n] - 2]

AddLast(a, d) == [a EXCEPT ![Len(a)] = a[Len(a)] + d]

------------------------------------------------------------------------
(* Domain: subnets, address positions *)

Sub(b, p) == [base |-> b, plen |-> p]
NoSub == [base |-> <<>>, plen |-> 0]

S24 == Sub(<<192, 168, 1, 0>>, 24)
S28 == Sub(<<10, 0, 5, 16>>, 28)
S25 == Sub(<<172, 16, 130, 128>>, 25)
S30 == Sub(<<10, 0, 5, 4>>, 30)
V4Quick == <<S24, S28, S25, S30>>
V4More == <<Sub(<<10, 10, 0, 0>>, 16), Sub(<<172, 20, 16, 0>>, 20), Sub(<<10, 0, 6, 8>>, 29),
            Sub(<<100, 64, 0, 0>>, 10), Sub(<<10, 1, 2, 252>>, 30), Sub(<<192, 168, 255, 0>>, 24)>>

T64 == Sub(<<253, 0, 0, 0, 0, 0, 0, 1, 0, 0, 0, 0, 0, 0, 0, 0>>, 64)                 \* fd00:0:0:1::/64
T120 == Sub(<<253, 0, 0, 0, 0, 0, 0, 0, 0, 0, 0, 1, 0, 2, 3, 0>>, 120)               \* fd00::1:2:300/120
A64 == Sub(<<36, 8, 64, 5, 3, 160, 17, 0, 0, 0, 0, 0, 0, 0, 0, 0>>, 64)              \* 2408:4005:3a0:1100::/64
V6Quick == <<T64, T120, A64>>
V6More == <<Sub(<<253, 0, 0, 170, 0, 0, 0, 0, 0, 0, 0, 0, 0, 0, 0, 0>>, 56),
            Sub(<<253, 0, 0, 0, 0, 0, 0, 0, 0, 0, 0, 9, 0, 0, 0, 0>>, 96),
            Sub(<<253, 0, 0, 0, 0, 0, 0, 0, 0, 0, 0, 9, 0, 7, 0, 0>>, 112),
            Sub(<<253, 0, 0, 0, 0, 0, 0, 0, 0, 0, 0, 9, 0, 7, 0, 8>>, 126)>>

V4Subs == IF Tier = "thorough" THEN V4Quick \o V4More ELSE V4Quick
V6Subs == IF Tier = "thorough" THEN V6Quick \o V6More ELSE V6Quick

(* Pod address positions inside a subnet: first host, middle, the two neighbours of the reserved    *)
(* gateway.  The gateway itself, the network address and the last address are never pod addresses. *)
Pos(s) ==
    LET n    == Len(s.base)
        net  == Network(s.base, s.plen)
        last == LastAddr(s.base, s.plen)
        hb   == 8 * n - s.plen
        mid  == AddLast(net, IF hb >= 8 THEN 128 ELSE 2 ^ (hb - 1))
        cand == {AddLast(net, 1), mid, AddLast(last, 0 - 3), AddLast(last, 0 - 1)}
    IN  {a \in cand : a # Gateway(s.base, s.plen) /\ a # net /\ a # last}
First(s) == LET net == Network(s.base, s.plen)
            IN IF AddLast(net, 1) \in Pos(s) THEN AddLast(net, 1) ELSE CHOOSE a \in Pos(s) : TRUE

Route(b, p) == [dst |-> b, plen |-> p]
R4a == Route(<<10, 96, 0, 0>>, 12)
R4b == Route(<<192, 168, 100, 0>>, 24)
R4c == Route(<<100, 100, 100, 200>>, 32)
R6a == Route(<<253, 0, 0, 170, 0, 0, 0, 0, 0, 0, 0, 0, 0, 0, 0, 0>>, 32)
R6b == Route(<<32, 1, 13, 184, 0, 0, 0, 0, 0, 0, 0, 0, 0, 0, 0, 1>>, 128)

(* One allocation: what the back-end says about one interface of the pod.  gw4/gw6: the cloud      *)
(* metadata service's gateway for the ENI's vSwitch (used by the node-local pool only).           *)
Alloc(ifn, def, s4, a4, s6, a6, routes, vid) ==
    [ifname |-> ifn, def |-> def,
     ip4 |-> a4, net4 |-> s4.base, plen4 |-> s4.plen, gw4 |-> Gateway(s4.base, s4.plen),
     ip6 |-> a6, net6 |-> s6.base, plen6 |-> s6.plen, gw6 |-> Gateway(s6.base, s6.plen),
     routes |-> routes, vid |-> vid]

Pod(i, e) == [ingress |-> i, egress |-> e]
Conf(v, ri, ro) == [vlan |-> v, rtin |-> ri, rtout |-> ro]
NoPod == Pod(0, 0)
NoConf == Conf("", 0, 0)

Case(v, allocs, pod, conf) ==
    [fn |-> "add", kind |-> v[1], nettype |-> v[2], trunk |-> v[3], allocs |-> allocs, pod |-> pod, conf |-> conf]

(* Back-end x pod network type x trunking.  local = node-local pool (its answer built from the case; *)
(* the real pool is kind localpool, slice E), crd = CRD multi-IP (Node CR),                         *)
(* podeni = PodENI through the legacy remote back-end, crdpodeni = PodENI through the CRD back-end. *)
SingleOnly == {<<"local", "multiip", FALSE>>, <<"local", "vpceni", FALSE>>, <<"crd", "multiip", FALSE>>}
Multi == {<<k, t, tr>> : k \in {"podeni", "crdpodeni"}, t \in {"multiip", "vpceni"}, tr \in BOOLEAN}
Variants == SingleOnly \cup Multi
MultiQuick == {<<"podeni", "vpceni", FALSE>>, <<"crdpodeni", "multiip", TRUE>>, <<"podeni", "vpceni", TRUE>>}

IfOf(v) == IF v \in SingleOnly THEN "" ELSE "eth0"

------------------------------------------------------------------------
(* Slice A: every back-end x stack x subnet x address position, one interface *)

Stacks ==
    UNION {{<<V4Subs[i], a, NoSub, <<>>>> : a \in Pos(V4Subs[i])} : i \in 1..Len(V4Subs)}
    \cup UNION {{<<NoSub, <<>>, V6Subs[i], a>> : a \in Pos(V6Subs[i])} : i \in 1..Len(V6Subs)}
    \cup (IF Tier = "thorough"
          THEN UNION {UNION {{<<V4Subs[i], a, V6Subs[j], b>> : a \in Pos(V4Subs[i]), b \in Pos(V6Subs[j])}
                             : j \in {((i - 1) % Len(V6Subs)) + 1, (i % Len(V6Subs)) + 1}} : i \in 1..Len(V4Subs)}
          ELSE UNION {LET s4 == V4Subs[i]  s6 == V6Subs[((i - 1) % Len(V6Subs)) + 1]
                      IN {<<s4, a, s6, First(s6)>> : a \in Pos(s4)} \cup {<<s4, First(s4), s6, b>> : b \in Pos(s6)}
                      : i \in 1..Len(V4Subs)})

AVlans(v) == IF Tier = "thorough" THEN {"", "filter", "vlan"} ELSE {IF v[3] THEN "vlan" ELSE ""}
SliceA == UNION {{Case(v, <<Alloc(IfOf(v), TRUE, st[1], st[2], st[3], st[4], <<>>, IF v[3] THEN 7 ELSE 0)>>, NoPod, Conf(vl, 0, 0))
                  : st \in Stacks, vl \in AVlans(v)} : v \in Variants}

------------------------------------------------------------------------
(* Slice B: interface names x default-route flags, 1..3 interfaces (PodENI back-ends) *)

BSub4 == <<S24, S28, S25>>
BSub6 == <<T64, T120, A64>>
BAlloc(i, ifn, def, stack, trunk) ==
    LET s4 == IF stack = "v6" THEN NoSub ELSE BSub4[i]
        s6 == IF stack = "v4" THEN NoSub ELSE BSub6[i]
    IN  Alloc(ifn, def, s4, IF stack = "v6" THEN <<>> ELSE First(s4), s6, IF stack = "v4" THEN <<>> ELSE First(s6),
              <<>>, IF trunk THEN 10 * i ELSE 0)

Names4 == {"", "eth0", "eth1", "net2"}
Names3 == IF Tier = "thorough" THEN Names4 ELSE {"", "eth0", "eth1"}
NameFlag ==
    {<<<<n1>>, <<f1>>>> : n1 \in Names4, f1 \in BOOLEAN}
    \cup {<<<<n1, n2>>, <<f1, f2>>>> : n1 \in Names4, n2 \in Names4, f1 \in BOOLEAN, f2 \in BOOLEAN}
    \cup {<<<<n1, n2, n3>>, <<f1, f2, f3>>>> : n1 \in Names3, n2 \in Names3, n3 \in Names3,
                                            f1 \in BOOLEAN, f2 \in BOOLEAN, f3 \in BOOLEAN}

BVariants == IF Tier = "thorough" THEN Multi ELSE MultiQuick
BStacks == IF Tier = "thorough" THEN {"v4", "v6", "dual"} ELSE {"v4"}
SliceB == {Case(v, [i \in 1..Len(nf[1]) |-> BAlloc(i, nf[1][i], nf[2][i], st, v[3])], NoPod, NoConf)
           : v \in BVariants, nf \in NameFlag, st \in BStacks}
          \cup (IF Tier = "thorough" THEN {}
                ELSE {Case(<<"crdpodeni", "vpceni", TRUE>>, [i \in 1..Len(nf[1]) |-> BAlloc(i, nf[1][i], nf[2][i], "dual", TRUE)], NoPod, NoConf)
                      : nf \in {x \in NameFlag : Len(x[1]) = 2}})

------------------------------------------------------------------------
(* Slice C: CNI configuration (VLAN mode) x runtime bandwidth override x pod limits x back-end *)

Vlans == {"", "filter", "vlan"}
Rates == IF Tier = "thorough" THEN {0, 8000000, 12, 7, 2147483647} ELSE {0, 8000000, 12}
Pods == IF Tier = "thorough" THEN {NoPod, Pod(1250000, 2500000), Pod(0, 1), Pod(2147483647, 0)} ELSE {NoPod, Pod(1250000, 2500000)}
CStack(v, st) ==
    <<Alloc(IfOf(v), TRUE, IF st = "v6" THEN NoSub ELSE S24, IF st = "v6" THEN <<>> ELSE First(S24),
            IF st = "v4" THEN NoSub ELSE T64, IF st = "v4" THEN <<>> ELSE First(T64), <<>>, IF v[3] THEN 42 ELSE 0)>>
SliceC == {Case(v, CStack(v, st), pod, Conf(vl, ri, ro))
           : v \in Variants, vl \in Vlans, ri \in Rates, ro \in Rates, pod \in Pods,
             st \in (IF Tier = "thorough" THEN {"v4", "dual"} ELSE {"v4"})}
          \cup {Case(v, <<BAlloc(1, "eth0", FALSE, "dual", v[3]), BAlloc(2, "eth1", TRUE, "dual", v[3])>>, pod, Conf(vl, rr[1], rr[2]))
                : v \in Multi, vl \in Vlans, rr \in {<<0, 0>>, <<8000000, 12>>, <<0, 16000>>}, pod \in {NoPod, Pod(1250000, 2500000)}}

------------------------------------------------------------------------
(* Slice D: extra routes *)

RouteLists(st) == IF st = "v4" THEN {<<>>, <<R4a>>, <<R4a, R4b>>, <<R4c, R4b, R4a>>}
                  ELSE IF st = "v6" THEN {<<R6a>>, <<R6b, R6a>>}
                  ELSE {<<R6a>>, <<R4a, R6a>>, <<R6b, R4b, R4a>>, <<R4c, R6a, R6b>>}
WithRoutes(a, r) == [a EXCEPT !.routes = r]
SliceD == UNION {{Case(v, <<WithRoutes(BAlloc(1, "eth0", TRUE, st, v[3]), r)>>, NoPod, NoConf) : r \in RouteLists(st)}
                 \cup {Case(v, <<WithRoutes(BAlloc(1, "eth0", TRUE, st, v[3]), r), WithRoutes(BAlloc(2, "eth1", FALSE, st, v[3]), <<R4b>>)>>, NoPod, NoConf)
                       : r \in RouteLists(st)}
                 : v \in Multi, st \in {"v4", "dual"}}
          \cup {Case(v, <<WithRoutes(BAlloc(1, "eth0", TRUE, "v6", v[3]), r)>>, NoPod, NoConf) : v \in Multi, r \in RouteLists("v6")}

------------------------------------------------------------------------
(* Slice E: the node-local pool itself (back-end kind "localpool").                                  *)
(* Unlike kind "local" the allocation of the judged ADD is not built by the harness: the real pool    *)
(* (pkg/eni Local under the real Manager) runs on a fake cloud and lives through a short history      *)
(* before the judged ADD.  The case only says what the ENVIRONMENT answers:                           *)
(*   allocs[1]  subnets, gateways (gw4/gw6, metadata service) and first addresses of the interface   *)
(*              the cloud attaches in the case's subnets, i.e. the one that serves the judged ADD     *)
(*   env.a      another interface A in other subnets, two addresses per family                        *)
(*   env.more4/more6  a second address of the case's subnets                                          *)
(* Like the real cloud the fake one reports an IPv6 subnet and gateway only for an interface that was  *)
(* created with IPv6 addresses.  The pool is one interface slot; stack = the families of allocs[1]:     *)
(* IPv4 or dual (the daemon's configuration check rejects ipStack "ipv6", there is no IPv6-only pool). *)
(*   hist fresh          empty slot: the judged ADD makes the pool create the interface                *)
(*        cached         an earlier pod came and went: the judged ADD is served from idle addresses    *)
(*        shared         an earlier pod lives on the interface and holds its first addresses (more4 =   *)
(*                       primary address, more6); the judged ADD gets further addresses assigned       *)
(*        partial        two earlier pods; the second one left and the pool shrank (only that pod's    *)
(*                       addresses were given back to the cloud), then the first one left              *)
(*        reuse          an earlier pod lived on interface A and left, the pool shrank to nothing (A    *)
(*                       deleted), the judged ADD creates the interface of the case in the same slot   *)
(*        reuse_partial  two earlier pods on A left, the pool shrank by one address, then to nothing   *)
(* The oracle is the one of every other ADD (R1-R5 on the reply).                                     *)

SA4 == Sub(<<10, 200, 7, 0>>, 24)
SA6 == Sub(<<253, 0, 0, 10, 0, 0, 0, 0, 0, 0, 0, 0, 0, 0, 0, 0>>, 64)                \* fd00:a::/64

Iface(s4, as4, s6, as6) ==
    [net4 |-> s4.base, plen4 |-> s4.plen, gw4 |-> Gateway(s4.base, s4.plen), ips4 |-> as4,
     net6 |-> s6.base, plen6 |-> s6.plen, gw6 |-> Gateway(s6.base, s6.plen), ips6 |-> as6]
More(s, a) == IF s = NoSub THEN <<>> ELSE <<CHOOSE x \in Pos(s) \ {a} : TRUE>>
LEnv(st) ==
    [a |-> Iface(SA4, <<First(SA4), AddLast(First(SA4), 1)>>, SA6, <<First(SA6), AddLast(First(SA6), 1)>>),
     more4 |-> More(st[1], st[2]), more6 |-> More(st[3], st[4])]

Hists == {"fresh", "cached", "shared", "partial", "reuse", "reuse_partial"}
LV4 == <<S24, S28, S25>>
LV6 == <<T64, T120, A64>>
PosSeq(s) == SetToSeq(Pos(s))
LDual(ix, k, jx, m) == <<LV4[ix], PosSeq(LV4[ix])[k], LV6[jx], PosSeq(LV6[jx])[m]>>
LStacks ==
    IF Tier = "thorough"
    THEN UNION {{<<LV4[ix], a, NoSub, <<>>>> : a \in Pos(LV4[ix])} : ix \in 1..3}
         \cup {LDual(ix, k, ix, k) : ix \in 1..3, k \in 1..4}
         \cup {LDual(1, 2, 2, 3)}
    ELSE {<<S28, First(S28), NoSub, <<>>>>, LDual(1, 1, 1, 1), LDual(2, 3, 2, 3), LDual(3, 4, 3, 4)}

LCase(st, h) ==
    [fn |-> "add", kind |-> "localpool", nettype |-> "multiip", trunk |-> FALSE,
     allocs |-> <<Alloc("", TRUE, st[1], st[2], st[3], st[4], <<>>, 0)>>, pod |-> NoPod, conf |-> NoConf,
     hist |-> h, env |-> LEnv(st)]
SliceE == {LCase(st, h) : st \in LStacks, h \in Hists}

------------------------------------------------------------------------
(* The datapath selector on its own: every IP type x VLAN mode x trunk flag *)

DpSet == {[fn |-> "datapath", iptype |-> t, vlan |-> vl, trunk |-> tr] : t \in {"vpcip", "vpceni", "multiip"}, vl \in Vlans, tr \in BOOLEAN}

DomSet == SliceA \cup SliceB \cup SliceC \cup SliceD \cup SliceE \cup DpSet
DomSeq == SetToSeq(DomSet)

------------------------------------------------------------------------
(* Relation *)

Primary(name) == name \in {"", "eth0"}
Idx(s) == 1..Len(s)
NumDef(s) == Cardinality({i \in Idx(s) : s[i].def})

(* R1: what the daemon may refuse *)
Consistent(in) == NumDef(in.allocs) <= 1 /\ \E i \in Idx(in.allocs) : Primary(in.allocs[i].ifname)

DataPaths == {"vpcroute", "policyroute", "ipvlan", "exclusiveeni", "vlan"}

RouteBag(rs) == [k \in {<<rs[i].dst, rs[i].plen>> : i \in Idx(rs)} |-> Cardinality({i \in Idx(rs) : <<rs[i].dst, rs[i].plen>> = k})]

SameName(sent, got) == IF Primary(sent) THEN Primary(got) ELSE got = sent

(* one family of one reported NetConf *)
BadFamily(ip, net, plen, gw) ==
    IF ip = <<>> THEN {}
    ELSE (IF InCidr(ip, net, plen) THEN {} ELSE {"address_outside_reported_subnet"})
         \cup (IF gw # <<>> /\ gw = Gateway(net, plen) THEN {} ELSE {"gateway_not_the_reserved_one_of_the_subnet"})
         \cup (IF gw # ip THEN {} ELSE {"gateway_equals_pod_address"})

BadNet(n, in) ==
    BadFamily(n.ip4, n.net4, n.plen4, n.gw4) \cup BadFamily(n.ip6, n.net6, n.plen6, n.gw6)
    \cup (IF n.ip4 # <<>> \/ n.ip6 # <<>> THEN {} ELSE {"netconf_without_address"})
    \cup (IF n.trunk = in.trunk THEN {} ELSE {"trunking_not_reported"})
    \cup (IF n.ingress = in.pod.ingress /\ n.egress = in.pod.egress THEN {} ELSE {"pod_limits_not_sent"})

(* each allocation of the case is present in the reply *)
BadAlloc(a, N, in) ==
    LET m == {j \in Idx(N) : N[j].ip4 = a.ip4 /\ N[j].ip6 = a.ip6}
    IN  IF m = {} THEN {"allocated_address_missing_from_reply"}
        ELSE (IF \A j \in m : SameName(a.ifname, N[j].ifname) THEN {} ELSE {"interface_name_not_sent"})
             \cup (IF \A j \in m : RouteBag(N[j].routes) = RouteBag(a.routes) THEN {} ELSE {"extra_routes_not_sent"})
             \cup (IF NumDef(in.allocs) = 1 /\ a.def /\ ~(\A j \in m : N[j].def) THEN {"default_route_moved_off_the_allocated_interface"} ELSE {})

BadDaemon(in, out) ==
    LET N == out.nets  A == in.allocs IN
    (IF out.success THEN {} ELSE {"reply_not_success"})
    \cup (IF Len(N) = Len(A) THEN {} ELSE {"netconf_count_differs_from_allocations"})
    \cup (IF NumDef(N) = 1 THEN {} ELSE {"default_route_not_exactly_one"})
    \cup (IF \E j \in Idx(N) : Primary(N[j].ifname) THEN {} ELSE {"primary_interface_missing"})
    \cup UNION {BadNet(N[j], in) : j \in Idx(N)}
    \cup UNION {BadAlloc(A[i], N, in) : i \in Idx(A)}

Limit(rt, sent) == IF rt > 0 THEN {rt \div 8, (rt \div 8) + (IF rt % 8 = 0 THEN 0 ELSE 1)} ELSE {sent}

BadSetup(s, n, in) ==
    IF s.err # "" THEN {"plugin_rejected_netconf"}
    ELSE (IF s.dp \in DataPaths THEN {} ELSE {"datapath_unknown"})
         \cup (IF s.dp = s.dpdirect THEN {} ELSE {"datapath_not_determined_by_iptype_trunk_vlan"})
         \cup (IF /\ s.ip4 = n.ip4 /\ s.plen4 = n.plen4 /\ s.gw4 = n.gw4
                  /\ s.ip6 = n.ip6 /\ s.plen6 = n.plen6 /\ s.gw6 = n.gw6 THEN {} ELSE {"addresses_not_recovered"})
         \cup (IF /\ s.def = n.def
                  /\ RouteBag(s.routes) = RouteBag(n.routes)
                  /\ \A i \in Idx(s.routes) : s.routes[i].gw \in {<<>>, IF Len(s.routes[i].dst) = 4 THEN s.gw4 ELSE s.gw6}
               THEN {} ELSE {"routes_not_recovered"})
         \cup (IF s.ingress \in Limit(in.conf.rtin, n.ingress) /\ s.egress \in Limit(in.conf.rtout, n.egress)
               THEN {} ELSE {"limits_not_recovered"})
         \cup (IF s.ifname = (IF n.ifname = "" THEN "eth0" ELSE n.ifname) THEN {} ELSE {"interface_name_not_recovered"})

BadDown(d, n) ==
    IF d.err # "" THEN {"plugin_rejected_netconf_at_teardown"}
    ELSE IF d.ip4 = n.ip4 /\ d.plen4 = n.plen4 /\ d.ip6 = n.ip6 /\ d.plen6 = n.plen6 THEN {} ELSE {"teardown_addresses_not_recovered"}

BadPlugin(in, out) ==
    LET N == out.nets  S == out.setups  D == out.downs IN
    IF Len(S) # Len(N) THEN {"harness_shape"}
    ELSE UNION {BadSetup(S[j], N[j], in) : j \in Idx(N)}
         \cup (IF N = <<>> \/ \E j \in Idx(S) : S[j].err = "" /\ S[j].ifname = "eth0" THEN {} ELSE {"primary_interface_missing_in_plugin"})
         \cup (IF Len(D) # Len(N) THEN {"stored_netconf_count_differs"} ELSE UNION {BadDown(D[j], N[j]) : j \in Idx(N)})

BadAdd(in, out) ==
    IF out.err # "" THEN (IF Consistent(in) THEN {"add_refused_for_consistent_allocation"} ELSE {})
    ELSE IF out.conferr # "" THEN {"plugin_could_not_load_its_configuration"}
    ELSE BadDaemon(in, out) \cup BadPlugin(in, out)

Bad(c) ==
    IF c.panic # "" THEN {"panic"}
    ELSE LET in == c.in  out == c.out IN
    CASE in.fn = "add" -> BadAdd(in, out)
      [] in.fn = "datapath" ->
            (IF \A i \in Idx(out.dps) : out.dps[i] \in DataPaths THEN {} ELSE {"datapath_unknown"})
            \cup (IF \A i \in Idx(out.dps) : out.dps[i] = out.dps[1] THEN {} ELSE {"datapath_depends_on_history"})
            \cup (IF Len(out.dps) >= 1 THEN {} ELSE {"harness_shape"})
      [] OTHER -> {"unknown_case"}

------------------------------------------------------------------------
(* Sanity of the oracle itself, checked by TLC when the domain is generated. *)
ASSUME Gateway(<<192, 168, 1, 0>>, 24) = <<192, 168, 1, 253>>
ASSUME Gateway(<<10, 0, 5, 4>>, 30) = <<10, 0, 5, 5>>
ASSUME Gateway(<<10, 0, 5, 16>>, 28) = <<10, 0, 5, 29>>
ASSUME Gateway(<<172, 16, 130, 128>>, 25) = <<172, 16, 130, 253>>
ASSUME Gateway(T64.base, 64) = <<253, 0, 0, 0, 0, 0, 0, 1, 255, 255, 255, 255, 255, 255, 255, 253>>
ASSUME Gateway(T120.base, 120) = <<253, 0, 0, 0, 0, 0, 0, 0, 0, 0, 0, 1, 0, 2, 3, 253>>
ASSUME Gateway(<<>>, 0) = <<>>
ASSUME Pos(S30) = {<<10, 0, 5, 6>>}
ASSUME Pos(S24) = {<<192, 168, 1, 1>>, <<192, 168, 1, 128>>, <<192, 168, 1, 252>>, <<192, 168, 1, 254>>}
ASSUME \A i \in Idx(V4Subs) : Pos(V4Subs[i]) # {} /\ \A a \in Pos(V4Subs[i]) : InCidr(a, V4Subs[i].base, V4Subs[i].plen)
ASSUME \A i \in Idx(V6Subs) : Pos(V6Subs[i]) # {} /\ \A a \in Pos(V6Subs[i]) : InCidr(a, V6Subs[i].base, V6Subs[i].plen)
ASSUME InCidr(<<10, 0, 5, 30>>, <<10, 0, 5, 16>>, 28) /\ ~InCidr(<<10, 0, 5, 32>>, <<10, 0, 5, 16>>, 28)
ASSUME ~InCidr(<<>>, <<>>, 0)
ASSUME \A ix \in 1..3 : Cardinality(Pos(LV4[ix])) = 4 /\ Cardinality(Pos(LV6[ix])) = 4
ASSUME \A c \in SliceE : LET a == c.allocs[1] IN
          /\ a.ip4 # <<>>
          /\ c.env.more4 # <<a.ip4>> /\ InCidr(c.env.more4[1], a.net4, a.plen4) /\ ~InCidr(c.env.a.ips4[1], a.net4, a.plen4)
          /\ a.ip6 # <<>> => c.env.more6 # <<a.ip6>> /\ InCidr(c.env.more6[1], a.net6, a.plen6) /\ ~InCidr(c.env.a.ips6[1], a.net6, a.plen6)
ASSUME Cardinality(SliceE) = Cardinality(LStacks) * 6 /\ Cardinality(LStacks) = (IF Tier = "thorough" THEN 25 ELSE 4)
ASSUME Limit(0, 5) = {5} /\ Limit(8000000, 5) = {1000000} /\ Limit(12, 5) = {1, 2} /\ Limit(7, 5) = {0, 1}
ASSUME RouteBag(<<R4a, R4b>>) = RouteBag(<<R4b, R4a>>) /\ RouteBag(<<R4a, R4a>>) # RouteBag(<<R4a>>)
ASSUME Consistent([allocs |-> <<[ifname |-> "", def |-> FALSE]>>])
ASSUME ~Consistent([allocs |-> <<[ifname |-> "eth1", def |-> TRUE]>>])
ASSUME ~Consistent([allocs |-> <<[ifname |-> "eth0", def |-> TRUE], [ifname |-> "eth1", def |-> TRUE]>>])
ASSUME Consistent([allocs |-> <<[ifname |-> "eth0", def |-> FALSE], [ifname |-> "eth1", def |-> TRUE]>>])
ASSUME BadFamily(<<10, 0, 5, 17>>, <<10, 0, 5, 16>>, 28, <<10, 0, 5, 29>>) = {}
ASSUME BadFamily(<<10, 0, 5, 29>>, <<10, 0, 5, 16>>, 28, <<10, 0, 5, 29>>) = {"gateway_equals_pod_address"}
ASSUME BadFamily(<<10, 0, 5, 17>>, <<10, 0, 5, 16>>, 28, <<10, 0, 5, 30>>) = {"gateway_not_the_reserved_one_of_the_subnet"}
ASSUME BadFamily(<<10, 0, 5, 33>>, <<10, 0, 5, 16>>, 28, <<10, 0, 5, 29>>) = {"address_outside_reported_subnet"}
=============================================================================
