-------------------------------- MODULE Ipam --------------------------------
(* C02 / C03 / C08 - centralized (cluster) IPAM: the controller that owns the per-node IPAM record  *)
(* (Node CR status), the node agent's side of the protocol (NodeRuntime reports) and their shared    *)
(* dependencies, at the grain of externally visible steps:                                            *)
(*   - environment: pod created / gone / exited / reports its addresses, kubelet's CNI ADD and DEL,   *)
(*     cloud drift, controller restart, the clock (timestamps ageing);                                 *)
(*   - node agent: result of an ADD (what it read back from the record), a processed DEL, every write  *)
(*     of the NodeRuntime object, every "does this pod still exist" look-up of its garbage collector;   *)
(*   - controller: every OpenAPI call (begin with arguments / end with result and effect), every        *)
(*     attempt to write the record, and the record as published after each reconcile (logged whole).    *)
(* What the controller does in memory between two published records is not state of this               *)
(* specification: a new record is accepted whenever the *difference* to the previous one is allowed.    *)
(* Every conjunct is an interface fact (I) or a clause of a listed property, G("Cxx", clause).         *)
(*                                                                                                     *)
(* Lenient readings (where the property text leaves room, the weaker demand is encoded):               *)
(*  - a pod is identified by namespace/name in the record; "the pod still exists" = an object of that   *)
(*    name exists on the node and its sandbox has not exited (phase Succeeded/Failed counts as gone);   *)
(*    a binding whose UID is refreshed to a same-named successor pod is not an unbinding;               *)
(*  - C02 "only valid addresses on in-use interfaces", RDMA segregation and "never another address" are *)
(*    demanded of NEW bindings; a reported address is adopted as is (take-over);                        *)
(*  - C03 does not cover addresses that were removed in the cloud behind the controller's back, nor     *)
(*    legacy bindings without a pod UID (they carry nothing a teardown report could refer to);          *)
(*  - C03 "teardown reported" = the NodeRuntime entry of that pod UID has `deleted` as its latest        *)
(*    timestamp (a tie counts as reported).  One strict clause is added (StaleReport below): a report    *)
(*    that predates a later successful ADD of the same pod UID is not a report of *the* teardown once    *)
(*    the agent has had a flush opportunity to correct it;                                               *)
(*  - C08 quotas are judged on what the controller can know: the published record plus what the cloud    *)
(*    told it during the current reconcile (results of its calls, a describe); the idle band is judged   *)
(*    on the primary family, its upper end on non-primary addresses (a primary address cannot be         *)
(*    unassigned), its lower end only while something can still grow.                                    *)
EXTENDS Integers, FiniteSets, Sequences, TLC

CONSTANTS Pods,     \* pod names (naturals >= 1)
          Uids,     \* pod UIDs (naturals >= 1; 0 = none)
          Enis,     \* interface ids (naturals >= 1)
          Enforce   \* subset of {"C02", "C03", "C08"}

G(p, clause) == IF p \in Enforce THEN clause ELSE TRUE

NoEni == [on |-> FALSE, att |-> FALSE, type |-> "", rdma |-> FALSE, primary |-> 0, v4 |-> {}, v6 |-> {}]
NoPod == [u |-> 0, live |-> FALSE, rdma |-> FALSE, r4 |-> 0, r6 |-> 0]
NoRt  == [ini |-> 0, del |-> 0]
NoGiven == [e |-> 0, a4 |-> 0, a6 |-> 0, p |-> 0]

VARIABLES conf,    \* [v4, v6, cap4, cap6, sec, trunk, rdma, min, max, maxEni]
          cloud,   \* cloud[e]: [on, att, type, rdma, primary, v4, v6]
          crE,     \* published record, interfaces: set of [e, st, type, rdma]
          crI,     \* published record, addresses: set of [e, a, p, u, st, prim]   (p = 0: unbound)
          pods,    \* pods[p]: [u, live, rdma, r4, r6]   (u = 0: no object of that name)
          rt,      \* NodeRuntime: rt[u] = [ini, del] time stamps (0 = absent)
          up,      \* up[u]: a sandbox of pod UID u is up (ADD acknowledged, no DEL processed since)
          given,   \* given[u]: what the last acknowledged ADD of u handed out
          delp,    \* UIDs whose DEL the agent processed and that had no successful ADD since
          told,    \* UIDs with a sandbox up for which the agent has had a successful flush opportunity since the ADD
          absent,  \* pod names the agent's gc verified absent since its last NodeRuntime write
          seen,    \* what the controller learned from the cloud in the current reconcile: <<e, a>> addresses, <<e, 0>> interfaces
          rg,      \* <<e, a>> removed in the cloud behind the controller's back since they were last assigned
          fresh,   \* what the controller itself obtained from the cloud since the record was last published: <<e, 0>> interfaces
                   \* created, <<e, a>> addresses it was handed - kept across a failed record write (the controller remembers
                   \* that it has to re-sync) until it lists the interfaces again or restarts
          wr,      \* outcome of the record write of the current reconcile: "none" | "ok" | "fail"
          healthy  \* the drain began: no more faults

vars == <<conf, cloud, crE, crI, pods, rt, up, given, delp, told, absent, seen, rg, fresh, wr, healthy>>

Fam(a) == IF a < 100 THEN 4 ELSE 6
CapOf(f) == IF f = 4 THEN conf.cap4 ELSE conf.cap6
FamOn(f) == IF f = 4 THEN conf.v4 ELSE conf.v6
Addrs(e) == cloud[e].v4 \cup cloud[e].v6
FamSet(e, f) == IF f = 4 THEN cloud[e].v4 ELSE cloud[e].v6
(* what the controller can know of an interface: the published record plus what this reconcile was told *)
Known(e, f) == { a \in FamSet(e, f) : <<e, a>> \in seen \/ <<e, a>> \in fresh \/ \E x \in crI : x.e = e /\ x.a = a }
Attached == { e \in Enis : cloud[e].on /\ cloud[e].att }

Final(u) == LET r == rt[u] IN
            IF r.del = 0 THEN (IF r.ini = 0 THEN "none" ELSE "initial")
            ELSE IF r.del > r.ini THEN "deleted" ELSE IF r.del = r.ini THEN "tie" ELSE "initial"
Reported(u) == u \in Uids /\ Final(u) \in {"deleted", "tie"}
PodLive(p) == p \in Pods /\ pods[p].u # 0 /\ pods[p].live

EniRec(E, e) == CHOOSE y \in E : y.e = e
HasEni(E, e) == \E y \in E : y.e = e
EniSt(E, e) == IF HasEni(E, e) THEN EniRec(E, e).st ELSE "absent"
EniRdma(E, e) == HasEni(E, e) /\ EniRec(E, e).rdma
Bound(I) == { x \in I : x.p # 0 }
Doomed(st) == st \in {"Deleting", "Detaching"}

(* The strict clause: a `deleted` stamp that predates a later successful ADD of the same UID does not report the *)
(* teardown of the sandbox that is up now - once the agent has had a (successful) flush opportunity after that ADD. *)
StaleReport(u) == u \in Uids /\ up[u] /\ u \in told

(* May the controller take this bound entry away from its pod (unbind, re-bind, mark for deletion, drop, unassign)? *)
Reclaimable(x) ==
    \/ <<x.e, x.a>> \in rg                                     \* lenient: the address is already gone in the cloud
    \/ /\ ~PodLive(x.p)                                         \* the pod is gone ...
       /\ (x.u = 0 \/ Reported(x.u))                            \* ... and its teardown is reported (legacy entries: no UID)
       /\ (x.u = 0 \/ ~StaleReport(x.u))                        \* ... by a report that is not stale

OneToOne(I) == \A x, y \in Bound(I) :
                  /\ (x.a = y.a => x = y)                                           \* an address has one pod (addresses are unique per node)
                  /\ (x.p = y.p /\ Fam(x.a) = Fam(y.a) => x = y)                    \* a pod has one address per family
SameEni(I) == \A x, y \in Bound(I) : x.p = y.p => x.e = y.e                          \* dual stack: both from one interface

Init == /\ conf = [v4 |-> TRUE, v6 |-> FALSE, cap4 |-> 0, cap6 |-> 0, sec |-> 0, trunk |-> FALSE, rdma |-> 0, min |-> 0, max |-> 0, maxEni |-> 0]
        /\ cloud = [e \in Enis |-> NoEni]
        /\ crE = {} /\ crI = {}
        /\ pods = [p \in Pods |-> NoPod]
        /\ rt = [u \in Uids |-> NoRt]
        /\ up = [u \in Uids |-> FALSE]
        /\ given = [u \in Uids |-> NoGiven]
        /\ delp = {} /\ told = {} /\ absent = {} /\ seen = {} /\ rg = {} /\ fresh = {}
        /\ wr = "none" /\ healthy = FALSE

(* A run starts.  ps: initial pods, each with what its running sandbox holds (take-over of a previous version). *)
Reset(c, cl, E, I, ps, ups, gv) ==
    /\ conf' = c /\ cloud' = cl /\ crE' = E /\ crI' = I /\ pods' = ps
    /\ rt' = [u \in Uids |-> NoRt]
    /\ up' = ups /\ given' = gv
    /\ delp' = {} /\ told' = {} /\ absent' = {} /\ seen' = {} /\ rg' = {} /\ fresh' = {}
    /\ wr' = "none" /\ healthy' = FALSE

(* ------------------------------------------------------------------ environment: pods and kubelet *)

PodCreate(p, u, rdma) ==
    /\ pods[p].u = 0                                                                                \* (I)
    /\ pods' = [pods EXCEPT ![p] = [u |-> u, live |-> TRUE, rdma |-> rdma, r4 |-> 0, r6 |-> 0]]
    /\ UNCHANGED <<conf, cloud, crE, crI, rt, up, given, delp, told, absent, seen, rg, fresh, wr, healthy>>

PodGone(p, u) ==
    /\ pods[p].u = u                                                                                \* (I)
    /\ pods' = [pods EXCEPT ![p] = NoPod]
    /\ UNCHANGED <<conf, cloud, crE, crI, rt, up, given, delp, told, absent, seen, rg, fresh, wr, healthy>>

PodExit(p, u) ==
    /\ pods[p].u = u
    /\ pods' = [pods EXCEPT ![p].live = FALSE]
    /\ UNCHANGED <<conf, cloud, crE, crI, rt, up, given, delp, told, absent, seen, rg, fresh, wr, healthy>>

PodReport(p, u, r4, r6) ==
    /\ pods[p].u = u
    /\ pods' = [pods EXCEPT ![p].r4 = r4, ![p].r6 = r6]
    /\ UNCHANGED <<conf, cloud, crE, crI, rt, up, given, delp, told, absent, seen, rg, fresh, wr, healthy>>

(* The node agent answered a CNI ADD for pod p (UID u) from the published record. *)
CniAdd(p, u, ok, e, a4, a6) ==
    /\ pods[p].u = u                                                                                \* (I) kubelet only adds pods that exist
    /\ IF ok THEN
          /\ G("C02", a4 # 0 \/ a6 # 0)
          /\ G("C02", \A a \in {a4, a6} \ {0} :                                                     \* exactly what the record binds to this pod:
                 \E x \in crI : /\ x.e = e /\ x.a = a /\ x.p = p /\ x.u \in {0, u}                  \*   same pod (and UID when recorded),
                                /\ x.st = "Valid" /\ EniSt(crE, e) = "InUse")                       \*   valid, on an in-use interface
          /\ G("C02", (a4 # 0 => Fam(a4) = 4) /\ (a6 # 0 => Fam(a6) = 6))
          /\ up' = [up EXCEPT ![u] = TRUE]
          /\ given' = [given EXCEPT ![u] = [e |-> e, a4 |-> a4, a6 |-> a6, p |-> p]]
          /\ delp' = delp \ {u} /\ told' = told \ {u}
       ELSE UNCHANGED <<up, given, delp, told>>
    /\ UNCHANGED <<conf, cloud, crE, crI, pods, rt, absent, seen, rg, fresh, wr, healthy>>

(* The node agent processed a CNI DEL for pod UID u. *)
CniDel(p, u) ==
    /\ up' = [up EXCEPT ![u] = FALSE]
    /\ delp' = delp \cup {u} /\ told' = told \ {u}
    /\ UNCHANGED <<conf, cloud, crE, crI, pods, rt, given, absent, seen, rg, fresh, wr, healthy>>

(* One tick of the agent's report timer ended (ok: nothing to do, or everything written). *)
Flush(ok) ==
    /\ told' = IF ok THEN told \cup { u \in Uids : up[u] } ELSE told
    /\ UNCHANGED <<conf, cloud, crE, crI, pods, rt, up, given, delp, absent, seen, rg, fresh, wr, healthy>>

(* The agent's gc asked the API server whether pod p exists. *)
PodExist(p, res) ==
    /\ res = (pods[p].u # 0)                                                                        \* (I)
    /\ absent' = IF res THEN absent \ {p} ELSE absent \cup {p}
    /\ UNCHANGED <<conf, cloud, crE, crI, pods, rt, up, given, delp, told, seen, rg, fresh, wr, healthy>>

GcDone ==
    /\ absent' = {}
    /\ UNCHANGED <<conf, cloud, crE, crI, pods, rt, up, given, delp, told, seen, rg, fresh, wr, healthy>>

(* The NodeRuntime object was written.  nrt: the new content; pn[u]: the pod name recorded for u; loc: the pod UIDs  *)
(* the agent holds a sandbox record for at that moment.  by = "daemon": the node agent; "clock": time passes.         *)
RtWrite(by, nrt, pn, loc) ==
    /\ IF by = "daemon" THEN
          G("C03", \A u \in Uids : nrt[u].del > rt[u].del =>                                         \* a new teardown report only for a pod
                 \/ u \in delp                                                                       \*   whose DEL was processed (and not followed by an ADD),
                 \/ (pn[u] \in absent /\ u \notin loc))                                              \*   or that was verified absent and has no local record
       ELSE \A u \in Uids : nrt[u].del = rt[u].del                                                   \* (I)
    /\ rt' = nrt
    /\ absent' = IF by = "daemon" THEN {} ELSE absent
    /\ UNCHANGED <<conf, cloud, crE, crI, pods, up, given, delp, told, seen, rg, fresh, wr, healthy>>

(* ------------------------------------------------------------------ controller: the published record *)

ReconcileBegin ==
    /\ wr' = "none" /\ seen' = {}
    /\ UNCHANGED <<conf, cloud, crE, crI, pods, rt, up, given, delp, told, absent, rg, fresh, healthy>>

CrWrite(ok) ==
    /\ wr' = IF ok THEN "ok" ELSE "fail"
    /\ UNCHANGED <<conf, cloud, crE, crI, pods, rt, up, given, delp, told, absent, seen, rg, fresh, healthy>>

(* The reconcile gave up before it looked at the pods (listing the interfaces failed): its record is not judged for obligations. *)
EarlyReturn == CrWrite(FALSE)

Restart ==
    /\ fresh' = {}                                                                                   \* the controller's memory is gone
    /\ UNCHANGED <<conf, cloud, crE, crI, pods, rt, up, given, delp, told, absent, seen, rg, wr, healthy>>

IsNew(y) == ~\E x \in crI : x.e = y.e /\ x.a = y.a /\ x.p = y.p
TakeOver(y) == y.p \in Pods /\ ((Fam(y.a) = 4 /\ pods[y.p].r4 = y.a) \/ (Fam(y.a) = 6 /\ pods[y.p].r6 = y.a))
Kept(x, NI) == \E y \in NI : y.e = x.e /\ y.a = x.a /\ y.p = x.p
Marked(x, NE, NI) == \/ \E y \in NI : y.e = x.e /\ y.a = x.a /\ y.p = x.p /\ y.st = "Deleting" /\ x.st # "Deleting"
                     \/ (Doomed(EniSt(NE, x.e)) /\ ~Doomed(EniSt(crE, x.e)))

(* The record as read back after a reconcile: NE interfaces, NI addresses. *)
CrUpdate(NE, NI) ==
    \* ---- C02: the binding relation of the published record
    /\ G("C02", OneToOne(NI))
    /\ G("C02", SameEni(NI))
    /\ G("C02", \A y \in Bound(NI) : IsNew(y) =>
            /\ y.p \in Pods
            /\ \/ TakeOver(y)                                                                        \* the address the pod reports: adopted as is
               \/ /\ y.st = "Valid" /\ EniSt(NE, y.e) = "InUse"                                      \* otherwise: valid, on an in-use interface,
                  /\ (IF pods[y.p].rdma THEN EniRdma(NE, y.e) ELSE (conf.rdma > 0 => ~EniRdma(NE, y.e)))   \* RDMA pods on RDMA interfaces only and vice versa,
                  /\ (Fam(y.a) = 4 => pods[y.p].r4 \in {0, y.a})                                     \* and never another address than the one reported
                  /\ (Fam(y.a) = 6 => pods[y.p].r6 \in {0, y.a}))
    /\ G("C02", \A y \in Bound(NI) : PodLive(y.p) /\ Doomed(EniSt(NE, y.e)) => Doomed(EniSt(crE, y.e)))   \* an interface is not given up (marked for
                                                                                                      \*  deletion) while an address on it is bound to a pod that exists
    /\ G("C02", \A y \in Bound(NI) : IsNew(y) =>                                                     \* an address that another existing pod reports is not given away
            \A q \in Pods \ {y.p} : PodLive(q) => y.a \notin {pods[q].r4, pods[q].r6})
    /\ G("C02", wr # "fail" => \A q \in Pods : PodLive(q) => \A a \in {pods[q].r4, pods[q].r6} \ {0} :    \* re-adoption: a reported address that the record holds
            \A y \in NI : y.a = a /\ FamOn(Fam(a)) /\ ~(\E x \in crI : x.e = y.e /\ x.a = a /\ x.p \notin {0, q})   \*  (not owned by somebody else before) is bound to that pod
                        => y.p = q)
    \* ---- C03: nothing is taken from a pod that still exists or whose teardown is not reported
    /\ G("C03", \A x \in Bound(crI) : (~Kept(x, NI) \/ Marked(x, NE, NI)) => Reclaimable(x))
    \* ---- C08: the record forgets an address it had marked for deletion only once the cloud no longer has it
    /\ G("C08", \A x \in crI : x.st = "Deleting" /\ HasEni(NE, x.e) /\ cloud[x.e].on /\ ~(\E y \in NI : y.e = x.e /\ y.a = x.a)
                      => x.a \notin Addrs(x.e))
    \* ---- C08: an interface created since the last published record and still existing is recorded (in use or for deletion)
    /\ G("C08", wr # "fail" => \A x \in fresh : x[2] = 0 /\ cloud[x[1]].on => HasEni(NE, x[1]))
    /\ crE' = NE /\ crI' = NI
    /\ fresh' = IF wr = "fail" THEN { x \in fresh : cloud[x[1]].on /\ (x[2] = 0 \/ x[2] \in Addrs(x[1])) } ELSE {}
    /\ rg' = { r \in rg : \/ r[2] \notin Addrs(r[1])                                                  \* the exemption lasts while the address is gone,
                           \/ (\E y \in Bound(NI) : y.e = r[1] /\ y.a = r[2])                         \* while the record still binds it,
                           \/ (\E u \in Uids : up[u] /\ given[u].e = r[1] /\ r[2] \in {given[u].a4, given[u].a6}) }   \* or a sandbox still holds it
    /\ UNCHANGED <<conf, cloud, pods, rt, up, given, delp, told, absent, seen, wr, healthy>>

(* ------------------------------------------------------------------ controller: OpenAPI calls *)

Recorded == { e \in Enis : HasEni(crE, e) }
Slots == { e \in Attached : e \in Recorded \/ <<e, 0>> \in seen } \cup { e \in Enis : <<e, 0>> \in fresh /\ cloud[e].on }      \* interfaces the controller can know to occupy a slot

CreateBegin(n4, n6, type, rdma) ==
    /\ G("C08", n4 <= (IF conf.v4 THEN conf.cap4 ELSE 1) /\ n6 <= conf.cap6)                         \* addresses per interface
    /\ G("C08", Cardinality(Slots) < conf.maxEni)                                                    \* interfaces per node
    /\ G("C08", LET keep == { e \in Slots : ~Doomed(EniSt(crE, e)) } IN                               \* ... and per flavor (lenient: an interface
                IF type = "Trunk" THEN conf.trunk /\ ~\E e \in keep : cloud[e].type = "Trunk"          \*  recorded for deletion counts for the node
                ELSE IF rdma THEN Cardinality({ e \in keep : cloud[e].rdma }) < conf.rdma              \*  total but no longer for its flavor)
                ELSE Cardinality({ e \in keep : cloud[e].type = "Secondary" /\ ~cloud[e].rdma }) < conf.sec)
    /\ UNCHANGED vars

CreateEnd(e, type, rdma, primary, v4s, v6s) ==
    /\ IF e = 0 THEN UNCHANGED <<cloud, fresh>>
       ELSE /\ ~cloud[e].on                                                                          \* (I)
            /\ cloud' = [cloud EXCEPT ![e] = [on |-> TRUE, att |-> FALSE, type |-> type, rdma |-> rdma, primary |-> primary, v4 |-> v4s, v6 |-> v6s]]
            /\ fresh' = fresh \cup {<<e, 0>>} \cup { <<e, a>> : a \in v4s \cup v6s }
    /\ seen' = IF e = 0 THEN seen ELSE seen \cup { <<e, a>> : a \in v4s \cup v6s }
    /\ UNCHANGED <<conf, crE, crI, pods, rt, up, given, delp, told, absent, rg, wr, healthy>>

Attach(e, effect) ==
    /\ cloud' = IF effect THEN [cloud EXCEPT ![e].att = TRUE] ELSE cloud
    /\ UNCHANGED <<conf, crE, crI, pods, rt, up, given, delp, told, absent, seen, rg, fresh, wr, healthy>>

AssignBegin(e, f, n) ==
    /\ G("C08", n >= 1 /\ Cardinality(Known(e, f)) + n <= CapOf(f))                                  \* addresses per interface
    /\ UNCHANGED vars

AssignEnd(e, f, as, toldCaller) ==
    /\ cloud' = [cloud EXCEPT ![e] = IF f = 4 THEN [@ EXCEPT !.v4 = @ \cup as] ELSE [@ EXCEPT !.v6 = @ \cup as]]
    /\ seen' = IF toldCaller THEN seen \cup { <<e, a>> : a \in as } ELSE seen                          \* a time-out after the effect tells the caller nothing
    /\ fresh' = IF toldCaller THEN fresh \cup { <<e, a>> : a \in as } ELSE fresh
    /\ UNCHANGED <<conf, crE, crI, pods, rt, up, given, delp, told, absent, rg, wr, healthy>>

UnassignBegin(e, f, as) ==
    /\ G("C03", \A x \in Bound(crI) : x.e = e /\ x.a \in as => Reclaimable(x))                       \* never an address of a pod that may still use it
    /\ G("C08", cloud[e].on => cloud[e].primary \notin as)                                           \* trimming never touches the primary address
    /\ UNCHANGED vars

UnassignEnd(e, f, as, effect) ==
    /\ cloud' = IF effect THEN [cloud EXCEPT ![e] = [@ EXCEPT !.v4 = @ \ as, !.v6 = @ \ as]] ELSE cloud
    /\ fresh' = IF effect THEN fresh \ { <<e, a>> : a \in as } ELSE fresh
    /\ UNCHANGED <<conf, crE, crI, pods, rt, up, given, delp, told, absent, seen, rg, wr, healthy>>

Detach(e, effect) ==
    /\ G("C03", \A x \in Bound(crI) : x.e = e => Reclaimable(x))
    /\ cloud' = IF effect THEN [cloud EXCEPT ![e].att = FALSE] ELSE cloud
    /\ UNCHANGED <<conf, crE, crI, pods, rt, up, given, delp, told, absent, seen, rg, fresh, wr, healthy>>

DeleteBegin(e) ==
    /\ G("C03", \A x \in Bound(crI) : x.e = e => Reclaimable(x))
    /\ UNCHANGED vars

DeleteEnd(e, effect) ==
    /\ cloud' = IF effect THEN [cloud EXCEPT ![e] = NoEni] ELSE cloud
    /\ fresh' = IF effect THEN { x \in fresh : x[1] # e } ELSE fresh
    /\ UNCHANGED <<conf, crE, crI, pods, rt, up, given, delp, told, absent, seen, rg, wr, healthy>>

(* The controller listed the instance's interfaces: for the rest of this reconcile it knows them and every address on them. *)
Describe ==
    /\ seen' = seen \cup { <<e, 0>> : e \in Attached } \cup UNION { { <<e, a>> : a \in Addrs(e) } : e \in Attached }
    /\ fresh' = {}
    /\ UNCHANGED <<conf, cloud, crE, crI, pods, rt, up, given, delp, told, absent, rg, wr, healthy>>

DriftRemove(e, a) ==
    /\ cloud[e].on /\ a \in Addrs(e) /\ a # cloud[e].primary
    /\ cloud' = [cloud EXCEPT ![e] = [@ EXCEPT !.v4 = @ \ {a}, !.v6 = @ \ {a}]]
    /\ rg' = rg \cup {<<e, a>>}
    /\ UNCHANGED <<conf, crE, crI, pods, rt, up, given, delp, told, absent, seen, fresh, wr, healthy>>

DriftAdd(e, a) ==
    /\ cloud[e].on
    /\ cloud' = [cloud EXCEPT ![e] = IF Fam(a) = 4 THEN [@ EXCEPT !.v4 = @ \cup {a}] ELSE [@ EXCEPT !.v6 = @ \cup {a}]]
    /\ UNCHANGED <<conf, crE, crI, pods, rt, up, given, delp, told, absent, seen, rg, fresh, wr, healthy>>

(* The node's configuration was changed (e.g. switched to dual stack while pods are running). *)
ConfChange(c) ==
    /\ conf' = c
    /\ UNCHANGED <<cloud, crE, crI, pods, rt, up, given, delp, told, absent, seen, rg, fresh, wr, healthy>>

(* ------------------------------------------------------------------ observations after the drain *)

Drain ==
    /\ healthy' = TRUE
    /\ UNCHANGED <<conf, cloud, crE, crI, pods, rt, up, given, delp, told, absent, seen, rg, fresh, wr>>

PF == IF conf.v4 THEN 4 ELSE 6                                                                        \* the family the pool is sized on
Entries(e, f) == { x \in crI : x.e = e /\ Fam(x.a) = f }
IdleOn(e, f) == { x \in Entries(e, f) : x.p = 0 /\ x.st = "Valid" }
InUseEnis == { y \in crE : y.st = "InUse" }
HasAll(p) == /\ (conf.v4 => \E x \in crI : x.p = p /\ Fam(x.a) = 4)
             /\ (conf.v6 => \E x \in crI : x.p = p /\ Fam(x.a) = 6)
ClassOk(y, rd) == IF rd THEN y.rdma ELSE (conf.rdma > 0 => ~y.rdma)
FreeSlot(rd) == /\ Cardinality(crE) < conf.maxEni
                /\ IF rd THEN Cardinality({ y \in crE : y.rdma }) < conf.rdma
                   ELSE \/ Cardinality({ y \in crE : y.type = "Secondary" /\ ~y.rdma }) < conf.sec
                        \/ (conf.trunk /\ ~\E y \in crE : y.type = "Trunk")
(* room for one more pod of that class: an in-use interface of the class that has, for every enabled family, an idle *)
(* valid address or is below its quota - or a free interface slot of the class                                       *)
Room(rd) == \/ FreeSlot(rd)
            \/ \E y \in InUseEnis : ClassOk(y, rd) /\ \A f \in {4, 6} : FamOn(f) =>
                     (IdleOn(y.e, f) # {} \/ Cardinality(Entries(y.e, f)) < CapOf(f))
Eligible(p) == /\ PodLive(p)
               /\ (pods[p].r4 # 0 => \E x \in crI : x.a = pods[p].r4)                                 \* a pod reporting an address the record lost
               /\ (pods[p].r6 # 0 => \E x \in crI : x.a = pods[p].r6)                                 \*   keeps it or nothing (take-over rule)
CanGrow == \/ FreeSlot(FALSE)
           \/ \E y \in InUseEnis : ClassOk(y, FALSE) /\ Cardinality(Entries(y.e, PF)) < CapOf(PF)

(* Repeated reconciliation under a healthy cloud came to rest (or did not: stable = FALSE). *)
Fixpoint(stable) ==
    LET idleAll == UNION { IdleOn(y.e, PF) : y \in InUseEnis }
        idleNP == { x \in idleAll : ~x.prim }
    IN
    /\ healthy                                                                                        \* (I)
    /\ G("C08", stable)                                                                               \* a further reconcile changes nothing and issues no cloud mutation
    /\ G("C08", \A e \in Enis : cloud[e].on => cloud[e].att /\ (HasEni(crE, e) => EniSt(crE, e) = "InUse"))   \* nothing created is left over unattached / half-deleted
                                                                                                      \* (attached but unrecorded after lost status writes: judged at Synced)
    /\ G("C08", \A y \in crE : cloud[y.e].on)
    /\ G("C08", \A p \in Pods : Eligible(p) => HasAll(p) \/ ~Room(pods[p].rdma))                      \* every eligible pod has its address(es)
    /\ G("C08", Cardinality(idleNP) <= conf.max)                                                      \* idle addresses within the band
    /\ G("C08", Cardinality(idleAll) < conf.min => ~CanGrow)
    /\ G("C03", \A x \in Bound(crI) : <<x.e, x.a>> \notin rg =>                                       \* gone and teardown reported: the address became free
            \/ PodLive(x.p)
            \/ (x.u # 0 /\ (~Reported(x.u) \/ StaleReport(x.u))))
    /\ UNCHANGED vars

(* After one forced full synchronisation under a healthy cloud: record and cloud agree. *)
Synced ==
    /\ healthy
    /\ G("C08", \A e \in Attached : /\ HasEni(crE, e)
                                    /\ { x.a : x \in { z \in crI : z.e = e } } = Addrs(e))
    /\ G("C08", \A y \in crE : y.e \in Attached)
    /\ UNCHANGED vars

-----------------------------------------------------------------------------
(* State invariants (theorems of the guarded specification; evaluated in every state of a validated trace) *)
BindingOk == OneToOne(crI) /\ SameEni(crI)
(* what a running sandbox was given stays bound to its pod and assigned in the cloud while the pod exists        *)
(* (remotely removed addresses excepted; the time after the pod object vanished is covered by the action guards) *)
HeldBacked == \A u \in Uids : up[u] /\ given[u].p # 0 /\ pods[given[u].p].u = u /\ pods[given[u].p].live =>
                 LET g == given[u] IN
                 \A a \in {g.a4, g.a6} \ {0} :
                    \/ <<g.e, a>> \in rg
                    \/ (a \in Addrs(g.e) /\ \E x \in crI : x.e = g.e /\ x.a = a /\ x.p = g.p)
QuotaAddr == \A e \in Enis : cloud[e].on =>
                 /\ Cardinality(Known(e, 4)) <= (IF conf.v4 THEN conf.cap4 ELSE 1)
                 /\ Cardinality(Known(e, 6)) <= conf.cap6
QuotaEni == Cardinality(Slots) <= conf.maxEni
=============================================================================
