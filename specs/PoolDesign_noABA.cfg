SPECIFICATION Spec
CONSTANTS
  Pods = {1, 2, 3}
  Reqs = {1, 2, 3}
  Slots = {1}
  Addrs = {1, 2, 3}
  Cap = 3
  Batch = 1
  MaxIdle = 0
  FixCollector = TRUE
  FixPinned = TRUE
  FixKeep = TRUE
  FixDangling = TRUE
  FixABA = FALSE
  Healthy = FALSE
  DriftOn = TRUE
INVARIANTS Exclusive NeverUnassignHeld NeverDeleteInUse HeldBacked QuotaAddr NoGhostOwner TrackedEqualsCloud
CHECK_DEADLOCK FALSE
