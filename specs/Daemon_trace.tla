---------------------------- MODULE Daemon_trace ----------------------------
(* Trace validation of recorded executions of the real node daemon (networkService on the real  *)
(* pool and the real bolt storage, fake cloud / API server) against Daemon.tla.  Every observable *)
(* step is logged with its arguments; the only unobservable step (a handler leaving the service   *)
(* lock before its reply is logged) is folded into the steps that prove it happened (see          *)
(* Daemon.tla, "outP"/"outG"), so the walk is linear.                                             *)
EXTENDS Daemon, Json, IOUtils, TLCExt

Log == ndJsonDeserialize(IOEnv.VERIF_TRACE)
VARIABLE l

Rng(s) == { s[i] : i \in 1..Len(s) }
IsEv(k) == l <= Len(Log) /\ Log[l].ev = k /\ l' = l + 1
Skipped == {"cancel", "cl_begin"}

CloudOf(lst) == [e \in Enis |-> IF \E i \in 1..Len(lst) : lst[i].e = e
                                THEN [on |-> TRUE, as |-> Rng(lst[CHOOSE i \in 1..Len(lst) : lst[i].e = e].as)]
                                ELSE NoEni]
RecOf(x) == [c |-> x.c, e |-> x.e, a |-> x.a, a6 |-> x.a6, s |-> x.sticky]
DiskOf(lst) == [p \in Pods |-> IF \E i \in 1..Len(lst) : lst[i].p = p
                               THEN RecOf(lst[CHOOSE i \in 1..Len(lst) : lst[i].p = p])
                               ELSE NoRec]
OwnOf(lst) == { [e |-> lst[i].e, a |-> lst[i].a, p |-> lst[i].p] : i \in 1..Len(lst) }

TReset   == IsEv("reset") /\ Reset(CloudOf(Log[l].cloud))
TSkip    == l <= Len(Log) /\ Log[l].ev \in Skipped /\ l' = l + 1 /\ UNCHANGED vars
TEnvPod  == IsEv("env_pod") /\ LET x == Log[l] IN EnvPod(x.p, [api |-> x.api, loc |-> x.loc, sticky |-> x.sticky, cached |-> x.cached])
TDetach  == IsEv("env_detach") /\ EnvDetach(Log[l].e)
TApiErr  == IsEv("env_apierr") /\ EnvApiErr(Log[l].on)
TDisturb == IsEv("env_disturb") /\ EnvDisturb
TCloud   == IsEv("cl_end") /\ LET x == Log[l] IN IF x.e = 0 \/ x.err THEN UNCHANGED vars ELSE CloudEnd(x.k, x.e, Rng(x.as))   \* a failed call of the fake has no effect
TCall    == IsEv("rpc_call") /\ LET x == Log[l] IN RpcCall(x.r, x.k, x.p, x.c)
TGetPod  == IsEv("k8s_getpod") /\ LET x == Log[l] IN GetPod(x.r, x.found, x.sticky, x.chk)
TPutB    == IsEv("put_begin") /\ LET x == Log[l] IN PutBegin(x.p, RecOf(x))
TDelB    == IsEv("del_begin") /\ DelBegin(Log[l].p)
TWrEnd   == l <= Len(Log) /\ Log[l].ev \in {"put_end", "del_end", "raw_put_end", "raw_del_end"} /\ l' = l + 1 /\ WriteEnd(Log[l].p, Log[l].ok)
TRawPut  == IsEv("raw_put_begin") /\ LET x == Log[l] IN RawBegin(x.p, RecOf(x))
TRawDel  == IsEv("raw_del_begin") /\ RawBegin(Log[l].p, NoRec)
TRet     == IsEv("rpc_ret") /\ LET x == Log[l] IN RpcRet(x.r, x.ok, x.code, x.e, x.a, x.a6)
TGcCall  == IsEv("gc_call") /\ GcCall
TLocal   == IsEv("k8s_localpods") /\ LocalPods(Rng(Log[l].live), Log[l].err)
TExist   == IsEv("k8s_podexist") /\ LET x == Log[l] IN PodExist(x.p, x.exist, x.err, x.cons)
TGcRet   == IsEv("gc_ret") /\ GcRet(Log[l].err)
TGcLoop  == IsEv("gcloop") /\ GcLoop(Log[l].alive)
TObs     == IsEv("obs") /\ LET x == Log[l] IN Obs(DiskOf(x.disk), DiskOf(x.mem), OwnOf(x.own), CloudOf(x.cloud))
TCrash   == IsEv("crash") /\ Crash
TRestart == IsEv("restart") /\ LET x == Log[l] IN Restart(DiskOf(x.disk), DiskOf(x.mem), OwnOf(x.own))
TProbe   == IsEv("probe") /\ LET x == Log[l] IN Probe(DiskOf(x.disk), OwnOf(x.own), x.adds)

TInit == Init /\ l = 1
TNext == TReset \/ TSkip \/ TEnvPod \/ TDetach \/ TApiErr \/ TDisturb \/ TCloud \/ TCall \/ TGetPod \/ TPutB \/ TDelB \/ TWrEnd
         \/ TRawPut \/ TRawDel \/ TRet \/ TGcCall \/ TLocal \/ TExist \/ TGcRet \/ TGcLoop \/ TObs \/ TCrash \/ TRestart \/ TProbe
TSpec == TInit /\ [][TNext]_<<vars, l>>

HighWater == IF l > TLCGet(1) THEN TLCSet(1, l) ELSE TRUE
ASSUME TLCSet(1, 0)
InvC04 == OneWriter
InvC05 == AckedExclusive
InvC09 == GcAlone
InvNone == TRUE      \* Enforce = {}: only the interface facts; a trace rejected even so is a harness problem, not a verdict
NotAccepted == ~(l > Len(Log))
Report == PrintT(<<"HIGHWATER", TLCGet(1)>>)
=============================================================================
