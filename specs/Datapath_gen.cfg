SPECIFICATION MCSpec
CONSTANTS
  Enforce = {"C13"}
  NsIds = {0, 1, 2, 3}
  Atts = {1, 2, 3, 4, 5, 6}
  MCPods = {1, 2, 3}
  MCDps = {"policy", "exclusive", "ipvlan", "vlan"}
  MCFams = {"v4", "v6", "dual"}
  MCTrunk = {FALSE, TRUE}
  MCExtra = {0, 1, 2}
  MCMulti = {FALSE, TRUE}
  MCHow = {}
  MCSteal = FALSE
  MCEniGone = FALSE
  MCEnis = {1, 2}
  BadDesign = ""
  GenLen = 4
  GenOn = TRUE
CHECK_DEADLOCK FALSE
