SPECIFICATION Spec
CONSTANTS
  Calls = {1, 2, 3}
  Tok = {1, 2, 3, 4}
  Cap = 2
  Params = {3, 4, 8, 17}
INVARIANTS TypeOK InflightDistinct NoCrossParamShare FailedSound
PROPERTIES RetryReuses OkTokenRetired
CHECK_DEADLOCK FALSE
