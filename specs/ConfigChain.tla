---------------------------- MODULE ConfigChain ----------------------------
(* C20 - layered configuration composes predictably; the generated CNI chain is coherent.  *)
(*                                                                                          *)
(* Function specification (generator and judge).  Two families of cases:                    *)
(*                                                                                          *)
(*  fn = "merge" / "mergefile" / "mergecm"  types/daemon MergeConfigAndUnmarshal /           *)
(*       GetConfigFromFileWithMerge.  JSON documents are TLA+ values in a tagged form       *)
(*       [t |-> tag, v |-> payload]; MergePatch is RFC 7396 written as a recursive          *)
(*       operator straight from the RFC's pseudo code (its appendix A examples are the      *)
(*       ASSUMEs at the end).  The judged relation is on the unmarshalled Config.           *)
(*                                                                                          *)
(*  fn = "chain"  mergeConfigList (package main of cmd/terway-cli) with the real            *)
(*       switchDataPathV2 / allowEBPFNetworkPolicy behind it: plugin lists x requested      *)
(*       virtual type x policy provider x kernel features x feature gate x recorded node    *)
(*       capabilities x presence of the cilium_net link.  The relation only looks at the    *)
(*       generated list (policy free: WHICH datapath is selected is left to the code, the   *)
(*       list must be coherent with whatever was selected).                                 *)
EXTENDS Integers, Sequences, FiniteSets, TLC, SequencesExt

CONSTANT Tier            \* "quick" | "thorough"

------------------------------------------------------------------------
(* JSON values.  t: "z" null, "s" string, "n" integer, "b" boolean, "a" array (tuple of    *)
(* values), "o" object (function from member names to values, <<>> when empty).  JSON null  *)
(* is the sentinel payload "<null>"; the harness translates.                                *)

Null  == [t |-> "z", v |-> "<null>"]
JS(x)  == [t |-> "s", v |-> x]
JN(x)  == [t |-> "n", v |-> x]
JB(x)  == [t |-> "b", v |-> x]
JA(x)  == [t |-> "a", v |-> x]
JO(x)  == [t |-> "o", v |-> x]
EmptyObj == JO(<<>>)
IsNull(j) == j.t = "z"
IsObj(j)  == j.t = "o"
Get(members, k) == IF k \in DOMAIN members THEN members[k] ELSE Null   \* absent member reads as null

(* Type-safe equality (TLC refuses to compare a string with an integer). *)
RECURSIVE JEq(_, _)
JEq(a, b) ==
    /\ a.t = b.t
    /\ CASE a.t = "z" -> TRUE
         [] a.t \in {"s", "n", "b"} -> a.v = b.v
         [] a.t = "a" -> Len(a.v) = Len(b.v) /\ \A i \in 1..Len(a.v) : JEq(a.v[i], b.v[i])
         [] a.t = "o" -> DOMAIN a.v = DOMAIN b.v /\ \A k \in DOMAIN a.v : JEq(a.v[k], b.v[k])
         [] OTHER -> FALSE

(* RFC 7396, section 2:                                                                    *)
(*   define MergePatch(Target, Patch):                                                      *)
(*     if Patch is an Object:                                                               *)
(*       if Target is not an Object: Target = {}                                            *)
(*       for each Name/Value pair in Patch:                                                 *)
(*         if Value is null: remove Name from Target (if present)                           *)
(*         else: Target[Name] = MergePatch(Target[Name], Value)                             *)
(*       return Target                                                                      *)
(*     else: return Patch                                                                   *)
RECURSIVE MergePatch(_, _)
MergePatch(target, patch) ==
    IF ~IsObj(patch) THEN patch
    ELSE LET tv   == IF IsObj(target) THEN target.v ELSE <<>>
             pv   == patch.v
             dels == { k \in DOMAIN pv : IsNull(pv[k]) }
             keys == (DOMAIN tv \cup DOMAIN pv) \ dels
         IN  JO([k \in keys |-> IF k \in DOMAIN pv THEN MergePatch(Get(tv, k), pv[k]) ELSE tv[k]])

------------------------------------------------------------------------
(* The Config keys under observation and what a field of each kind holds for a JSON value  *)
(* (absent and null both leave the zero value; a nil slice/map is the same observation as   *)
(* an empty one - the property speaks about values, not about Go's nil).                    *)
(*   s string, n integer, b boolean, pb optional boolean (null = unset), ls list of        *)
(*   strings, mls object of lists of strings, mss object of strings, mbo object of          *)
(*   back-off records (five numeric members).                                               *)

Kind == [ version |-> "s", access_key |-> "s", access_secret |-> "s", ip_stack |-> "s",
          max_pool_size |-> "n", min_pool_size |-> "n", enable_eni_trunking |-> "b",
          enable_patch_pod_ips |-> "pb", security_groups |-> "ls", vswitches |-> "mls",
          eni_tags |-> "mss", backoff_override |-> "mbo" ]
Keys == DOMAIN Kind
SecretKeys == {"access_key", "access_secret"}
BackoffMembers == {"Duration", "Factor", "Jitter", "Steps", "Cap"}

Str(j)     == IF IsNull(j) THEN JS("") ELSE j
Num(j)     == IF IsNull(j) THEN JN(0) ELSE j
StrList(j) == IF IsNull(j) THEN JA(<<>>) ELSE j
Backoff(j) == JO([m \in BackoffMembers |-> IF IsNull(j) THEN JN(0) ELSE Num(Get(j.v, m))])
Field(kind, j) ==
    CASE kind = "s"   -> Str(j)
      [] kind = "n"   -> Num(j)
      [] kind = "b"   -> IF IsNull(j) THEN JB(FALSE) ELSE j
      [] kind = "pb"  -> j
      [] kind = "ls"  -> StrList(j)
      [] kind = "mls" -> IF IsNull(j) THEN EmptyObj ELSE JO([k \in DOMAIN j.v |-> StrList(j.v[k])])
      [] kind = "mss" -> IF IsNull(j) THEN EmptyObj ELSE JO([k \in DOMAIN j.v |-> Str(j.v[k])])
      [] kind = "mbo" -> IF IsNull(j) THEN EmptyObj ELSE JO([k \in DOMAIN j.v |-> Backoff(j.v[k])])

(* The observation of key k in a document / in a projected Config (both are objects). *)
Obs(doc, k) == Field(Kind[k], IF IsObj(doc) THEN Get(doc.v, k) ELSE Null)
SameOn(ks, d1, d2) == \A k \in ks : JEq(Obs(d1, k), Obs(d2, k))

------------------------------------------------------------------------
(* Domain, configuration part *)

BaseRich ==
    JO([ version |-> JS("1"), access_key |-> JS("ak-base"), access_secret |-> JS("sk-base"),
        ip_stack |-> JS("dual"), max_pool_size |-> JN(5), min_pool_size |-> JN(2),
        enable_eni_trunking |-> JB(TRUE), enable_patch_pod_ips |-> JB(FALSE),
        security_groups |-> JA(<<JS("sg-1"), JS("sg-2")>>),
        vswitches |-> JO([zoneA |-> JA(<<JS("vsw-1"), JS("vsw-2")>>), zoneB |-> JA(<<JS("vsw-3")>>)]),
        eni_tags |-> JO([team |-> JS("net"), env |-> JS("prod")]),
        backoff_override |-> JO([ecs |-> JO([Duration |-> JN(1000), Steps |-> JN(3)]),
                                 wait_pod |-> JO([Duration |-> JN(7), Cap |-> JN(90)])]),
        unknown_key |-> JO([nested |-> JN(1)]) ])
BaseSparse ==      \* zero values, an explicit null, an empty map and an empty list
    JO([ version |-> JS(""), max_pool_size |-> JN(0), enable_eni_trunking |-> JB(FALSE),
        vswitches |-> Null, eni_tags |-> EmptyObj, security_groups |-> JA(<<>>) ])
BaseOther ==
    JO([ version |-> JS("2"), ip_stack |-> JS("ipv4"), max_pool_size |-> JN(25),
        enable_patch_pod_ips |-> JB(TRUE), security_groups |-> JA(<<JS("sg-9")>>),
        vswitches |-> JO([zoneC |-> JA(<<JS("vsw-7")>>)]),
        eni_tags |-> JO([extra |-> JS("y")]),
        backoff_override |-> JO([vpc |-> JO([Steps |-> JN(1)])]) ])
Bases == { BaseRich, BaseSparse, BaseOther, EmptyObj }

(* Overlay fragments <<member name, value>>: delete (null), same value, new value, zero    *)
(* value, empty container, nested delete / add / replace, delete of something absent,       *)
(* nested null under a member the base may not have (must be pruned, not stored).           *)
Frags == {
    <<"version", Null>>, <<"version", JS("2")>>, <<"version", JS("")>>, <<"version", JS("1")>>,
    <<"access_key", JS("ak-top")>>, <<"access_secret", Null>>,
    <<"ip_stack", JS("ipv6")>>, <<"ip_stack", Null>>,
    <<"max_pool_size", Null>>, <<"max_pool_size", JN(0)>>, <<"max_pool_size", JN(25)>>,
    <<"min_pool_size", JN(1)>>,
    <<"enable_eni_trunking", Null>>, <<"enable_eni_trunking", JB(FALSE)>>, <<"enable_eni_trunking", JB(TRUE)>>,
    <<"enable_patch_pod_ips", Null>>, <<"enable_patch_pod_ips", JB(FALSE)>>, <<"enable_patch_pod_ips", JB(TRUE)>>,
    <<"security_groups", Null>>, <<"security_groups", JA(<<>>)>>, <<"security_groups", JA(<<JS("sg-9")>>)>>,
    <<"security_groups", JA(<<JS("sg-2"), JS("sg-1"), JS("sg-3")>>)>>,
    <<"vswitches", Null>>, <<"vswitches", EmptyObj>>, <<"vswitches", JO([zoneA |-> Null])>>,
    <<"vswitches", JO([zoneC |-> JA(<<JS("vsw-8"), JS("vsw-9")>>)])>>,
    <<"vswitches", JO([zoneA |-> JA(<<JS("vsw-9")>>)])>>,
    <<"vswitches", JO([zoneA |-> Null, zoneB |-> JA(<<>>), zoneD |-> JA(<<JS("vsw-4")>>)])>>,
    <<"vswitches", JO([zoneZ |-> Null])>>,
    <<"eni_tags", Null>>, <<"eni_tags", EmptyObj>>, <<"eni_tags", JO([team |-> Null])>>,
    <<"eni_tags", JO([team |-> JS("x"), extra |-> JS("z")])>>, <<"eni_tags", JO([ghost |-> Null])>>,
    <<"eni_tags", JO([env |-> JS("")])>>,
    <<"backoff_override", Null>>, <<"backoff_override", JO([ecs |-> JO([Steps |-> JN(7)])])>>,
    <<"backoff_override", JO([ecs |-> JO([Duration |-> Null])])>>,
    <<"backoff_override", JO([ecs |-> Null])>>,
    <<"backoff_override", JO([vpc |-> JO([Steps |-> JN(4), Cap |-> Null])])>>,
    <<"backoff_override", JO([wait_pod |-> JO([Cap |-> JN(5), Jitter |-> Null]), eni |-> JO([Duration |-> JN(3)])])>>,
    <<"unknown_key", Null>>, <<"unknown_key", JO([nested |-> Null, more |-> JS("m")])>>,
    <<"another_unknown", JA(<<JN(1), JS("two"), Null>>)>> }

(* The fragments used for triples in the thorough tier. *)
CoreFrags == { f \in Frags : f[1] \in {"version", "max_pool_size", "enable_patch_pod_ips", "security_groups",
                                         "vswitches", "eni_tags", "backoff_override"} }

Overlay(fs) == JO([k \in { f[1] : f \in fs } |-> (CHOOSE f \in fs : f[1] = k)[2]])
DistinctNames(fs) == \A f, g \in fs : f # g => f[1] # g[1]

Singles == { Overlay({f}) : f \in Frags }
PairsOK == { Overlay(fs) : fs \in { p \in { {f, g} : f, g \in Frags } : Cardinality(p) = 2 /\ DistinctNames(p) } }
Triples == { Overlay(fs) : fs \in { p \in { {f, g, h} : f, g, h \in CoreFrags } : Cardinality(p) = 3 /\ DistinctNames(p) } }
(* An overlay that names every observed key, and one that deletes every observed key. *)
FullOverlay == MergePatch(BaseOther, JO([access_key |-> JS("ak-top"), access_secret |-> JS("sk-top"), min_pool_size |-> JN(3),
                                        enable_eni_trunking |-> JB(TRUE)]))
DeleteAll   == JO([k \in Keys |-> Null])

Overlays == {EmptyObj, FullOverlay, DeleteAll} \cup Singles \cup PairsOK \cup (IF Tier = "thorough" THEN Triples ELSE {})

MergeSet ==
    { [fn |-> "merge", base |-> b, overlay |-> o, form |-> "json", addon |-> FALSE] : b \in Bases, o \in Overlays }
    \cup { [fn |-> "merge", base |-> b, overlay |-> EmptyObj, form |-> "zero", addon |-> FALSE] : b \in Bases }
(* GetConfigFromFileWithMerge: base read from a file; with and without an add-on secret on *)
(* disk (which replaces the two credential members - the property is silent about them, so *)
(* they are left out of the comparison in that case).                                       *)
FileOverlays == {EmptyObj, FullOverlay, DeleteAll} \cup Singles \cup (IF Tier = "thorough" THEN PairsOK ELSE {})
MergeFileSet ==
    { [fn |-> "mergefile", base |-> b, overlay |-> o, form |-> "json", addon |-> a] : b \in Bases, o \in FileOverlays, a \in BOOLEAN }
    \cup { [fn |-> "mergefile", base |-> b, overlay |-> EmptyObj, form |-> "zero", addon |-> a] : b \in Bases, a \in BOOLEAN }

------------------------------------------------------------------------
(* Domain, CNI chain part *)

Absent == "<absent>"     \* member not present in a plugin object
NonStr == "<nonstring>"  \* member present but not a JSON string (harness projection only)
Terway == "terway"
Cilium == "cilium-cni"
Portmap == "portmap"
SupportedVTypes == {"veth", "ipvlan", "datapathv2"}
SupportedBW     == {"tc", "edt"}
NeedsChainer    == {"ipvlan", "datapathv2"}

TypeLists == { <<Terway>>, <<Terway, Portmap>>, <<Portmap, Terway>>, <<Terway, Cilium>>, <<Cilium, Terway>>,
               <<Terway, Portmap, Cilium>>, <<Terway, Cilium, Portmap>>, <<Cilium, Terway, Portmap>>,
               <<Portmap, Terway, Cilium>>, <<Portmap, Cilium, Terway>>, <<Cilium, Portmap, Terway>>,
               <<Portmap>>, <<Cilium>>, <<Portmap, Cilium>> }
CoreLists == { <<Terway>>, <<Terway, Cilium>>, <<Portmap, Terway, Cilium>>, <<Cilium, Terway, Portmap>> }
VTypes     == { Absent, "", "veth", "ipvlan", "datapathv2", "IPVlan", "DataPathV2", "VETH", "vlan" }
CoreVTypes == { Absent, "veth", "ipvlan", "datapathv2", "IPVlan" }
Provs  == { Absent, "iptables", "ebpf" }

Vid(i) == <<"p1", "p2", "p3">>[i]
MkList(tys, vt, pv) ==
    [i \in 1..Len(tys) |-> [type |-> tys[i], vid |-> Vid(i),
                            vtype |-> IF tys[i] = Terway THEN vt ELSE Absent,
                            prov  |-> IF tys[i] = Terway THEN pv ELSE Absent]]

(* Node environment: AutoDataPathV2 gate, the two recorded capabilities read by the        *)
(* decision functions, whether a link named cilium_net exists.                              *)
Envs == [gate : BOOLEAN, cap_chainer : {Absent, "true", "false"}, cap_datapath : {Absent, "datapathv2", "ipvlan"}, link : BOOLEAN]
EnvNone == [gate |-> FALSE, cap_chainer |-> Absent, cap_datapath |-> Absent, link |-> FALSE]
EnvAll  == [gate |-> TRUE, cap_chainer |-> "true", cap_datapath |-> "datapathv2", link |-> TRUE]

ChainCase(l, e, ebpf, edt, np) ==
    [fn |-> "chain", plugins |-> l, ebpf |-> ebpf, edt |-> edt, netpol |-> np,
     gate |-> e.gate, cap_chainer |-> e.cap_chainer, cap_datapath |-> e.cap_datapath, link |-> e.link]

ChainProduct(lists, vts, envs, ebpfs) ==
    { ChainCase(MkList(tys, vt, pv), e, ebpf, edt, np) :
        tys \in lists, vt \in vts, pv \in Provs, e \in envs, ebpf \in ebpfs, edt \in BOOLEAN, np \in BOOLEAN }

ChainSet ==
    IF Tier = "thorough"
    THEN ChainProduct(TypeLists, VTypes, Envs, BOOLEAN)
    ELSE ChainProduct(TypeLists, VTypes, {EnvNone, EnvAll}, BOOLEAN)       \* every list/type/provider/kernel combination
         \cup ChainProduct(CoreLists, CoreVTypes, Envs, {TRUE})             \* every node environment

(* ConfigFromConfigMap: base = the cluster's eni-config ConfigMap, overlay = the node's dynamic ConfigMap (named by the  *)
(* node's terway-config label), read through an API client. The function then applies defaults to unset members        *)
(* (ip_stack, enable_patch_pod_ips among the observed keys): those two keys are left out of the comparison.            *)
MergeCMSet ==
    { [fn |-> "mergecm", base |-> b, overlay |-> o, form |-> "json", addon |-> FALSE] : b \in Bases, o \in FileOverlays }
    \cup { [fn |-> "mergecm", base |-> b, overlay |-> EmptyObj, form |-> "zero", addon |-> FALSE] : b \in Bases }

DomSet == MergeSet \cup MergeFileSet \cup MergeCMSet \cup ChainSet
DomSeq == SetToSeq(DomSet)

------------------------------------------------------------------------
(* Relation, configuration part.                                                           *)
(* out.cfg   projection of the Config returned for (overlay, base)                          *)
(* out.base  projection of the base document decoded alone (no overlay at all)              *)
(* out.twice projection of the Config returned when the same overlay is applied again on    *)
(*           top of the (re-encoded) first result                                           *)
(* out.err / out.err_twice  error texts ("" = none)                                         *)
(* Every document of the domain is well typed, so an error is never an allowed outcome.     *)

BadMerge(in, out) ==
    LET ks      == IF in.addon THEN Keys \ SecretKeys ELSE IF in.fn = "mergecm" THEN Keys \ {"ip_stack", "enable_patch_pod_ips"} ELSE Keys
        want    == MergePatch(in.base, in.overlay)
        named   == DOMAIN in.overlay.v
        \* members of an object-valued overlay entry: names inside the base's object that the overlay does not mention
        innerOK(k) ==
            LET bo == Obs(out.base, k)  co == Obs(out.cfg, k) IN
            (IsObj(in.overlay.v[k]) /\ IsObj(bo)) =>
                \A j \in (DOMAIN bo.v) \ (DOMAIN in.overlay.v[k].v) : IsObj(co) /\ j \in DOMAIN co.v /\ JEq(co.v[j], bo.v[j])
    IN  IF out.err # "" \/ out.err_twice # "" THEN {"unexpected_error"}
        ELSE (IF SameOn(ks, out.cfg, want) THEN {} ELSE {"merge_patch_semantics"})
             \cup (IF in.overlay.v = <<>> /\ ~SameOn(ks, out.cfg, out.base) THEN {"empty_overlay_changes_config"} ELSE {})
             \cup (IF SameOn(ks, out.twice, out.cfg) THEN {} ELSE {"overlay_twice_differs_from_once"})
             \cup (IF SameOn(ks \ named, out.cfg, out.base) /\ (\A k \in (ks \cap named) : innerOK(k)) THEN {}
                   ELSE {"absent_key_lost_base_value"})

------------------------------------------------------------------------
(* Relation, CNI chain part.                                                               *)
(* out.err    error text of mergeConfigList ("" = a list was generated)                     *)
(* out.valid  the returned text parses as one JSON object whose "plugins" is an array of    *)
(*            objects                                                                       *)
(* out.plugins  per generated plugin: type, vid (our marker member, Absent when the plugin  *)
(*            did not come from the input), vtype = eniip_virtual_type, bw = bandwidth_mode *)
(*                                                                                          *)
(* Lenient readings (written down on purpose):                                              *)
(*  - which datapath gets selected (veth / ipvlan / datapathv2) is not judged; "selected"  *)
(*    is what the generated terway entry says.  A missing eniip_virtual_type means the      *)
(*    plugin default (no chainer required).                                                 *)
(*  - an error instead of a list is accepted unless every requested virtual type is absent  *)
(*    or literally one of the supported values (case variants, "" and unknown names may be  *)
(*    rejected or canonicalised).                                                           *)
(*  - "keeps the input order": the entries that came from the input appear in input order, *)
(*    none of the non-chainer entries is lost; input cilium-cni entries may be dropped,     *)
(*    entries may be added (the chainer).                                                   *)
(*  - the chainer is only demanded, never forbidden, on a kernel with eBPF ("whenever ...   *)
(*    requires one" is one-directional).                                                    *)
(*  - "bandwidth mode from the supported sets" is membership in {tc, edt}; whether edt is   *)
(*    only chosen on an EDT capable kernel is not judged.                                   *)

RECURSIVE IsSubseq(_, _)
IsSubseq(s, t) ==
    IF s = <<>> THEN TRUE
    ELSE IF t = <<>> THEN FALSE
    ELSE IF Head(s) = Head(t) THEN IsSubseq(Tail(s), Tail(t)) ELSE IsSubseq(s, Tail(t))

Mark(p) == <<p.vid, p.type>>
MustGenerate(in) == \A i \in 1..Len(in.plugins) : in.plugins[i].vtype \in SupportedVTypes \cup {Absent}

BadChain(in, out) ==
    LET ip == in.plugins
        op == out.plugins
        kept == SelectSeq(op, LAMBDA p : p.vid # Absent)
        keptMarks == [i \in 1..Len(kept) |-> Mark(kept[i])]
        inMarks   == [i \in 1..Len(ip) |-> Mark(ip[i])]
        terways   == { i \in 1..Len(op) : op[i].type = Terway }
        chainer   == \E i \in 1..Len(op) : op[i].type = Cilium
    IN  IF out.err # "" THEN (IF MustGenerate(in) THEN {"no_chain_for_supported_request"} ELSE {})
        ELSE IF ~out.valid THEN {"not_valid_json"}
        ELSE (IF IsSubseq(keptMarks, inMarks)
                 /\ \A i \in 1..Len(ip) : ip[i].type # Cilium => \E j \in 1..Len(kept) : Mark(kept[j]) = Mark(ip[i])
              THEN {} ELSE {"plugin_order_not_kept"})
             \cup (IF \A i \in terways : op[i].vtype \in SupportedVTypes \cup {Absent} THEN {} ELSE {"virtual_type_not_supported"})
             \cup (IF \A i \in terways : op[i].bw \in SupportedBW \cup {Absent} THEN {} ELSE {"bandwidth_mode_not_supported"})
             \cup (IF (\E i \in terways : op[i].vtype \in NeedsChainer) /\ ~chainer THEN {"ebpf_chainer_missing"} ELSE {})
             \cup (IF ~in.ebpf /\ chainer THEN {"ebpf_chainer_without_kernel_support"} ELSE {})

Bad(c) ==
    IF c.panic # "" THEN {"panic"}
    ELSE CASE c.in.fn \in {"merge", "mergefile", "mergecm"} -> BadMerge(c.in, c.out)
           [] c.in.fn = "chain" -> BadChain(c.in, c.out)
           [] OTHER -> {"unknown_case"}

------------------------------------------------------------------------
(* Sanity of the oracle itself: the examples of RFC 7396 appendix A, the three laws of the *)
(* property on the operator, and the chain relation on hand-made outputs.                   *)

ASSUME JEq(MergePatch(JO([a |-> JS("b")]), JO([a |-> JS("c")])), JO([a |-> JS("c")]))
ASSUME JEq(MergePatch(JO([a |-> JS("b")]), JO([b |-> JS("c")])), JO([a |-> JS("b"), b |-> JS("c")]))
ASSUME JEq(MergePatch(JO([a |-> JS("b")]), JO([a |-> Null])), EmptyObj)
ASSUME JEq(MergePatch(JO([a |-> JS("b"), b |-> JS("c")]), JO([a |-> Null])), JO([b |-> JS("c")]))
ASSUME JEq(MergePatch(JO([a |-> JA(<<JS("b")>>)]), JO([a |-> JS("c")])), JO([a |-> JS("c")]))
ASSUME JEq(MergePatch(JO([a |-> JS("c")]), JO([a |-> JA(<<JS("b")>>)])), JO([a |-> JA(<<JS("b")>>)]))
ASSUME JEq(MergePatch(JO([a |-> JO([b |-> JS("c")])]), JO([a |-> JO([b |-> JS("d"), c |-> Null])])), JO([a |-> JO([b |-> JS("d")])]))
ASSUME JEq(MergePatch(JO([a |-> JA(<<JO([b |-> JS("c")])>>)]), JO([a |-> JA(<<JN(1)>>)])), JO([a |-> JA(<<JN(1)>>)]))
ASSUME JEq(MergePatch(JA(<<JS("a"), JS("b")>>), JA(<<JS("c"), JS("d")>>)), JA(<<JS("c"), JS("d")>>))
ASSUME JEq(MergePatch(JO([a |-> JS("b")]), JA(<<JS("c")>>)), JA(<<JS("c")>>))
ASSUME JEq(MergePatch(JO([a |-> JS("foo")]), Null), Null)
ASSUME JEq(MergePatch(JO([a |-> JS("foo")]), JS("bar")), JS("bar"))
ASSUME JEq(MergePatch(JO([e |-> Null]), JO([a |-> JN(1)])), JO([e |-> Null, a |-> JN(1)]))
ASSUME JEq(MergePatch(JA(<<JN(1), JN(2)>>), JO([a |-> JS("b"), c |-> Null])), JO([a |-> JS("b")]))
ASSUME JEq(MergePatch(EmptyObj, JO([a |-> JO([bb |-> JO([ccc |-> Null])])])), JO([a |-> JO([bb |-> EmptyObj])]))
ASSUME ~JEq(JO([a |-> JN(1)]), JO([a |-> JS("1")])) /\ ~JEq(EmptyObj, JA(<<>>)) /\ JEq(JO(<<>>), JO([k \in {} |-> Null]))

ASSUME \A b \in Bases : JEq(MergePatch(b, EmptyObj), b)
ASSUME \A b \in Bases, o \in Singles \cup {FullOverlay, DeleteAll} : JEq(MergePatch(MergePatch(b, o), o), MergePatch(b, o))
ASSUME \A b \in Bases, o \in Singles : \A k \in DOMAIN b.v \ DOMAIN o.v : JEq(MergePatch(b, o).v[k], b.v[k])
ASSUME \A k \in Keys : JEq(Obs(MergePatch(BaseRich, DeleteAll), k), Obs(EmptyObj, k))
ASSUME JEq(Obs(BaseSparse, "vswitches"), EmptyObj) /\ JEq(Obs(EmptyObj, "enable_patch_pod_ips"), Null)
ASSUME JEq(Obs(BaseRich, "backoff_override").v["ecs"], JO([Duration |-> JN(1000), Factor |-> JN(0), Jitter |-> JN(0), Steps |-> JN(3), Cap |-> JN(0)]))
ASSUME Cardinality(Singles) = Cardinality(Frags) /\ \A o \in PairsOK : Cardinality(DOMAIN o.v) = 2

ASSUME IsSubseq(<<1, 3>>, <<1, 2, 3>>) /\ ~IsSubseq(<<3, 1>>, <<1, 2, 3>>) /\ IsSubseq(<<>>, <<>>) /\ ~IsSubseq(<<1>>, <<>>)

TIn(vt, ebpf) == ChainCase(MkList(<<Portmap, Terway>>, vt, Absent), EnvNone, ebpf, FALSE, TRUE)
TOut(ps) == [err |-> "", valid |-> TRUE, plugins |-> ps]
TP(ty, vid, vt, bw) == [type |-> ty, vid |-> vid, vtype |-> vt, bw |-> bw]
ASSUME BadChain(TIn("ipvlan", TRUE), TOut(<<TP(Portmap, "p1", Absent, Absent), TP(Terway, "p2", "ipvlan", "edt"), TP(Cilium, Absent, Absent, Absent)>>)) = {}
ASSUME BadChain(TIn("ipvlan", TRUE), TOut(<<TP(Portmap, "p1", Absent, Absent), TP(Terway, "p2", "ipvlan", "tc")>>)) = {"ebpf_chainer_missing"}
ASSUME BadChain(TIn("ipvlan", TRUE), TOut(<<TP(Terway, "p2", "datapathv2", "tc"), TP(Portmap, "p1", Absent, Absent), TP(Cilium, Absent, Absent, Absent)>>)) = {"plugin_order_not_kept"}
ASSUME BadChain(TIn("ipvlan", TRUE), TOut(<<TP(Terway, "p2", "veth", "tc")>>)) = {"plugin_order_not_kept"}
ASSUME BadChain(TIn("ipvlan", FALSE), TOut(<<TP(Portmap, "p1", Absent, Absent), TP(Terway, "p2", Absent, Absent), TP(Cilium, Absent, Absent, Absent)>>)) = {"ebpf_chainer_without_kernel_support"}
ASSUME BadChain(TIn("IPVlan", TRUE), TOut(<<TP(Portmap, "p1", Absent, Absent), TP(Terway, "p2", "IPVlan", "EDT"), TP(Cilium, Absent, Absent, Absent)>>))
          = {"virtual_type_not_supported", "bandwidth_mode_not_supported"}
ASSUME BadChain(TIn("ipvlan", TRUE), [err |-> "boom", valid |-> FALSE, plugins |-> <<>>]) = {"no_chain_for_supported_request"}
ASSUME BadChain(TIn("vlan", TRUE), [err |-> "boom", valid |-> FALSE, plugins |-> <<>>]) = {}
=============================================================================
