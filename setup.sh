#!/bin/sh
# Offline setup: verify tools, parse every specification, warm the Go build cache for the harness packages.
set -e
cd "$(dirname "$0")"
command -v java >/dev/null || { echo "java missing"; exit 1; }
test -f /opt/veriftools/tla/tla2tools.jar || { echo "tla2tools missing"; exit 1; }
GO=/root/go/pkg/mod/golang.org/toolchain@v0.0.1-go1.24.0.linux-amd64/bin/go
test -x "$GO" || GO=go
mkdir -p evidence replays
T=$(mktemp -d /tmp/verif-setup-XXXXXX)
trap 'rm -rf "$T"' EXIT
cp specs/*.tla "$T"/ 2>/dev/null || true
for f in "$T"/*.tla; do
  m=$(basename "$f" .tla)
  # a module that does not parse is reported but not fatal here: the check that uses it exits 2 with the parser's message
  (cd "$T" && timeout 120 java -cp /opt/veriftools/tla/tla2tools.jar:/opt/veriftools/tla/CommunityModules-deps.jar tla2sany.SANY "$m.tla" >"$T/$m.sany" 2>&1) || echo "WARNING: SANY failed for $m"
  if grep -q "Semantic errors\|Parsing or semantic analysis failed\|Could not find module" "$T/$m.sany"; then echo "WARNING: SANY reports errors for $m"; fi
done
# warm the build cache (errors here are not fatal: every check rebuilds and reports on its own)
(cd /repo && GOFLAGS=-mod=mod GOPROXY=off GOTOOLCHAIN=local "$GO" build -tags default_build ./... >/dev/null 2>&1) || true
echo "setup ok"
