//go:build verif

package daemon

// C19 (specs/Capacity.tla, fn "restart"): the daemon's start-up chain initInstanceLimit -> setupENIManager -> Build on a node
// that already has k secondary interfaces attached (fake metadata service, fake instance metadata, fake API client); the pool
// slots the real eni.Manager ends up with are counted. Harness code only builds the environment and reads Status() back.

import (
	"context"
	"fmt"
	"net/http"
	"net/http/httptest"
	"strconv"
	"strings"
	"sync"
	"testing"

	corev1 "k8s.io/api/core/v1"
	metav1 "k8s.io/apimachinery/pkg/apis/meta/v1"

	"github.com/AliyunContainerService/terway/pkg/aliyun/instance"
	"github.com/AliyunContainerService/terway/pkg/aliyun/metadata"
	"github.com/AliyunContainerService/terway/pkg/k8s"
	"github.com/AliyunContainerService/terway/pkg/storage"
	"github.com/AliyunContainerService/terway/types"
	"github.com/AliyunContainerService/terway/types/daemon"
	"github.com/AliyunContainerService/terway/zzverif/vt"
)

const verifRSPrimaryMAC = "00:16:3e:00:00:01"

var verifRSInstanceType = "ecs.verif.none"

type verifRSCloud struct {
	sync.Mutex
	secondary []string // macs of the attached secondary interfaces
}

func (c *verifRSCloud) attach(mac string) {
	c.Lock()
	defer c.Unlock()
	c.secondary = append(c.secondary, mac)
}

func (c *verifRSCloud) ServeHTTP(w http.ResponseWriter, r *http.Request) {
	c.Lock()
	defer c.Unlock()

	if r.URL.Path == "/latest/api/token" {
		_, _ = w.Write([]byte("token"))
		return
	}
	p := strings.TrimPrefix(r.URL.Path, "/latest/meta-data/")
	macs := append([]string{verifRSPrimaryMAC}, c.secondary...)
	if p == "network/interfaces/macs/" || p == "network/interfaces/macs" {
		var lines []string
		for _, m := range macs {
			lines = append(lines, m+"/")
		}
		_, _ = w.Write([]byte(strings.Join(lines, "\n")))
		return
	}
	for i, m := range macs {
		prefix := "network/interfaces/macs/" + m + "/"
		if !strings.HasPrefix(p, prefix) {
			continue
		}
		switch strings.TrimPrefix(p, prefix) {
		case "network-interface-id":
			_, _ = w.Write([]byte("eni-" + strconv.Itoa(i)))
		case "primary-ip-address":
			_, _ = w.Write([]byte(fmt.Sprintf("192.168.%d.10", i)))
		case "gateway":
			_, _ = w.Write([]byte(fmt.Sprintf("192.168.%d.253", i)))
		case "vswitch-cidr-block":
			_, _ = w.Write([]byte(fmt.Sprintf("192.168.%d.0/24", i)))
		case "vswitch-id":
			_, _ = w.Write([]byte("vsw-1"))
		case "private-ipv4s":
			_, _ = w.Write([]byte(fmt.Sprintf("[\"192.168.%d.10\"]", i)))
		default:
			w.WriteHeader(http.StatusNotFound)
		}
		return
	}
	w.WriteHeader(http.StatusNotFound)
}

type verifRSMeta struct{}

func (verifRSMeta) GetRegionID() (string, error)     { return "cn-hangzhou", nil }
func (verifRSMeta) GetZoneID() (string, error)       { return "cn-hangzhou-k", nil }
func (verifRSMeta) GetVSwitchID() (string, error)    { return "vsw-1", nil }
func (verifRSMeta) GetPrimaryMAC() (string, error)   { return verifRSPrimaryMAC, nil }
func (verifRSMeta) GetInstanceID() (string, error)   { return "i-verifRS", nil }
func (verifRSMeta) GetInstanceType() (string, error) { return verifRSInstanceType, nil }

// verifRSK8s is the k8s client of the daemon: it keeps the node annotations the daemon advertises.
type verifRSK8s struct {
	k8s.Kubernetes // anything else is not expected to be called

	sync.Mutex
	node *corev1.Node
}

func (k *verifRSK8s) Node() *corev1.Node { return k.node }
func (k *verifRSK8s) NodeName() string   { return k.node.Name }
func (k *verifRSK8s) PatchNodeAnnotations(anno map[string]string) error {
	k.Lock()
	defer k.Unlock()
	for key, v := range anno {
		k.node.Annotations[key] = v
	}
	return nil
}
func (k *verifRSK8s) advertised(key string) string {
	k.Lock()
	defer k.Unlock()
	return k.node.Annotations[key]
}
func (k *verifRSK8s) PatchNodeIPResCondition(corev1.ConditionStatus, string, string) error {
	return nil
}
func (k *verifRSK8s) GetLocalPods() ([]*daemon.PodInfo, error) {
	return nil, fmt.Errorf("verifRS: no pod list")
}
func (k *verifRSK8s) RecordNodeEvent(string, string, string) {}
func (k *verifRSK8s) RecordPodEvent(string, string, string, string, string) error {
	return nil
}


func TestVerifCapacityRestart(t *testing.T) {
	cases, err := vt.ReadNDJSON(vt.Env("VERIF_CASES", ""))
	if err != nil {
		t.Fatal(err)
	}
	w, err := vt.NewWriter(vt.Env("VERIF_RESULTS", ""))
	if err != nil {
		t.Fatal(err)
	}
	defer w.Close()
	oldBase, oldToken := metadata.MetadataBase, metadata.TokenURL
	defer func() { metadata.MetadataBase, metadata.TokenURL = oldBase, oldToken }()
	instance.Init(verifRSMeta{})
	n := 0
	for _, c := range cases {
		in := vt.Map(c["in"])
		if vt.Str(in["fn"]) != "restart" {
			continue
		}
		n++
		it := vt.Map(in["it"])
		out := vt.M{"err": "", "attached": 0, "empty": 0, "advertised": 0}
		p := vt.Catch(func() {
			cloud := &verifRSCloud{}
			for i := 0; i < vt.Int(in["attached"]); i++ {
				cloud.attach(fmt.Sprintf("00:16:3e:00:01:%02x", i+2))
			}
			srv := httptest.NewServer(cloud)
			defer srv.Close()
			metadata.MetadataBase = srv.URL + "/latest/meta-data/"
			metadata.TokenURL = srv.URL + "/latest/api/token"
			verifRSInstanceType = fmt.Sprintf("ecs.verif.q%dv%dk%d", vt.Int(it["q"]), vt.Int(it["v4"]), vt.Int(in["attached"]))
			kube := &verifRSK8s{node: &corev1.Node{ObjectMeta: metav1.ObjectMeta{
				Name: "node-verif-restart",
				Annotations: map[string]string{
					"alibabacloud.com/instance-type-info": fmt.Sprintf(
						`{"InstanceTypeId":%q,"EniQuantity":%d,"EniPrivateIpAddressQuantity":%d,"EniIpv6AddressQuantity":%d,"EniTotalQuantity":%d,"EniTrunkSupported":%v,"EriQuantity":%d}`,
						verifRSInstanceType, vt.Int(it["q"]), vt.Int(it["v4"]), vt.Int(it["v6"]), vt.Int(it["tq"]), vt.Bool(it["trunkSup"]), vt.Int(it["eri"])),
				},
			}}}
			cfg := &daemon.Config{IPStack: "ipv4", SecurityGroups: []string{"sg-1"}, VSwitches: map[string][]string{"cn-hangzhou-k": {"vsw-1"}},
				MaxPoolSize: 5, MinPoolSize: 0}
			cfg.Populate()
			ctx, stop := context.WithCancel(context.Background())
			defer stop()
			b := NewNetworkServiceBuilder(ctx).WithDaemonMode(daemon.ModeENIMultiIP).InitService()
			if b.err != nil {
				out["err"] = "init: " + b.err.Error()
				return
			}
			b.config = cfg
			b.service.k8s = kube
			b.service.resourceDB = storage.NewMemoryStorage()
			b.service.ipamType = cfg.IPAMType
			if err := b.initInstanceLimit(); err != nil {
				out["err"] = "initInstanceLimit: " + err.Error()
				return
			}
			if err := b.setupENIManager(); err != nil {
				out["err"] = "setupENIManager: " + err.Error()
				return
			}
			svc, err := b.Build()
			if err != nil {
				out["err"] = "build: " + err.Error()
				return
			}
			attached, empty := 0, 0
			for _, s := range svc.eniMgr.Status() {
				if s.NetworkInterfaceID != "" {
					attached++
				} else {
					empty++
				}
			}
			adv, _ := strconv.Atoi(kube.advertised(string(types.NormalIPTypeIPs)))
			out["attached"], out["empty"], out["advertised"] = attached, empty, adv
		})
		w.Write(vt.M{"id": c["id"], "out": out, "panic": p})
	}
	t.Logf("answered %d restart cases", n)
}

var _ = strings.TrimSpace
var _ sync.Mutex
var _ http.Handler
var _ k8s.Kubernetes
