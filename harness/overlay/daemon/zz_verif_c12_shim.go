//go:build verif

package daemon

import (
	"github.com/AliyunContainerService/terway/pkg/eni"
	"github.com/AliyunContainerService/terway/pkg/k8s"
	"github.com/AliyunContainerService/terway/pkg/storage"
	"github.com/AliyunContainerService/terway/rpc"
	"github.com/AliyunContainerService/terway/types"
)

// VerifC12NewService assembles the real node daemon RPC service (networkService) over caller-supplied
// collaborators and an in-memory resource database. It exists only in the /verif build overlay so
// that the C12 harness (package main of plugin/terway) can call the real AllocIP / GetIPInfo and feed
// the replies to the plugin's parsers. Input construction only, no product logic.
func VerifC12NewService(mode string, k k8s.Kubernetes, mgr *eni.Manager, ipam types.IPAMType, v4, v6 bool) rpc.TerwayBackendServer {
	return &networkService{
		daemonMode: mode,
		k8s:        k,
		resourceDB: storage.NewMemoryStorage(),
		eniMgr:     mgr,
		enableIPv4: v4,
		enableIPv6: v6,
		ipamType:   ipam,
	}
}
