//go:build verif

package daemon

// Conformance harness for specs/Daemon.tla (C04, C05, C09).
//
// System under test: the REAL networkService (AllocIP / ReleaseIP / GetIPInfo / gcPods), constructed field
// by field, on the REAL eni.Manager + eni.Local pool and the REAL storage.NewDiskStorage (bolt file in the
// test's temp dir).  Fakes: the cloud behind factory.Factory (dCloud), the API server behind k8s.Kubernetes
// (dK8s), and a recording wrapper around the real disk storage (dStore).  The harness only builds inputs,
// forces interleavings at the points where the code yields (gates in the fakes, crash hooks, cancellation)
// and records what happened; every judgement is made by TLC on the recorded trace.

import (
	"bufio"
	"context"
	"encoding/json"
	"fmt"
	"io"
	"net"
	"net/http"
	"net/http/httptest"
	"net/netip"
	"os"
	"os/exec"
	"path/filepath"
	"runtime"
	"sort"
	"strings"
	"sync"
	"syscall"
	"testing"
	"time"

	"github.com/go-logr/logr"
	"github.com/vishvananda/netlink"
	corev1 "k8s.io/api/core/v1"
	apierrors "k8s.io/apimachinery/pkg/api/errors"
	metav1 "k8s.io/apimachinery/pkg/apis/meta/v1"
	k8stypes "k8s.io/apimachinery/pkg/types"
	"k8s.io/client-go/rest"
	ctrlclient "sigs.k8s.io/controller-runtime/pkg/client"
	"k8s.io/apimachinery/pkg/runtime/schema"
	logf "sigs.k8s.io/controller-runtime/pkg/log"

	"github.com/AliyunContainerService/terway/pkg/eni"
	"github.com/AliyunContainerService/terway/pkg/k8s"
	"github.com/AliyunContainerService/terway/pkg/storage"
	"github.com/AliyunContainerService/terway/pkg/utils"
	"github.com/AliyunContainerService/terway/rpc"
	"github.com/AliyunContainerService/terway/types"
	"github.com/AliyunContainerService/terway/types/daemon"
	"github.com/AliyunContainerService/terway/zzverif/vt"
)

// ---------------------------------------------------------------------------------------------
// small ids <-> product values

func dV4(k int) netip.Addr { return netip.AddrFrom4([4]byte{10, 0, byte(k >> 8), byte(k)}) }
// IPv6 addresses carry numbers from 101 on (fd00::<k>), IPv4 addresses numbers below 101 (10.0.0.<k>)
func dV6(k int) netip.Addr {
	return netip.AddrFrom16([16]byte{0xfd, 0, 0, 0, 0, 0, 0, 0, 0, 0, 0, 0, 0, 0, byte(k >> 8), byte(k)})
}
func dAddrNum(s string) int {
	a, err := netip.ParseAddr(s)
	if err != nil {
		return 0
	}
	b := a.AsSlice()
	return int(b[len(b)-2])<<8 | int(b[len(b)-1])
}
func dEniID(e int) string  { return fmt.Sprintf("eni-%d", e) }
func dEniMAC(e int) string { return fmt.Sprintf("00:16:3e:00:00:%02x", e) }
func dEniNum(id string) int {
	var e int
	if _, err := fmt.Sscanf(id, "eni-%d", &e); err != nil {
		return 0
	}
	return e
}
func dMacNum(mac string) int {
	var e int
	if _, err := fmt.Sscanf(mac, "00:16:3e:00:00:%02x", &e); err != nil {
		return 0
	}
	return e
}
func dPodName(p int) string { return fmt.Sprintf("pod-%d", p) }
func dPodNum(s string) int {
	var p int
	if i := strings.LastIndex(s, "pod-"); i >= 0 {
		if _, err := fmt.Sscanf(s[i:], "pod-%d", &p); err == nil {
			return p
		}
	}
	return 0
}
func dCid(c int) string { return fmt.Sprintf("cid-%d", c) }
func dCidNum(s *string) int {
	var c int
	if s == nil {
		return 0
	}
	if _, err := fmt.Sscanf(*s, "cid-%d", &c); err != nil {
		return 0
	}
	return c
}

const dNS = "ns"

// ---------------------------------------------------------------------------------------------
// the world lock: every event of a fake is emitted under it, atomically with the fake's state change.
// A crash sets dead under the lock: afterwards nothing of the old incarnation is ever emitted, and every
// goroutine of the old incarnation that enters a fake stays there for ever (the process was killed).

type dWorld struct {
	mu      sync.Mutex
	w       *vt.Writer // nil: a probe incarnation, nothing is recorded
	dead    bool
	hook    func(point string, locked bool)
	crashCh chan struct{}
}

func (x *dWorld) emit(m vt.M) {
	if x.w != nil && !x.dead {
		x.w.Emit(m)
	}
}

// enter takes the world lock; a dead incarnation never returns.
func (x *dWorld) enter() {
	x.mu.Lock()
	if x.dead {
		x.mu.Unlock()
		select {}
	}
}

func (x *dWorld) at(point string, locked bool) {
	if x.hook != nil {
		x.hook(point, locked)
	}
}

// ---------------------------------------------------------------------------------------------
// fake cloud behind factory.Factory (IPv4, and IPv6 on a dual-stack node). State under cmu (a leaf lock: LoadNetworkInterface is
// called by the pool while it holds its own lock, so it must not take the world lock).

type dEni struct {
	primary int
	v4      map[int]bool
	v6      map[int]bool
}

type dCloud struct {
	x       *dWorld
	cmu     sync.Mutex
	enis    map[int]*dEni
	nextEni int
	plan    []string
}

func (c *dCloud) clone(x *dWorld) *dCloud {
	c.cmu.Lock()
	defer c.cmu.Unlock()
	n := &dCloud{x: x, enis: map[int]*dEni{}, nextEni: c.nextEni}
	for e, fe := range c.enis {
		ne := &dEni{primary: fe.primary, v4: map[int]bool{}, v6: map[int]bool{}}
		for a := range fe.v4 {
			ne.v4[a] = true
		}
		for a := range fe.v6 {
			ne.v6[a] = true
		}
		n.enis[e] = ne
	}
	return n
}

func (c *dCloud) nextOutcome() string {
	c.cmu.Lock()
	defer c.cmu.Unlock()
	if len(c.plan) == 0 {
		return "ok"
	}
	o := c.plan[0]
	c.plan = c.plan[1:]
	return o
}

func (c *dCloud) freeAddrLocked() int {
	used := map[int]bool{}
	for _, e := range c.enis {
		for a := range e.v4 {
			used[a] = true
		}
	}
	for a := 1; a <= 100; a++ {
		if !used[a] {
			return a
		}
	}
	panic("verif: address universe exhausted")
}

func (c *dCloud) freeV6Locked() int {
	used := map[int]bool{}
	for _, e := range c.enis {
		for a := range e.v6 {
			used[a] = true
		}
	}
	for a := 101; a <= 250; a++ {
		if !used[a] {
			return a
		}
	}
	panic("verif: address universe exhausted")
}

func dBoth(fe *dEni) []int { return append(dSet(fe.v4), dSet(fe.v6)...) }

func dSet(m map[int]bool) []int {
	r := []int{}
	for a := range m {
		r = append(r, a)
	}
	sort.Ints(r)
	return r
}

func (c *dCloud) eniObjLocked(e int) *daemon.ENI {
	fe := c.enis[e]
	ni := &daemon.ENI{ID: dEniID(e), MAC: dEniMAC(e), VSwitchID: "vsw-1"}
	ni.PrimaryIP.SetIP(dV4(fe.primary).String())
	ni.GatewayIP.SetIP("10.0.255.253")
	ni.VSwitchCIDR.SetIPNet("10.0.0.0/16")
	return ni
}

func (c *dCloud) snapshot() []vt.M {
	c.cmu.Lock()
	defer c.cmu.Unlock()
	es := []int{}
	for e := range c.enis {
		es = append(es, e)
	}
	sort.Ints(es)
	r := []vt.M{}
	for _, e := range es {
		r = append(r, vt.M{"e": e, "as": dBoth(c.enis[e])})
	}
	return r
}

func (c *dCloud) CreateNetworkInterface(n4, n6 int, eniType string) (*daemon.ENI, []netip.Addr, []netip.Addr, error) {
	c.x.enter()
	o := c.nextOutcome()
	c.x.emit(vt.M{"ev": "cl_begin", "k": "create", "e": 0, "n": n4, "plan": o})
	c.x.mu.Unlock()
	c.x.at("cl_begin", false)
	c.x.enter()
	if strings.HasPrefix(o, "fb") {
		c.x.emit(vt.M{"ev": "cl_end", "k": "create", "e": 0, "as": []int{}, "err": true})
		c.x.mu.Unlock()
		c.x.at("cl_end", false)
		return nil, nil, nil, fmt.Errorf("verif: injected failure")
	}
	c.cmu.Lock()
	c.nextEni++
	e := c.nextEni
	fe := &dEni{v4: map[int]bool{}, v6: map[int]bool{}}
	c.enis[e] = fe
	var r4, r6 []netip.Addr
	for i := 0; i < n6; i++ {
		a := c.freeV6Locked()
		fe.v6[a] = true
		r6 = append(r6, dV6(a))
	}
	for i := 0; i < n4; i++ {
		a := c.freeAddrLocked()
		fe.v4[a] = true
		if i == 0 {
			fe.primary = a
		}
		r4 = append(r4, dV4(a))
	}
	ni := c.eniObjLocked(e)
	as := dBoth(fe)
	c.cmu.Unlock()
	c.x.emit(vt.M{"ev": "cl_end", "k": "create", "e": e, "as": as, "err": false})
	c.x.mu.Unlock()
	c.x.at("cl_end", false)
	return ni, r4, r6, nil
}

func (c *dCloud) AssignNIPv4(id string, count int, mac string) ([]netip.Addr, error) {
	e := dEniNum(id)
	c.x.enter()
	o := c.nextOutcome()
	c.x.emit(vt.M{"ev": "cl_begin", "k": "assign", "e": e, "n": count, "plan": o})
	c.x.mu.Unlock()
	c.x.at("cl_begin", false)
	c.x.enter()
	c.cmu.Lock()
	fe := c.enis[e]
	if strings.HasPrefix(o, "fb") || fe == nil {
		c.cmu.Unlock()
		c.x.emit(vt.M{"ev": "cl_end", "k": "assign", "e": e, "as": []int{}, "err": true})
		c.x.mu.Unlock()
		c.x.at("cl_end", false)
		return nil, fmt.Errorf("verif: injected failure")
	}
	var r []netip.Addr
	got := []int{}
	for i := 0; i < count; i++ {
		a := c.freeAddrLocked()
		fe.v4[a] = true
		r = append(r, dV4(a))
		got = append(got, a)
	}
	c.cmu.Unlock()
	c.x.emit(vt.M{"ev": "cl_end", "k": "assign", "e": e, "as": got, "err": false})
	c.x.mu.Unlock()
	c.x.at("cl_end", false)
	return r, nil
}

func (c *dCloud) AssignNIPv6(id string, count int, mac string) ([]netip.Addr, error) {
	e := dEniNum(id)
	c.x.enter()
	c.x.emit(vt.M{"ev": "cl_begin", "k": "assign", "e": e, "n": count, "plan": "ok"})
	c.x.mu.Unlock()
	c.x.at("cl_begin", false)
	c.x.enter()
	c.cmu.Lock()
	fe := c.enis[e]
	if fe == nil {
		c.cmu.Unlock()
		c.x.emit(vt.M{"ev": "cl_end", "k": "assign", "e": e, "as": []int{}, "err": true})
		c.x.mu.Unlock()
		c.x.at("cl_end", false)
		return nil, fmt.Errorf("verif: injected failure")
	}
	var r []netip.Addr
	got := []int{}
	for i := 0; i < count; i++ {
		a := c.freeV6Locked()
		fe.v6[a] = true
		r = append(r, dV6(a))
		got = append(got, a)
	}
	c.cmu.Unlock()
	c.x.emit(vt.M{"ev": "cl_end", "k": "assign", "e": e, "as": got, "err": false})
	c.x.mu.Unlock()
	c.x.at("cl_end", false)
	return r, nil
}

func (c *dCloud) UnAssignNIPv4(id string, ips []netip.Addr, mac string) error {
	e := dEniNum(id)
	c.x.enter()
	c.cmu.Lock()
	got := []int{}
	if fe := c.enis[e]; fe != nil {
		for _, ip := range ips {
			a := dAddrNum(ip.String())
			if fe.v4[a] {
				delete(fe.v4, a)
				got = append(got, a)
			}
		}
	}
	c.cmu.Unlock()
	c.x.emit(vt.M{"ev": "cl_end", "k": "unassign", "e": e, "as": got, "err": false})
	c.x.mu.Unlock()
	return nil
}

func (c *dCloud) UnAssignNIPv6(id string, ips []netip.Addr, mac string) error {
	e := dEniNum(id)
	c.x.enter()
	c.cmu.Lock()
	got := []int{}
	if fe := c.enis[e]; fe != nil {
		for _, ip := range ips {
			a := dAddrNum(ip.String())
			if fe.v6[a] {
				delete(fe.v6, a)
				got = append(got, a)
			}
		}
	}
	c.cmu.Unlock()
	c.x.emit(vt.M{"ev": "cl_end", "k": "unassign", "e": e, "as": got, "err": false})
	c.x.mu.Unlock()
	return nil
}

func (c *dCloud) DeleteNetworkInterface(id string) error {
	e := dEniNum(id)
	c.x.enter()
	c.cmu.Lock()
	delete(c.enis, e)
	c.cmu.Unlock()
	c.x.emit(vt.M{"ev": "cl_end", "k": "delete", "e": e, "as": []int{}, "err": false})
	c.x.mu.Unlock()
	return nil
}

func (c *dCloud) LoadNetworkInterface(mac string) ([]netip.Addr, []netip.Addr, error) {
	e := dMacNum(mac)
	c.cmu.Lock()
	defer c.cmu.Unlock()
	fe := c.enis[e]
	if fe == nil {
		return nil, nil, fmt.Errorf("verif: eni %s not found", mac)
	}
	var r4, r6 []netip.Addr
	for _, a := range dSet(fe.v4) {
		r4 = append(r4, dV4(a))
	}
	for _, a := range dSet(fe.v6) {
		r6 = append(r6, dV6(a))
	}
	return r4, r6, nil
}

func (c *dCloud) GetAttachedNetworkInterface(preferTrunkID string) ([]*daemon.ENI, error) {
	c.cmu.Lock()
	defer c.cmu.Unlock()
	es := []int{}
	for e := range c.enis {
		es = append(es, e)
	}
	sort.Ints(es)
	var r []*daemon.ENI
	for _, e := range es {
		r = append(r, c.eniObjLocked(e))
	}
	return r, nil
}

// ---------------------------------------------------------------------------------------------
// fake API server behind k8s.Kubernetes. Every method the daemon paths under test do not call is left to
// the embedded nil interface (a call would panic: an unexpected dependency).

type dPod struct {
	api    bool   // the API server has the pod, scheduled to this node
	loc    string // "none" | "run" | "exited": presence in the node-local pod list, sandbox state
	sticky bool   // IPStickTime != 0
	cached bool   // the daemon's pod cache (pod.db) still has the pod after it left the API
}

type dRpcKey struct{}

type dK8s struct {
	k8s.Kubernetes
	x       *dWorld
	pods    map[int]*dPod
	apiErr  bool
	listErr bool
	gates   map[int]chan struct{} // rpc id -> GetPod waits here (after the event)
	atGate  chan int
	// "real client" scenarios: GetPod / GetLocalPods / PodExist are answered by the REAL pkg/k8s code talking to
	// a small API server (dAPI) which has the two views a real one has; this wrapper only records what was asked
	// and answered, and keeps the gates
	real k8s.Kubernetes
	api  *dAPI
	// a GC pass has read the node-local pod list (it holds the service lock now)
	listed chan struct{}
}

func (k *dK8s) noteListed() {
	if k.listed != nil {
		select {
		case k.listed <- struct{}{}:
		default:
		}
	}
}

const dNode = "node1"

// dAPI: the authoritative store (consistent reads) and the watch cache (reads with resourceVersion=0), which has not
// yet seen the pods marked lag. It records for every pod whether the last GET was a consistent read.
type dAPI struct {
	mu      sync.Mutex
	pods    map[int]dAPIPod
	lastRV0 map[int]bool
	srv     *httptest.Server
}

type dAPIPod struct{ api, lag bool }

func dAPIJSON(w http.ResponseWriter, code int, obj interface{}) {
	w.Header().Set("Content-Type", "application/json")
	w.WriteHeader(code)
	_ = json.NewEncoder(w).Encode(obj)
}

func dAPIPodObj(p int) *corev1.Pod {
	return &corev1.Pod{
		TypeMeta:   metav1.TypeMeta{Kind: "Pod", APIVersion: "v1"},
		ObjectMeta: metav1.ObjectMeta{Namespace: dNS, Name: dPodName(p), UID: k8stypes.UID(fmt.Sprintf("uid-%d", p))},
		Spec:       corev1.PodSpec{NodeName: dNode},
		Status:     corev1.PodStatus{Phase: corev1.PodRunning},
	}
}

func (a *dAPI) ServeHTTP(w http.ResponseWriter, r *http.Request) {
	a.mu.Lock()
	defer a.mu.Unlock()
	rv0 := r.URL.Query().Get("resourceVersion") == "0"
	visible := func(st dAPIPod) bool { return st.api && !(rv0 && st.lag) }
	parts := strings.Split(strings.Trim(r.URL.Path, "/"), "/")
	notFound := func(name string) {
		dAPIJSON(w, 404, &metav1.Status{TypeMeta: metav1.TypeMeta{Kind: "Status", APIVersion: "v1"}, Status: metav1.StatusFailure,
			Reason: metav1.StatusReasonNotFound, Code: 404, Message: fmt.Sprintf("pods %q not found", name),
			Details: &metav1.StatusDetails{Name: name, Kind: "pods"}})
	}
	switch {
	case r.Method == http.MethodGet && r.URL.Path == "/api/v1/pods":
		list := &corev1.PodList{TypeMeta: metav1.TypeMeta{Kind: "PodList", APIVersion: "v1"}}
		list.ResourceVersion = "100"
		ps := []int{}
		for p := range a.pods {
			ps = append(ps, p)
		}
		sort.Ints(ps)
		for _, p := range ps {
			if visible(a.pods[p]) {
				list.Items = append(list.Items, *dAPIPodObj(p))
			}
		}
		dAPIJSON(w, 200, list)
	case r.Method == http.MethodGet && len(parts) == 6 && parts[2] == "namespaces" && parts[4] == "pods":
		p := dPodNum(parts[5])
		a.lastRV0[p] = rv0
		if st, ok := a.pods[p]; !ok || !visible(st) {
			notFound(parts[5])
			return
		}
		dAPIJSON(w, 200, dAPIPodObj(p))
	default:
		notFound(r.URL.Path)
	}
}

func dNewRealK8s(t *testing.T) (k8s.Kubernetes, *dAPI) {
	a := &dAPI{pods: map[int]dAPIPod{}, lastRV0: map[int]bool{}}
	a.srv = httptest.NewServer(a)
	c, err := ctrlclient.New(&rest.Config{Host: a.srv.URL}, ctrlclient.Options{Scheme: types.Scheme, Mapper: types.NewRESTMapper()})
	if err != nil {
		t.Fatalf("api client: %v", err)
	}
	return k8s.VerifDaemonNewK8S(c, dNode, daemon.ModeENIMultiIP), a
}

func (k *dK8s) clone(x *dWorld) *dK8s {
	n := &dK8s{x: x, pods: map[int]*dPod{}, apiErr: k.apiErr, listErr: k.listErr, gates: map[int]chan struct{}{}, atGate: make(chan int, 256),
		real: k.real, api: k.api, listed: make(chan struct{}, 16)}
	for p, st := range k.pods {
		c := *st
		n.pods[p] = &c
	}
	return n
}

func dPodInfo(p int, st *dPod) *daemon.PodInfo {
	pi := &daemon.PodInfo{Name: dPodName(p), Namespace: dNS, PodNetworkType: daemon.PodNetworkTypeENIMultiIP,
		PodUID: fmt.Sprintf("uid-%d", p), SandboxExited: st.loc == "exited"}
	if st.sticky {
		pi.IPStickTime = 5 * time.Minute
	}
	return pi
}

func (k *dK8s) GetPod(ctx context.Context, namespace, name string, cache bool) (*daemon.PodInfo, error) {
	r, _ := ctx.Value(dRpcKey{}).(int)
	p := dPodNum(name)
	var (
		pi      *daemon.PodInfo
		realErr error
		found   bool
		sticky  bool
	)
	if k.real != nil {
		pi, realErr = k.real.GetPod(ctx, namespace, name, cache)
		k.x.enter()
		found = realErr == nil
		sticky = found && pi.IPStickTime != 0
	} else {
		k.x.enter()
		st := k.pods[p]
		found = st != nil && (st.api || st.cached)
		sticky = found && st.sticky
		if found {
			pi = dPodInfo(p, st)
		}
	}
	k.x.emit(vt.M{"ev": "k8s_getpod", "r": r, "p": p, "cache": cache, "found": found, "sticky": sticky, "chk": k.real == nil})
	g := k.gates[r]
	delete(k.gates, r)
	k.x.mu.Unlock()
	k.x.at("getpod", false)
	if g != nil {
		select {
		case k.atGate <- r:
		default:
		}
		<-g
	}
	if err := ctx.Err(); err != nil {
		return nil, err // what a real client does with a cancelled request
	}
	if k.real != nil {
		return pi, realErr
	}
	if !found {
		return nil, apierrors.NewNotFound(schema.GroupResource{Resource: "pods"}, name)
	}
	return pi, nil
}

func (k *dK8s) GetLocalPods() ([]*daemon.PodInfo, error) {
	defer k.noteListed()
	if k.real != nil {
		list, err := k.real.GetLocalPods()
		live := []int{}
		for _, pi := range list {
			if !pi.SandboxExited {
				live = append(live, dPodNum(pi.Name))
			}
		}
		sort.Ints(live)
		k.x.enter()
		k.x.emit(vt.M{"ev": "k8s_localpods", "live": live, "err": err != nil})
		k.x.mu.Unlock()
		return list, err
	}
	k.x.enter()
	defer k.x.mu.Unlock()
	if k.listErr {
		k.x.emit(vt.M{"ev": "k8s_localpods", "live": []int{}, "err": true})
		return nil, fmt.Errorf("verif: injected list failure")
	}
	ps := []int{}
	for p := range k.pods {
		ps = append(ps, p)
	}
	sort.Ints(ps)
	live := []int{}
	var r []*daemon.PodInfo
	for _, p := range ps {
		st := k.pods[p]
		if st.loc == "none" {
			continue
		}
		r = append(r, dPodInfo(p, st))
		if st.loc == "run" {
			live = append(live, p)
		}
	}
	k.x.emit(vt.M{"ev": "k8s_localpods", "live": live, "err": false})
	return r, nil
}

func (k *dK8s) PodExist(namespace, name string) (bool, error) {
	p := dPodNum(name)
	if k.real != nil {
		ex, err := k.real.PodExist(namespace, name)
		k.api.mu.Lock()
		cons := !k.api.lastRV0[p] // what the API server saw: a consistent read, or one it may answer from its watch cache
		k.api.mu.Unlock()
		k.x.enter()
		k.x.emit(vt.M{"ev": "k8s_podexist", "p": p, "exist": ex, "err": err != nil, "cons": cons})
		k.x.mu.Unlock()
		return ex, err
	}
	k.x.enter()
	defer k.x.mu.Unlock()
	if k.apiErr {
		k.x.emit(vt.M{"ev": "k8s_podexist", "p": p, "exist": false, "err": true, "cons": true})
		return false, fmt.Errorf("verif: injected API failure")
	}
	st := k.pods[p]
	ex := st != nil && st.api
	k.x.emit(vt.M{"ev": "k8s_podexist", "p": p, "exist": ex, "err": false, "cons": true})
	return ex, nil
}

func (k *dK8s) GetServiceCIDR() *types.IPNetSet {
	s := &types.IPNetSet{}
	s.SetIPNet("172.16.0.0/16")
	return s
}

// ---------------------------------------------------------------------------------------------
// recording wrapper around the REAL disk storage

type dStore struct {
	x       *dWorld
	real    storage.Storage
	gatePut map[int]chan struct{} // pod -> the next Put of that pod waits here (before the write)
	gateDel map[int]chan struct{}
	atGate  chan int
	failPut int // the next failPut Puts fail before any effect (the bolt write returns an error)
	failDel int
}

func dRecFields(rec daemon.PodResources) (c, e, a, a6 int, sticky bool) {
	c = dCidNum(rec.ContainerID)
	for _, it := range rec.Resources {
		if it.Type == daemon.ResourceTypeENIIP {
			e, a, a6 = dEniNum(it.ENIID), dAddrNum(it.IPv4), dAddrNum(it.IPv6)
			break
		}
	}
	sticky = rec.PodInfo != nil && rec.PodInfo.IPStickTime != 0
	return
}

func (s *dStore) wait(m map[int]chan struct{}, p int) {
	s.x.enter()
	g := m[p]
	delete(m, p)
	s.x.mu.Unlock()
	if g != nil {
		select {
		case s.atGate <- p:
		default:
		}
		<-g
	}
}

func (s *dStore) Put(key string, value interface{}) error {
	p := dPodNum(key)
	s.wait(s.gatePut, p)
	s.x.enter()
	rec, _ := value.(daemon.PodResources)
	c, e, a, a6, sticky := dRecFields(rec)
	s.x.emit(vt.M{"ev": "put_begin", "p": p, "c": c, "e": e, "a": a, "a6": a6, "sticky": sticky})
	s.x.at("put_begin", true)
	var err error
	if s.failPut > 0 {
		s.failPut--
		err = fmt.Errorf("verif: injected database write failure")
	} else {
		err = s.real.Put(key, value)
	}
	s.x.emit(vt.M{"ev": "put_end", "p": p, "ok": err == nil})
	s.x.at("put_end", true)
	s.x.mu.Unlock()
	return err
}

func (s *dStore) Delete(key string) error {
	p := dPodNum(key)
	s.wait(s.gateDel, p)
	s.x.enter()
	s.x.emit(vt.M{"ev": "del_begin", "p": p})
	s.x.at("del_begin", true)
	var err error
	if s.failDel > 0 {
		s.failDel--
		err = fmt.Errorf("verif: injected database write failure")
	} else {
		err = s.real.Delete(key)
	}
	s.x.emit(vt.M{"ev": "del_end", "p": p, "ok": err == nil})
	s.x.at("del_end", true)
	s.x.mu.Unlock()
	return err
}

func (s *dStore) Get(key string) (interface{}, error) { return s.real.Get(key) }
func (s *dStore) List() ([]interface{}, error)        { return s.real.List() }

func dRealDBPath() string { return utils.NormalizePath(resDBPath) }

func dOpenDB(path string) (storage.Storage, error) {
	// the same serializer pair as NetworkServiceBuilder.InitResourceDB (which is bound to a constant path)
	return storage.NewDiskStorage(resDBName, path, json.Marshal, func(b []byte) (interface{}, error) {
		rel := &daemon.PodResources{}
		if err := json.Unmarshal(b, rel); err != nil {
			return nil, err
		}
		return *rel, nil
	})
}

func dRecList(objs []interface{}) []vt.M {
	r := []vt.M{}
	for _, o := range objs {
		rec := o.(daemon.PodResources)
		p := 0
		if rec.PodInfo != nil {
			p = dPodNum(rec.PodInfo.Name)
		}
		c, e, a, a6, sticky := dRecFields(rec)
		r = append(r, vt.M{"p": p, "c": c, "e": e, "a": a, "a6": a6, "sticky": sticky})
	}
	sort.Slice(r, func(i, j int) bool { return r[i]["p"].(int) < r[j]["p"].(int) })
	return r
}

func dCopyFile(src, dst string) error {
	in, err := os.Open(src)
	if err != nil {
		return err
	}
	defer in.Close()
	out, err := os.Create(dst)
	if err != nil {
		return err
	}
	if _, err := io.Copy(out, in); err != nil {
		out.Close()
		return err
	}
	return out.Close()
}

// ---------------------------------------------------------------------------------------------
// one incarnation of the daemon

type dConf struct {
	n1, n2, slots, cap int
	policy, fam        string
	probe              bool
	realk8s            bool // the API server is asked through the real pkg/k8s code
	v6                 bool // dual stack: every pod gets an IPv4 and an IPv6 address
	realdb             bool // the database is opened by the REAL NetworkServiceBuilder.InitResourceDB at its constant path
}

type dSys struct {
	t      *testing.T
	conf   dConf
	x      *dWorld
	cloud  *dCloud
	k8s    *dK8s
	store  *dStore
	svc    *networkService
	mgr    *eni.Manager
	ctx    context.Context
	stop   context.CancelFunc
	wg     sync.WaitGroup
	dir    string
	dbPath string
}

var dFileSeq int

func dNextFile(dir, tag string) string {
	dFileSeq++
	return filepath.Join(dir, fmt.Sprintf("%s-%d.db", tag, dFileSeq))
}

// dStart builds a daemon incarnation from a bolt file and a cloud through the pieces of the real start-up
// path (NetworkServiceBuilder.setupENIManager, daemon/builder.go:365-417): NewDiskStorage -> List ->
// filterENINotFound -> one NewLocal per attached interface + empty slots -> NewManager -> Run(podResources).
func dStart(t *testing.T, conf dConf, x *dWorld, cloud *dCloud, kk *dK8s, dir, dbPath string) (*dSys, error) {
	s := &dSys{t: t, conf: conf, x: x, cloud: cloud, k8s: kk, dir: dir, dbPath: dbPath}
	cloud.x, kk.x = x, x
	var real storage.Storage
	var err error
	if conf.realdb {
		// the product's own way to the database: its serializer pair, its constant path (which lies in the tmpfs this
		// process mounted over /var/lib in its private mount namespace)
		if dbPath != dRealDBPath() {
			return nil, fmt.Errorf("verif: real database mode needs the product's path")
		}
		b := NewNetworkServiceBuilder(context.Background()).WithDaemonMode(daemon.ModeENIMultiIP).InitService().InitResourceDB()
		if b.err != nil {
			return nil, b.err
		}
		real = b.service.resourceDB
	} else {
		real, err = dOpenDB(dbPath)
		if err != nil {
			return nil, err
		}
	}
	s.store = &dStore{x: x, real: real, gatePut: map[int]chan struct{}{}, gateDel: map[int]chan struct{}{}, atGate: make(chan int, 256)}
	objList, err := real.List()
	if err != nil {
		return nil, err
	}
	attached, _ := cloud.GetAttachedNetworkInterface("")
	attachedENIID := map[string]*daemon.ENI{}
	for _, ni := range attached {
		attachedENIID[ni.ID] = ni
	}
	podResources := filterENINotFound(getPodResources(objList), attachedENIID)
	pc := &daemon.PoolConfig{BatchSize: 1, MaxIPPerENI: conf.cap, EnableIPv4: true, EnableIPv6: conf.v6, MaxENI: conf.slots, Capacity: conf.slots * conf.cap}
	var eniList []eni.NetworkInterface
	for _, ni := range attached {
		l := eni.NewLocal(ni, "secondary", cloud, pc)
		eni.VerifDaemonFastLimiters(l)
		eniList = append(eniList, l)
	}
	for i := len(attached); i < conf.slots; i++ {
		l := eni.NewLocal(nil, "secondary", cloud, pc)
		eni.VerifDaemonFastLimiters(l)
		eniList = append(eniList, l)
	}
	s.mgr = eni.NewManager(0, 1000, pc.Capacity, 0, eniList, daemon.EniSelectionPolicy(conf.policy), nil)
	s.ctx, s.stop = context.WithCancel(context.Background())
	if err := s.mgr.Run(s.ctx, &s.wg, podResources); err != nil {
		return nil, err
	}
	s.svc = &networkService{daemonMode: daemon.ModeENIMultiIP, k8s: kk, resourceDB: s.store, eniMgr: s.mgr,
		enableIPv4: true, enableIPv6: conf.v6, ipamType: types.IPAMTypeDefault}
	return s, nil
}

func (s *dSys) shutdown(closeDB bool) {
	s.stop()
	done := make(chan struct{})
	go func() { s.wg.Wait(); close(done) }()
	select {
	case <-done:
	case <-time.After(3 * time.Second): // a worker frozen inside a fake of a crashed incarnation never returns
	}
	if closeDB {
		_ = storage.VerifDaemonClose(s.store.real)
	}
}

// own projects the pool's own view (Manager.Status) to {interface, address, owner pod}.
func (s *dSys) own() []vt.M {
	r := []vt.M{}
	for _, st := range s.mgr.Status() {
		for _, u := range st.Usage {
			if u[1] == "" {
				continue
			}
			r = append(r, vt.M{"e": dEniNum(st.NetworkInterfaceID), "a": dAddrNum(u[0]), "p": dPodNum(u[1])})
		}
	}
	sort.Slice(r, func(i, j int) bool { return r[i]["a"].(int) < r[j]["a"].(int) })
	return r
}

func (s *dSys) mem() []vt.M {
	l, _ := s.store.real.List()
	return dRecList(l)
}

// diskCopy reads what is on disk through a fresh real DiskStorage opened on a copy of the bolt file.
// Must be called with the world lock held (no write of this incarnation is in progress then).
func (s *dSys) diskCopy() []vt.M {
	cp := dNextFile(s.dir, "obs")
	if err := dCopyFile(s.dbPath, cp); err != nil {
		s.t.Fatalf("copy db: %v", err)
	}
	st, err := dOpenDB(cp)
	if err != nil {
		s.t.Fatalf("open db copy: %v", err)
	}
	l, _ := st.List()
	_ = storage.VerifDaemonClose(st)
	_ = os.Remove(cp)
	return dRecList(l)
}

// poolBusy: is any goroutine of the pool still between taking an address and settling it (the commit
// goroutine of Local.Allocate, an allocWorker, Manager.Allocate's collectors)? Exact, no timing involved.
func dPoolBusy() bool {
	buf := make([]byte, 1<<20)
	for {
		n := runtime.Stack(buf, true)
		if n < len(buf) {
			buf = buf[:n]
			break
		}
		buf = make([]byte, 2*len(buf))
	}
	for _, g := range strings.Split(string(buf), "\n\n") {
		if strings.Contains(g, "select (no cases)") {
			continue // frozen for ever inside a fake of a crashed incarnation
		}
		if strings.Contains(g, "pkg/eni.(*Local).Allocate.func") || strings.Contains(g, "pkg/eni.(*Local).commitKeep") ||
			strings.Contains(g, "pkg/eni.(*Local).allocWorker") || strings.Contains(g, "pkg/eni.(*Manager).Allocate") {
			return true
		}
	}
	return false
}

func dStacks() string {
	buf := make([]byte, 1<<20)
	return string(buf[:runtime.Stack(buf, true)])
}

func dSettlePool() {
	deadline := time.Now().Add(3 * time.Second)
	for dPoolBusy() && time.Now().Before(deadline) {
		time.Sleep(200 * time.Microsecond)
	}
}

// ---------------------------------------------------------------------------------------------
// cancellation at the k-th touch of the request context (Done / Err / Value): a deterministic way to put
// the cancellation instant at every point where the code under test looks at its context.

type dTouchCtx struct {
	context.Context
	mu   sync.Mutex
	n, k int
	done chan struct{}
	err  error
	on   func()
}

func (c *dTouchCtx) touch() {
	c.mu.Lock()
	c.n++
	fire := c.n == c.k && c.err == nil
	if fire {
		c.err = context.Canceled
		close(c.done)
	}
	c.mu.Unlock()
	if fire {
		if c.on != nil {
			c.on()
		}
		time.Sleep(150 * time.Microsecond) // let the cancellation propagate to derived contexts
	}
}
func (c *dTouchCtx) expire() {
	c.mu.Lock()
	if c.err == nil {
		c.err = context.DeadlineExceeded
		close(c.done)
	}
	c.mu.Unlock()
}
func (c *dTouchCtx) Done() <-chan struct{} { c.touch(); return c.done }
func (c *dTouchCtx) Err() error {
	c.touch()
	c.mu.Lock()
	defer c.mu.Unlock()
	return c.err
}
func (c *dTouchCtx) Value(key any) any { c.touch(); return c.Context.Value(key) }
func (c *dTouchCtx) Deadline() (time.Time, bool) { return time.Time{}, false }

// ---------------------------------------------------------------------------------------------
// driver

type dFlight struct {
	r, p   int
	k      string
	done   chan struct{}
	gate   chan struct{}
	cancel context.CancelFunc
}

type dDriver struct {
	t       *testing.T
	w       *vt.Writer
	s       *dSys
	nextR   int
	nextG   int
	flights map[int]*dFlight
	gcDone  chan struct{}
	arm     struct {
		point string
		n     int
	}
	probes int
	probeTime, obsTime time.Duration
	root   string
}

func dErrCode(err error) string {
	if err == nil {
		return ""
	}
	var te *types.Error
	if e, ok := err.(*types.Error); ok {
		te = e
	}
	if te != nil {
		switch te.Code {
		case types.ErrPodIsProcessing:
			return "processing"
		case types.ErrInvalidArgsErrCode:
			return "invalid"
		}
		return "internal"
	}
	if err == context.Canceled || err == context.DeadlineExceeded || strings.Contains(err.Error(), "context canceled") {
		return "canceled"
	}
	return "error"
}

func dNetConfAddr(ncs []*rpc.NetConf) (e, a, a6 int) {
	for _, nc := range ncs {
		if nc.BasicInfo != nil && nc.BasicInfo.PodIP != nil && nc.BasicInfo.PodIP.IPv4 != "" {
			a, a6 = dAddrNum(nc.BasicInfo.PodIP.IPv4), dAddrNum(nc.BasicInfo.PodIP.IPv6)
			if nc.ENIInfo != nil {
				e = dMacNum(nc.ENIInfo.MAC)
			}
			return
		}
	}
	return 0, 0, 0
}

// doRPC runs one handler of the real service and returns the projected reply.
func dDoRPC(svc *networkService, ctx context.Context, k string, p, c int) (ok bool, code string, e, a, a6 int) {
	switch k {
	case "add":
		rep, err := svc.AllocIP(ctx, &rpc.AllocIPRequest{K8SPodName: dPodName(p), K8SPodNamespace: dNS,
			K8SPodInfraContainerId: dCid(c), Netns: fmt.Sprintf("/var/run/netns/%s", dCid(c)), IfName: "eth0"})
		if err != nil || rep == nil || !rep.Success {
			return false, dErrCode(err), 0, 0, 0
		}
		e, a, a6 = dNetConfAddr(rep.NetConfs)
		return true, "", e, a, a6
	case "del":
		rep, err := svc.ReleaseIP(ctx, &rpc.ReleaseIPRequest{K8SPodName: dPodName(p), K8SPodNamespace: dNS, K8SPodInfraContainerId: dCid(c)})
		if err != nil || rep == nil || !rep.Success {
			return false, dErrCode(err), 0, 0, 0
		}
		return true, "", 0, 0, 0
	default:
		rep, err := svc.GetIPInfo(ctx, &rpc.GetInfoRequest{K8SPodName: dPodName(p), K8SPodNamespace: dNS, K8SPodInfraContainerId: dCid(c)})
		if err != nil || rep == nil || !rep.Success {
			return false, dErrCode(err), 0, 0, 0
		}
		e, a, a6 = dNetConfAddr(rep.NetConfs)
		return true, "", e, a, a6
	}
}

func (d *dDriver) bind(s *dSys) {
	s.x.hook = func(point string, locked bool) { d.hookFor(s, point, locked) }
}

func (d *dDriver) hookFor(s *dSys, point string, locked bool) {
	x := s.x
	if !locked {
		x.enter()
	}
	if s.conf.probe && x.w != nil {
		d.probeLocked(s, point)
	}
	if d.arm.n > 0 && d.arm.point == point {
		d.arm.n--
		if d.arm.n == 0 {
			// the process is killed here
			x.dead = true
			x.w.Emit(vt.M{"ev": "crash", "point": point})
			close(x.crashCh)
			x.mu.Unlock()
			select {}
		}
	}
	if !locked {
		x.mu.Unlock()
	}
}

// probeLocked: what would a daemon restarted from the disk and cloud state of this very instant believe?
// A second incarnation is built from copies through the real start-up pieces; its owners and a follow-up
// ADD for every pod are logged in one event judged by the specification's Probe action (no state change).
func (d *dDriver) probeLocked(s *dSys, point string) {
	d.probes++
	t0 := time.Now()
	defer func() { d.probeTime += time.Since(t0) }()
	cp := dNextFile(s.dir, "probe")
	if err := dCopyFile(s.dbPath, cp); err != nil {
		s.t.Fatalf("probe copy: %v", err)
	}
	px := &dWorld{crashCh: make(chan struct{})}
	pconf := s.conf
	pconf.realdb = false // the running daemon holds the lock of the file at the product's path: the probe reads a copy
	ps, err := dStart(s.t, pconf, px, s.cloud.clone(px), s.k8s.clone(px), s.dir, cp)
	if err != nil {
		s.t.Fatalf("probe start at %s: %v", point, err)
	}
	disk := ps.mem()
	own := ps.own()
	adds := []vt.M{}
	ps_ := []int{}
	for p := range ps.k8s.pods {
		ps_ = append(ps_, p)
	}
	sort.Ints(ps_)
	// rotate the order so that every pod gets to ask first at some probe
	if len(ps_) > 0 {
		k := d.probes % len(ps_)
		ps_ = append(ps_[k:], ps_[:k]...)
	}
	for _, p := range ps_ {
		if st := ps.k8s.pods[p]; !st.api {
			continue
		}
		ctx, cancel := context.WithTimeout(context.WithValue(context.Background(), dRpcKey{}, 0), 700*time.Millisecond)
		ok, _, e, a, a6 := dDoRPC(ps.svc, ctx, "add", p, 90+p)
		cancel()
		adds = append(adds, vt.M{"p": p, "ok": ok, "e": e, "a": a, "a6": a6})
	}
	ps.shutdown(true)
	_ = os.Remove(cp)
	s.x.emit(vt.M{"ev": "probe", "point": point, "disk": disk, "own": own, "adds": adds})
}

// lock takes the world lock of the running incarnation; an incarnation that was killed meanwhile (an armed crash
// point fired in a request still in flight) is replaced by a restarted one first. The driver never freezes.
func (d *dDriver) lock() *dSys {
	for {
		s := d.s
		s.x.mu.Lock()
		if !s.x.dead {
			return s
		}
		s.x.mu.Unlock()
		d.restart()
	}
}

func (d *dDriver) quiescent() bool { return len(d.flights) == 0 && d.gcDone == nil }

func (d *dDriver) reap() {
	for r, f := range d.flights {
		select {
		case <-f.done:
			d.release(f)
			delete(d.flights, r)
		default:
		}
	}
	if d.gcDone != nil {
		select {
		case <-d.gcDone:
			d.gcDone = nil
		default:
		}
	}
}

func (d *dDriver) crashed() bool {
	select {
	case <-d.s.x.crashCh:
		return true
	default:
		return false
	}
}

func (d *dDriver) obs() {
	d.reap()
	if !d.quiescent() || d.crashed() {
		return
	}
	t0 := time.Now()
	defer func() { d.obsTime += time.Since(t0) }()
	dSettlePool()
	s := d.lock()
	s.x.emit(vt.M{"ev": "obs", "disk": s.diskCopy(), "mem": s.mem(), "own": s.own(), "cloud": s.cloud.snapshot()})
	s.x.mu.Unlock()
}

// waitOne waits for a flight to finish; a crash of the incarnation ends the wait as well.
func (d *dDriver) waitOne(f *dFlight, max time.Duration) bool {
	select {
	case <-f.done:
		d.release(f)
		delete(d.flights, f.r)
		return true
	case <-d.s.x.crashCh:
		return false
	case <-time.After(max):
		return false
	}
}

func (d *dDriver) call(k string, p, c int, gate string, cancelAt, us int) {
	s := d.lock()
	s.x.mu.Unlock()
	for drained := false; !drained; {
		select {
		case <-s.k8s.atGate:
		case <-s.store.atGate:
		default:
			drained = true
		}
	}
	d.nextR++
	r := d.nextR
	f := &dFlight{r: r, p: p, k: k, done: make(chan struct{})}
	base := context.WithValue(context.Background(), dRpcKey{}, r)
	var ctx context.Context
	w := d.w
	// every CNI request has a deadline (the plugin's gRPC timeout); here 2.5 s
	if cancelAt > 0 {
		tc := &dTouchCtx{Context: base, k: cancelAt, done: make(chan struct{}), on: func() { w.Emit(vt.M{"ev": "cancel", "r": r}) }}
		ctx = tc
		tm := time.AfterFunc(2500*time.Millisecond, tc.expire)
		f.cancel = func() { tm.Stop(); tc.expire() }
	} else {
		ctx, f.cancel = context.WithTimeout(base, 2500*time.Millisecond)
	}
	if s != d.lock() {
		d.s.x.mu.Unlock()
		return // killed in between; the step is dropped
	}
	s.x.emit(vt.M{"ev": "rpc_call", "r": r, "k": k, "p": p, "c": c})
	switch gate {
	case "getpod":
		f.gate = make(chan struct{})
		s.k8s.gates[r] = f.gate
	case "put":
		if k == "add" {
			f.gate = make(chan struct{})
			s.store.gatePut[p] = f.gate
		}
	case "del":
		if k == "del" {
			f.gate = make(chan struct{})
			s.store.gateDel[p] = f.gate
		}
	}
	s.x.mu.Unlock()
	d.flights[r] = f
	x := s.x
	svc := s.svc
	cancelCtx := f.cancel
	go func() {
		ok, code, e, a, a6 := dDoRPC(svc, ctx, k, p, c)
		x.mu.Lock()
		x.emit(vt.M{"ev": "rpc_ret", "r": r, "k": k, "p": p, "ok": ok, "code": code, "e": e, "a": a, "a6": a6})
		x.mu.Unlock()
		cancelCtx()
		close(f.done)
	}()
	if us > 0 {
		time.Sleep(time.Duration(us) * time.Microsecond)
		w.Emit(vt.M{"ev": "cancel", "r": r})
		f.cancel()
	}
	if f.gate == nil {
		max := 30 * time.Second
		if len(d.flights) > 1 || d.gcDone != nil {
			max = 30 * time.Millisecond // it may be blocked behind a waiting GC (RWMutex): leave it in flight
		}
		if !d.waitOne(f, max) && !d.crashed() && max > time.Second {
			d.t.Fatalf("request %d (%s pod %d) did not return", r, k, p)
		}
		return
	}
	// wait until the request sits at its gate, returned (rejected), or is blocked elsewhere
	tm := time.After(30 * time.Millisecond)
	for {
		select {
		case <-f.done:
			d.release(f)
			delete(d.flights, r)
			return
		case <-s.k8s.atGate:
			return
		case <-s.store.atGate:
			return
		case <-s.x.crashCh:
			return
		case <-tm:
			return
		}
	}
}

func (d *dDriver) open(p int) {
	var fs []*dFlight
	for _, f := range d.flights {
		if (p == 0 || f.p == p) && f.gate != nil {
			fs = append(fs, f)
		}
	}
	sort.Slice(fs, func(i, j int) bool { return fs[i].r < fs[j].r })
	for _, f := range fs {
		d.release(f)
	}
	for _, f := range fs {
		d.waitOne(f, 300*time.Millisecond)
	}
}

func (d *dDriver) release(f *dFlight) {
	if f.gate != nil {
		s := d.s
		s.x.mu.Lock()
		// a gate that was never reached must not catch a later request of the same pod
		if s.k8s.gates[f.r] == f.gate {
			delete(s.k8s.gates, f.r)
		}
		if s.store.gatePut[f.p] == f.gate {
			delete(s.store.gatePut, f.p)
		}
		if s.store.gateDel[f.p] == f.gate {
			delete(s.store.gateDel, f.p)
		}
		s.x.mu.Unlock()
		close(f.gate)
		f.gate = nil
		if f.k == "gcgate" {
			close(f.done) // not a request: nothing to wait for
		}
	}
}

func (d *dDriver) joinAll() {
	for _, f := range d.flights {
		d.release(f)
	}
	deadline := time.After(30 * time.Second)
	for r, f := range d.flights {
		select {
		case <-f.done:
			delete(d.flights, r)
		case <-d.s.x.crashCh:
			return
		case <-deadline:
			d.t.Fatalf("request %d (%s pod %d) did not return\n%s", f.r, f.k, f.p, dStacks())
		}
	}
	if d.gcDone != nil {
		select {
		case <-d.gcDone:
			d.gcDone = nil
		case <-d.s.x.crashCh:
			return
		case <-deadline:
			d.t.Fatalf("gc did not return")
		}
	}
}

// withNoFreeFD runs f while the process cannot open a new file descriptor: every netlink call of f fails with
// "too many open files", the way it does for a moment on a node whose daemon ran into its fd limit. Everything the
// harness itself needs (trace file, bolt file) is open already.
func dWithNoFreeFD(t *testing.T, f func()) {
	var old syscall.Rlimit
	if err := syscall.Getrlimit(syscall.RLIMIT_NOFILE, &old); err != nil {
		t.Fatalf("getrlimit: %v", err)
	}
	low := old
	low.Cur = 0
	if err := syscall.Setrlimit(syscall.RLIMIT_NOFILE, &low); err != nil {
		t.Fatalf("setrlimit: %v", err)
	}
	defer func() {
		if err := syscall.Setrlimit(syscall.RLIMIT_NOFILE, &old); err != nil {
			t.Fatalf("restore rlimit: %v", err)
		}
	}()
	f()
}

// gcFaulty: one GC pass during which the kernel rule cleanup cannot proceed (transient fault); the pass is logged
// as disturbed, so the specification does not count it towards "within two passes".
func (d *dDriver) gcFaulty() {
	d.joinAll()
	if d.crashed() || !d.quiescent() {
		return
	}
	s := d.lock()
	d.nextG++
	g := d.nextG
	s.x.emit(vt.M{"ev": "gc_call", "g": g})
	s.x.emit(vt.M{"ev": "env_disturb", "what": "netlink unusable during this pass"})
	s.x.mu.Unlock()
	var err error
	dWithNoFreeFD(d.t, func() { err = s.svc.gcPods(context.Background()) })
	s.x.mu.Lock()
	s.x.emit(vt.M{"ev": "gc_ret", "g": g, "err": err != nil})
	s.x.mu.Unlock()
}

// dLoopParked: is the goroutine of startGarbageCollectionLoop waiting for its next period (parked in the select of
// k8s.io/apimachinery/pkg/util/wait)? Exact, no timing involved.
func dLoopParked() bool {
	for _, g := range strings.Split(dStacks(), "\n\n") {
		if strings.Contains(g, "startGarbageCollectionLoop") && strings.Contains(g, "[select") && strings.Contains(g, "apimachinery/pkg/util/wait.") {
			return true
		}
	}
	return false
}

// gcLoop runs the REAL periodic loop (startGarbageCollectionLoop): its first pass starts at once. The pass is logged like
// a directly called one; afterwards the loop itself is observed: it has returned, or it waits for the next period.
// fault: netlink is unusable during the pass (see dWithNoFreeFD).
func (d *dDriver) gcLoop(fault bool) {
	d.joinAll()
	if d.crashed() || !d.quiescent() {
		return
	}
	s := d.lock()
	d.nextG++
	g := d.nextG
	s.x.emit(vt.M{"ev": "gc_call", "g": g})
	if fault {
		s.x.emit(vt.M{"ev": "env_disturb", "what": "netlink unusable during this pass"})
	}
	for drained := false; !drained; {
		select {
		case <-s.k8s.listed:
		default:
			drained = true
		}
	}
	s.x.mu.Unlock()
	ctx, cancel := context.WithCancel(context.Background())
	returned := make(chan struct{})
	pass := func() {
		go func() {
			s.svc.startGarbageCollectionLoop(ctx)
			close(returned)
		}()
		select {
		case <-s.k8s.listed: // the pass holds the service lock
		case <-returned:
		case <-time.After(30 * time.Second):
			d.t.Fatalf("the GC loop did not start a pass")
		}
		s.svc.Lock() // granted when the pass is over
		s.svc.Unlock()
	}
	if fault {
		dWithNoFreeFD(d.t, pass)
	} else {
		pass()
	}
	s.x.mu.Lock()
	s.x.emit(vt.M{"ev": "gc_ret", "g": g, "err": false})
	s.x.mu.Unlock()
	alive, decided := false, false
	for i := 0; i < 100000 && !decided; i++ {
		select {
		case <-returned:
			decided = true
		default:
			if dLoopParked() {
				alive, decided = true, true
			} else {
				time.Sleep(200 * time.Microsecond)
			}
		}
	}
	if !decided {
		d.t.Fatalf("the GC loop neither returned nor waits for its next period")
	}
	s.x.mu.Lock()
	s.x.emit(vt.M{"ev": "gcloop", "alive": alive})
	s.x.mu.Unlock()
	cancel()
	select {
	case <-returned:
	case <-time.After(30 * time.Second):
		d.t.Fatalf("the GC loop did not stop")
	}
}

func (d *dDriver) gc() {
	d.reap()
	if d.gcDone != nil {
		return
	}
	s := d.lock()
	d.nextG++
	g := d.nextG
	done := make(chan struct{})
	d.gcDone = done
	x := s.x
	svc := s.svc
	x.emit(vt.M{"ev": "gc_call", "g": g})
	x.mu.Unlock()
	go func() {
		err := svc.gcPods(context.Background())
		x.mu.Lock()
		x.emit(vt.M{"ev": "gc_ret", "g": g, "err": err != nil})
		x.mu.Unlock()
		close(done)
	}()
	// synchronous unless it has to wait for a request that sits at a gate
	select {
	case <-done:
		d.gcDone = nil
	case <-x.crashCh:
	case <-time.After(func() time.Duration {
		if len(d.flights) > 0 {
			return 20 * time.Millisecond
		}
		return 30 * time.Second
	}()):
		if len(d.flights) == 0 {
			d.t.Fatalf("gc did not return")
		}
	}
}

// restart: the daemon process is gone (killed now, or already killed at an armed crash point); a new
// incarnation starts from the bolt file as it is on disk and from the cloud as it is.
func (d *dDriver) restart() {
	old := d.s
	old.x.mu.Lock()
	if !old.x.dead { // else: killed at an armed crash point already (possibly just now, in a request still in flight)
		old.x.dead = true
		old.x.w.Emit(vt.M{"ev": "crash", "point": "idle"})
		close(old.x.crashCh)
	}
	old.x.mu.Unlock()
	for _, f := range d.flights {
		if f.cancel != nil {
			f.cancel()
		}
	}
	d.flights = map[int]*dFlight{}
	d.gcDone = nil
	d.arm.n = 0
	// no write of the old incarnation can be in progress: writers hold the world lock, a frozen one released it
	old.x.mu.Lock()
	np := old.dbPath
	if old.conf.realdb {
		// the killed process lost its file lock; the new one opens the very same file at the product's path
		_ = storage.VerifDaemonClose(old.store.real)
	} else {
		np = dNextFile(d.root, "res")
		if err := dCopyFile(old.dbPath, np); err != nil {
			d.t.Fatalf("copy db: %v", err)
		}
	}
	old.x.mu.Unlock()
	nx := &dWorld{w: d.w, crashCh: make(chan struct{})}
	ns, err := dStart(d.t, old.conf, nx, old.cloud.clone(nx), old.k8s.clone(nx), d.root, np)
	if err != nil {
		d.t.Fatalf("restart: %v", err)
	}
	old.stop()
	d.s = ns
	d.bind(ns)
	nx.enter()
	nx.emit(vt.M{"ev": "restart", "disk": ns.diskCopy(), "mem": ns.mem(), "own": ns.own(), "cloud": ns.cloud.snapshot()})
	nx.mu.Unlock()
}

func (d *dDriver) step(st vt.M) {
	if d.crashed() {
		d.restart()
	}
	s := d.s
	switch vt.Str(st["a"]) {
	case "pod":
		p := vt.Int(st["p"])
		s = d.lock()
		np := &dPod{api: vt.Bool(st["api"]), loc: vt.Str(st["loc"]), sticky: vt.Bool(st["sticky"]), cached: vt.Bool(st["cached"])}
		if s.k8s.real != nil {
			// real client: the node-local list is what the API server's watch cache shows (lag: it has not seen the pod yet)
			lag := vt.Bool(st["lag"])
			np.loc, np.sticky, np.cached = "none", false, false
			if np.api && !lag {
				np.loc = "run"
			}
			s.k8s.api.mu.Lock()
			s.k8s.api.pods[p] = dAPIPod{api: np.api, lag: lag}
			s.k8s.api.mu.Unlock()
		}
		s.k8s.pods[p] = np
		s.x.emit(vt.M{"ev": "env_pod", "p": p, "api": np.api, "loc": np.loc, "sticky": np.sticky, "cached": np.cached})
		s.x.mu.Unlock()
	case "call":
		d.reap()
		if len(d.flights) >= 6 {
			return
		}
		d.call(vt.Str(st["k"]), vt.Int(st["p"]), vt.Int(st["c"]), vt.Str(st["gate"]), vt.Int(st["cancel"]), vt.Int(st["us"]))
	case "open":
		d.open(vt.Int(st["p"]))
	case "cancel":
		// the caller gives up: cancel the pod's requests in flight, then let them run on
		p := vt.Int(st["p"])
		for _, f := range d.flights {
			if f.p == p && f.cancel != nil {
				d.w.Emit(vt.M{"ev": "cancel", "r": f.r})
				f.cancel()
			}
		}
		d.open(p)
	case "kill":
		d.restart()
	case "gc":
		if vt.Bool(st["fault"]) {
			d.gcFaulty()
		} else {
			d.gc()
		}
	case "gcloop":
		d.gcLoop(vt.Bool(st["fault"]))
	case "gategc":
		// the next Delete of pod p's record (the GC pass deletes it after it handed the address back) waits at a gate
		p := vt.Int(st["p"])
		s = d.lock()
		g := make(chan struct{})
		s.store.gateDel[p] = g
		s.x.mu.Unlock()
		d.nextR++
		d.flights[100000+d.nextR] = &dFlight{r: 100000 + d.nextR, p: p, k: "gcgate", gate: g, done: make(chan struct{})}
	case "dbfault":
		s = d.lock()
		if vt.Str(st["op"]) == "del" {
			s.store.failDel = 1
		} else {
			s.store.failPut = 1
		}
		s.x.mu.Unlock()
	case "join":
		d.joinAll()
	case "detach":
		e := vt.Int(st["e"])
		s = d.lock()
		s.cloud.cmu.Lock()
		_, had := s.cloud.enis[e]
		delete(s.cloud.enis, e)
		s.cloud.cmu.Unlock()
		if had {
			s.x.emit(vt.M{"ev": "env_detach", "e": e})
		}
		s.x.mu.Unlock()
	case "apierr":
		s = d.lock()
		s.k8s.apiErr = vt.Bool(st["on"])
		s.x.emit(vt.M{"ev": "env_apierr", "on": s.k8s.apiErr})
		s.x.mu.Unlock()
	case "listerr":
		s = d.lock()
		s.k8s.listErr = vt.Bool(st["on"])
		s.x.mu.Unlock()
	case "plan":
		s.cloud.cmu.Lock()
		for _, o := range vt.List(st["outcomes"]) {
			s.cloud.plan = append(s.cloud.plan, vt.Str(o))
		}
		s.cloud.cmu.Unlock()
	case "crashat":
		s = d.lock()
		d.arm.point, d.arm.n = vt.Str(st["point"]), vt.Int(st["n"])
		if d.arm.n <= 0 {
			d.arm.n = 1
		}
		s.x.mu.Unlock()
	case "restart":
		d.joinAll()
		d.restart()
	case "wait":
		time.Sleep(time.Duration(vt.Int(st["ms"])) * time.Millisecond)
	case "obs":
	}
	if d.crashed() {
		d.restart()
	}
	d.obs()
}

func (d *dDriver) finish() {
	if d.crashed() {
		d.restart()
	}
	d.s.x.mu.Lock()
	d.arm.n = 0
	d.s.x.mu.Unlock()
	d.joinAll()
	if d.crashed() {
		d.restart()
	}
	d.obs()
	// the scenario is over: nothing of this incarnation may be recorded (or probe the removed scratch files) any more;
	// a write a changed daemon left running in the background stays where it is
	d.s.x.mu.Lock()
	d.s.x.dead = true
	d.s.x.mu.Unlock()
	d.s.shutdown(true)
}

// ---------------------------------------------------------------------------------------------
// scenarios

func dConfOf(m vt.M) dConf {
	c := dConf{n1: vt.Int(m["n1"]), n2: vt.Int(m["n2"]), slots: vt.Int(m["slots"]), cap: vt.Int(m["cap"]),
		policy: vt.Str(m["policy"]), fam: vt.Str(m["fam"]), probe: vt.Bool(m["probe"]), realk8s: vt.Bool(m["realk8s"]), v6: vt.Bool(m["v6"]), realdb: vt.Bool(m["realdb"])}
	if c.policy == "" {
		c.policy = "most_ips"
	}
	return c
}

func dReadScenarios(t *testing.T) [][]vt.M {
	var scens [][]vt.M
	f := os.Getenv("VERIF_SCEN")
	if f == "" {
		return nil
	}
	b, err := os.ReadFile(f)
	if err != nil {
		t.Fatal(err)
	}
	for _, line := range strings.Split(string(b), "\n") {
		if strings.TrimSpace(line) == "" {
			continue
		}
		wrapped, err := vt.ReadNDJSONString(`{"s":` + line + `}`)
		if err != nil {
			t.Fatal(err)
		}
		var sc []vt.M
		for _, st := range vt.List(wrapped[0]["s"]) {
			sc = append(sc, vt.Map(st))
		}
		scens = append(scens, sc)
	}
	return scens
}

func dPodStep(p int, api bool, loc string, sticky, cached bool) vt.M {
	return vt.M{"a": "pod", "p": p, "api": api, "loc": loc, "sticky": sticky, "cached": cached}
}
func dCall(k string, p, c int, gate string) vt.M {
	return vt.M{"a": "call", "k": k, "p": p, "c": c, "gate": gate}
}

// random scenarios per property family (seeded); they complement the scenarios generated by TLC from
// Daemon_mc.tla and use the same step alphabet.
func dRandomScenarios(fam string, n int) [][]vt.M {
	var out [][]vt.M
	rng := vt.Rand(int64(len(fam))*1000 + int64(fam[2]))
	confs := []vt.M{
		{"n1": 3, "n2": 0, "slots": 1, "cap": 3, "policy": "most_ips"},
		{"n1": 2, "n2": 2, "slots": 2, "cap": 2, "policy": "most_ips"},
		{"n1": 3, "n2": 2, "slots": 2, "cap": 3, "policy": "least_ips"},
		{"n1": 4, "n2": 0, "slots": 1, "cap": 4, "policy": "most_ips"},
	}
	gates := []string{"none", "none", "none", "getpod", "put", "del"}
	for i := 0; i < n; i++ {
		cf := vt.M{}
		for k, v := range confs[rng.Intn(len(confs))] {
			cf[k] = v
		}
		cf["fam"] = fam
		cf["probe"] = fam == "c05"
		cf["v6"] = (fam == "c05" && i%3 == 1) || (fam == "c04" && i%5 == 4)
		cf["realdb"] = fam == "c05" && i%4 == 3
		sc := []vt.M{{"a": "conf", "conf": cf}}
		np := 3
		for p := 1; p <= np; p++ {
			sc = append(sc, dPodStep(p, true, "run", fam == "c09" && rng.Intn(4) == 0, false))
		}
		switch fam {
		case "c04":
			switch i % 6 {
			case 4:
				// selection policy least_ips and spare empty interface slots: the manager asks an empty slot before the
				// interface that holds the pod's address; the repeated (pinned) ADD must come back with the same address
				sc[0]["conf"] = vt.M{"n1": 2, "n2": 0, "slots": 3, "cap": 2, "policy": "least_ips", "fam": fam, "probe": false}
				q := 1 + rng.Intn(3)
				sc = append(sc, dCall("add", q, 1, "none"), dCall("add", q, 2, "none"), dCall("get", q, 2, "none"), dCall("add", q, 2, "none"),
					dCall("del", q, 2, "none"), dCall("add", 1+q%3, 1, "none"), dCall("add", 1+q%3, 1, "none"), dCall("del", 1+q%3, 1, "none"))
			case 2:
				// the pool has to go to the cloud for the second and third pod; the caller gives up while it waits,
				// later the same pods ask again (the addresses the cloud delivered meanwhile are idle)
				sc[0]["conf"] = vt.M{"n1": 1, "n2": 0, "slots": 2, "cap": 2, "policy": "most_ips", "fam": fam, "probe": false}
				sc = append(sc, dCall("add", 1, 1, "none"),
					vt.M{"a": "call", "k": "add", "p": 2, "c": 1, "gate": "none", "us": 1000 * (1 + rng.Intn(250))},
					vt.M{"a": "call", "k": "add", "p": 3, "c": 1, "gate": "none", "us": 1000 * (1 + rng.Intn(400))},
					vt.M{"a": "wait", "ms": rng.Intn(400)}, dCall("add", 2, 2, "none"), dCall("add", 1, 2, "none"), dCall("del", 2, 1, "none"),
					dCall("del", 2, 2, "none"), dCall("add", 3, 1, "none"), dCall("get", 3, 1, "none"))
			case 3:
				// a repeated ADD is cancelled and the pod's DEL follows at once, while the pool may still be busy with the
				// cancelled request; another pod takes what was released
				for k := 0; k < 20; k++ {
					sc = append(sc, dCall("add", 1, 1, "none"),
						vt.M{"a": "call", "k": "add", "p": 1, "c": 2, "gate": "none", "cancel": 3 + rng.Intn(9)},
						dCall("del", 1, 1, "none"))
					if k%4 == 3 {
						sc = append(sc, dCall("add", 2, 1, "none"), dCall("del", 2, 1, "none"))
					}
				}
			case 0:
				// cancellation storm: a repeated ADD of a pod with an acknowledged ADD, cancelled at every touch of its
				// context and after a few microseconds; in between another pod asks
				sc = append(sc, dCall("add", 1, 1, "none"), dCall("add", 2, 1, "none"))
				for k := 1; k <= 18; k++ {
					c := 1 + rng.Intn(2)
					sc = append(sc, vt.M{"a": "call", "k": "add", "p": 1, "c": c, "gate": "none", "cancel": k})
					if k%3 == 0 {
						sc = append(sc, dCall("add", 3, 1, "none"), dCall("del", 3, 1, "none"))
					}
				}
				for k := 0; k < 12; k++ {
					sc = append(sc, vt.M{"a": "call", "k": "add", "p": 1 + rng.Intn(2), "c": 1 + rng.Intn(2), "gate": "none", "us": 1 + rng.Intn(120)})
				}
				sc = append(sc, dCall("add", 3, 2, "none"), dCall("get", 1, 1, "none"), dCall("get", 1, 2, "none"))
			case 1:
				// first ADDs cancelled at every touch; the address must come back
				for k := 1; k <= 16; k++ {
					p := 1 + k%3
					sc = append(sc, vt.M{"a": "call", "k": "add", "p": p, "c": 1, "gate": "none", "cancel": k})
					if k%4 == 0 {
						sc = append(sc, dCall("add", p, 2, "none"), dCall("del", p, 2, "none"))
					}
				}
			default:
				n := 14 + rng.Intn(12)
				for j := 0; j < n; j++ {
					p, c := 1+rng.Intn(3), 1+rng.Intn(3)
					switch x := rng.Intn(20); {
					case x < 7:
						sc = append(sc, dCall("add", p, c, gates[rng.Intn(len(gates))]))
					case x < 11:
						sc = append(sc, dCall("del", p, c, gates[rng.Intn(len(gates))]))
					case x < 14:
						sc = append(sc, dCall("get", p, c, gates[rng.Intn(4)]))
					case x < 17:
						sc = append(sc, vt.M{"a": "open", "p": []int{0, p}[rng.Intn(2)]})
					case x < 18:
						sc = append(sc, vt.M{"a": "call", "k": []string{"add", "add", "del", "get"}[rng.Intn(4)], "p": p, "c": c, "gate": "none", "cancel": 1 + rng.Intn(16)})
					case x < 19:
						sc = append(sc, vt.M{"a": "gc"})
					default:
						sc = append(sc, vt.M{"a": "join"})
					}
				}
			}
		case "c05":
			if i%4 == 2 {
				// a pod vanished without DEL; the GC pass that collects it sits between the pool release and the record delete
				// while another pod asks for an address on a full node; then the daemon is killed, or the pass goes on
				sc[0]["conf"] = vt.M{"n1": 3, "n2": 0, "slots": 1, "cap": 3, "policy": "most_ips", "fam": fam, "probe": true}
				sc = append(sc, dPodStep(4, true, "run", false, false))
				for p := 1; p <= 3; p++ {
					sc = append(sc, dCall("add", p, 1, "none"))
				}
				v := 1 + rng.Intn(3)
				sc = append(sc, dPodStep(v, false, "none", false, false), vt.M{"a": "gategc", "p": v}, vt.M{"a": "gc"}, dCall("add", 4, 1, "none"))
				if rng.Intn(2) == 0 {
					sc = append(sc, vt.M{"a": "kill"})
				} else {
					sc = append(sc, vt.M{"a": "open", "p": 0}, vt.M{"a": "join"})
					if rng.Intn(2) == 0 {
						sc = append(sc, vt.M{"a": "restart"})
					}
				}
				sc = append(sc, vt.M{"a": "gc"}, vt.M{"a": "gc"}, dCall("add", 4, 2, "none"), dCall("add", 1+v%3, 2, "none"), vt.M{"a": "restart"},
					dCall("add", 4, 3, "none"))
				out = append(out, sc)
				continue
			}
			n := 8 + rng.Intn(8)
			if i%5 == 4 {
				// the pool has to go to the cloud (assign on an attached interface, create a new one)
				sc[0]["conf"] = vt.M{"n1": 1, "n2": 0, "slots": 2, "cap": 2, "policy": "most_ips", "fam": fam, "probe": true, "v6": cf["v6"]}
				n = 5
			}
			for j := 0; j < n; j++ {
				p, c := 1+rng.Intn(3), 1+rng.Intn(2)
				switch x := rng.Intn(20); {
				case x < 7:
					sc = append(sc, dCall("add", p, c, "none"))
				case x < 10:
					sc = append(sc, dCall("del", p, c, "none"))
				case x < 11:
					sc = append(sc, dCall("get", p, c, "none"))
				case x < 13:
					sc = append(sc, vt.M{"a": "restart"})
				case x < 16:
					pts := []string{"getpod", "put_begin", "put_end", "del_begin", "del_end"}
					k := []string{"add", "add", "del"}[rng.Intn(3)]
					sc = append(sc, vt.M{"a": "crashat", "point": pts[rng.Intn(len(pts))], "n": 1}, dCall(k, p, c, "none"))
				case x < 17 && j%2 == 0:
					sc = append(sc, vt.M{"a": "detach", "e": 2}, vt.M{"a": "restart"})
				case x < 18:
					// the bolt write of one request fails; the runtime retries or the daemon is restarted
					if rng.Intn(3) > 0 {
						sc = append(sc, vt.M{"a": "dbfault", "op": "put"}, dCall("add", p, c, "none"))
					} else {
						sc = append(sc, dCall("add", p, c, "none"), vt.M{"a": "dbfault", "op": "del"}, dCall("del", p, c, "none"))
					}
					switch rng.Intn(3) {
					case 0:
						sc = append(sc, vt.M{"a": "restart"}, dCall("add", 1+p%3, c, "none"))
					case 1:
						sc = append(sc, dCall("add", p, c, "none"))
					}
				case x < 19 && j%2 == 0:
					sc = append(sc, dCall("add", p, c, "put"), dCall("add", 1+p%3, c, "none"), vt.M{"a": "open", "p": 0})
				default:
					// a DEL sits between the pool release and the record delete while another pod asks; then the daemon is killed
					q := 1 + p%3
					sc = append(sc, dCall("add", p, c, "none"), dCall("del", p, c, "del"), dCall("add", q, c, "none"))
					if rng.Intn(2) == 0 {
						sc = append(sc, vt.M{"a": "kill"})
					} else {
						sc = append(sc, vt.M{"a": "open", "p": 0})
					}
				}
			}
			// after the history: every pod asks again (same address for acknowledged pods, no address twice)
			sc = append(sc, vt.M{"a": "restart"})
			for p := 1; p <= np; p++ {
				sc = append(sc, dCall("add", p, 3, "none"))
			}
		case "c09":
			if i%4 == 3 {
				// real pkg/k8s client against an API server whose watch cache lags: a pod is created and its ADD completes
				// before the cache has seen it; GC passes run meanwhile, then the cache catches up; other pods are really gone
				cf["realk8s"] = true
				sc = []vt.M{{"a": "conf", "conf": cf}}
				rp := func(p int, api, lag bool) vt.M { return vt.M{"a": "pod", "p": p, "api": api, "lag": lag} }
				fresh := 1 + rng.Intn(3)
				for p := 1; p <= np; p++ {
					sc = append(sc, rp(p, true, p == fresh && rng.Intn(4) > 0), dCall("add", p, 1, "none"))
				}
				gone := 1 + fresh%3
				if rng.Intn(3) > 0 {
					sc = append(sc, rp(gone, false, false))
				}
				sc = append(sc, vt.M{"a": "gc"})
				if rng.Intn(2) == 0 {
					sc = append(sc, vt.M{"a": "gc"})
				}
				sc = append(sc, rp(fresh, true, false), vt.M{"a": "gc"}, vt.M{"a": "gc"},
					dCall("add", gone, 2, "none"), dCall("get", fresh, 1, "none"), vt.M{"a": "gc"})
				out = append(out, sc)
				continue
			}
			// records for some pods, then pods vanish / exit / stay, then three GC passes; variants interleave requests
			for p := 1; p <= np; p++ {
				if rng.Intn(5) > 0 {
					sc = append(sc, dCall("add", p, 1, "none"))
				}
			}
			if rng.Intn(3) == 0 {
				sc = append(sc, vt.M{"a": "detach", "e": 1 + rng.Intn(2)}, vt.M{"a": "restart"})
			}
			for p := 1; p <= np; p++ {
				sticky := vt.Bool(sc[p]["sticky"])
				switch rng.Intn(6) {
				case 0: // stays
				case 1: // deleted everywhere
					sc = append(sc, dPodStep(p, false, "none", sticky, rng.Intn(2) == 0))
				case 2: // sandbox exited, pod object still there
					sc = append(sc, dPodStep(p, true, "exited", sticky, false))
				case 3: // sandbox exited and pod object gone
					sc = append(sc, dPodStep(p, false, "exited", sticky, false))
				case 4: // not in the local list (stale list) but the API has it
					sc = append(sc, dPodStep(p, true, "none", sticky, false))
				case 5:
					sc = append(sc, dPodStep(p, false, "none", sticky, false))
				}
			}
			if rng.Intn(4) == 0 {
				sc = append(sc, vt.M{"a": "apierr", "on": true}, vt.M{"a": "gc"}, vt.M{"a": "apierr", "on": false})
			}
			switch i % 3 {
			case 0:
				if i%4 == 0 {
					// the first pass runs into a transient fault of the rule cleanup; afterwards the node is healthy
					sc = append(sc, vt.M{"a": "gc", "fault": true})
				} else if i%4 == 2 {
					// the same through the real periodic loop: after the failed pass the loop must still be there
					sc = append(sc, vt.M{"a": "gcloop", "fault": true})
				}
				sc = append(sc, vt.M{"a": "gc"}, vt.M{"a": "gc"}, vt.M{"a": "gc"})
			case 1:
				// GC while a request sits inside its handler
				p := 1 + rng.Intn(3)
				k := []string{"add", "del", "get"}[rng.Intn(3)]
				sc = append(sc, dCall(k, p, 1, []string{"getpod", "put", "del"}[rng.Intn(3)]), vt.M{"a": "gc"},
					dCall("add", 1+p%3, 2, "none"), vt.M{"a": "open", "p": 0}, vt.M{"a": "join"}, vt.M{"a": "gc"}, vt.M{"a": "gc"})
			default:
				sc = append(sc, vt.M{"a": "gc"}, dCall("add", 1+rng.Intn(3), 2, "none"), dCall("del", 1+rng.Intn(3), 1, "none"),
					vt.M{"a": "gc"}, vt.M{"a": "gc"}, vt.M{"a": "gc"})
			}
		}
		out = append(out, sc)
	}
	return out
}

// dNetns prepares the private network namespace the harness must run in (unshare -n): the only link is lo,
// a *netlink.Device; it gets the MAC of interface 1 so that records on interface 1 resolve to a device and
// records on any other interface exercise the "interface is gone" branch of the rule cleanup.
func dNetns(t *testing.T) {
	if os.Getenv("VERIF_NETNS") != "1" {
		t.Fatalf("the daemon harness must run inside a private network namespace (VERIF_NETNS=1 under unshare -n)")
	}
	links, err := netlink.LinkList()
	if err != nil {
		t.Fatal(err)
	}
	if len(links) != 1 || links[0].Attrs().Name != "lo" {
		t.Fatalf("not a private network namespace: %d links", len(links))
	}
	mac, _ := net.ParseMAC(dEniMAC(1))
	if err := netlink.LinkSetHardwareAddr(links[0], mac); err != nil {
		t.Fatalf("set lo address: %v", err)
	}
	if err := netlink.LinkSetUp(links[0]); err != nil {
		t.Fatalf("set lo up: %v", err)
	}
}

// dMountNS: the harness runs in a private mount namespace with an empty tmpfs over /var/lib, so that the product's
// constant database path (/var/lib/cni/terway/ResRelation.db) can be used without touching the host. The test binary
// re-executes itself under unshare -m once.
func dMountNS(t *testing.T) bool {
	if os.Getenv("VERIF_MNTNS") != "1" {
		cmd := exec.Command("unshare", append([]string{"-m", "--", os.Args[0]}, os.Args[1:]...)...)
		cmd.Env = append(os.Environ(), "VERIF_MNTNS=1")
		cmd.Stdout, cmd.Stderr = os.Stdout, os.Stderr
		if err := cmd.Run(); err != nil {
			t.Fatalf("harness in a private mount namespace: %v", err)
		}
		return false
	}
	if err := syscall.Mount("tmpfs", "/var/lib", "tmpfs", 0, ""); err != nil {
		t.Fatalf("tmpfs over /var/lib: %v", err)
	}
	return true
}

func TestVerifDaemon(t *testing.T) {
	if !dMountNS(t) {
		return
	}
	dNetns(t)
	logf.SetLogger(logr.Discard())
	w, err := vt.NewWriter(vt.Env("VERIF_TRACE", ""))
	if err != nil {
		t.Fatal(err)
	}
	defer w.Close()
	fam := vt.Env("VERIF_FAMILY", "c04")
	scens := dReadScenarios(t)
	scens = append(scens, dRandomScenarios(fam, vt.EnvInt("VERIF_RANDOM", 8))...)
	shard, nshard := 0, 1
	fmt.Sscanf(vt.Env("VERIF_SHARD", "0/1"), "%d/%d", &shard, &nshard)
	root := t.TempDir()
	for si, sc := range scens {
		if si%nshard != shard || len(sc) == 0 || vt.Str(sc[0]["a"]) != "conf" {
			continue
		}
		conf := dConfOf(vt.Map(sc[0]["conf"]))
		if conf.fam == "" {
			conf.fam = fam
		}
		dir := filepath.Join(root, fmt.Sprintf("s%d", si))
		if err := os.MkdirAll(dir, 0o700); err != nil {
			t.Fatal(err)
		}
		x := &dWorld{w: w, crashCh: make(chan struct{})}
		cloud := &dCloud{x: x, enis: map[int]*dEni{}}
		next := 1
		for i, n := range []int{conf.n1, conf.n2} {
			if n <= 0 {
				continue
			}
			fe := &dEni{v4: map[int]bool{}, v6: map[int]bool{}, primary: next}
			for j := 0; j < n; j++ {
				fe.v4[next] = true
				if conf.v6 {
					fe.v6[100+next] = true
				}
				next++
			}
			cloud.enis[i+1] = fe
			cloud.nextEni = i + 1
		}
		kk := &dK8s{x: x, pods: map[int]*dPod{}, gates: map[int]chan struct{}{}, atGate: make(chan int, 256), listed: make(chan struct{}, 16)}
		if conf.realk8s {
			kk.real, kk.api = dNewRealK8s(t)
		}
		w.Emit(vt.M{"ev": "reset", "scen": si, "fam": conf.fam, "cloud": cloud.snapshot(),
			"conf": vt.M{"n1": conf.n1, "n2": conf.n2, "slots": conf.slots, "cap": conf.cap, "policy": conf.policy, "probe": conf.probe, "realk8s": conf.realk8s, "v6": conf.v6, "realdb": conf.realdb}})
		dbPath := filepath.Join(dir, "ResRelation.db")
		if conf.realdb {
			dbPath = dRealDBPath()
			_ = os.Remove(dbPath)
		}
		s, err := dStart(t, conf, x, cloud, kk, dir, dbPath)
		if err != nil {
			t.Fatalf("start: %v", err)
		}
		d := &dDriver{t: t, w: w, s: s, flights: map[int]*dFlight{}, root: dir}
		d.bind(s)
		t0 := time.Now()
		for _, st := range sc[1:] {
			d.step(st)
		}
		d.finish()
		if kk.api != nil {
			kk.api.srv.Close()
		}
		_ = os.RemoveAll(dir)
		t.Logf("scenario %d: %d steps, %d probes (%v), obs %v, total %v", si, len(sc)-1, d.probes, d.probeTime.Round(time.Millisecond), d.obsTime.Round(time.Millisecond), time.Since(t0).Round(time.Millisecond))
	}
}

// ---------------------------------------------------------------------------------------------
// C05, kill sampling: a child process streams Put/Delete through the REAL disk storage on a bolt file and
// reports every operation before it starts ("B") and after it returned ("E"); the parent SIGKILLs it at a
// seeded random instant, reopens the file through the real storage and logs what is there.  The trace uses
// the alphabet of Daemon.tla (put_begin/put_end/del_begin/del_end, crash, restart), so the specification's
// Restart rule judges it: every acknowledged write present, the write in flight present or absent, atomically.

func TestVerifKillChild(t *testing.T) {
	path := os.Getenv("VERIF_KILL_DB")
	if path == "" {
		t.Skip("child entry")
	}
	st, err := dOpenDB(path)
	if err != nil {
		fmt.Println("X open", err)
		os.Exit(3)
	}
	rng := vt.Rand(int64(vt.EnvInt("VERIF_KILL_ROUND", 0)))
	out := os.Stdout
	for i := 0; ; i++ {
		p := 1 + rng.Intn(4)
		key := dNS + "/" + dPodName(p)
		if rng.Intn(3) > 0 {
			c, e, a := 1+rng.Intn(3), 1+rng.Intn(2), 10*p+rng.Intn(6) // no address in two records
			cid := dCid(c)
			rec := daemon.PodResources{PodInfo: &daemon.PodInfo{Name: dPodName(p), Namespace: dNS}, ContainerID: &cid,
				Resources: []daemon.ResourceItem{{Type: daemon.ResourceTypeENIIP, ENIID: dEniID(e), ENIMAC: dEniMAC(e), IPv4: dV4(a).String()}},
				NetConf:   strings.Repeat("x", rng.Intn(3000))}
			fmt.Fprintf(out, "B put %d %d %d %d\n", p, c, e, a)
			if err := st.Put(key, rec); err != nil {
				fmt.Fprintf(out, "X %v\n", err)
				os.Exit(3)
			}
			fmt.Fprintf(out, "E put %d\n", p)
		} else {
			fmt.Fprintf(out, "B del %d\n", p)
			if err := st.Delete(key); err != nil {
				fmt.Fprintf(out, "X %v\n", err)
				os.Exit(3)
			}
			fmt.Fprintf(out, "E del %d\n", p)
		}
	}
}

func TestVerifKill(t *testing.T) {
	w, err := vt.NewWriter(vt.Env("VERIF_TRACE", ""))
	if err != nil {
		t.Fatal(err)
	}
	defer w.Close()
	rounds := vt.EnvInt("VERIF_KILLS", 20)
	rng := vt.Rand(55)
	dir := t.TempDir()
	for k := 0; k < rounds; k++ {
		path := filepath.Join(dir, fmt.Sprintf("kill-%d.db", k))
		cmd := exec.Command(os.Args[0], "-test.run", "^TestVerifKillChild$", "-test.count=1")
		cmd.Env = append(os.Environ(), "VERIF_KILL_DB="+path, fmt.Sprintf("VERIF_KILL_ROUND=%d", k))
		pipe, err := cmd.StdoutPipe()
		if err != nil {
			t.Fatal(err)
		}
		if err := cmd.Start(); err != nil {
			t.Fatal(err)
		}
		lines := make(chan string, 1<<16)
		started := make(chan struct{})
		go func() {
			sc := bufio.NewScanner(pipe)
			sc.Buffer(make([]byte, 1<<16), 1<<20)
			first := true
			for sc.Scan() {
				l := sc.Text()
				if first && strings.HasPrefix(l, "B ") {
					first = false
					close(started)
				}
				lines <- l
			}
			if first {
				close(started)
			}
			close(lines)
		}()
		select {
		case <-started: // the child is streaming
		case <-time.After(20 * time.Second):
			t.Fatalf("kill child did not start")
		}
		time.Sleep(time.Duration(rng.Intn(40))*time.Millisecond + time.Duration(rng.Intn(1000))*time.Microsecond)
		_ = cmd.Process.Signal(syscall.SIGKILL)
		_ = cmd.Wait()
		w.Emit(vt.M{"ev": "reset", "scen": k, "fam": "kill", "cloud": []vt.M{{"e": 1, "as": []int{1, 2, 3, 4, 5, 6}}, {"e": 2, "as": []int{}}},
			"conf": vt.M{"n1": 6, "n2": 0, "slots": 2, "cap": 6, "policy": "", "probe": false}})
		nops := 0
		for l := range lines {
			f := strings.Fields(l)
			if len(f) < 3 {
				if len(f) > 0 && f[0] == "X" {
					t.Fatalf("child failed: %s", l)
				}
				continue
			}
			var p, c, e, a int
			switch f[0] + f[1] {
			case "Bput":
				fmt.Sscanf(strings.Join(f[2:], " "), "%d %d %d %d", &p, &c, &e, &a)
				w.Emit(vt.M{"ev": "raw_put_begin", "p": p, "c": c, "e": e, "a": a, "a6": 0, "sticky": false})
			case "Eput":
				fmt.Sscanf(f[2], "%d", &p)
				w.Emit(vt.M{"ev": "raw_put_end", "p": p, "ok": true})
				nops++
			case "Bdel":
				fmt.Sscanf(f[2], "%d", &p)
				w.Emit(vt.M{"ev": "raw_del_begin", "p": p})
			case "Edel":
				fmt.Sscanf(f[2], "%d", &p)
				w.Emit(vt.M{"ev": "raw_del_end", "p": p, "ok": true})
				nops++
			case "Xopen":
				t.Fatalf("child failed: %s", l)
			}
		}
		w.Emit(vt.M{"ev": "crash", "point": "sigkill", "ops": nops})
		st, err := dOpenDB(path)
		if err != nil {
			// the file cannot be opened after the kill: nothing acknowledged survives
			w.Emit(vt.M{"ev": "restart", "disk": []vt.M{}, "mem": []vt.M{}, "own": []vt.M{}, "cloud": []vt.M{{"e": 1, "as": []int{1, 2, 3, 4, 5, 6}}}, "openerr": err.Error()})
			continue
		}
		l, _ := st.List()
		recs := dRecList(l)
		_ = storage.VerifDaemonClose(st)
		w.Emit(vt.M{"ev": "restart", "disk": recs, "mem": recs, "own": []vt.M{}, "cloud": []vt.M{{"e": 1, "as": []int{1, 2, 3, 4, 5, 6}}}})
		_ = os.Remove(path)
	}
}
