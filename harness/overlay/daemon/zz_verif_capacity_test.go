//go:build verif

package daemon

import (
	"context"
	"encoding/json"
	"os"
	"path/filepath"
	"testing"

	"github.com/aliyun/alibaba-cloud-sdk-go/services/ecs"
	corev1 "k8s.io/api/core/v1"
	metav1 "k8s.io/apimachinery/pkg/apis/meta/v1"

	aliclient "github.com/AliyunContainerService/terway/pkg/aliyun/client"
	"github.com/AliyunContainerService/terway/pkg/aliyun/instance"
	"github.com/AliyunContainerService/terway/pkg/k8s"
	"github.com/AliyunContainerService/terway/pkg/utils/nodecap"
	"github.com/AliyunContainerService/terway/types/daemon"
	"github.com/AliyunContainerService/terway/zzverif/vt"
)

// C19, chain "daemon": the node daemon's start-up path from the instance-type description to the
// computed pool configuration, run on the real builder methods:
//   LoadDynamicConfig (file -> Config, Populate, Validate)
//   initInstanceLimit (annotation -> GetLimitFromAnno -> getInstanceType; checkInstance)
//   getPoolConfig
// The harness only builds the inputs (config file, node annotation, metadata answers) and projects
// the outputs; no capacity arithmetic lives here.

const capTypeID = "ecs.verif.c19"

// capK8s answers the three questions the start-up path asks the API server; every other method of
// the embedded nil interface panics (recorded as a panic outcome, i.e. an unexpected dependency).
type capK8s struct {
	k8s.Kubernetes
	node *corev1.Node
}

func (k *capK8s) Node() *corev1.Node                { return k.node }
func (k *capK8s) GetNodeDynamicConfigLabel() string { return "" }

type capMeta struct{}

func (capMeta) GetRegionID() (string, error)     { return "cn-verif", nil }
func (capMeta) GetZoneID() (string, error)       { return "cn-verif-a", nil }
func (capMeta) GetVSwitchID() (string, error)    { return "vsw-1", nil }
func (capMeta) GetPrimaryMAC() (string, error)   { return "00:16:3e:00:00:01", nil }
func (capMeta) GetInstanceID() (string, error)   { return "i-verif", nil }
func (capMeta) GetInstanceType() (string, error) { return capTypeID, nil }

// capProvider stands in for the OpenAPI side of the ECS limit provider
type capProvider struct {
	real aliclient.LimitProvider
	info string
}

func (p *capProvider) GetLimit(_ interface{}, instanceType string) (*aliclient.Limits, error) {
	return p.real.GetLimitFromAnno(map[string]string{"alibabacloud.com/instance-type-info": p.info})
}
func (p *capProvider) GetLimitFromAnno(anno map[string]string) (*aliclient.Limits, error) {
	return p.real.GetLimitFromAnno(anno)
}

func capInstanceType(it vt.M) *ecs.InstanceType {
	return &ecs.InstanceType{
		InstanceTypeId:              capTypeID,
		EniQuantity:                 vt.Int(it["q"]),
		EniTotalQuantity:            vt.Int(it["tq"]),
		EniPrivateIpAddressQuantity: vt.Int(it["v4"]),
		EniIpv6AddressQuantity:      vt.Int(it["v6"]),
		EniTrunkSupported:           vt.Bool(it["trunkSup"]),
		EriQuantity:                 vt.Int(it["eri"]),
	}
}

func capDaemonConf(cfg vt.M) []byte {
	m := vt.M{
		"version":             "1",
		"max_pool_size":       vt.Int(cfg["maxPool"]),
		"min_pool_size":       vt.Int(cfg["minPool"]),
		"max_eni":             vt.Int(cfg["maxEni"]),
		"min_eni":             vt.Int(cfg["minEni"]),
		"ip_stack":            vt.Str(cfg["stack"]),
		"enable_eni_trunking": vt.Bool(cfg["trunk"]),
		"enable_erdma":        vt.Bool(cfg["erdma"]),
		"security_group":      "sg-1",
		"vswitches":           map[string][]string{"cn-verif-a": {"vsw-1"}},
	}
	if s := vt.Str(cfg["ipam"]); s != "" {
		m["ipam_type"] = s
	}
	b, err := json.Marshal(m)
	if err != nil {
		panic(err)
	}
	return b
}

func capZeroDaemonOut() vt.M {
	return vt.M{
		"rejected": false, "stage": "",
		"lim": vt.M{"adapters": 0, "total": 0, "v4": 0, "v6": 0, "member": 0, "maxMember": 0, "erdmaAdapters": 0, "erdmaRes": 0,
			"multiIPPod": 0, "exclusivePod": 0, "trunkPod": 0, "maxTrunkPod": 0},
		"flags": vt.M{"v4": false, "v6": false, "trunk": false, "erdma": false},
		"pool":  vt.M{"capacity": 0, "maxEni": 0, "maxMemberEni": 0, "erdmaCapacity": 0, "maxIPPerEni": 0, "maxPool": 0, "minPool": 0},
	}
}

func TestVerifCapacityDaemon(t *testing.T) {
	cases, err := vt.ReadNDJSON(vt.Env("VERIF_CASES", ""))
	if err != nil {
		t.Fatal(err)
	}
	w, err := vt.NewWriter(vt.Env("VERIF_RESULTS", ""))
	if err != nil {
		t.Fatal(err)
	}
	defer w.Close()

	// the operating system side of RDMA is present, so that only the instance type decides
	nodecap.SetNodeCapabilities(nodecap.NodeCapabilityERDMA, "true")
	instance.Init(capMeta{})
	dir := t.TempDir()
	confPath := filepath.Join(dir, "eni.json")

	for _, c := range cases {
		in := vt.Map(c["in"])
		if vt.Str(in["fn"]) != "daemon" {
			continue
		}
		out := capZeroDaemonOut()
		p := vt.Catch(func() {
			if err := os.WriteFile(confPath, capDaemonConf(vt.Map(in["cfg"])), 0o600); err != nil {
				panic(err)
			}
			info, err := json.Marshal(capInstanceType(vt.Map(in["it"])))
			if err != nil {
				panic(err)
			}
			node := &corev1.Node{ObjectMeta: metav1.ObjectMeta{
				Name:        "n1",
				Annotations: map[string]string{"alibabacloud.com/instance-type-info": string(info)},
			}}
			// "stale": the cached annotation describes another, much larger instance type (the instance was resized);
			// "absent": no cached annotation. In both cases the real limits must come from the OpenAPI, played here by a
			// provider whose GetLimit answers with the real type (through the real annotation parser).
			if a := vt.Str(in["anno"]); a == "stale" || a == "absent" {
				realProv := aliclient.LimitProviders["ecs"]
				aliclient.LimitProviders["ecs"] = &capProvider{real: realProv, info: string(info)}
				defer func() { aliclient.LimitProviders["ecs"] = realProv }()
				if a == "absent" {
					node.Annotations = map[string]string{}
				} else {
					big, _ := json.Marshal(&ecs.InstanceType{InstanceTypeId: "ecs.verif.big", EniQuantity: 8, EniTotalQuantity: 40,
						EniPrivateIpAddressQuantity: 30, EniIpv6AddressQuantity: 30, EniTrunkSupported: true, EriQuantity: 2})
					node.Annotations = map[string]string{"alibabacloud.com/instance-type-info": string(big)}
				}
			}

			b := NewNetworkServiceBuilder(context.Background()).
				WithConfigFilePath(confPath).
				WithDaemonMode(daemon.ModeENIMultiIP).
				InitService()
			if b.err != nil {
				panic(b.err)
			}
			b.service.k8s = &capK8s{node: node}
			b.LoadDynamicConfig()
			if b.err != nil {
				out["rejected"], out["stage"] = true, "config: "+b.err.Error()
				return
			}
			if err := b.initInstanceLimit(); err != nil {
				out["rejected"], out["stage"] = true, "limit: "+err.Error()
				return
			}
			pc, err := getPoolConfig(b.config, b.daemonMode, b.limit)
			if err != nil {
				out["rejected"], out["stage"] = true, "pool: "+err.Error()
				return
			}
			l := b.limit
			out["lim"] = vt.M{"adapters": l.Adapters, "total": l.TotalAdapters, "v4": l.IPv4PerAdapter, "v6": l.IPv6PerAdapter,
				"member": l.MemberAdapterLimit, "maxMember": l.MaxMemberAdapterLimit, "erdmaAdapters": l.ERdmaAdapters,
				"erdmaRes": l.ERDMARes(), "multiIPPod": l.MultiIPPod(), "exclusivePod": l.ExclusiveENIPod(),
				"trunkPod": l.TrunkPod(), "maxTrunkPod": l.MaximumTrunkPod()}
			out["flags"] = vt.M{"v4": b.service.enableIPv4, "v6": b.service.enableIPv6,
				"trunk": b.config.EnableENITrunking, "erdma": b.config.EnableERDMA}
			out["pool"] = vt.M{"capacity": pc.Capacity, "maxEni": pc.MaxENI, "maxMemberEni": pc.MaxMemberENI,
				"erdmaCapacity": pc.ERdmaCapacity, "maxIPPerEni": pc.MaxIPPerENI, "maxPool": pc.MaxPoolSize, "minPool": pc.MinPoolSize}
		})
		w.Write(vt.M{"id": c["id"], "out": out, "panic": p})
	}
}
