//go:build verif

package daemon

import (
	"context"

	"k8s.io/apimachinery/pkg/util/sets"

	"github.com/AliyunContainerService/terway/pkg/k8s"
	"github.com/AliyunContainerService/terway/types"
	"github.com/AliyunContainerService/terway/types/daemon"
)

// VerifIpamCleanRuntimeNode runs the real cleanRuntimeNode step of the daemon's garbage collector (CRD IPAM,
// multi-IP mode) over a caller-supplied k8s facade. localUIDs are the pod UIDs that still have a record in the
// daemon's resource database. Exists only in the /verif build overlay (C03 harness); no product logic.
func VerifIpamCleanRuntimeNode(ctx context.Context, k k8s.Kubernetes, localUIDs sets.Set[string]) error {
	n := &networkService{k8s: k, ipamType: types.IPAMTypeCRD, daemonMode: daemon.ModeENIMultiIP}
	return n.cleanRuntimeNode(ctx, localUIDs)
}
