//go:build verif

package daemon

import (
	"context"

	"k8s.io/apimachinery/pkg/util/sets"

	"github.com/AliyunContainerService/terway/pkg/eni"
	"github.com/AliyunContainerService/terway/pkg/k8s"
	"github.com/AliyunContainerService/terway/pkg/storage"
	"github.com/AliyunContainerService/terway/rpc"
	"github.com/AliyunContainerService/terway/types"
	"github.com/AliyunContainerService/terway/types/daemon"
)

// VerifIpamService wraps the real node daemon RPC service (networkService) in CRD IPAM / multi-IP mode for the
// C02/C03/C08 harness (package node of the cluster IPAM controller): the harness plays kubelet and calls the real
// CNI ADD / DEL handlers (AllocIP / ReleaseIP), which resolve the pod through k8s.Kubernetes, consult the stored
// sandbox record and only then talk to the CRD backend. Exists only in the /verif build overlay; no product logic.
type VerifIpamService struct{ n *networkService }

func VerifIpamNewService(k k8s.Kubernetes, mgr *eni.Manager, v4, v6 bool) *VerifIpamService {
	return &VerifIpamService{n: &networkService{
		daemonMode: daemon.ModeENIMultiIP,
		k8s:        k,
		resourceDB: storage.NewMemoryStorage(),
		eniMgr:     mgr,
		enableIPv4: v4,
		enableIPv6: v6,
		ipamType:   types.IPAMTypeCRD,
	}}
}

func (s *VerifIpamService) AllocIP(ctx context.Context, r *rpc.AllocIPRequest) (*rpc.AllocIPReply, error) {
	return s.n.AllocIP(ctx, r)
}

func (s *VerifIpamService) ReleaseIP(ctx context.Context, r *rpc.ReleaseIPRequest) (*rpc.ReleaseIPReply, error) {
	return s.n.ReleaseIP(ctx, r)
}

// Seed stores a sandbox record as a previous run of the daemon left it (take-over scenarios). Input construction.
func (s *VerifIpamService) Seed(pod *daemon.PodInfo, containerID string, items []daemon.ResourceItem) error {
	ns := "/proc/0/ns/net"
	return s.n.resourceDB.Put(pod.Namespace+"/"+pod.Name, daemon.PodResources{PodInfo: pod, Resources: items, NetNs: &ns, ContainerID: &containerID})
}

// LocalUIDs lists the pod UIDs of the sandbox records currently stored (observation for the trace).
func (s *VerifIpamService) LocalUIDs() []string {
	objList, err := s.n.resourceDB.List()
	if err != nil {
		return nil
	}
	var r []string
	for _, podRes := range getPodResources(objList) {
		if podRes.PodInfo != nil && podRes.PodInfo.PodUID != "" {
			r = append(r, podRes.PodInfo.PodUID)
		}
	}
	return r
}

// CleanRuntimeNode runs the real cleanRuntimeNode step of the daemon's garbage collector with the pod UIDs of the
// records currently stored, collected the way gcPods collects them before it calls that step.
func (s *VerifIpamService) CleanRuntimeNode(ctx context.Context) error {
	objList, err := s.n.resourceDB.List()
	if err != nil {
		return err
	}
	uids := sets.New[string]()
	for _, podRes := range getPodResources(objList) {
		if podRes.PodInfo != nil && podRes.PodInfo.PodUID != "" {
			uids.Insert(podRes.PodInfo.PodUID)
		}
	}
	return s.n.cleanRuntimeNode(ctx, uids)
}

// VerifIpamCleanRuntimeNode: as above over a caller-supplied k8s facade and UID set (kept for callers without a service).
func VerifIpamCleanRuntimeNode(ctx context.Context, k k8s.Kubernetes, localUIDs sets.Set[string]) error {
	n := &networkService{k8s: k, ipamType: types.IPAMTypeCRD, daemonMode: daemon.ModeENIMultiIP}
	return n.cleanRuntimeNode(ctx, localUIDs)
}
