//go:build verif

package k8s

import (
	"testing"

	corev1 "k8s.io/api/core/v1"
	metav1 "k8s.io/apimachinery/pkg/apis/meta/v1"
	"k8s.io/apimachinery/pkg/util/sets"

	"github.com/AliyunContainerService/terway/types"
	"github.com/AliyunContainerService/terway/zzverif/inputstok"
	"github.com/AliyunContainerService/terway/zzverif/vt"
)

func verifBwOut(v uint64, err error) vt.M {
	return vt.M{"err": err != nil, "v1024": inputstok.Limbs(v, 1024), "v1000": inputstok.Limbs(v, 1000)}
}

// TestVerifInputsK8s runs the daemon-side annotation parsers of C15 (specs/Inputs.tla) on every case:
// parseBandwidth, convertPod (all annotations at once) and the pod store's record decoder.
func TestVerifInputsK8s(t *testing.T) {
	inputstok.Run(t, map[string]func(in, out vt.M){
		"bandwidth": func(in, out vt.M) {
			v, err := parseBandwidth(inputstok.Join(in["val"]))
			for k, x := range verifBwOut(v, err) {
				out[k] = x
			}
		},
		"bwscale": func(in, out vt.M) {
			num := inputstok.Join(in["num"])
			res := []vt.M{}
			for _, u := range vt.List(in["units"]) {
				res = append(res, verifBwOut(parseBandwidth(num+vt.Str(u))))
			}
			out["res"] = res
		},
		"convertpod": func(in, out vt.M) {
			anno := map[string]string{}
			for _, k := range []string{podIngressBandwidth, podEgressBandwidth, types.PodENI, types.NetworkPriority,
				types.PodIPReservation, types.PodNetworks, types.PodNetworksRequest, types.PodNetworking, "cpuSet"} {
				inputstok.Set(anno, k, in["val"])
			}
			pod := &corev1.Pod{
				ObjectMeta: metav1.ObjectMeta{Name: "p", Namespace: "default", UID: "uid-1", Annotations: anno},
				Spec:       corev1.PodSpec{Containers: []corev1.Container{{Name: "c"}}},
				Status:     corev1.PodStatus{PodIP: "10.0.0.5", PodIPs: []corev1.PodIP{{IP: "10.0.0.5"}}},
			}
			if inputstok.Absent(in["val"]) {
				pod.Annotations = nil
			}
			pi := convertPod(vt.Str(in["mode"]), vt.Bool(in["erdma"]), sets.New[string]("statefulset"), pod)
			out["in1024"], out["in1000"] = inputstok.Limbs(pi.TcIngress, 1024), inputstok.Limbs(pi.TcIngress, 1000)
			out["eg1024"], out["eg1000"] = inputstok.Limbs(pi.TcEgress, 1024), inputstok.Limbs(pi.TcEgress, 1000)
			out["podeni"] = pi.PodENI
			out["prio"] = pi.NetworkPriority
			out["stick"] = pi.IPStickTime != 0
		},
		"stored": func(in, out vt.M) {
			_, err := deserialize([]byte(inputstok.Join(in["doc"])))
			out["err"] = err != nil
			out["done"] = true
		},
	})
}
