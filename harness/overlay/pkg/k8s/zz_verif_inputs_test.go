//go:build verif

package k8s

import (
	"bufio"
	"context"
	"fmt"
	"os"
	"os/exec"
	"runtime/debug"
	"strings"
	"sync"
	"testing"

	corev1 "k8s.io/api/core/v1"
	metav1 "k8s.io/apimachinery/pkg/apis/meta/v1"
	"k8s.io/apimachinery/pkg/util/sets"
	"k8s.io/client-go/kubernetes/scheme"
	"k8s.io/client-go/tools/record"
	"sigs.k8s.io/controller-runtime/pkg/client/fake"

	"github.com/AliyunContainerService/terway/pkg/storage"
	"github.com/AliyunContainerService/terway/pkg/tracing"
	"github.com/AliyunContainerService/terway/types"
	"github.com/AliyunContainerService/terway/zzverif/inputstok"
	"github.com/AliyunContainerService/terway/zzverif/vt"
)

func verifBwOut(v uint64, err error) vt.M {
	return vt.M{"err": err != nil, "v1024": inputstok.Limbs(v, 1024), "v1000": inputstok.Limbs(v, 1000)}
}

func verifPod(in vt.M) *corev1.Pod {
	anno := map[string]string{}
	for _, k := range []string{podIngressBandwidth, podEgressBandwidth, types.PodENI, types.NetworkPriority,
		types.PodIPReservation, types.PodNetworks, types.PodNetworksRequest, types.PodNetworking, "cpuSet"} {
		inputstok.Set(anno, k, in["val"])
	}
	pod := &corev1.Pod{
		ObjectMeta: metav1.ObjectMeta{Name: "p", Namespace: "default", UID: "uid-1", Annotations: anno},
		Spec:       corev1.PodSpec{NodeName: "node-1", Containers: []corev1.Container{{Name: "c"}}},
		Status:     corev1.PodStatus{PodIP: "10.0.0.5", PodIPs: []corev1.PodIP{{IP: "10.0.0.5"}}},
	}
	if inputstok.Absent(in["val"]) {
		pod.Annotations = nil
	}
	return pod
}

// verifDaemonPathChild: the same pods looked up the way the running daemon does it - (*k8s).GetPod over an API client with the
// daemon's event recorder registered in the tracing package (daemon/builder.go RegisterTracing), so that what convertPod
// reports about a malformed annotation really goes through RecordPodEvent. One line per case: "<index> ok" / "<index> panic: ...".
// A fatal error (stack overflow, concurrent map access) kills this child; the parent attributes it to the case in progress.
func verifDaemonPathChild(t *testing.T) {
	debug.SetMaxStack(48 << 20) // a runaway recursion reaches the same fatal error sooner; sound code needs kilobytes
	cases, err := vt.ReadNDJSON(vt.Env("VERIF_CASES", ""))
	if err != nil {
		t.Fatal(err)
	}
	from := vt.EnvInt("VERIF_K8S_FROM", 0)
	f, err := os.OpenFile(vt.Env("VERIF_K8S_OUT", ""), os.O_APPEND|os.O_WRONLY|os.O_CREATE, 0o600)
	if err != nil {
		t.Fatal(err)
	}
	defer f.Close()
	idx := -1
	for _, c := range cases {
		in := vt.Map(c["in"])
		if vt.Str(in["fn"]) != "convertpod" {
			continue
		}
		idx++
		if idx < from {
			continue
		}
		fmt.Fprintf(f, "%d begin\n", idx)
		p := vt.Catch(func() {
			pod := verifPod(in)
			k := &k8s{
				client:          fake.NewClientBuilder().WithScheme(scheme.Scheme).WithObjects(pod).Build(),
				storage:         storage.NewMemoryStorage(),
				recorder:        record.NewFakeRecorder(4096),
				mode:            vt.Str(in["mode"]),
				nodeName:        "node-1",
				daemonNamespace: "kube-system",
				node:            &corev1.Node{ObjectMeta: metav1.ObjectMeta{Name: "node-1"}},
				statefulWorkloadKindSet: sets.New[string]("statefulset"),
				enableErdma:     vt.Bool(in["erdma"]),
				Locker:          &sync.RWMutex{},
			}
			tracing.RegisterEventRecorder(k.RecordNodeEvent, k.RecordPodEvent)
			if _, err := k.GetPod(context.Background(), "default", "p", false); err != nil {
				panic("GetPod of an existing pod failed: " + err.Error())
			}
			if _, err := k.GetLocalPods(); err != nil {
				panic("GetLocalPods failed: " + err.Error())
			}
		})
		if p != "" {
			fmt.Fprintf(f, "%d panic: %s\n", idx, strings.ReplaceAll(p, "\n", " "))
		} else {
			fmt.Fprintf(f, "%d ok\n", idx)
		}
	}
}

// verifDaemonPath runs the child (again after every crash) and returns, per convertpod case index, what went wrong ("" = nothing).
func verifDaemonPath(t *testing.T) map[int]string {
	bad := map[int]string{}
	self, err := os.Executable()
	if err != nil {
		t.Fatal(err)
	}
	outf := vt.Env("VERIF_RESULTS", "") + ".daemonpath"
	os.Remove(outf)
	defer os.Remove(outf)
	from := 0
	for round := 0; round < 400; round++ {
		cmd := exec.Command(self, "-test.run", "^TestVerifInputsK8s$", "-test.count=1", "-test.timeout", "900s")
		cmd.Env = append(os.Environ(), "VERIF_K8S_CHILD=1", fmt.Sprintf("VERIF_K8S_FROM=%d", from), "VERIF_K8S_OUT="+outf)
		outb, cerr := cmd.CombinedOutput()
		last, begun := -1, -1
		if fh, err := os.Open(outf); err == nil {
			sc := bufio.NewScanner(fh)
			sc.Buffer(make([]byte, 1<<20), 1<<20)
			for sc.Scan() {
				var i int
				var rest string
				line := sc.Text()
				if n, _ := fmt.Sscanf(line, "%d", &i); n == 1 {
					rest = strings.TrimSpace(strings.TrimPrefix(line, fmt.Sprint(i)))
					switch {
					case rest == "begin":
						begun = i
					case rest == "ok":
						last = i
					case strings.HasPrefix(rest, "panic:"):
						last = i
						bad[i] = "daemon path (GetPod with the event recorder registered): " + rest
					}
				}
			}
			fh.Close()
		}
		if cerr == nil {
			return bad
		}
		if begun <= last || begun < from {
			t.Fatalf("daemon-path child failed without a case in progress: %v\n%s", cerr, tail(string(outb), 2000))
		}
		msg := "fatal error"
		for _, l := range strings.Split(string(outb), "\n") {
			if strings.HasPrefix(l, "fatal error:") || strings.Contains(l, "goroutine stack exceeds") {
				msg = l
				break
			}
		}
		bad[begun] = "daemon path (GetPod with the event recorder registered) killed the process: " + msg
		from = begun + 1
		if round >= 5 {
			return bad // six fatal cases are reported; the remaining cases keep their direct convertPod observation only
		}
	}
	return bad
}

func tail(s string, n int) string {
	if len(s) > n {
		return s[len(s)-n:]
	}
	return s
}

// TestVerifInputsK8s runs the daemon-side annotation parsers of C15 (specs/Inputs.tla) on every case:
// parseBandwidth, convertPod (all annotations at once) and the pod store's record decoder.
func TestVerifInputsK8s(t *testing.T) {
	if os.Getenv("VERIF_K8S_CHILD") != "" {
		verifDaemonPathChild(t)
		return
	}
	daemonBad := verifDaemonPath(t)
	cidx := -1
	inputstok.Run(t, map[string]func(in, out vt.M){
		"bandwidth": func(in, out vt.M) {
			v, err := parseBandwidth(inputstok.Join(in["val"]))
			for k, x := range verifBwOut(v, err) {
				out[k] = x
			}
		},
		"bwscale": func(in, out vt.M) {
			num := inputstok.Join(in["num"])
			res := []vt.M{}
			for _, u := range vt.List(in["units"]) {
				res = append(res, verifBwOut(parseBandwidth(num+vt.Str(u))))
			}
			out["res"] = res
		},
		"convertpod": func(in, out vt.M) {
			cidx++
			if msg := daemonBad[cidx]; msg != "" {
				panic(msg)
			}
			pod := verifPod(in)
			pi := convertPod(vt.Str(in["mode"]), vt.Bool(in["erdma"]), sets.New[string]("statefulset"), pod)
			out["in1024"], out["in1000"] = inputstok.Limbs(pi.TcIngress, 1024), inputstok.Limbs(pi.TcIngress, 1000)
			out["eg1024"], out["eg1000"] = inputstok.Limbs(pi.TcEgress, 1024), inputstok.Limbs(pi.TcEgress, 1000)
			out["podeni"] = pi.PodENI
			out["prio"] = pi.NetworkPriority
			out["stick"] = pi.IPStickTime != 0
		},
		"stored": func(in, out vt.M) {
			_, err := deserialize([]byte(inputstok.Join(in["doc"])))
			out["err"] = err != nil
			out["done"] = true
		},
	})
}
