//go:build verif

package k8s

import (
	"sync"

	corev1 "k8s.io/api/core/v1"
	metav1 "k8s.io/apimachinery/pkg/apis/meta/v1"
	"k8s.io/apimachinery/pkg/util/sets"
	"sigs.k8s.io/controller-runtime/pkg/client"

	"github.com/AliyunContainerService/terway/pkg/storage"
	"github.com/AliyunContainerService/terway/types"
)

// VerifDaemonNewK8S (C09 harness only, exists only in the /verif build overlay) assembles the real daemon-side
// Kubernetes client object (the struct behind k8s.NewK8S) over a caller-supplied API client, node name and an
// in-memory pod cache instead of the bolt file at the constant path /var/lib/cni/terway/pod.db. No event sink, no
// clean-up timer. Everything the daemon asks (GetPod, GetLocalPods, PodExist) then runs the real code of this
// package. Input construction only, no product logic.
func VerifDaemonNewK8S(c client.Client, nodeName, daemonMode string) Kubernetes {
	cidr := &types.IPNetSet{}
	cidr.SetIPNet("172.16.0.0/16")
	return &k8s{
		client:                  c,
		mode:                    daemonMode,
		node:                    &corev1.Node{ObjectMeta: metav1.ObjectMeta{Name: nodeName}},
		nodeName:                nodeName,
		daemonNamespace:         "kube-system",
		storage:                 storage.NewMemoryStorage(),
		Locker:                  &sync.RWMutex{},
		svcCIDR:                 cidr,
		statefulWorkloadKindSet: sets.New[string]("statefulset"),
	}
}
