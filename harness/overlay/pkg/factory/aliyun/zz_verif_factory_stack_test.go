//go:build verif

package aliyun

// Full-stack composition (second part of the 'Factory' family): the real pool (pkg/eni Manager + Locals, as
// daemon/builder.go wires them) on top of the real factory on the fake HTTP cloud.  The factory calls are now made by
// the pool's own workers; a recording decorator logs call / return (one driver slot per concurrent call), the fake
// cloud logs the OpenAPI requests, and the same Factory_trace.tla judges the factory.  Every scenario ends with a
// drain and a 'quiescent' observation: the pool's own Status() next to the cloud (judged in Factory_trace.tla, C07).
// Only on the virtual clock (GOEXPERIMENT=synctest): the pool adds 300 ms rounds, 1 call / 6 s rate limiters and
// minute-scale sync periods on top of the factory's waits.

import (
	"context"
	"fmt"
	"net/netip"
	"strings"
	"sync"
	"testing"
	"time"

	"github.com/AliyunContainerService/terway/pkg/eni"
	"github.com/AliyunContainerService/terway/pkg/factory"
	"github.com/AliyunContainerService/terway/types/daemon"
	"github.com/AliyunContainerService/terway/zzverif/vt"
)

// fxRec is factory.Factory as the pool sees it: every call takes a free driver slot, is recorded, and runs on that
// slot's real *Aliyun (same vSwitch pool, token cache and rate limiters; the slot only labels the HTTP requests).
type fxRec struct {
	s    *fxSys
	mu   sync.Mutex
	free []int
}

var _ factory.Factory = &fxRec{}

func (r *fxRec) take() int {
	r.mu.Lock()
	defer r.mu.Unlock()
	if len(r.free) == 0 {
		panic("verif: more concurrent factory calls than driver slots")
	}
	c := r.free[0]
	r.free = r.free[1:]
	return c
}

func (r *fxRec) give(c int) {
	r.mu.Lock()
	r.free = append(r.free, c)
	r.mu.Unlock()
}

func (r *fxRec) do(a fxArgs) fxResult {
	c := r.take()
	defer r.give(c)
	if a.addrs == nil {
		a.addrs = []int{}
	}
	return r.s.invoke(c, a)
}

func (r *fxRec) CreateNetworkInterface(ipv4, ipv6 int, eniType string) (*daemon.ENI, []netip.Addr, []netip.Addr, error) {
	x := r.do(fxArgs{kind: "create", fam: 4, n4: ipv4, n6: ipv6, typ: strings.ToLower(eniType)})
	return x.eni, x.v4, x.v6, x.err
}

func (r *fxRec) AssignNIPv4(eniID string, count int, mac string) ([]netip.Addr, error) {
	x := r.do(fxArgs{kind: "assign", e: fxParseEni(eniID), fam: 4, n4: count})
	return x.v4, x.err
}

func (r *fxRec) AssignNIPv6(eniID string, count int, mac string) ([]netip.Addr, error) {
	x := r.do(fxArgs{kind: "assign", e: fxParseEni(eniID), fam: 6, n6: count})
	return x.v6, x.err
}

func (r *fxRec) UnAssignNIPv4(eniID string, ips []netip.Addr, mac string) error {
	return r.do(fxArgs{kind: "unassign", e: fxParseEni(eniID), fam: 4, addrs: fxAddrInts(ips), naddrs: ips}).err
}

func (r *fxRec) UnAssignNIPv6(eniID string, ips []netip.Addr, mac string) error {
	return r.do(fxArgs{kind: "unassign", e: fxParseEni(eniID), fam: 6, addrs: fxAddrInts(ips), naddrs: ips}).err
}

func (r *fxRec) DeleteNetworkInterface(eniID string) error {
	return r.do(fxArgs{kind: "delete", e: fxParseEni(eniID), fam: 4}).err
}

func (r *fxRec) LoadNetworkInterface(mac string) ([]netip.Addr, []netip.Addr, error) {
	x := r.do(fxArgs{kind: "load", e: fxParseMac(mac), fam: 4})
	return x.v4, x.v6, x.err
}

func (r *fxRec) GetAttachedNetworkInterface(preferTrunkID string) ([]*daemon.ENI, error) {
	x := r.do(fxArgs{kind: "attached", fam: 4, trunkID: max(fxParseEni(preferTrunkID), 0)})
	return x.enis, x.err
}

type stackPod struct {
	res eni.NetworkResources
	err error
	ch  chan struct{}
}

func runFxStack(t *testing.T, w *vt.Writer, si int, sc []vt.M) {
	conf := vt.Map(sc[0]["conf"])
	finished := false
	defer func() {
		// pkg/eni NodeCondition.Run ranges over a timer channel for ever; it is the one goroutine the bubble cannot
		// join. Once the scenario itself is complete, that (and only that) report of the bubble is expected.
		if r := recover(); r != nil && !(finished && fmt.Sprint(r) == "deadlock: all goroutines in bubble are blocked") {
			panic(r)
		}
	}()
	fxRunClocked(func() {
		c, pre, vsws := confOf(conf)
		c.slots = 12
		sys := newFxSys(t, w, c, pre, vsws)
		rec := &fxRec{s: sys}
		for i := 1; i <= c.slots; i++ {
			rec.free = append(rec.free, i)
		}
		pc := &daemon.PoolConfig{BatchSize: max(vt.Int(conf["batch"]), 1), MaxIPPerENI: max(vt.Int(conf["cap"]), 2), EnableIPv4: true, EnableIPv6: c.v6}
		nslots := max(vt.Int(conf["enis"]), 1)
		// as daemon/builder.go: adopt what is attached, then empty slots up to the interface quota
		attached, err := rec.GetAttachedNetworkInterface("")
		if err != nil {
			t.Fatalf("stack %d: GetAttachedNetworkInterface: %v", si, err)
		}
		var nis []eni.NetworkInterface
		for _, ni := range attached {
			nis = append(nis, eni.NewLocal(ni, "secondary", rec, pc))
		}
		for len(nis) < nslots {
			nis = append(nis, eni.NewLocal(nil, "secondary", rec, pc))
		}
		mgr := eni.NewManager(vt.Int(conf["minIdle"]), vt.Int(conf["maxIdle"]), nslots*pc.MaxIPPerENI, 2*time.Minute, nis, daemon.EniSelectionPolicyMostIPs, nil)
		ctx, stop := context.WithCancel(context.Background())
		var wg sync.WaitGroup
		if err := mgr.Run(ctx, &wg, nil); err != nil {
			t.Fatalf("stack %d: manager run: %v", si, err)
		}
		pods := map[int]*stackPod{}
		f := sys.cloud
		setPlan := func(st vt.M) {
			f.mu.Lock()
			f.planAny = map[string][]string{}
			for act, l := range vt.Map(st["plan"]) {
				for _, o := range vt.List(l) {
					f.planAny[act] = append(f.planAny[act], vt.Str(o))
				}
			}
			f.lagAny = fxLag{m: lagOf(st, "mlag"), a: lagOf(st, "alag"), d: lagOf(st, "dlag")}
			f.mu.Unlock()
		}
		waitPod := func(p int) {
			if sp := pods[p]; sp != nil && sp.ch != nil {
				<-sp.ch
				sp.ch = nil
				w.Emit(vt.M{"ev": "dbg", "what": "add_ret", "pod": p, "ok": sp.err == nil, "res": fmt.Sprint(len(sp.res))})
			}
		}
		for _, st := range sc[1:] {
			switch vt.Str(st["a"]) {
			case "plan":
				setPlan(st)
			case "add":
				p := vt.Int(st["p"])
				if pods[p] != nil {
					continue
				}
				sp := &stackPod{ch: make(chan struct{})}
				pods[p] = sp
				w.Emit(vt.M{"ev": "dbg", "what": "add", "pod": p, "ok": true, "res": ""})
				go func() {
					defer close(sp.ch)
					actx, cancel := context.WithTimeout(ctx, time.Duration(max(vt.Int(st["timeout"]), 120))*time.Second)
					defer cancel()
					sp.res, sp.err = mgr.Allocate(actx, &daemon.CNI{PodID: fmt.Sprintf("ns/pod-%d", p)},
						&eni.AllocRequest{ResourceRequests: []eni.ResourceRequest{eni.NewLocalIPRequest()}})
				}()
			case "addwait":
				for p := range pods {
					waitPod(p)
				}
			case "del":
				p := vt.Int(st["p"])
				waitPod(p)
				if sp := pods[p]; sp != nil {
					if sp.err == nil && len(sp.res) > 0 {
						_ = mgr.Release(ctx, &daemon.CNI{PodID: fmt.Sprintf("ns/pod-%d", p)}, &eni.ReleaseRequest{NetworkResources: sp.res})
					}
					delete(pods, p)
					w.Emit(vt.M{"ev": "dbg", "what": "del", "pod": p, "ok": true, "res": ""})
				}
			case "sleep":
				time.Sleep(time.Duration(vt.Int(st["s"])) * time.Second)
			case "settle":
				f.settle()
			case "remove":
				sys.step(st)
			}
		}
		// drain: healthy cloud, let the pool's balancer / sync / workers converge (virtual minutes), observe
		setPlan(vt.M{})
		for p := range pods {
			waitPod(p)
		}
		for i := 0; i < 6; i++ {
			time.Sleep(150 * time.Second)
			f.settle()
		}
		rows := []vt.M{}
		for _, st := range mgr.Status() {
			row := vt.M{"e": max(fxParseEni(st.NetworkInterfaceID), 0), "status": st.Status, "v4": []int{}, "v6": []int{}, "valid4": []int{}, "valid6": []int{}}
			for _, u := range st.Usage {
				a, err := netip.ParseAddr(u[0])
				if err != nil {
					continue
				}
				fam, _, id := fxParseAddr(a)
				k := fmt.Sprintf("v%d", fam)
				row[k] = append(row[k].([]int), id)
				if u[2] == "Valid" {
					row["valid"+k[1:]] = append(row["valid"+k[1:]].([]int), id)
				}
			}
			rows = append(rows, row)
		}
		stop()
		wg.Wait()
		f.mu.Lock()
		w.Emit(vt.M{"ev": "quiescent", "st": rows})
		f.mu.Unlock()
		sys.finish()
		finished = true
	})
}

// TestVerifFactoryStack runs the full-stack scenarios of VERIF_SCEN (steps: plan / add / addwait / del / sleep / settle / remove).
func TestVerifFactoryStack(t *testing.T) {
	fxSilence()
	if !fxFakeTime {
		t.Skip("the full-stack composition needs the virtual clock (GOEXPERIMENT=synctest)")
	}
	w, err := vt.NewWriter(vt.Env("VERIF_TRACE", ""))
	if err != nil {
		t.Fatal(err)
	}
	defer w.Close()
	shard, nshard := 0, 1
	fmt.Sscanf(vt.Env("VERIF_SHARD", "0/1"), "%d/%d", &shard, &nshard)
	for si, sc := range readFxScenarios(t) {
		if si%nshard != shard || len(sc) == 0 || vt.Str(sc[0]["a"]) != "conf" {
			continue
		}
		runFxStack(t, w, si, sc)
	}
}
