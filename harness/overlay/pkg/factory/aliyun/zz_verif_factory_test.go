//go:build verif

package aliyun

// Conformance harness of the 'Factory' family (specs/Factory.tla): the REAL cloud factory (type Aliyun) on the REAL
// OpenAPI client (pkg/aliyun/client, alibaba-cloud-sdk-go underneath), the REAL vSwitch pool and the REAL
// instance-metadata reader (pkg/aliyun/metadata, pkg/aliyun/eni, pkg/aliyun/instance).  Only the two HTTP
// transports are fakes: one stateful fake cloud (fxCloud) answers the ECS / VPC OpenAPI actions and the
// 100.100.100.200 metadata paths.  The harness records; TLC judges (specs/Factory_trace.tla).
//
// Time: the factory sleeps and polls on constants (1 s metadata poll, 10 s metadata time-out, 2 s after attach,
// 5 s between detach and delete) and on the production back-off tables.  With GOEXPERIMENT=synctest the scenarios
// run inside a testing/synctest bubble: the unmodified code runs on a virtual clock (see
// zz_verif_factory_clock_*_test.go); without the experiment the same driver runs in real time (a small sample).
// Nothing in the fake depends on time: lags (attach, detach, metadata) are counted in observations.

import (
	"bytes"
	"context"
	"encoding/json"
	"errors"
	"fmt"
	"io"
	"net"
	"net/http"
	"net/netip"
	"os"
	"sort"
	"strconv"
	"strings"
	"sync"
	"testing"
	"time"

	"github.com/aliyun/alibaba-cloud-sdk-go/services/ecs"
	"github.com/aliyun/alibaba-cloud-sdk-go/services/eflo"
	"github.com/aliyun/alibaba-cloud-sdk-go/services/vpc"
	"github.com/go-logr/logr"
	"k8s.io/apimachinery/pkg/util/wait"
	"k8s.io/klog/v2"
	logf "sigs.k8s.io/controller-runtime/pkg/log"

	"github.com/AliyunContainerService/terway/pkg/aliyun/client"
	"github.com/AliyunContainerService/terway/pkg/aliyun/eni"
	"github.com/AliyunContainerService/terway/pkg/aliyun/instance"
	"github.com/AliyunContainerService/terway/pkg/aliyun/metadata"
	"github.com/AliyunContainerService/terway/pkg/backoff"
	"github.com/AliyunContainerService/terway/pkg/factory"
	vswpool "github.com/AliyunContainerService/terway/pkg/vswitch"
	"github.com/AliyunContainerService/terway/types/daemon"
	"github.com/AliyunContainerService/terway/zzverif/vt"
)

const (
	fxThis    = "i-this"
	fxOther   = "i-other"
	fxPrimary = 9 // id of the instance's primary interface
	fxNever   = 1000
	fxMaxEni  = 16 // Enis of the trace configuration (props/factory.py)
)

// ---------------------------------------------------------------------------------------------- naming

func fxEniID(k int) string { return fmt.Sprintf("eni-%d", k) }
func fxMac(k int) string   { return fmt.Sprintf("00:16:3e:00:00:%02x", k) }
func fxVsw(v int) string   { return fmt.Sprintf("vsw-%d", v) }
func fxA4(v, a int) string { return fmt.Sprintf("10.0.%d.%d", v, a) }
func fxA6(v, a int) string { return fmt.Sprintf("fd00:0:0:%x::%x", v, a) }
func fxCidr4(v int) string { return fmt.Sprintf("10.0.%d.0/24", v) }
func fxCidr6(v int) string { return fmt.Sprintf("fd00:0:0:%x::/64", v) }
func fxGw4(v int) string   { return fmt.Sprintf("10.0.%d.253", v) }
func fxGw6(v int) string   { return fmt.Sprintf("fd00:0:0:%x::fffd", v) }

func fxParseEni(s string) int {
	if !strings.HasPrefix(s, "eni-") {
		if s == "" {
			return 0
		}
		return -1
	}
	n, err := strconv.Atoi(s[4:])
	if err != nil {
		return -1
	}
	return n
}

func fxParseMac(s string) int {
	var k int
	if _, err := fmt.Sscanf(s, "00:16:3e:00:00:%02x", &k); err != nil {
		if s == "" {
			return 0
		}
		return -1
	}
	return k
}

func fxParseVsw(s string) int {
	if !strings.HasPrefix(s, "vsw-") {
		if s == "" {
			return 0
		}
		return -1
	}
	n, err := strconv.Atoi(s[4:])
	if err != nil {
		return -1
	}
	return n
}

// address -> (family, vSwitch, small id); (0,0,0) for the zero value, (-1,..) for something the fake never issued
func fxParseAddr(a netip.Addr) (fam, v, id int) {
	if !a.IsValid() {
		return 0, 0, 0
	}
	a = a.Unmap()
	if a.Is4() {
		b := a.As4()
		if b[0] != 10 || b[1] != 0 {
			return -1, 0, 0
		}
		return 4, int(b[2]), int(b[3])
	}
	b := a.As16()
	if b[0] != 0xfd || b[1] != 0 {
		return -1, 0, 0
	}
	return 6, int(b[6])<<8 | int(b[7]), int(b[14])<<8 | int(b[15])
}

func fxAddrInts(l []netip.Addr) []int {
	out := []int{}
	for _, a := range l {
		fam, _, id := fxParseAddr(a)
		if fam < 0 {
			id = -1
		}
		out = append(out, id)
	}
	return out
}

func fxIPInt(ip net.IP) int {
	if ip == nil {
		return 0
	}
	a, ok := netip.AddrFromSlice(ip)
	if !ok {
		return -1
	}
	fam, _, id := fxParseAddr(a)
	if fam < 0 {
		return -1
	}
	return id
}

// which vSwitch's CIDR / gateway is this (0 = unset, -1 = none the fake knows)
func fxCidrVsw(n *net.IPNet, fam int) int {
	if n == nil {
		return 0
	}
	for v := 1; v <= 8; v++ {
		if (fam == 4 && n.String() == fxCidr4(v)) || (fam == 6 && n.String() == fxCidr6(v)) {
			return v
		}
	}
	return -1
}

func fxGwVsw(ip net.IP, fam int) int {
	if ip == nil {
		return 0
	}
	for v := 1; v <= 8; v++ {
		if (fam == 4 && ip.Equal(net.ParseIP(fxGw4(v)))) || (fam == 6 && ip.Equal(net.ParseIP(fxGw6(v)))) {
			return v
		}
	}
	return -1
}

func sortedKeys(m map[int]bool) []int {
	out := []int{}
	for k, v := range m {
		if v {
			out = append(out, k)
		}
	}
	sort.Ints(out)
	return out
}

// ---------------------------------------------------------------------------------------------- fake cloud

type fxEni struct {
	id      int
	st      string // Available | Attaching | InUse | Detaching
	inst    int    // 0 none, 1 this instance, 2 another instance
	typ     string // Primary | Secondary | Trunk
	rdma    bool
	vsw     int
	primary int
	v4, v6  map[int]bool
	tagged  bool // carries the tags the configured tag filter asks for
	alag    int  // DescribeNetworkInterfaces observations that still see Attaching
	dlag    int  // DeleteNetworkInterface requests that still see Detaching
}

type fxMeta struct {
	on     bool
	v4, v6 []int
}

type fxMemo struct {
	act   string
	e     int
	addrs []int
}

type fxLag struct{ m, a, d int }

type fxCloud struct {
	mu       sync.Mutex
	w        *vt.Writer
	enis     map[int]*fxEni
	meta     map[int]*fxMeta
	mdirty   map[int]bool
	mleft    map[int]int
	free     map[int]int
	zone     map[int]string
	nextA    map[int]int // per family
	memo     map[string]*fxMemo
	tokID    map[string]int
	plan     map[int]map[string][]string
	lag      map[int]fxLag
	filterK  string
	filterV  string
	v6on     bool
	dump     bool
	planAny  map[string][]string // full stack: outcomes per action, whichever slot sends the request
	lagAny   fxLag
	mplan    []string      // outcomes of the next metadata reads: ok | e500 | lost (consumed one per HTTP request)
	post     []func()      // environment steps that follow the request being served (emitted after its event)
	usedEni  map[int]bool  // ids are never handed out twice
	creating map[int]bool  // interfaces made by a create call that has not returned yet (no other caller knows them)
	madeBy   map[int][]int // slot -> interfaces its open call made
	metaVsw  map[int]int   // vSwitch of every interface that ever existed (the metadata may lag behind a deletion)
}

func newFxCloud(w *vt.Writer) *fxCloud {
	return &fxCloud{w: w, enis: map[int]*fxEni{}, meta: map[int]*fxMeta{}, mdirty: map[int]bool{}, mleft: map[int]int{},
		free: map[int]int{}, zone: map[int]string{}, nextA: map[int]int{4: 1, 6: 1}, memo: map[string]*fxMemo{}, tokID: map[string]int{},
		plan: map[int]map[string][]string{}, lag: map[int]fxLag{}, usedEni: map[int]bool{}, metaVsw: map[int]int{}, creating: map[int]bool{}, madeBy: map[int][]int{}}
}

func (f *fxCloud) newEniID() int {
	for k := 1; ; k++ {
		if k == fxPrimary {
			continue
		}
		if k > fxMaxEni { // machinery limit (the trace specification's Enis), never a verdict
			panic("verif: the scenario used up the interface ids of the trace specification")
		}
		if _, ok := f.enis[k]; !ok && !f.usedEni[k] {
			return k
		}
	}
}

func (f *fxCloud) viewOf(e *fxEni) *fxMeta {
	if e == nil || e.inst != 1 {
		return &fxMeta{v4: []int{}, v6: []int{}}
	}
	v4 := []int{e.primary}
	for _, a := range sortedKeys(e.v4) {
		if a != e.primary {
			v4 = append(v4, a)
		}
	}
	return &fxMeta{on: true, v4: v4, v6: sortedKeys(e.v6)}
}

func (f *fxCloud) touch(e int, slot int) {
	f.mdirty[e] = true
	f.mleft[e] = f.lag[slot].m
}

// caller holds mu
func (f *fxCloud) syncMeta(e int) {
	if !f.mdirty[e] {
		return
	}
	delete(f.mdirty, e)
	v := f.viewOf(f.enis[e])
	f.meta[e] = v
	f.w.Emit(vt.M{"ev": "env", "k": "meta_sync", "e": e, "on": v.on, "v4": v.v4, "v6": v.v6, "fam": 0, "a": 0})
}

// one metadata observation of interface e (or of all interfaces: e == 0)
func (f *fxCloud) metaObserve(e int) {
	var ids []int
	for k := range f.mdirty {
		if e == 0 || k == e {
			ids = append(ids, k)
		}
	}
	sort.Ints(ids)
	for _, k := range ids {
		if f.mleft[k] <= 0 {
			f.syncMeta(k)
		} else {
			f.mleft[k]--
		}
	}
}

func (f *fxCloud) attachDone(e *fxEni) {
	e.st = "InUse"
	f.w.Emit(vt.M{"ev": "env", "k": "attach_done", "e": e.id, "on": false, "v4": []int{}, "v6": []int{}, "fam": 0, "a": 0})
}

func (f *fxCloud) detachDone(e *fxEni, slot int) {
	e.st = "Available"
	e.inst = 0
	f.touch(e.id, slot)
	f.w.Emit(vt.M{"ev": "env", "k": "detach_done", "e": e.id, "on": false, "v4": []int{}, "v6": []int{}, "fam": 0, "a": 0})
}

// settle: everything that was pending in the cloud completes and the metadata catches up (driver step between calls)
func (f *fxCloud) settle() {
	f.mu.Lock()
	defer f.mu.Unlock()
	var ids []int
	for k := range f.enis {
		ids = append(ids, k)
	}
	sort.Ints(ids)
	for _, k := range ids {
		e := f.enis[k]
		if e.st == "Attaching" {
			f.attachDone(e)
		}
		if e.st == "Detaching" {
			f.detachDone(e, 0)
		}
	}
	ids = ids[:0]
	for k := range f.mdirty {
		ids = append(ids, k)
	}
	sort.Ints(ids)
	for _, k := range ids {
		f.syncMeta(k)
	}
}

func (f *fxCloud) snapshot() ([]vt.M, []vt.M, []vt.M) {
	var ids []int
	for k := range f.enis {
		ids = append(ids, k)
	}
	sort.Ints(ids)
	cl, me, fr := []vt.M{}, []vt.M{}, []vt.M{}
	for _, k := range ids {
		e := f.enis[k]
		cl = append(cl, vt.M{"e": k, "st": e.st, "inst": e.inst, "type": e.typ, "rdma": e.rdma, "vsw": e.vsw, "primary": e.primary,
			"v4": sortedKeys(e.v4), "v6": sortedKeys(e.v6), "tagged": e.tagged})
		m := f.meta[k]
		if m == nil {
			m = &fxMeta{}
		}
		me = append(me, vt.M{"e": k, "on": m.on, "v4": append([]int{}, m.v4...), "v6": append([]int{}, m.v6...)})
	}
	var vs []int
	for v := range f.free {
		vs = append(vs, v)
	}
	sort.Ints(vs)
	for _, v := range vs {
		fr = append(fr, vt.M{"v": v, "n": f.free[v]})
	}
	return cl, me, fr
}

func httpResp(req *http.Request, code int, body string) *http.Response {
	return &http.Response{StatusCode: code, Status: fmt.Sprint(code), Body: io.NopCloser(bytes.NewBufferString(body)),
		Header: http.Header{"Content-Type": []string{"application/json"}}, Request: req, Proto: "HTTP/1.1", ProtoMajor: 1, ProtoMinor: 1}
}

func errResp(req *http.Request, code string) *http.Response {
	st := 400
	switch {
	case code == "InternalError":
		st = 500
	case strings.HasPrefix(code, "Forbidden"):
		st = 403
	case strings.HasSuffix(code, ".NotFound"):
		st = 404
	}
	return httpResp(req, st, fmt.Sprintf(`{"RequestId":"req-verif","HostId":"ecs.verif.local","Code":%q,"Message":"verif: %s"}`, code, code))
}

func formOf(req *http.Request) map[string]string {
	out := map[string]string{}
	for k, v := range req.URL.Query() {
		if len(v) > 0 {
			out[k] = v[0]
		}
	}
	if req.Body != nil {
		b, _ := io.ReadAll(req.Body)
		if len(b) > 0 {
			if r, err := http.NewRequest("GET", "http://x/?"+string(b), nil); err == nil {
				for k, v := range r.URL.Query() {
					if len(v) > 0 {
						out[k] = v[0]
					}
				}
			}
		}
	}
	return out
}

func repeated(form map[string]string, name string) []string {
	var out []string
	for i := 1; ; i++ {
		v, ok := form[fmt.Sprintf("%s.%d", name, i)]
		if !ok {
			return out
		}
		out = append(out, v)
	}
}

// fxTransport is the OpenAPI endpoint as seen by one driver slot (one concurrent factory caller).
type fxTransport struct {
	f    *fxCloud
	slot int
}

var errLost = errors.New("verif: connection reset by peer (the reply is lost)")

func (t *fxTransport) RoundTrip(req *http.Request) (*http.Response, error) {
	form := formOf(req)
	f := t.f
	f.mu.Lock()
	defer f.mu.Unlock()
	act := form["Action"]
	if f.dump {
		b, _ := json.Marshal(form)
		fmt.Fprintf(os.Stderr, "HTTP %s %s\n", act, b)
	}
	// fault decision of the scenario for this request
	out := "ok"
	if q := f.plan[t.slot][act]; len(q) > 0 {
		out = q[0]
		f.plan[t.slot][act] = q[1:]
	} else if q := f.planAny[act]; len(q) > 0 {
		out = q[0]
		f.planAny[act] = q[1:]
	}
	if f.planAny != nil {
		f.lag[t.slot] = f.lagAny
	}
	tok := 0
	if s := form["ClientToken"]; s != "" {
		if _, ok := f.tokID[s]; !ok {
			f.tokID[s] = len(f.tokID) + 1
		}
		tok = f.tokID[s]
	}
	ev := vt.M{"ev": "http", "c": t.slot, "act": act, "plan": out, "tok": tok, "e": 0, "inst": 0, "n4": 0, "n6": 0, "addrs": []int{}, "vsw": 0,
		"type": "", "rdma": false, "ids": []int{}, "tagf": false, "out": "ok", "code": "", "eff": false, "re": 0, "rp": 0, "tagged": false, "r4": []int{}, "r6": []int{}}
	emit := func() {
		f.w.Emit(ev)
		for _, p := range f.post {
			p()
		}
		f.post = nil
	}
	fail := func(code string) (*http.Response, error) {
		ev["out"], ev["code"] = "err", code
		emit()
		return errResp(req, code), nil
	}
	if m := f.memo[form["ClientToken"]]; m != nil && strings.HasPrefix(out, "eb:") && out != "eb:Throttling" && out != "eb:InternalError" {
		// a ClientToken the cloud remembers is answered from memory: only errors raised before the request is looked at
		// (throttling, internal error) and lost replies can hit a retry, never a fresh business decision
		out = "ok"
		ev["plan"] = "ok"
	}
	if strings.HasPrefix(out, "eb:") { // error before any effect
		f.fillArgs(ev, act, form)
		return fail(out[3:])
	}
	body, code := f.apply(t.slot, act, form, ev, out)
	if code != "" {
		return fail(code)
	}
	switch out {
	case "lost":
		ev["out"] = "lost"
		emit()
		return nil, errLost
	case "ea":
		ev["out"], ev["code"] = "lost", "InternalError"
		emit()
		return errResp(req, "InternalError"), nil
	}
	emit()
	return httpResp(req, 200, body), nil
}

func (f *fxCloud) instOf(s string) int {
	switch s {
	case fxThis:
		return 1
	case fxOther:
		return 2
	case "":
		return 0
	}
	return -1
}

// fillArgs logs what the request asked for (also used when the request fails before any effect)
func (f *fxCloud) fillArgs(ev vt.M, act string, form map[string]string) {
	atoi := func(s string) int { n, _ := strconv.Atoi(s); return n }
	ev["e"] = fxParseEni(form["NetworkInterfaceId"])
	ev["inst"] = f.instOf(form["InstanceId"])
	switch act {
	case "CreateNetworkInterface":
		ev["vsw"] = fxParseVsw(form["VSwitchId"])
		ev["n4"] = 1 + atoi(form["SecondaryPrivateIpAddressCount"])
		ev["n6"] = atoi(form["Ipv6AddressCount"])
		ev["type"] = form["InstanceType"]
		ev["rdma"] = form["NetworkInterfaceTrafficMode"] == client.ENITrafficModeRDMA
	case "AssignPrivateIpAddresses":
		ev["n4"] = atoi(form["SecondaryPrivateIpAddressCount"])
	case "AssignIpv6Addresses":
		ev["n6"] = atoi(form["Ipv6AddressCount"])
	case "UnassignPrivateIpAddresses", "UnassignIpv6Addresses":
		name := "PrivateIpAddress"
		if act == "UnassignIpv6Addresses" {
			name = "Ipv6Address"
		}
		var l []netip.Addr
		for _, s := range repeated(form, name) {
			a, _ := netip.ParseAddr(s)
			l = append(l, a)
		}
		ev["addrs"] = fxAddrInts(l)
	case "DescribeNetworkInterfaces":
		ids := []int{}
		for _, s := range repeated(form, "NetworkInterfaceId") {
			ids = append(ids, fxParseEni(s))
		}
		ev["ids"] = ids
		ev["tagf"] = form["Tag.1.Key"] != ""
	case "DescribeVSwitches":
		ev["vsw"] = fxParseVsw(form["VSwitchId"])
	}
}

func eniJSON(e *fxEni, describe bool) string {
	var p4, p6, tags []string
	for _, a := range sortedKeys(e.v4) {
		p4 = append(p4, fmt.Sprintf(`{"PrivateIpAddress":%q,"Primary":%v}`, fxA4(e.vsw, a), a == e.primary))
	}
	for _, a := range sortedKeys(e.v6) {
		p6 = append(p6, fmt.Sprintf(`{"Ipv6Address":%q}`, fxA6(e.vsw, a)))
	}
	tags = append(tags, `{"TagKey":"creator","TagValue":"terway","Key":"creator","Value":"terway"}`)
	if e.tagged {
		tags = append(tags, `{"TagKey":"verif-owner","TagValue":"me","Key":"verif-owner","Value":"me"}`)
	}
	inst := ""
	switch e.inst {
	case 1:
		inst = fxThis
	case 2:
		inst = fxOther
	}
	mode := client.ENITrafficModeStandard
	if e.rdma {
		mode = client.ENITrafficModeRDMA
	}
	s := fmt.Sprintf(`"NetworkInterfaceId":%q,"Status":%q,"Type":%q,"MacAddress":%q,"PrivateIpAddress":%q,"VSwitchId":%q,"ZoneId":"z1","VpcId":"vpc-1",`+
		`"NetworkInterfaceTrafficMode":%q,"PrivateIpSets":{"PrivateIpSet":[%s]},"Ipv6Sets":{"Ipv6Set":[%s]},"SecurityGroupIds":{"SecurityGroupId":["sg-1"]},"Tags":{"Tag":[%s]}`,
		fxEniID(e.id), e.st, e.typ, fxMac(e.id), fxA4(e.vsw, e.primary), fxVsw(e.vsw), mode, strings.Join(p4, ","), strings.Join(p6, ","), strings.Join(tags, ","))
	if describe {
		s += fmt.Sprintf(`,"InstanceId":%q,"Attachment":{"InstanceId":%q,"DeviceIndex":1},"CreationTime":"2024-01-01T00:00:00Z"`, inst, inst)
	}
	return "{" + s + "}"
}

func (f *fxCloud) fresh(fam, n int) []int {
	out := []int{}
	for i := 0; i < n; i++ {
		out = append(out, f.nextA[fam])
		f.nextA[fam]++
	}
	return out
}

func strs4(v int, l []int) string {
	var s []string
	for _, a := range l {
		s = append(s, strconv.Quote(fxA4(v, a)))
	}
	return strings.Join(s, ",")
}

func strs6(v int, l []int) string {
	var s []string
	for _, a := range l {
		s = append(s, strconv.Quote(fxA6(v, a)))
	}
	return strings.Join(s, ",")
}

// apply performs the request on the cloud state (caller holds mu). Returns the 200 body, or a business error code.
func (f *fxCloud) apply(slot int, act string, form map[string]string, ev vt.M, out string) (string, string) {
	f.fillArgs(ev, act, form)
	k := fxParseEni(form["NetworkInterfaceId"])
	e := f.enis[k]
	tokStr := form["ClientToken"]
	switch act {
	case "DescribeVSwitches":
		v := fxParseVsw(form["VSwitchId"])
		if _, ok := f.free[v]; !ok {
			return `{"RequestId":"req-verif","TotalCount":0,"VSwitches":{"VSwitch":[]}}`, ""
		}
		return fmt.Sprintf(`{"RequestId":"req-verif","TotalCount":1,"VSwitches":{"VSwitch":[{"VSwitchId":%q,"ZoneId":%q,"AvailableIpAddressCount":%d,"CidrBlock":%q,"Ipv6CidrBlock":%q,"Status":"Available","VpcId":"vpc-1"}]}}`,
			fxVsw(v), f.zone[v], f.free[v], fxCidr4(v), fxCidr6(v)), ""

	case "CreateNetworkInterface":
		if m := f.memo[tokStr]; m != nil && m.act == act && f.enis[m.e] != nil { // idempotent replay: same token, same answer
			ev["re"], ev["rp"], ev["tagged"], ev["r4"], ev["r6"] = m.e, f.enis[m.e].primary, f.enis[m.e].tagged, sortedKeys(f.enis[m.e].v4), sortedKeys(f.enis[m.e].v6)
			return "{\"RequestId\":\"req-verif\"," + eniJSON(f.enis[m.e], false)[1:], ""
		}
		v := fxParseVsw(form["VSwitchId"])
		n4, n6 := vt.Int(ev["n4"]), vt.Int(ev["n6"])
		if _, ok := f.free[v]; !ok {
			return "", "InvalidVSwitchId.NotFound"
		}
		if f.free[v] < n4 {
			return "", "InvalidVSwitchId.IpNotEnough"
		}
		id := f.newEniID()
		ne := &fxEni{id: id, st: "Available", typ: form["InstanceType"], rdma: vt.Bool(ev["rdma"]), vsw: v, v4: map[int]bool{}, v6: map[int]bool{}}
		if ne.typ == "" {
			ne.typ = client.ENITypeSecondary
		}
		for i, a := range f.fresh(4, n4) {
			if i == 0 {
				ne.primary = a
			}
			ne.v4[a] = true
		}
		for _, a := range f.fresh(6, n6) {
			ne.v6[a] = true
		}
		// the tags the request carries decide whether the configured filter will match this interface
		for i := 1; form[fmt.Sprintf("Tag.%d.Key", i)] != ""; i++ {
			if form[fmt.Sprintf("Tag.%d.Key", i)] == "verif-owner" && form[fmt.Sprintf("Tag.%d.Value", i)] == "me" {
				ne.tagged = true
			}
		}
		f.free[v] -= n4
		f.enis[id] = ne
		f.usedEni[id] = true
		f.metaVsw[id] = v
		f.creating[id] = true
		f.madeBy[slot] = append(f.madeBy[slot], id)
		if tokStr != "" {
			f.memo[tokStr] = &fxMemo{act: act, e: id}
		}
		ev["eff"], ev["re"], ev["rp"], ev["tagged"], ev["r4"], ev["r6"] = true, id, ne.primary, ne.tagged, sortedKeys(ne.v4), sortedKeys(ne.v6)
		return "{\"RequestId\":\"req-verif\"," + eniJSON(ne, false)[1:], ""

	case "AttachNetworkInterface":
		if e == nil {
			return "", "InvalidEniId.NotFound"
		}
		if e.st != "Available" {
			return "", "InvalidOperation.InvalidEniState"
		}
		e.st, e.inst, e.alag = "Attaching", f.instOf(form["InstanceId"]), f.lag[slot].a
		ev["eff"] = true
		if e.inst == 1 {
			f.touch(e.id, slot)
		}
		if e.alag <= 0 {
			f.post = append(f.post, func() { f.attachDone(e) })
		}
		return `{"RequestId":"req-verif"}`, ""

	case "DescribeNetworkInterfaces":
		ids := repeated(form, "NetworkInterfaceId")
		var all []int
		for id := range f.enis {
			all = append(all, id)
		}
		sort.Ints(all)
		var sel []string
		for _, id := range all {
			x := f.enis[id]
			if len(ids) > 0 {
				hit := false
				for _, s := range ids {
					hit = hit || s == fxEniID(id)
				}
				if !hit {
					continue
				}
			}
			if s := form["InstanceId"]; s != "" && f.instOf(s) != x.inst {
				continue
			}
			if s := form["Status"]; s != "" && s != x.st {
				continue
			}
			if s := form["Type"]; s != "" && s != x.typ {
				continue
			}
			match := true
			for i := 1; form[fmt.Sprintf("Tag.%d.Key", i)] != ""; i++ {
				tk, tv := form[fmt.Sprintf("Tag.%d.Key", i)], form[fmt.Sprintf("Tag.%d.Value", i)]
				if !((tk == "creator" && tv == "terway") || (tk == "verif-owner" && tv == "me" && x.tagged)) {
					match = false
				}
			}
			if !match {
				continue
			}
			if x.st == "Attaching" { // one more observation of an attachment in progress
				if x.alag <= 0 {
					f.attachDone(x)
				} else {
					x.alag--
				}
			}
			sel = append(sel, eniJSON(x, true))
		}
		return fmt.Sprintf(`{"RequestId":"req-verif","TotalCount":%d,"PageSize":500,"NextToken":"","NetworkInterfaceSets":{"NetworkInterfaceSet":[%s]}}`, len(sel), strings.Join(sel, ",")), ""

	case "AssignPrivateIpAddresses", "AssignIpv6Addresses":
		fam := 4
		if act == "AssignIpv6Addresses" {
			fam = 6
		}
		render := func(id int, l []int) string {
			if fam == 4 {
				return fmt.Sprintf(`{"RequestId":"req-verif","AssignedPrivateIpAddressesSet":{"NetworkInterfaceId":%q,"PrivateIpSet":{"PrivateIpAddress":[%s]}}}`, fxEniID(id), strs4(f.vswOf(id), l))
			}
			return fmt.Sprintf(`{"RequestId":"req-verif","NetworkInterfaceId":%q,"Ipv6Sets":{"Ipv6Address":[%s]}}`, fxEniID(id), strs6(f.vswOf(id), l))
		}
		if m := f.memo[tokStr]; m != nil && m.act == act {
			ev[fmt.Sprintf("r%d", fam)] = append([]int{}, m.addrs...)
			return render(m.e, m.addrs), ""
		}
		if e == nil {
			return "", "InvalidEniId.NotFound"
		}
		n := vt.Int(ev["n4"]) + vt.Int(ev["n6"])
		if strings.HasPrefix(out, "partial:") { // the cloud grants fewer addresses than asked for
			p, _ := strconv.Atoi(out[8:])
			if p < n {
				n = p
			}
		}
		if fam == 4 {
			if f.free[e.vsw] < n {
				return "", "InvalidVSwitchId.IpNotEnough"
			}
			f.free[e.vsw] -= n
		}
		l := f.fresh(fam, n)
		for _, a := range l {
			if fam == 4 {
				e.v4[a] = true
			} else {
				e.v6[a] = true
			}
		}
		if tokStr != "" {
			f.memo[tokStr] = &fxMemo{act: act, e: e.id, addrs: l}
		}
		if e.inst == 1 && len(l) > 0 {
			f.touch(e.id, slot)
		}
		ev["eff"] = len(l) > 0
		ev[fmt.Sprintf("r%d", fam)] = l
		return render(e.id, l), ""

	case "UnassignPrivateIpAddresses", "UnassignIpv6Addresses":
		if e == nil {
			return "", "InvalidEniId.NotFound"
		}
		set := e.v4
		if act == "UnassignIpv6Addresses" {
			set = e.v6
		}
		gone := []int{}
		for _, a := range ev["addrs"].([]int) {
			if set[a] && !(act == "UnassignPrivateIpAddresses" && a == e.primary) {
				gone = append(gone, a)
			}
		}
		if len(gone) == 0 {
			return "", "InvalidIp.IpUnassigned"
		}
		for _, a := range gone {
			delete(set, a)
		}
		if act == "UnassignPrivateIpAddresses" { // (address ids of the two families are separate number spaces)
			f.forgetFam(e.id, gone, "AssignPrivateIpAddresses")
		} else {
			f.forgetFam(e.id, gone, "AssignIpv6Addresses")
		}
		if act == "UnassignPrivateIpAddresses" {
			f.free[e.vsw] += len(gone)
			ev["r4"] = gone
		} else {
			ev["r6"] = gone
		}
		ev["eff"] = true
		if e.inst == 1 {
			f.touch(e.id, slot)
		}
		return `{"RequestId":"req-verif"}`, ""

	case "DetachNetworkInterface":
		if e == nil {
			return "", "InvalidEniId.NotFound"
		}
		if e.inst == 0 || e.st == "Detaching" || e.inst != f.instOf(form["InstanceId"]) { // nothing to do (lenient cloud, see Factory.tla)
			return `{"RequestId":"req-verif"}`, ""
		}
		e.st, e.dlag = "Detaching", f.lag[slot].d
		ev["eff"] = true
		if e.dlag <= 0 {
			f.post = append(f.post, func() { f.detachDone(e, slot) })
		}
		return `{"RequestId":"req-verif"}`, ""

	case "DeleteNetworkInterface":
		if e == nil { // deleting what does not exist succeeds (lenient cloud, see Factory.tla)
			f.forget(k, nil, true)
			return `{"RequestId":"req-verif"}`, ""
		}
		if e.st == "Detaching" {
			if e.dlag <= 0 {
				f.detachDone(e, slot)
			} else {
				e.dlag--
			}
		}
		if e.st != "Available" {
			return "", "InvalidOperation.InvalidEniState"
		}
		f.free[e.vsw] += len(e.v4)
		delete(f.enis, e.id)
		f.forget(e.id, nil, true)
		f.touch(e.id, slot)
		ev["eff"] = true
		return `{"RequestId":"req-verif"}`, ""
	}
	return `{"RequestId":"req-verif"}`, ""
}

// the cloud forgets the remembered answer of a ClientToken once that answer is no longer true
func (f *fxCloud) forget(e int, addrs []int, whole bool) {
	for t, m := range f.memo {
		if m.e != e {
			continue
		}
		hit := whole
		for _, a := range addrs {
			for _, b := range m.addrs {
				hit = hit || a == b
			}
		}
		if hit {
			delete(f.memo, t)
		}
	}
}

func (f *fxCloud) forgetFam(e int, addrs []int, act string) {
	for t, m := range f.memo {
		if m.e != e || m.act != act {
			continue
		}
		for _, a := range addrs {
			for _, b := range m.addrs {
				if a == b {
					delete(f.memo, t)
				}
			}
		}
	}
}

func (f *fxCloud) vswOf(id int) int {
	if e := f.enis[id]; e != nil {
		return e.vsw
	}
	return 1
}

// ---------------------------------------------------------------------------------------------- fake metadata endpoint

type fxMetaTransport struct{ f *fxCloud }

func (t *fxMetaTransport) RoundTrip(req *http.Request) (*http.Response, error) {
	f := t.f
	f.mu.Lock()
	defer f.mu.Unlock()
	p := req.URL.Path
	if len(f.mplan) > 0 && p != "/latest/api/token" { // injected failure of the metadata service itself (never a 404: that has a meaning)
		o := f.mplan[0]
		f.mplan = f.mplan[1:]
		switch o {
		case "e500":
			return httpResp(req, 500, "verif: metadata service error"), nil
		case "lost":
			return nil, errLost
		}
	}
	text := func(s string) (*http.Response, error) {
		r := httpResp(req, 200, s)
		r.Header.Set("Content-Type", "text/plain")
		return r, nil
	}
	notFound := func() (*http.Response, error) { return httpResp(req, 404, "not found"), nil }
	if p == "/latest/api/token" {
		return text("verif-metadata-token")
	}
	if !strings.HasPrefix(p, "/latest/meta-data/") {
		return notFound()
	}
	p = strings.TrimPrefix(p, "/latest/meta-data/")
	switch strings.TrimSuffix(p, "/") {
	case "mac":
		return text(fxMac(fxPrimary))
	case "instance-id":
		return text(fxThis)
	case "region-id":
		return text("cn-verif")
	case "zone-id":
		return text("z1")
	case "vswitch-id":
		return text(fxVsw(1))
	case "vpc-id":
		return text("vpc-1")
	case "instance/instance-type":
		return text("ecs.verif.large")
	case "network/interfaces/macs":
		f.metaObserve(0)
		var ids []int
		for k, m := range f.meta {
			if m.on {
				ids = append(ids, k)
			}
		}
		sort.Ints(ids)
		var l []string
		for _, k := range ids {
			l = append(l, fxMac(k)+"/")
		}
		return text(strings.Join(l, "\n"))
	}
	if rest, ok := strings.CutPrefix(p, "network/interfaces/macs/"); ok {
		parts := strings.SplitN(strings.TrimSuffix(rest, "/"), "/", 2)
		k := fxParseMac(parts[0])
		if k > 0 {
			f.metaObserve(k)
		}
		m := f.meta[k]
		if len(parts) != 2 || k <= 0 || m == nil || !m.on {
			return notFound()
		}
		v := f.metaVsw[k]
		switch parts[1] {
		case "network-interface-id":
			return text(fxEniID(k))
		case "primary-ip-address":
			return text(fxA4(v, m.v4[0]))
		case "gateway":
			return text(fxGw4(v))
		case "ipv6-gateway":
			if !f.v6on {
				return notFound()
			}
			return text(fxGw6(v))
		case "vswitch-id":
			return text(fxVsw(v))
		case "vswitch-cidr-block":
			return text(fxCidr4(v))
		case "vswitch-ipv6-cidr-block":
			if !f.v6on {
				return notFound()
			}
			return text(fxCidr6(v))
		case "private-ipv4s":
			return text("[" + strs4(v, m.v4) + "]")
		case "ipv6s":
			if len(m.v6) == 0 {
				return notFound()
			}
			var l []string
			for _, a := range m.v6 {
				l = append(l, fxA6(v, a))
			}
			return text("[" + strings.Join(l, ", ") + "]")
		}
	}
	return notFound()
}

// ---------------------------------------------------------------------------------------------- system under test

type fxClientSet struct {
	e *ecs.Client
	v *vpc.Client
}

func (c *fxClientSet) ECS() *ecs.Client   { return c.e }
func (c *fxClientSet) VPC() *vpc.Client   { return c.v }
func (c *fxClientSet) EFLO() *eflo.Client { return nil }

type fxConf struct {
	v4, v6    bool
	policy    string // random | most
	tagFilter bool
	trunk     bool // trunk feature enabled in the daemon configuration
	erdma     bool
	slots     int
}

type fxSys struct {
	t     *testing.T
	w     *vt.Writer
	cloud *fxCloud
	conf  fxConf
	fac   map[int]factory.Factory
	done  map[int]chan struct{}
	// what a realistic caller (the pool) would not do concurrently: guarded by cloud.mu
	busy  map[int]fxBusy  // slot -> the call in flight
	known map[[3]int]bool // (interface, family, address) the caller was told about: there from the start or reported by a return
}

type fxBusy struct {
	kind string
	e    int
}

func newFxAPI(t *testing.T, f *fxCloud, slot int, share *client.OpenAPI) *client.OpenAPI {
	tr := &fxTransport{f: f, slot: slot}
	e, err := ecs.NewClientWithAccessKey("cn-verif", "ak", "sk")
	if err != nil {
		t.Fatal(err)
	}
	e.SetTransport(tr)
	e.Domain = "ecs.verif.local"
	v, err := vpc.NewClientWithAccessKey("cn-verif", "ak", "sk")
	if err != nil {
		t.Fatal(err)
	}
	v.SetTransport(tr)
	v.Domain = "vpc.verif.local"
	api, err := client.New(&fxClientSet{e: e, v: v}, client.LimitConfig{})
	if err != nil {
		t.Fatal(err)
	}
	if share != nil { // one idempotency-key generator and one set of rate limiters per daemon
		api.IdempotentKeyGen = share.IdempotentKeyGen
		api.RateLimiter = share.RateLimiter
	}
	return api
}

func newFxSys(t *testing.T, w *vt.Writer, c fxConf, pre []vt.M, vsws []vt.M) *fxSys {
	f := newFxCloud(w)
	f.v6on = c.v6
	s := &fxSys{t: t, w: w, cloud: f, conf: c, fac: map[int]factory.Factory{}, done: map[int]chan struct{}{}, busy: map[int]fxBusy{}, known: map[[3]int]bool{}}
	for _, v := range vsws {
		f.free[vt.Int(v["v"])] = vt.Int(v["free"])
		f.zone[vt.Int(v["v"])] = "z1"
	}
	// the instance's primary interface and whatever the scenario pre-attaches
	pe := &fxEni{id: fxPrimary, st: "InUse", inst: 1, typ: client.ENITypePrimary, vsw: 1, v4: map[int]bool{}, v6: map[int]bool{}}
	pe.primary = f.fresh(4, 1)[0]
	pe.v4[pe.primary] = true
	f.enis[fxPrimary] = pe
	f.usedEni[fxPrimary] = true
	for _, p := range pre {
		id := f.newEniID()
		e := &fxEni{id: id, st: "InUse", inst: vt.Int(p["inst"]), typ: vt.Str(p["type"]), rdma: vt.Bool(p["rdma"]), vsw: vt.Int(p["vsw"]),
			v4: map[int]bool{}, v6: map[int]bool{}, tagged: vt.Bool(p["tagged"])}
		if e.inst == 0 {
			e.st = "Available"
		}
		for i, a := range f.fresh(4, vt.Int(p["n4"])) {
			if i == 0 {
				e.primary = a
			}
			e.v4[a] = true
		}
		if c.v6 {
			for _, a := range f.fresh(6, vt.Int(p["n6"])) {
				e.v6[a] = true
			}
		}
		f.free[e.vsw] -= len(e.v4)
		f.enis[id] = e
		f.usedEni[id] = true
	}
	for k, e := range f.enis {
		f.meta[k] = f.viewOf(e)
		f.metaVsw[k] = e.vsw
		for a := range e.v4 {
			s.known[[3]int{k, 4, a}] = true
		}
		for a := range e.v6 {
			s.known[[3]int{k, 6, a}] = true
		}
	}
	if c.tagFilter {
		f.filterK, f.filterV = "verif-owner", "me"
	}
	metadata.VerifSetTransport(&fxMetaTransport{f: f})
	instance.Init(&instance.ECS{})
	pool, err := vswpool.NewSwitchPool(100, "100000h") // no expiry inside a scenario: 'blocked' stays blocked
	if err != nil {
		t.Fatal(err)
	}
	cfg := &daemon.ENIConfig{ZoneID: "z1", SecurityGroupIDs: []string{"sg-1"}, InstanceID: fxThis, EnableIPv4: c.v4, EnableIPv6: c.v6,
		ENITags: map[string]string{"creator": "terway"}, VSwitchSelectionPolicy: vswpool.VSwitchSelectionPolicyRandom}
	for _, v := range vsws {
		cfg.VSwitchOptions = append(cfg.VSwitchOptions, fxVsw(vt.Int(v["v"])))
	}
	if c.policy == "most" {
		cfg.VSwitchSelectionPolicy = vswpool.VSwitchSelectionPolicyMost
	}
	if c.tagFilter {
		cfg.ENITags["verif-owner"] = "me"
		cfg.TagFilter = map[string]string{"verif-owner": "me"}
	}
	if c.trunk {
		daemon.EnableFeature(&cfg.EniTypeAttr, daemon.FeatTrunk)
	}
	if c.erdma {
		daemon.EnableFeature(&cfg.EniTypeAttr, daemon.FeatERDMA)
	}
	var first *client.OpenAPI
	for slot := 1; slot <= c.slots; slot++ {
		api := newFxAPI(t, f, slot, first)
		if first == nil {
			first = api
		}
		s.fac[slot] = NewAliyun(context.Background(), api, eni.NewENIMetadata(c.v4, c.v6), pool, cfg)
	}
	cl, me, fr := f.snapshot()
	w.Emit(vt.M{"ev": "reset", "conf": vt.M{"v4": c.v4, "v6": c.v6, "tagf": c.tagFilter, "trunk": c.trunk, "erdma": c.erdma, "slots": c.slots},
		"cloud": cl, "meta": me, "free": fr, "fake_time": fxFakeTime})
	return s
}

// ---------------------------------------------------------------------------------------------- driver

// rank-th existing interface (ascending id, the primary one excluded); 0 if there is none
func (s *fxSys) eniByRank(rank int) int {
	s.cloud.mu.Lock()
	defer s.cloud.mu.Unlock()
	var ids []int
	for k := range s.cloud.enis {
		if k != fxPrimary && !s.cloud.creating[k] {
			ids = append(ids, k)
		}
	}
	sort.Ints(ids)
	if len(ids) == 0 {
		return 0
	}
	return ids[rank%len(ids)]
}

func eniRec(e *daemon.ENI) vt.M {
	if e == nil {
		return vt.M{"e": 0, "mac": 0, "trunk": false, "erdma": false, "primary": 0, "vsw": 0, "cidr4": 0, "cidr6": 0, "gw4": 0, "gw6": 0}
	}
	return vt.M{"e": fxParseEni(e.ID), "mac": fxParseMac(e.MAC), "trunk": e.Trunk, "erdma": e.ERdma, "primary": fxIPInt(e.PrimaryIP.IPv4),
		"vsw": fxParseVsw(e.VSwitchID), "cidr4": fxCidrVsw(e.VSwitchCIDR.IPv4, 4), "cidr6": fxCidrVsw(e.VSwitchCIDR.IPv6, 6),
		"gw4": fxGwVsw(e.GatewayIP.IPv4, 4), "gw6": fxGwVsw(e.GatewayIP.IPv6, 6)}
}

func lagOf(st vt.M, k string) int {
	v, ok := st[k]
	if !ok {
		return 0
	}
	if s, ok := v.(string); ok && s == "never" {
		return fxNever
	}
	if n := vt.Int(v); n < fxNever {
		return n
	}
	return fxNever
}

// call runs one factory call of the scenario in driver slot c (synchronously unless the step says async).
func (s *fxSys) call(st vt.M) {
	c := vt.Int(st["c"])
	if c == 0 {
		c = 1
	}
	fac := s.fac[c]
	if fac == nil || s.done[c] != nil {
		return
	}
	f := s.cloud
	kind := vt.Str(st["k"])
	e := 0
	if kind != "create" && kind != "attached" {
		e = s.eniByRank(vt.Int(st["ei"]))
		if g := vt.Int(st["ghost"]); g > 0 { // an interface id the cloud does not have (any more)
			e = 20 + g
		}
		if e == 0 {
			return
		}
	}
	fam := vt.Int(st["fam"])
	if fam == 0 {
		fam = 4
	}
	// addresses named by an unassign step: indexes into the interface's current secondary addresses (+ optional stale one)
	var addrs []int
	var naddrs []netip.Addr
	vsw := 1
	f.mu.Lock()
	if x := f.enis[e]; x != nil {
		vsw = x.vsw
		if kind == "unassign" {
			var sec []int // the caller only names addresses it was told about
			if fam == 4 {
				for _, a := range sortedKeys(x.v4) {
					if a != x.primary && s.known[[3]int{e, 4, a}] {
						sec = append(sec, a)
					}
				}
			} else {
				for _, a := range sortedKeys(x.v6) {
					if s.known[[3]int{e, 6, a}] {
						sec = append(sec, a)
					}
				}
			}
			seen := map[int]bool{}
			for _, i := range vt.List(st["idx"]) {
				if len(sec) > 0 && !seen[sec[vt.Int(i)%len(sec)]] {
					addrs = append(addrs, sec[vt.Int(i)%len(sec)])
					seen[sec[vt.Int(i)%len(sec)]] = true
				}
			}
		}
	}
	if kind == "unassign" {
		if g := vt.Int(st["stale"]); g > 0 { // an address that is not (no longer) assigned
			addrs = append(addrs, 200+g)
		}
		for _, a := range addrs {
			if fam == 4 {
				naddrs = append(naddrs, netip.MustParseAddr(fxA4(vsw, a)))
			} else {
				naddrs = append(naddrs, netip.MustParseAddr(fxA6(vsw, a)))
			}
		}
	}
	// the pool works on one interface from two workers at most (allocation and disposal) and never touches an
	// interface that is being created or deleted by another worker
	for oc, b := range s.busy {
		if oc != c && e != 0 && b.e == e && (b.kind == "delete" || kind == "delete") {
			f.mu.Unlock()
			return
		}
	}
	// install the fault plan and the lags of this call
	plan := map[string][]string{}
	for act, l := range vt.Map(st["plan"]) {
		for _, o := range vt.List(l) {
			plan[act] = append(plan[act], vt.Str(o))
		}
	}
	f.plan[c] = plan
	f.mplan = plan["meta"]
	f.lag[c] = fxLag{m: lagOf(st, "mlag"), a: lagOf(st, "alag"), d: lagOf(st, "dlag")}
	if kind == "unassign" && len(addrs) == 0 {
		f.mu.Unlock()
		return
	}
	s.busy[c] = fxBusy{kind: kind, e: e}
	f.mu.Unlock()
	n4, n6 := vt.Int(st["n4"]), vt.Int(st["n6"])
	typ := vt.Str(st["type"])
	trunkID := 0
	if kind == "attached" && vt.Int(st["trunk"]) > 0 {
		trunkID = s.eniByRank(vt.Int(st["trunk"]) - 1)
	}
	if addrs == nil {
		addrs = []int{}
	}
	args := fxArgs{kind: kind, e: e, fam: fam, n4: n4, n6: n6, typ: typ, addrs: addrs, naddrs: naddrs, trunkID: trunkID}
	run := func() { s.invoke(c, args) }
	if vt.Bool(st["async"]) {
		ch := make(chan struct{})
		s.done[c] = ch
		go func() { defer close(ch); run() }()
		return
	}
	run()
}

type fxArgs struct {
	kind    string
	e, fam  int
	n4, n6  int
	typ     string
	addrs   []int
	naddrs  []netip.Addr
	trunkID int
}

type fxResult struct {
	eni    *daemon.ENI
	v4, v6 []netip.Addr
	enis   []*daemon.ENI
	err    error
}

// invoke performs one factory call in driver slot c on the real factory and records call and return.
func (s *fxSys) invoke(c int, a fxArgs) fxResult {
	f, fac := s.cloud, s.fac[c]
	kind, e, fam, n4, n6, typ, addrs, naddrs, trunkID := a.kind, a.e, a.fam, a.n4, a.n6, a.typ, a.addrs, a.naddrs, a.trunkID
	var res fxResult
	s.w.Emit(vt.M{"ev": "call", "c": c, "k": kind, "e": e, "fam": fam, "n4": n4, "n6": n6, "type": typ, "addrs": addrs, "trunk": trunkID})
	ret := vt.M{"ev": "ret", "c": c, "k": kind, "err": false, "msg": "", "eni": eniRec(nil), "v4": []int{}, "v6": []int{}, "enis": []vt.M{}}
	var err error
	switch kind {
	case "create":
		var r *daemon.ENI
		var v4, v6 []netip.Addr
		r, v4, v6, err = fac.CreateNetworkInterface(n4, n6, typ)
		ret["eni"], ret["v4"], ret["v6"] = eniRec(r), fxAddrInts(v4), fxAddrInts(v6)
		res.eni, res.v4, res.v6 = r, v4, v6
	case "assign":
		var l []netip.Addr
		if fam == 4 {
			l, err = fac.AssignNIPv4(fxEniID(e), n4, fxMac(e))
			ret["v4"], res.v4 = fxAddrInts(l), l
		} else {
			l, err = fac.AssignNIPv6(fxEniID(e), n6, fxMac(e))
			ret["v6"], res.v6 = fxAddrInts(l), l
		}
	case "unassign":
		if fam == 4 {
			err = fac.UnAssignNIPv4(fxEniID(e), naddrs, fxMac(e))
		} else {
			err = fac.UnAssignNIPv6(fxEniID(e), naddrs, fxMac(e))
		}
	case "delete":
		err = fac.DeleteNetworkInterface(fxEniID(e))
	case "load":
		var v4, v6 []netip.Addr
		v4, v6, err = fac.LoadNetworkInterface(fxMac(e))
		ret["v4"], ret["v6"] = fxAddrInts(v4), fxAddrInts(v6)
		res.v4, res.v6 = v4, v6
	case "attached":
		var l []*daemon.ENI
		id := ""
		if trunkID > 0 {
			id = fxEniID(trunkID)
		}
		l, err = fac.GetAttachedNetworkInterface(id)
		recs := []vt.M{}
		for _, x := range l {
			recs = append(recs, eniRec(x))
		}
		ret["enis"], res.enis = recs, l
	}
	res.err = err
	if err != nil {
		ret["err"] = true
		m := err.Error()
		if len(m) > 160 {
			m = m[:160]
		}
		ret["msg"] = m
	}
	f.mu.Lock() // the return is ordered against the cloud's own events
	f.plan[c] = nil
	f.mplan = nil
	delete(s.busy, c)
	for _, id := range f.madeBy[c] {
		delete(f.creating, id)
	}
	delete(f.madeBy, c)
	rec := ret["eni"].(vt.M)
	for _, a := range ret["v4"].([]int) {
		s.known[[3]int{map[bool]int{true: vt.Int(rec["e"]), false: e}[kind == "create"], 4, a}] = true
	}
	for _, a := range ret["v6"].([]int) {
		s.known[[3]int{map[bool]int{true: vt.Int(rec["e"]), false: e}[kind == "create"], 6, a}] = true
	}
	s.w.Emit(ret)
	f.mu.Unlock()
	return res
}

func (s *fxSys) wait(c int) {
	if ch := s.done[c]; ch != nil {
		select {
		case <-ch:
		case <-time.After(30 * time.Minute): // virtual under synctest; a real hang is caught by -test.timeout
			s.t.Fatalf("factory call in slot %d did not return", c)
		}
		s.done[c] = nil
	}
}

func (s *fxSys) step(st vt.M) {
	switch vt.Str(st["a"]) {
	case "call":
		s.call(st)
	case "wait":
		s.wait(vt.Int(st["c"]))
	case "settle":
		s.cloud.settle()
	case "remove": // an address disappears on the cloud side (drift); the metadata follows at the next settle / observation
		e := s.eniByRank(vt.Int(st["ei"]))
		f := s.cloud
		f.mu.Lock()
		if x := f.enis[e]; x != nil {
			fam := vt.Int(st["fam"])
			set := x.v4
			if fam == 6 {
				set = x.v6
			}
			var sec []int
			for _, a := range sortedKeys(set) {
				if !(fam != 6 && a == x.primary) {
					sec = append(sec, a)
				}
			}
			if len(sec) > 0 {
				a := sec[vt.Int(st["idx"])%len(sec)]
				delete(set, a)
				if fam == 6 {
					f.forgetFam(e, []int{a}, "AssignIpv6Addresses")
				} else {
					f.forgetFam(e, []int{a}, "AssignPrivateIpAddresses")
				}
				if fam != 6 {
					f.free[x.vsw]++
					fam = 4
				}
				f.lag[0] = fxLag{m: lagOf(st, "mlag")}
				if x.inst == 1 {
					f.touch(e, 0)
				}
				f.w.Emit(vt.M{"ev": "env", "k": "remote_remove", "e": e, "on": false, "v4": []int{}, "v6": []int{}, "fam": fam, "a": a})
			}
		}
		f.mu.Unlock()
	}
}

func (s *fxSys) finish() {
	for c := range s.fac {
		s.wait(c)
	}
	s.cloud.settle()
	s.cloud.mu.Lock()
	cl, me, fr := s.cloud.snapshot()
	s.w.Emit(vt.M{"ev": "final", "cloud": cl, "meta": me, "free": fr})
	s.cloud.mu.Unlock()
}

func confOf(m vt.M) (fxConf, []vt.M, []vt.M) {
	c := fxConf{v4: true, v6: vt.Bool(m["v6"]), policy: vt.Str(m["policy"]), tagFilter: vt.Bool(m["tagf"]), trunk: vt.Bool(m["trunk"]),
		erdma: vt.Bool(m["erdma"]), slots: vt.Int(m["slots"])}
	if c.slots < 1 {
		c.slots = 1
	}
	var pre, vsws []vt.M
	for _, p := range vt.List(m["pre"]) {
		pre = append(pre, vt.Map(p))
	}
	for _, v := range vt.List(m["vsws"]) {
		vsws = append(vsws, vt.Map(v))
	}
	if len(vsws) == 0 {
		vsws = []vt.M{{"v": 1, "free": 50}, {"v": 2, "free": 50}}
	}
	return c, pre, vsws
}

func readFxScenarios(t *testing.T) [][]vt.M {
	var scens [][]vt.M
	f := os.Getenv("VERIF_SCEN")
	if f == "" {
		return nil
	}
	b, err := os.ReadFile(f)
	if err != nil {
		t.Fatal(err)
	}
	for _, line := range strings.Split(string(b), "\n") {
		if strings.TrimSpace(line) == "" {
			continue
		}
		wrapped, err := vt.ReadNDJSONString(`{"s":` + line + `}`)
		if err != nil {
			t.Fatal(err)
		}
		var sc []vt.M
		for _, st := range vt.List(wrapped[0]["s"]) {
			sc = append(sc, vt.Map(st))
		}
		scens = append(scens, sc)
	}
	return scens
}

func fxSilence() {
	logf.SetLogger(logr.Discard())
	klog.SetLogger(logr.Discard())
	klog.LogToStderr(false)
}

func runFxScenario(t *testing.T, w *vt.Writer, si int, sc []vt.M) {
	if len(sc) == 0 || vt.Str(sc[0]["a"]) != "conf" {
		return
	}
	fxRunClocked(func() {
		c, pre, vsws := confOf(vt.Map(sc[0]["conf"]))
		sys := newFxSys(t, w, c, pre, vsws)
		sys.cloud.dump = os.Getenv("VERIF_DUMP_HTTP") != ""
		for _, st := range sc[1:] {
			sys.step(st)
		}
		sys.finish()
	})
}

// TestVerifFactory runs the scenarios of VERIF_SCEN (one JSON array per line: TLC simulation of Factory_mc.tla and
// the directed / random ones written by props/factory.py). VERIF_SHARD=k/n takes every n-th scenario.
func TestVerifFactory(t *testing.T) {
	fxSilence()
	w, err := vt.NewWriter(vt.Env("VERIF_TRACE", ""))
	if err != nil {
		t.Fatal(err)
	}
	defer w.Close()
	if !fxFakeTime { // real time: shrink the production back-off tables (the constants in aliyun.go are paid)
		ms := func(n int) wait.Backoff { return wait.Backoff{Duration: 5 * time.Millisecond, Factor: 1, Steps: n} }
		backoff.OverrideBackoff(map[string]wait.Backoff{backoff.ENICreate: ms(2), backoff.ENIOps: ms(6), backoff.ENIIPOps: ms(6)})
	}
	scens := readFxScenarios(t)
	shard, nshard := 0, 1
	fmt.Sscanf(vt.Env("VERIF_SHARD", "0/1"), "%d/%d", &shard, &nshard)
	for si, sc := range scens {
		if si%nshard != shard {
			continue
		}
		runFxScenario(t, w, si, sc)
	}
}
