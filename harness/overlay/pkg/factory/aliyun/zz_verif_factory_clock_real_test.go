//go:build verif && !goexperiment.synctest

package aliyun

// Real clock (no GOEXPERIMENT=synctest): the hard-coded waits of aliyun.go are paid.
const fxFakeTime = false

func fxRunClocked(f func()) { f() }
