//go:build verif && goexperiment.synctest

package aliyun

import "testing/synctest"

// Virtual clock: every scenario runs in its own synctest bubble. time.Sleep, timers, context deadlines and
// time.Now of the unmodified factory / client / metadata code advance only when every goroutine of the bubble
// is blocked, so the hard-coded waits (1 s poll, 10 s time-out, 2 s and 5 s sleeps, production back-off) cost nothing.
const fxFakeTime = true

func fxRunClocked(f func()) { synctest.Run(f) }
