//go:build verif

package vswitch

import (
	"context"
	"errors"
	"os"
	"strings"
	"sync"
	"testing"
	"time"

	"github.com/aliyun/alibaba-cloud-sdk-go/services/vpc"
	"k8s.io/apimachinery/pkg/util/cache"

	"github.com/AliyunContainerService/terway/zzverif/vt"
)

type vClock struct {
	mu sync.Mutex
	t  time.Time
}

func (c *vClock) Now() time.Time {
	c.mu.Lock()
	defer c.mu.Unlock()
	return c.t
}
func (c *vClock) Advance(d time.Duration) {
	c.mu.Lock()
	c.t = c.t.Add(d)
	c.mu.Unlock()
}

type vCloudEntry struct {
	zone string
	free int
}

// fake VPC: the cloud's answer for every vSwitch; records which ids were described
type vVPC struct {
	mu        sync.Mutex
	state     map[string]vCloudEntry
	described []string
	delay     time.Duration // latency of a lookup: lets concurrent callers find a lookup of the same vSwitch in flight
}

func (f *vVPC) DescribeVSwitchByID(ctx context.Context, id string) (*vpc.VSwitch, error) {
	if f.delay > 0 {
		time.Sleep(f.delay)
	}
	f.mu.Lock()
	defer f.mu.Unlock()
	e, ok := f.state[id]
	if !ok || e.free < 0 {
		return nil, errors.New("verif: InvalidVSwitchId.NotFound")
	}
	f.described = append(f.described, id)
	return &vpc.VSwitch{VSwitchId: id, ZoneId: e.zone, AvailableIpAddressCount: int64(e.free), CidrBlock: "10.0.0.0/24"}, nil
}

func (f *vVPC) take() []string {
	f.mu.Lock()
	defer f.mu.Unlock()
	d := f.described
	f.described = nil
	if d == nil {
		d = []string{}
	}
	return d
}

func strs(v any) []string {
	r := []string{}
	for _, x := range vt.List(v) {
		r = append(r, vt.Str(x))
	}
	return r
}

func cloudOf(m vt.M) map[string]vCloudEntry {
	r := map[string]vCloudEntry{}
	for id, v := range m {
		e := vt.Map(v)
		r[id] = vCloudEntry{zone: vt.Str(e["zone"]), free: vt.Int(e["free"])}
	}
	return r
}

func cloudJSON(c map[string]vCloudEntry) vt.M {
	r := vt.M{}
	for id, e := range c {
		r[id] = vt.M{"zone": e.zone, "free": e.free}
	}
	return r
}

func getOne(p *SwitchPool, f *vVPC, zone string, ids []string, pol string, ign bool) (string, []string) {
	opt := &SelectOptions{IgnoreZone: ign, VSwitchSelectPolicy: SelectionPolicy(pol)}
	sw, err := p.GetOne(context.Background(), f, zone, ids, opt)
	res := "none"
	if err == nil && sw != nil {
		res = sw.ID
	}
	return res, ids
}

func readScenarios(t *testing.T) [][]vt.M {
	var scens [][]vt.M
	f := os.Getenv("VERIF_SCEN")
	if f == "" {
		return nil
	}
	b, err := os.ReadFile(f)
	if err != nil {
		t.Fatal(err)
	}
	for _, line := range strings.Split(string(b), "\n") {
		if strings.TrimSpace(line) == "" {
			continue
		}
		wrapped, err := vt.ReadNDJSONString(`{"s":` + line + `}`)
		if err != nil {
			t.Fatal(err)
		}
		var sc []vt.M
		for _, st := range vt.List(wrapped[0]["s"]) {
			sc = append(sc, vt.Map(st))
		}
		scens = append(scens, sc)
	}
	return scens
}

var vIDs = []string{"v1", "v2", "v3", "v4"}

// TestVerifVSwitchSeq replays TLC-generated and seeded random scenarios on a real SwitchPool whose expiring cache
// runs on a fake clock (one tick = TTL/2), and logs everything observable about each call.
func TestVerifVSwitchSeq(t *testing.T) {
	w, err := vt.NewWriter(vt.Env("VERIF_TRACE", ""))
	if err != nil {
		t.Fatal(err)
	}
	defer w.Close()
	scens := readScenarios(t)
	rng := vt.Rand(17)
	zones := []string{"a", "b"}
	frees := []int{0, 1, 5, -1}
	pols := []string{"ordered", "random", "most", ""}
	for k := 0; k < vt.EnvInt("VERIF_RANDOM", 30); k++ {
		cl := vt.M{}
		for _, id := range vIDs {
			cl[id] = vt.M{"zone": zones[rng.Intn(2)], "free": frees[rng.Intn(4)]}
		}
		sc := []vt.M{{"a": "cloud", "cloud": cl}}
		for i := 0; i < 25; i++ {
			switch x := rng.Intn(10); {
			case x < 5:
				n := rng.Intn(5)
				ids := []any{}
				for j := 0; j < n; j++ {
					ids = append(ids, vIDs[rng.Intn(4)])
				}
				sc = append(sc, vt.M{"a": "getone", "zone": zones[rng.Intn(2)], "ids": ids, "pol": pols[rng.Intn(4)], "ign": rng.Intn(2) == 0})
			case x < 7:
				sc = append(sc, vt.M{"a": "block", "id": vIDs[rng.Intn(4)]})
			case x < 9:
				sc = append(sc, vt.M{"a": "tick"})
			default:
				sc = append(sc, vt.M{"a": "cloudset", "id": vIDs[rng.Intn(4)], "zone": zones[rng.Intn(2)], "free": frees[rng.Intn(4)]})
			}
		}
		scens = append(scens, sc)
	}
	const ttl = 10 * time.Minute // TTL = 2 ticks
	for si, sc := range scens {
		if len(sc) == 0 || vt.Str(sc[0]["a"]) != "cloud" {
			continue
		}
		clk := &vClock{t: time.Unix(1700000000, 0)}
		pool, err := NewSwitchPool(100, "10m")
		if err != nil {
			t.Fatal(err)
		}
		pool.cache = cache.NewLRUExpireCacheWithClock(100, clk)
		f := &vVPC{state: cloudOf(vt.Map(sc[0]["cloud"]))}
		for _, id := range vIDs {
			if _, ok := f.state[id]; !ok {
				f.state[id] = vCloudEntry{free: -1}
			}
		}
		w.Emit(vt.M{"ev": "reset", "scen": si, "cloud": cloudJSON(f.state)})
		ticks := 0
		for _, st := range sc[1:] {
			switch vt.Str(st["a"]) {
			case "getone":
				ids := strs(st["ids"])
				orig := append([]string{}, ids...)
				var res string
				var after []string
				p := vt.Catch(func() { res, after = getOne(pool, f, vt.Str(st["zone"]), ids, vt.Str(st["pol"]), vt.Bool(st["ign"])) })
				if p != "" {
					res, after = "panic", []string{}
				}
				w.Emit(vt.M{"ev": "getone", "zone": st["zone"], "ids": orig, "pol": st["pol"], "ign": vt.Bool(st["ign"]),
					"res": res, "after": after, "described": f.take()})
			case "block":
				pool.Block(vt.Str(st["id"]))
				w.Emit(vt.M{"ev": "block", "id": st["id"]})
			case "tick":
				if ticks >= 6 {
					continue
				}
				ticks++
				clk.Advance(ttl / 2)
				w.Emit(vt.M{"ev": "tick"})
			case "cloudset":
				f.mu.Lock()
				f.state[vt.Str(st["id"])] = vCloudEntry{zone: vt.Str(st["zone"]), free: vt.Int(st["free"])}
				f.mu.Unlock()
				w.Emit(vt.M{"ev": "cloudset", "id": st["id"], "zone": st["zone"], "free": vt.Int(st["free"])})
			}
		}
	}
}

// TestVerifVSwitchConc: goroutines call GetOne / Block on one real SwitchPool (real clock, long TTL, static cloud),
// some of them passing one shared candidate slice as the daemon's ENI factory does.
func TestVerifVSwitchConc(t *testing.T) {
	w, err := vt.NewWriter(vt.Env("VERIF_TRACE", ""))
	if err != nil {
		t.Fatal(err)
	}
	defer w.Close()
	zones := []string{"a", "b"}
	pols := []string{"ordered", "random", "most"}
	ncall := vt.EnvInt("VERIF_CALLERS", 3)
	for r := 0; r < vt.EnvInt("VERIF_ROUNDS", 40); r++ {
		rng := vt.Rand(int64(5000 + r))
		pool, err := NewSwitchPool(100, "1h")
		if err != nil {
			t.Fatal(err)
		}
		f := &vVPC{state: map[string]vCloudEntry{}}
		for _, id := range vIDs {
			f.state[id] = vCloudEntry{zone: zones[rng.Intn(2)], free: []int{0, 1, 5, 5}[rng.Intn(4)]}
		}
		w.Emit(vt.M{"ev": "reset", "scen": r, "cloud": cloudJSON(f.state)})
		if r%3 == 0 {
			f.delay = 3 * time.Millisecond // cold cache and a slow cloud: callers join lookups already in flight
		}
		if r%3 != 0 { // warm cache: fills are then out of the picture
			c := 1
			ids := append([]string{}, vIDs...)
			w.Emit(vt.M{"ev": "invoke", "c": c, "op": "getone", "zone": "a", "ids": append([]string{}, ids...), "pol": "most", "ign": false})
			res, after := getOne(pool, f, "a", ids, "most", false)
			w.Emit(vt.M{"ev": "return", "c": c, "op": "getone", "res": res, "after": after})
		}
		shared := []string{"v1", "v2", "v3", "v4"}
		sharedCopy := append([]string{}, shared...)
		var wg sync.WaitGroup
		for c := 1; c <= ncall; c++ {
			c := c
			lr := vt.Rand(rng.Int63())
			wg.Add(1)
			go func() {
				defer wg.Done()
				for i := 0; i < 3; i++ {
					if lr.Intn(3) == 0 {
						id := vIDs[lr.Intn(4)]
						w.Emit(vt.M{"ev": "invoke", "c": c, "op": "block", "id": id})
						pool.Block(id)
						w.Emit(vt.M{"ev": "return", "c": c, "op": "block"})
						continue
					}
					pol := pols[lr.Intn(3)]
					zone := zones[lr.Intn(2)]
					ign := lr.Intn(2) == 0
					if r%6 == 3 {
						// 'most' storm on a cold cache with a slow cloud: every caller sorts its own candidate list while the
						// others are in the middle of theirs (after one earlier 'most' selection on this pool)
						if i == 0 && c == 1 {
							w.Emit(vt.M{"ev": "invoke", "c": c, "op": "getone", "zone": "a", "ids": []string{"v4"}, "pol": "most", "ign": true})
							res0, after0 := getOne(pool, f, "a", []string{"v4"}, "most", true)
							w.Emit(vt.M{"ev": "return", "c": c, "op": "getone", "res": res0, "after": after0})
						}
						lists := [][]string{{"v1", "v2"}, {"v2", "v3"}, {"v3", "v1"}, {"v1"}, {"v2", "v3", "v1"}}
						ids := append([]string{}, lists[(c+i+lr.Intn(2))%len(lists)]...)
						orig := append([]string{}, ids...)
						w.Emit(vt.M{"ev": "invoke", "c": c, "op": "getone", "zone": zone, "ids": orig, "pol": "most", "ign": true})
						var res string
						var after []string
						p := vt.Catch(func() { res, after = getOne(pool, f, zone, ids, "most", true) })
						if p != "" {
							res, after = "panic", []string{}
						}
						w.Emit(vt.M{"ev": "return", "c": c, "op": "getone", "res": res, "after": after})
						continue
					}
					if r%2 == 0 && pol != "most" {
						// one shared slice passed by several goroutines; its expected content is fixed
						w.Emit(vt.M{"ev": "invoke", "c": c, "op": "getone", "zone": zone, "ids": sharedCopy, "pol": pol, "ign": ign})
						res := "none"
						p := vt.Catch(func() { res, _ = getOne(pool, f, zone, shared, pol, ign) })
						if p != "" {
							res = "panic"
						}
						w.Emit(vt.M{"ev": "return", "c": c, "op": "getone", "res": res, "after": sharedCopy, "sharedslice": true})
						continue
					}
					n := 1 + lr.Intn(4)
					ids := []string{}
					for j := 0; j < n; j++ {
						ids = append(ids, vIDs[lr.Intn(4)])
					}
					orig := append([]string{}, ids...)
					w.Emit(vt.M{"ev": "invoke", "c": c, "op": "getone", "zone": zone, "ids": orig, "pol": pol, "ign": ign})
					var res string
					var after []string
					p := vt.Catch(func() { res, after = getOne(pool, f, zone, ids, pol, ign) })
					if p != "" {
						res, after = "panic", []string{}
					}
					w.Emit(vt.M{"ev": "return", "c": c, "op": "getone", "res": res, "after": after})
				}
			}()
		}
		wg.Wait()
		// the shared slice after the round (read when every goroutine is done)
		w.Emit(vt.M{"ev": "invoke", "c": 1, "op": "shared", "ids": sharedCopy})
		w.Emit(vt.M{"ev": "return", "c": 1, "op": "shared", "after": append([]string{}, shared...)})
	}
}
