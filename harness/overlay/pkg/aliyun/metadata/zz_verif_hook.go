//go:build verif

package metadata

import (
	"net/http"

	"k8s.io/apimachinery/pkg/util/cache"
)

// VerifSetTransport points the package's HTTP client (an unexported variable) at a fake instance-metadata
// endpoint and forgets the cached metadata token. Overlay-only (build tag verif); nothing else is changed:
// URLs, retry loop, token handling and parsers are the repository's own.
func VerifSetTransport(rt http.RoundTripper) {
	defaultClient.Transport = rt
	tokenCache = cache.NewExpiring()
}
