//go:build verif

package client

import (
	"bytes"
	"context"
	"errors"
	"fmt"
	"io"
	"net/http"
	"os"
	"strings"
	"sync"
	"testing"
	"time"

	"github.com/aliyun/alibaba-cloud-sdk-go/services/ecs"
	"github.com/aliyun/alibaba-cloud-sdk-go/services/eflo"
	"github.com/aliyun/alibaba-cloud-sdk-go/services/vpc"

	"github.com/AliyunContainerService/terway/zzverif/vt"
)

// ---- fake cloud endpoint: an http.RoundTripper installed into the real SDK clients ----

type tokOutcome struct {
	ok   bool
	kind int // failure flavour
}

type tokTransport struct {
	slot    int
	w       *vt.Writer
	gated   bool
	arrived chan string
	release chan tokOutcome
	auto    func() tokOutcome
	nreq    int
	mu      sync.Mutex
}

var gatedActions = map[string]bool{
	"CreateNetworkInterface": true, "AssignPrivateIpAddresses": true, "AssignIpv6Addresses": true,
	"CreateElasticNetworkInterface": true, "AssignLeniPrivateIpAddress": true,
}

func httpResp(req *http.Request, code int, body string) *http.Response {
	return &http.Response{StatusCode: code, Status: fmt.Sprint(code), Body: io.NopCloser(bytes.NewBufferString(body)),
		Header: http.Header{"Content-Type": []string{"application/json"}}, Request: req, Proto: "HTTP/1.1", ProtoMajor: 1, ProtoMinor: 1}
}

func okBody(action string, n int) string {
	switch action {
	case "CreateNetworkInterface":
		return fmt.Sprintf(`{"RequestId":"r","NetworkInterfaceId":"eni-new-%d","Status":"Available","Type":"Secondary","MacAddress":"00:16:3e:00:00:01","PrivateIpAddress":"10.0.0.10","VSwitchId":"vsw-1","ZoneId":"z","PrivateIpSets":{"PrivateIpSet":[{"PrivateIpAddress":"10.0.0.10","Primary":true}]},"Ipv6Sets":{"Ipv6Set":[]},"SecurityGroupIds":{"SecurityGroupId":["sg-1"]},"Tags":{"Tag":[]}}`, n)
	case "AssignPrivateIpAddresses":
		return `{"RequestId":"r","AssignedPrivateIpAddressesSet":{"NetworkInterfaceId":"eni-1","PrivateIpSet":{"PrivateIpAddress":["10.0.0.11","10.0.0.12"]}}}`
	case "AssignIpv6Addresses":
		return `{"RequestId":"r","NetworkInterfaceId":"eni-1","Ipv6Sets":{"Ipv6Address":["fd00::11","fd00::12"]}}`
	case "CreateElasticNetworkInterface":
		return fmt.Sprintf(`{"RequestId":"r","Code":0,"Message":"","Content":{"ElasticNetworkInterfaceId":"leni-new-%d","NodeId":"n"}}`, n)
	case "AssignLeniPrivateIpAddress":
		return `{"RequestId":"r","Code":0,"Message":"","Content":{"ElasticNetworkInterfaceId":"leni-1","IpName":"ipname-1"}}`
	case "ListLeniPrivateIpAddresses":
		return `{"RequestId":"r","Code":0,"Message":"","Content":{"Total":1,"Data":[{"IpName":"ipname-1","Status":"Available","PrivateIpAddress":"10.0.0.20","ElasticNetworkInterfaceId":"leni-1"}]}}`
	}
	return `{"RequestId":"r","Code":0}`
}

func (f *tokTransport) RoundTrip(req *http.Request) (*http.Response, error) {
	_ = req.ParseForm()
	if req.Body != nil {
		b, _ := io.ReadAll(req.Body)
		if len(b) > 0 {
			// RPC style POST bodies are form encoded
			if vals, err := parseQuery(string(b)); err == nil {
				for k, v := range vals {
					req.Form[k] = v
				}
			}
		}
	}
	action := req.Form.Get("Action")
	if !gatedActions[action] {
		return httpResp(req, 200, okBody(action, 0)), nil
	}
	tok := req.Form.Get("ClientToken")
	f.mu.Lock()
	f.nreq++
	n := f.nreq
	f.mu.Unlock()
	f.w.Emit(vt.M{"ev": "request", "c": f.slot, "tok": tok, "action": action})
	var o tokOutcome
	if f.gated {
		f.arrived <- tok
		o = <-f.release
	} else {
		o = f.auto()
	}
	if o.ok {
		f.w.Emit(vt.M{"ev": "respond", "c": f.slot, "o": "ok"})
		return httpResp(req, 200, okBody(action, n)), nil
	}
	f.w.Emit(vt.M{"ev": "respond", "c": f.slot, "o": "fail"})
	isEflo := strings.Contains(action, "Elastic") || strings.Contains(action, "Leni")
	switch o.kind % 3 {
	case 0: // business error, not retried by the client
		if isEflo {
			return httpResp(req, 200, `{"RequestId":"r","Code":1013,"Message":"resource not enough"}`), nil
		}
		return httpResp(req, 400, `{"RequestId":"r","Code":"InvalidVSwitchId.IpNotEnough","Message":"not enough"}`), nil
	case 1: // the request may have taken effect but the answer is lost
		return nil, errors.New("verif: connection reset by peer")
	default:
		return httpResp(req, 500, `{"RequestId":"r","Code":"InternalError","Message":"boom"}`), nil
	}
}

func parseQuery(s string) (map[string][]string, error) {
	r, err := http.NewRequest("GET", "http://x/?"+s, nil)
	if err != nil {
		return nil, err
	}
	return r.URL.Query(), nil
}

type tokClientSet struct {
	e *ecs.Client
	f *eflo.Client
}

func (c *tokClientSet) ECS() *ecs.Client   { return c.e }
func (c *tokClientSet) VPC() *vpc.Client   { return nil }
func (c *tokClientSet) EFLO() *eflo.Client { return c.f }

func newTokAPI(t *testing.T, tr *tokTransport, gen IdempotentKeyGen) *OpenAPI {
	e, err := ecs.NewClientWithAccessKey("cn-hangzhou", "ak", "sk")
	if err != nil {
		t.Fatal(err)
	}
	e.SetTransport(tr)
	e.Domain = "ecs.verif.local"
	f, err := eflo.NewClientWithAccessKey("cn-hangzhou", "ak", "sk")
	if err != nil {
		t.Fatal(err)
	}
	f.SetTransport(tr)
	f.Domain = "eflo.verif.local"
	api, err := New(&tokClientSet{e: e, f: f}, LimitConfig{})
	if err != nil {
		t.Fatal(err)
	}
	api.IdempotentKeyGen = gen
	return api
}

// callParams invokes the real API for one row of Token.tla's ParamTable. variant selects the call site.
func callParams(api *OpenAPI, p vt.M, variant int) error {
	ctx := context.Background()
	tags := map[string]string{}
	for _, kv := range vt.List(p["tags"]) {
		l := vt.List(kv)
		tags[vt.Str(l[0])] = vt.Str(l[1])
	}
	var sgs []string
	for _, s := range vt.List(p["sgs"]) {
		sgs = append(sgs, vt.Str(s))
	}
	o := &NetworkInterfaceOptions{
		VSwitchID: vt.Str(p["vsw"]), SecurityGroupIDs: sgs, NetworkInterfaceID: vt.Str(p["eni"]),
		IPCount: vt.Int(p["ipc"]), IPv6Count: vt.Int(p["ip6"]), Trunk: vt.Bool(p["trunk"]),
	}
	if len(tags) > 0 {
		o.Tags = tags
	}
	var err error
	switch vt.Str(p["api"]) {
	case "create":
		if variant%2 == 0 {
			_, err = api.CreateNetworkInterface(ctx, &CreateNetworkInterfaceOptions{NetworkInterfaceOptions: o})
		} else {
			_, err = api.CreateNetworkInterfaceV2(SetBackendAPI(ctx, BackendAPIECS), &CreateNetworkInterfaceOptions{NetworkInterfaceOptions: o})
		}
	case "assign4":
		if variant%2 == 0 {
			_, err = api.AssignPrivateIPAddress(ctx, &AssignPrivateIPAddressOptions{NetworkInterfaceOptions: o})
		} else {
			_, err = api.AssignPrivateIPAddress2(ctx, &AssignPrivateIPAddressOptions{NetworkInterfaceOptions: o})
		}
	case "assign6":
		if variant%2 == 0 {
			_, err = api.AssignIpv6Addresses(ctx, &AssignIPv6AddressesOptions{NetworkInterfaceOptions: o})
		} else {
			_, err = api.AssignIpv6Addresses2(ctx, &AssignIPv6AddressesOptions{NetworkInterfaceOptions: o})
		}
	case "eflo_create":
		_, err = api.CreateElasticNetworkInterfaceV2(ctx, &CreateNetworkInterfaceOptions{NetworkInterfaceOptions: o})
	case "eflo_assign":
		_, err = api.AssignLeniPrivateIPAddress2(ctx, &AssignPrivateIPAddressOptions{NetworkInterfaceOptions: o})
	default:
		err = fmt.Errorf("unknown api")
	}
	return err
}

type tokSlot struct {
	tr    *tokTransport
	api   *OpenAPI
	state string // idle | parked | responded
	done  chan error
}

// TestVerifToken drives TLC-generated scenarios (VERIF_SCEN) and seeded random ones through the real
// OpenAPI methods sharing one real idempotency-key generator, and records the trace for TLC.
func TestVerifToken(t *testing.T) {
	params, err := vt.ReadNDJSON(vt.Env("VERIF_PARAMS", ""))
	if err != nil {
		t.Fatal(err)
	}
	w, err := vt.NewWriter(vt.Env("VERIF_TRACE", ""))
	if err != nil {
		t.Fatal(err)
	}
	defer w.Close()
	ncalls := vt.EnvInt("VERIF_CALLS", 3)
	var scens [][]vt.M
	if f := os.Getenv("VERIF_SCEN"); f != "" {
		b, err := os.ReadFile(f)
		if err != nil {
			t.Fatal(err)
		}
		for _, line := range strings.Split(string(b), "\n") {
			if strings.TrimSpace(line) == "" {
				continue
			}
			wrapped, err := vt.ReadNDJSONString(`{"s":` + line + `}`)
			if err != nil {
				t.Fatal(err)
			}
			var sc []vt.M
			for _, st := range vt.List(wrapped[0]["s"]) {
				sc = append(sc, vt.Map(st))
			}
			scens = append(scens, sc)
		}
	}
	// seeded random scenarios over the same alphabet, biased towards retries of few parameter sets
	rng := vt.Rand(16)
	nrand := vt.EnvInt("VERIF_RANDOM", 20)
	for k := 0; k < nrand; k++ {
		var pset []int
		for len(pset) < 3 {
			pset = append(pset, 1+rng.Intn(len(params)))
		}
		var sc []vt.M
		for i := 0; i < 30; i++ {
			c := 1 + rng.Intn(ncalls)
			switch rng.Intn(3) {
			case 0:
				sc = append(sc, vt.M{"a": "invoke", "c": c, "p": pset[rng.Intn(len(pset))]})
			case 1:
				o := "fail"
				if rng.Intn(3) == 0 {
					o = "ok"
				}
				sc = append(sc, vt.M{"a": "respond", "c": c, "o": o})
			default:
				sc = append(sc, vt.M{"a": "return", "c": c})
			}
		}
		scens = append(scens, sc)
	}
	os.Setenv("IDEMPOTENT_KEY_CACHE_SIZE", vt.Env("VERIF_CAP", "2"))
	variant := 0
	for si, sc := range scens {
		gen := NewIdempotentKeyGenerator()
		slots := map[int]*tokSlot{}
		for c := 1; c <= ncalls; c++ {
			tr := &tokTransport{slot: c, w: w, gated: true, arrived: make(chan string, 1), release: make(chan tokOutcome, 1)}
			slots[c] = &tokSlot{tr: tr, api: newTokAPI(t, tr, gen), state: "idle"}
		}
		w.Emit(vt.M{"ev": "reset", "scen": si})
		kind := si
		doReturn := func(c int, s *tokSlot, sent bool) {
			select {
			case err := <-s.done:
				w.Emit(vt.M{"ev": "return", "c": c, "sent": sent, "err": err != nil})
				s.state = "idle"
			case <-time.After(20 * time.Second):
				t.Fatalf("call in slot %d did not return", c)
			}
		}
		step := func(st vt.M) {
			c := vt.Int(st["c"])
			s := slots[c]
			if s == nil {
				return
			}
			switch vt.Str(st["a"]) {
			case "invoke":
				if s.state != "idle" {
					return
				}
				p := vt.Int(st["p"])
				w.Emit(vt.M{"ev": "invoke", "c": c, "p": p})
				s.done = make(chan error, 1)
				variant++
				v := variant
				go func() { s.done <- callParams(s.api, params[p-1], v) }()
				select {
				case <-s.tr.arrived:
					s.state = "parked"
				case err := <-s.done:
					w.Emit(vt.M{"ev": "return", "c": c, "sent": false, "err": err != nil})
					s.state = "idle"
				case <-time.After(20 * time.Second):
					t.Fatalf("call in slot %d neither reached the cloud nor returned", c)
				}
			case "respond":
				if s.state != "parked" {
					return
				}
				kind++
				s.tr.release <- tokOutcome{ok: vt.Str(st["o"]) == "ok", kind: kind}
				s.state = "responded"
			case "return":
				if s.state != "responded" {
					return
				}
				doReturn(c, s, true)
			}
		}
		for _, st := range sc {
			step(st)
		}
		for c := 1; c <= ncalls; c++ { // drain
			step(vt.M{"a": "respond", "c": c, "o": "ok"})
			step(vt.M{"a": "return", "c": c})
		}
	}
}

// TestVerifTokenFree lets goroutines call the real API concurrently against an auto-answering cloud; no schedule is
// forced, whatever interleaving happens is recorded (events are sequenced under the recorder's lock).
func TestVerifTokenFree(t *testing.T) {
	params, err := vt.ReadNDJSON(vt.Env("VERIF_PARAMS", ""))
	if err != nil {
		t.Fatal(err)
	}
	w, err := vt.NewWriter(vt.Env("VERIF_TRACE", ""))
	if err != nil {
		t.Fatal(err)
	}
	defer w.Close()
	ncalls := vt.EnvInt("VERIF_CALLS", 3)
	rounds := vt.EnvInt("VERIF_ROUNDS", 20)
	os.Setenv("IDEMPOTENT_KEY_CACHE_SIZE", vt.Env("VERIF_CAP", "2"))
	for r := 0; r < rounds; r++ {
		gen := NewIdempotentKeyGenerator()
		w.Emit(vt.M{"ev": "reset", "scen": r})
		rng := vt.Rand(int64(1000 + r))
		pset := []int{1 + rng.Intn(len(params)), 1 + rng.Intn(len(params))}
		var wg sync.WaitGroup
		for c := 1; c <= ncalls; c++ {
			c := c
			seed := rng.Int63()
			wg.Add(1)
			go func() {
				defer wg.Done()
				lr := vt.Rand(seed)
				var mu sync.Mutex
				tr := &tokTransport{slot: c, w: w, auto: func() tokOutcome {
					mu.Lock()
					defer mu.Unlock()
					return tokOutcome{ok: lr.Intn(3) == 0, kind: lr.Intn(3)}
				}}
				api := newTokAPI(t, tr, gen)
				for i := 0; i < 6; i++ {
					p := pset[lr.Intn(len(pset))]
					w.Emit(vt.M{"ev": "invoke", "c": c, "p": p})
					before := tr.nreq
					err := callParams(api, params[p-1], i)
					w.Emit(vt.M{"ev": "return", "c": c, "sent": tr.nreq > before, "err": err != nil})
				}
			}()
		}
		wg.Wait()
	}
}
