//go:build verif

package pod

import (
	"k8s.io/apimachinery/pkg/runtime"
	"k8s.io/client-go/tools/record"
	"sigs.k8s.io/controller-runtime/pkg/client"

	register "github.com/AliyunContainerService/terway/pkg/controller"
	"github.com/AliyunContainerService/terway/pkg/vswitch"
)

// VerifPodEniNewReconcilePod exists only in the /verif build overlay: it lets the PodEni harness
// (package podeni, C10/C11) build the real pod controller on its fake API server and fake cloud, so
// that both reconcilers run in one binary.  It sets fields only; no logic.
func VerifPodEniNewReconcilePod(c client.Client, s *runtime.Scheme, aliyun register.Interface, swPool *vswitch.SwitchPool,
	rec record.EventRecorder, trunkMode, crdMode bool) *ReconcilePod {
	return &ReconcilePod{client: c, scheme: s, aliyun: aliyun, swPool: swPool, record: rec, trunkMode: trunkMode, crdMode: crdMode}
}
