//go:build verif

package podeni

// Scenario builders of the C10 / C11 harness: enumerated families (release-strategy mixes around the TTL
// boundary, cloud interface populations around the grace period, the edges of the phase machine with fault
// placements and interleavings) and seeded random walks over the same alphabet.  A scenario is stimulus
// only; it never says what the code should do.

import (
	"math/rand"

	"github.com/AliyunContainerService/terway/zzverif/vt"
)

func vpL(x ...any) []any { return x }

const (
	vpTTLShort = 20000   // 20 s
	vpTTLLong  = 3600000 // 1 h
)

func vpAlloc(kind string, e int) vt.M {
	m := vt.M{"e": e, "fixed": true, "strat": "TTL", "ttl": vpTTLShort}
	switch kind {
	case "short":
	case "long":
		m["ttl"] = vpTTLLong
	case "never":
		m["strat"], m["ttl"] = "Never", 0
	case "invalid":
		m["ttl"] = -1
	case "negative":
		m["ttl"] = -2
	case "unknown":
		m["strat"], m["ttl"] = "Sometimes", 0
	case "elastic":
		m = vt.M{"e": e, "fixed": false, "strat": "", "ttl": 0}
	}
	return m
}

var vpAllocKinds = []string{"short", "long", "never", "invalid", "negative", "unknown", "elastic"}

func vpKind(kinds ...string) []any {
	var l []any
	for _, k := range kinds {
		l = append(l, vpAlloc(k, 0))
	}
	return l
}

func vpCallStep(a string, n int, extra ...vt.M) vt.M {
	m := vt.M{"a": a, "n": n}
	for _, x := range extra {
		for k, v := range x {
			m[k] = v
		}
	}
	return m
}

func vpMid(label string, k int, steps ...any) vt.M { return vt.M{"l": label, "k": k, "steps": steps} }
func vpMids(m ...vt.M) vt.M {
	var l []any
	for _, x := range m {
		l = append(l, x)
	}
	return vt.M{"mids": l}
}
func vpFail(op string, nth int, after bool) vt.M {
	return vt.M{"fail": vt.M{"op": op, "nth": nth, "after": after}}
}
func vpEnv(a string, n int) vt.M { return vt.M{"a": a, "n": n} }
func vpCreate(n, node int, owner string, kinds ...string) vt.M {
	return vt.M{"a": "pod_create", "n": n, "node": node, "owner": owner, "kind": vpKind(kinds...)}
}

func vpCreateVia(n, node int, owner, via string, kinds ...string) vt.M {
	m := vpCreate(n, node, owner, kinds...)
	m["via"] = via
	return m
}
func vpFailKind(op string, nth int, kind string) vt.M {
	return vt.M{"fail": vt.M{"op": op, "nth": nth, "after": false, "kind": kind}}
}

// pods that need a PodENI only because their node is labelled eniOnly (no pod-eni annotation), and API read errors
// (transient error / NotFound) in every read of the collector of records and of the two reconcilers
func vpEnumNodeLabel() [][]any {
	conf := func(names int) vt.M { return vt.M{"a": "conf", "names": names, "eniOnly": vpL(1, 2)} }
	var out [][]any
	add := func(sc ...any) { out = append(out, sc) }
	pc, ec := func(n int, x ...vt.M) vt.M { return vpCallStep("pc", n, x...) }, func(n int, x ...vt.M) vt.M { return vpCallStep("ec", n, x...) }
	gcr := func(x ...vt.M) vt.M { return vpCallStep("gcr", 0, x...) }
	dm := func(n int) vt.M { return vpEnv("daemon", n) }
	for _, via := range []string{"node", "anno"} {
		for _, k := range []string{"elastic", "short"} {
			for _, kind := range []string{"error", "notfound"} {
				// the pod runs all along; a pass of the collector cannot read the node / the pod / the list
				add(conf(1), vpCreateVia(1, 1, "sts", via, k), pc(1), ec(1), dm(1), gcr(), vt.M{"a": "elapse", "ms": vpTTLShort + 3000},
					gcr(vpFailKind("get_node", 1, kind)), ec(1), ec(1), dm(1), gcr(vpFailKind("get_pod", 1, kind)), ec(1), ec(1), gcr(vpFailKind("list_pe", 1, kind)), ec(1), dm(1),
					vpEnv("pod_gone", 1), gcr(vpFailKind("get_node", 1, kind)), pc(1), ec(1), ec(1))
			}
			// two pods on two nodes, the second node read of the pass fails
			add(vt.M{"a": "conf", "names": 2, "eniOnly": vpL(1, 2)}, vpCreateVia(1, 1, "sts", via, k), vpCreateVia(2, 2, "sts", via, k), pc(1), pc(2), ec(1), ec(2),
				gcr(vpFailKind("get_node", 2, "error")), ec(1), ec(2), ec(1), ec(2), dm(1), dm(2))
			// the whole life of such a pod, with the same name coming back on the other node
			add(conf(1), vpCreateVia(1, 1, "sts", via, k), pc(1), ec(1), gcr(), vpEnv("pod_gone", 1), vpCreateVia(1, 2, "sts", via, k), pc(1), ec(1), ec(1), pc(1), pc(1), pc(1), ec(1), dm(1), gcr(),
				vpEnv("pod_term", 1), pc(1), gcr(), vpEnv("pod_exit", 1), pc(1), ec(1), ec(1))
		}
		// read errors inside the reconcilers, every read, first and second occurrence
		for _, op := range []string{"get_pod", "get_pe", "get_node"} {
			for nth := 1; nth <= 2; nth++ {
				add(conf(1), vpCreateVia(1, 1, "none", via, "elastic"), pc(1, vpFail(op, nth, false)), ec(1, vpFail(op, nth, false)), pc(1), ec(1), dm(1),
					vpEnv("pod_gone", 1), pc(1, vpFail(op, nth, false)), ec(1, vpFail(op, nth, false)), ec(1, vpFail(op, nth, false)), pc(1), ec(1), ec(1))
				add(conf(1), vpCreateVia(1, 1, "sts", via, "never"), pc(1), ec(1), vpEnv("pod_gone", 1), pc(1, vpFailKind(op, nth, "notfound")), ec(1, vpFailKind(op, nth, "notfound")),
					vpCreateVia(1, 2, "sts", via, "never"), pc(1, vpFail(op, nth, false)), pc(1), pc(1), pc(1), ec(1, vpFail(op, nth, false)), ec(1), dm(1))
			}
		}
	}
	return out
}

// records with several interfaces under the leak collector: running pods with 2-3 interfaces (trunk mode: Member
// interfaces, the kind gcMemberENI lists; created by the controllers and then aged past the grace period, or present
// from the start), and unbound fixed-IP records with several Available interfaces
func vpEnumMultiEni() [][]any {
	var out [][]any
	add := func(sc ...any) { out = append(out, sc) }
	pc, ec := func(n int) vt.M { return vpCallStep("pc", n) }, func(n int) vt.M { return vpCallStep("ec", n) }
	gcl, gcla, gcr := vpCallStep("gcl", 0), vpCallStep("gcla", 0), vpCallStep("gcr", 0)
	dm := func(n int) vt.M { return vpEnv("daemon", n) }
	old := vt.M{"a": "elapse", "ms": vpGraceMs + 3000}
	for _, kinds := range [][]string{{"elastic", "elastic"}, {"elastic", "elastic", "elastic"}, {"never", "short"}, {"short", "elastic", "never"}} {
		for _, trunk := range []bool{true, false} {
			own := "sts"
			add(vt.M{"a": "conf", "names": 2, "trunk": trunk}, vpCreate(1, 1, own, kinds...), vpCreate(2, 2, own, kinds[0]), pc(1), pc(2), ec(1), ec(2), dm(1), gcl, gcla,
				old, gcl, gcla, dm(1), dm(2), gcr, gcl, vpEnv("pod_gone", 1), pc(1), ec(1), gcl, gcla, ec(1), old, gcl, gcla)
		}
	}
	// present from the start: bound records of running pods, Member interfaces InUse, old
	for _, cnt := range []int{2, 3} {
		for _, typ := range []string{"Member", "Secondary"} {
			var enis, a1, k1 []any
			for e := 1; e <= cnt; e++ {
				enis = append(enis, vt.M{"e": e, "tag": "ours", "age": 86400000, "st": "InUse", "typ": typ, "inst": 1})
				a1 = append(a1, vpAlloc("elastic", e))
				k1 = append(k1, vpAlloc("elastic", 0))
			}
			enis = append(enis, vt.M{"e": cnt + 1, "tag": "ours", "age": 86400000, "st": "InUse", "typ": typ, "inst": 2},
				vt.M{"e": cnt + 2, "tag": "ours", "age": 86400000, "st": "InUse", "typ": typ, "inst": 2}) // the last one is really leaked
			add(vt.M{"a": "conf", "names": 2, "trunk": typ == "Member", "enis": enis,
				"pods": vpL(vt.M{"n": 1, "uid": 1, "node": 1, "kind": k1, "owner": "sts"}, vt.M{"n": 2, "uid": 2, "node": 2, "kind": vpKind("elastic"), "owner": "sts"}),
				"recs": vpL(vt.M{"n": 1, "phase": "Bind", "uid": 1, "node": 1, "allocs": a1, "seen": -1},
					vt.M{"n": 2, "phase": "Bind", "uid": 2, "node": 2, "allocs": vpL(vpAlloc("elastic", cnt+1)), "seen": -1})},
				dm(1), gcl, gcla, dm(1), gcr, gcl)
		}
	}
	// unbound fixed-IP records with several Available interfaces
	for _, kinds := range [][]string{{"never", "never"}, {"long", "never", "long"}} {
		var enis, a1 []any
		for i, k := range kinds {
			enis = append(enis, vt.M{"e": i + 1, "tag": "ours", "age": 86400000, "st": "Available", "typ": "Secondary", "inst": 0})
			a1 = append(a1, vpAlloc(k, i+1))
		}
		add(vt.M{"a": "conf", "names": 1, "enis": enis, "recs": vpL(vt.M{"n": 1, "phase": "Unbind", "uid": 1, "node": 1, "allocs": a1, "seen": 5000})},
			gcl, gcla, vpCreate(1, 2, "sts", kinds...), pc(1), pc(1), pc(1), ec(1), dm(1), gcl, gcla)
	}
	return out
}

// ---------------------------------------------------------------------------- enumerated families

func vpEnumerated(which string) [][]any {
	var out [][]any
	if which == "none" {
		return out
	}
	thorough := vt.Thorough()
	out = append(out, vpEnumLife()...)
	out = append(out, vpEnumNodeLabel()...)
	out = append(out, vpEnumMultiEni()...)
	out = append(out, vpEnumTTL(thorough)...)
	out = append(out, vpEnumPopulations()...)
	return out
}

func allElastic(kinds []string) bool {
	for _, k := range kinds {
		if k != "elastic" {
			return false
		}
	}
	return true
}

// release-strategy mixes x absence duration around the TTL boundary x record phase x what happens next
func vpEnumTTL(thorough bool) [][]any {
	var out [][]any
	var mixes [][]string
	for _, a := range vpAllocKinds {
		mixes = append(mixes, []string{a})
		for _, b := range vpAllocKinds {
			mixes = append(mixes, []string{a, b})
		}
	}
	type variant struct {
		phase string
		age   int // age of podLastSeen in ms (-1 unset)
		tail  string
	}
	vars := []variant{
		{"Unbind", vpTTLShort - 3000, "gc"}, {"Unbind", vpTTLShort + 3000, "gc"},
		{"Unbind", vpTTLShort - 3000, "recreate"}, {"Unbind", vpTTLShort + 3000, "recreate"},
		{"Bind", vpTTLShort + 3000, "gc"}, {"Unbind", vpTTLShort - 3000, "elapse"},
	}
	if thorough {
		vars = append(vars, variant{"Bind", vpTTLShort - 3000, "gc"}, variant{"", -1, "gc"}, variant{"Unbind", vpTTLLong - 3000, "gc"},
			variant{"Unbind", vpTTLLong + 3000, "gc"}, variant{"Unbind", vpTTLShort + 3000, "race"}, variant{"Unbind", vpTTLShort - 3000, "race"})
	}
	for _, v := range vars {
		for i := 0; i < len(mixes); i += 3 {
			var recs, steps []any
			e := 0
			for n := 1; n <= 3 && i+n-1 < len(mixes); n++ {
				if allElastic(mixes[i+n-1]) && v.phase == "Unbind" && v.tail != "gc" && v.tail != "elapse" {
					continue // an Unbind record without a fixed allocation is not a state the controllers produce
				}
				var allocs []any
				for _, k := range mixes[i+n-1] {
					e++
					allocs = append(allocs, vpAlloc(k, e))
				}
				recs = append(recs, vt.M{"n": n, "phase": v.phase, "uid": n, "node": 1, "allocs": allocs, "seen": v.age})
			}
			var enis []any
			for x := 1; x <= e; x++ {
				st, inst := "Available", 0
				if v.phase == "Bind" {
					st, inst = "InUse", 1
				}
				enis = append(enis, vt.M{"e": x, "tag": "ours", "age": 86400000, "st": st, "typ": "Secondary", "inst": inst})
			}
			switch v.tail {
			case "gc":
				steps = vpL(vpCallStep("gcr", 0), vpCallStep("ec", 1), vpCallStep("ec", 2), vpCallStep("ec", 3))
			case "elapse":
				steps = vpL(vpCallStep("gcr", 0), vt.M{"a": "elapse", "ms": 6000}, vpCallStep("gcr", 0), vt.M{"a": "elapse", "ms": vpTTLLong}, vpCallStep("gcr", 0))
			case "recreate":
				steps = vpL(vpCallStep("gcr", 0))
				for n := 1; n <= 3; n++ {
					steps = append(steps, vpCreate(n, 1+n%2, "sts", "short"), vpCallStep("pc", n), vpCallStep("ec", n), vpCallStep("pc", n), vpCallStep("pc", n), vpCallStep("ec", n), vpEnv("daemon", n))
				}
				steps = append(steps, vpCallStep("gcr", 0))
			case "race":
				// the pod comes back between the collector's look-up of the pod and its write
				var mids []vt.M
				for n := 1; n <= 3; n++ {
					mids = append(mids, vpMid("w", n, vpCreate(n, 1, "sts", "short"), vpCallStep("pc", n), vpCallStep("pc", n), vpCallStep("ec", n)))
				}
				steps = vpL(vpCallStep("gcr", 0, vpMids(mids...)), vpCallStep("ec", 1), vpCallStep("ec", 2), vpCallStep("ec", 3))
			}
			sc := vpL(vt.M{"a": "conf", "names": 3, "recs": recs, "enis": enis})
			out = append(out, append(sc, steps...))
		}
	}
	return out
}

// cloud interface populations: tags x age around the grace period x referenced x status/type
func vpEnumPopulations() [][]any {
	var out [][]any
	tags := []string{"ours", "nocreator", "nocluster", "othercluster", "othercreator", "none"}
	type stt struct {
		st, typ string
	}
	sts := []stt{{"Available", "Secondary"}, {"InUse", "Secondary"}, {"InUse", "Member"}, {"Available", "Member"}}
	var all []vt.M
	for _, tg := range tags {
		for _, age := range []int{vpGraceMs - 3000, vpGraceMs + 3000} {
			for _, ref := range []bool{false, true} {
				for _, s := range sts {
					all = append(all, vt.M{"tag": tg, "age": age, "st": s.st, "typ": s.typ, "inst": 2, "ref": ref})
				}
			}
		}
	}
	const batch = 12
	for i := 0; i < len(all); i += batch {
		var enis, allocs []any
		for j := i; j < i+batch && j < len(all); j++ {
			m := all[j]
			m["e"] = j - i + 1
			enis = append(enis, m)
			if vt.Bool(m["ref"]) {
				allocs = append(allocs, vpAlloc("never", j-i+1))
			}
		}
		var recs []any
		if len(allocs) > 0 {
			recs = vpL(vt.M{"n": 1, "phase": "Unbind", "uid": 1, "node": 1, "allocs": allocs, "seen": 5000})
		}
		sc := vpL(vt.M{"a": "conf", "names": 2, "recs": recs, "enis": enis},
			vpCallStep("gcl", 0), vpCallStep("gcla", 0),
			// a pod is being set up while the collector runs: its fresh interface is unreferenced for a moment
			vpCreate(2, 1, "none", "elastic"), vpCallStep("pc", 2, vpMids(vpMid("w", 1, vpCallStep("gcl", 0), vpCallStep("gcla", 0)))),
			vt.M{"a": "elapse", "ms": 6000}, vpCallStep("gcl", 0), vpCallStep("gcla", 0), vpCallStep("gcl", 0))
		out = append(out, sc)
	}
	return out
}

// the phase machine edge by edge, with fault placements and interleavings
func vpEnumLife() [][]any {
	conf := func(names int) vt.M { return vt.M{"a": "conf", "names": names} }
	var out [][]any
	add := func(sc ...any) { out = append(out, sc) }
	pc, ec := func(n int, x ...vt.M) vt.M { return vpCallStep("pc", n, x...) }, func(n int, x ...vt.M) vt.M { return vpCallStep("ec", n, x...) }
	gcr := vpCallStep("gcr", 0)
	dm := func(n int) vt.M { return vpEnv("daemon", n) }
	stale := func(n int) vt.M { return vt.M{"a": "daemon", "n": n, "stale": true} }
	for _, owner := range []string{"none", "rs", "sts"} {
		// pod without fixed IP: create, run, terminate, exit, vanish
		add(conf(1), vpCreate(1, 1, owner, "elastic"), dm(1), pc(1), dm(1), ec(1), dm(1), stale(1), gcr, vpEnv("pod_term", 1), pc(1), ec(1), gcr, dm(1),
			vpEnv("pod_exit", 1), pc(1), dm(1), ec(1), ec(1), vpEnv("pod_gone", 1), pc(1), ec(1))
		// ... vanishes without the controllers having seen the exit; two interfaces
		add(conf(1), vpCreate(1, 2, owner, "elastic", "elastic"), pc(1), ec(1), vpEnv("pod_gone", 1), gcr, ec(1), ec(1), pc(1))
	}
	// same name, new UID, before the old record was handled (non-fixed and fixed)
	for _, k := range []string{"elastic", "short", "never"} {
		add(conf(1), vpCreate(1, 1, "sts", k), pc(1), ec(1), vpEnv("pod_gone", 1), vpCreate(1, 2, "sts", k), stale(1), dm(1), pc(1), dm(1), ec(1), ec(1), pc(1), pc(1), pc(1), pc(1), ec(1), dm(1), stale(1))
		add(conf(1), vpCreate(1, 1, "sts", k), pc(1), vpEnv("pod_gone", 1), vpCreate(1, 1, "sts", k), ec(1), dm(1), pc(1), ec(1), ec(1), pc(1), ec(1), dm(1))
	}
	// fixed IP: delete, detach, recreate on the other node, rebind; then D10 (a further reconcile of the vanished pod)
	for _, k := range []string{"short", "never", "long"} {
		add(conf(1), vpCreate(1, 1, "sts", k), pc(1), ec(1), gcr, vpEnv("pod_gone", 1), pc(1), ec(1), gcr, vpCreate(1, 2, "sts", k), pc(1), pc(1), pc(1), ec(1), dm(1), gcr)
		add(conf(1), vpCreate(1, 1, "sts", k), pc(1), ec(1), vpEnv("pod_exit", 1), pc(1), ec(1), pc(1), ec(1), vpEnv("pod_gone", 1), pc(1), ec(1))
		add(conf(1), vpCreate(1, 1, "sts", k), pc(1), vpEnv("pod_gone", 1), pc(1), ec(1), vpCreate(1, 1, "sts", k), pc(1), pc(1), vpEnv("pod_gone", 1), pc(1), ec(1))
	}
	// fixed IP, TTL runs out while the pod is away; and the pod comes back just before / just after
	for _, late := range []int{vpTTLShort - 3000, vpTTLShort + 3000} {
		add(conf(1), vpCreate(1, 1, "sts", "short"), pc(1), ec(1), gcr, vpEnv("pod_gone", 1), pc(1), ec(1), vt.M{"a": "elapse", "ms": late}, gcr, ec(1), ec(1),
			vpCreate(1, 1, "sts", "short"), pc(1), pc(1), pc(1), ec(1), dm(1))
		add(conf(1), vpCreate(1, 1, "sts", "short", "never"), pc(1), ec(1), vpEnv("pod_gone", 1), pc(1), ec(1), vt.M{"a": "elapse", "ms": late}, gcr, ec(1))
		// the collector refreshed the time stamp while the pod was there; the absence is counted from then
		add(conf(1), vpCreate(1, 1, "sts", "short"), pc(1), ec(1), vt.M{"a": "elapse", "ms": late}, gcr, vpEnv("pod_gone", 1), pc(1), ec(1), gcr, ec(1),
			vt.M{"a": "elapse", "ms": late}, gcr, ec(1))
	}
	// creation fails part-way: every placement over two interfaces, and the record creation itself
	for nth := 1; nth <= 2; nth++ {
		add(conf(1), vpCreate(1, 1, "none", "elastic", "elastic"), pc(1, vpFail("create", nth, false)), ec(1), pc(1), ec(1))
		add(conf(1), vpCreate(1, 1, "sts", "short", "never"), pc(1, vpFail("create", nth, false)), ec(1))
	}
	add(conf(1), vpCreate(1, 1, "none", "elastic", "elastic"), pc(1, vpFail("pe_create", 1, false)), ec(1), pc(1), ec(1))
	add(conf(2), vpCreate(1, 1, "none", "elastic"), vpCreate(2, 2, "sts", "never", "elastic"), pc(1, vpFail("pe_create", 1, false)), pc(2, vpFail("create", 1, false)))
	// attach / detach / delete / status-write faults, before and after the effect
	for _, after := range []bool{false, true} {
		add(conf(1), vpCreate(1, 1, "none", "elastic", "elastic"), pc(1), ec(1, vpFail("attach", 2, after)), dm(1), ec(1), dm(1))
		add(conf(1), vpCreate(1, 1, "sts", "short"), pc(1), ec(1), vpEnv("pod_gone", 1), pc(1), ec(1, vpFail("detach", 1, after)), ec(1))
		add(conf(1), vpCreate(1, 1, "none", "elastic", "elastic"), pc(1), ec(1), vpEnv("pod_gone", 1), pc(1), ec(1), ec(1, vpFail("detach", 2, after)), ec(1, vpFail("delete", 1, after)), ec(1))
	}
	add(conf(1), vpCreate(1, 1, "none", "elastic"), pc(1), ec(1, vpFail("pe_status", 1, false)), dm(1), ec(1), dm(1))
	add(conf(1), vpCreate(1, 1, "sts", "never"), pc(1), ec(1), vpEnv("pod_gone", 1), pc(1, vpFail("pe_status", 1, false)), pc(1), ec(1, vpFail("pe_status", 1, false)), ec(1))
	add(conf(1), vpCreate(1, 1, "none", "elastic"), pc(1), ec(1), vpEnv("pod_gone", 1), pc(1), ec(1), ec(1, vpFail("pe_update", 1, false)), ec(1))
	// interleavings: the environment and the other controller move between a decision and the call acting on it
	add(conf(1), vpCreate(1, 1, "none", "elastic"), pc(1, vpMids(vpMid("c", 1, vpEnv("pod_gone", 1)), vpMid("w", 1, vpCallStep("gcl", 0), gcr))), ec(1), pc(1), ec(1), ec(1))
	add(conf(1), vpCreate(1, 1, "none", "elastic"), pc(1), ec(1, vpMids(vpMid("c", 1, vpEnv("pod_gone", 1), pc(1)), vpMid("w", 1, vpCreate(1, 2, "none", "elastic"), pc(1)))), ec(1), pc(1), ec(1))
	add(conf(1), vpCreate(1, 1, "sts", "short"), pc(1), ec(1), vpEnv("pod_gone", 1),
		pc(1, vpMids(vpMid("rr", 1, vpCreate(1, 1, "sts", "short")), vpMid("w", 1, gcr))), ec(1, vpMids(vpMid("c", 1, pc(1)), vpMid("w", 1, pc(1), gcr))), pc(1), pc(1), ec(1))
	add(conf(1), vpCreate(1, 1, "sts", "short"), pc(1), ec(1), vpEnv("pod_gone", 1), pc(1), ec(1), vt.M{"a": "elapse", "ms": vpTTLShort + 3000},
		vpCallStep("gcr", 0, vpMids(vpMid("w", 1, vpCreate(1, 1, "sts", "short"), pc(1), pc(1), ec(1)))), ec(1), ec(1), dm(1))
	add(conf(1), vpCreate(1, 1, "sts", "short"), pc(1), ec(1), vpEnv("pod_gone", 1), pc(1), ec(1), vt.M{"a": "elapse", "ms": vpTTLShort + 3000},
		vpCallStep("gcr", 0, vpMids(vpMid("rp", 1, vpCreate(1, 1, "sts", "short"), pc(1)))), pc(1), ec(1), dm(1))
	add(conf(1), vpCreate(1, 1, "none", "elastic"), pc(1), ec(1), vpEnv("pod_gone", 1),
		vpCallStep("gcr", 0, vpMids(vpMid("w", 1, vpCreate(1, 1, "none", "elastic"), pc(1), ec(1), ec(1), pc(1), ec(1)))), ec(1), ec(1), dm(1))
	// the pod is terminating but its sandbox still runs: both controllers get several turns before it exits
	for _, k := range []string{"elastic", "short"} {
		add(conf(1), vpCreate(1, 1, "sts", k), pc(1), ec(1), dm(1), vpEnv("pod_term", 1), pc(1), ec(1), ec(1), gcr, ec(1), ec(1), dm(1), vpEnv("pod_exit", 1), pc(1), ec(1), ec(1), ec(1))
	}
	// rebound after an absence just short of the TTL, then gone again at once: the absence counts from the rebinding
	add(conf(1), vpCreate(1, 1, "sts", "short"), pc(1), ec(1), vpEnv("pod_gone", 1), pc(1), ec(1), vt.M{"a": "elapse", "ms": vpTTLShort - 3000}, gcr,
		vpCreate(1, 2, "sts", "short"), pc(1), pc(1), pc(1), ec(1), dm(1), vpEnv("pod_gone", 1), pc(1), ec(1), vt.M{"a": "elapse", "ms": 6000}, gcr, ec(1), ec(1))
	// the daemon is asked (for the current and for the previous pod instance) after every single step of a fixed-IP life:
	// Initial, Bind, Detaching with the pod object still there, Unbind, new UID written, Binding, Bind again
	for _, k := range []string{"short", "never"} {
		add(conf(1), vpCreate(1, 1, "sts", k), dm(1), pc(1), dm(1), ec(1), dm(1), stale(1), vpEnv("pod_exit", 1), dm(1), pc(1), dm(1), stale(1), ec(1), dm(1), vpEnv("pod_gone", 1),
			vpCreate(1, 2, "sts", k), dm(1), stale(1), pc(1), dm(1), stale(1), pc(1), dm(1), stale(1), pc(1), dm(1), stale(1), ec(1), dm(1), stale(1),
			vpEnv("pod_term", 1), dm(1), pc(1), dm(1), vpEnv("pod_exit", 1), pc(1), dm(1), ec(1), dm(1))
	}
	// an attach that took effect but never led to Bind (a later interface failed / the status write lost a race with the
	// collector's time-stamp refresh), then the pod comes back on the other node before the pod controller saw it absent
	add(conf(1), vpCreate(1, 1, "none", "elastic", "elastic"), pc(1), ec(1, vpFail("attach", 2, false)), vpEnv("pod_gone", 1), vpCreate(1, 2, "none", "elastic", "elastic"), dm(1))
	add(conf(1), vpCreate(1, 1, "sts", "never"), pc(1), ec(1, vpMids(vpMid("w", 1, gcr))), vpEnv("pod_gone", 1), vpCreate(1, 2, "sts", "never"), dm(1))
	add(conf(1), vpCreate(1, 1, "sts", "never"), pc(1), ec(1, vpMids(vpMid("w", 1, gcr))), vpEnv("pod_gone", 1), pc(1), ec(1), vpCreate(1, 2, "sts", "never"), dm(1))
	return out
}

// ---------------------------------------------------------------------------- seeded random walks

func vpRandom(i int64) []any {
	r := vt.Rand(104729 + i)
	names := 1 + r.Intn(2)
	conf := vt.M{"a": "conf", "names": names}
	owners := []string{"none", "sts", "rs"}
	podKinds := [][]string{{"elastic"}, {"elastic", "elastic"}, {"short"}, {"never"}, {"short", "never"}, {"short", "elastic"}, {"long"}, {"invalid", "short"}}
	// sometimes start from records left behind by earlier pods
	var recs, enis []any
	e := 0
	if r.Intn(3) == 0 {
		for n := 1; n <= names; n++ {
			if r.Intn(2) == 0 {
				continue
			}
			var allocs []any
			for k := 0; k <= r.Intn(2); k++ {
				e++
				kind := vpAllocKinds[r.Intn(len(vpAllocKinds))]
				if k == 0 && kind == "elastic" { // the code only ever leaves records with a fixed allocation in Unbind
					kind = "short"
				}
				allocs = append(allocs, vpAlloc(kind, e))
				enis = append(enis, vt.M{"e": e, "tag": "ours", "age": 86400000, "st": "Available", "typ": "Secondary", "inst": 0})
			}
			ages := []int{vpTTLShort - 3000, vpTTLShort + 3000, -1, 1000}
			recs = append(recs, vt.M{"n": n, "phase": "Unbind", "uid": n, "node": 1, "allocs": allocs, "seen": ages[r.Intn(len(ages))]})
		}
	}
	// and a few stray interfaces for the leak collector
	if r.Intn(3) == 0 {
		tags := []string{"ours", "nocreator", "othercluster", "none"}
		for k := 0; k < 1+r.Intn(3); k++ {
			e++
			st := []string{"Available", "InUse"}[r.Intn(2)]
			typ := []string{"Secondary", "Member"}[r.Intn(2)]
			enis = append(enis, vt.M{"e": e, "tag": tags[r.Intn(len(tags))], "age": []int{vpGraceMs - 3000, vpGraceMs + 3000}[r.Intn(2)], "st": st, "typ": typ, "inst": 2})
		}
	}
	conf["recs"], conf["enis"] = recs, enis
	if r.Intn(3) == 0 {
		conf["trunk"] = true
	}
	labelled := r.Intn(2) == 0
	if labelled {
		conf["eniOnly"] = vpL(1, 2)
	}
	sc := vpL(conf)
	var gen func(depth int) vt.M
	gen = func(depth int) vt.M {
		n := 1 + r.Intn(names)
		x := r.Intn(100)
		switch {
		case x < 12:
			pk := podKinds[r.Intn(len(podKinds))]
			own := owners[r.Intn(len(owners))]
			if pk[0] != "elastic" || len(recs) > 0 { // fixed addresses belong to workloads with stable pod names
				own = []string{"sts", "none"}[r.Intn(2)]
			}
			via := "anno"
			if labelled && r.Intn(2) == 0 {
				via = "node"
			}
			return vpCreateVia(n, 1+r.Intn(2), own, via, pk...)
		case x < 17:
			return vpEnv("pod_term", n)
		case x < 22:
			return vpEnv("pod_exit", n)
		case x < 32:
			return vpEnv("pod_gone", n)
		case x < 36 && depth == 0:
			return vt.M{"a": "elapse", "ms": []int{3000, vpTTLShort - 3000, vpTTLShort + 3000, vpGraceMs + 3000}[r.Intn(4)]}
		case x < 44:
			return vt.M{"a": "daemon", "n": n, "stale": r.Intn(3) == 0}
		}
		a := []string{"pc", "pc", "pc", "ec", "ec", "ec", "gcr", "gcr", "gcl", "gcla"}[r.Intn(10)]
		st := vpCallStep(a, n)
		if r.Intn(6) == 0 {
			ops := map[string][]string{"pc": {"create", "pe_create", "pe_status", "pe_update", "get_pod", "get_pe", "get_node"},
				"ec":  {"attach", "detach", "delete", "pe_status", "pe_update", "pe_delete", "get_pod", "get_pe", "get_node"},
				"gcr": {"get_pod", "get_node", "get_node", "list_pe"}}[a]
			if len(ops) > 0 {
				op := ops[r.Intn(len(ops))]
				st["fail"] = vt.M{"op": op, "nth": 1 + r.Intn(2), "after": r.Intn(2) == 0 && (op == "attach" || op == "detach" || op == "delete"),
					"kind": []string{"error", "notfound"}[r.Intn(2)]}
			}
		}
		if depth < 2 && r.Intn(3) == 0 {
			var mids []any
			for k := 0; k <= r.Intn(2); k++ {
				var steps []any
				for j := 0; j <= r.Intn(3); j++ {
					steps = append(steps, gen(depth+1))
				}
				mids = append(mids, vt.M{"l": []string{"rp", "rr", "w", "w", "c", "c", "d"}[r.Intn(7)], "k": 1 + r.Intn(2), "steps": steps})
			}
			st["mids"] = mids
		}
		return st
	}
	for k := 0; k < 8+r.Intn(14); k++ {
		sc = append(sc, gen(0))
	}
	return sc
}

var _ = rand.Int

// ---------------------------------------------------------------------------- TLC scenarios
// specs/PodEni_mc.tla writes an invocation as  begin .. (gate | fault | other steps) .. end.  What lies between two
// gates of an invocation happened, in the model, between two calls of that function: fold it into a "mid" of the
// gate that follows.  What lies after the last gate runs after the invocation.

func vpFold(items []any) []any {
	out, _ := vpFoldSeq(items, 0, false)
	return out
}

// vpFoldSeq folds items[i:] up to the matching "end" (inCall) or the end of the list; returns the steps and the next index.
func vpFoldSeq(items []any, i int, inCall bool) ([]any, int) {
	var out []any
	for i < len(items) {
		it := vt.Map(items[i])
		switch vt.Str(it["a"]) {
		case "begin":
			call, trailing, j := vpFoldCall(items, i)
			out = append(out, call)
			out = append(out, trailing...)
			i = j
		case "end":
			if inCall {
				return out, i
			}
			i++
		case "gate", "fault", "done":
			if inCall {
				return out, i
			}
			i++
		default:
			out = append(out, it)
			i++
		}
	}
	return out, i
}

func vpFoldCall(items []any, i int) (vt.M, []any, int) {
	b := vt.Map(items[i])
	call := vt.M{"a": vt.Str(b["who"]), "n": vt.Int(b["n"])}
	counts := map[string]int{}
	var mids []any
	var cur []any
	i++
	for i < len(items) {
		steps, j := vpFoldSeq(items, i, true)
		cur = append(cur, steps...)
		i = j
		if i >= len(items) {
			break
		}
		it := vt.Map(items[i])
		i++
		switch vt.Str(it["a"]) {
		case "gate":
			l := vt.Str(it["l"])
			counts[l]++
			if len(cur) > 0 {
				mids = append(mids, vt.M{"l": l, "k": counts[l], "steps": cur})
				cur = nil
			}
		case "fault":
			call["fail"] = vt.M{"op": vt.Str(it["op"]), "nth": vt.Int(it["nth"]), "after": false}
		case "end":
			if len(mids) > 0 {
				call["mids"] = mids
			}
			return call, cur, i
		}
	}
	if len(mids) > 0 {
		call["mids"] = mids
	}
	return call, cur, i
}
