//go:build verif

package podeni

import (
	"context"
	"strconv"
	"testing"

	corev1 "k8s.io/api/core/v1"
	metav1 "k8s.io/apimachinery/pkg/apis/meta/v1"
	"sigs.k8s.io/controller-runtime/pkg/client/fake"

	"github.com/AliyunContainerService/terway/pkg/controller/status"
	"github.com/AliyunContainerService/terway/zzverif/inputstok"
	"github.com/AliyunContainerService/terway/zzverif/vt"
)

// TestVerifInputsPodENI runs the NUMA hint parser of the PodENI controller (C15, specs/Inputs.tla):
// podNumaHints on the raw annotation and getENIIndex on a pod carrying it, against a node with
// in.cards network cards (0 = node unknown to the status cache).
func TestVerifInputsPodENI(t *testing.T) {
	inputstok.Run(t, map[string]func(in, out vt.M){
		"numa": func(in, out vt.M) {
			anno := map[string]string{}
			inputstok.Set(anno, "cpuSet", in["doc"])
			hints := []string{}
			for _, h := range podNumaHints(anno) {
				hints = append(hints, strconv.Itoa(h))
			}
			out["hints"] = hints

			pod := &corev1.Pod{
				ObjectMeta: metav1.ObjectMeta{Name: "p", Namespace: "default", Annotations: anno},
				Spec:       corev1.PodSpec{NodeName: "n1"},
			}
			node := &corev1.Node{ObjectMeta: metav1.ObjectMeta{Name: "n1"}}
			m := &ReconcilePodENI{
				client:          fake.NewClientBuilder().WithObjects(pod, node).Build(),
				nodeStatusCache: status.NewCache[status.NodeStatus](),
			}
			if cards := vt.Int(in["cards"]); cards > 0 {
				m.nodeStatusCache.LoadOrStore("n1", status.NewNodeStatus(cards))
			}
			idxs := []int{}
			for i := 0; i < 3; i++ { // a few ENIs, so that the least-loaded choice moves across cards
				idx := -1
				if p := m.getENIIndex(context.Background(), "default", "p", "eni-"+strconv.Itoa(i)); p != nil {
					idx = *p
				}
				idxs = append(idxs, idx)
			}
			out["idxs"] = idxs
		},
	})
}
