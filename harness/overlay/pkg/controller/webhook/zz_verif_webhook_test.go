//go:build verif

package webhook

// C18 conformance harness: runs the REAL pod admission handler (MutatingHook -> podWebhook) on every
// case enumerated by TLC from specs/Webhook.tla, applies the returned JSON patch to the input pod and
// projects the admitted pod to plain values. No product logic is copied here: the harness only
// materialises the case description as Kubernetes objects and reads fields back.

import (
	"context"
	stdjson "encoding/json"
	"fmt"
	"reflect"
	"strings"
	"testing"

	jsonpatchapply "github.com/evanphx/json-patch"
	"github.com/go-logr/logr"
	admissionv1 "k8s.io/api/admission/v1"
	corev1 "k8s.io/api/core/v1"
	"k8s.io/apimachinery/pkg/api/resource"
	metav1 "k8s.io/apimachinery/pkg/apis/meta/v1"
	"k8s.io/apimachinery/pkg/runtime"
	ctrl "sigs.k8s.io/controller-runtime"
	"sigs.k8s.io/controller-runtime/pkg/client"
	"sigs.k8s.io/controller-runtime/pkg/client/fake"
	"sigs.k8s.io/controller-runtime/pkg/webhook/admission"

	"github.com/AliyunContainerService/terway/pkg/apis/network.alibabacloud.com/v1beta1"
	"github.com/AliyunContainerService/terway/types/controlplane"
	"github.com/AliyunContainerService/terway/zzverif/vt"
)

const (
	vwAnnoNets  = "k8s.aliyun.com/pod-networks"
	vwAnnoReqs  = "k8s.aliyun.com/pod-networks-request"
	vwAnnoPN    = "k8s.aliyun.com/pod-networking"
	vwAnnoENI   = "k8s.aliyun.com/pod-eni"
	vwLblIgnore = "k8s.aliyun.com/ignore-by-terway"
	vwZoneKey   = "topology.kubernetes.io/zone"
	vwResENI    = "aliyun/eni"
	vwResMember = "aliyun/member-eni"
	vwNamespace = "default"
	vwPodName   = "web-0"
)

func vwIDs(prefix string, n int) []string {
	r := []string{}
	for i := 0; i < n; i++ {
		r = append(r, fmt.Sprintf("%s-%d", prefix, i))
	}
	return r
}

func vwLabels(v any) map[string]string {
	r := map[string]string{}
	for _, x := range vt.List(v) {
		m := vt.Map(x)
		r[vt.Str(m["k"])] = vt.Str(m["v"])
	}
	return r
}

func vwSelector(v any) *metav1.LabelSelector {
	m := vt.Map(v)
	if !vt.Bool(m["on"]) {
		return nil
	}
	return &metav1.LabelSelector{MatchLabels: map[string]string{vt.Str(m["k"]): vt.Str(m["v"])}}
}

// vwNetsAnnotation renders the pod-networks annotation from the case description with plain maps (not
// with the product's types, so that a change of the product's JSON tags is seen as a behaviour change).
func vwNetsAnnotation(d vt.M) (string, bool) {
	switch vt.Str(d["form"]) {
	case "bad":
		return "{\"podNetworks\": [ {", true
	case "list":
		list := []any{}
		for _, x := range vt.List(d["entries"]) {
			e := vt.Map(x)
			o := map[string]any{"interface": vt.Str(e["ifn"])}
			if n := vt.Int(e["nvsw"]); n > 0 {
				o["vSwitchOptions"] = vwIDs("vsw-anno-"+vt.Str(e["ifn"]), n)
			}
			if n := vt.Int(e["nsg"]); n > 0 {
				o["securityGroupIDs"] = vwIDs("sg-anno", n)
			}
			switch vt.Str(e["alloc"]) {
			case "Elastic":
				o["allocationType"] = map[string]any{"type": "Elastic"}
			case "Fixed":
				o["allocationType"] = map[string]any{"type": "Fixed", "releaseStrategy": "TTL", "releaseAfter": "5m0s"}
			}
			list = append(list, o)
		}
		b, _ := stdjson.Marshal(map[string]any{"podNetworks": list})
		return string(b), true
	}
	return "", false
}

func vwReqsAnnotation(d vt.M) (string, bool) {
	switch vt.Str(d["form"]) {
	case "bad":
		return "[ {\"network\": ", true
	case "list":
		list := []any{}
		for _, x := range vt.List(d["refs"]) {
			e := vt.Map(x)
			o := map[string]any{"network": vt.Str(e["net"])}
			if s := vt.Str(e["ifn"]); s != "" {
				o["interfaceName"] = s
			}
			list = append(list, o)
		}
		b, _ := stdjson.Marshal(list)
		return string(b), true
	}
	return "", false
}

func vwPod(in vt.M) *corev1.Pod {
	pod := &corev1.Pod{
		TypeMeta:   metav1.TypeMeta{APIVersion: "v1", Kind: "Pod"},
		ObjectMeta: metav1.ObjectMeta{Namespace: vwNamespace, Name: vwPodName},
	}
	lbl := vwLabels(in["labels"])
	if vt.Bool(in["ignore"]) {
		lbl[vwLblIgnore] = "true"
	}
	if len(lbl) > 0 {
		pod.Labels = lbl
	}
	anno := map[string]string{}
	if s, ok := vwNetsAnnotation(vt.Map(in["nets"])); ok {
		anno[vwAnnoNets] = s
	}
	if s, ok := vwReqsAnnotation(vt.Map(in["reqs"])); ok {
		anno[vwAnnoReqs] = s
	}
	if vt.Bool(in["pnAnno"]) {
		anno[vwAnnoPN] = "pn-x"
	}
	if vt.Bool(in["podEni"]) {
		anno[vwAnnoENI] = "true"
	}
	if len(anno) > 0 {
		pod.Annotations = anno
	}
	if k := vt.Str(in["owner"]); k != "none" {
		t := true
		pod.OwnerReferences = []metav1.OwnerReference{{APIVersion: "apps/v1", Kind: k, Name: "owner", UID: "uid-owner", Controller: &t}}
	}
	pod.Spec.HostNetwork = vt.Bool(in["hostNet"])
	for i := 0; i < vt.Int(in["ncont"]); i++ {
		c := corev1.Container{Name: fmt.Sprintf("c%d", i), Image: "registry.example/app:1"}
		if i == 0 {
			c.Resources.Requests = corev1.ResourceList{corev1.ResourceCPU: resource.MustParse("100m")}
		}
		pod.Spec.Containers = append(pod.Spec.Containers, c)
	}
	// pre-existing required node affinity: term 1 restricts the zone (to every zone any network of the
	// domain lives in), term 2 does not mention the zone at all
	if n := vt.Int(in["aff"]); n > 0 {
		terms := []corev1.NodeSelectorTerm{{MatchExpressions: []corev1.NodeSelectorRequirement{
			{Key: vwZoneKey, Operator: corev1.NodeSelectorOpIn, Values: []string{"z1", "z2", "z3"}}}}}
		if n > 1 {
			terms = append(terms, corev1.NodeSelectorTerm{MatchExpressions: []corev1.NodeSelectorRequirement{
				{Key: "disk", Operator: corev1.NodeSelectorOpIn, Values: []string{"ssd"}}}})
		}
		pod.Spec.Affinity = &corev1.Affinity{NodeAffinity: &corev1.NodeAffinity{
			RequiredDuringSchedulingIgnoredDuringExecution: &corev1.NodeSelector{NodeSelectorTerms: terms}}}
	}
	return pod
}

func vwObjects(in vt.M) []client.Object {
	objs := []client.Object{
		&corev1.Namespace{ObjectMeta: metav1.ObjectMeta{Name: vwNamespace, Labels: vwLabels(in["nsLabels"])}},
	}
	if vt.Bool(in["cm"]) {
		objs = append(objs, &corev1.ConfigMap{
			ObjectMeta: metav1.ObjectMeta{Namespace: "kube-system", Name: "eni-config"},
			Data: map[string]string{"eni_conf": `{"version":"1","vswitches":{"z1":["vsw-cfg-1"],"z2":["vsw-cfg-2"]},"security_groups":["sg-cfg-1","sg-cfg-2"]}`},
		})
	}
	for _, x := range vt.List(in["pns"]) {
		d := vt.Map(x)
		name := vt.Str(d["name"])
		pn := &v1beta1.PodNetworking{ObjectMeta: metav1.ObjectMeta{Name: name}}
		pn.Spec.ENIOptions.ENIAttachType = v1beta1.ENIAttachType(vt.Str(d["attach"]))
		pn.Spec.AllocationType.Type = v1beta1.IPAllocTypeElastic
		if vt.Bool(d["fixed"]) {
			pn.Spec.AllocationType = v1beta1.AllocationType{Type: v1beta1.IPAllocTypeFixed, ReleaseStrategy: v1beta1.ReleaseStrategyTTL, ReleaseAfter: "5m0s"}
		}
		pn.Spec.Selector.PodSelector = vwSelector(d["podSel"])
		pn.Spec.Selector.NamespaceSelector = vwSelector(d["nsSel"])
		pn.Spec.SecurityGroupIDs = vwIDs("sg-"+name, vt.Int(d["nsg"]))
		for _, z := range vt.List(d["zones"]) {
			id := "vsw-" + name + "-" + vt.Str(z)
			pn.Spec.VSwitchOptions = append(pn.Spec.VSwitchOptions, id)
			pn.Status.VSwitches = append(pn.Status.VSwitches, v1beta1.VSwitch{ID: id, Zone: vt.Str(z)})
		}
		if len(pn.Spec.VSwitchOptions) == 0 {
			pn.Spec.VSwitchOptions = []string{"vsw-" + name + "-unresolved"}
		}
		pn.Status.Status = v1beta1.NetworkingStatusFail
		if vt.Bool(d["ready"]) {
			pn.Status.Status = v1beta1.NetworkingStatusReady
		}
		objs = append(objs, pn)
	}
	if z := vt.Str(in["prevZone"]); z != "" {
		objs = append(objs, &v1beta1.PodENI{
			ObjectMeta: metav1.ObjectMeta{Namespace: vwNamespace, Name: vwPodName},
			Spec: v1beta1.PodENISpec{Zone: z, Allocations: []v1beta1.Allocation{{IPv4: "10.0.0.9", ENI: v1beta1.ENI{ID: "eni-prev"}}}},
		})
	}
	return objs
}

func vwQuantity(l corev1.ResourceList, name string) int {
	q, ok := l[corev1.ResourceName(name)]
	if !ok {
		return 0
	}
	return int(q.Value())
}

// vwProject reads the admitted pod (input + patch) back into plain values.
func vwProject(out vt.M, patched []byte) {
	out["podEni"] = false
	out["podEniRaw"] = ""
	out["pnAnno"] = ""
	out["netsPresent"] = false
	out["netsOk"] = false
	out["entries"] = []vt.M{}
	out["reqEni"], out["reqMember"], out["limEni"], out["limMember"] = 0, 0, 0, 0
	out["aff"] = [][][]string{}
	out["decodeErr"] = ""

	pod := &corev1.Pod{}
	if err := stdjson.Unmarshal(patched, pod); err != nil {
		out["decodeErr"] = err.Error()
		return
	}
	if v, ok := pod.Annotations[vwAnnoENI]; ok {
		out["podEniRaw"] = v
		out["podEni"] = v == "true" || v == "True" || v == "TRUE" || v == "1" || v == "t" || v == "T"
	}
	out["pnAnno"] = pod.Annotations[vwAnnoPN]
	if v, ok := pod.Annotations[vwAnnoNets]; ok {
		out["netsPresent"] = true
		var doc map[string]any
		dec := stdjson.NewDecoder(strings.NewReader(v))
		if err := dec.Decode(&doc); err == nil {
			if list, isList := doc["podNetworks"].([]any); isList {
				ok := true
				entries := []vt.M{}
				for _, x := range list {
					e, isObj := x.(map[string]any)
					if !isObj {
						ok = false
						break
					}
					ifn, _ := e["interface"].(string)
					vsw, _ := e["vSwitchOptions"].([]any)
					sg, _ := e["securityGroupIDs"].([]any)
					at, hasAT := e["allocationType"].(map[string]any)
					typ := ""
					if hasAT {
						typ, _ = at["type"].(string)
					}
					entries = append(entries, vt.M{"ifn": ifn, "nvsw": len(vsw), "nsg": len(sg), "allocSet": hasAT, "allocType": typ})
				}
				if ok {
					out["netsOk"] = true
					out["entries"] = entries
				}
			}
		}
	}
	re, rm, le, lm := 0, 0, 0, 0
	for _, c := range pod.Spec.Containers {
		re += vwQuantity(c.Resources.Requests, vwResENI)
		rm += vwQuantity(c.Resources.Requests, vwResMember)
		le += vwQuantity(c.Resources.Limits, vwResENI)
		lm += vwQuantity(c.Resources.Limits, vwResMember)
	}
	out["reqEni"], out["reqMember"], out["limEni"], out["limMember"] = re, rm, le, lm

	// required node affinity: per term, the value lists of its "zone In [...]" expressions
	aff := [][][]string{}
	if a := pod.Spec.Affinity; a != nil && a.NodeAffinity != nil && a.NodeAffinity.RequiredDuringSchedulingIgnoredDuringExecution != nil {
		for _, t := range a.NodeAffinity.RequiredDuringSchedulingIgnoredDuringExecution.NodeSelectorTerms {
			term := [][]string{}
			for _, e := range t.MatchExpressions {
				if e.Key == vwZoneKey && e.Operator == corev1.NodeSelectorOpIn {
					vals := append([]string{}, e.Values...)
					term = append(term, vals)
				}
			}
			aff = append(aff, term)
		}
	}
	out["aff"] = aff
}

func vwSameJSON(a, b []byte) bool {
	var x, y any
	if stdjson.Unmarshal(a, &x) != nil || stdjson.Unmarshal(b, &y) != nil {
		return false
	}
	return reflect.DeepEqual(x, y)
}

// TestVerifWebhook runs the real pod admission webhook on every TLC-enumerated case.
func TestVerifWebhook(t *testing.T) {
	ctrl.SetLogger(logr.Discard())
	cases, err := vt.ReadNDJSON(vt.Env("VERIF_CASES", ""))
	if err != nil {
		t.Fatal(err)
	}
	w, err := vt.NewWriter(vt.Env("VERIF_RESULTS", ""))
	if err != nil {
		t.Fatal(err)
	}
	defer w.Close()

	scheme := runtime.NewScheme()
	_ = corev1.AddToScheme(scheme)
	_ = v1beta1.AddToScheme(scheme)

	for _, c := range cases {
		in := vt.Map(c["in"])
		if vt.Str(in["fn"]) != "pod" {
			continue
		}
		out := vt.M{"allowed": false, "code": 0, "reason": "", "nops": 0, "unchanged": false, "applyErr": ""}
		p := vt.Catch(func() {
			pod := vwPod(in)
			raw, err := stdjson.Marshal(pod)
			if err != nil {
				panic(err)
			}
			cl := fake.NewClientBuilder().WithScheme(scheme).WithObjects(vwObjects(in)...).Build()
			trunk, inject := vt.Bool(in["trunk"]), vt.Bool(in["inject"])
			cfg := &controlplane.Config{IPAMType: vt.Str(in["ipam"]), EnableTrunk: &trunk, EnableWebhookInjectResource: &inject}

			req := admission.Request{AdmissionRequest: admissionv1.AdmissionRequest{
				UID:       "verif-uid",
				Kind:      metav1.GroupVersionKind{Version: "v1", Kind: "Pod"},
				Resource:  metav1.GroupVersionResource{Version: "v1", Resource: "pods"},
				Namespace: vwNamespace,
				Name:      vwPodName,
				Operation: admissionv1.Create,
				Object:    runtime.RawExtension{Raw: raw},
			}}
			resp := MutatingHook(cl, cfg).Handle(context.Background(), req)

			out["allowed"] = resp.Allowed
			if resp.Result != nil {
				out["code"] = int(resp.Result.Code)
				out["reason"] = resp.Result.Message
				if len(resp.Result.Message) > 160 {
					out["reason"] = resp.Result.Message[:160]
				}
			}
			patchBytes := resp.Patch
			if len(patchBytes) == 0 && len(resp.Patches) > 0 {
				patchBytes, _ = stdjson.Marshal(resp.Patches)
			}
			patched := raw
			if len(patchBytes) > 0 {
				var ops []any
				_ = stdjson.Unmarshal(patchBytes, &ops)
				out["nops"] = len(ops)
				dp, err := jsonpatchapply.DecodePatch(patchBytes)
				if err != nil {
					out["applyErr"] = "decode: " + err.Error()
				} else if res, err := dp.Apply(raw); err != nil {
					out["applyErr"] = "apply: " + err.Error()
				} else {
					patched = res
				}
			}
			out["unchanged"] = vwSameJSON(raw, patched)
			vwProject(out, patched)
		})
		w.Write(vt.M{"id": c["id"], "out": out, "panic": p})
	}
}
