//go:build verif

package node

// C02 / C03 / C08 conformance harness (specs/Ipam.tla).
//
// System under test, all REAL code in one process:
//   - the cluster IPAM controller ReconcileNode (pool.go, eni.go, pod.go) with the real vswitch.SwitchPool,
//   - the daemon side of the protocol: eni.CRDV2 (Allocate/multiIP, Release, syncNodeRuntime, syncDeletedPods),
//     daemon.cleanRuntimeNode and utils.RuntimeFinalStatus (through the former two).
// Fakes: controller-runtime fake client (status subresources for Node / NodeRuntime, index spec.nodeName on pods,
// interceptors for write faults), a stateful fake cloud behind register.Interface (fault plan, begin/end events
// emitted under its mutex), a k8s.Kubernetes facade for the daemon gc.  The driver plays kubelet, API-server
// environment and the clock (by data: timestamps are aged, throttles reset); it contains no product logic.

import (
	"context"
	"fmt"
	"net/netip"
	"os"
	"sort"
	"strings"
	"sync"
	"testing"
	"time"

	sdkErr "github.com/aliyun/alibaba-cloud-sdk-go/sdk/errors"
	"github.com/aliyun/alibaba-cloud-sdk-go/services/vpc"
	"go.opentelemetry.io/otel/trace/noop"
	corev1 "k8s.io/api/core/v1"
	k8sErr "k8s.io/apimachinery/pkg/api/errors"
	"k8s.io/apimachinery/pkg/api/resource"
	metav1 "k8s.io/apimachinery/pkg/apis/meta/v1"
	"k8s.io/apimachinery/pkg/runtime"
	"k8s.io/apimachinery/pkg/runtime/schema"
	k8stypes "k8s.io/apimachinery/pkg/types"
	"k8s.io/apimachinery/pkg/util/wait"
	"sigs.k8s.io/controller-runtime/pkg/client"
	"sigs.k8s.io/controller-runtime/pkg/client/fake"
	"sigs.k8s.io/controller-runtime/pkg/client/interceptor"
	"sigs.k8s.io/controller-runtime/pkg/reconcile"

	terwayDaemon "github.com/AliyunContainerService/terway/daemon"
	"github.com/AliyunContainerService/terway/deviceplugin"
	aliyunClient "github.com/AliyunContainerService/terway/pkg/aliyun/client"
	apiErr "github.com/AliyunContainerService/terway/pkg/aliyun/client/errors"
	networkv1beta1 "github.com/AliyunContainerService/terway/pkg/apis/network.alibabacloud.com/v1beta1"
	register "github.com/AliyunContainerService/terway/pkg/controller"
	"github.com/AliyunContainerService/terway/pkg/eni"
	"github.com/AliyunContainerService/terway/pkg/k8s"
	"github.com/AliyunContainerService/terway/pkg/vswitch"
	"github.com/AliyunContainerService/terway/rpc"
	terwayTypes "github.com/AliyunContainerService/terway/types"
	"github.com/AliyunContainerService/terway/types/daemon"
	"github.com/AliyunContainerService/terway/zzverif/vt"
)

const (
	ipamNodeName = "node-1"
	ipamInstance = "i-verif"
	ipamVsw      = "vsw-1"
	ipamZone     = "zone-a"
)

// ---------------------------------------------------------------------------------------------
// numbering: ENI e <-> "eni-e"; IPv4 address k (1..99) <-> 10.0.0.k; IPv6 address k (101..199) <-> fd00::k;
// pod p <-> ns/pod-p; pod UID u <-> "u<u>".

func ipamAddr(k int) string {
	if k < 100 {
		return netip.AddrFrom4([4]byte{10, 0, 0, byte(k)}).String()
	}
	return netip.AddrFrom16([16]byte{0xfd, 0, 0, 0, 0, 0, 0, 0, 0, 0, 0, 0, 0, 0, 0, byte(k)}).String()
}
func ipamAddrNum(s string) int {
	a, err := netip.ParseAddr(s)
	if err != nil {
		return -1
	}
	b := a.AsSlice()
	return int(b[len(b)-1])
}
func ipamEniID(e int) string { return fmt.Sprintf("eni-%d", e) }
func ipamEniNum(id string) int {
	var e int
	if _, err := fmt.Sscanf(id, "eni-%d", &e); err != nil {
		return 0
	}
	return e
}
func ipamPodName(p int) string { return fmt.Sprintf("pod-%d", p) }
func ipamPodID(p int) string   { return fmt.Sprintf("ns/pod-%d", p) }
func ipamPodNum(id string) int {
	if id == "" {
		return 0
	}
	var p int
	if _, err := fmt.Sscanf(id, "ns/pod-%d", &p); err != nil {
		return -1
	}
	return p
}
func ipamUID(u int) string { return fmt.Sprintf("u%d", u) }
func ipamUIDNum(s string) int {
	if s == "" {
		return 0
	}
	var u int
	if _, err := fmt.Sscanf(s, "u%d", &u); err != nil {
		return -1
	}
	return u
}
func ipamSet(m map[int]bool) []int {
	r := []int{}
	for a := range m {
		r = append(r, a)
	}
	sort.Ints(r)
	return r
}

// ---------------------------------------------------------------------------------------------
// fake cloud behind register.Interface; mirrors the cloud variable of specs/Ipam.tla.

type ipamEni struct {
	typ     string // "Secondary" | "Trunk"
	rdma    bool
	att     bool // attached to the instance (status InUse), else Available
	mid     string // a transient status the cloud reports for an attached interface ("Attaching"), "" = none
	primary int
	v4, v6  map[int]bool
}

type ipamCloud struct {
	register.Interface // nil: any method the controller is not expected to call panics
	mu      sync.Mutex
	w       *vt.Writer
	enis    map[int]*ipamEni
	nextEni int
	cap4    int
	cap6    int
	maxEni  int
	plan    []string // outcomes of the next mutating calls, consumed in call order
	muts    int      // mutating calls begun
	faults  int
	describeFail int
	gone    map[int]bool // addresses removed by drift: not handed out again (the same address reappearing on another interface of the node within one sync period is not a scenario of interest)
}

func (c *ipamCloud) next() string {
	c.muts++
	if len(c.plan) == 0 {
		return "ok"
	}
	o := c.plan[0]
	c.plan = c.plan[1:]
	if o != "ok" {
		c.faults++
	}
	return o
}

func ipamCodeErr(o string) error {
	code := ""
	if i := strings.Index(o, ":"); i >= 0 {
		code = o[i+1:]
	}
	full := map[string]string{"enilimit": apiErr.ErrEniPerInstanceLimitExceeded, "vswfull": apiErr.InvalidVSwitchIDIPNotEnough,
		"ipquota": apiErr.QuotaExceededPrivateIPAddress, "throttle": apiErr.ErrThrottling, "v4count": apiErr.ErrIPv4CountExceeded,
		"v6count": apiErr.ErrIPv6CountExceeded}[code]
	if full == "" {
		return fmt.Errorf("verif: injected failure (%s)", o)
	}
	return sdkErr.NewServerError(403, fmt.Sprintf(`{"Code": %q, "Message": "verif"}`, full), "")
}

func (c *ipamCloud) freeAddr(fam int) int {
	lo, hi := 1, 99
	if fam == 6 {
		lo, hi = 101, 199
	}
	used := map[int]bool{}
	for _, e := range c.enis {
		for a := range e.v4 {
			used[a] = true
		}
		for a := range e.v6 {
			used[a] = true
		}
	}
	for a := lo; a <= hi; a++ { // lowest free first: a released address comes back quickly (ABA)
		if !used[a] && !c.gone[a] {
			return a
		}
	}
	panic("verif: address universe exhausted")
}

func (c *ipamCloud) api(e int) *aliyunClient.NetworkInterface {
	fe := c.enis[e]
	st := aliyunClient.ENIStatusAvailable
	ins := ""
	if fe.att {
		st, ins = aliyunClient.ENIStatusInUse, ipamInstance
		if fe.mid != "" {
			st = fe.mid
		}
	}
	mode := aliyunClient.ENITrafficModeStandard
	if fe.rdma {
		mode = aliyunClient.ENITrafficModeRDMA
	}
	ni := &aliyunClient.NetworkInterface{Status: st, MacAddress: fmt.Sprintf("00:16:3e:00:00:%02x", e), NetworkInterfaceID: ipamEniID(e),
		VSwitchID: ipamVsw, PrivateIPAddress: ipamAddr(fe.primary), ZoneID: ipamZone, SecurityGroupIDs: []string{"sg-1"}, Type: fe.typ,
		InstanceID: ins, NetworkInterfaceTrafficMode: mode}
	for _, a := range ipamSet(fe.v4) {
		ni.PrivateIPSets = append(ni.PrivateIPSets, aliyunClient.IPSet{IPAddress: ipamAddr(a), Primary: a == fe.primary})
	}
	for _, a := range ipamSet(fe.v6) {
		ni.IPv6Set = append(ni.IPv6Set, aliyunClient.IPSet{IPAddress: ipamAddr(a)})
	}
	return ni
}

func (c *ipamCloud) snapshot() []vt.M {
	es := []int{}
	for e := range c.enis {
		es = append(es, e)
	}
	sort.Ints(es)
	r := []vt.M{}
	for _, e := range es {
		fe := c.enis[e]
		r = append(r, vt.M{"e": e, "att": fe.att, "type": fe.typ, "rdma": fe.rdma, "primary": fe.primary, "v4": ipamSet(fe.v4), "v6": ipamSet(fe.v6)})
	}
	return r
}

func (c *ipamCloud) DescribeVSwitchByID(ctx context.Context, id string) (*vpc.VSwitch, error) {
	return &vpc.VSwitch{VSwitchId: id, ZoneId: ipamZone, AvailableIpAddressCount: 1000, CidrBlock: "10.0.0.0/16", Ipv6CidrBlock: "fd00::/64"}, nil
}

// Listing by instance returns the interfaces attached to it; a lookup by id returns the interface whatever its
// attachment (assumption, lenient: the controller expects to see status Available from such a lookup).
func (c *ipamCloud) DescribeNetworkInterfaceV2(ctx context.Context, opts ...aliyunClient.DescribeNetworkInterfaceOption) ([]*aliyunClient.NetworkInterface, error) {
	o := &aliyunClient.DescribeNetworkInterfaceOptions{}
	for _, x := range opts {
		x.ApplyTo(o)
	}
	c.mu.Lock()
	defer c.mu.Unlock()
	if c.describeFail > 0 {
		c.describeFail--
		c.w.Emit(vt.M{"ev": "describe_fail"})
		return nil, fmt.Errorf("verif: injected describe failure")
	}
	var r []*aliyunClient.NetworkInterface
	if o.NetworkInterfaceIDs != nil {
		ids := []int{}
		for _, id := range *o.NetworkInterfaceIDs {
			if e := ipamEniNum(id); c.enis[e] != nil {
				r = append(r, c.api(e))
				ids = append(ids, e)
			}
		}
		c.w.Emit(vt.M{"ev": "lookup", "found": ids})
		return r, nil
	}
	seen := []vt.M{}
	for _, s := range c.snapshot() {
		if s["att"].(bool) {
			r = append(r, c.api(s["e"].(int)))
			seen = append(seen, s)
		}
	}
	c.w.Emit(vt.M{"ev": "describe", "enis": seen})
	return r, nil
}

func (c *ipamCloud) CreateNetworkInterfaceV2(ctx context.Context, opts ...aliyunClient.CreateNetworkInterfaceOption) (*aliyunClient.NetworkInterface, error) {
	o := &aliyunClient.CreateNetworkInterfaceOptions{}
	for _, x := range opts {
		x.ApplyCreateNetworkInterface(o)
	}
	no := o.NetworkInterfaceOptions
	typ := "Secondary"
	if no.Trunk {
		typ = "Trunk"
	}
	c.mu.Lock()
	defer c.mu.Unlock()
	out := c.next()
	c.w.Emit(vt.M{"ev": "create_begin", "n4": no.IPCount, "n6": no.IPv6Count, "type": typ, "rdma": no.ERDMA, "plan": out})
	if out != "ok" { // an error after the effect without a result is the idempotency token's business (C16), not modelled here
		c.w.Emit(vt.M{"ev": "create_end", "e": 0, "type": "", "rdma": false, "primary": 0, "v4": []int{}, "v6": []int{}})
		return nil, ipamCodeErr(out)
	}
	c.nextEni++
	e := c.nextEni
	fe := &ipamEni{typ: typ, rdma: no.ERDMA, v4: map[int]bool{}, v6: map[int]bool{}}
	c.enis[e] = fe
	n4 := no.IPCount
	if n4 < 1 {
		n4 = 1
	}
	for i := 0; i < n4; i++ {
		a := c.freeAddr(4)
		fe.v4[a] = true
		if i == 0 {
			fe.primary = a
		}
	}
	for i := 0; i < no.IPv6Count; i++ {
		fe.v6[c.freeAddr(6)] = true
	}
	c.w.Emit(vt.M{"ev": "create_end", "e": e, "type": typ, "rdma": fe.rdma, "primary": fe.primary, "v4": ipamSet(fe.v4), "v6": ipamSet(fe.v6)})
	ni := c.api(e)
	ni.NetworkInterfaceTrafficMode = "" // the create response carries no traffic mode (FromCreateResp)
	return ni, nil
}

func (c *ipamCloud) AttachNetworkInterface(ctx context.Context, opts ...aliyunClient.AttachNetworkInterfaceOption) error {
	o := &aliyunClient.AttachNetworkInterfaceOptions{}
	for _, x := range opts {
		x.ApplyTo(o)
	}
	e := ipamEniNum(*o.NetworkInterfaceID)
	c.mu.Lock()
	defer c.mu.Unlock()
	out := c.next()
	fe := c.enis[e]
	att := 0
	for _, x := range c.enis {
		if x.att {
			att++
		}
	}
	effect := fe != nil && !strings.HasPrefix(out, "fb")
	if effect && att >= c.maxEni { // the cloud enforces the instance's adapter limit
		effect, out = false, "fb:enilimit"
	}
	if effect {
		fe.att = true
	}
	c.w.Emit(vt.M{"ev": "attach", "e": e, "effect": effect, "plan": out})
	if out != "ok" {
		return ipamCodeErr(out)
	}
	return nil
}

func (c *ipamCloud) WaitForNetworkInterfaceV2(ctx context.Context, eniID string, status string, backoff wait.Backoff, ignoreNotExist bool) (*aliyunClient.NetworkInterface, error) {
	e := ipamEniNum(eniID)
	c.mu.Lock()
	defer c.mu.Unlock()
	fe := c.enis[e]
	if fe == nil {
		if ignoreNotExist {
			return nil, apiErr.ErrNotFound
		}
		return nil, fmt.Errorf("verif: wait for %s: not found", eniID)
	}
	ni := c.api(e)
	if status != "" && ni.Status != status {
		return nil, fmt.Errorf("verif: wait for %s to be %s timed out (is %s)", eniID, status, ni.Status)
	}
	return ni, nil
}

func (c *ipamCloud) assign(id string, n int, fam int) ([]aliyunClient.IPSet, error) {
	e := ipamEniNum(id)
	c.mu.Lock()
	defer c.mu.Unlock()
	out := c.next()
	c.w.Emit(vt.M{"ev": "assign_begin", "e": e, "fam": fam, "n": n, "plan": out})
	fe := c.enis[e]
	if fe != nil && !strings.HasPrefix(out, "fb") { // the cloud enforces the per-interface quota
		set, lim, code := fe.v4, c.cap4, "fb:v4count"
		if fam == 6 {
			set, lim, code = fe.v6, c.cap6, "fb:v6count"
		}
		if len(set)+n > lim {
			out = code
		}
	}
	if fe == nil || strings.HasPrefix(out, "fb") {
		if fe == nil && out == "ok" {
			out = "fb"
		}
		c.w.Emit(vt.M{"ev": "assign_end", "e": e, "fam": fam, "addrs": []int{}, "told": false})
		return nil, ipamCodeErr(out)
	}
	var r []aliyunClient.IPSet
	got := []int{}
	for i := 0; i < n; i++ {
		a := c.freeAddr(fam)
		if fam == 4 {
			fe.v4[a] = true
		} else {
			fe.v6[a] = true
		}
		got = append(got, a)
		r = append(r, aliyunClient.IPSet{IPAddress: ipamAddr(a)})
	}
	told := out == "ok"
	c.w.Emit(vt.M{"ev": "assign_end", "e": e, "fam": fam, "addrs": got, "told": told})
	if !told { // time-out after the effect: the caller sees an error and no result
		return nil, ipamCodeErr(out)
	}
	return r, nil
}

func (c *ipamCloud) AssignPrivateIPAddressV2(ctx context.Context, opts ...aliyunClient.AssignPrivateIPAddressOption) ([]aliyunClient.IPSet, error) {
	o := &aliyunClient.AssignPrivateIPAddressOptions{}
	for _, x := range opts {
		x.ApplyAssignPrivateIPAddress(o)
	}
	return c.assign(o.NetworkInterfaceOptions.NetworkInterfaceID, o.NetworkInterfaceOptions.IPCount, 4)
}

func (c *ipamCloud) AssignIpv6AddressesV2(ctx context.Context, opts ...aliyunClient.AssignIPv6AddressesOption) ([]aliyunClient.IPSet, error) {
	o := &aliyunClient.AssignIPv6AddressesOptions{}
	for _, x := range opts {
		x.ApplyAssignIPv6Addresses(o)
	}
	return c.assign(o.NetworkInterfaceOptions.NetworkInterfaceID, o.NetworkInterfaceOptions.IPv6Count, 6)
}

func (c *ipamCloud) unassign(id string, ips []aliyunClient.IPSet, fam int) error {
	e := ipamEniNum(id)
	as := []int{}
	for _, ip := range ips {
		as = append(as, ipamAddrNum(ip.IPAddress))
	}
	sort.Ints(as)
	c.mu.Lock()
	defer c.mu.Unlock()
	out := c.next()
	c.w.Emit(vt.M{"ev": "unassign_begin", "e": e, "fam": fam, "addrs": as, "plan": out})
	fe := c.enis[e]
	effect := fe != nil && !strings.HasPrefix(out, "fb")
	if effect {
		for _, a := range as {
			delete(fe.v4, a)
			delete(fe.v6, a)
		}
	}
	c.w.Emit(vt.M{"ev": "unassign_end", "e": e, "fam": fam, "addrs": as, "effect": effect})
	if out != "ok" {
		return ipamCodeErr(out)
	}
	return nil // an address or interface that is already gone counts as success (as the real client does)
}

func (c *ipamCloud) UnAssignPrivateIPAddressesV2(ctx context.Context, eniID string, ips []aliyunClient.IPSet) error {
	return c.unassign(eniID, ips, 4)
}
func (c *ipamCloud) UnAssignIpv6AddressesV2(ctx context.Context, eniID string, ips []aliyunClient.IPSet) error {
	return c.unassign(eniID, ips, 6)
}

func (c *ipamCloud) DetachNetworkInterface(ctx context.Context, eniID, instanceID, trunkENIID string) error {
	e := ipamEniNum(eniID)
	c.mu.Lock()
	defer c.mu.Unlock()
	out := c.next()
	fe := c.enis[e]
	effect := fe != nil && fe.att && !strings.HasPrefix(out, "fb")
	c.w.Emit(vt.M{"ev": "detach", "e": e, "effect": effect, "plan": out})
	if effect {
		fe.att = false
	}
	if out != "ok" {
		return ipamCodeErr(out)
	}
	return nil // not found / not attached: success (as the real client does for not-found)
}

func (c *ipamCloud) DeleteNetworkInterfaceV2(ctx context.Context, eniID string) error {
	e := ipamEniNum(eniID)
	c.mu.Lock()
	defer c.mu.Unlock()
	out := c.next()
	c.w.Emit(vt.M{"ev": "delete_begin", "e": e, "plan": out})
	fe := c.enis[e]
	var err error
	effect := false
	switch {
	case strings.HasPrefix(out, "fb"):
		err = ipamCodeErr(out)
	case fe == nil:
		err = fmt.Errorf("verif: InvalidEniId.NotFound %s", eniID)
	case fe.att:
		err = fmt.Errorf("verif: InvalidOperation.InvalidEniState %s is attached", eniID)
	default:
		effect = true
		delete(c.enis, e)
		if out != "ok" {
			err = ipamCodeErr(out)
		}
	}
	c.w.Emit(vt.M{"ev": "delete_end", "e": e, "effect": effect})
	return err
}

// ---------------------------------------------------------------------------------------------
// k8s facade for the daemon's gc step

type ipamK8s struct {
	k8s.Kubernetes
	c     client.Client
	w     *vt.Writer
	rdma  bool
	existFail bool // the uncached "does this pod exist" read fails (transient API failure)
	cache map[string]*daemon.PodInfo // what the real facade keeps in pod.db: the last copy seen of every pod
}

// GetPod answers from the fake API server; for a vanished pod the cached copy is returned (as pkg/k8s does).
func (k *ipamK8s) GetPod(ctx context.Context, namespace, name string, cache bool) (*daemon.PodInfo, error) {
	key := namespace + "/" + name
	pod := &corev1.Pod{}
	err := k.c.Get(ctx, client.ObjectKey{Namespace: namespace, Name: name}, pod)
	if err != nil {
		if k8sErr.IsNotFound(err) {
			if pi, ok := k.cache[key]; ok {
				return pi, nil
			}
		}
		return nil, err
	}
	pi := &daemon.PodInfo{Name: name, Namespace: namespace, PodNetworkType: daemon.PodNetworkTypeENIMultiIP, PodUID: string(pod.UID),
		SandboxExited: pod.Status.Phase == corev1.PodSucceeded || pod.Status.Phase == corev1.PodFailed}
	if k.rdma {
		for _, c := range append(append([]corev1.Container{}, pod.Spec.InitContainers...), pod.Spec.Containers...) {
			if q, ok := c.Resources.Limits[corev1.ResourceName(deviceplugin.ERDMAResName)]; ok && !q.IsZero() {
				pi.ERdma = true
			}
		}
	}
	k.cache[key] = pi
	return pi, nil
}
func (k *ipamK8s) GetServiceCIDR() *terwayTypes.IPNetSet { return &terwayTypes.IPNetSet{} }
func (k *ipamK8s) PatchPodIPInfo(info *daemon.PodInfo, ips string) error { return nil }

func (k *ipamK8s) GetClient() client.Client { return k.c }
func (k *ipamK8s) NodeName() string         { return ipamNodeName }
func (k *ipamK8s) PodExist(namespace, name string) (bool, error) {
	if k.existFail {
		k.w.Emit(vt.M{"ev": "pod_exist_err", "p": ipamPodNum(namespace + "/" + name)})
		return false, fmt.Errorf("verif: injected API read failure")
	}
	pod := &corev1.Pod{}
	err := k.c.Get(context.Background(), client.ObjectKey{Namespace: namespace, Name: name}, pod)
	res := err == nil && pod.Spec.NodeName == ipamNodeName
	if err != nil && !k8sErr.IsNotFound(err) {
		return false, err
	}
	k.w.Emit(vt.M{"ev": "pod_exist", "p": ipamPodNum(namespace + "/" + name), "res": res})
	return res, nil
}

type ipamNoRecorder struct{}

func (ipamNoRecorder) Event(object runtime.Object, eventtype, reason, message string) {}
func (ipamNoRecorder) Eventf(object runtime.Object, eventtype, reason, messageFmt string, args ...interface{}) {
}
func (ipamNoRecorder) AnnotatedEventf(object runtime.Object, annotations map[string]string, eventtype, reason, messageFmt string, args ...interface{}) {
}

// ---------------------------------------------------------------------------------------------
// the system

type ipamConf struct {
	v4, v6       bool
	cap4, cap6   int
	sec          int  // secondary interfaces in the flavor
	trunk        bool // flavor has one trunk interface and trunking is enabled
	rdma         int  // RDMA interfaces in the flavor (ERDMA enabled iff > 0)
	min, max     int
	pre          int    // interfaces attached before the controller first runs
	preIPs       int    // addresses per family on each of them
	init         string // "empty" | "takeover" | "partial"
	env          string // "clean" | "all"
	noRuntime    bool
}

type ipamPod struct {
	uid    int
	live   bool
	rdma   bool
	sbUp   bool
	lay    int // container layout of an RDMA pod
	cid    string // container id of the sandbox that is up
	e, a4, a6 int
}

type ipamSys struct {
	t       *testing.T
	w       *vt.Writer
	conf    ipamConf
	cloud   *ipamCloud
	c       client.WithWatch
	rec     *ReconcileNode
	pool    *vswitch.SwitchPool
	crd     *eni.CRDV2
	svc     *terwayDaemon.VerifIpamService // the real CNI ADD / DEL handlers of the node daemon, CRD IPAM mode
	nextCid int
	k8s     *ipamK8s
	pods    map[int]*ipamPod
	zombies map[int]*ipamPod // pod UID -> sandbox still up although the pod object is gone
	zombieP map[int]int
	nextUID int
	// fault switches read by the interceptors
	crWrite string // outcome of the next Node status update: "" | "conflict" | "error"
	rtFail  bool   // NodeRuntime writes fail
	rtBy    string
	inRec   bool // a Reconcile is running (record writes are the controller's)
}

func ipamFlavor(cf ipamConf) []networkv1beta1.Flavor {
	f := []networkv1beta1.Flavor{{NetworkInterfaceType: networkv1beta1.ENITypeSecondary, NetworkInterfaceTrafficMode: networkv1beta1.NetworkInterfaceTrafficModeStandard, Count: cf.sec}}
	if cf.trunk {
		f = append(f, networkv1beta1.Flavor{NetworkInterfaceType: networkv1beta1.ENITypeTrunk, NetworkInterfaceTrafficMode: networkv1beta1.NetworkInterfaceTrafficModeStandard, Count: 1})
	}
	if cf.rdma > 0 {
		f = append(f, networkv1beta1.Flavor{NetworkInterfaceType: networkv1beta1.ENITypeSecondary, NetworkInterfaceTrafficMode: networkv1beta1.NetworkInterfaceTrafficModeHighPerformance, Count: cf.rdma})
	}
	return f
}

func (s *ipamSys) maxEni() int {
	n := s.conf.sec + s.conf.rdma
	if s.conf.trunk {
		n++
	}
	return n
}

func (s *ipamSys) newReconciler() {
	s.rec = &ReconcileNode{client: s.c, scheme: terwayTypes.Scheme, record: ipamNoRecorder{}, aliyun: s.cloud, vswpool: s.pool,
		fullSyncNodePeriod: time.Hour, gcPeriod: 0, tracer: noop.NewTracerProvider().Tracer(""), eniBatchSize: 5}
}

func newIpamSys(t *testing.T, w *vt.Writer, cf ipamConf, scen int) *ipamSys {
	s := &ipamSys{t: t, w: w, conf: cf, pods: map[int]*ipamPod{}, zombies: map[int]*ipamPod{}, zombieP: map[int]int{}, nextUID: 1}
	s.cloud = &ipamCloud{w: w, enis: map[int]*ipamEni{}, cap4: cf.cap4, cap6: cf.cap6, gone: map[int]bool{}}
	s.cloud.maxEni = s.maxEni()
	var err error
	s.pool, err = vswitch.NewSwitchPool(100, "10m")
	if err != nil {
		t.Fatal(err)
	}
	funcs := interceptor.Funcs{
		SubResourceUpdate: func(ctx context.Context, c client.Client, sub string, obj client.Object, opts ...client.SubResourceUpdateOption) error {
			if _, ok := obj.(*networkv1beta1.Node); !ok || sub != "status" || !s.inRec {
				return c.SubResource(sub).Update(ctx, obj, opts...)
			}
			if s.crWrite != "" {
				o := s.crWrite
				s.crWrite = ""
				s.w.Emit(vt.M{"ev": "cr_write", "ok": false, "kind": o})
				if o == "conflict" {
					return k8sErr.NewConflict(schema.GroupResource{Group: "network.alibabacloud.com", Resource: "nodes"}, obj.GetName(), fmt.Errorf("verif"))
				}
				return fmt.Errorf("verif: injected status update failure")
			}
			err := c.SubResource(sub).Update(ctx, obj, opts...)
			s.w.Emit(vt.M{"ev": "cr_write", "ok": err == nil, "kind": "ok"})
			return err
		},
		Patch: func(ctx context.Context, c client.WithWatch, obj client.Object, patch client.Patch, opts ...client.PatchOption) error {
			if _, ok := obj.(*networkv1beta1.NodeRuntime); ok && s.rtFail {
				return fmt.Errorf("verif: injected NodeRuntime write failure")
			}
			return c.Patch(ctx, obj, patch, opts...)
		},
		SubResourcePatch: func(ctx context.Context, c client.Client, sub string, obj client.Object, patch client.Patch, opts ...client.SubResourcePatchOption) error {
			if _, ok := obj.(*networkv1beta1.NodeRuntime); ok && s.rtFail {
				return fmt.Errorf("verif: injected NodeRuntime write failure")
			}
			err := c.SubResource(sub).Patch(ctx, obj, patch, opts...)
			if _, ok := obj.(*networkv1beta1.NodeRuntime); ok && err == nil {
				s.emitRt(s.rtBy)
			}
			return err
		},
	}
	s.c = fake.NewClientBuilder().WithScheme(terwayTypes.Scheme).
		WithStatusSubresource(&networkv1beta1.Node{}, &networkv1beta1.NodeRuntime{}).
		WithIndex(&corev1.Pod{}, "spec.nodeName", func(o client.Object) []string { return []string{o.(*corev1.Pod).Spec.NodeName} }).
		WithInterceptorFuncs(funcs).Build()
	s.k8s = &ipamK8s{c: s.c, w: w, rdma: cf.rdma > 0, cache: map[string]*daemon.PodInfo{}}
	s.crd = eni.VerifIpamNewCRDV2(s.c, ipamNodeName, terwayTypes.Scheme)
	s.svc = terwayDaemon.VerifIpamNewService(s.k8s, eni.NewManager(0, 0, 0, 0, []eni.NetworkInterface{s.crd}, "", nil), cf.v4, cf.v6)
	s.newReconciler()

	// --- initial cloud: interfaces attached before the controller first runs
	for i := 0; i < cf.pre; i++ {
		s.cloud.nextEni++
		fe := &ipamEni{typ: "Secondary", att: true, v4: map[int]bool{}, v6: map[int]bool{}}
		if cf.trunk && i == 0 {
			fe.typ = "Trunk"
		}
		s.cloud.enis[s.cloud.nextEni] = fe
		n4, n6 := 1, 0
		if cf.v4 {
			n4 = cf.preIPs
		}
		if cf.v6 {
			n6 = cf.preIPs
		}
		for j := 0; j < n4; j++ {
			a := s.cloud.freeAddr(4)
			fe.v4[a] = true
			if j == 0 {
				fe.primary = a
			}
		}
		for j := 0; j < n6; j++ {
			fe.v6[s.cloud.freeAddr(6)] = true
		}
	}

	// --- API objects
	node := &networkv1beta1.Node{ObjectMeta: metav1.ObjectMeta{Name: ipamNodeName}}
	node.Spec = networkv1beta1.NodeSpec{
		NodeMetadata: networkv1beta1.NodeMetadata{RegionID: "cn-verif", InstanceType: "ecs.verif", InstanceID: ipamInstance, ZoneID: ipamZone},
		NodeCap:      networkv1beta1.NodeCap{Adapters: s.maxEni() + 1, TotalAdapters: s.maxEni() + 1, IPv4PerAdapter: cf.cap4, IPv6PerAdapter: cf.cap6},
		ENISpec: &networkv1beta1.ENISpec{VSwitchOptions: []string{ipamVsw}, SecurityGroupIDs: []string{"sg-1"}, EnableIPv4: cf.v4, EnableIPv6: cf.v6,
			EnableERDMA: cf.rdma > 0, EnableTrunk: cf.trunk, VSwitchSelectPolicy: networkv1beta1.VSwitchSelectionPolicyOrdered},
		Pool:   &networkv1beta1.PoolSpec{MaxPoolSize: cf.max, MinPoolSize: cf.min},
		Flavor: ipamFlavor(cf),
	}
	if err := s.c.Create(context.Background(), node); err != nil {
		t.Fatal(err)
	}
	if !cf.noRuntime {
		rt := &networkv1beta1.NodeRuntime{ObjectMeta: metav1.ObjectMeta{Name: ipamNodeName}}
		if err := s.c.Create(context.Background(), rt); err != nil {
			t.Fatal(err)
		}
	}

	// --- take-over: pods of a previous version already run with addresses of the attached interfaces
	crIPs := []vt.M{}
	crEnis := []vt.M{}
	if cf.init == "takeover" || cf.init == "partial" {
		es := []int{}
		for e := range s.cloud.enis {
			es = append(es, e)
		}
		sort.Ints(es)
		p := 0
		status := networkv1beta1.NodeStatus{NetworkInterfaces: map[string]*networkv1beta1.NetworkInterface{}}
		for _, e := range es {
			fe := s.cloud.enis[e]
			ni := newENIFromAPI(s.cloud.api(e)) // input construction: the record a previous controller version published
			ni.IPv4CIDR, ni.IPv6CIDR = "10.0.0.0/16", "fd00::/64"
			status.NetworkInterfaces[ni.ID] = ni
			crEnis = append(crEnis, vt.M{"e": e, "st": ni.Status, "type": string(ni.NetworkInterfaceType), "rdma": false})
			v4s, v6s := ipamSet(fe.v4), ipamSet(fe.v6)
			for j := 0; j < cf.preIPs && p < 3; j++ {
				if j == 0 && !cf.v6 && scen%2 == 0 {
					continue // leave the primary address idle in some runs
				}
				p++
				pd := &ipamPod{uid: s.nextUID, live: true, sbUp: true, e: e}
				s.nextUID++
				if cf.v4 && j < len(v4s) {
					pd.a4 = v4s[j]
				}
				if cf.v6 && j < len(v6s) {
					pd.a6 = v6s[j]
				}
				s.pods[p] = pd
				s.createPodObj(p, pd, true)
				// the daemon of the previous version has this sandbox on record
				s.nextCid++
				pd.cid = fmt.Sprintf("cid-%d", s.nextCid)
				lr := &eni.LocalIPResource{ENI: daemon.ENI{ID: ipamEniID(e), MAC: s.cloud.api(e).MacAddress}}
				if pd.a4 != 0 {
					lr.IP.IPv4 = netip.MustParseAddr(ipamAddr(pd.a4))
				}
				if pd.a6 != 0 {
					lr.IP.IPv6 = netip.MustParseAddr(ipamAddr(pd.a6))
				}
				pi, err := s.k8s.GetPod(context.Background(), "ns", ipamPodName(p), false)
				if err != nil {
					t.Fatal(err)
				}
				if err := s.svc.Seed(pi, pd.cid, lr.ToStore()); err != nil {
					t.Fatal(err)
				}
				if cf.init == "partial" {
					// the previous version had published (part of) the bindings: pod p%3==0 fully with UID, ==1 without UID, ==2 IPv4 only
					mode := p % 3
					if pd.a4 != 0 {
						ip := ni.IPv4[ipamAddr(pd.a4)]
						ip.PodID = ipamPodID(p)
						if mode == 0 {
							ip.PodUID = ipamUID(pd.uid)
						}
					}
					if pd.a6 != 0 && mode != 2 {
						ip := ni.IPv6[ipamAddr(pd.a6)]
						ip.PodID = ipamPodID(p)
						if mode == 0 {
							ip.PodUID = ipamUID(pd.uid)
						}
					}
				}
			}
		}
		if cf.init == "partial" {
			node.Status = status
			node.Status.NextSyncOpenAPITime = metav1.NewTime(time.Now().Add(time.Hour))
			if err := s.c.Status().Update(context.Background(), node); err != nil {
				t.Fatal(err)
			}
		} else {
			crEnis = []vt.M{}
		}
	}
	_ = crIPs
	s.cloud.mu.Lock()
	cr := s.readCR()
	w.Emit(vt.M{"ev": "reset", "scen": scen, "env": cf.env, "conf": vt.M{"v4": cf.v4, "v6": cf.v6, "cap4": cf.cap4, "cap6": cf.cap6, "sec": cf.sec,
		"trunk": cf.trunk, "rdma": cf.rdma, "min": cf.min, "max": cf.max, "maxEni": s.maxEni(), "init": cf.init},
		"cloud": s.cloud.snapshot(), "enis": cr["enis"], "ips": cr["ips"], "pods": s.podList()})
	s.cloud.mu.Unlock()
	return s
}

func (s *ipamSys) podList() []vt.M {
	ps := []int{}
	for p := range s.pods {
		ps = append(ps, p)
	}
	sort.Ints(ps)
	r := []vt.M{}
	for _, p := range ps {
		pd := s.pods[p]
		r4, r6 := 0, 0
		if pd.sbUp {
			r4, r6 = pd.a4, pd.a6
		}
		r = append(r, vt.M{"p": p, "u": pd.uid, "live": pd.live, "rdma": pd.rdma, "r4": r4, "r6": r6, "up": pd.sbUp, "e": pd.e})
	}
	return r
}

func (s *ipamSys) createPodObj(p int, pd *ipamPod, report bool) {
	pod := &corev1.Pod{ObjectMeta: metav1.ObjectMeta{Namespace: "ns", Name: ipamPodName(p), UID: k8stypes.UID(ipamUID(pd.uid))},
		Spec: corev1.PodSpec{NodeName: ipamNodeName, Containers: []corev1.Container{{Name: "c", Image: "i"}}}}
	if pd.rdma {
		// where the aliyun/erdma limit sits: only container / first of two (a sidecar follows) / last of two / an init container
		lim := corev1.ResourceList{corev1.ResourceName(deviceplugin.ERDMAResName): resource.MustParse("1")}
		side := corev1.Container{Name: "sidecar", Image: "i"}
		switch pd.lay % 4 {
		case 0:
			pod.Spec.Containers[0].Resources.Limits = lim
		case 1:
			pod.Spec.Containers[0].Resources.Limits = lim
			pod.Spec.Containers = append(pod.Spec.Containers, side)
		case 2:
			pod.Spec.Containers = append([]corev1.Container{side}, pod.Spec.Containers...)
			pod.Spec.Containers[1].Resources.Limits = lim
		case 3:
			pod.Spec.InitContainers = []corev1.Container{{Name: "init", Image: "i", Resources: corev1.ResourceRequirements{Limits: lim}}}
			pod.Spec.Containers = append(pod.Spec.Containers, side)
		}
	}
	pod.Status.Phase = corev1.PodPending
	if report {
		pod.Status.Phase = corev1.PodRunning
		ipamSetPodIPs(pod, pd.a4, pd.a6)
	}
	if err := s.c.Create(context.Background(), pod); err != nil {
		s.t.Fatalf("create pod: %v", err)
	}
}

func ipamSetPodIPs(pod *corev1.Pod, a4, a6 int) {
	pod.Status.PodIPs = nil
	pod.Status.PodIP = ""
	if a4 != 0 {
		pod.Status.PodIP = ipamAddr(a4)
		pod.Status.PodIPs = append(pod.Status.PodIPs, corev1.PodIP{IP: ipamAddr(a4)})
	}
	if a6 != 0 {
		if pod.Status.PodIP == "" {
			pod.Status.PodIP = ipamAddr(a6)
		}
		pod.Status.PodIPs = append(pod.Status.PodIPs, corev1.PodIP{IP: ipamAddr(a6)})
	}
}

// readCR flattens the published Node CR status.
func (s *ipamSys) readCR() vt.M {
	node := &networkv1beta1.Node{}
	if err := s.c.Get(context.Background(), client.ObjectKey{Name: ipamNodeName}, node); err != nil {
		s.t.Fatalf("get node cr: %v", err)
	}
	enis, ips := []vt.M{}, []vt.M{}
	ids := []string{}
	for id := range node.Status.NetworkInterfaces {
		ids = append(ids, id)
	}
	sort.Strings(ids)
	for _, id := range ids {
		ni := node.Status.NetworkInterfaces[id]
		e := ipamEniNum(id)
		enis = append(enis, vt.M{"e": e, "st": ni.Status, "type": string(ni.NetworkInterfaceType),
			"rdma": ni.NetworkInterfaceTrafficMode == networkv1beta1.NetworkInterfaceTrafficModeHighPerformance})
		for _, m := range []map[string]*networkv1beta1.IP{ni.IPv4, ni.IPv6} {
			ks := []string{}
			for k := range m {
				ks = append(ks, k)
			}
			sort.Strings(ks)
			for _, k := range ks {
				ip := m[k]
				ips = append(ips, vt.M{"e": e, "a": ipamAddrNum(k), "p": ipamPodNum(ip.PodID), "u": ipamUIDNum(ip.PodUID), "st": string(ip.Status), "prim": ip.Primary})
			}
		}
	}
	return vt.M{"enis": enis, "ips": ips}
}

// emitRt logs the whole NodeRuntime status as raw timestamps (seconds); which one is "final" is the spec's business.
func (s *ipamSys) emitRt(by string) {
	rt := &networkv1beta1.NodeRuntime{}
	if err := s.c.Get(context.Background(), client.ObjectKey{Name: ipamNodeName}, rt); err != nil {
		return
	}
	uids := []string{}
	for u := range rt.Status.Pods {
		uids = append(uids, u)
	}
	sort.Strings(uids)
	l := []vt.M{}
	for _, u := range uids {
		ini, del := int64(0), int64(0)
		for k, v := range rt.Status.Pods[u].Status {
			if v == nil {
				continue
			}
			if k == networkv1beta1.CNIStatusInitial {
				ini = v.LastUpdateTime.Unix()
			}
			if k == networkv1beta1.CNIStatusDeleted {
				del = v.LastUpdateTime.Unix()
			}
		}
		l = append(l, vt.M{"u": ipamUIDNum(u), "p": ipamPodNum(rt.Status.Pods[u].PodID), "ini": ini, "del": del})
	}
	local := []int{} // the pod UIDs the daemon has a sandbox record for at this moment
	for _, u := range s.svc.LocalUIDs() {
		local = append(local, ipamUIDNum(u))
	}
	sort.Ints(local)
	s.w.Emit(vt.M{"ev": "rt", "by": by, "pods": l, "local": local})
}

// age moves every "initial" timestamp two minutes into the past: time passes (data-driven clock).
func (s *ipamSys) age() {
	rt := &networkv1beta1.NodeRuntime{}
	if err := s.c.Get(context.Background(), client.ObjectKey{Name: ipamNodeName}, rt); err != nil {
		return
	}
	changed := false
	for _, v := range rt.Status.Pods {
		if i := v.Status[networkv1beta1.CNIStatusInitial]; i != nil && time.Since(i.LastUpdateTime.Time) < time.Minute {
			i.LastUpdateTime = metav1.NewTime(i.LastUpdateTime.Add(-2 * time.Minute))
			changed = true
		}
	}
	if changed {
		s.rtBy = "clock"
		if err := s.c.Status().Update(context.Background(), rt); err != nil {
			s.t.Fatalf("age: %v", err)
		}
		s.emitRt("clock")
		s.rtBy = "daemon"
	}
}

func (s *ipamSys) reconcile(write string, full bool) {
	if full {
		node := &networkv1beta1.Node{}
		if err := s.c.Get(context.Background(), client.ObjectKey{Name: ipamNodeName}, node); err != nil {
			s.t.Fatal(err)
		}
		node.Status.NextSyncOpenAPITime = metav1.NewTime(time.Unix(1, 0))
		if err := s.c.Status().Update(context.Background(), node); err != nil {
			s.t.Fatalf("force sync: %v", err)
		}
	}
	if v, ok := s.rec.cache.Load(ipamNodeName); ok { // the 1 s per-node throttle: time passes
		v.(*NodeStatus).LastReconcileTime = time.Time{}
	}
	s.crWrite, s.inRec = write, true
	s.cloud.mu.Lock()
	m0 := s.cloud.muts
	s.w.Emit(vt.M{"ev": "reconcile_begin", "full": full, "write": write})
	s.cloud.mu.Unlock()
	done := make(chan error, 1)
	go func() {
		_, err := s.rec.Reconcile(context.Background(), reconcile.Request{NamespacedName: k8stypes.NamespacedName{Name: ipamNodeName}})
		done <- err
	}()
	var err error
	select {
	case err = <-done:
	case <-time.After(60 * time.Second):
		s.t.Fatalf("Reconcile did not return")
	}
	s.crWrite, s.inRec = "", false
	s.cloud.mu.Lock()
	cr := s.readCR()
	s.w.Emit(vt.M{"ev": "cr", "enis": cr["enis"], "ips": cr["ips"], "muts": s.cloud.muts - m0, "err": err != nil})
	s.cloud.mu.Unlock()
}

func (s *ipamSys) cniAdd(p int, report bool) {
	pd := s.pods[p]
	if pd == nil || !pd.live || pd.sbUp {
		return
	}
	// kubelet: CNI ADD for a new sandbox of this pod, through the real handler (it resolves the pod, reads the stored
	// record, asks the CRD backend, stores the new record). The backend polls the record until the request context ends.
	ctx, cancel := context.WithTimeout(context.Background(), 60*time.Millisecond)
	defer cancel()
	s.nextCid++
	cid := fmt.Sprintf("cid-%d", s.nextCid)
	ok, e, a4, a6 := false, 0, 0, 0
	type addRes struct {
		reply *rpc.AllocIPReply
		err   error
	}
	ch := make(chan addRes, 1)
	go func() {
		r, err := s.svc.AllocIP(ctx, &rpc.AllocIPRequest{K8SPodName: ipamPodName(p), K8SPodNamespace: "ns", K8SPodInfraContainerId: cid, Netns: "/proc/0/ns/net", IfName: "eth0"})
		ch <- addRes{r, err}
	}()
	select {
	case res := <-ch:
		if res.err == nil && res.reply != nil && res.reply.Success && len(res.reply.NetConfs) == 1 {
			nc := res.reply.NetConfs[0]
			if nc.BasicInfo != nil && nc.BasicInfo.PodIP != nil && nc.ENIInfo != nil {
				ok = true
				fmt.Sscanf(nc.ENIInfo.MAC, "00:16:3e:00:00:%02x", &e)
				if nc.BasicInfo.PodIP.IPv4 != "" {
					a4 = ipamAddrNum(nc.BasicInfo.PodIP.IPv4)
				}
				if nc.BasicInfo.PodIP.IPv6 != "" {
					a6 = ipamAddrNum(nc.BasicInfo.PodIP.IPv6)
				}
			}
		}
	case <-time.After(10 * time.Second):
		s.t.Fatalf("AllocIP did not return")
	}
	if ok {
		// multiIP forgets a pending DEL of this UID in its own goroutine, after the reply: wait for that (bounded)
		for i := 0; i < 150 && s.crd.VerifIpamDelPending(ipamUID(pd.uid)); i++ {
			time.Sleep(2 * time.Millisecond)
		}
		pd.sbUp, pd.cid, pd.e, pd.a4, pd.a6 = true, cid, e, a4, a6
	}
	s.w.Emit(vt.M{"ev": "cni_add", "p": p, "u": pd.uid, "ok": ok, "e": e, "a4": a4, "a6": a6})
	if ok && report { // kubelet reports the sandbox addresses in the pod status
		pod := &corev1.Pod{}
		if err := s.c.Get(context.Background(), client.ObjectKey{Namespace: "ns", Name: ipamPodName(p)}, pod); err == nil {
			pod.Status.Phase = corev1.PodRunning
			ipamSetPodIPs(pod, a4, a6)
			if err := s.c.Status().Update(context.Background(), pod); err != nil {
				if err2 := s.c.Update(context.Background(), pod); err2 != nil {
					s.t.Fatalf("pod status: %v / %v", err, err2)
				}
			}
			s.w.Emit(vt.M{"ev": "pod_report", "p": p, "u": pd.uid, "r4": a4, "r6": a6})
		}
	}
}

// cniDel: kubelet tears down the sandbox cid that was set up for pod p with UID uid (what the handler makes of it -
// which pod it resolves, whether the stored record still belongs to that sandbox - is the daemon's business).
func (s *ipamSys) cniDel(p, uid int, cid string) {
	_, err := s.svc.ReleaseIP(context.Background(), &rpc.ReleaseIPRequest{K8SPodName: ipamPodName(p), K8SPodNamespace: "ns", K8SPodInfraContainerId: cid})
	s.w.Emit(vt.M{"ev": "cni_del", "p": p, "u": uid, "ok": err == nil})
}

func (s *ipamSys) step(st vt.M) {
	ctx := context.Background()
	switch vt.Str(st["a"]) {
	case "pod_create":
		p := vt.Int(st["p"])
		if s.pods[p] != nil {
			return
		}
		pd := &ipamPod{uid: s.nextUID, live: true, rdma: vt.Bool(st["rdma"]) && s.conf.rdma > 0, lay: s.nextUID}
		if _, ok := st["lay"]; ok {
			pd.lay = vt.Int(st["lay"])
		}
		s.nextUID++
		s.pods[p] = pd
		s.createPodObj(p, pd, false)
		s.w.Emit(vt.M{"ev": "pod_create", "p": p, "u": pd.uid, "rdma": pd.rdma})
	case "pod_delete":
		p := vt.Int(st["p"])
		pd := s.pods[p]
		if pd == nil {
			return
		}
		forced := vt.Bool(st["forced"])
		if pd.sbUp && !forced { // graceful: kubelet tears the sandbox down before the object disappears
			s.cniDel(p, pd.uid, pd.cid)
			pd.sbUp = false
		}
		if err := s.c.Delete(ctx, &corev1.Pod{ObjectMeta: metav1.ObjectMeta{Namespace: "ns", Name: ipamPodName(p)}}); err != nil {
			s.t.Fatalf("delete pod: %v", err)
		}
		delete(s.pods, p)
		if pd.sbUp {
			s.zombies[pd.uid] = pd
			s.zombieP[pd.uid] = p
		}
		s.w.Emit(vt.M{"ev": "pod_gone", "p": p, "u": pd.uid})
	case "pod_exit":
		p := vt.Int(st["p"])
		pd := s.pods[p]
		if pd == nil || !pd.live {
			return
		}
		pod := &corev1.Pod{}
		if err := s.c.Get(ctx, client.ObjectKey{Namespace: "ns", Name: ipamPodName(p)}, pod); err != nil {
			s.t.Fatal(err)
		}
		pod.Status.Phase = corev1.PodSucceeded
		if err := s.c.Status().Update(ctx, pod); err != nil {
			if err2 := s.c.Update(ctx, pod); err2 != nil {
				s.t.Fatalf("pod exit: %v / %v", err, err2)
			}
		}
		pd.live = false
		s.w.Emit(vt.M{"ev": "pod_exit", "p": p, "u": pd.uid})
	case "cni_add":
		s.cniAdd(vt.Int(st["p"]), !vt.Bool(st["noreport"]))
	case "cni_del":
		p := vt.Int(st["p"])
		old := vt.Bool(st["old"]) // the late DEL of a vanished pod's sandbox comes first
		hasOld := false
		for u := range s.zombies {
			if s.zombieP[u] == p {
				hasOld = true
			}
		}
		if pd := s.pods[p]; pd != nil && pd.sbUp && !(old && hasOld) {
			s.cniDel(p, pd.uid, pd.cid)
			pd.sbUp = false
			return
		}
		us := []int{}
		for u := range s.zombies {
			if s.zombieP[u] == p || p == 0 {
				us = append(us, u)
			}
		}
		sort.Ints(us)
		if len(us) > 0 {
			s.cniDel(s.zombieP[us[0]], us[0], s.zombies[us[0]].cid)
			delete(s.zombies, us[0])
			delete(s.zombieP, us[0])
		}
	case "flush":
		s.rtFail = vt.Bool(st["fail"])
		s.rtBy = "daemon"
		err := s.crd.VerifIpamFlush(ctx)
		s.rtFail = false
		s.w.Emit(vt.M{"ev": "flush", "ok": err == nil})
	case "sync_deleted":
		s.rtBy = "daemon"
		err := s.crd.VerifIpamSyncDeleted(ctx)
		s.w.Emit(vt.M{"ev": "sync_deleted", "ok": err == nil})
		s.age()
	case "daemon_gc":
		s.age()
		s.rtBy = "daemon"
		s.k8s.existFail = vt.Bool(st["exist_fail"])
		err := s.svc.CleanRuntimeNode(ctx)
		s.k8s.existFail = false
		s.w.Emit(vt.M{"ev": "daemon_gc", "ok": err == nil})
	case "reconcile":
		s.reconcile(vt.Str(st["write"]), vt.Bool(st["full"]))
	case "restart":
		s.newReconciler()
		s.w.Emit(vt.M{"ev": "restart"})
	case "plan":
		s.cloud.mu.Lock()
		for _, o := range vt.List(st["outcomes"]) {
			s.cloud.plan = append(s.cloud.plan, vt.Str(o))
		}
		s.cloud.mu.Unlock()
	case "describe_fail":
		s.cloud.mu.Lock()
		s.cloud.describeFail++
		s.cloud.mu.Unlock()
	case "drift_mid", "drift_settle":
		// the cloud reports an attached interface as Attaching for a while (an attach issued behind the controller's back /
		// before a restart is still settling); drift_settle: all interfaces are InUse again
		if s.conf.env != "all" {
			return
		}
		c := s.cloud
		c.mu.Lock()
		es := []int{}
		for e, fe := range c.enis {
			if fe.att {
				es = append(es, e)
			}
		}
		sort.Ints(es)
		if vt.Str(st["a"]) == "drift_settle" {
			for _, e := range es {
				c.enis[e].mid = ""
			}
			c.w.Emit(vt.M{"ev": "drift_settle"})
		} else if len(es) > 0 {
			e := es[vt.Int(st["k"])%len(es)]
			c.enis[e].mid = aliyunClient.ENIStatusAttaching
			c.w.Emit(vt.M{"ev": "drift_mid", "e": e, "st": c.enis[e].mid})
		}
		c.mu.Unlock()
	case "enable_v6":
		// the node is switched to dual stack while pods are running (configuration change of the Node CR)
		if !s.conf.v4 || s.conf.v6 {
			return
		}
		node := &networkv1beta1.Node{}
		if err := s.c.Get(ctx, client.ObjectKey{Name: ipamNodeName}, node); err != nil {
			s.t.Fatal(err)
		}
		s.conf.v6, s.conf.cap6 = true, s.conf.cap4
		node.Spec.ENISpec.EnableIPv6 = true
		node.Spec.NodeCap.IPv6PerAdapter = s.conf.cap6
		if err := s.c.Update(ctx, node); err != nil {
			s.t.Fatalf("enable v6: %v", err)
		}
		s.cloud.mu.Lock()
		s.cloud.cap6 = s.conf.cap6
		cf := s.conf
		s.w.Emit(vt.M{"ev": "conf_change", "conf": vt.M{"v4": cf.v4, "v6": cf.v6, "cap4": cf.cap4, "cap6": cf.cap6, "sec": cf.sec,
			"trunk": cf.trunk, "rdma": cf.rdma, "min": cf.min, "max": cf.max, "maxEni": s.maxEni(), "init": cf.init}})
		s.cloud.mu.Unlock()
	case "drift_remove", "drift_add":
		if s.conf.env != "all" {
			return
		}
		c := s.cloud
		c.mu.Lock()
		es := []int{}
		for e, fe := range c.enis {
			if fe.att {
				es = append(es, e)
			}
		}
		sort.Ints(es)
		if len(es) > 0 {
			e := es[vt.Int(st["k"])%len(es)]
			fe := c.enis[e]
			fam, set := 4, fe.v4
			if (vt.Int(st["fam"]) == 6 || !s.conf.v4) && s.conf.v6 {
				fam, set = 6, fe.v6
			}
			if vt.Str(st["a"]) == "drift_add" {
				if (fam == 4 && len(set) < c.cap4) || (fam == 6 && len(set) < c.cap6) {
					a := c.freeAddr(fam)
					set[a] = true
					c.w.Emit(vt.M{"ev": "drift_add", "e": e, "a": a})
				}
			} else {
				cands := []int{}
				for _, a := range ipamSet(set) {
					if a != fe.primary {
						cands = append(cands, a)
					}
				}
				if len(cands) > 0 {
					a := cands[vt.Int(st["j"])%len(cands)]
					delete(set, a)
					c.gone[a] = true
					c.w.Emit(vt.M{"ev": "drift_remove", "e": e, "a": a})
				}
			}
		}
		c.mu.Unlock()
	}
}

// drain: healthy cloud and API server from here on; reconcile until nothing changes any more (repeated reconciliation
// includes the periodic full synchronisation: one falls due if seven rounds did not bring the node to rest), then the
// fixed-point observation, then one forced full synchronisation and the agreement observation.
func (s *ipamSys) drain() {
	s.cloud.mu.Lock()
	s.cloud.plan = nil
	s.cloud.describeFail = 0
	for _, fe := range s.cloud.enis {
		fe.mid = ""
	}
	s.w.Emit(vt.M{"ev": "drain"})
	s.cloud.mu.Unlock()
	s.pool.Del(ipamVsw) // a vSwitch blocked after an exhaustion error: its block expires
	last := ""
	stable := 0
	rounds := 0
	for ; rounds < 16 && stable < 2; rounds++ {
		s.cloud.mu.Lock()
		m0 := s.cloud.muts
		s.cloud.mu.Unlock()
		s.reconcile("", rounds == 7) // not at rest after seven rounds: the periodic full synchronisation falls due once
		s.cloud.mu.Lock()
		dm := s.cloud.muts - m0
		s.cloud.mu.Unlock()
		cur := fmt.Sprint(s.readCR())
		if dm == 0 && cur == last {
			stable++
		} else {
			stable = 0
		}
		last = cur
	}
	s.cloud.mu.Lock()
	cr := s.readCR()
	s.w.Emit(vt.M{"ev": "fixpoint", "stable": stable >= 2, "rounds": rounds, "enis": cr["enis"], "ips": cr["ips"], "cloud": s.cloud.snapshot(), "faults": s.cloud.faults})
	s.cloud.mu.Unlock()
	s.reconcile("", true)
	s.cloud.mu.Lock()
	cr = s.readCR()
	s.w.Emit(vt.M{"ev": "synced", "enis": cr["enis"], "ips": cr["ips"], "cloud": s.cloud.snapshot()})
	s.cloud.mu.Unlock()
}

// ---------------------------------------------------------------------------------------------
// scenarios

func ipamReadScenarios(t *testing.T) [][]vt.M {
	var scens [][]vt.M
	f := os.Getenv("VERIF_SCEN")
	if f == "" {
		return nil
	}
	b, err := os.ReadFile(f)
	if err != nil {
		t.Fatal(err)
	}
	for _, line := range strings.Split(string(b), "\n") {
		if strings.TrimSpace(line) == "" {
			continue
		}
		wrapped, err := vt.ReadNDJSONString(`{"s":` + line + `}`)
		if err != nil {
			t.Fatal(err)
		}
		var sc []vt.M
		for _, st := range vt.List(wrapped[0]["s"]) {
			sc = append(sc, vt.Map(st))
		}
		scens = append(scens, sc)
	}
	return scens
}

func ipamConfOf(m vt.M) ipamConf {
	cf := ipamConf{v4: vt.Bool(m["v4"]), v6: vt.Bool(m["v6"]), cap4: vt.Int(m["cap4"]), cap6: vt.Int(m["cap6"]), sec: vt.Int(m["sec"]),
		trunk: vt.Bool(m["trunk"]), rdma: vt.Int(m["rdma"]), min: vt.Int(m["min"]), max: vt.Int(m["max"]), pre: vt.Int(m["pre"]),
		preIPs: vt.Int(m["preIPs"]), init: vt.Str(m["init"]), env: vt.Str(m["env"]), noRuntime: vt.Bool(m["noRuntime"])}
	if cf.init == "" {
		cf.init = "empty"
	}
	if cf.preIPs < 1 {
		cf.preIPs = 1
	}
	if !cf.v6 {
		cf.cap6 = 0
	}
	return cf
}

var ipamFaults = []string{"fb", "fb", "fb:throttle", "fb:vswfull", "fb:ipquota", "fb:enilimit", "fa", "fa", "ok"}

// ipamRandomScenario: seeded random scenario over the driver alphabet; fam selects a directed family.
func ipamRandomScenario(k int, env string, skip map[string]bool) []vt.M {
	rng := vt.Rand(int64(4000 + k))
	dual := rng.Intn(3) == 0
	v6only := !dual && rng.Intn(8) == 0
	cf := vt.M{"v4": !v6only, "v6": dual || v6only, "cap4": 2 + rng.Intn(2), "sec": 1 + rng.Intn(2), "trunk": rng.Intn(5) == 0,
		"rdma": 0, "pre": rng.Intn(3), "preIPs": 1 + rng.Intn(2), "init": "empty", "env": env}
	cf["cap6"] = cf["cap4"]
	if rng.Intn(5) == 0 {
		cf["rdma"] = 1
	}
	mn := rng.Intn(3)
	cf["min"], cf["max"] = mn, mn+rng.Intn(3)
	if vt.Int(cf["pre"]) > vt.Int(cf["sec"]) {
		cf["pre"] = cf["sec"]
	}
	if vt.Int(cf["pre"]) > 0 {
		switch rng.Intn(4) {
		case 0:
			cf["init"] = "takeover"
		case 1:
			if env == "all" {
				cf["init"] = "partial"
			}
		}
	}
	sc := []vt.M{{"a": "conf", "conf": cf}}
	rec := func() vt.M {
		m := vt.M{"a": "reconcile"}
		switch rng.Intn(12) {
		case 0:
			m["write"] = "conflict"
		case 1:
			m["write"] = "error"
		case 2:
			m["full"] = true
		}
		return m
	}
	fams := []string{"random", "lifecycle", "resandbox", "shrink", "faulty", "rollback", "rdma", "gcstale", "adopt", "replace", "shrink6", "resync", "midstate", "enable6", "bigtrim"}
	fam := fams[k%len(fams)]
	if skip[fam] {
		fam = "random"
	}
	n := 10 + rng.Intn(10)
	if fam == "rollback" || fam == "rdma" {
		n = rng.Intn(4)
	}
	if fam == "adopt" {
		n = 0
	}
	if fam == "replace" {
		n = rng.Intn(3)
	}
	if fam == "shrink6" || fam == "resync" || fam == "midstate" || fam == "enable6" || fam == "bigtrim" {
		n = 0
	}
	for i := 0; i < n; i++ {
		p := 1 + rng.Intn(4)
		switch x := rng.Intn(24); {
		case x < 5:
			sc = append(sc, vt.M{"a": "pod_create", "p": p, "rdma": rng.Intn(3) == 0})
		case x < 8:
			sc = append(sc, vt.M{"a": "pod_delete", "p": p, "forced": rng.Intn(3) == 0})
		case x < 12:
			sc = append(sc, vt.M{"a": "cni_add", "p": p, "noreport": rng.Intn(4) == 0})
		case x < 13:
			sc = append(sc, vt.M{"a": "cni_del", "p": p})
		case x < 15:
			sc = append(sc, vt.M{"a": "flush", "fail": rng.Intn(4) == 0})
		case x < 16:
			sc = append(sc, vt.M{"a": "sync_deleted"})
		case x < 17:
			sc = append(sc, vt.M{"a": "daemon_gc", "exist_fail": rng.Intn(3) == 0})
		case x < 18:
			sc = append(sc, vt.M{"a": "plan", "outcomes": []any{ipamFaults[rng.Intn(len(ipamFaults))]}})
		case x < 19 && env == "all":
			sc = append(sc, vt.M{"a": []string{"drift_remove", "drift_add"}[rng.Intn(2)], "k": rng.Intn(3), "j": rng.Intn(3), "fam": 4 + 2*rng.Intn(2)})
		case x < 20:
			if rng.Intn(3) == 0 {
				sc = append(sc, vt.M{"a": "restart"})
			}
		case x < 21:
			sc = append(sc, vt.M{"a": "pod_exit", "p": p})
		default:
			sc = append(sc, rec())
		}
	}
	switch fam {
	case "lifecycle":
		// pods come, get their sandbox, leave (gracefully or forced); teardown is reported late, lost once, then delivered
		for _, p := range []int{1, 2, 3} {
			sc = append(sc, vt.M{"a": "pod_create", "p": p})
		}
		sc = append(sc, rec(), rec(), vt.M{"a": "cni_add", "p": 1}, vt.M{"a": "cni_add", "p": 2}, vt.M{"a": "cni_add", "p": 3},
			vt.M{"a": "pod_delete", "p": 1, "forced": rng.Intn(2) == 0}, rec(), vt.M{"a": "pod_delete", "p": 2}, vt.M{"a": "flush", "fail": true}, rec(),
			vt.M{"a": "pod_create", "p": 4}, rec(), vt.M{"a": "flush"}, rec(), vt.M{"a": "cni_add", "p": 4}, vt.M{"a": "cni_del", "p": 1}, vt.M{"a": "flush"},
			vt.M{"a": "sync_deleted"}, rec(), vt.M{"a": "daemon_gc"}, rec())
	case "gcstale":
		// the five-minute job has written "initial" stamps for bound pods; then pods leave (one forced, its sandbox stays up
		// for a while), the agent's gc looks at the stale entries, teardown reports arrive on top of the "initial" stamps
		for _, p := range []int{1, 2, 3} {
			sc = append(sc, vt.M{"a": "pod_create", "p": p})
		}
		sc = append(sc, rec(), rec(), vt.M{"a": "cni_add", "p": 1}, vt.M{"a": "cni_add", "p": 2}, vt.M{"a": "sync_deleted"},
			vt.M{"a": "daemon_gc", "exist_fail": rng.Intn(2) == 0},
			vt.M{"a": "pod_delete", "p": 1, "forced": true}, vt.M{"a": "daemon_gc", "exist_fail": rng.Intn(3) == 0}, rec(), vt.M{"a": "pod_delete", "p": 2}, vt.M{"a": "flush"},
			vt.M{"a": "pod_delete", "p": 3}, vt.M{"a": "daemon_gc"}, rec(), vt.M{"a": "pod_create", "p": 4}, rec(), vt.M{"a": "cni_del", "p": 1}, vt.M{"a": "flush"}, rec())
	case "resandbox":
		// kubelet replaces a pod's sandbox (same pod UID): DEL, report, ADD again; later the pod is deleted
		sc = append(sc, vt.M{"a": "pod_create", "p": 1}, vt.M{"a": "pod_create", "p": 2}, rec(), rec(), vt.M{"a": "cni_add", "p": 1}, vt.M{"a": "cni_add", "p": 2},
			vt.M{"a": "cni_del", "p": 1})
		if rng.Intn(2) == 0 {
			sc = append(sc, vt.M{"a": "flush"}, vt.M{"a": "cni_add", "p": 1}, vt.M{"a": "flush"})
		} else {
			sc = append(sc, vt.M{"a": "cni_add", "p": 1}, vt.M{"a": "flush"})
		}
		sc = append(sc, rec(), vt.M{"a": "pod_delete", "p": 1, "forced": rng.Intn(3) != 0}, vt.M{"a": "pod_create", "p": 3}, rec(), vt.M{"a": "cni_add", "p": 3}, rec(),
			vt.M{"a": "cni_del", "p": 1}, vt.M{"a": "flush"}, rec())
	case "shrink":
		// the pool grows, everybody leaves with teardown reported, the pool is trimmed; demand returns while the trim is under way
		cf["max"] = cf["min"]
		if rng.Intn(2) == 0 {
			cf["min"], cf["max"] = 0, 0
		}
		for _, p := range []int{1, 2, 3, 4} {
			sc = append(sc, vt.M{"a": "pod_create", "p": p})
		}
		sc = append(sc, rec(), rec(), rec(), vt.M{"a": "cni_add", "p": 1}, vt.M{"a": "cni_add", "p": 2})
		for _, p := range []int{1, 2, 3, 4} {
			sc = append(sc, vt.M{"a": "pod_delete", "p": p})
		}
		sc = append(sc, vt.M{"a": "flush"}, vt.M{"a": "reconcile"})
		if rng.Intn(3) == 0 {
			sc = append(sc, vt.M{"a": "reconcile"})
		}
		sc = append(sc, vt.M{"a": "pod_create", "p": 1 + rng.Intn(2)}, vt.M{"a": "pod_create", "p": 3 + rng.Intn(2)},
			vt.M{"a": "plan", "outcomes": []any{ipamFaults[rng.Intn(len(ipamFaults))]}}, vt.M{"a": "reconcile"}, rec())
	case "midstate":
		// the cloud reports an attached interface as Attaching when the full sync looks (the record copies that status);
		// pods are waiting for addresses meanwhile
		cf["pre"], cf["preIPs"], cf["init"], cf["rdma"], cf["trunk"] = 1+rng.Intn(2), 2, "empty", 0, false
		cf["sec"] = cf["pre"]
		sc = append(sc, vt.M{"a": "reconcile"}, vt.M{"a": "drift_mid", "k": rng.Intn(2)}, vt.M{"a": "reconcile", "full": true},
			vt.M{"a": "pod_create", "p": 1}, vt.M{"a": "pod_create", "p": 2}, vt.M{"a": "reconcile"}, vt.M{"a": "reconcile"})
		if rng.Intn(2) == 0 {
			sc = append(sc, vt.M{"a": "restart"}, vt.M{"a": "pod_create", "p": 3}, vt.M{"a": "reconcile"})
		}
		sc = append(sc, vt.M{"a": "drift_settle"}, vt.M{"a": "reconcile", "full": true}, rec())
	case "enable6":
		// an IPv4 node with running pods is switched to dual stack: the pods keep their IPv4 address and get an IPv6 one
		cf["v4"], cf["v6"], cf["rdma"], cf["trunk"] = true, false, 0, false
		sc = append(sc, vt.M{"a": "pod_create", "p": 1}, vt.M{"a": "pod_create", "p": 2}, vt.M{"a": "reconcile"}, vt.M{"a": "reconcile"}, vt.M{"a": "reconcile"},
			vt.M{"a": "cni_add", "p": 1}, vt.M{"a": "cni_add", "p": 2}, vt.M{"a": "enable_v6"})
		if rng.Intn(3) != 0 { // the first attempt to get IPv6 addresses fails
			sc = append(sc, vt.M{"a": "plan", "outcomes": []any{[]string{"fb", "fb:throttle", "fb:vswfull"}[rng.Intn(3)]}})
		}
		sc = append(sc, vt.M{"a": "reconcile"}, vt.M{"a": "reconcile"})
		if rng.Intn(2) == 0 {
			sc = append(sc, vt.M{"a": "pod_create", "p": 3})
		}
		sc = append(sc, rec(), rec())
	case "bigtrim":
		// one interface carries far more idle addresses than the pool may keep: more than one release batch in one pass;
		// then demand returns
		cf["v4"], cf["v6"], cf["rdma"], cf["trunk"], cf["sec"], cf["pre"], cf["preIPs"], cf["init"] = true, rng.Intn(4) == 0, 0, false, 1, 1, 13+rng.Intn(3), "empty"
		cf["cap4"], cf["cap6"], cf["min"], cf["max"] = 16, 16, 0, rng.Intn(3)
		sc = append(sc, vt.M{"a": "reconcile"}, vt.M{"a": "reconcile"}, vt.M{"a": "reconcile"}, vt.M{"a": "pod_create", "p": 1}, vt.M{"a": "pod_create", "p": 2},
			vt.M{"a": "reconcile"}, rec())
	case "shrink6":
		// IPv6-only node: three pods fill the first interface, a fourth pod gets a sparsely used second interface; the
		// three leave with teardown reported; the surplus exceeds the number of addresses on the second interface, whose
		// only binding is the IPv6 address of a running pod
		cf["v4"], cf["v6"], cf["cap4"], cf["cap6"], cf["sec"], cf["trunk"], cf["rdma"] = false, true, 3, 3, 2, false, 0
		cf["pre"], cf["init"], cf["min"], cf["max"] = 0, "empty", 0, rng.Intn(2)
		sc = append(sc, vt.M{"a": "pod_create", "p": 1}, vt.M{"a": "pod_create", "p": 2}, vt.M{"a": "pod_create", "p": 3}, vt.M{"a": "reconcile"},
			vt.M{"a": "pod_create", "p": 4}, vt.M{"a": "reconcile"}, vt.M{"a": "reconcile"})
		for _, p := range []int{1, 2, 3, 4} {
			sc = append(sc, vt.M{"a": "cni_add", "p": p})
		}
		for _, p := range []int{1, 2, 3} {
			sc = append(sc, vt.M{"a": "pod_delete", "p": p})
		}
		sc = append(sc, vt.M{"a": "flush"}, vt.M{"a": "reconcile"}, vt.M{"a": "reconcile"})
		if rng.Intn(2) == 0 {
			sc = append(sc, vt.M{"a": "pod_create", "p": 1}, rec())
		}
		sc = append(sc, rec())
	case "resync":
		// a status-update conflict right after a cloud change (the new interface is attached but not in the record), then
		// the re-sync of the next round(s) fails at listing the interfaces; demand is still there
		if k%2 == 0 {
			// assign path: the only interface has room; the pass that assigns addresses to it hits the conflict (the controller
			// has just been restarted: nothing else marked its memory); in dual stack the IPv6 half of that pass fails
			cf["sec"], cf["trunk"], cf["rdma"], cf["pre"], cf["preIPs"], cf["init"], cf["min"], cf["max"] = 1, false, 0, 1, 1, "empty", 0, 1+rng.Intn(2)
			cf["cap4"], cf["cap6"] = 3, 3
			if rng.Intn(3) != 0 {
				cf["v4"], cf["v6"] = true, false
			}
			sc = append(sc, vt.M{"a": "pod_create", "p": 1}, vt.M{"a": "reconcile"}, vt.M{"a": "reconcile"}, vt.M{"a": "restart"},
				vt.M{"a": "pod_create", "p": 2}, vt.M{"a": "pod_create", "p": 3})
			if vt.Bool(cf["v4"]) && vt.Bool(cf["v6"]) {
				sc = append(sc, vt.M{"a": "plan", "outcomes": []any{"ok", "fb"}})
			}
			sc = append(sc, vt.M{"a": "reconcile", "write": []string{"conflict", "conflict", "error"}[rng.Intn(3)]}, vt.M{"a": "reconcile"}, vt.M{"a": "reconcile"}, rec())
			break
		}
		cf["sec"], cf["trunk"], cf["rdma"], cf["pre"], cf["preIPs"], cf["init"], cf["min"], cf["max"] = 2, false, 0, 1, 2, "empty", 0, 1+rng.Intn(2)
		cf["cap4"], cf["cap6"] = 2, 2
		sc = append(sc, vt.M{"a": "pod_create", "p": 1}, vt.M{"a": "pod_create", "p": 2}, vt.M{"a": "reconcile"}, vt.M{"a": "reconcile"},
			vt.M{"a": "pod_create", "p": 3}, vt.M{"a": "pod_create", "p": 4},
			vt.M{"a": "reconcile", "write": []string{"conflict", "conflict", "error"}[rng.Intn(3)]})
		for j := 0; j < 1+rng.Intn(2); j++ {
			sc = append(sc, vt.M{"a": "describe_fail"}, vt.M{"a": "reconcile"})
		}
		sc = append(sc, vt.M{"a": "reconcile"}, rec(), rec())
	case "faulty":
		// demand with faults at successive cloud calls and a failed status update right after a cloud change
		for _, p := range []int{1, 2, 3} {
			sc = append(sc, vt.M{"a": "pod_create", "p": p})
		}
		outs := []any{}
		for j := 0; j < 1+rng.Intn(3); j++ {
			outs = append(outs, []string{"ok", "fb", "fa", "fb:vswfull", "fb:enilimit", "fa"}[rng.Intn(6)])
		}
		sc = append(sc, vt.M{"a": "plan", "outcomes": outs}, vt.M{"a": "reconcile", "write": []string{"", "conflict", "error"}[rng.Intn(3)]}, rec(),
			vt.M{"a": "plan", "outcomes": []any{ipamFaults[rng.Intn(len(ipamFaults))]}}, rec(), rec())
	case "replace":
		// StatefulSet-style name re-use: pod 1 runs, its object vanishes (or it is deleted gracefully), a replacement of
		// the same name appears on the node; the DEL of the old sandbox arrives late - before or after the replacement's
		// ADD; later the replacement goes away as well
		sc = append(sc, vt.M{"a": "pod_create", "p": 1}, vt.M{"a": "pod_create", "p": 2}, vt.M{"a": "reconcile"}, vt.M{"a": "reconcile"},
			vt.M{"a": "cni_add", "p": 1}, vt.M{"a": "cni_add", "p": 2})
		if rng.Intn(4) == 0 {
			sc = append(sc, vt.M{"a": "sync_deleted"})
		}
		forced := rng.Intn(4) != 0
		sc = append(sc, vt.M{"a": "pod_delete", "p": 1, "forced": forced}, vt.M{"a": "pod_create", "p": 1})
		if rng.Intn(2) == 0 {
			sc = append(sc, rec())
		}
		if rng.Intn(2) == 0 { // the late DEL first, then the replacement's ADD
			sc = append(sc, vt.M{"a": "cni_del", "p": 1, "old": true}, vt.M{"a": "flush"}, rec(), vt.M{"a": "cni_add", "p": 1})
		} else { // the replacement's ADD overtakes the late DEL
			sc = append(sc, rec(), vt.M{"a": "cni_add", "p": 1}, vt.M{"a": "cni_del", "p": 1, "old": true}, vt.M{"a": "flush"})
		}
		sc = append(sc, rec(), vt.M{"a": "flush"}, vt.M{"a": "pod_delete", "p": 1, "forced": rng.Intn(2) == 0}, vt.M{"a": "pod_create", "p": 3}, rec(),
			vt.M{"a": "cni_add", "p": 3}, vt.M{"a": "cni_del", "p": 1}, vt.M{"a": "flush"}, rec())
	case "adopt":
		// dual stack, running pods of a previous version report both addresses; the IPv6 side of some of them cannot be
		// bound (its address vanished in the cloud, or the record binds only part), with and without new pods competing
		cf["v4"], cf["v6"], cf["pre"], cf["preIPs"], cf["rdma"], cf["trunk"] = true, true, 1+rng.Intn(2), 2, 0, false
		cf["sec"] = cf["pre"]
		cf["init"] = []string{"takeover", "takeover", "partial"}[rng.Intn(3)]
		if env != "all" {
			cf["init"] = "takeover"
		}
		for j := 0; j < 1+rng.Intn(2); j++ {
			sc = append(sc, vt.M{"a": "drift_remove", "k": rng.Intn(2), "j": rng.Intn(2), "fam": []int{6, 6, 4}[rng.Intn(3)]})
		}
		if rng.Intn(3) != 0 {
			sc = append(sc, vt.M{"a": "pod_create", "p": 4})
		}
		sc = append(sc, vt.M{"a": "reconcile", "full": true}, vt.M{"a": "reconcile"})
		if rng.Intn(2) == 0 {
			sc = append(sc, vt.M{"a": "pod_delete", "p": 1 + rng.Intn(2)}, vt.M{"a": "flush"})
		}
		sc = append(sc, vt.M{"a": "pod_create", "p": 4}, rec(), vt.M{"a": "cni_add", "p": 4}, rec())
	case "rollback":
		// a new interface is needed; its creation succeeds, the attach (or the wait) fails, sometimes the roll-back delete fails too
		cf["pre"], cf["init"] = 0, "empty"
		for _, p := range []int{1, 2} {
			sc = append(sc, vt.M{"a": "pod_create", "p": p})
		}
		outs := []any{"ok", []string{"fb", "fa", "fb:enilimit", "fb:throttle"}[rng.Intn(4)]}
		if rng.Intn(2) == 0 {
			outs = append(outs, "fb")
		}
		sc = append(sc, vt.M{"a": "plan", "outcomes": outs}, vt.M{"a": "reconcile", "write": []string{"", "", "conflict"}[rng.Intn(3)]}, rec(), rec())
	case "rdma":
		// RDMA and ordinary pods compete for addresses while both kinds of interface have idle ones
		cf["rdma"], cf["sec"], cf["trunk"] = 1, 1, false
		if rng.Intn(3) != 0 {
			cf["v4"], cf["v6"] = true, false
		}
		if rng.Intn(2) == 0 {
			cf["pre"], cf["preIPs"], cf["init"] = 1, 2, "empty"
			sc = append(sc, vt.M{"a": "pod_create", "p": 1, "rdma": true, "lay": rng.Intn(4)}, vt.M{"a": "reconcile"}, vt.M{"a": "pod_create", "p": 2}, rec(), rec())
		} else {
			cf["pre"], cf["init"], cf["min"], cf["max"] = 0, "empty", 0, 3
			sc = append(sc, vt.M{"a": "pod_create", "p": 1, "rdma": true, "lay": rng.Intn(4)}, vt.M{"a": "pod_create", "p": 2, "rdma": true, "lay": 1 + rng.Intn(3)}, vt.M{"a": "reconcile"}, vt.M{"a": "reconcile"},
				vt.M{"a": "cni_add", "p": 1}, vt.M{"a": "pod_delete", "p": 1}, vt.M{"a": "flush"}, vt.M{"a": "reconcile"}, vt.M{"a": "pod_create", "p": 3}, vt.M{"a": "pod_create", "p": 4}, vt.M{"a": "reconcile"}, rec())
		}
	}
	return sc
}

// TestVerifIpam runs scenarios (TLC simulation via VERIF_SCEN + seeded random ones) against the real controller
// and daemon-side code. VERIF_SHARD=k/n: every n-th scenario (ENI creation sleeps 3 s in the ECS path).
func TestVerifIpam(t *testing.T) {
	w, err := vt.NewWriter(vt.Env("VERIF_TRACE", ""))
	if err != nil {
		t.Fatal(err)
	}
	defer w.Close()
	env := vt.Env("VERIF_IPAM_ENV", "clean")
	skip := map[string]bool{}
	for _, f := range strings.Split(os.Getenv("VERIF_IPAM_SKIP"), ",") {
		skip[strings.TrimSpace(f)] = true
	}
	scens := ipamReadScenarios(t)
	for i := range scens {
		if len(scens[i]) > 0 && vt.Str(scens[i][0]["a"]) == "conf" {
			vt.Map(scens[i][0]["conf"])["env"] = env
		}
	}
	for k := 0; k < vt.EnvInt("VERIF_RANDOM", 8); k++ {
		scens = append(scens, ipamRandomScenario(k, env, skip))
	}
	shard, nshard := 0, 1
	fmt.Sscanf(vt.Env("VERIF_SHARD", "0/1"), "%d/%d", &shard, &nshard)
	for si, sc := range scens {
		if si%nshard != shard || len(sc) == 0 || vt.Str(sc[0]["a"]) != "conf" {
			continue
		}
		sys := newIpamSys(t, w, ipamConfOf(vt.Map(sc[0]["conf"])), si)
		for _, st := range sc[1:] {
			sys.step(st)
		}
		sys.drain()
	}
}
