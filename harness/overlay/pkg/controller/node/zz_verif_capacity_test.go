//go:build verif

package node

import (
	"context"
	"encoding/json"
	"fmt"
	"runtime"
	"strconv"
	"sync"
	"testing"

	"github.com/aliyun/alibaba-cloud-sdk-go/services/ecs"
	"github.com/go-logr/logr"
	corev1 "k8s.io/api/core/v1"
	metav1 "k8s.io/apimachinery/pkg/apis/meta/v1"
	k8sruntime "k8s.io/apimachinery/pkg/runtime"
	k8stypes "k8s.io/apimachinery/pkg/types"
	clientgoscheme "k8s.io/client-go/kubernetes/scheme"
	"k8s.io/client-go/tools/record"
	"sigs.k8s.io/controller-runtime/pkg/client/fake"
	logf "sigs.k8s.io/controller-runtime/pkg/log"
	"sigs.k8s.io/controller-runtime/pkg/reconcile"

	"github.com/AliyunContainerService/terway/deviceplugin"
	aliyunClient "github.com/AliyunContainerService/terway/pkg/aliyun/client"
	networkv1beta1 "github.com/AliyunContainerService/terway/pkg/apis/network.alibabacloud.com/v1beta1"
	register "github.com/AliyunContainerService/terway/pkg/controller"
	ipamnode "github.com/AliyunContainerService/terway/pkg/controller/multi-ip/node"
	"github.com/AliyunContainerService/terway/pkg/controller/status"
	"github.com/AliyunContainerService/terway/pkg/eni"
	"github.com/AliyunContainerService/terway/pkg/utils/nodecap"
	"github.com/AliyunContainerService/terway/types"
	"github.com/AliyunContainerService/terway/zzverif/vt"
)

// C19, chain "node": what the control plane advertises for a node, on one fake API server:
//   1. ReconcileNode.Reconcile   (DescribeInstanceTypes -> GetLimit/getInstanceType -> Node CR NodeCap)
//   2. the daemon's nodeReconcile (eni-config -> ENISpec switches, flavor, pool)
//   3. ReconcileNode.Reconcile   (k8sAnno: max-available-ip; patchNodeRes: aliyun/eni, aliyun/member-eni)
// The harness builds the k8s Node, the eni-config ConfigMap and the DescribeInstanceTypes answer,
// marks a trunk interface as attached (what the IPAM controller would do) and projects the
// resulting objects. No capacity arithmetic lives here.

// capAliyun answers DescribeInstanceTypes; any other cloud call panics (nil embedded interface).
type capAliyun struct {
	register.Interface
	it ecs.InstanceType
}

func (a *capAliyun) DescribeInstanceTypes(ctx context.Context, ids []string) ([]ecs.InstanceType, error) {
	return []ecs.InstanceType{a.it}, nil
}

func capNodeConf(cfg vt.M) string {
	m := vt.M{
		"version":             "1",
		"max_pool_size":       vt.Int(cfg["maxPool"]),
		"min_pool_size":       vt.Int(cfg["minPool"]),
		"ip_stack":            vt.Str(cfg["stack"]),
		"enable_eni_trunking": vt.Bool(cfg["trunk"]),
		"enable_erdma":        vt.Bool(cfg["erdma"]),
		"security_group":      "sg-1",
		"vswitches":           map[string][]string{"cn-verif-a": {"vsw-1"}},
	}
	b, err := json.Marshal(m)
	if err != nil {
		panic(err)
	}
	return string(b)
}

func capZeroNodeOut() vt.M {
	return vt.M{
		"rejected": false, "stage": "",
		"cap":    vt.M{"adapters": 0, "total": 0, "v4": 0, "v6": 0, "member": 0, "maxMember": 0, "eri": 0},
		"spec":   vt.M{"v4": false, "v6": false, "trunk": false, "erdma": false},
		"flavor": []vt.M{},
		"pool":   vt.M{"max": 0, "min": 0},
		"annoIP": 0, "allocEni": 0, "allocMember": 0, "capEni": 0, "capMember": 0,
	}
}

func capQty(l corev1.ResourceList, name string) int {
	q, ok := l[corev1.ResourceName(name)]
	if !ok {
		return 0
	}
	return int(q.Value())
}

func capRunNode(scheme *k8sruntime.Scheme, id string, in vt.M, out vt.M) {
	ctx := context.Background()
	it, cfg := vt.Map(in["it"]), vt.Map(in["cfg"])
	typeID := "ecs.verif.c19-" + id // the limit provider caches per instance type
	const name = "n1"

	labels := map[string]string{
		corev1.LabelInstanceTypeStable: typeID,
		corev1.LabelTopologyZone:       "cn-verif-a",
		corev1.LabelTopologyRegion:     "cn-verif",
	}
	if vt.Bool(cfg["excl"]) {
		labels[types.ExclusiveENIModeLabel] = string(types.ExclusiveENIOnly)
	}
	k8sNode := &corev1.Node{
		ObjectMeta: metav1.ObjectMeta{Name: name, Labels: labels},
		Spec:       corev1.NodeSpec{ProviderID: "cn-verif.i-verif"},
	}
	cm := &corev1.ConfigMap{
		ObjectMeta: metav1.ObjectMeta{Name: "eni-config", Namespace: "kube-system"},
		Data:       map[string]string{"eni_conf": capNodeConf(cfg)},
	}
	c := fake.NewClientBuilder().WithScheme(scheme).WithObjects(k8sNode, cm).
		WithStatusSubresource(&corev1.Node{}, &networkv1beta1.Node{}).Build()

	ctrl := &ReconcileNode{
		client: c,
		scheme: scheme,
		record: &record.FakeRecorder{},
		aliyun: &capAliyun{it: ecs.InstanceType{
			InstanceTypeId:              typeID,
			EniQuantity:                 vt.Int(it["q"]),
			EniTotalQuantity:            vt.Int(it["tq"]),
			EniPrivateIpAddressQuantity: vt.Int(it["v4"]),
			EniIpv6AddressQuantity:      vt.Int(it["v6"]),
			EniTrunkSupported:           vt.Bool(it["trunkSup"]),
			EriQuantity:                 vt.Int(it["eri"]),
		}},
		nodeStatusCache: status.NewCache[status.NodeStatus](),
	}
	req := reconcile.Request{NamespacedName: k8stypes.NamespacedName{Name: name}}

	if _, err := ctrl.Reconcile(ctx, req); err != nil {
		out["rejected"], out["stage"] = true, "controller-1: "+err.Error()
		return
	}

	// a trunk interface is attached and in use (the IPAM controller's part); whether it is
	// advertised is the decision of the code under test
	cr := &networkv1beta1.Node{}
	if err := c.Get(ctx, req.NamespacedName, cr); err != nil {
		panic(err)
	}
	cr.Status.NetworkInterfaces = map[string]*networkv1beta1.NetworkInterface{
		"eni-trunk": {ID: "eni-trunk", Status: aliyunClient.ENIStatusInUse, NetworkInterfaceType: networkv1beta1.ENITypeTrunk},
	}
	if err := c.Status().Update(ctx, cr); err != nil {
		panic(err)
	}

	agent := eni.VerifCapacityNodeReconciler(c, &record.FakeRecorder{}, name)
	if _, err := agent.Reconcile(ctx, req); err != nil {
		out["rejected"], out["stage"] = true, "daemon: "+err.Error()
		return
	}
	if _, err := ctrl.Reconcile(ctx, req); err != nil {
		out["rejected"], out["stage"] = true, "controller-2: "+err.Error()
		return
	}

	if err := c.Get(ctx, req.NamespacedName, cr); err != nil {
		panic(err)
	}
	kn := &corev1.Node{}
	if err := c.Get(ctx, req.NamespacedName, kn); err != nil {
		panic(err)
	}
	if cr.Spec.ENISpec == nil {
		out["rejected"], out["stage"] = true, "no ENISpec"
		return
	}
	nc := cr.Spec.NodeCap
	out["cap"] = vt.M{"adapters": nc.Adapters, "total": nc.TotalAdapters, "v4": nc.IPv4PerAdapter, "v6": nc.IPv6PerAdapter,
		"member": nc.MemberAdapterLimit, "maxMember": nc.MaxMemberAdapterLimit, "eri": nc.EriQuantity}
	es := cr.Spec.ENISpec
	out["spec"] = vt.M{"v4": es.EnableIPv4, "v6": es.EnableIPv6, "trunk": es.EnableTrunk, "erdma": es.EnableERDMA}
	fl := []vt.M{}
	for _, f := range cr.Spec.Flavor {
		fl = append(fl, vt.M{"type": string(f.NetworkInterfaceType), "mode": string(f.NetworkInterfaceTrafficMode), "count": f.Count})
	}
	out["flavor"] = fl
	if cr.Spec.Pool != nil {
		out["pool"] = vt.M{"max": cr.Spec.Pool.MaxPoolSize, "min": cr.Spec.Pool.MinPoolSize}
	}
	if s, ok := kn.Annotations[string(types.NormalIPTypeIPs)]; ok {
		n, err := strconv.Atoi(s)
		if err != nil {
			panic(fmt.Sprintf("annotation %s=%q", types.NormalIPTypeIPs, s))
		}
		out["annoIP"] = n
	}
	out["allocEni"] = capQty(kn.Status.Allocatable, deviceplugin.ENIResName)
	out["allocMember"] = capQty(kn.Status.Allocatable, deviceplugin.MemberENIResName)
	out["capEni"] = capQty(kn.Status.Capacity, deviceplugin.ENIResName)
	out["capMember"] = capQty(kn.Status.Capacity, deviceplugin.MemberENIResName)
}

func TestVerifCapacityNode(t *testing.T) {
	cases, err := vt.ReadNDJSON(vt.Env("VERIF_CASES", ""))
	if err != nil {
		t.Fatal(err)
	}
	w, err := vt.NewWriter(vt.Env("VERIF_RESULTS", ""))
	if err != nil {
		t.Fatal(err)
	}
	defer w.Close()

	logf.SetLogger(logr.Discard())
	nodecap.SetNodeCapabilities(nodecap.NodeCapabilityERDMA, "true")
	scheme := k8sruntime.NewScheme()
	if err := clientgoscheme.AddToScheme(scheme); err != nil {
		t.Fatal(err)
	}
	if err := networkv1beta1.AddToScheme(scheme); err != nil {
		t.Fatal(err)
	}
	// the controller notifies the IPAM controller through a bounded channel; nobody listens here
	stop := make(chan struct{})
	defer close(stop)
	go func() {
		for {
			select {
			case <-ipamnode.EventCh:
			case <-stop:
				return
			}
		}
	}()

	jobs := make(chan vt.M, 64)
	var wg sync.WaitGroup
	for i := 0; i < runtime.NumCPU(); i++ {
		wg.Add(1)
		go func() {
			defer wg.Done()
			for c := range jobs {
				in := vt.Map(c["in"])
				out := capZeroNodeOut()
				p := vt.Catch(func() { capRunNode(scheme, fmt.Sprint(c["id"]), in, out) })
				w.Write(vt.M{"id": c["id"], "out": out, "panic": p})
			}
		}()
	}
	for _, c := range cases {
		if vt.Str(vt.Map(c["in"])["fn"]) == "node" {
			jobs <- c
		}
	}
	close(jobs)
	wg.Wait()
}
