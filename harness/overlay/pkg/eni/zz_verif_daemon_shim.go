//go:build verif

package eni

import (
	"golang.org/x/time/rate"
)

// VerifDaemonFastLimiters (C04/C05/C09 harness only, exists only in the /verif build overlay) replaces
// the 1-call-per-6-s rate limiters NewLocal installs by fast ones, exactly as the package's own
// NewLocalTest helper does, so that the daemon-level harness (package daemon) can run the real pool
// without paying minutes of limiter wait. Input construction only, no product logic.
func VerifDaemonFastLimiters(l *Local) {
	l.rateLimitEni = rate.NewLimiter(1000, 1000)
	l.rateLimitv4 = rate.NewLimiter(1000, 1000)
	l.rateLimitv6 = rate.NewLimiter(1000, 1000)
}
