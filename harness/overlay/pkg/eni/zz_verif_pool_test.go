//go:build verif

package eni

import (
	"context"
	"fmt"
	"runtime"
	"net/netip"
	"os"
	"sort"
	"strings"
	"sync"
	"sync/atomic"
	"testing"
	"time"

	sdkErr "github.com/aliyun/alibaba-cloud-sdk-go/sdk/errors"
	"golang.org/x/time/rate"

	apiErr "github.com/AliyunContainerService/terway/pkg/aliyun/client/errors"
	"github.com/AliyunContainerService/terway/types"
	"github.com/AliyunContainerService/terway/types/daemon"
	"github.com/AliyunContainerService/terway/zzverif/vt"
)

// ---------------------------------------------------------------------------------------------
// fake cloud behind factory.Factory; mirrors the cloud part of specs/NodePool.tla one to one.
// Every event is emitted while holding the fake's mutex, i.e. atomically with the state change.

func v4(k int) netip.Addr { return netip.AddrFrom4([4]byte{10, 0, byte(k >> 8), byte(k)}) }
func v6(k int) netip.Addr {
	return netip.AddrFrom16([16]byte{0xfd, 0, 0, 0, 0, 0, 0, 0, 0, 0, 0, 0, 0, 0, byte(k >> 8), byte(k)})
}
func addrNum(a netip.Addr) int {
	if !a.IsValid() {
		return 0
	}
	b := a.AsSlice()
	return int(b[len(b)-2])<<8 | int(b[len(b)-1])
}
func nums(as []netip.Addr) []int {
	r := []int{}
	for _, a := range as {
		r = append(r, addrNum(a))
	}
	sort.Ints(r)
	return r
}
func eniID(e int) string  { return fmt.Sprintf("eni-%d", e) }
func eniMAC(e int) string { return fmt.Sprintf("00:16:3e:00:00:%02x", e) }
func eniNum(id string) int {
	var e int
	if _, err := fmt.Sscanf(id, "eni-%d", &e); err != nil {
		return 0
	}
	return e
}
func macNum(mac string) int {
	var e int
	if _, err := fmt.Sscanf(mac, "00:16:3e:00:00:%02x", &e); err != nil {
		return 0
	}
	return e
}

type fEni struct {
	typ     string
	primary int
	v4, v6  map[int]bool
}

type fCloud struct {
	mu      sync.Mutex
	w       *vt.Writer
	enis    map[int]*fEni
	nextEni int
	plan    []string // outcomes of the next mutating calls, consumed in call order
	kplan   map[string][]string // outcomes for the next calls of one kind (create, assign4, assign6, unassign4, unassign6, delete)
	busy    map[int]int // addresses named by an unassign call in flight (never re-issued meanwhile)
	jitter  func() time.Duration
	faults  int
	loadDelay time.Duration // LoadNetworkInterface (instance metadata) is slow
	armed   func() // run once (in its own goroutine) right after the next successful create / assign call ended
}

// fire runs the armed function after a cloud call ended (called with c.mu held, after the end event was emitted).
func (c *fCloud) fire() {
	if f := c.armed; f != nil {
		c.armed = nil
		go f()
	}
}

func (c *fCloud) next(kind string) string {
	if q := c.kplan[kind]; len(q) > 0 {
		c.kplan[kind] = q[1:]
		if q[0] != "ok" {
			c.faults++
		}
		return q[0]
	}
	if len(c.plan) == 0 {
		return "ok"
	}
	o := c.plan[0]
	c.plan = c.plan[1:]
	if o != "ok" {
		c.faults++
	}
	return o
}

func (c *fCloud) freeAddr(fam int) int {
	lo, hi := 1, 60
	if fam == 6 {
		lo, hi = 101, 160
	}
	used := map[int]bool{}
	for _, e := range c.enis {
		for a := range e.v4 {
			used[a] = true
		}
		for a := range e.v6 {
			used[a] = true
		}
	}
	for a := lo; a <= hi; a++ { // lowest free first: released addresses come back quickly (ABA)
		if !used[a] && c.busy[a] == 0 {
			return a
		}
	}
	panic("verif: address universe exhausted")
}

func codeErr(code string) error {
	if code == "" || code == "generic" {
		return fmt.Errorf("verif: injected failure")
	}
	full := map[string]string{"enilimit": apiErr.ErrEniPerInstanceLimitExceeded, "vswfull": apiErr.InvalidVSwitchIDIPNotEnough,
		"ipquota": apiErr.QuotaExceededPrivateIPAddress}[code]
	if full == "" {
		full = code
	}
	return sdkErr.NewServerError(403, fmt.Sprintf(`{"Code": %q, "Message": "verif"}`, full), "")
}

func setOf(m map[int]bool) []int {
	r := []int{}
	for a := range m {
		r = append(r, a)
	}
	sort.Ints(r)
	return r
}

func (c *fCloud) pause() {
	if c.jitter != nil {
		if d := c.jitter(); d > 0 {
			time.Sleep(d)
		}
	}
}

func (c *fCloud) CreateNetworkInterface(n4, n6 int, eniType string) (*daemon.ENI, []netip.Addr, []netip.Addr, error) {
	c.mu.Lock()
	o := c.next("create")
	c.w.Emit(vt.M{"ev": "create_begin", "n4": n4, "n6": n6, "type": strings.ToLower(eniType), "plan": o})
	c.mu.Unlock()
	c.pause()
	c.mu.Lock()
	defer c.mu.Unlock()
	if strings.HasPrefix(o, "fb") {
		c.w.Emit(vt.M{"ev": "create_end", "e": 0, "type": "", "primary": 0, "v4": []int{}, "v6": []int{}, "err": true})
		return nil, nil, nil, codeErr(strings.TrimPrefix(strings.TrimPrefix(o, "fb"), ":"))
	}
	c.nextEni++
	e := c.nextEni
	fe := &fEni{typ: strings.ToLower(eniType), v4: map[int]bool{}, v6: map[int]bool{}}
	c.enis[e] = fe
	var r4, r6 []netip.Addr
	for i := 0; i < n4; i++ {
		a := c.freeAddr(4)
		fe.v4[a] = true
		if i == 0 {
			fe.primary = a
		}
		r4 = append(r4, v4(a))
	}
	for i := 0; i < n6; i++ {
		a := c.freeAddr(6)
		fe.v6[a] = true
		r6 = append(r6, v6(a))
	}
	eni := c.eniObj(e)
	failAfter := strings.HasPrefix(o, "fa")
	c.w.Emit(vt.M{"ev": "create_end", "e": e, "type": fe.typ, "primary": fe.primary, "v4": setOf(fe.v4), "v6": setOf(fe.v6), "err": failAfter})
	if failAfter {
		return eni, nil, nil, codeErr(strings.TrimPrefix(strings.TrimPrefix(o, "fa"), ":"))
	}
	c.fire()
	return eni, r4, r6, nil
}

func (c *fCloud) eniObj(e int) *daemon.ENI {
	fe := c.enis[e]
	eni := &daemon.ENI{ID: eniID(e), MAC: eniMAC(e), Trunk: fe.typ == "trunk", ERdma: fe.typ == "erdma", VSwitchID: "vsw-1"}
	eni.PrimaryIP.SetIP(v4(fe.primary).String())
	eni.GatewayIP.SetIP("10.0.255.253")
	eni.VSwitchCIDR.SetIPNet("10.0.0.0/16")
	return eni
}

func (c *fCloud) assign(id string, count int, fam int) ([]netip.Addr, error) {
	e := eniNum(id)
	c.mu.Lock()
	o := c.next(fmt.Sprintf("assign%d", fam))
	c.w.Emit(vt.M{"ev": "assign_begin", "e": e, "fam": fam, "n": count, "plan": o})
	c.mu.Unlock()
	c.pause()
	c.mu.Lock()
	defer c.mu.Unlock()
	fe := c.enis[e]
	if strings.HasPrefix(o, "fb") || fe == nil {
		c.w.Emit(vt.M{"ev": "assign_end", "e": e, "fam": fam, "addrs": []int{}, "err": true})
		return nil, codeErr(strings.TrimPrefix(strings.TrimPrefix(o, "fb"), ":"))
	}
	n := count
	var err error
	if strings.HasPrefix(o, "fa") { // the call took effect, the result comes with an error
		err = codeErr(strings.TrimPrefix(strings.TrimPrefix(o, "fa"), ":"))
	}
	if strings.HasPrefix(o, "partial") {
		k := 1
		fmt.Sscanf(o, "partial:%d", &k)
		if k < n {
			n = k
		}
		if n < count {
			err = codeErr("vswfull")
		}
	}
	var r []netip.Addr
	got := []int{}
	for i := 0; i < n; i++ {
		a := c.freeAddr(fam)
		if fam == 4 {
			fe.v4[a] = true
			r = append(r, v4(a))
		} else {
			fe.v6[a] = true
			r = append(r, v6(a))
		}
		got = append(got, a)
	}
	c.w.Emit(vt.M{"ev": "assign_end", "e": e, "fam": fam, "addrs": got, "err": err != nil})
	if err == nil {
		c.fire()
	}
	return r, err
}

func (c *fCloud) AssignNIPv4(id string, count int, mac string) ([]netip.Addr, error) {
	return c.assign(id, count, 4)
}
func (c *fCloud) AssignNIPv6(id string, count int, mac string) ([]netip.Addr, error) {
	return c.assign(id, count, 6)
}

func (c *fCloud) unassign(id string, ips []netip.Addr, fam int) error {
	e := eniNum(id)
	c.mu.Lock()
	o := c.next(fmt.Sprintf("unassign%d", fam))
	c.w.Emit(vt.M{"ev": "unassign_begin", "e": e, "fam": fam, "addrs": nums(ips), "plan": o})
	for _, a := range nums(ips) {
		c.busy[a]++
	}
	c.mu.Unlock()
	c.pause()
	c.mu.Lock()
	defer c.mu.Unlock()
	for _, a := range nums(ips) {
		c.busy[a]--
	}
	fe := c.enis[e]
	effect := !strings.HasPrefix(o, "fb") && fe != nil
	if effect {
		for _, a := range nums(ips) {
			if fam == 4 {
				delete(fe.v4, a)
			} else {
				delete(fe.v6, a)
			}
		}
	}
	c.w.Emit(vt.M{"ev": "unassign_end", "e": e, "fam": fam, "effect": effect, "err": o != "ok"})
	if o != "ok" {
		return codeErr("generic")
	}
	return nil
}

func (c *fCloud) UnAssignNIPv4(id string, ips []netip.Addr, mac string) error {
	return c.unassign(id, ips, 4)
}
func (c *fCloud) UnAssignNIPv6(id string, ips []netip.Addr, mac string) error {
	return c.unassign(id, ips, 6)
}

func (c *fCloud) DeleteNetworkInterface(id string) error {
	e := eniNum(id)
	c.mu.Lock()
	o := c.next("delete")
	slow := o == "slow" // a healthy but slow call
	if slow {
		o = "ok"
		c.faults--
	}
	c.w.Emit(vt.M{"ev": "delete_begin", "e": e, "plan": o})
	c.mu.Unlock()
	c.pause()
	if slow {
		time.Sleep(150 * time.Millisecond)
	}
	c.mu.Lock()
	defer c.mu.Unlock()
	effect := !strings.HasPrefix(o, "fb") && c.enis[e] != nil
	if effect {
		delete(c.enis, e)
	}
	c.w.Emit(vt.M{"ev": "delete_end", "e": e, "effect": effect, "err": o != "ok"})
	if o != "ok" {
		return codeErr("generic")
	}
	return nil
}

func (c *fCloud) LoadNetworkInterface(mac string) ([]netip.Addr, []netip.Addr, error) {
	e := macNum(mac)
	c.mu.Lock()
	dl := c.loadDelay
	c.mu.Unlock()
	if dl > 0 {
		time.Sleep(dl)
	}
	c.mu.Lock()
	defer c.mu.Unlock()
	fe := c.enis[e]
	if fe == nil {
		return nil, nil, fmt.Errorf("verif: eni %s not found", mac)
	}
	var r4, r6 []netip.Addr
	for _, a := range setOf(fe.v4) {
		r4 = append(r4, v4(a))
	}
	for _, a := range setOf(fe.v6) {
		r6 = append(r6, v6(a))
	}
	c.w.Emit(vt.M{"ev": "load", "e": e, "v4": setOf(fe.v4), "v6": setOf(fe.v6)})
	return r4, r6, nil
}

func (c *fCloud) GetAttachedNetworkInterface(preferTrunkID string) ([]*daemon.ENI, error) {
	c.mu.Lock()
	defer c.mu.Unlock()
	var r []*daemon.ENI
	for e := range c.enis {
		r = append(r, c.eniObj(e))
	}
	return r, nil
}

func (c *fCloud) snapshot() []vt.M {
	r := []vt.M{}
	es := []int{}
	for e := range c.enis {
		es = append(es, e)
	}
	sort.Ints(es)
	for _, e := range es {
		fe := c.enis[e]
		r = append(r, vt.M{"e": e, "type": fe.typ, "primary": fe.primary, "v4": setOf(fe.v4), "v6": setOf(fe.v6)})
	}
	return r
}


// ---------------------------------------------------------------------------------------------
// tracing locker: Local.cond is built on a sync.Locker; this one projects the Local's state at the end of every
// critical section (Unlock is still inside it; cond.Wait goes through Unlock/Lock too) and emits it when it changed.

type csLocker struct {
	mu    sync.Mutex
	l     *Local
	slot  int
	w     *vt.Writer
	last  string
	first bool
	slow  *int64 // microseconds a queued request's worker (allocWorker) is held up before it gets the lock: a legal schedule
}

// calledFromAllocWorker reports whether the current goroutine is a request's allocWorker (about to take the pool lock).
func calledFromAllocWorker() bool {
	pcs := make([]uintptr, 12)
	n := runtime.Callers(3, pcs)
	fr := runtime.CallersFrames(pcs[:n])
	for {
		f, more := fr.Next()
		if strings.HasSuffix(f.Function, "(*Local).allocWorker") {
			return true
		}
		if !more {
			return false
		}
	}
}

func liveLen(a AllocatingRequests) int {
	n := 0
	for _, r := range a {
		select {
		case <-r.workerCtx.Done():
		default:
			n++
		}
	}
	return n
}

func (c *csLocker) Lock() {
	if c.slow != nil {
		if us := atomic.LoadInt64(c.slow); us > 0 && calledFromAllocWorker() {
			time.Sleep(time.Duration(us) * time.Microsecond)
		}
	}
	c.mu.Lock()
}
func (c *csLocker) Unlock() {
	l := c.l
	ents := []vt.M{}
	add := func(s Set, fam int) {
		for _, v := range s {
			owner := 0
			if v.podID != "" {
				owner = -1
				fmt.Sscanf(v.podID, "ns/pod-%d", &owner)
			}
			ents = append(ents, vt.M{"a": addrNum(v.ip), "owner": owner, "st": v.status.String(), "primary": v.primary, "fam": fam})
		}
	}
	add(l.ipv4, 4)
	add(l.ipv6, 6)
	sort.Slice(ents, func(i, j int) bool { return ents[i]["a"].(int) < ents[j]["a"].(int) })
	e := 0
	if l.eni != nil {
		e = eniNum(l.eni.ID)
	}
	m := vt.M{"slot": c.slot, "status": l.status.String(), "eni": e, "ents": ents, "q": liveLen(l.allocatingV4) + liveLen(l.allocatingV6),
		"d": liveLen(l.dangingV4) + liveLen(l.dangingV6), "cap": l.cap}
	key := fmt.Sprint(m)
	if key != c.last {
		c.last = key
		if c.first {
			c.first = false
			m["ev"] = "adopt"
		} else {
			m["ev"] = "cs"
		}
		c.w.Emit(m)
	}
	c.mu.Unlock()
}

// ---------------------------------------------------------------------------------------------
// the system under test: real Manager + real Locals on the fake cloud

type poolCfg struct {
	cap, batch, slots, minIdle, maxIdle int
	v4, v6                              bool
	pre                                 int  // interfaces attached before the daemon starts
	trunk                               bool // the first pre-attached interface is the trunk
	special                             string // "", "trunk" or "erdma": type of the first pre-attached interface
	restarted                           bool   // this system is the daemon started again on the same cloud (no reset line, balancer on)
	preV4                               int    // extra idle IPv4 addresses on every pre-attached interface
	noPre6                              bool   // pre-attached interfaces carry no IPv6 address (IPv6 enabled on a node with IPv4-only interfaces)
	policy                              string
}

type poolSys struct {
	t      *testing.T
	w      *vt.Writer
	cloud  *fCloud
	cfg    poolCfg
	mgr    *Manager
	locals []*Local
	ctx    context.Context
	stop   context.CancelFunc
	wg     sync.WaitGroup
	slow   int64
}

func podName(p int) string { return fmt.Sprintf("ns/pod-%d", p) }

func newPoolSys(t *testing.T, w *vt.Writer, cfg poolCfg, scen int, podRes []daemon.PodResources, cloud *fCloud) *poolSys {
	s := &poolSys{t: t, w: w, cfg: cfg}
	if cloud == nil {
		cloud = &fCloud{w: w, enis: map[int]*fEni{}, busy: map[int]int{}, kplan: map[string][]string{}}
		for i := 0; i < cfg.pre; i++ {
			cloud.nextEni++
			e := cloud.nextEni
			fe := &fEni{typ: "secondary", v4: map[int]bool{}, v6: map[int]bool{}}
			if i == 0 && cfg.special != "" {
				fe.typ = cfg.special
			}
			cloud.enis[e] = fe
			a := cloud.freeAddr(4)
			fe.v4[a] = true
			fe.primary = a
			for j := 0; j < cfg.preV4; j++ {
				fe.v4[cloud.freeAddr(4)] = true
			}
			if cfg.v6 && !cfg.noPre6 {
				fe.v6[cloud.freeAddr(6)] = true
			}
		}
	}
	s.cloud = cloud
	cloud.w = w
	cloud.mu.Lock()
	if cfg.restarted {
		w.Emit(vt.M{"ev": "restart"})
	} else {
		w.Emit(vt.M{"ev": "reset", "scen": scen, "conf": vt.M{"cap": cfg.cap, "maxEni": cfg.slots, "v4": cfg.v4, "v6": cfg.v6,
		"minIdle": cfg.minIdle, "maxIdle": cfg.maxIdle, "total": cfg.slots * cfg.cap, "batch": cfg.batch}, "cloud": cloud.snapshot()})
	}
	cloud.mu.Unlock()
	pc := &daemon.PoolConfig{BatchSize: cfg.batch, MaxIPPerENI: cfg.cap, EnableIPv4: cfg.v4, EnableIPv6: cfg.v6}
	var nis []NetworkInterface
	pre := []int{}
	for e := range cloud.enis {
		pre = append(pre, e)
	}
	sort.Ints(pre)
	for i := 0; i < cfg.slots; i++ {
		var l *Local
		if i < len(pre) {
			l = NewLocal(cloud.eniObj(pre[i]), cloud.enis[pre[i]].typ, cloud, pc)
		} else {
			l = NewLocal(nil, "secondary", cloud, pc)
		}
		l.rateLimitEni, l.rateLimitv4, l.rateLimitv6 = rate.NewLimiter(1000, 1000), rate.NewLimiter(1000, 1000), rate.NewLimiter(1000, 1000)
		if os.Getenv("VERIF_CS") != "0" {
			l.cond = sync.NewCond(&csLocker{l: l, slot: i + 1, w: w, first: true, slow: &s.slow})
		}
		s.locals = append(s.locals, l)
		if l.eniType == "trunk" && l.eni != nil {
			nis = append(nis, NewTrunk(nil, l)) // as daemon/builder.go does: the trunk interface is wrapped (local + remote part)
		} else {
			nis = append(nis, l)
		}
	}
	s.mgr = NewManager(cfg.minIdle, cfg.maxIdle, cfg.slots*cfg.cap, 0, nis, daemon.EniSelectionPolicy(cfg.policy), nil)
	if cfg.restarted {
		s.mgr.syncPeriod = 2 * time.Minute // the daemon's periodic balancer: Manager.Run starts it, its first tick comes at once
	}
	s.ctx, s.stop = context.WithCancel(context.Background())
	if err := s.mgr.Run(s.ctx, &s.wg, podRes); err != nil {
		t.Fatalf("manager run: %v", err)
	}
	return s
}

func (s *poolSys) shutdown() {
	s.stop()
	done := make(chan struct{})
	go func() { s.wg.Wait(); close(done) }()
	select {
	case <-done:
	case <-time.After(20 * time.Second):
		s.t.Fatalf("pool workers did not stop")
	}
}

func (s *poolSys) clearInhibit() {
	for _, l := range s.locals {
		l.cond.L.Lock()
		l.ipAllocInhibitExpireAt = time.Time{}
		l.cond.Broadcast()
		l.cond.L.Unlock()
	}
}

// status projects Local.Status() of every slot (the pool's own view) for the quiescent observation.
func (s *poolSys) status() []vt.M {
	r := []vt.M{}
	for i, l := range s.locals {
		st := l.Status()
		ents := []vt.M{}
		for _, u := range st.Usage {
			a, _ := netip.ParseAddr(u[0])
			owner := 0
			if u[1] != "" {
				owner = -1
				fmt.Sscanf(u[1], "ns/pod-%d", &owner)
			}
			fam := 4
			if a.Is6() {
				fam = 6
			}
			ents = append(ents, vt.M{"a": addrNum(a), "owner": owner, "st": u[2], "fam": fam})
		}
		r = append(r, vt.M{"slot": i + 1, "eni": eniNum(st.NetworkInterfaceID), "status": st.Status, "type": st.Type, "ents": ents})
	}
	return r
}

// settled: no cloud call for a while and nothing queued or to be disposed in any slot.
func (s *poolSys) idleNow() bool {
	for _, l := range s.locals {
		l.cond.L.Lock()
		busy := l.allocatingV4.Len() > 0 || l.allocatingV6.Len() > 0 || l.status == statusCreating || l.status == statusDeleting ||
			len(l.ipv4.Deleting()) > 0 || len(l.ipv6.Deleting()) > 0
		l.cond.L.Unlock()
		if busy {
			return false
		}
	}
	return true
}

type held struct {
	e, a4, a6 int
	res       NetworkResource
}

type allocRes struct {
	r, p int
	res  NetworkResources
	err  error
}

type driver struct {
	s        *poolSys
	w        *vt.Writer
	nextReq  int
	open     map[int]context.CancelFunc // request -> cancel
	openPod  map[int]int                // request -> pod
	results  chan allocRes
	holds    map[int]*held
	last     map[int]*held // what a pod released last (for replayed DELs)
	bg       sync.WaitGroup
	maxReq   int
	syncBusy bool
	syncDone chan struct{}
	rdma     map[int]bool // pods asking for an RDMA address (a pod keeps its kind)
	syncMu   sync.Mutex   // one balancer run at a time (the daemon has one periodic balancer goroutine)
}

func (d *driver) collect(block bool, timeout time.Duration) bool {
	var tm <-chan time.Time
	if block {
		tm = time.After(timeout)
	}
	for {
		select {
		case ar := <-d.results:
			d.onResult(ar)
			if block {
				return true
			}
		case <-tm:
			return false
		default:
			if !block {
				return false
			}
			select {
			case ar := <-d.results:
				d.onResult(ar)
				return true
			case <-tm:
				return false
			}
		}
	}
}

func (d *driver) onResult(ar allocRes) {
	delete(d.open, ar.r)
	delete(d.openPod, ar.r)
	ok := ar.err == nil && len(ar.res) == 1
	e, a4, a6 := 0, 0, 0
	if len(ar.res) >= 1 {
		if lr, isLocal := ar.res[0].(*LocalIPResource); isLocal {
			e, a4, a6 = eniNum(lr.ENI.ID), addrNum(lr.IP.IPv4), addrNum(lr.IP.IPv6)
		}
	}
	d.w.Emit(vt.M{"ev": "alloc_ret", "r": ar.r, "pod": ar.p, "ok": ok, "e": e, "a4": a4, "a6": a6, "err": fmt.Sprint(ar.err)})
	if ok {
		d.holds[ar.p] = &held{e: e, a4: a4, a6: a6, res: ar.res[0]}
		return
	}
	if h := d.holds[ar.p]; len(ar.res) > 0 && h != nil && h.e == e && h.a4 == a4 && h.a6 == a6 {
		// the daemon does not hand back an address the pod holds by its stored record (AllocIP, withoutStored)
		return
	}
	if len(ar.res) > 0 {
		// what the daemon does when an ADD fails: hand back everything the call returned
		d.w.Emit(vt.M{"ev": "release_call", "pod": ar.p, "e": e, "a4": a4, "a6": a6, "rollback": true})
		_ = d.s.mgr.Release(context.Background(), &daemon.CNI{PodID: podName(ar.p)}, &ReleaseRequest{NetworkResources: ar.res})
		d.w.Emit(vt.M{"ev": "release_ret", "pod": ar.p})
		if h := d.holds[ar.p]; h != nil && h.e == e && h.a4 == a4 && h.a6 == a6 {
			delete(d.holds, ar.p)
		}
	}
}

func (d *driver) podBusy(p int) bool {
	for _, q := range d.openPod {
		if q == p {
			return true
		}
	}
	return false
}

func (d *driver) step(st vt.M) {
	d.collect(false, 0)
	switch vt.Str(st["a"]) {
	case "alloc":
		p := vt.Int(st["p"])
		if d.podBusy(p) || d.nextReq >= d.maxReq { // the daemon serialises requests per pod
			return
		}
		d.nextReq++
		r := d.nextReq
		ctx, cancel := context.WithCancel(context.Background())
		d.open[r] = cancel
		d.openPod[r] = p
		req := NewLocalIPRequest()
		if vt.Bool(st["rdma"]) && d.holds[p] == nil {
			d.rdma[p] = true
		}
		if d.rdma[p] {
			req.LocalIPType = LocalIPTypeERDMA
		}
		if h := d.holds[p]; h != nil {
			// what the daemon does for a pod with a stored record (daemon.setRequest): pin the interface and addresses
			req.NetworkInterfaceID = eniID(h.e)
			if h.a4 != 0 {
				req.IPv4 = v4(h.a4)
			}
			if h.a6 != 0 {
				req.IPv6 = v6(h.a6)
			}
		}
		d.w.Emit(vt.M{"ev": "alloc_call", "r": r, "pod": p})
		d.bg.Add(1)
		go func() {
			defer d.bg.Done()
			res, err := d.s.mgr.Allocate(ctx, &daemon.CNI{PodID: podName(p)}, &AllocRequest{ResourceRequests: []ResourceRequest{req}})
			d.results <- allocRes{r: r, p: p, res: res, err: err}
		}()
	case "direct_sync":
		// a forced schedule: the balancer runs in the gap between Local.Allocate returning (direct path) and its commit
		// goroutine taking the lock. The interface is offered the request directly (what Manager.Allocate does), the
		// balancer is called synchronously right after, on one P so that the commit goroutine cannot run in between.
		p := vt.Int(st["p"])
		if d.syncBusy {
			select {
			case <-d.syncDone:
				d.syncBusy = false
			case <-time.After(10 * time.Second):
				return
			}
		}
		if d.podBusy(p) || d.holds[p] != nil || d.nextReq >= d.maxReq {
			return
		}
		d.nextReq++
		r := d.nextReq
		d.w.Emit(vt.M{"ev": "alloc_call", "r": r, "pod": p})
		ctx, cancel := context.WithCancel(context.Background())
		old := runtime.GOMAXPROCS(1)
		var ch chan *AllocResp
		for _, l := range d.s.locals {
			if c, _ := l.Allocate(ctx, &daemon.CNI{PodID: podName(p)}, NewLocalIPRequest()); c != nil {
				ch = c
				break
			}
		}
		if ch != nil {
			d.w.Emit(vt.M{"ev": "syncpool_call"})
			sctx, scancel := context.WithTimeout(d.s.ctx, 3*time.Second)
			d.s.mgr.syncPool(sctx)
			scancel()
			d.w.Emit(vt.M{"ev": "syncpool_ret"})
		}
		runtime.GOMAXPROCS(old)
		var res NetworkResources
		var err error = fmt.Errorf("no eni can handle the allocation")
		if ch != nil {
			select {
			case resp, ok := <-ch:
				if ok && resp != nil && resp.Err == nil {
					res, err = resp.NetworkConfigs, nil
				} else {
					err = fmt.Errorf("closed")
				}
			case <-time.After(5 * time.Second):
				cancel()
				if resp, ok := <-ch; ok && resp != nil {
					res = resp.NetworkConfigs
				}
				err = fmt.Errorf("timeout")
			}
		}
		cancel()
		d.onResult(allocRes{r: r, p: p, res: res, err: err})
	case "cancel":
		// cancel the oldest open request of that pod (or any)
		p := vt.Int(st["p"])
		for r, q := range d.openPod {
			if q == p || p == 0 {
				d.w.Emit(vt.M{"ev": "cancel", "r": r})
				d.open[r]()
				break
			}
		}
	case "release":
		p := vt.Int(st["p"])
		h := d.holds[p]
		if d.podBusy(p) {
			return
		}
		if h == nil {
			// the runtime replays an old DEL: the pod releases again what it gave back earlier
			h = d.last[p]
			if h == nil {
				return
			}
		}
		d.last[p] = h
		delete(d.holds, p)
		d.w.Emit(vt.M{"ev": "release_call", "pod": p, "e": h.e, "a4": h.a4, "a6": h.a6, "rollback": false})
		_ = d.s.mgr.Release(context.Background(), &daemon.CNI{PodID: podName(p)}, &ReleaseRequest{NetworkResources: []NetworkResource{h.res}})
		d.w.Emit(vt.M{"ev": "release_ret", "pod": p})
	case "syncpool":
		if d.syncBusy {
			select {
			case <-d.syncDone:
				d.syncBusy = false
			default:
				return
			}
		}
		d.syncBusy = true
		d.syncDone = make(chan struct{})
		d.w.Emit(vt.M{"ev": "syncpool_call"})
		done := d.syncDone
		d.bg.Add(1)
		go func() {
			defer d.bg.Done()
			ctx, cancel := context.WithTimeout(d.s.ctx, 8*time.Second)
			defer cancel()
			d.syncMu.Lock()
			d.s.mgr.syncPool(ctx)
			d.syncMu.Unlock()
			d.w.Emit(vt.M{"ev": "syncpool_ret"})
			close(done)
		}()
	case "restart":
		// the daemon process stops and starts again on the same node: the interfaces are loaded from the (slow) metadata
		// service, the pods' addresses restored from the stored records, the periodic balancer starts as Manager.Run does
		d.settle(3 * time.Second)
		for r, cancel := range d.open {
			d.w.Emit(vt.M{"ev": "cancel", "r": r})
			cancel()
		}
		for len(d.open) > 0 {
			if !d.collect(true, 10*time.Second) {
				d.s.t.Fatalf("open requests did not return before the restart")
			}
		}
		if d.syncBusy {
			select {
			case <-d.syncDone:
			case <-time.After(15 * time.Second):
				d.s.t.Fatalf("syncPool did not return before the restart")
			}
			d.syncBusy = false
		}
		c := d.s.cloud
		c.mu.Lock()
		if c.armed != nil {
			c.armed = nil
			d.bg.Done()
		}
		c.loadDelay = time.Duration(vt.Int(st["loadMs"])) * time.Millisecond
		c.mu.Unlock()
		d.bg.Wait()
		d.s.shutdown()
		var recs []daemon.PodResources
		for p, h := range d.holds {
			it := daemon.ResourceItem{Type: daemon.ResourceTypeENIIP, ENIID: eniID(h.e), ENIMAC: eniMAC(h.e)}
			if h.a4 != 0 {
				it.IPv4 = v4(h.a4).String()
			}
			if h.a6 != 0 {
				it.IPv6 = v6(h.a6).String()
			}
			recs = append(recs, daemon.PodResources{PodInfo: &daemon.PodInfo{Namespace: "ns", Name: fmt.Sprintf("pod-%d", p)}, Resources: []daemon.ResourceItem{it}})
		}
		cfg := d.s.cfg
		cfg.restarted = true
		d.s = newPoolSys(d.s.t, d.w, cfg, 0, recs, c)
	case "slowwaiter":
		// from now on a queued request's worker is held up that long whenever it is about to take the pool lock
		atomic.StoreInt64(&d.s.slow, int64(vt.Int(st["us"])))
	case "arm_sync":
		// the balancer runs us microseconds after the next successful create / assign call of the cloud ended, i.e. (with
		// slow waiters) between the factory worker storing the new addresses and the waiting request taking one
		us := vt.Int(st["us"])
		c := d.s.cloud
		c.mu.Lock()
		if c.armed != nil {
			d.bg.Done() // replaced before it fired
		}
		c.armed = func() {
			defer d.bg.Done()
			time.Sleep(time.Duration(us) * time.Microsecond)
			ctx, cancel := context.WithTimeout(d.s.ctx, 8*time.Second)
			defer cancel()
			d.syncMu.Lock()
			d.w.Emit(vt.M{"ev": "syncpool_call"})
			d.s.mgr.syncPool(ctx)
			d.w.Emit(vt.M{"ev": "syncpool_ret"})
			d.syncMu.Unlock()
		}
		d.bg.Add(1)
		c.mu.Unlock()
	case "sync":
		k := vt.Int(st["slot"])
		if k >= 1 && k <= len(d.s.locals) {
			d.s.locals[k-1].sync()
		}
	case "remove":
		// an address disappears in the cloud behind the daemon's back (never the primary one)
		c := d.s.cloud
		c.mu.Lock()
		es := []int{}
		for e := range c.enis {
			es = append(es, e)
		}
		sort.Ints(es)
		if len(es) > 0 {
			e := es[vt.Int(st["k"])%len(es)]
			fe := c.enis[e]
			fam := 4
			set := fe.v4
			if vt.Int(st["fam"]) == 6 && len(fe.v6) > 0 {
				fam, set = 6, fe.v6
			}
			cands := []int{}
			for _, a := range setOf(set) {
				if a != fe.primary {
					cands = append(cands, a)
				}
			}
			if len(cands) > 0 {
				a := cands[vt.Int(st["j"])%len(cands)]
				delete(set, a)
				c.w.Emit(vt.M{"ev": "remote_remove", "e": e, "fam": fam, "a": a})
			}
		}
		c.mu.Unlock()
	case "plan":
		c := d.s.cloud
		c.mu.Lock()
		for _, o := range vt.List(st["outcomes"]) {
			if k := vt.Str(st["kind"]); k != "" {
				c.kplan[k] = append(c.kplan[k], vt.Str(o))
			} else {
				c.plan = append(c.plan, vt.Str(o))
			}
		}
		c.mu.Unlock()
	case "uninhibit":
		d.s.clearInhibit()
	case "wait":
		time.Sleep(time.Duration(vt.Int(st["ms"]))*time.Millisecond + time.Duration(vt.Int(st["us"]))*time.Microsecond)
	case "settle":
		d.settle(3 * time.Second)
	}
}

func (d *driver) settle(max time.Duration) {
	deadline := time.Now().Add(max)
	for time.Now().Before(deadline) {
		d.collect(false, 0)
		if len(d.open) == 0 && d.s.idleNow() {
			return
		}
		time.Sleep(20 * time.Millisecond)
	}
}

// drain brings the system to rest with a healthy cloud and emits the quiescent observation.
func (d *driver) drain() {
	t0 := time.Now()
	rounds := 0
	c := d.s.cloud
	c.mu.Lock()
	c.plan = nil
	c.kplan = map[string][]string{}
	if c.armed != nil {
		c.armed = nil
		d.bg.Done()
	}
	c.mu.Unlock()
	atomic.StoreInt64(&d.s.slow, 0)
	d.s.clearInhibit()
	// open requests: let them finish (healthy cloud), cancel what does not finish
	deadline := time.Now().Add(6 * time.Second)
	for len(d.open) > 0 && time.Now().Before(deadline) {
		d.s.clearInhibit()
		d.collect(true, 200*time.Millisecond)
	}
	for r, cancel := range d.open {
		d.w.Emit(vt.M{"ev": "cancel", "r": r})
		cancel()
	}
	for len(d.open) > 0 {
		if !d.collect(true, 10*time.Second) {
			d.s.t.Fatalf("open requests did not return after cancel")
		}
	}
	if d.syncBusy {
		select {
		case <-d.syncDone:
		case <-time.After(15 * time.Second):
			d.s.t.Fatalf("syncPool did not return")
		}
		d.syncBusy = false
	}
	d.bg.Wait()
	band := func() bool {
		idleNP, idleAll, inUse := 0, 0, 0
		c.mu.Lock()
		prim := map[int]int{}
		for e, fe := range c.enis {
			prim[e] = fe.primary
		}
		c.mu.Unlock()
		fam := 4
		if !d.s.cfg.v4 {
			fam = 6
		}
		for _, s := range d.s.status() {
			for _, x := range s["ents"].([]vt.M) {
				if x["fam"].(int) != fam {
					continue
				}
				if x["owner"].(int) != 0 {
					inUse++
					continue
				}
				if s["status"] == "InUse" {
					idleAll++
				}
				if x["st"] == "Valid" && x["a"].(int) != prim[s["eni"].(int)] {
					idleNP++
				}
			}
		}
		if idleNP > d.s.cfg.maxIdle {
			return false
		}
		if idleAll < d.s.cfg.minIdle && idleAll+inUse < d.s.cfg.slots*d.s.cfg.cap {
			return false
		}
		return true
	}
	for round := 0; round < 40; round++ {
		rounds++
		d.s.clearInhibit()
		for _, l := range d.s.locals {
			l.sync()
		}
		ctx, cancel := context.WithTimeout(d.s.ctx, 10*time.Second)
		d.s.mgr.syncPool(ctx)
		cancel()
		d.waitIdle(10 * time.Second)
		if round >= 1 && band() {
			break
		}
	}
	d.waitIdle(10 * time.Second)
	c.mu.Lock()
	snap := c.snapshot()
	faults := c.faults
	c.mu.Unlock()
	hs := vt.M{}
	for p, h := range d.holds {
		hs[fmt.Sprint(p)] = vt.M{"e": h.e, "a4": h.a4, "a6": h.a6}
	}
	d.w.Emit(vt.M{"ev": "quiescent", "st": d.s.status(), "cloud": snap, "healthy": true, "faults": faults, "held": hs, "drain_ms": int(time.Since(t0) / time.Millisecond), "rounds": rounds})
}

func (d *driver) waitIdle(max time.Duration) {
	deadline := time.Now().Add(max)
	stable := 0
	for time.Now().Before(deadline) {
		if d.s.idleNow() {
			stable++
			if stable >= 3 {
				return
			}
		} else {
			stable = 0
		}
		time.Sleep(15 * time.Millisecond)
	}
	d.s.t.Fatalf("pool did not come to rest")
}

func readPoolScenarios(t *testing.T) [][]vt.M {
	var scens [][]vt.M
	f := os.Getenv("VERIF_SCEN")
	if f == "" {
		return nil
	}
	b, err := os.ReadFile(f)
	if err != nil {
		t.Fatal(err)
	}
	for _, line := range strings.Split(string(b), "\n") {
		if strings.TrimSpace(line) == "" {
			continue
		}
		wrapped, err := vt.ReadNDJSONString(`{"s":` + line + `}`)
		if err != nil {
			t.Fatal(err)
		}
		var sc []vt.M
		for _, st := range vt.List(wrapped[0]["s"]) {
			sc = append(sc, vt.Map(st))
		}
		scens = append(scens, sc)
	}
	return scens
}

func cfgOf(m vt.M) poolCfg {
	c := poolCfg{cap: vt.Int(m["cap"]), batch: vt.Int(m["batch"]), slots: vt.Int(m["slots"]), minIdle: vt.Int(m["minIdle"]),
		maxIdle: vt.Int(m["maxIdle"]), v4: vt.Bool(m["v4"]), v6: vt.Bool(m["v6"]), pre: vt.Int(m["pre"]), trunk: vt.Bool(m["trunk"]),
		policy: vt.Str(m["policy"])}
	if s, ok := m["special"].(string); ok {
		c.special = s
	}
	if c.trunk && c.special == "" {
		c.special = "trunk"
	}
	c.noPre6, _ = m["noPre6"].(bool)
	c.preV4 = vt.Int(m["preV4"])
	return c
}

// TestVerifPool runs scenarios (from TLC simulation via VERIF_SCEN, plus seeded random ones) against the real pool.
// Shard k of n (VERIF_SHARD=k/n) takes every n-th scenario so that the 300 ms factory rounds run in parallel processes.
func TestVerifPool(t *testing.T) {
	w, err := vt.NewWriter(vt.Env("VERIF_TRACE", ""))
	if err != nil {
		t.Fatal(err)
	}
	defer w.Close()
	scens := readPoolScenarios(t)
	nrand := vt.EnvInt("VERIF_RANDOM", 10)
	rng := vt.Rand(101)
	outcomes := []string{"ok", "ok", "ok", "fb", "fb:enilimit", "fb:vswfull", "fb:ipquota", "fa", "partial:1", "partial:0", "fa:vswfull"}
	// directed scenarios (no random prefix) come after the random ones, in an index space of their own: dir = 0, 1, 2, ...
	ndir := vt.EnvInt("VERIF_DIRECTED", 12)
	for k := 0; k < nrand+ndir; k++ {
		dir := k - nrand // < 0: a random scenario
		cfg := vt.M{"cap": 2 + rng.Intn(2), "batch": 1 + rng.Intn(3), "slots": 2 + rng.Intn(2), "v4": true, "v6": rng.Intn(3) == 0,
			"pre": rng.Intn(2), "trunk": rng.Intn(3) == 0, "special": []string{"", "", "trunk", "erdma"}[rng.Intn(4)], "policy": []string{"most_ips", "least_ips"}[rng.Intn(2)]}
		mn := rng.Intn(3)
		cfg["minIdle"], cfg["maxIdle"] = mn, mn+rng.Intn(3)
		sc := []vt.M{{"a": "conf", "conf": cfg}}
		n := 14 + rng.Intn(10)
		for i := 0; i < n; i++ {
			p := 1 + rng.Intn(4)
			switch x := rng.Intn(20); {
			case x < 7:
				sc = append(sc, vt.M{"a": "alloc", "p": p, "pin": rng.Intn(3) == 0})
			case x < 10:
				sc = append(sc, vt.M{"a": "release", "p": p})
			case x < 11:
				sc = append(sc, vt.M{"a": "cancel", "p": p})
			case x < 12:
				// a request cancelled right away: the cancellation races with the pool's commit
				sc = append(sc, vt.M{"a": "alloc", "p": p}, vt.M{"a": "wait", "us": rng.Intn(400)}, vt.M{"a": "cancel", "p": p})
			case x < 13 && i%2 == 0:
				// several pods at once while addresses are idle
				sc = append(sc, vt.M{"a": "settle"}, vt.M{"a": "alloc", "p": 1}, vt.M{"a": "alloc", "p": 2}, vt.M{"a": "alloc", "p": 3}, vt.M{"a": "alloc", "p": 4})
			case x < 13:
				sc = append(sc, vt.M{"a": "syncpool"})
			case x < 14:
				sc = append(sc, vt.M{"a": "sync", "slot": 1 + rng.Intn(3)})
			case x < 15:
				sc = append(sc, vt.M{"a": "remove", "k": rng.Intn(3), "j": rng.Intn(3), "fam": 4})
			case x < 16:
				sc = append(sc, vt.M{"a": "plan", "outcomes": []any{outcomes[rng.Intn(len(outcomes))], outcomes[rng.Intn(len(outcomes))]}})
			case x < 17:
				kinds := []string{"assign4", "assign6", "assign6", "unassign4", "unassign6", "delete", "create"}
				sc = append(sc, vt.M{"a": "plan", "kind": kinds[rng.Intn(len(kinds))], "outcomes": []any{[]string{"fa", "fa:vswfull", "partial:1", "fb"}[rng.Intn(4)]}})
			case x < 18:
				sc = append(sc, vt.M{"a": "uninhibit"})
			case x < 19:
				sc = append(sc, vt.M{"a": "wait", "ms": 50 + rng.Intn(350)})
			default:
				sc = append(sc, vt.M{"a": "settle"})
			}
		}
		if dir >= 0 && dir%4 == 0 {
			// the balancer lands between the factory worker storing fresh addresses (the waiting request's job is already
			// popped) and the waiting request taking one: the interface is idle by its address table but not free
			sc = sc[:1] // directed scenario: no random prefix, no other tail (the request budget of a scenario is limited)
			c := vt.Map(sc[0]["conf"])
			c["pre"], c["maxIdle"], c["minIdle"], c["batch"] = 0, 0, 0, 1+(dir/8)%2
			c["v6"] = (dir/4)%2 == 1
			sc = append(sc, vt.M{"a": "uninhibit"}, vt.M{"a": "settle"})
			for p := 1; p <= 4; p++ {
				sc = append(sc, vt.M{"a": "release", "p": p})
			}
			sc = append(sc, vt.M{"a": "syncpool"}, vt.M{"a": "wait", "ms": 400}, vt.M{"a": "syncpool"}, vt.M{"a": "wait", "ms": 400}, vt.M{"a": "settle"},
				vt.M{"a": "plan", "kind": "delete", "outcomes": []any{"slow"}},
				vt.M{"a": "slowwaiter", "us": 40000}, vt.M{"a": "arm_sync", "us": 4000}, vt.M{"a": "alloc", "p": 1}, vt.M{"a": "wait", "ms": 700},
				vt.M{"a": "alloc", "p": 2}, vt.M{"a": "wait", "ms": 500}, vt.M{"a": "arm_sync", "us": 4000}, vt.M{"a": "alloc", "p": 3}, vt.M{"a": "alloc", "p": 4},
				vt.M{"a": "wait", "ms": 700}, vt.M{"a": "slowwaiter", "us": 0}, vt.M{"a": "settle"})
			scens = append(scens, sc)
			continue
		}
		if dir >= 0 && dir%4 == 1 {
			sc = sc[:1]
			c := vt.Map(sc[0]["conf"])
			c["special"], c["trunk"], c["minIdle"], c["policy"] = "", false, 0, "most_ips"
			if (dir/4)%3 == 2 {
				// dual stack with assign calls that take effect but report an error / a partial result, per family (the same
				// history as the k%5 == 4 tail, here without a random prefix so that the request budget cannot cut it short)
				c["v6"], c["cap"], c["slots"], c["batch"], c["pre"], c["maxIdle"] = true, 3, 2, 2, 0, 1
				sc = append(sc, vt.M{"a": "uninhibit"}, vt.M{"a": "alloc", "p": 1}, vt.M{"a": "settle"},
					vt.M{"a": "plan", "kind": "assign6", "outcomes": []any{"fa"}}, vt.M{"a": "alloc", "p": 2}, vt.M{"a": "alloc", "p": 3}, vt.M{"a": "settle"},
					vt.M{"a": "uninhibit"}, vt.M{"a": "settle"}, vt.M{"a": "release", "p": 2},
					vt.M{"a": "plan", "kind": "assign4", "outcomes": []any{"fa:vswfull"}}, vt.M{"a": "plan", "kind": "assign6", "outcomes": []any{"partial:1"}},
					vt.M{"a": "alloc", "p": 4}, vt.M{"a": "alloc", "p": 2}, vt.M{"a": "settle"}, vt.M{"a": "uninhibit"}, vt.M{"a": "settle"},
					vt.M{"a": "release", "p": 1}, vt.M{"a": "plan", "kind": "assign6", "outcomes": []any{"fa"}}, vt.M{"a": "plan", "kind": "assign4", "outcomes": []any{"partial:1"}},
					vt.M{"a": "alloc", "p": 1}, vt.M{"a": "settle"}, vt.M{"a": "uninhibit"}, vt.M{"a": "settle"})
			} else if (dir/4)%3 == 0 {
				// IPv6 switched on for a node whose interface carries IPv4 addresses only: more pods arrive at once than the
				// interface has IPv6 slots; the pending IPv6 requests must count against the per-interface limit
				c["v6"], c["cap"], c["slots"], c["batch"], c["pre"], c["noPre6"], c["preV4"], c["maxIdle"] = true, 3, 2, 3, 1, true, 2, 3
				sc = append(sc, vt.M{"a": "uninhibit"}, vt.M{"a": "settle"}, vt.M{"a": "alloc", "p": 1}, vt.M{"a": "alloc", "p": 2}, vt.M{"a": "alloc", "p": 3},
					vt.M{"a": "alloc", "p": 4}, vt.M{"a": "wait", "ms": 900}, vt.M{"a": "settle"}, vt.M{"a": "release", "p": 1}, vt.M{"a": "release", "p": 2},
					vt.M{"a": "settle"}, vt.M{"a": "alloc", "p": 1}, vt.M{"a": "alloc", "p": 2}, vt.M{"a": "settle"})
			} else {
				// the balancer gives an idle interface up, the cloud refuses the delete once: the slot is not free before the
				// interface is really gone, new demand must not create an interface beyond the node's quota meanwhile
				c["v6"], c["cap"], c["slots"], c["batch"], c["pre"], c["maxIdle"] = (dir/12)%2 == 1, 2, 2, 1, 0, 0
				sc = append(sc, vt.M{"a": "uninhibit"}, vt.M{"a": "settle"}, vt.M{"a": "alloc", "p": 1}, vt.M{"a": "settle"}, vt.M{"a": "alloc", "p": 2}, vt.M{"a": "settle"},
					vt.M{"a": "alloc", "p": 3}, vt.M{"a": "wait", "ms": 700}, vt.M{"a": "settle"}, vt.M{"a": "release", "p": 3}, vt.M{"a": "settle"},
					vt.M{"a": "plan", "kind": "delete", "outcomes": []any{"fb"}}, vt.M{"a": "syncpool"}, vt.M{"a": "wait", "ms": 500},
					vt.M{"a": "alloc", "p": 3}, vt.M{"a": "alloc", "p": 4}, vt.M{"a": "wait", "ms": 900}, vt.M{"a": "uninhibit"}, vt.M{"a": "settle"})
			}
			scens = append(scens, sc)
			continue
		}
		if dir >= 0 && dir%4 == 2 {
			// restart on a node whose interface is full of addresses pods hold, with a minimum idle reserve and a slow
			// metadata service: the balancer must not run before the interfaces are loaded
			sc = sc[:1]
			c := vt.Map(sc[0]["conf"])
			c["cap"], c["slots"], c["batch"], c["pre"], c["minIdle"], c["maxIdle"], c["special"], c["trunk"] = 3, 2, 2, 0, 2, 3, "", false
			c["v6"] = (dir/4)%2 == 1
			sc = append(sc, vt.M{"a": "uninhibit"}, vt.M{"a": "settle"}, vt.M{"a": "alloc", "p": 1}, vt.M{"a": "settle"}, vt.M{"a": "alloc", "p": 2}, vt.M{"a": "alloc", "p": 3},
				vt.M{"a": "wait", "ms": 800}, vt.M{"a": "settle"}, vt.M{"a": "restart", "loadMs": 300}, vt.M{"a": "wait", "ms": 1500}, vt.M{"a": "settle"},
				vt.M{"a": "alloc", "p": 4}, vt.M{"a": "settle"}, vt.M{"a": "release", "p": 1}, vt.M{"a": "restart", "loadMs": 100}, vt.M{"a": "wait", "ms": 1200}, vt.M{"a": "settle"})
			scens = append(scens, sc)
			continue
		}
		if dir >= 0 && dir%4 == 3 {
			// dual stack: shrinking leaves an interface with idle IPv4 but no idle IPv6 and no pod; the next request lands there
			// (the other interface is full) and waits for an IPv6 address only; a pod leaves elsewhere and the balancer runs
			sc = sc[:1]
			c := vt.Map(sc[0]["conf"])
			c["v6"], c["cap"], c["slots"], c["batch"], c["pre"], c["maxIdle"], c["minIdle"], c["policy"] = true, 2, 2, 2, 0, 1, 0, "most_ips"
			c["special"], c["trunk"] = "", false
			if (dir/4)%2 == 0 {
				// the shortest way into that state: the pre-attached interface has an idle IPv4 (its primary) and no IPv6 at all
				// (IPv6 enabled on a node with an IPv4-only interface); one request waits for an IPv6 address, the balancer runs
				c["pre"], c["noPre6"], c["maxIdle"] = 1, true, 0
				for j := 0; j < 2; j++ {
					sc = append(sc, vt.M{"a": "uninhibit"}, vt.M{"a": "settle"}, vt.M{"a": "alloc", "p": 1 + j}, vt.M{"a": "wait", "ms": 20},
						vt.M{"a": "syncpool"}, vt.M{"a": "wait", "ms": 600}, vt.M{"a": "settle"}, vt.M{"a": "release", "p": 1 + j}, vt.M{"a": "settle"})
				}
				scens = append(scens, sc)
				continue
			}
			last := []int{2, 4}[(dir/8)%2]
			sc = append(sc, vt.M{"a": "uninhibit"}, vt.M{"a": "settle"})
			for p := 1; p <= 4; p++ {
				sc = append(sc, vt.M{"a": "release", "p": p})
			}
			sc = append(sc, vt.M{"a": "syncpool"}, vt.M{"a": "wait", "ms": 400}, vt.M{"a": "syncpool"}, vt.M{"a": "wait", "ms": 400}, vt.M{"a": "settle"},
				vt.M{"a": "alloc", "p": 1}, vt.M{"a": "alloc", "p": 2}, vt.M{"a": "settle"}, vt.M{"a": "alloc", "p": 3}, vt.M{"a": "alloc", "p": 4}, vt.M{"a": "settle"},
				vt.M{"a": "release", "p": 1}, vt.M{"a": "release", "p": 3}, vt.M{"a": "syncpool"}, vt.M{"a": "wait", "ms": 500}, vt.M{"a": "settle"},
				vt.M{"a": "alloc", "p": 1}, vt.M{"a": "settle"}, vt.M{"a": "release", "p": last}, vt.M{"a": "syncpool"}, vt.M{"a": "wait", "ms": 500}, vt.M{"a": "settle"},
				vt.M{"a": "alloc", "p": 3}, vt.M{"a": "wait", "ms": 30}, vt.M{"a": "release", "p": 1}, vt.M{"a": "syncpool"}, vt.M{"a": "wait", "ms": 600}, vt.M{"a": "settle"})
			scens = append(scens, sc)
			continue
		}
		if k%3 == 0 {
			// partial shrink: some pods leave, the balancer trims while others still hold addresses on the same interfaces
			vt.Map(sc[0]["conf"])["maxIdle"] = vt.Int(vt.Map(sc[0]["conf"])["minIdle"])
			sc = append(sc, vt.M{"a": "uninhibit"}, vt.M{"a": "alloc", "p": 1}, vt.M{"a": "alloc", "p": 2}, vt.M{"a": "alloc", "p": 3},
				vt.M{"a": "alloc", "p": 4}, vt.M{"a": "settle"}, vt.M{"a": "release", "p": 1 + rng.Intn(4)}, vt.M{"a": "release", "p": 1 + rng.Intn(4)},
				vt.M{"a": "syncpool"}, vt.M{"a": "wait", "ms": rng.Intn(40)}, vt.M{"a": "alloc", "p": 1 + rng.Intn(4)}, vt.M{"a": "settle"})
		}
		if k%3 == 1 {
			// the balancer racing with requests served from idle addresses
			vt.Map(sc[0]["conf"])["maxIdle"] = 0
			vt.Map(sc[0]["conf"])["minIdle"] = 0
			for j := 0; j < 3; j++ {
				q := 1 + rng.Intn(4)
				sc = append(sc, vt.M{"a": "uninhibit"}, vt.M{"a": "alloc", "p": 1}, vt.M{"a": "alloc", "p": 2}, vt.M{"a": "alloc", "p": 3}, vt.M{"a": "settle"},
					vt.M{"a": "release", "p": q}, vt.M{"a": "alloc", "p": q}, vt.M{"a": "syncpool"}, vt.M{"a": "wait", "ms": 20}, vt.M{"a": "release", "p": 1 + rng.Intn(4)},
					vt.M{"a": "syncpool"}, vt.M{"a": "alloc", "p": 4}, vt.M{"a": "settle"})
			}
			// exactly one idle address (the others are held), a new pod takes it on the direct path, the balancer runs in the gap
			sc = append(sc, vt.M{"a": "uninhibit"}, vt.M{"a": "alloc", "p": 1}, vt.M{"a": "alloc", "p": 2}, vt.M{"a": "alloc", "p": 3}, vt.M{"a": "settle"},
				vt.M{"a": "release", "p": 3}, vt.M{"a": "settle"}, vt.M{"a": "direct_sync", "p": 4}, vt.M{"a": "settle"},
				vt.M{"a": "release", "p": 2}, vt.M{"a": "settle"}, vt.M{"a": "direct_sync", "p": 3}, vt.M{"a": "settle"},
				vt.M{"a": "release", "p": 4}, vt.M{"a": "settle"}, vt.M{"a": "direct_sync", "p": 2}, vt.M{"a": "settle"})
			// cancellations racing with the commit of a first ADD while addresses are idle
			sc = append(sc, vt.M{"a": "uninhibit"}, vt.M{"a": "settle"})
			for j := 0; j < 4; j++ {
				q := 1 + rng.Intn(4)
				sc = append(sc, vt.M{"a": "release", "p": q}, vt.M{"a": "alloc", "p": q}, vt.M{"a": "wait", "us": rng.Intn(300)}, vt.M{"a": "cancel", "p": q})
			}
		}
		if k%5 == 4 {
			// dual stack with assign calls that take effect but report an error / a partial result, per family
			c := vt.Map(sc[0]["conf"])
			c["v6"], c["cap"], c["batch"], c["pre"], c["trunk"] = true, 3, 2, 0, false
			sc = append(sc, vt.M{"a": "uninhibit"}, vt.M{"a": "alloc", "p": 1}, vt.M{"a": "settle"},
				vt.M{"a": "plan", "kind": "assign6", "outcomes": []any{"fa"}}, vt.M{"a": "alloc", "p": 2}, vt.M{"a": "alloc", "p": 3}, vt.M{"a": "settle"},
				vt.M{"a": "uninhibit"}, vt.M{"a": "settle"}, vt.M{"a": "release", "p": 2},
				vt.M{"a": "plan", "kind": "assign4", "outcomes": []any{"fa:vswfull"}}, vt.M{"a": "plan", "kind": "assign6", "outcomes": []any{"partial:1"}},
				vt.M{"a": "alloc", "p": 4}, vt.M{"a": "alloc", "p": 2}, vt.M{"a": "settle"}, vt.M{"a": "uninhibit"}, vt.M{"a": "settle"})
		}
		if k%2 == 0 {
			// an address a pod holds is removed remotely, the periodic sync sees it, the pod leaves, the next pods arrive
			// before / after another sync: the removed address must not be handed out again
			sc = append(sc, vt.M{"a": "uninhibit"}, vt.M{"a": "alloc", "p": 1}, vt.M{"a": "alloc", "p": 2}, vt.M{"a": "settle"},
				vt.M{"a": "remove", "k": 0, "j": 0, "fam": 4}, vt.M{"a": "remove", "k": 0, "j": 1, "fam": 4}, vt.M{"a": "remove", "k": 1, "j": 0, "fam": 4},
				vt.M{"a": "sync", "slot": 1}, vt.M{"a": "sync", "slot": 2}, vt.M{"a": "sync", "slot": 3},
				vt.M{"a": "release", "p": 1}, vt.M{"a": "release", "p": 2}, vt.M{"a": "alloc", "p": 3}, vt.M{"a": "alloc", "p": 4}, vt.M{"a": "settle"})
		}
		if k%4 == 3 {
			// a request arriving just when a freshly assigned address lands steals it from a queued waiter whose job was already
			// popped; afterwards everything is released and the balancer may give the interface up while that waiter still waits
			c := vt.Map(sc[0]["conf"])
			c["batch"], c["maxIdle"], c["minIdle"], c["pre"], c["trunk"] = 1, 0, 0, 0, false
			sc = append(sc, vt.M{"a": "uninhibit"}, vt.M{"a": "settle"})
			for j := 0; j < 2; j++ {
				sc = append(sc, vt.M{"a": "alloc", "p": 1}, vt.M{"a": "alloc", "p": 2}, vt.M{"a": "wait", "ms": 285 + rng.Intn(60)}, vt.M{"a": "alloc", "p": 3},
					vt.M{"a": "wait", "ms": 5 + rng.Intn(40)}, vt.M{"a": "alloc", "p": 4}, vt.M{"a": "wait", "ms": 350},
					vt.M{"a": "release", "p": 1}, vt.M{"a": "release", "p": 2}, vt.M{"a": "release", "p": 3}, vt.M{"a": "release", "p": 4},
					vt.M{"a": "syncpool"}, vt.M{"a": "wait", "ms": 30 + rng.Intn(60)}, vt.M{"a": "syncpool"}, vt.M{"a": "wait", "ms": 400})
			}
		}
		if k%4 == 1 {
			// the trunk / RDMA interface: pods come and go (RDMA pods too), then the balancer must shrink to zero idle addresses
			// without ever giving that interface (or its primary address) up
			c := vt.Map(sc[0]["conf"])
			c["pre"], c["maxIdle"], c["minIdle"], c["trunk"] = 2, 0, 0, false
			c["special"] = []string{"trunk", "erdma"}[(k/4)%2]
			sc = append(sc, vt.M{"a": "uninhibit"}, vt.M{"a": "settle"}, vt.M{"a": "alloc", "p": 1}, vt.M{"a": "alloc", "p": 2}, vt.M{"a": "alloc", "p": 3, "rdma": true},
				vt.M{"a": "alloc", "p": 4, "rdma": true}, vt.M{"a": "settle"}, vt.M{"a": "syncpool"}, vt.M{"a": "wait", "ms": 20})
			for p := 1; p <= 4; p++ {
				sc = append(sc, vt.M{"a": "release", "p": p})
			}
			sc = append(sc, vt.M{"a": "syncpool"}, vt.M{"a": "wait", "ms": 350}, vt.M{"a": "syncpool"}, vt.M{"a": "alloc", "p": 3, "rdma": true}, vt.M{"a": "settle"},
				vt.M{"a": "release", "p": 3}, vt.M{"a": "syncpool"}, vt.M{"a": "wait", "ms": 350}, vt.M{"a": "syncpool"}, vt.M{"a": "settle"})
		}
		if k%3 == 2 {
			// shrink-heavy tail: everything is released and the balancer runs, so idle addresses / empty interfaces get disposed
			vt.Map(sc[0]["conf"])["maxIdle"] = vt.Int(vt.Map(sc[0]["conf"])["minIdle"])
			sc = append(sc, vt.M{"a": "settle"})
			for p := 1; p <= 4; p++ {
				sc = append(sc, vt.M{"a": "release", "p": p})
			}
			sc = append(sc, vt.M{"a": "syncpool"}, vt.M{"a": "alloc", "p": 1 + rng.Intn(4)}, vt.M{"a": "wait", "ms": rng.Intn(30)},
				vt.M{"a": "alloc", "p": 1 + rng.Intn(4)}, vt.M{"a": "syncpool"})
		}
		scens = append(scens, sc)
	}
	shard, nshard := 0, 1
	fmt.Sscanf(vt.Env("VERIF_SHARD", "0/1"), "%d/%d", &shard, &nshard)
	for si, sc := range scens {
		if si%nshard != shard || len(sc) == 0 || vt.Str(sc[0]["a"]) != "conf" {
			continue
		}
		cfg := cfgOf(vt.Map(sc[0]["conf"]))
		jr := vt.Rand(int64(si) + 7)
		var jmu sync.Mutex
		sys := newPoolSys(t, w, cfg, si, nil, nil)
		sys.cloud.jitter = func() time.Duration {
			jmu.Lock()
			defer jmu.Unlock()
			return time.Duration(jr.Intn(3)) * 10 * time.Millisecond
		}
		d := &driver{s: sys, w: w, open: map[int]context.CancelFunc{}, openPod: map[int]int{}, results: make(chan allocRes, 64),
			holds: map[int]*held{}, last: map[int]*held{}, rdma: map[int]bool{}, maxReq: vt.EnvInt("VERIF_MAXREQ", 36)}
		dbg := os.Getenv("VERIF_DEBUG") != ""
		for i, st := range sc[1:] {
			d.step(st)
			if dbg {
				w.Emit(vt.M{"ev": "dbg", "after": st, "st": sys.status()})
			}
			if vt.Str(st["a"]) == "alloc" && i+2 < len(sc) && vt.Int(sc[i+2]["us"]) > 0 {
				continue // cancel burst: no extra delay
			}
			if vt.Int(st["us"]) > 0 {
				continue
			}
			if si%3 == 1 {
				continue // burst scenario: requests, releases and the balancer hit the pool within microseconds of each other
			}
			time.Sleep(time.Duration(jr.Intn(4)) * 5 * time.Millisecond)
		}
		d.drain()
		d.s.shutdown()
	}
}

var _ = types.IPSet2{}
