//go:build verif

package eni

import (
	"context"

	"k8s.io/apimachinery/pkg/runtime"
	"sigs.k8s.io/controller-runtime/pkg/client"

	networkv1beta1 "github.com/AliyunContainerService/terway/pkg/apis/network.alibabacloud.com/v1beta1"
)

// The C02/C03/C08 harness (package node of the cluster IPAM controller) drives the REAL daemon side of the
// IPAM protocol - CRDV2.Allocate (multiIP), CRDV2.Release, syncNodeRuntime, syncDeletedPods - over the same
// fake API server the controller uses. These wrappers only make the unexported entry points callable from
// that package; they exist in the /verif build overlay only and contain no product logic.

func VerifIpamNewCRDV2(c client.Client, nodeName string, scheme *runtime.Scheme) *CRDV2 {
	return &CRDV2{
		scheme:      scheme,
		client:      c,
		nodeName:    nodeName,
		deletedPods: make(map[string]*networkv1beta1.RuntimePodStatus),
	}
}

// VerifIpamFlush is one tick of the 3 s timer (syncNodeRuntime).
func (r *CRDV2) VerifIpamFlush(ctx context.Context) error { return r.syncNodeRuntime(ctx) }

// VerifIpamSyncDeleted is one tick of the 5 min timer (syncDeletedPods).
func (r *CRDV2) VerifIpamSyncDeleted(ctx context.Context) error { return r.syncDeletedPods(ctx) }

// VerifIpamDelPending reports whether a DEL of that pod UID is recorded and not yet flushed (synchronisation
// aid only: multiIP clears the entry in its own goroutine after the reply was delivered).
func (r *CRDV2) VerifIpamDelPending(uid string) bool {
	r.lock.Lock()
	defer r.lock.Unlock()
	_, ok := r.deletedPods[uid]
	return ok
}
