//go:build verif

package eni

import (
	"sigs.k8s.io/controller-runtime/pkg/client"

	networkv1beta1 "github.com/AliyunContainerService/terway/pkg/apis/network.alibabacloud.com/v1beta1"
)

// VerifC12NewCRDV2 builds the CRD-mode network interface over a caller-supplied API client (no
// manager, no reconciler). It exists only in the /verif build overlay so that the C12 harness can
// drive the real CRDV2.Allocate (multiIP / remote) from another package. Input construction only.
func VerifC12NewCRDV2(c client.Client, nodeName string) *CRDV2 {
	return &CRDV2{
		client:      c,
		nodeName:    nodeName,
		deletedPods: make(map[string]*networkv1beta1.RuntimePodStatus),
	}
}
