//go:build verif

package eni

import (
	"net"
	"net/netip"
	"testing"

	"github.com/AliyunContainerService/terway/pkg/factory"
	"github.com/AliyunContainerService/terway/types"
	"github.com/AliyunContainerService/terway/types/daemon"
	"github.com/AliyunContainerService/terway/zzverif/inputstok"
	"github.com/AliyunContainerService/terway/zzverif/vt"
)

// verifInputsFactory is an inert cloud: one ENI with two IPv4 and one IPv6 address.
type verifInputsFactory struct{ factory.Factory }

func (verifInputsFactory) LoadNetworkInterface(mac string) ([]netip.Addr, []netip.Addr, error) {
	return []netip.Addr{netip.MustParseAddr("10.0.0.1"), netip.MustParseAddr("10.0.0.2")},
		[]netip.Addr{netip.MustParseAddr("fd00::2")}, nil
}

// TestVerifInputsEni runs the stored-record readers of the node pool (C15, specs/Inputs.tla):
// parseResourceID on hostile ids and Local.load replaying a stored pod record whose string fields
// are hostile.
func TestVerifInputsEni(t *testing.T) {
	inputstok.Run(t, map[string]func(in, out vt.M){
		"resid": func(in, out vt.M) {
			mac, ip, err := parseResourceID(inputstok.Join(in["id"]))
			out["err"], out["maclen"], out["iplen"] = err != nil, len(mac), len(ip)
			out["done"] = true
		},
		"localload": func(in, out vt.M) {
			e := &daemon.ENI{ID: "eni-1", MAC: "00:11:22:33:44:55", PrimaryIP: types.IPSet{IPv4: net.ParseIP("10.0.0.1")}}
			l := NewLocal(e, "secondary", verifInputsFactory{}, &daemon.PoolConfig{
				EnableIPv4: true, EnableIPv6: vt.Str(in["stack"]) == "dual", MaxIPPerENI: 10, BatchSize: 5})
			recs := []daemon.PodResources{{
				PodInfo: &daemon.PodInfo{Namespace: "default", Name: "p"},
				Resources: []daemon.ResourceItem{{
					Type: inputstok.Join([]any{in["type"]}), ID: inputstok.Join(in["id"]), ENIID: inputstok.Join(in["eniid"]),
					ENIMAC: "00:11:22:33:44:55", IPv4: inputstok.Join(in["ipv4"]), IPv6: inputstok.Join(in["ipv6"]),
				}},
			}}
			err := l.load(recs)
			out["err"] = err != nil
			out["done"] = true
		},
	})
}
