//go:build verif

package eni

import (
	"context"

	"golang.org/x/time/rate"

	"github.com/AliyunContainerService/terway/pkg/factory"
	"github.com/AliyunContainerService/terway/types/daemon"
)

// VerifC12NewLocalPool builds one empty interface slot of the node-local pool (what daemon/builder.go does with
// NewLocal(nil, "secondary", factory, poolConfig)) over a caller-supplied cloud factory. The only difference to the
// product constructor: the cloud-call rate limiters (one call per 6 s) are replaced by fast ones, so that a history of a
// few cloud calls takes a second instead of a minute. It exists only in the /verif build overlay so that the C12 harness
// (package main of plugin/terway) can put the REAL pool behind the real daemon service. Input construction only.
func VerifC12NewLocalPool(f factory.Factory, cfg *daemon.PoolConfig) *Local {
	l := NewLocal(nil, "secondary", f, cfg)
	l.rateLimitEni, l.rateLimitv4, l.rateLimitv6 = rate.NewLimiter(1000, 1000), rate.NewLimiter(1000, 1000), rate.NewLimiter(1000, 1000)
	return l
}

// VerifC12Shrink runs the manager's pool balancer once (the daemon runs it on a timer, Manager.Run) with the given upper
// bound of idle addresses and no lower bound: the environment's pool-size configuration of that moment.
func VerifC12Shrink(ctx context.Context, m *Manager, maxIdles int) {
	m.Lock()
	m.minIdles, m.maxIdles = 0, maxIdles
	m.Unlock()
	m.syncPool(ctx)
}
