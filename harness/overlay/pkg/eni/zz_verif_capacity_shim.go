//go:build verif

package eni

import (
	"k8s.io/client-go/tools/record"
	"sigs.k8s.io/controller-runtime/pkg/client"
	"sigs.k8s.io/controller-runtime/pkg/reconcile"
)

// VerifCapacityNodeReconciler (C19 harness only, exists only in the build overlay) hands out the
// daemon-side Node CR reconciler, which has no exported constructor, so that the harness in
// pkg/controller/node can run it between two passes of the node controller on one API server.
// The kubelet device-plugin server it would start for RDMA is switched off (no kubelet here); the
// computed ENISpec / flavor / pool are untouched by that.
func VerifCapacityNodeReconciler(c client.Client, rec record.EventRecorder, nodeName string) reconcile.Reconciler {
	r := &nodeReconcile{client: c, record: rec, nodeName: nodeName}
	r.once.Do(func() {})
	return r
}
