//go:build verif

package storage

// VerifDaemonClose (C04/C05/C09 harness only, exists only in the /verif build overlay) closes the bolt
// file behind a disk storage. The product never closes it (the daemon runs until it is killed); the
// harness restarts the daemon hundreds of times inside one test process and would otherwise run out
// of file descriptors. No product logic.
func VerifDaemonClose(s Storage) error {
	if d, ok := s.(*DiskStorage); ok && d.db != nil {
		return d.db.Close()
	}
	return nil
}
