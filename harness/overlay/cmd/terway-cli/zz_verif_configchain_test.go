//go:build verif

package main

// C20 (specs/ConfigChain.tla), CNI chain part: runs the real mergeConfigList with the real
// switchDataPathV2 and allowEBPFNetworkPolicy behind it on every TLC-enumerated case.
//
// The recorded node capabilities live at a constant path (/var/run/eni/node_capabilities) that
// pkg/utils/nodecap reads in its init() and allowEBPFNetworkPolicy reads on every call. The test
// therefore re-executes its own binary once per (recorded capabilities, cilium_net link) group
// inside `unshare -m -n`: a private mount namespace with a tmpfs over /run holds the file (nothing
// is written outside the namespace, it vanishes with the process) and a private network namespace
// holds (or not) a veth named cilium_net.

import (
	"encoding/json"
	"fmt"
	"os"
	"os/exec"
	"path/filepath"
	"sort"
	"strings"
	"testing"

	"github.com/vishvananda/netlink"
	utilfeature "k8s.io/apiserver/pkg/util/feature"

	"github.com/AliyunContainerService/terway/zzverif/vt"
)

const (
	c20Absent = "<absent>"
	c20NonStr = "<nonstring>"
)

const c20Script = `set -e
d=$(readlink -f /var/run)
mount -t tmpfs tmpfs "$d"
mkdir -p /var/run/eni
if [ -n "$VERIF_C20_CAPS" ]; then printf '%s' "$VERIF_C20_CAPS" > /var/run/eni/node_capabilities; fi
exec "$VERIF_C20_SELF" -test.run '^TestVerifConfigChainCNI$' -test.count=1 -test.timeout 1400s
`

func c20Group(in vt.M) string {
	return fmt.Sprintf("%s|%s|%v", vt.Str(in["cap_chainer"]), vt.Str(in["cap_datapath"]), vt.Bool(in["link"]))
}

func c20Caps(in vt.M) string {
	s := ""
	if v := vt.Str(in["cap_chainer"]); v != c20Absent {
		s += "has_cilium_chainer = " + v + "\n"
	}
	if v := vt.Str(in["cap_datapath"]); v != c20Absent {
		s += "datapath = " + v + "\n"
	}
	return s
}

func c20Member(p map[string]any, k string) string {
	v, ok := p[k]
	if !ok {
		return c20Absent
	}
	s, ok := v.(string)
	if !ok {
		return c20NonStr
	}
	return s
}

// c20Project parses the generated text with encoding/json (not with the library the product uses).
// valid: the text is one JSON object whose "plugins" member, when present, is an array of objects.
func c20Project(text string) (bool, []vt.M) {
	var doc map[string]json.RawMessage
	if !json.Valid([]byte(text)) || json.Unmarshal([]byte(text), &doc) != nil || doc == nil {
		return false, []vt.M{}
	}
	ps := []vt.M{}
	raw, ok := doc["plugins"]
	if !ok {
		return true, ps
	}
	var plugins []map[string]any
	if json.Unmarshal(raw, &plugins) != nil {
		return false, ps
	}
	for _, p := range plugins {
		if p == nil {
			return false, []vt.M{}
		}
		ps = append(ps, vt.M{"type": c20Member(p, "type"), "vid": c20Member(p, "vid"),
			"vtype": c20Member(p, "eniip_virtual_type"), "bw": c20Member(p, "bandwidth_mode")})
	}
	return true, ps
}

func c20PluginBytes(p vt.M) []byte {
	ty := vt.Str(p["type"])
	m := map[string]any{"cniVersion": "0.3.1", "name": "terway", "type": ty, "vid": vt.Str(p["vid"])}
	switch ty {
	case pluginTypeTerway:
		m["capabilities"] = map[string]any{"bandwidth": true}
		if v := vt.Str(p["vtype"]); v != c20Absent {
			m["eniip_virtual_type"] = v
		}
		if v := vt.Str(p["prov"]); v != c20Absent {
			m["network_policy_provider"] = v
		}
	case pluginTypeCilium:
		m["enable-debug"] = false
	default:
		m["capabilities"] = map[string]any{"portMappings": true}
		m["externalSetMarkChain"] = "KUBE-MARK-MASQ"
	}
	b, err := json.Marshal(m)
	if err != nil {
		panic(err)
	}
	return b
}

func TestVerifConfigChainCNI(t *testing.T) {
	if os.Getenv("VERIF_C20_GROUP") != "" {
		c20Worker(t)
		return
	}
	cases, err := vt.ReadNDJSON(vt.Env("VERIF_CASES", ""))
	if err != nil {
		t.Fatal(err)
	}
	resPath := vt.Env("VERIF_RESULTS", "")
	groups := map[string][]vt.M{}
	for _, c := range cases {
		in := vt.Map(c["in"])
		if vt.Str(in["fn"]) != "chain" {
			continue
		}
		g := c20Group(in)
		groups[g] = append(groups[g], c)
	}
	keys := []string{}
	for g := range groups {
		keys = append(keys, g)
	}
	sort.Strings(keys)
	self, err := os.Executable()
	if err != nil {
		t.Fatal(err)
	}
	dir := t.TempDir()
	w, err := vt.NewWriter(resPath)
	if err != nil {
		t.Fatal(err)
	}
	defer w.Close()
	total := 0
	for i, g := range keys {
		gc := filepath.Join(dir, fmt.Sprintf("g%d.cases", i))
		gr := filepath.Join(dir, fmt.Sprintf("g%d.results", i))
		cw, err := vt.NewWriter(gc)
		if err != nil {
			t.Fatal(err)
		}
		for _, c := range groups[g] {
			cw.Write(c)
		}
		cw.Close()
		in0 := vt.Map(groups[g][0]["in"])
		cmd := exec.Command("unshare", "-m", "-n", "--propagation", "private", "sh", "-c", c20Script)
		cmd.Env = append(os.Environ(), "VERIF_C20_GROUP="+g, "VERIF_C20_SELF="+self, "VERIF_C20_CAPS="+c20Caps(in0),
			"VERIF_CASES="+gc, "VERIF_RESULTS="+gr)
		outb, err := cmd.CombinedOutput()
		if err != nil {
			tail := string(outb)
			if len(tail) > 3000 {
				tail = tail[len(tail)-3000:]
			}
			t.Fatalf("group %q: worker in private mount/network namespace failed: %v\n%s", g, err, tail)
		}
		rs, err := vt.ReadNDJSON(gr)
		if err != nil {
			t.Fatal(err)
		}
		if len(rs) != len(groups[g]) {
			t.Fatalf("group %q: %d results for %d cases", g, len(rs), len(groups[g]))
		}
		for _, r := range rs {
			w.Write(r)
		}
		total += len(rs)
	}
	if _, err := os.Stat(nodeCapabilitiesFile); err == nil {
		t.Logf("note: %s exists outside the private namespaces (not written by this harness)", nodeCapabilitiesFile)
	}
	t.Logf("answered %d chain cases in %d namespace groups", total, len(keys))
}

// c20Worker runs inside the private namespaces prepared by c20Script.
func c20Worker(t *testing.T) {
	cases, err := vt.ReadNDJSON(vt.Env("VERIF_CASES", ""))
	if err != nil {
		t.Fatal(err)
	}
	if len(cases) == 0 {
		t.Fatal("empty group")
	}
	in0 := vt.Map(cases[0]["in"])
	// the environment must be what the group says: recorded capabilities on disk, link present or not
	got, err := os.ReadFile(nodeCapabilitiesFile)
	if want := c20Caps(in0); (want == "" && !os.IsNotExist(err)) || (want != "" && string(got) != want) {
		t.Fatalf("capability file not as prepared: %q %v, want %q", got, err, want)
	}
	if vt.Bool(in0["link"]) {
		err := netlink.LinkAdd(&netlink.Veth{LinkAttrs: netlink.LinkAttrs{Name: "cilium_net"}, PeerName: "cilium_host"})
		if err != nil {
			t.Fatalf("cannot create cilium_net: %v", err)
		}
	}
	_, lerr := netlink.LinkByName("cilium_net")
	if (lerr == nil) != vt.Bool(in0["link"]) {
		t.Fatalf("cilium_net presence is %v, want %v (%v)", lerr == nil, vt.Bool(in0["link"]), lerr)
	}
	// keep the product's progress messages out of the test output
	if devnull, err := os.OpenFile(os.DevNull, os.O_WRONLY, 0); err == nil {
		saved := os.Stdout
		os.Stdout = devnull
		defer func() { os.Stdout = saved }()
	}

	w, err := vt.NewWriter(vt.Env("VERIF_RESULTS", ""))
	if err != nil {
		t.Fatal(err)
	}
	defer w.Close()
	_switchDataPathV2 = switchDataPathV2 // the real decision function, as processCNIConfig installs it
	for _, c := range cases {
		in := vt.Map(c["in"])
		if c20Group(in) != os.Getenv("VERIF_C20_GROUP") {
			t.Fatalf("case %v does not belong to group %s", c["id"], os.Getenv("VERIF_C20_GROUP"))
		}
		out := vt.M{"err": "", "valid": false, "plugins": []vt.M{}, "text": ""}
		p := vt.Catch(func() {
			if err := utilfeature.DefaultMutableFeatureGate.Set(fmt.Sprintf("AutoDataPathV2=%v", vt.Bool(in["gate"]))); err != nil {
				panic("harness: " + err.Error())
			}
			configs := [][]byte{}
			for _, p := range vt.List(in["plugins"]) {
				configs = append(configs, c20PluginBytes(vt.Map(p)))
			}
			f := &feature{EBPF: vt.Bool(in["ebpf"]), EDT: vt.Bool(in["edt"]), EnableNetworkPolicy: vt.Bool(in["netpol"])}
			text, err := mergeConfigList(configs, f)
			if err != nil {
				out["err"] = err.Error()
				if out["err"] == "" {
					out["err"] = "error"
				}
				return
			}
			ok, ps := c20Project(text)
			out["valid"], out["plugins"] = ok, ps
			if !ok { // keep the offending text for the replay
				out["text"] = text
			}
		})
		if strings.HasPrefix(p, "harness:") {
			t.Fatalf("case %v: %s", c["id"], p)
		}
		w.Write(vt.M{"id": c["id"], "out": out, "panic": p})
	}
}
