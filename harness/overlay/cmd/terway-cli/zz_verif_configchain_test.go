//go:build verif

package main

// C20 (specs/ConfigChain.tla), CNI chain part: runs the real mergeConfigList with the real
// switchDataPathV2 and allowEBPFNetworkPolicy behind it on every TLC-enumerated case.
//
// The recorded node capabilities live at a constant path (/var/run/eni/node_capabilities) that
// pkg/utils/nodecap reads in its init() and allowEBPFNetworkPolicy reads on every call. The test
// therefore re-executes its own binary once per (recorded capabilities, cilium_net link) group
// inside `unshare -m -n`: a private mount namespace with a tmpfs over /run holds the file (nothing
// is written outside the namespace, it vanishes with the process) and a private network namespace
// holds (or not) a veth named cilium_net.

import (
	"encoding/json"
	"fmt"
	"os"
	"os/exec"
	"path/filepath"
	"sort"
	"strings"
	"testing"

	"github.com/vishvananda/netlink"
	utilfeature "k8s.io/apiserver/pkg/util/feature"

	"github.com/AliyunContainerService/terway/zzverif/vt"
)

const (
	c20Absent = "<absent>"
	c20NonStr = "<nonstring>"
)

const c20Script = `set -e
d=$(readlink -f /var/run)
mount -t tmpfs tmpfs "$d"
mkdir -p /var/run/eni
mount -t tmpfs tmpfs /etc
mkdir -p /etc/eni
if [ -n "$VERIF_C20_CAPS" ]; then printf '%s' "$VERIF_C20_CAPS" > /var/run/eni/node_capabilities; fi
exec "$VERIF_C20_SELF" -test.run '^TestVerifConfigChainCNI$' -test.count=1 -test.timeout 1400s
`

func c20Group(in vt.M) string {
	return fmt.Sprintf("%s|%s|%v", vt.Str(in["cap_chainer"]), vt.Str(in["cap_datapath"]), vt.Bool(in["link"]))
}

func c20Caps(in vt.M) string {
	s := ""
	if v := vt.Str(in["cap_chainer"]); v != c20Absent {
		s += "has_cilium_chainer = " + v + "\n"
	}
	if v := vt.Str(in["cap_datapath"]); v != c20Absent {
		s += "datapath = " + v + "\n"
	}
	return s
}

func c20Member(p map[string]any, k string) string {
	v, ok := p[k]
	if !ok {
		return c20Absent
	}
	s, ok := v.(string)
	if !ok {
		return c20NonStr
	}
	return s
}

// c20Project parses the generated text with encoding/json (not with the library the product uses).
// valid: the text is one JSON object whose "plugins" member, when present, is an array of objects.
func c20Project(text string) (bool, []vt.M) {
	var doc map[string]json.RawMessage
	if !json.Valid([]byte(text)) || json.Unmarshal([]byte(text), &doc) != nil || doc == nil {
		return false, []vt.M{}
	}
	ps := []vt.M{}
	raw, ok := doc["plugins"]
	if !ok {
		return true, ps
	}
	var plugins []map[string]any
	if json.Unmarshal(raw, &plugins) != nil {
		return false, ps
	}
	for _, p := range plugins {
		if p == nil {
			return false, []vt.M{}
		}
		ps = append(ps, vt.M{"type": c20Member(p, "type"), "vid": c20Member(p, "vid"),
			"vtype": c20Member(p, "eniip_virtual_type"), "bw": c20Member(p, "bandwidth_mode")})
	}
	return true, ps
}

func c20PluginBytes(p vt.M) []byte {
	ty := vt.Str(p["type"])
	m := map[string]any{"cniVersion": "0.3.1", "name": "terway", "type": ty, "vid": vt.Str(p["vid"])}
	switch ty {
	case pluginTypeTerway:
		m["capabilities"] = map[string]any{"bandwidth": true}
		if v := vt.Str(p["vtype"]); v != c20Absent {
			m["eniip_virtual_type"] = v
		}
		if v := vt.Str(p["prov"]); v != c20Absent {
			m["network_policy_provider"] = v
		}
	case pluginTypeCilium:
		m["enable-debug"] = false
	default:
		m["capabilities"] = map[string]any{"portMappings": true}
		m["externalSetMarkChain"] = "KUBE-MARK-MASQ"
	}
	b, err := json.Marshal(m)
	if err != nil {
		panic(err)
	}
	return b
}

func TestVerifConfigChainCNI(t *testing.T) {
	if os.Getenv("VERIF_C20_GROUP") != "" {
		c20Worker(t)
		return
	}
	cases, err := vt.ReadNDJSON(vt.Env("VERIF_CASES", ""))
	if err != nil {
		t.Fatal(err)
	}
	resPath := vt.Env("VERIF_RESULTS", "")
	groups := map[string][]vt.M{}
	for _, c := range cases {
		in := vt.Map(c["in"])
		if vt.Str(in["fn"]) != "chain" {
			continue
		}
		g := c20Group(in)
		groups[g] = append(groups[g], c)
	}
	keys := []string{}
	for g := range groups {
		keys = append(keys, g)
	}
	sort.Strings(keys)
	self, err := os.Executable()
	if err != nil {
		t.Fatal(err)
	}
	dir := t.TempDir()
	w, err := vt.NewWriter(resPath)
	if err != nil {
		t.Fatal(err)
	}
	defer w.Close()
	total := 0
	for i, g := range keys {
		gc := filepath.Join(dir, fmt.Sprintf("g%d.cases", i))
		gr := filepath.Join(dir, fmt.Sprintf("g%d.results", i))
		cw, err := vt.NewWriter(gc)
		if err != nil {
			t.Fatal(err)
		}
		for _, c := range groups[g] {
			cw.Write(c)
		}
		cw.Close()
		in0 := vt.Map(groups[g][0]["in"])
		cmd := exec.Command("unshare", "-m", "-n", "--propagation", "private", "sh", "-c", c20Script)
		cmd.Env = append(os.Environ(), "VERIF_C20_GROUP="+g, "VERIF_C20_SELF="+self, "VERIF_C20_CAPS="+c20Caps(in0),
			"VERIF_CASES="+gc, "VERIF_RESULTS="+gr)
		outb, err := cmd.CombinedOutput()
		if err != nil {
			tail := string(outb)
			if len(tail) > 3000 {
				tail = tail[len(tail)-3000:]
			}
			t.Fatalf("group %q: worker in private mount/network namespace failed: %v\n%s", g, err, tail)
		}
		rs, err := vt.ReadNDJSON(gr)
		if err != nil {
			t.Fatal(err)
		}
		if len(rs) != len(groups[g]) {
			t.Fatalf("group %q: %d results for %d cases", g, len(rs), len(groups[g]))
		}
		for _, r := range rs {
			w.Write(r)
		}
		total += len(rs)
	}
	if _, err := os.Stat(nodeCapabilitiesFile); err == nil {
		t.Logf("note: %s exists outside the private namespaces (not written by this harness)", nodeCapabilitiesFile)
	}
	t.Logf("answered %d chain cases in %d namespace groups", total, len(keys))
}

// c20ViaFiles generates the list the way the node does: input files under /etc/eni (a tmpfs in this private mount namespace),
// a bpftool stand-in on PATH, the kernel-version hook answering for the case's feature vector, an output file that holds a
// longer list from an earlier run; returns the content of the output file.
func c20ViaFiles(configs [][]byte, f *feature) (string, error) {
	must := func(err error) {
		if err != nil {
			panic("harness: " + err.Error())
		}
	}
	list := `{"cniVersion":"0.4.0","name":"terway-chainer","plugins":[`
	for i, c := range configs {
		if i > 0 {
			list += ","
		}
		list += string(c)
	}
	list += "]}"
	must(os.WriteFile("/etc/eni/10-terway.conf", configs[0], 0o644))
	must(os.WriteFile("/etc/eni/10-terway.conflist", []byte(list), 0o644))
	must(os.WriteFile("/etc/eni/eni_conf", []byte("{}"), 0o644))
	np := "false"
	if !f.EnableNetworkPolicy {
		np = "true"
	}
	must(os.WriteFile("/etc/eni/disable_network_policy", []byte(np), 0o644))
	bin := "/etc/eni/bin"
	must(os.MkdirAll(bin, 0o755))
	probe := "{}"
	if f.EDT {
		probe = `{"helpers":["bpf_skb_ecn_set_ce"]}`
	}
	must(os.WriteFile(bin+"/bpftool", []byte("#!/bin/sh\necho '"+probe+"'\n"), 0o755))
	oldPath := os.Getenv("PATH")
	must(os.Setenv("PATH", bin+":"+oldPath))
	defer os.Setenv("PATH", oldPath)
	savedK := _checkKernelVersion
	defer func() { _checkKernelVersion = savedK }()
	_checkKernelVersion = func(major, minor, patch int) bool {
		if major == 4 && minor == 19 {
			return f.EBPF
		}
		return true
	}
	savedOut := outPutPath
	defer func() { outPutPath = savedOut }()
	outPutPath = "/etc/eni/out.conflist"
	long := `{"cniVersion":"0.4.0","name":"terway-chainer","plugins":[{"type":"terway","eniip_virtual_type":"IPVlan","note":"` + strings.Repeat("x", 6000) + `"},{"type":"portmap"},{"type":"cilium-cni"}]}`
	must(os.WriteFile(outPutPath, []byte(long), 0o644))
	if err := processInput(); err != nil {
		return "", err
	}
	b, err := os.ReadFile(outPutPath)
	must(err)
	return string(b), nil
}

// c20Worker runs inside the private namespaces prepared by c20Script.
func c20Worker(t *testing.T) {
	cases, err := vt.ReadNDJSON(vt.Env("VERIF_CASES", ""))
	if err != nil {
		t.Fatal(err)
	}
	if len(cases) == 0 {
		t.Fatal("empty group")
	}
	in0 := vt.Map(cases[0]["in"])
	// the environment must be what the group says: recorded capabilities on disk, link present or not
	got, err := os.ReadFile(nodeCapabilitiesFile)
	if want := c20Caps(in0); (want == "" && !os.IsNotExist(err)) || (want != "" && string(got) != want) {
		t.Fatalf("capability file not as prepared: %q %v, want %q", got, err, want)
	}
	if vt.Bool(in0["link"]) {
		err := netlink.LinkAdd(&netlink.Veth{LinkAttrs: netlink.LinkAttrs{Name: "cilium_net"}, PeerName: "cilium_host"})
		if err != nil {
			t.Fatalf("cannot create cilium_net: %v", err)
		}
	}
	_, lerr := netlink.LinkByName("cilium_net")
	if (lerr == nil) != vt.Bool(in0["link"]) {
		t.Fatalf("cilium_net presence is %v, want %v (%v)", lerr == nil, vt.Bool(in0["link"]), lerr)
	}
	// keep the product's progress messages out of the test output
	if devnull, err := os.OpenFile(os.DevNull, os.O_WRONLY, 0); err == nil {
		saved := os.Stdout
		os.Stdout = devnull
		defer func() { os.Stdout = saved }()
	}

	w, err := vt.NewWriter(vt.Env("VERIF_RESULTS", ""))
	if err != nil {
		t.Fatal(err)
	}
	defer w.Close()
	_switchDataPathV2 = switchDataPathV2 // the real decision function, as processCNIConfig installs it
	nfile := 0
	for _, c := range cases {
		in := vt.Map(c["in"])
		if c20Group(in) != os.Getenv("VERIF_C20_GROUP") {
			t.Fatalf("case %v does not belong to group %s", c["id"], os.Getenv("VERIF_C20_GROUP"))
		}
		out := vt.M{"err": "", "valid": false, "plugins": []vt.M{}, "text": ""}
		p := vt.Catch(func() {
			if err := utilfeature.DefaultMutableFeatureGate.Set(fmt.Sprintf("AutoDataPathV2=%v", vt.Bool(in["gate"]))); err != nil {
				panic("harness: " + err.Error())
			}
			configs := [][]byte{}
			for _, p := range vt.List(in["plugins"]) {
				configs = append(configs, c20PluginBytes(vt.Map(p)))
			}
			f := &feature{EBPF: vt.Bool(in["ebpf"]), EDT: vt.Bool(in["edt"]), EnableNetworkPolicy: vt.Bool(in["netpol"])}
			text, err := mergeConfigList(configs, f)
			if err != nil {
				out["err"] = err.Error()
				if out["err"] == "" {
					out["err"] = "error"
				}
				return
			}
			nfile++
			if (f.EBPF || !f.EDT) && nfile%5 == 0 { // every fifth case (an exec of the bpftool stand-in each); a feature vector the node-side generator can arrive at (it probes EDT only on an eBPF kernel)
				// what the node really ends up with: `terway-cli cni` (processInput) reads the ConfigMap files, probes the
				// kernel and writes the list to the output path - which already holds the list of an earlier generation
				ftext, ferr := c20ViaFiles(configs, f)
				if ferr != nil {
					out["err"] = "processInput: " + ferr.Error()
					return
				}
				text = ftext
			}
			ok, ps := c20Project(text)
			out["valid"], out["plugins"] = ok, ps
			if !ok { // keep the offending text for the replay
				out["text"] = text
			}
		})
		if strings.HasPrefix(p, "harness:") {
			t.Fatalf("case %v: %s", c["id"], p)
		}
		w.Write(vt.M{"id": c["id"], "out": out, "panic": p})
	}
}
