//go:build verif && linux

package main

// C12 conformance harness (specs/NetConf.tla).
//
// For every TLC-enumerated case the REAL daemon service answers AllocIP (and GetIPInfo) over the
// real eni.Manager and the real resource back-ends (eni.Remote, eni.CRDV2 against a controller-runtime
// fake API client holding the PodENI / Node custom resources of the case; for the node-local pool either a
// harness-built eni.LocalIPResource (kind "local") or the REAL pool, eni.Local run by the Manager on a fake
// cloud factory, after a short history of earlier pods and pool shrinking (kind "localpool")), the reply
// crosses a protobuf round trip like on the unix socket, and the REAL plugin code (getCmdArgs,
// parseSetupConf, parseTearDownConf, getDatePath) consumes it.
// The harness only builds inputs and projects outputs to plain values; it takes no decision.

import (
	"context"
	"encoding/json"
	"fmt"
	"net"
	"net/netip"
	"os"
	"os/exec"
	"strings"
	"sync"
	"testing"
	"time"

	"github.com/containernetworking/cni/pkg/skel"
	"github.com/vishvananda/netlink"
	"google.golang.org/protobuf/proto"
	corev1 "k8s.io/api/core/v1"
	metav1 "k8s.io/apimachinery/pkg/apis/meta/v1"
	"sigs.k8s.io/controller-runtime/pkg/client"
	"sigs.k8s.io/controller-runtime/pkg/client/fake"

	terwaydaemon "github.com/AliyunContainerService/terway/daemon"
	networkv1beta1 "github.com/AliyunContainerService/terway/pkg/apis/network.alibabacloud.com/v1beta1"
	"github.com/AliyunContainerService/terway/pkg/eni"
	"github.com/AliyunContainerService/terway/pkg/k8s"
	"github.com/AliyunContainerService/terway/plugin/driver/types"
	"github.com/AliyunContainerService/terway/rpc"
	terwayTypes "github.com/AliyunContainerService/terway/types"
	"github.com/AliyunContainerService/terway/types/daemon"
	"github.com/AliyunContainerService/terway/zzverif/vt"
)

const (
	c12Pod   = "pod-a"
	c12NS    = "default"
	c12UID   = "uid-pod-a"
	c12CID   = "sandbox-1"
	c12Node  = "node-1"
	c12NetNS = "/proc/self/ns/net"
)

// c12MAC is the MAC every ENI of a case carries. parseSetupConf resolves the ENI by MAC among the
// hardware-type links of the current network namespace (and retries for 10 s when there is none), so
// the harness takes the MAC of a hardware link that exists here; without one the ENIs carry no MAC and
// the plugin skips the lookup. ENIIndex is not judged.
var c12MAC = func() string {
	links, err := netlink.LinkList()
	if err != nil {
		return ""
	}
	for _, l := range links {
		if _, ok := l.(*netlink.Device); ok && len(l.Attrs().HardwareAddr) > 0 {
			return l.Attrs().HardwareAddr.String()
		}
	}
	return ""
}()

// ---- input construction ------------------------------------------------------------------------

func c12IP(v any) string {
	b := vt.Bytes(v)
	if len(b) == 0 {
		return ""
	}
	return net.IP(b).String()
}

func c12CIDR(base any, plen any) string {
	b := vt.Bytes(base)
	if len(b) == 0 {
		return ""
	}
	return fmt.Sprintf("%s/%d", net.IP(b).String(), vt.Int(plen))
}

func c12NetIP(v any) net.IP {
	b := vt.Bytes(v)
	if len(b) == 0 {
		return nil
	}
	return net.IP(b)
}

func c12IPNet(base any, plen any) *net.IPNet {
	s := c12CIDR(base, plen)
	if s == "" {
		return nil
	}
	_, n, err := net.ParseCIDR(s)
	if err != nil {
		panic(err)
	}
	return n
}

type c12K8s struct {
	k8s.Kubernetes // every other method is unused by AllocIP / ReleaseIP / GetIPInfo
	pod            *daemon.PodInfo
	earlier        []*daemon.PodInfo // pods of the history before the judged ADD (kind "localpool")
	svc            *terwayTypes.IPNetSet
}

func (k *c12K8s) GetPod(ctx context.Context, namespace, name string, cache bool) (*daemon.PodInfo, error) {
	for _, q := range append([]*daemon.PodInfo{k.pod}, k.earlier...) {
		if namespace == q.Namespace && name == q.Name {
			p := *q
			return &p, nil
		}
	}
	return nil, fmt.Errorf("pod %s/%s not found", namespace, name)
}
func (k *c12K8s) GetServiceCIDR() *terwayTypes.IPNetSet                      { return k.svc }
func (k *c12K8s) PatchPodIPInfo(info *daemon.PodInfo, ips string) error      { return nil }
func (k *c12K8s) RecordPodEvent(n, ns, et, reason, message string) error     { return nil }
func (k *c12K8s) RecordNodeEvent(eventType, reason, message string)          {}
func (k *c12K8s) PatchNodeIPResCondition(corev1.ConditionStatus, string, string) error { return nil }

// c12Local stands for the node-local pool (pkg/eni Local): it hands out the LocalIPResource the pool
// would hand out for an ENI whose subnet and gateway were read from the instance metadata service.
type c12Local struct{ res *eni.LocalIPResource }

func (l *c12Local) Allocate(ctx context.Context, cni *daemon.CNI, request eni.ResourceRequest) (chan *eni.AllocResp, []eni.Trace) {
	if request.ResourceType() != eni.ResourceTypeLocalIP {
		return nil, []eni.Trace{{Condition: eni.ResourceTypeMismatch}}
	}
	ch := make(chan *eni.AllocResp)
	go func() {
		select {
		case <-ctx.Done():
		case ch <- &eni.AllocResp{NetworkConfigs: eni.NetworkResources{l.res}}:
		}
	}()
	return ch, nil
}
func (l *c12Local) Release(context.Context, *daemon.CNI, eni.NetworkResource) (bool, error) {
	return true, nil
}
func (l *c12Local) Priority() int   { return 0 }
func (l *c12Local) Dispose(int) int { return 0 }
func (l *c12Local) Run(context.Context, []daemon.PodResources, *sync.WaitGroup) error {
	return nil
}

// ---- the node-local pool on a fake cloud (kind "localpool") -----------------------------------

// c12Wait bounds every wait of a history step. Running into it is a machinery error (the test fails), never a verdict.
const c12Wait = 90 * time.Second

var c12Machinery struct {
	sync.Mutex
	errs []string
}

func c12MachineryError(format string, a ...any) {
	c12Machinery.Lock()
	c12Machinery.errs = append(c12Machinery.errs, fmt.Sprintf(format, a...))
	c12Machinery.Unlock()
}

// c12Iface is what the cloud and its metadata service answer for one interface: MAC, subnet and gateway per family
// and the addresses the cloud hands out, in order (the first IPv4 address is the primary one).
type c12Iface struct {
	mac                    string
	cidr4, gw4, cidr6, gw6 string
	v4, v6                 []netip.Addr
}

type c12CloudENI struct {
	plan   *c12Iface
	id     string
	n4, n6 int          // addresses of the plan handed out so far
	v4, v6 []netip.Addr // currently assigned
}

// c12Cloud is a fake cloud behind factory.Factory. Like pkg/factory/aliyun it fills the IPv6 subnet and gateway of an
// interface only when the interface is created with IPv6 addresses, and every interface has a primary IPv4 address.
type c12Cloud struct {
	mu    sync.Mutex
	plans []*c12Iface // one per CreateNetworkInterface call, in call order
	enis  map[string]*c12CloudENI
	seq   int
	calls []string
}

func (c *c12Cloud) CreateNetworkInterface(ipv4, ipv6 int, eniType string) (*daemon.ENI, []netip.Addr, []netip.Addr, error) {
	c.mu.Lock()
	defer c.mu.Unlock()
	c.calls = append(c.calls, fmt.Sprintf("create(%d,%d)", ipv4, ipv6))
	if ipv4 < 1 {
		ipv4 = 1
	}
	if len(c.plans) == 0 {
		return nil, nil, nil, fmt.Errorf("verif: the cloud has no further interface")
	}
	p := c.plans[0]
	if ipv4 > len(p.v4) || ipv6 > len(p.v6) {
		return nil, nil, nil, fmt.Errorf("verif: not that many addresses in the vSwitch")
	}
	c.plans = c.plans[1:]
	c.seq++
	e := &c12CloudENI{plan: p, id: fmt.Sprintf("eni-%d", c.seq), n4: ipv4, n6: ipv6}
	e.v4 = append(e.v4, p.v4[:ipv4]...)
	e.v6 = append(e.v6, p.v6[:ipv6]...)
	c.enis[e.id] = e
	r := &daemon.ENI{ID: e.id, MAC: p.mac, VSwitchID: "vsw-" + e.id}
	r.PrimaryIP.SetIP(p.v4[0].String())
	r.VSwitchCIDR.SetIPNet(p.cidr4)
	r.GatewayIP.SetIP(p.gw4)
	if ipv6 > 0 {
		r.VSwitchCIDR.SetIPNet(p.cidr6)
		r.GatewayIP.SetIP(p.gw6)
	}
	return r, append([]netip.Addr{}, e.v4...), append([]netip.Addr{}, e.v6...), nil
}

func (c *c12Cloud) assign(id string, count int, fam int) ([]netip.Addr, error) {
	c.mu.Lock()
	defer c.mu.Unlock()
	c.calls = append(c.calls, fmt.Sprintf("assign%d(%s,%d)", fam, id, count))
	e := c.enis[id]
	if e == nil {
		return nil, fmt.Errorf("verif: interface %s not found", id)
	}
	src, n, cur := e.plan.v4, &e.n4, &e.v4
	if fam == 6 {
		src, n, cur = e.plan.v6, &e.n6, &e.v6
		if e.plan.cidr6 == "" {
			return nil, fmt.Errorf("verif: the vSwitch of %s has no IPv6 subnet", id)
		}
	}
	if *n+count > len(src) {
		return nil, fmt.Errorf("verif: not that many addresses in the vSwitch")
	}
	got := append([]netip.Addr{}, src[*n:*n+count]...)
	*n += count
	*cur = append(*cur, got...)
	return got, nil
}

func (c *c12Cloud) AssignNIPv4(id string, count int, mac string) ([]netip.Addr, error) {
	return c.assign(id, count, 4)
}
func (c *c12Cloud) AssignNIPv6(id string, count int, mac string) ([]netip.Addr, error) {
	return c.assign(id, count, 6)
}

func (c *c12Cloud) unassign(id string, ips []netip.Addr, fam int) error {
	c.mu.Lock()
	defer c.mu.Unlock()
	c.calls = append(c.calls, fmt.Sprintf("unassign%d(%s,%v)", fam, id, ips))
	e := c.enis[id]
	if e == nil {
		return fmt.Errorf("verif: interface %s not found", id)
	}
	cur := &e.v4
	if fam == 6 {
		cur = &e.v6
	}
	keep := []netip.Addr{}
	for _, a := range *cur {
		gone := false
		for _, d := range ips {
			gone = gone || d == a
		}
		if !gone {
			keep = append(keep, a)
		}
	}
	*cur = keep
	return nil
}

func (c *c12Cloud) UnAssignNIPv4(id string, ips []netip.Addr, mac string) error {
	return c.unassign(id, ips, 4)
}
func (c *c12Cloud) UnAssignNIPv6(id string, ips []netip.Addr, mac string) error {
	return c.unassign(id, ips, 6)
}

func (c *c12Cloud) DeleteNetworkInterface(id string) error {
	c.mu.Lock()
	defer c.mu.Unlock()
	c.calls = append(c.calls, fmt.Sprintf("delete(%s)", id))
	delete(c.enis, id)
	return nil
}

func (c *c12Cloud) LoadNetworkInterface(mac string) ([]netip.Addr, []netip.Addr, error) {
	c.mu.Lock()
	defer c.mu.Unlock()
	for _, e := range c.enis {
		if e.plan.mac == mac {
			return append([]netip.Addr{}, e.v4...), append([]netip.Addr{}, e.v6...), nil
		}
	}
	return nil, nil, fmt.Errorf("verif: no interface with mac %s", mac)
}

func (c *c12Cloud) GetAttachedNetworkInterface(preferTrunkID string) ([]*daemon.ENI, error) {
	return nil, nil
}

func c12Addrs(v any) []netip.Addr {
	r := []netip.Addr{}
	for _, x := range vt.List(v) {
		if s := c12IP(x); s != "" {
			r = append(r, c12Addr(s))
		}
	}
	return r
}

// c12IfaceOf reads one interface of the environment (record Iface of the specification).
func c12IfaceOf(m vt.M, mac string) *c12Iface {
	return &c12Iface{mac: mac, cidr4: c12CIDR(m["net4"], m["plen4"]), gw4: c12IP(m["gw4"]),
		cidr6: c12CIDR(m["net6"], m["plen6"]), gw6: c12IP(m["gw6"]), v4: c12Addrs(m["ips4"]), v6: c12Addrs(m["ips6"])}
}

// c12Pool is the real node-local pool of one case: one interface slot (eni.Local) run by the real eni.Manager.
type c12Pool struct {
	cloud  *c12Cloud
	local  *eni.Local
	mgr    *eni.Manager
	hist   string
	v4, v6 bool
	ctx    context.Context
	stop   context.CancelFunc
	wg     sync.WaitGroup
}

func c12NewPool(in vt.M) *c12Pool {
	a := vt.Map(vt.List(in["allocs"])[0])
	env := vt.Map(in["env"])
	p := &c12Pool{hist: vt.Str(in["hist"]), v4: c12IP(a["ip4"]) != "", v6: c12IP(a["ip6"]) != ""}
	// the interface the cloud attaches in the case's subnets; its MAC is the one the plugin can resolve to a link
	b := &c12Iface{mac: c12MAC, cidr4: c12CIDR(a["net4"], a["plen4"]), gw4: c12IP(a["gw4"]),
		cidr6: c12CIDR(a["net6"], a["plen6"]), gw6: c12IP(a["gw6"])}
	if !p.v4 {
		// every interface has a primary IPv4 address, and the daemon's configuration check knows no IPv6-only stack
		panic("harness: a localpool case without IPv4")
	}
	b.v4 = append([]netip.Addr{c12Addr(c12IP(a["ip4"]))}, c12Addrs(env["more4"])...)
	if p.hist == "shared" { // the earlier pod, which stays, gets the first addresses
		b.v4 = append(c12Addrs(env["more4"]), c12Addr(c12IP(a["ip4"])))
	}
	if p.v6 {
		b.v6 = append([]netip.Addr{c12Addr(c12IP(a["ip6"]))}, c12Addrs(env["more6"])...)
		if p.hist == "shared" {
			b.v6 = append(c12Addrs(env["more6"]), c12Addr(c12IP(a["ip6"])))
		}
	}
	p.cloud = &c12Cloud{enis: map[string]*c12CloudENI{}, plans: []*c12Iface{b}}
	if strings.HasPrefix(p.hist, "reuse") {
		p.cloud.plans = []*c12Iface{c12IfaceOf(vt.Map(env["a"]), "02:16:3e:00:0a:01"), b}
	}
	// batch size as in daemon/config.go getPoolConfig; one slot, so that the slot's history is the case's history
	cfg := &daemon.PoolConfig{BatchSize: 10, MaxIPPerENI: 10, EnableIPv4: p.v4, EnableIPv6: p.v6}
	p.local = eni.VerifC12NewLocalPool(p.cloud, cfg)
	p.mgr = eni.NewManager(0, 10, 10, 0, []eni.NetworkInterface{p.local}, daemon.EniSelectionPolicyMostIPs, nil)
	p.ctx, p.stop = context.WithCancel(context.Background())
	if err := p.mgr.Run(p.ctx, &p.wg, nil); err != nil {
		panic("harness: manager run: " + err.Error())
	}
	return p
}

// close stops the pool's workers. The case's process ends right afterwards, so their exit is not awaited (the pool's
// shutdown wake-up, a Broadcast without the lock, can be missed by a worker that is about to wait; daemon shutdown is not
// C12's subject).
func (p *c12Pool) close() { p.stop() }

// until polls the slot's own status report (eni.Local.Status) until cond holds.
func (p *c12Pool) until(what string, cond func(st eni.Status, deleting int) bool) bool {
	deadline := time.Now().Add(c12Wait)
	for {
		st := p.local.Status()
		deleting := 0
		for _, u := range st.Usage {
			if len(u) == 3 && u[2] == "Deleting" {
				deleting++
			}
		}
		if cond(st, deleting) {
			return true
		}
		if time.Now().After(deadline) {
			c12MachineryError("hist %s: time-out waiting for %s; slot %+v; cloud calls %v", p.hist, what, st, p.cloudCalls())
			return false
		}
		time.Sleep(10 * time.Millisecond)
	}
}

func (p *c12Pool) cloudCalls() []string {
	p.cloud.mu.Lock()
	defer p.cloud.mu.Unlock()
	return append([]string{}, p.cloud.calls...)
}

func c12EarlierPod(k int) *daemon.PodInfo {
	return &daemon.PodInfo{Name: fmt.Sprintf("pod-h%d", k), Namespace: c12NS, PodUID: fmt.Sprintf("uid-pod-h%d", k),
		PodNetworkType: daemon.PodNetworkTypeENIMultiIP}
}

// play runs the history that precedes the judged ADD through the real daemon service: ADDs and DELs of earlier pods and
// runs of the pool balancer. It returns "" or why the history could not be played (an earlier ADD/DEL was refused).
func (p *c12Pool) play(svc rpc.TerwayBackendServer) string {
	add := func(k int) string {
		ctx, cancel := context.WithTimeout(context.Background(), c12Wait)
		defer cancel()
		q := c12EarlierPod(k)
		_, err := svc.AllocIP(ctx, &rpc.AllocIPRequest{Netns: c12NetNS, K8SPodName: q.Name, K8SPodNamespace: q.Namespace,
			K8SPodInfraContainerId: "sandbox-" + q.Name, IfName: "eth0"})
		if err != nil && ctx.Err() != nil {
			c12MachineryError("hist %s: time-out in the ADD of %s; cloud calls %v", p.hist, q.Name, p.cloudCalls())
		}
		if err != nil {
			return fmt.Sprintf("error: earlier ADD of %s: %v", q.Name, err)
		}
		return ""
	}
	del := func(k int) string {
		q := c12EarlierPod(k)
		_, err := svc.ReleaseIP(context.Background(), &rpc.ReleaseIPRequest{K8SPodName: q.Name, K8SPodNamespace: q.Namespace,
			K8SPodInfraContainerId: "sandbox-" + q.Name})
		if err != nil {
			return fmt.Sprintf("error: earlier DEL of %s: %v", q.Name, err)
		}
		return ""
	}
	shrink := func(maxIdle int) string {
		ctx, cancel := context.WithTimeout(p.ctx, c12Wait)
		defer cancel()
		eni.VerifC12Shrink(ctx, p.mgr, maxIdle)
		return ""
	}
	given := func() string { // the addresses handed back are gone from the slot
		if !p.until("the disposed addresses to be unassigned", func(st eni.Status, deleting int) bool { return deleting == 0 }) {
			return "error: harness time-out"
		}
		return ""
	}
	empty := func() string {
		if !p.until("the slot to become empty", func(st eni.Status, deleting int) bool {
			return st.NetworkInterfaceID == "" && st.Status == "Init"
		}) {
			return "error: harness time-out"
		}
		return ""
	}
	var steps []func() string
	one, two := func() string { return add(1) }, func() string { return add(2) }
	del1, del2 := func() string { return del(1) }, func() string { return del(2) }
	to := func(n int) func() string { return func() string { return shrink(n) } }
	switch p.hist {
	case "fresh":
	case "cached":
		steps = []func() string{one, del1}
	case "shared":
		steps = []func() string{one}
	case "partial":
		steps = []func() string{one, two, del2, to(0), given, del1}
	case "reuse":
		steps = []func() string{one, del1, to(0), empty}
	case "reuse_partial":
		steps = []func() string{one, two, del1, del2, to(1), given, to(0), empty}
	default:
		panic("harness: unknown history " + p.hist)
	}
	for _, f := range steps {
		if e := f(); e != "" {
			return e
		}
	}
	return ""
}

func c12PodENI(in vt.M, trunkID string) *networkv1beta1.PodENI {
	pe := &networkv1beta1.PodENI{
		ObjectMeta: metav1.ObjectMeta{Name: c12Pod, Namespace: c12NS, Annotations: map[string]string{terwayTypes.PodUID: c12UID}},
		Status: networkv1beta1.PodENIStatus{
			Phase:      networkv1beta1.ENIPhaseBind,
			InstanceID: "i-1",
			TrunkENIID: trunkID,
			ENIInfos:   map[string]networkv1beta1.ENIInfo{},
		},
	}
	for i, x := range vt.List(in["allocs"]) {
		a := vt.Map(x)
		id := fmt.Sprintf("eni-m%d", i+1)
		al := networkv1beta1.Allocation{
			ENI:          networkv1beta1.ENI{ID: id, MAC: c12MAC},
			IPv4:         c12IP(a["ip4"]),
			IPv6:         c12IP(a["ip6"]),
			Interface:    vt.Str(a["ifname"]),
			DefaultRoute: vt.Bool(a["def"]),
		}
		if al.IPv4 != "" {
			al.IPv4CIDR = c12CIDR(a["net4"], a["plen4"])
		}
		if al.IPv6 != "" {
			al.IPv6CIDR = c12CIDR(a["net6"], a["plen6"])
		}
		for _, r := range vt.List(a["routes"]) {
			rm := vt.Map(r)
			al.ExtraRoutes = append(al.ExtraRoutes, networkv1beta1.Route{Dst: c12CIDR(rm["dst"], rm["plen"])})
		}
		pe.Spec.Allocations = append(pe.Spec.Allocations, al)
		pe.Status.ENIInfos[id] = networkv1beta1.ENIInfo{ID: id, Vid: vt.Int(a["vid"])}
	}
	return pe
}

// c12NodeCR is the Node custom resource of CRD mode. ENI "eni-x" (another subnet, other pods'
// addresses, a stale entry of this pod) is always present next to the ENI that serves the pod.
func c12NodeCR(in vt.M, withPodIP bool, trunk bool) *networkv1beta1.Node {
	n := &networkv1beta1.Node{
		ObjectMeta: metav1.ObjectMeta{Name: c12Node},
		Spec: networkv1beta1.NodeSpec{ENISpec: &networkv1beta1.ENISpec{
			EnableIPv4: true, EnableIPv6: true, EnableTrunk: trunk,
		}},
		Status: networkv1beta1.NodeStatus{NetworkInterfaces: map[string]*networkv1beta1.NetworkInterface{}},
	}
	podID := c12NS + "/" + c12Pod
	other := &networkv1beta1.NetworkInterface{
		ID: "eni-x", Status: "InUse", MacAddress: "02:00:00:00:00:99",
		IPv4CIDR: "172.31.255.0/24", IPv6CIDR: "fd99:99::/64",
		IPv4: map[string]*networkv1beta1.IP{
			"172.31.255.7": {IP: "172.31.255.7", Status: networkv1beta1.IPStatusValid, PodID: "default/other", PodUID: "uid-other"},
			"172.31.255.8": {IP: "172.31.255.8", Status: networkv1beta1.IPStatusDeleting, PodID: podID, PodUID: c12UID},
			"172.31.255.9": {IP: "172.31.255.9", Status: networkv1beta1.IPStatusValid, PodID: podID, PodUID: "uid-of-an-earlier-incarnation"},
		},
		IPv6: map[string]*networkv1beta1.IP{
			"fd99:99::7": {IP: "fd99:99::7", Status: networkv1beta1.IPStatusValid, PodID: "default/other", PodUID: "uid-other"},
			"fd99:99::8": {IP: "fd99:99::8", Status: networkv1beta1.IPStatusDeleting, PodID: podID, PodUID: c12UID},
			"fd99:99::9": {IP: "fd99:99::9", Status: networkv1beta1.IPStatusValid, PodID: podID, PodUID: "uid-of-an-earlier-incarnation"},
		},
	}
	n.Status.NetworkInterfaces["eni-x"] = other
	detached := &networkv1beta1.NetworkInterface{
		ID: "eni-y", Status: "Detaching", MacAddress: "02:00:00:00:00:98",
		IPv4CIDR: "172.31.254.0/24", IPv6CIDR: "fd99:98::/64",
		IPv4: map[string]*networkv1beta1.IP{
			"172.31.254.9": {IP: "172.31.254.9", Status: networkv1beta1.IPStatusValid, PodID: podID, PodUID: c12UID},
		},
	}
	n.Status.NetworkInterfaces["eni-y"] = detached
	if withPodIP {
		a := vt.Map(vt.List(in["allocs"])[0])
		e := &networkv1beta1.NetworkInterface{
			ID: "eni-s1", Status: "InUse", MacAddress: c12MAC,
			IPv4: map[string]*networkv1beta1.IP{}, IPv6: map[string]*networkv1beta1.IP{},
			IPv4CIDR: c12CIDR(a["net4"], a["plen4"]), IPv6CIDR: c12CIDR(a["net6"], a["plen6"]),
		}
		if s := c12IP(a["ip4"]); s != "" {
			e.IPv4[s] = &networkv1beta1.IP{IP: s, Status: networkv1beta1.IPStatusValid, PodID: podID, PodUID: c12UID}
		}
		if s := c12IP(a["ip6"]); s != "" {
			e.IPv6[s] = &networkv1beta1.IP{IP: s, Status: networkv1beta1.IPStatusValid, PodID: podID, PodUID: c12UID}
		}
		// a neighbour address of another pod on the same ENI
		e.IPv4["203.0.113.77"] = &networkv1beta1.IP{IP: "203.0.113.77", Status: networkv1beta1.IPStatusValid, PodID: "default/other2", PodUID: "uid-other2"}
		n.Status.NetworkInterfaces["eni-s1"] = e
	}
	if trunk {
		n.Status.NetworkInterfaces["eni-trunk"] = &networkv1beta1.NetworkInterface{
			ID: "eni-trunk", Status: "InUse", MacAddress: c12MAC, PrimaryIPAddress: "10.255.0.10",
			IPv4CIDR: "10.255.0.0/24", IPv6CIDR: "fd00:ff::/64",
		}
	}
	return n
}

func c12Backend(in vt.M) (eni.NetworkInterface, terwayTypes.IPAMType) {
	kind := vt.Str(in["kind"])
	trunk := vt.Bool(in["trunk"])
	switch kind {
	case "local":
		a := vt.Map(vt.List(in["allocs"])[0])
		res := &eni.LocalIPResource{
			PodID: c12NS + "/" + c12Pod,
			ENI: daemon.ENI{
				ID: "eni-s1", MAC: c12MAC,
				GatewayIP:   terwayTypes.IPSet{IPv4: c12NetIP(a["gw4"]), IPv6: c12NetIP(a["gw6"])},
				VSwitchCIDR: terwayTypes.IPNetSet{IPv4: c12IPNet(a["net4"], a["plen4"]), IPv6: c12IPNet(a["net6"], a["plen6"])},
			},
		}
		if s := c12IP(a["ip4"]); s != "" {
			res.IP.IPv4 = c12Addr(s)
		} else {
			res.ENI.GatewayIP.IPv4, res.ENI.VSwitchCIDR.IPv4 = nil, nil
		}
		if s := c12IP(a["ip6"]); s != "" {
			res.IP.IPv6 = c12Addr(s)
		} else {
			res.ENI.GatewayIP.IPv6, res.ENI.VSwitchCIDR.IPv6 = nil, nil
		}
		return &c12Local{res: res}, terwayTypes.IPAMTypeDefault
	case "crd":
		c := fake.NewClientBuilder().WithScheme(terwayTypes.Scheme).WithObjects(c12NodeCR(in, true, false)).Build()
		return eni.VerifC12NewCRDV2(c, c12Node), terwayTypes.IPAMTypeCRD
	case "podeni":
		trunkID := ""
		var t *daemon.ENI
		if trunk {
			trunkID = "eni-trunk"
			t = &daemon.ENI{ID: trunkID, MAC: c12MAC, Trunk: true,
				GatewayIP: terwayTypes.IPSet{IPv4: net.ParseIP("10.255.0.253"), IPv6: net.ParseIP("fd00:ff::ffff:ffff:ffff:fffd")}}
		}
		c := fake.NewClientBuilder().WithScheme(terwayTypes.Scheme).WithObjects(c12PodENI(in, trunkID)).Build()
		return eni.NewRemote(c, t), terwayTypes.IPAMTypeDefault
	case "crdpodeni":
		trunkID := ""
		objs := []client.Object{}
		if trunk {
			trunkID = "eni-trunk"
		}
		objs = append(objs, c12PodENI(in, trunkID), c12NodeCR(in, false, trunk),
			&corev1.Node{ObjectMeta: metav1.ObjectMeta{Name: c12Node, Annotations: map[string]string{terwayTypes.TrunkOn: trunkID}}})
		c := fake.NewClientBuilder().WithScheme(terwayTypes.Scheme).WithObjects(objs...).Build()
		return eni.VerifC12NewCRDV2(c, c12Node), terwayTypes.IPAMTypeCRD
	}
	panic("harness: unknown kind " + kind)
}

// ---- output projection -------------------------------------------------------------------------

func c12Bytes(p net.IP) []int {
	if p == nil {
		return []int{}
	}
	if v4 := p.To4(); v4 != nil {
		return vt.Ints(v4)
	}
	return vt.Ints(p.To16())
}

// c12ParseIP projects an address string of the wire format: "" -> <<>>, unparsable -> <<999>>.
func c12ParseIP(s string) []int {
	if s == "" {
		return []int{}
	}
	p := net.ParseIP(s)
	if p == nil {
		return []int{999}
	}
	return c12Bytes(p)
}

// c12ParseCIDR projects a subnet string of the wire format to (network base, prefix length).
func c12ParseCIDR(s string) ([]int, int) {
	if s == "" {
		return []int{}, 0
	}
	_, n, err := net.ParseCIDR(s)
	if err != nil {
		return []int{999}, 0
	}
	ones, _ := n.Mask.Size()
	return c12Bytes(n.IP), ones
}

func c12IPNetOut(n *net.IPNet) ([]int, int) {
	if n == nil {
		return []int{}, 0
	}
	ones, _ := n.Mask.Size()
	return c12Bytes(n.IP), ones
}

func c12IPTypeName(t rpc.IPType) string {
	switch t {
	case rpc.IPType_TypeVPCIP:
		return "vpcip"
	case rpc.IPType_TypeVPCENI:
		return "vpceni"
	case rpc.IPType_TypeENIMultiIP:
		return "multiip"
	}
	return fmt.Sprintf("iptype%d", int(t))
}

func c12IPType(s string) rpc.IPType {
	switch s {
	case "vpcip":
		return rpc.IPType_TypeVPCIP
	case "vpceni":
		return rpc.IPType_TypeVPCENI
	case "multiip":
		return rpc.IPType_TypeENIMultiIP
	}
	panic("harness: unknown ip type " + s)
}

func c12DPName(d types.DataPath) string {
	switch d {
	case types.VPCRoute:
		return "vpcroute"
	case types.PolicyRoute:
		return "policyroute"
	case types.IPVlan:
		return "ipvlan"
	case types.ExclusiveENI:
		return "exclusiveeni"
	case types.Vlan:
		return "vlan"
	}
	return fmt.Sprintf("dp%d", int(d))
}

func c12NetOut(nc *rpc.NetConf) vt.M {
	m := vt.M{"ifname": nc.GetIfName(), "def": nc.GetDefaultRoute(), "hasbasic": nc.GetBasicInfo() != nil,
		"trunk": nc.GetENIInfo().GetTrunk(), "vid": int(nc.GetENIInfo().GetVid()),
		"ingress": int(nc.GetPod().GetIngress()), "egress": int(nc.GetPod().GetEgress())}
	b := nc.GetBasicInfo()
	m["ip4"], m["ip6"] = c12ParseIP(b.GetPodIP().GetIPv4()), c12ParseIP(b.GetPodIP().GetIPv6())
	m["gw4"], m["gw6"] = c12ParseIP(b.GetGatewayIP().GetIPv4()), c12ParseIP(b.GetGatewayIP().GetIPv6())
	m["net4"], m["plen4"] = c12ParseCIDR(b.GetPodCIDR().GetIPv4())
	m["net6"], m["plen6"] = c12ParseCIDR(b.GetPodCIDR().GetIPv6())
	routes := []vt.M{}
	for _, r := range nc.GetExtraRoutes() {
		d, p := c12ParseCIDR(r.GetDst())
		routes = append(routes, vt.M{"dst": d, "plen": p})
	}
	m["routes"] = routes
	return m
}

func c12SetupOut(cfg *types.SetupConfig, err error, direct string) vt.M {
	m := vt.M{"err": "", "dp": "", "dpdirect": direct, "ifname": "", "def": false, "strip": false, "vid": 0,
		"ingress": 0, "egress": 0, "ip4": []int{}, "plen4": 0, "ip6": []int{}, "plen6": 0,
		"gw4": []int{}, "gw6": []int{}, "routes": []vt.M{}}
	if err != nil {
		m["err"] = "error: " + err.Error()
		return m
	}
	m["dp"], m["ifname"], m["def"] = c12DPName(cfg.DP), cfg.ContainerIfName, cfg.DefaultRoute
	m["strip"], m["vid"] = cfg.StripVlan, cfg.Vid
	m["ingress"], m["egress"] = int(cfg.Ingress), int(cfg.Egress)
	if cfg.ContainerIPNet != nil {
		m["ip4"], m["plen4"] = c12IPNetOut(cfg.ContainerIPNet.IPv4)
		m["ip6"], m["plen6"] = c12IPNetOut(cfg.ContainerIPNet.IPv6)
	}
	if cfg.GatewayIP != nil {
		m["gw4"], m["gw6"] = c12Bytes(cfg.GatewayIP.IPv4), c12Bytes(cfg.GatewayIP.IPv6)
	}
	routes := []vt.M{}
	for _, r := range cfg.ExtraRoutes {
		d, p := c12IPNetOut(&net.IPNet{IP: r.Dst.IP, Mask: r.Dst.Mask})
		routes = append(routes, vt.M{"dst": d, "plen": p, "gw": c12Bytes(r.GW)})
	}
	m["routes"] = routes
	return m
}

func c12DownOut(cfg *types.TeardownCfg, err error) vt.M {
	m := vt.M{"err": "", "dp": "", "ip4": []int{}, "plen4": 0, "ip6": []int{}, "plen6": 0}
	if err != nil {
		m["err"] = "error: " + err.Error()
		return m
	}
	m["dp"] = c12DPName(cfg.DP)
	if cfg.ContainerIPNet != nil {
		m["ip4"], m["plen4"] = c12IPNetOut(cfg.ContainerIPNet.IPv4)
		m["ip6"], m["plen6"] = c12IPNetOut(cfg.ContainerIPNet.IPv6)
	}
	return m
}

// ---- one ADD -----------------------------------------------------------------------------------

func c12Add(in vt.M) vt.M {
	// cloud: the calls the real pool made to the (fake) cloud, history included; informational, not judged
	out := vt.M{"err": "", "success": false, "iptype": "", "nets": []vt.M{}, "setups": []vt.M{}, "downs": []vt.M{}, "conferr": "", "cloud": []string{}}
	ctx := context.Background()

	podIn := vt.Map(in["pod"])
	pod := &daemon.PodInfo{
		Name: c12Pod, Namespace: c12NS, PodUID: c12UID,
		TcIngress: uint64(vt.Int(podIn["ingress"])), TcEgress: uint64(vt.Int(podIn["egress"])),
		PodENI: strings.HasSuffix(vt.Str(in["kind"]), "podeni"),
	}
	mode := daemon.ModeENIMultiIP
	pod.PodNetworkType = daemon.PodNetworkTypeENIMultiIP
	if vt.Str(in["nettype"]) == "vpceni" {
		mode = daemon.ModeENIOnly
		pod.PodNetworkType = daemon.PodNetworkTypeVPCENI
	}
	_, svc4, _ := net.ParseCIDR("172.21.0.0/20")
	_, svc6, _ := net.ParseCIDR("fd00:21::/112")
	fk := &c12K8s{pod: pod, svc: &terwayTypes.IPNetSet{IPv4: svc4, IPv6: svc6}}

	var svc rpc.TerwayBackendServer
	if vt.Str(in["kind"]) == "localpool" {
		// the real pool behind the real service; earlier pods and pool shrinking first
		pool := c12NewPool(in)
		defer pool.close()
		defer func() { out["cloud"] = pool.cloudCalls() }()
		fk.earlier = []*daemon.PodInfo{c12EarlierPod(1), c12EarlierPod(2)}
		svc = terwaydaemon.VerifC12NewService(mode, fk, pool.mgr, terwayTypes.IPAMTypeDefault, pool.v4, pool.v6)
		if e := pool.play(svc); e != "" {
			out["err"] = e
			return out
		}
		var cancel context.CancelFunc
		ctx, cancel = context.WithTimeout(ctx, c12Wait)
		defer cancel()
		defer func() {
			if ctx.Err() == context.DeadlineExceeded {
				c12MachineryError("hist %s: time-out in the judged ADD; cloud calls %v", pool.hist, pool.cloudCalls())
			}
		}()
	} else {
		backend, ipam := c12Backend(in)
		mgr := eni.NewManager(0, 0, 0, 0, []eni.NetworkInterface{backend}, daemon.EniSelectionPolicyMostIPs, nil)
		svc = terwaydaemon.VerifC12NewService(mode, fk, mgr, ipam, true, true)
	}

	reply, err := svc.AllocIP(ctx, &rpc.AllocIPRequest{
		Netns: c12NetNS, K8SPodName: c12Pod, K8SPodNamespace: c12NS, K8SPodInfraContainerId: c12CID, IfName: "eth0",
	})
	if err != nil {
		out["err"] = "error: " + err.Error()
		return out
	}
	// the unix-socket hop: what the plugin sees is the decoded protobuf message
	wire, err := proto.Marshal(reply)
	if err != nil {
		panic(err)
	}
	got := &rpc.AllocIPReply{}
	if err = proto.Unmarshal(wire, got); err != nil {
		panic(err)
	}
	out["success"] = got.GetSuccess()
	out["iptype"] = c12IPTypeName(got.GetIPType())

	// the plugin side: CNI configuration on stdin, runtime arguments from the container runtime
	cf := vt.Map(in["conf"])
	stdin := vt.M{"cniVersion": "0.4.0", "name": "terway", "type": "terway"}
	if v := vt.Str(cf["vlan"]); v != "" {
		stdin["vlan_strip_type"] = v
	}
	bw := vt.M{}
	if v := vt.Int(cf["rtin"]); v != 0 {
		bw["ingressRate"], bw["ingressBurst"] = v, 2147483647
	}
	if v := vt.Int(cf["rtout"]); v != 0 {
		bw["egressRate"], bw["egressBurst"] = v, 2147483647
	}
	if len(bw) > 0 {
		stdin["runtimeConfig"] = vt.M{"bandwidth": bw}
	}
	raw, _ := json.Marshal(stdin)
	args := &skel.CmdArgs{
		ContainerID: c12CID, Netns: c12NetNS, IfName: "eth0", StdinData: raw,
		Args: fmt.Sprintf("IgnoreUnknown=1;K8S_POD_NAMESPACE=%s;K8S_POD_NAME=%s;K8S_POD_INFRA_CONTAINER_ID=%s", c12NS, c12Pod, c12CID),
	}
	cmdArgs, err := getCmdArgs(args)
	if err != nil {
		out["conferr"] = "error: " + err.Error()
		return out
	}
	defer cmdArgs.Close()
	conf := cmdArgs.GetCNIConf()

	nets, setups, downs := []vt.M{}, []vt.M{}, []vt.M{}
	for _, nc := range got.GetNetConfs() {
		nets = append(nets, c12NetOut(nc))
		direct := ""
		if p := vt.Catch(func() {
			direct = c12DPName(getDatePath(got.GetIPType(), conf.VlanStripType, nc.GetENIInfo().GetTrunk()))
		}); p != "" {
			direct = "panic: " + p
		}
		cfg, err := parseSetupConf(args, nc, conf, got.GetIPType())
		setups = append(setups, c12SetupOut(cfg, err, direct))
	}
	out["nets"], out["setups"] = nets, setups

	// DEL: the daemon answers GetIPInfo from what it stored at ADD
	info, err := svc.GetIPInfo(ctx, &rpc.GetInfoRequest{K8SPodName: c12Pod, K8SPodNamespace: c12NS, K8SPodInfraContainerId: c12CID})
	if err != nil {
		out["conferr"] = "getipinfo error: " + err.Error()
		return out
	}
	wire, err = proto.Marshal(info)
	if err != nil {
		panic(err)
	}
	gotInfo := &rpc.GetInfoReply{}
	if err = proto.Unmarshal(wire, gotInfo); err != nil {
		panic(err)
	}
	for _, nc := range gotInfo.GetNetConfs() {
		cfg, err := parseTearDownConf(nc, conf, gotInfo.GetIPType())
		downs = append(downs, c12DownOut(cfg, err))
	}
	out["downs"] = downs
	return out
}

func c12Addr(s string) netip.Addr { return netip.MustParseAddr(s) }

const c12ResultMark = "C12-POOL-RESULT "

// c12PoolCaseInChild runs one "localpool" case in a child process (this test binary, entry TestVerifNetConfPoolCase).
// The pool serves a request on goroutines of its own; when one of them crashes, the daemon crashes in the middle of an
// ADD. In a process of its own that is observed like a panic of the ADD itself (clause "panic") instead of ending the
// whole harness run. Anything else that goes wrong with the child (time-out, no result) is a machinery error.
func c12PoolCaseInChild(in vt.M) (vt.M, string) {
	raw, err := json.Marshal(in)
	if err != nil {
		panic(err)
	}
	exe, err := os.Executable()
	if err != nil {
		panic(err)
	}
	args := []string{"-test.run", "^TestVerifNetConfPoolCase$", "-test.count=1", "-test.timeout", "900s"}
	if d := os.Getenv("VERIF_COVER"); d != "" {
		args = append(args, fmt.Sprintf("-test.coverprofile=%s/C12-pool-%d-%d.out", d, os.Getpid(), time.Now().UnixNano()))
	}
	cmd := exec.Command(exe, args...)
	cmd.Env = append(os.Environ(), "VERIF_C12_CASE="+string(raw))
	var stdout, stderr strings.Builder
	cmd.Stdout, cmd.Stderr = &stdout, &stderr
	runErr := cmd.Run()
	for _, line := range strings.Split(stdout.String(), "\n") {
		if !strings.HasPrefix(line, c12ResultMark) {
			continue
		}
		rs, err := vt.ReadNDJSONString(strings.TrimPrefix(line, c12ResultMark))
		if err != nil || len(rs) != 1 {
			break
		}
		for _, e := range vt.List(rs[0]["machinery"]) {
			c12MachineryError("%s", vt.Str(e))
		}
		return vt.Map(rs[0]["out"]), vt.Str(rs[0]["panic"])
	}
	// no result: the process died
	lines := strings.Split(stderr.String()+"\n"+stdout.String(), "\n")
	for k, line := range lines {
		if !strings.HasPrefix(line, "panic: ") && !strings.HasPrefix(line, "fatal error: ") {
			continue
		}
		if strings.HasPrefix(line, "panic: test timed out") {
			break
		}
		p := "daemon process died: " + line
		for _, fr := range lines[k+1:] {
			if strings.Contains(fr, "/terway/pkg/") || strings.Contains(fr, "/terway/daemon.") {
				if j := strings.LastIndex(fr, "("); j > 0 {
					fr = fr[:j]
				}
				p += " in " + fr[strings.LastIndex(fr, "/")+1:]
				break
			}
		}
		if len(p) > 200 {
			p = p[:200]
		}
		return vt.M{}, p
	}
	tail := stderr.String()
	if len(tail) > 1500 {
		tail = tail[len(tail)-1500:]
	}
	c12MachineryError("child process of a localpool case gave no result (%v): %s", runErr, tail)
	return vt.M{}, ""
}

// TestVerifNetConfPoolCase is the child side of c12PoolCaseInChild: one case from the environment, result on stdout.
func TestVerifNetConfPoolCase(t *testing.T) {
	raw := os.Getenv("VERIF_C12_CASE")
	if raw == "" {
		t.Skip("child entry of TestVerifNetConf")
	}
	cs, err := vt.ReadNDJSONString(raw)
	if err != nil || len(cs) != 1 {
		t.Fatalf("case: %v", err)
	}
	out := vt.M{}
	p := vt.Catch(func() { out = c12Add(cs[0]) })
	c12Machinery.Lock()
	b, err := json.Marshal(vt.M{"out": out, "panic": p, "machinery": append([]string{}, c12Machinery.errs...)})
	c12Machinery.Unlock()
	if err != nil {
		t.Fatal(err)
	}
	fmt.Printf("\n%s%s\n", c12ResultMark, b)
}

// TestVerifNetConf runs the real daemon and plugin code on every TLC-enumerated case of NetConf.tla.
func TestVerifNetConf(t *testing.T) {
	cases, err := vt.ReadNDJSON(vt.Env("VERIF_CASES", ""))
	if err != nil {
		t.Fatal(err)
	}
	w, err := vt.NewWriter(vt.Env("VERIF_RESULTS", ""))
	if err != nil {
		t.Fatal(err)
	}
	defer w.Close()
	// every "localpool" case runs its own pool (the pool's cloud worker batches for 300 ms per round): they run
	// concurrently, next to the other cases, each in a child process (see c12PoolCaseInChild)
	var bg sync.WaitGroup
	sem := make(chan struct{}, vt.EnvInt("VERIF_C12_PAR", 24))
	for _, c := range cases {
		if in := vt.Map(c["in"]); vt.Str(in["fn"]) == "add" && vt.Str(in["kind"]) == "localpool" {
			bg.Add(1)
			go func(c vt.M, in vt.M) {
				defer bg.Done()
				sem <- struct{}{}
				defer func() { <-sem }()
				out, p := c12PoolCaseInChild(in)
				w.Write(vt.M{"id": c["id"], "out": out, "panic": p})
			}(c, in)
		}
	}
	defer func() {
		bg.Wait()
		c12Machinery.Lock()
		defer c12Machinery.Unlock()
		if len(c12Machinery.errs) > 0 {
			t.Fatalf("machinery: %d time-outs, first: %s", len(c12Machinery.errs), c12Machinery.errs[0])
		}
	}()
	for _, c := range cases {
		in := vt.Map(c["in"])
		if vt.Str(in["fn"]) == "add" && vt.Str(in["kind"]) == "localpool" {
			continue
		}
		out := vt.M{}
		handled := true
		p := vt.Catch(func() {
			switch vt.Str(in["fn"]) {
			case "add":
				out = c12Add(in)
			case "datapath":
				names := []string{}
				for k := 0; k < 3; k++ {
					names = append(names, c12DPName(getDatePath(c12IPType(vt.Str(in["iptype"])), types.VlanStripType(vt.Str(in["vlan"])), vt.Bool(in["trunk"]))))
					// an unrelated call in between: the answer may not depend on call history
					_ = getDatePath(rpc.IPType_TypeVPCENI, types.VlanStripTypeVlan, k%2 == 0)
				}
				out["dps"] = names
			default:
				handled = false
			}
		})
		if !handled {
			continue
		}
		w.Write(vt.M{"id": c["id"], "out": out, "panic": p})
	}
}
