//go:build verif && linux

package main

// C12 conformance harness (specs/NetConf.tla).
//
// For every TLC-enumerated case the REAL daemon service answers AllocIP (and GetIPInfo) over the
// real eni.Manager and the real resource back-ends (eni.Remote, eni.CRDV2 against a controller-runtime
// fake API client holding the PodENI / Node custom resources of the case; eni.LocalIPResource for the
// node-local pool), the reply crosses a protobuf round trip like on the unix socket, and the REAL
// plugin code (getCmdArgs, parseSetupConf, parseTearDownConf, getDatePath) consumes it.
// The harness only builds inputs and projects outputs to plain values; it takes no decision.

import (
	"context"
	"encoding/json"
	"fmt"
	"net"
	"net/netip"
	"strings"
	"sync"
	"testing"

	"github.com/containernetworking/cni/pkg/skel"
	"github.com/vishvananda/netlink"
	"google.golang.org/protobuf/proto"
	corev1 "k8s.io/api/core/v1"
	metav1 "k8s.io/apimachinery/pkg/apis/meta/v1"
	"sigs.k8s.io/controller-runtime/pkg/client"
	"sigs.k8s.io/controller-runtime/pkg/client/fake"

	terwaydaemon "github.com/AliyunContainerService/terway/daemon"
	networkv1beta1 "github.com/AliyunContainerService/terway/pkg/apis/network.alibabacloud.com/v1beta1"
	"github.com/AliyunContainerService/terway/pkg/eni"
	"github.com/AliyunContainerService/terway/pkg/k8s"
	"github.com/AliyunContainerService/terway/plugin/driver/types"
	"github.com/AliyunContainerService/terway/rpc"
	terwayTypes "github.com/AliyunContainerService/terway/types"
	"github.com/AliyunContainerService/terway/types/daemon"
	"github.com/AliyunContainerService/terway/zzverif/vt"
)

const (
	c12Pod   = "pod-a"
	c12NS    = "default"
	c12UID   = "uid-pod-a"
	c12CID   = "sandbox-1"
	c12Node  = "node-1"
	c12NetNS = "/proc/self/ns/net"
)

// c12MAC is the MAC every ENI of a case carries. parseSetupConf resolves the ENI by MAC among the
// hardware-type links of the current network namespace (and retries for 10 s when there is none), so
// the harness takes the MAC of a hardware link that exists here; without one the ENIs carry no MAC and
// the plugin skips the lookup. ENIIndex is not judged.
var c12MAC = func() string {
	links, err := netlink.LinkList()
	if err != nil {
		return ""
	}
	for _, l := range links {
		if _, ok := l.(*netlink.Device); ok && len(l.Attrs().HardwareAddr) > 0 {
			return l.Attrs().HardwareAddr.String()
		}
	}
	return ""
}()

// ---- input construction ------------------------------------------------------------------------

func c12IP(v any) string {
	b := vt.Bytes(v)
	if len(b) == 0 {
		return ""
	}
	return net.IP(b).String()
}

func c12CIDR(base any, plen any) string {
	b := vt.Bytes(base)
	if len(b) == 0 {
		return ""
	}
	return fmt.Sprintf("%s/%d", net.IP(b).String(), vt.Int(plen))
}

func c12NetIP(v any) net.IP {
	b := vt.Bytes(v)
	if len(b) == 0 {
		return nil
	}
	return net.IP(b)
}

func c12IPNet(base any, plen any) *net.IPNet {
	s := c12CIDR(base, plen)
	if s == "" {
		return nil
	}
	_, n, err := net.ParseCIDR(s)
	if err != nil {
		panic(err)
	}
	return n
}

type c12K8s struct {
	k8s.Kubernetes // every other method is unused by AllocIP / GetIPInfo
	pod            *daemon.PodInfo
	svc            *terwayTypes.IPNetSet
}

func (k *c12K8s) GetPod(ctx context.Context, namespace, name string, cache bool) (*daemon.PodInfo, error) {
	if namespace != k.pod.Namespace || name != k.pod.Name {
		return nil, fmt.Errorf("pod %s/%s not found", namespace, name)
	}
	p := *k.pod
	return &p, nil
}
func (k *c12K8s) GetServiceCIDR() *terwayTypes.IPNetSet                      { return k.svc }
func (k *c12K8s) PatchPodIPInfo(info *daemon.PodInfo, ips string) error      { return nil }
func (k *c12K8s) RecordPodEvent(n, ns, et, reason, message string) error     { return nil }
func (k *c12K8s) RecordNodeEvent(eventType, reason, message string)          {}
func (k *c12K8s) PatchNodeIPResCondition(corev1.ConditionStatus, string, string) error { return nil }

// c12Local stands for the node-local pool (pkg/eni Local): it hands out the LocalIPResource the pool
// would hand out for an ENI whose subnet and gateway were read from the instance metadata service.
type c12Local struct{ res *eni.LocalIPResource }

func (l *c12Local) Allocate(ctx context.Context, cni *daemon.CNI, request eni.ResourceRequest) (chan *eni.AllocResp, []eni.Trace) {
	if request.ResourceType() != eni.ResourceTypeLocalIP {
		return nil, []eni.Trace{{Condition: eni.ResourceTypeMismatch}}
	}
	ch := make(chan *eni.AllocResp)
	go func() {
		select {
		case <-ctx.Done():
		case ch <- &eni.AllocResp{NetworkConfigs: eni.NetworkResources{l.res}}:
		}
	}()
	return ch, nil
}
func (l *c12Local) Release(context.Context, *daemon.CNI, eni.NetworkResource) (bool, error) {
	return true, nil
}
func (l *c12Local) Priority() int   { return 0 }
func (l *c12Local) Dispose(int) int { return 0 }
func (l *c12Local) Run(context.Context, []daemon.PodResources, *sync.WaitGroup) error {
	return nil
}

func c12PodENI(in vt.M, trunkID string) *networkv1beta1.PodENI {
	pe := &networkv1beta1.PodENI{
		ObjectMeta: metav1.ObjectMeta{Name: c12Pod, Namespace: c12NS, Annotations: map[string]string{terwayTypes.PodUID: c12UID}},
		Status: networkv1beta1.PodENIStatus{
			Phase:      networkv1beta1.ENIPhaseBind,
			InstanceID: "i-1",
			TrunkENIID: trunkID,
			ENIInfos:   map[string]networkv1beta1.ENIInfo{},
		},
	}
	for i, x := range vt.List(in["allocs"]) {
		a := vt.Map(x)
		id := fmt.Sprintf("eni-m%d", i+1)
		al := networkv1beta1.Allocation{
			ENI:          networkv1beta1.ENI{ID: id, MAC: c12MAC},
			IPv4:         c12IP(a["ip4"]),
			IPv6:         c12IP(a["ip6"]),
			Interface:    vt.Str(a["ifname"]),
			DefaultRoute: vt.Bool(a["def"]),
		}
		if al.IPv4 != "" {
			al.IPv4CIDR = c12CIDR(a["net4"], a["plen4"])
		}
		if al.IPv6 != "" {
			al.IPv6CIDR = c12CIDR(a["net6"], a["plen6"])
		}
		for _, r := range vt.List(a["routes"]) {
			rm := vt.Map(r)
			al.ExtraRoutes = append(al.ExtraRoutes, networkv1beta1.Route{Dst: c12CIDR(rm["dst"], rm["plen"])})
		}
		pe.Spec.Allocations = append(pe.Spec.Allocations, al)
		pe.Status.ENIInfos[id] = networkv1beta1.ENIInfo{ID: id, Vid: vt.Int(a["vid"])}
	}
	return pe
}

// c12NodeCR is the Node custom resource of CRD mode. ENI "eni-x" (another subnet, other pods'
// addresses, a stale entry of this pod) is always present next to the ENI that serves the pod.
func c12NodeCR(in vt.M, withPodIP bool, trunk bool) *networkv1beta1.Node {
	n := &networkv1beta1.Node{
		ObjectMeta: metav1.ObjectMeta{Name: c12Node},
		Spec: networkv1beta1.NodeSpec{ENISpec: &networkv1beta1.ENISpec{
			EnableIPv4: true, EnableIPv6: true, EnableTrunk: trunk,
		}},
		Status: networkv1beta1.NodeStatus{NetworkInterfaces: map[string]*networkv1beta1.NetworkInterface{}},
	}
	podID := c12NS + "/" + c12Pod
	other := &networkv1beta1.NetworkInterface{
		ID: "eni-x", Status: "InUse", MacAddress: "02:00:00:00:00:99",
		IPv4CIDR: "172.31.255.0/24", IPv6CIDR: "fd99:99::/64",
		IPv4: map[string]*networkv1beta1.IP{
			"172.31.255.7": {IP: "172.31.255.7", Status: networkv1beta1.IPStatusValid, PodID: "default/other", PodUID: "uid-other"},
			"172.31.255.8": {IP: "172.31.255.8", Status: networkv1beta1.IPStatusDeleting, PodID: podID, PodUID: c12UID},
			"172.31.255.9": {IP: "172.31.255.9", Status: networkv1beta1.IPStatusValid, PodID: podID, PodUID: "uid-of-an-earlier-incarnation"},
		},
		IPv6: map[string]*networkv1beta1.IP{
			"fd99:99::7": {IP: "fd99:99::7", Status: networkv1beta1.IPStatusValid, PodID: "default/other", PodUID: "uid-other"},
			"fd99:99::8": {IP: "fd99:99::8", Status: networkv1beta1.IPStatusDeleting, PodID: podID, PodUID: c12UID},
			"fd99:99::9": {IP: "fd99:99::9", Status: networkv1beta1.IPStatusValid, PodID: podID, PodUID: "uid-of-an-earlier-incarnation"},
		},
	}
	n.Status.NetworkInterfaces["eni-x"] = other
	detached := &networkv1beta1.NetworkInterface{
		ID: "eni-y", Status: "Detaching", MacAddress: "02:00:00:00:00:98",
		IPv4CIDR: "172.31.254.0/24", IPv6CIDR: "fd99:98::/64",
		IPv4: map[string]*networkv1beta1.IP{
			"172.31.254.9": {IP: "172.31.254.9", Status: networkv1beta1.IPStatusValid, PodID: podID, PodUID: c12UID},
		},
	}
	n.Status.NetworkInterfaces["eni-y"] = detached
	if withPodIP {
		a := vt.Map(vt.List(in["allocs"])[0])
		e := &networkv1beta1.NetworkInterface{
			ID: "eni-s1", Status: "InUse", MacAddress: c12MAC,
			IPv4: map[string]*networkv1beta1.IP{}, IPv6: map[string]*networkv1beta1.IP{},
			IPv4CIDR: c12CIDR(a["net4"], a["plen4"]), IPv6CIDR: c12CIDR(a["net6"], a["plen6"]),
		}
		if s := c12IP(a["ip4"]); s != "" {
			e.IPv4[s] = &networkv1beta1.IP{IP: s, Status: networkv1beta1.IPStatusValid, PodID: podID, PodUID: c12UID}
		}
		if s := c12IP(a["ip6"]); s != "" {
			e.IPv6[s] = &networkv1beta1.IP{IP: s, Status: networkv1beta1.IPStatusValid, PodID: podID, PodUID: c12UID}
		}
		// a neighbour address of another pod on the same ENI
		e.IPv4["203.0.113.77"] = &networkv1beta1.IP{IP: "203.0.113.77", Status: networkv1beta1.IPStatusValid, PodID: "default/other2", PodUID: "uid-other2"}
		n.Status.NetworkInterfaces["eni-s1"] = e
	}
	if trunk {
		n.Status.NetworkInterfaces["eni-trunk"] = &networkv1beta1.NetworkInterface{
			ID: "eni-trunk", Status: "InUse", MacAddress: c12MAC, PrimaryIPAddress: "10.255.0.10",
			IPv4CIDR: "10.255.0.0/24", IPv6CIDR: "fd00:ff::/64",
		}
	}
	return n
}

func c12Backend(in vt.M) (eni.NetworkInterface, terwayTypes.IPAMType) {
	kind := vt.Str(in["kind"])
	trunk := vt.Bool(in["trunk"])
	switch kind {
	case "local":
		a := vt.Map(vt.List(in["allocs"])[0])
		res := &eni.LocalIPResource{
			PodID: c12NS + "/" + c12Pod,
			ENI: daemon.ENI{
				ID: "eni-s1", MAC: c12MAC,
				GatewayIP:   terwayTypes.IPSet{IPv4: c12NetIP(a["gw4"]), IPv6: c12NetIP(a["gw6"])},
				VSwitchCIDR: terwayTypes.IPNetSet{IPv4: c12IPNet(a["net4"], a["plen4"]), IPv6: c12IPNet(a["net6"], a["plen6"])},
			},
		}
		if s := c12IP(a["ip4"]); s != "" {
			res.IP.IPv4 = c12Addr(s)
		} else {
			res.ENI.GatewayIP.IPv4, res.ENI.VSwitchCIDR.IPv4 = nil, nil
		}
		if s := c12IP(a["ip6"]); s != "" {
			res.IP.IPv6 = c12Addr(s)
		} else {
			res.ENI.GatewayIP.IPv6, res.ENI.VSwitchCIDR.IPv6 = nil, nil
		}
		return &c12Local{res: res}, terwayTypes.IPAMTypeDefault
	case "crd":
		c := fake.NewClientBuilder().WithScheme(terwayTypes.Scheme).WithObjects(c12NodeCR(in, true, false)).Build()
		return eni.VerifC12NewCRDV2(c, c12Node), terwayTypes.IPAMTypeCRD
	case "podeni":
		trunkID := ""
		var t *daemon.ENI
		if trunk {
			trunkID = "eni-trunk"
			t = &daemon.ENI{ID: trunkID, MAC: c12MAC, Trunk: true,
				GatewayIP: terwayTypes.IPSet{IPv4: net.ParseIP("10.255.0.253"), IPv6: net.ParseIP("fd00:ff::ffff:ffff:ffff:fffd")}}
		}
		c := fake.NewClientBuilder().WithScheme(terwayTypes.Scheme).WithObjects(c12PodENI(in, trunkID)).Build()
		return eni.NewRemote(c, t), terwayTypes.IPAMTypeDefault
	case "crdpodeni":
		trunkID := ""
		objs := []client.Object{}
		if trunk {
			trunkID = "eni-trunk"
		}
		objs = append(objs, c12PodENI(in, trunkID), c12NodeCR(in, false, trunk),
			&corev1.Node{ObjectMeta: metav1.ObjectMeta{Name: c12Node, Annotations: map[string]string{terwayTypes.TrunkOn: trunkID}}})
		c := fake.NewClientBuilder().WithScheme(terwayTypes.Scheme).WithObjects(objs...).Build()
		return eni.VerifC12NewCRDV2(c, c12Node), terwayTypes.IPAMTypeCRD
	}
	panic("harness: unknown kind " + kind)
}

// ---- output projection -------------------------------------------------------------------------

func c12Bytes(p net.IP) []int {
	if p == nil {
		return []int{}
	}
	if v4 := p.To4(); v4 != nil {
		return vt.Ints(v4)
	}
	return vt.Ints(p.To16())
}

// c12ParseIP projects an address string of the wire format: "" -> <<>>, unparsable -> <<999>>.
func c12ParseIP(s string) []int {
	if s == "" {
		return []int{}
	}
	p := net.ParseIP(s)
	if p == nil {
		return []int{999}
	}
	return c12Bytes(p)
}

// c12ParseCIDR projects a subnet string of the wire format to (network base, prefix length).
func c12ParseCIDR(s string) ([]int, int) {
	if s == "" {
		return []int{}, 0
	}
	_, n, err := net.ParseCIDR(s)
	if err != nil {
		return []int{999}, 0
	}
	ones, _ := n.Mask.Size()
	return c12Bytes(n.IP), ones
}

func c12IPNetOut(n *net.IPNet) ([]int, int) {
	if n == nil {
		return []int{}, 0
	}
	ones, _ := n.Mask.Size()
	return c12Bytes(n.IP), ones
}

func c12IPTypeName(t rpc.IPType) string {
	switch t {
	case rpc.IPType_TypeVPCIP:
		return "vpcip"
	case rpc.IPType_TypeVPCENI:
		return "vpceni"
	case rpc.IPType_TypeENIMultiIP:
		return "multiip"
	}
	return fmt.Sprintf("iptype%d", int(t))
}

func c12IPType(s string) rpc.IPType {
	switch s {
	case "vpcip":
		return rpc.IPType_TypeVPCIP
	case "vpceni":
		return rpc.IPType_TypeVPCENI
	case "multiip":
		return rpc.IPType_TypeENIMultiIP
	}
	panic("harness: unknown ip type " + s)
}

func c12DPName(d types.DataPath) string {
	switch d {
	case types.VPCRoute:
		return "vpcroute"
	case types.PolicyRoute:
		return "policyroute"
	case types.IPVlan:
		return "ipvlan"
	case types.ExclusiveENI:
		return "exclusiveeni"
	case types.Vlan:
		return "vlan"
	}
	return fmt.Sprintf("dp%d", int(d))
}

func c12NetOut(nc *rpc.NetConf) vt.M {
	m := vt.M{"ifname": nc.GetIfName(), "def": nc.GetDefaultRoute(), "hasbasic": nc.GetBasicInfo() != nil,
		"trunk": nc.GetENIInfo().GetTrunk(), "vid": int(nc.GetENIInfo().GetVid()),
		"ingress": int(nc.GetPod().GetIngress()), "egress": int(nc.GetPod().GetEgress())}
	b := nc.GetBasicInfo()
	m["ip4"], m["ip6"] = c12ParseIP(b.GetPodIP().GetIPv4()), c12ParseIP(b.GetPodIP().GetIPv6())
	m["gw4"], m["gw6"] = c12ParseIP(b.GetGatewayIP().GetIPv4()), c12ParseIP(b.GetGatewayIP().GetIPv6())
	m["net4"], m["plen4"] = c12ParseCIDR(b.GetPodCIDR().GetIPv4())
	m["net6"], m["plen6"] = c12ParseCIDR(b.GetPodCIDR().GetIPv6())
	routes := []vt.M{}
	for _, r := range nc.GetExtraRoutes() {
		d, p := c12ParseCIDR(r.GetDst())
		routes = append(routes, vt.M{"dst": d, "plen": p})
	}
	m["routes"] = routes
	return m
}

func c12SetupOut(cfg *types.SetupConfig, err error, direct string) vt.M {
	m := vt.M{"err": "", "dp": "", "dpdirect": direct, "ifname": "", "def": false, "strip": false, "vid": 0,
		"ingress": 0, "egress": 0, "ip4": []int{}, "plen4": 0, "ip6": []int{}, "plen6": 0,
		"gw4": []int{}, "gw6": []int{}, "routes": []vt.M{}}
	if err != nil {
		m["err"] = "error: " + err.Error()
		return m
	}
	m["dp"], m["ifname"], m["def"] = c12DPName(cfg.DP), cfg.ContainerIfName, cfg.DefaultRoute
	m["strip"], m["vid"] = cfg.StripVlan, cfg.Vid
	m["ingress"], m["egress"] = int(cfg.Ingress), int(cfg.Egress)
	if cfg.ContainerIPNet != nil {
		m["ip4"], m["plen4"] = c12IPNetOut(cfg.ContainerIPNet.IPv4)
		m["ip6"], m["plen6"] = c12IPNetOut(cfg.ContainerIPNet.IPv6)
	}
	if cfg.GatewayIP != nil {
		m["gw4"], m["gw6"] = c12Bytes(cfg.GatewayIP.IPv4), c12Bytes(cfg.GatewayIP.IPv6)
	}
	routes := []vt.M{}
	for _, r := range cfg.ExtraRoutes {
		d, p := c12IPNetOut(&net.IPNet{IP: r.Dst.IP, Mask: r.Dst.Mask})
		routes = append(routes, vt.M{"dst": d, "plen": p, "gw": c12Bytes(r.GW)})
	}
	m["routes"] = routes
	return m
}

func c12DownOut(cfg *types.TeardownCfg, err error) vt.M {
	m := vt.M{"err": "", "dp": "", "ip4": []int{}, "plen4": 0, "ip6": []int{}, "plen6": 0}
	if err != nil {
		m["err"] = "error: " + err.Error()
		return m
	}
	m["dp"] = c12DPName(cfg.DP)
	if cfg.ContainerIPNet != nil {
		m["ip4"], m["plen4"] = c12IPNetOut(cfg.ContainerIPNet.IPv4)
		m["ip6"], m["plen6"] = c12IPNetOut(cfg.ContainerIPNet.IPv6)
	}
	return m
}

// ---- one ADD -----------------------------------------------------------------------------------

func c12Add(in vt.M) vt.M {
	out := vt.M{"err": "", "success": false, "iptype": "", "nets": []vt.M{}, "setups": []vt.M{}, "downs": []vt.M{}, "conferr": ""}
	ctx := context.Background()

	podIn := vt.Map(in["pod"])
	pod := &daemon.PodInfo{
		Name: c12Pod, Namespace: c12NS, PodUID: c12UID,
		TcIngress: uint64(vt.Int(podIn["ingress"])), TcEgress: uint64(vt.Int(podIn["egress"])),
		PodENI: strings.HasSuffix(vt.Str(in["kind"]), "podeni"),
	}
	mode := daemon.ModeENIMultiIP
	pod.PodNetworkType = daemon.PodNetworkTypeENIMultiIP
	if vt.Str(in["nettype"]) == "vpceni" {
		mode = daemon.ModeENIOnly
		pod.PodNetworkType = daemon.PodNetworkTypeVPCENI
	}
	_, svc4, _ := net.ParseCIDR("172.21.0.0/20")
	_, svc6, _ := net.ParseCIDR("fd00:21::/112")
	fk := &c12K8s{pod: pod, svc: &terwayTypes.IPNetSet{IPv4: svc4, IPv6: svc6}}

	backend, ipam := c12Backend(in)
	mgr := eni.NewManager(0, 0, 0, 0, []eni.NetworkInterface{backend}, daemon.EniSelectionPolicyMostIPs, nil)
	svc := terwaydaemon.VerifC12NewService(mode, fk, mgr, ipam, true, true)

	reply, err := svc.AllocIP(ctx, &rpc.AllocIPRequest{
		Netns: c12NetNS, K8SPodName: c12Pod, K8SPodNamespace: c12NS, K8SPodInfraContainerId: c12CID, IfName: "eth0",
	})
	if err != nil {
		out["err"] = "error: " + err.Error()
		return out
	}
	// the unix-socket hop: what the plugin sees is the decoded protobuf message
	wire, err := proto.Marshal(reply)
	if err != nil {
		panic(err)
	}
	got := &rpc.AllocIPReply{}
	if err = proto.Unmarshal(wire, got); err != nil {
		panic(err)
	}
	out["success"] = got.GetSuccess()
	out["iptype"] = c12IPTypeName(got.GetIPType())

	// the plugin side: CNI configuration on stdin, runtime arguments from the container runtime
	cf := vt.Map(in["conf"])
	stdin := vt.M{"cniVersion": "0.4.0", "name": "terway", "type": "terway"}
	if v := vt.Str(cf["vlan"]); v != "" {
		stdin["vlan_strip_type"] = v
	}
	bw := vt.M{}
	if v := vt.Int(cf["rtin"]); v != 0 {
		bw["ingressRate"], bw["ingressBurst"] = v, 2147483647
	}
	if v := vt.Int(cf["rtout"]); v != 0 {
		bw["egressRate"], bw["egressBurst"] = v, 2147483647
	}
	if len(bw) > 0 {
		stdin["runtimeConfig"] = vt.M{"bandwidth": bw}
	}
	raw, _ := json.Marshal(stdin)
	args := &skel.CmdArgs{
		ContainerID: c12CID, Netns: c12NetNS, IfName: "eth0", StdinData: raw,
		Args: fmt.Sprintf("IgnoreUnknown=1;K8S_POD_NAMESPACE=%s;K8S_POD_NAME=%s;K8S_POD_INFRA_CONTAINER_ID=%s", c12NS, c12Pod, c12CID),
	}
	cmdArgs, err := getCmdArgs(args)
	if err != nil {
		out["conferr"] = "error: " + err.Error()
		return out
	}
	defer cmdArgs.Close()
	conf := cmdArgs.GetCNIConf()

	nets, setups, downs := []vt.M{}, []vt.M{}, []vt.M{}
	for _, nc := range got.GetNetConfs() {
		nets = append(nets, c12NetOut(nc))
		direct := ""
		if p := vt.Catch(func() {
			direct = c12DPName(getDatePath(got.GetIPType(), conf.VlanStripType, nc.GetENIInfo().GetTrunk()))
		}); p != "" {
			direct = "panic: " + p
		}
		cfg, err := parseSetupConf(args, nc, conf, got.GetIPType())
		setups = append(setups, c12SetupOut(cfg, err, direct))
	}
	out["nets"], out["setups"] = nets, setups

	// DEL: the daemon answers GetIPInfo from what it stored at ADD
	info, err := svc.GetIPInfo(ctx, &rpc.GetInfoRequest{K8SPodName: c12Pod, K8SPodNamespace: c12NS, K8SPodInfraContainerId: c12CID})
	if err != nil {
		out["conferr"] = "getipinfo error: " + err.Error()
		return out
	}
	wire, err = proto.Marshal(info)
	if err != nil {
		panic(err)
	}
	gotInfo := &rpc.GetInfoReply{}
	if err = proto.Unmarshal(wire, gotInfo); err != nil {
		panic(err)
	}
	for _, nc := range gotInfo.GetNetConfs() {
		cfg, err := parseTearDownConf(nc, conf, gotInfo.GetIPType())
		downs = append(downs, c12DownOut(cfg, err))
	}
	out["downs"] = downs
	return out
}

func c12Addr(s string) netip.Addr { return netip.MustParseAddr(s) }

// TestVerifNetConf runs the real daemon and plugin code on every TLC-enumerated case of NetConf.tla.
func TestVerifNetConf(t *testing.T) {
	cases, err := vt.ReadNDJSON(vt.Env("VERIF_CASES", ""))
	if err != nil {
		t.Fatal(err)
	}
	w, err := vt.NewWriter(vt.Env("VERIF_RESULTS", ""))
	if err != nil {
		t.Fatal(err)
	}
	defer w.Close()
	for _, c := range cases {
		in := vt.Map(c["in"])
		out := vt.M{}
		handled := true
		p := vt.Catch(func() {
			switch vt.Str(in["fn"]) {
			case "add":
				out = c12Add(in)
			case "datapath":
				names := []string{}
				for k := 0; k < 3; k++ {
					names = append(names, c12DPName(getDatePath(c12IPType(vt.Str(in["iptype"])), types.VlanStripType(vt.Str(in["vlan"])), vt.Bool(in["trunk"]))))
					// an unrelated call in between: the answer may not depend on call history
					_ = getDatePath(rpc.IPType_TypeVPCENI, types.VlanStripTypeVlan, k%2 == 0)
				}
				out["dps"] = names
			default:
				handled = false
			}
		})
		if !handled {
			continue
		}
		w.Write(vt.M{"id": c["id"], "out": out, "panic": p})
	}
}
