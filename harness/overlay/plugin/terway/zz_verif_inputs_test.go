//go:build verif && linux

package main

import (
	"testing"

	"github.com/containernetworking/cni/pkg/skel"

	"github.com/AliyunContainerService/terway/plugin/driver/types"
	"github.com/AliyunContainerService/terway/rpc"
	"github.com/AliyunContainerService/terway/zzverif/inputstok"
	"github.com/AliyunContainerService/terway/zzverif/vt"
)

func verifIPSet(present bool, v4, v6 any) *rpc.IPSet {
	if !present {
		return nil
	}
	return &rpc.IPSet{IPv4: inputstok.Join(v4), IPv6: inputstok.Join(v6)}
}

func verifIPType(s string) rpc.IPType {
	if s == "VPCENI" {
		return rpc.IPType_TypeVPCENI
	}
	return rpc.IPType_TypeENIMultiIP
}

func verifBenignAlloc() *rpc.NetConf {
	return &rpc.NetConf{
		BasicInfo: &rpc.BasicInfo{
			PodIP:       &rpc.IPSet{IPv4: "10.0.0.5"},
			PodCIDR:     &rpc.IPSet{IPv4: "10.0.0.0/24"},
			GatewayIP:   &rpc.IPSet{IPv4: "10.0.0.253"},
			ServiceCIDR: &rpc.IPSet{IPv4: "172.16.0.0/16"},
		},
		ENIInfo: &rpc.ENIInfo{},
		Pod:     &rpc.Pod{},
	}
}

// TestVerifInputsPlugin runs the CNI plugin's input decoders (C15, specs/Inputs.tla):
// parseSetupConf on hostile rpc.NetConf values, and getCmdArgs on hostile CNI network configuration /
// CNI_ARGS followed by parseSetupConf with the decoded configuration.
func TestVerifInputsPlugin(t *testing.T) {
	inputstok.Run(t, map[string]func(in, out vt.M){
		"setupconf": func(in, out vt.M) {
			alloc := &rpc.NetConf{}
			if vt.Bool(in["basic"]) {
				alloc.BasicInfo = &rpc.BasicInfo{
					PodIP:       verifIPSet(vt.Bool(in["podip"]), in["podip4"], in["podip6"]),
					PodCIDR:     verifIPSet(vt.Bool(in["cidr"]), in["cidr4"], in["cidr6"]),
					GatewayIP:   verifIPSet(vt.Bool(in["gw"]), in["gw4"], in["gw6"]),
					ServiceCIDR: verifIPSet(vt.Bool(in["svc"]), in["svc4"], in["svc6"]),
				}
			}
			if vt.Bool(in["eni"]) {
				alloc.ENIInfo = &rpc.ENIInfo{
					MAC: inputstok.Join(in["mac"]), Trunk: vt.Bool(in["trunk"]), Vid: 7,
					GatewayIP: verifIPSet(vt.Bool(in["enigw"]), in["enigw4"], []any{}),
				}
			}
			if vt.Bool(in["pod"]) {
				alloc.Pod = &rpc.Pod{Ingress: 1, Egress: 1, NetworkPriority: inputstok.Join(in["prio"])}
			}
			for _, r := range vt.List(in["routes"]) {
				alloc.ExtraRoutes = append(alloc.ExtraRoutes, &rpc.Route{Dst: inputstok.Join(r)})
			}
			conf := &types.CNIConf{MTU: 1500, VlanStripType: types.VlanStripType(vt.Str(in["strip"]))}
			for _, c := range vt.List(in["hoststack"]) {
				conf.HostStackCIDRs = append(conf.HostStackCIDRs, inputstok.Join(c))
			}
			_, err := parseSetupConf(&skel.CmdArgs{IfName: "eth0"}, alloc, conf, verifIPType(vt.Str(in["iptype"])))
			out["err"] = err != nil
			out["done"] = true
		},
		"cniconf": func(in, out vt.M) {
			args := &skel.CmdArgs{ContainerID: "c", Netns: "/proc/self/ns/net", IfName: "eth0",
				Args: inputstok.Join(in["args"]), StdinData: []byte(inputstok.Join(in["stdin"]))}
			cmd, err := getCmdArgs(args)
			out["err"] = err != nil
			out["setuperr"] = false
			if err == nil {
				defer cmd.Close()
				_ = cmd.GetK8SConfig()
				_, err2 := parseSetupConf(args, verifBenignAlloc(), cmd.GetCNIConf(), rpc.IPType_TypeENIMultiIP)
				out["setuperr"] = err2 != nil
			}
			out["done"] = true
		},
	})
}
