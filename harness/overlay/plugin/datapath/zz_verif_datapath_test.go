//go:build verif && linux

package datapath

// C13 conformance harness (specs/Fib.tla, specs/Datapath.tla).
//
// Level 1 (TestVerifDatapathL1, no kernel): the generate*Cfg* functions of this package are called with
// SetupConfigs built from TLC-generated scenarios and with stub netlink.Link values; the resulting nic.Conf
// values are projected (addresses, routes, rules, neighbours, sysctls) into the trace.
//
// Level 2 (TestVerifDatapathL2, real kernel, must run inside `unshare -n`): the real PolicyRoute / ExclusiveENI
// Setup, utils.GenericTearDown and PolicyRoute.Teardown are run against private network namespaces with veth
// devices standing in for ENIs; rules/routes/links/addresses of every namespace are dumped after each step and,
// in the thorough tier, `ip route get` answers (netlink RouteGet) are logged next to the state.
//
// The harness only builds inputs, wires calls the way Setup / cmdAdd / cmdDel do, and projects outputs.

import (
	"context"
	"fmt"
	"net"
	"os"
	"runtime"
	"sort"
	"strings"
	"testing"

	cniTypes "github.com/containernetworking/cni/pkg/types"
	"github.com/containernetworking/plugins/pkg/ns"
	"github.com/vishvananda/netlink"
	"golang.org/x/sys/unix"

	"github.com/AliyunContainerService/terway/plugin/driver/nic"
	"github.com/AliyunContainerService/terway/plugin/driver/types"
	"github.com/AliyunContainerService/terway/plugin/driver/utils"
	terwayTypes "github.com/AliyunContainerService/terway/types"
	"github.com/AliyunContainerService/terway/zzverif/vt"
)

// ------------------------------------------------------------------------------------------------ scenarios

type dpStep struct {
	a                       string
	p, i, eni, extra, aset  int
	dp, fam, how            string
	def, multi, trunk, peer bool
	steal                   int  // > 0: the pod is given the address the (never torn down) veth pod of that slot still carries
	keep                    bool // the pod is given the address the previous pod of this slot held (possibly on another ENI now)
}

func dpStepOf(m vt.M) dpStep {
	return dpStep{a: vt.Str(m["a"]), p: vt.Int(m["p"]), i: vt.Int(m["i"]), eni: vt.Int(m["eni"]), extra: vt.Int(m["extra"]),
		aset: vt.Int(m["aset"]), dp: vt.Str(m["dp"]), fam: vt.Str(m["fam"]), how: vt.Str(m["how"]), def: vt.Bool(m["def"]),
		multi: vt.Bool(m["multi"]), trunk: vt.Bool(m["trunk"]), peer: vt.Bool(m["peer"]), keep: vt.Bool(m["keep"]), steal: vt.Int(m["steal"])}
}

// dpStepRec is the abstract scenario step as it came in (kept in the trace so that a recorded scenario can be driven again).
func dpStepRec(st dpStep) vt.M {
	return vt.M{"a": st.a, "p": st.p, "i": st.i, "dp": st.dp, "fam": st.fam, "eni": st.eni, "def": st.def, "multi": st.multi, "extra": st.extra,
		"trunk": st.trunk, "aset": st.aset, "peer": st.peer, "how": st.how, "keep": st.keep, "steal": st.steal}
}

func dpReadScenarios(t *testing.T) [][]dpStep {
	var scens [][]dpStep
	f := os.Getenv("VERIF_SCEN")
	if f == "" {
		return nil
	}
	b, err := os.ReadFile(f)
	if err != nil {
		t.Fatal(err)
	}
	for _, line := range strings.Split(string(b), "\n") {
		if strings.TrimSpace(line) == "" {
			continue
		}
		wrapped, err := vt.ReadNDJSONString(`{"s":` + line + `}`)
		if err != nil {
			t.Fatal(err)
		}
		var sc []dpStep
		for _, st := range vt.List(wrapped[0]["s"]) {
			sc = append(sc, dpStepOf(vt.Map(st)))
		}
		// one address plan per scenario: an ENI has one subnet and one gateway for all the pods on it
		for k := range sc {
			sc[k].aset = sc[0].aset
		}
		scens = append(scens, sc)
	}
	return scens
}

// ------------------------------------------------------------------------------------------------ address plan
//
// Addresses are data. A subnet belongs to a (stand-in) ENI; a pod interface gets host number 16*p+i+1 in the subnet of
// its ENI. aset 0..2 are fixed plans (ordinary; high addresses in a /25 and all-ones IPv6 host parts; zero bytes), aset >= 3
// are seeded random plans. Nothing overlaps the probe destinations of Datapath.tla (203.0.113.77, 2001:db8:ffff::77), the
// link-local stubs, the node's own subnet (10.88.0.0/24, fd88::/64), the service CIDRs or the extra-route destinations.

type dpSubnet struct {
	net4, net6 *net.IPNet
	gw4, gw6   net.IP
}

func dpMust(cidr string) *net.IPNet {
	_, n, err := net.ParseCIDR(cidr)
	if err != nil {
		panic(err)
	}
	return n
}

func dpLastMinus(n *net.IPNet, k int) net.IP {
	ip := make(net.IP, len(n.IP))
	for i := range ip {
		ip[i] = n.IP[i] | ^n.Mask[i]
	}
	ip[len(ip)-1] -= byte(k)
	return ip
}

func dpHostN(n *net.IPNet, k int) net.IP {
	ip := make(net.IP, len(n.IP))
	copy(ip, n.IP)
	ip[len(ip)-1] += byte(k)
	return ip
}

func dpPlan(aset, eni int) dpSubnet {
	var s dpSubnet
	switch aset {
	case 0:
		s.net4 = dpMust(fmt.Sprintf("10.%d.0.0/24", 10+eni))
		s.net6 = dpMust(fmt.Sprintf("fd00:10:%d::/64", eni))
	case 1:
		s.net4 = dpMust(fmt.Sprintf("172.31.%d.128/25", 250+eni))
		s.net6 = dpMust(fmt.Sprintf("2408:4005:3c5:4a0%d:ffff:ffff:ffff:ff00/120", eni))
	case 2:
		s.net4 = dpMust(fmt.Sprintf("10.%d.0.0/16", eni-1))
		s.net6 = dpMust(fmt.Sprintf("2001:db8:0:%d::/64", eni-1))
	default:
		r := vt.Rand(int64(aset) * 31)
		l4 := 16 + r.Intn(11)
		b := net.IPv4(byte(11+r.Intn(60)+eni), byte(r.Intn(256)), byte(r.Intn(256)), 0).To4()
		s.net4 = &net.IPNet{IP: b.Mask(net.CIDRMask(l4, 32)), Mask: net.CIDRMask(l4, 32)}
		l6 := 48 + 8*r.Intn(10)
		b6 := make(net.IP, 16)
		b6[0], b6[1], b6[2], b6[3], b6[4], b6[5], b6[6], b6[7] = 0xfd, byte(0x40+r.Intn(0x40)), byte(r.Intn(256)), byte(r.Intn(256)), byte(r.Intn(256)), byte(r.Intn(256)), byte(r.Intn(256)), byte(eni)
		for k := 8; k < 15; k++ {
			b6[k] = byte(r.Intn(256))
		}
		s.net6 = &net.IPNet{IP: b6.Mask(net.CIDRMask(l6, 128)), Mask: net.CIDRMask(l6, 128)}
	}
	s.gw4, s.gw6 = dpLastMinus(s.net4, 2), dpLastMinus(s.net6, 2)
	return s
}

var (
	dpHost4   = &net.IPNet{IP: net.ParseIP("10.88.0.10"), Mask: net.CIDRMask(32, 32)}
	dpHost6   = &net.IPNet{IP: net.ParseIP("fd88::10"), Mask: net.CIDRMask(128, 128)}
	dpSvc4    = dpMust("172.21.0.0/20")
	dpSvc6    = dpMust("fd21::/112")
	dpTrunkGw = &terwayTypes.IPSet{IPv4: net.ParseIP("10.99.0.253"), IPv6: net.ParseIP("fd99::fffd")}
)

// dpConfig builds the SetupConfig the CNI would hand to the datapath for this step (the fields parseSetupConf and cmdAdd fill in).
// addr, when not nil, is an address handed over from an earlier pod: the families and the addresses are taken from it, the gateway
// and everything else from the ENI of this step.
func dpConfig(st dpStep, eniIndex int, addr *terwayTypes.IPNetSet) *types.SetupConfig {
	sub := dpPlan(st.aset, st.eni)
	v4, v6 := st.fam != "v6", st.fam != "v4"
	if addr != nil {
		v4, v6 = addr.IPv4 != nil, addr.IPv6 != nil
	}
	k := 16*st.p + st.i + 1
	cfg := &types.SetupConfig{
		HostVETHName:    fmt.Sprintf("cali%02d%02d", st.p, st.i),
		ContainerIfName: fmt.Sprintf("eth%d", st.i),
		ContainerIPNet:  &terwayTypes.IPNetSet{},
		GatewayIP:       &terwayTypes.IPSet{},
		MTU:             1500,
		ENIIndex:        eniIndex,
		StripVlan:       st.trunk,
		DefaultRoute:    st.def,
		MultiNetwork:    st.multi,
		ServiceCIDR:     &terwayTypes.IPNetSet{},
		HostIPSet:       &terwayTypes.IPNetSet{},
	}
	cfg.DisableCreatePeer = !st.peer
	if st.trunk {
		cfg.Vid = 100 + st.p
		cfg.ENIGatewayIP = &terwayTypes.IPSet{}
	}
	if v4 {
		// parseSetupConf / BuildIPNet hand over the 16-byte form net.ParseIP produces
		cfg.ContainerIPNet.IPv4 = &net.IPNet{IP: net.ParseIP(dpHostN(sub.net4, k).String()), Mask: sub.net4.Mask}
		if addr != nil {
			cfg.ContainerIPNet.IPv4 = addr.IPv4
		}
		cfg.GatewayIP.IPv4 = net.ParseIP(sub.gw4.String())
		cfg.ServiceCIDR.IPv4 = dpSvc4
		cfg.HostIPSet.IPv4 = dpHost4
		cfg.HostStackCIDRs = append(cfg.HostStackCIDRs, dpMust("169.254.20.10/32")) // operator configuration: only for an enabled family
		if st.trunk {
			cfg.ENIGatewayIP.IPv4 = dpTrunkGw.IPv4
		}
	}
	if v6 {
		cfg.ContainerIPNet.IPv6 = &net.IPNet{IP: dpHostN(sub.net6, k), Mask: sub.net6.Mask}
		if addr != nil {
			cfg.ContainerIPNet.IPv6 = addr.IPv6
		}
		cfg.GatewayIP.IPv6 = sub.gw6
		cfg.ServiceCIDR.IPv6 = dpSvc6
		cfg.HostIPSet.IPv6 = dpHost6
		cfg.HostStackCIDRs = append(cfg.HostStackCIDRs, dpMust("fd20::10/128"))
		if st.trunk {
			cfg.ENIGatewayIP.IPv6 = dpTrunkGw.IPv6
		}
	}
	// extra routes: the gateway is the pod gateway of the route's family (parseSetupConf); only enabled families
	if st.extra >= 1 {
		if v4 {
			cfg.ExtraRoutes = append(cfg.ExtraRoutes, cniTypes.Route{Dst: *dpMust("100.100.0.0/16"), GW: cfg.GatewayIP.IPv4})
		}
		if v6 {
			cfg.ExtraRoutes = append(cfg.ExtraRoutes, cniTypes.Route{Dst: *dpMust("fdee:1::/64"), GW: cfg.GatewayIP.IPv6})
		}
	}
	if st.extra >= 2 && v4 {
		cfg.ExtraRoutes = append(cfg.ExtraRoutes, cniTypes.Route{Dst: *dpMust("100.64.0.0/10"), GW: cfg.GatewayIP.IPv4})
	}
	switch st.dp {
	case "policy":
		cfg.DP = types.PolicyRoute
	case "ipvlan":
		cfg.DP = types.IPVlan
	case "exclusive":
		cfg.DP = types.ExclusiveENI
	case "vlan":
		cfg.DP = types.Vlan
		cfg.Vid = 100 + st.p
	}
	return cfg
}

// ------------------------------------------------------------------------------------------------ projection

func dpIP(ip net.IP) []int {
	if ip == nil {
		return []int{}
	}
	if v4 := ip.To4(); v4 != nil {
		return vt.Ints(v4)
	}
	return vt.Ints(ip.To16())
}

func dpZero(fam int) []int {
	if fam == 4 {
		return make([]int, 4)
	}
	return make([]int, 16)
}

// dpNet projects a prefix; nil means "no prefix".
func dpNet(n *net.IPNet) vt.M {
	if n == nil {
		return vt.M{"ip": []int{}, "len": 0}
	}
	ones, _ := n.Mask.Size()
	return vt.M{"ip": dpIP(n.IP), "len": ones}
}

// dpDst projects a route destination; nil is the default route of the given family.
func dpDst(n *net.IPNet, fam int) vt.M {
	if n == nil {
		return vt.M{"ip": dpZero(fam), "len": 0}
	}
	return dpNet(n)
}

func dpScope(s netlink.Scope) string {
	switch s {
	case netlink.SCOPE_UNIVERSE:
		return "universe"
	case netlink.SCOPE_SITE:
		return "site"
	case netlink.SCOPE_LINK:
		return "link"
	case netlink.SCOPE_HOST:
		return "host"
	case netlink.SCOPE_NOWHERE:
		return "nowhere"
	}
	return fmt.Sprintf("scope%d", int(s))
}

func dpType(t int) string {
	switch t {
	case 0, unix.RTN_UNICAST:
		return "unicast"
	case unix.RTN_LOCAL:
		return "local"
	case unix.RTN_BROADCAST:
		return "broadcast"
	case unix.RTN_ANYCAST:
		return "anycast"
	case unix.RTN_MULTICAST:
		return "multicast"
	case unix.RTN_BLACKHOLE:
		return "blackhole"
	case unix.RTN_UNREACHABLE:
		return "unreachable"
	case unix.RTN_PROHIBIT:
		return "prohibit"
	}
	return fmt.Sprintf("type%d", t)
}

func dpProto(p int, written bool) string {
	switch p {
	case 0:
		if written {
			return "boot" // netlink.RouteReplace sends RTPROT_BOOT for an unset protocol
		}
		return "unspec"
	case unix.RTPROT_KERNEL:
		return "kernel"
	case unix.RTPROT_BOOT:
		return "boot"
	case unix.RTPROT_STATIC:
		return "static"
	case unix.RTPROT_RA:
		return "ra"
	}
	return fmt.Sprintf("proto%d", p)
}

func dpTable(t int) int {
	if t == 0 {
		return unix.RT_TABLE_MAIN // an unset table is the main table for the kernel
	}
	return t
}

func dpFamOfNet(n *net.IPNet, dflt int) int {
	if n == nil {
		return dflt
	}
	if n.IP.To4() != nil {
		return 4
	}
	return 6
}

// dpRoute projects a route. written = the route is about to be written (nic.Conf), not read back from the kernel.
func dpRoute(r *netlink.Route, fam int, dev func(int) string, written bool) vt.M {
	f := fam
	if r.Dst != nil {
		f = dpFamOfNet(r.Dst, fam)
	} else if r.Gw != nil {
		if r.Gw.To4() != nil {
			f = 4
		} else {
			f = 6
		}
	}
	return vt.M{"table": dpTable(r.Table), "dst": dpDst(r.Dst, f), "dev": dev(r.LinkIndex), "gw": dpIP(r.Gw), "scope": dpScope(r.Scope),
		"metric": r.Priority, "type": dpType(r.Type), "proto": dpProto(int(r.Protocol), written), "onlink": r.Flags&int(netlink.FLAG_ONLINK) != 0}
}

func dpRule(r *netlink.Rule, fam int) vt.M {
	f := fam
	if r.Src != nil {
		f = dpFamOfNet(r.Src, fam)
	} else if r.Dst != nil {
		f = dpFamOfNet(r.Dst, fam)
	} else if r.Family == netlink.FAMILY_V6 {
		f = 6
	} else if r.Family == netlink.FAMILY_V4 {
		f = 4
	}
	proto := "boot"
	if r.Src == nil && r.Dst == nil && r.IifName == "" && r.OifName == "" && (r.Priority <= 0 || r.Priority == 32766 || r.Priority == 32767) {
		proto = "kernel"
	}
	prio := r.Priority
	if prio < 0 {
		prio = 0 // the kernel omits the priority attribute of the priority-0 rule; netlink.NewRule's default is -1
	}
	return vt.M{"fam": f, "prio": prio, "src": dpNet(r.Src), "dst": dpNet(r.Dst), "iif": r.IifName, "oif": r.OifName,
		"table": dpTable(r.Table), "proto": proto}
}

func dpSysctlKeys(m map[string][]string) []vt.M {
	keys := []string{}
	for _, v := range m {
		keys = append(keys, strings.Join(v, "="))
	}
	sort.Strings(keys)
	out := []vt.M{}
	for _, k := range keys {
		fam := 0
		if strings.Contains(k, "/net/ipv6/") {
			fam = 6
		} else if strings.Contains(k, "/net/ipv4/") {
			fam = 4
		}
		out = append(out, vt.M{"key": k, "fam": fam})
	}
	return out
}

// dpConf projects a nic.Conf that is applied to link `l` (name after the rename nic.Setup performs) in namespace nsID.
func dpConf(nsID int, l netlink.Link, c *nic.Conf, dev func(int) string) vt.M {
	name := l.Attrs().Name
	if c.IfName != "" {
		name = c.IfName
	}
	addrs, routes, rules, neighs := []vt.M{}, []vt.M{}, []vt.M{}, []vt.M{}
	for _, a := range c.Addrs {
		n := dpNet(a.IPNet)
		n["scope"] = dpScope(netlink.Scope(a.Scope))
		addrs = append(addrs, n)
	}
	devf := func(idx int) string {
		if idx == l.Attrs().Index {
			return name
		}
		return dev(idx)
	}
	for _, r := range c.Routes {
		routes = append(routes, dpRoute(r, 4, devf, true))
	}
	for _, r := range c.Rules {
		rules = append(rules, dpRule(r, 4))
	}
	for _, n := range c.Neighs {
		neighs = append(neighs, vt.M{"dev": devf(n.LinkIndex), "ip": dpIP(n.IP), "mac": n.HardwareAddr.String()})
	}
	return vt.M{"ns": nsID, "dev": name, "idx": l.Attrs().Index, "addrs": addrs, "routes": routes, "rules": rules, "neighs": neighs,
		"sysctl": dpSysctlKeys(c.SysCtl), "strip": c.StripVlan, "mtu": c.MTU}
}

func dpDPName(d types.DataPath) string {
	switch d {
	case types.PolicyRoute:
		return "policy"
	case types.IPVlan:
		return "ipvlan"
	case types.ExclusiveENI:
		return "exclusive"
	case types.Vlan:
		return "vlan"
	}
	return "other"
}

func dpNetIP(n *net.IPNet) []int {
	if n == nil {
		return []int{}
	}
	return dpIP(n.IP)
}

func dpNetLen(n *net.IPNet) int {
	if n == nil {
		return 0
	}
	ones, _ := n.Mask.Size()
	return ones
}

// dpCfgRec projects the SetupConfig (the input of the step) for the specification.
func dpCfgRec(st dpStep, cfg *types.SetupConfig, eniName, slave string) vt.M {
	extra := []vt.M{}
	for i := range cfg.ExtraRoutes {
		extra = append(extra, vt.M{"ip": dpIP(cfg.ExtraRoutes[i].Dst.IP), "len": dpNetLen(&cfg.ExtraRoutes[i].Dst), "gw": dpIP(cfg.ExtraRoutes[i].GW)})
	}
	egw := cfg.ENIGatewayIP
	if egw == nil {
		egw = &terwayTypes.IPSet{}
	}
	return vt.M{"att": 2*(st.p-1) + st.i + 1, "pod": st.p, "dp": dpDPName(cfg.DP), "ifname": cfg.ContainerIfName, "hostveth": cfg.HostVETHName,
		"eni": eniName, "slave": slave,
		"ip4": dpNetIP(cfg.ContainerIPNet.IPv4), "len4": dpNetLen(cfg.ContainerIPNet.IPv4), "ip6": dpNetIP(cfg.ContainerIPNet.IPv6), "len6": dpNetLen(cfg.ContainerIPNet.IPv6),
		"gw4": dpIP(cfg.GatewayIP.IPv4), "gw6": dpIP(cfg.GatewayIP.IPv6), "egw4": dpIP(egw.IPv4), "egw6": dpIP(egw.IPv6),
		"strip": cfg.StripVlan, "defroute": cfg.DefaultRoute, "multi": cfg.MultiNetwork, "peer": !cfg.DisableCreatePeer, "extra": extra,
		"host4": dpNetIP(cfg.HostIPSet.IPv4), "host6": dpNetIP(cfg.HostIPSet.IPv6), "aset": st.aset, "enigone": false, "superseded": false}
}

func dpLinkRec(nsID int, l netlink.Link, name string, kind string, peer int) vt.M {
	return vt.M{"ns": nsID, "name": name, "idx": l.Attrs().Index, "kind": kind, "peer": peer, "mac": l.Attrs().HardwareAddr.String()}
}

// ------------------------------------------------------------------------------------------------ level 1

type dpStubWorld struct {
	hostNext int
	podNext  map[int]int
	names    map[int]map[int]string // ns -> ifindex -> name
	enis     map[int]netlink.Link   // shared stand-in ENIs by number
	slaves   map[int]netlink.Link   // ipvlan slave per ENI index
}

func dpMAC(a, b int) net.HardwareAddr { return net.HardwareAddr{0x02, 0x42, 0, 0, byte(a), byte(b)} }

func newStubWorld() *dpStubWorld {
	w := &dpStubWorld{hostNext: 5, podNext: map[int]int{}, names: map[int]map[int]string{0: {1: "lo", 2: "eth0"}}, enis: map[int]netlink.Link{},
		slaves: map[int]netlink.Link{}}
	for e := 1; e <= 2; e++ {
		l := &netlink.Device{LinkAttrs: netlink.LinkAttrs{Name: fmt.Sprintf("eth%d", e), Index: 2 + e, MTU: 1500, HardwareAddr: dpMAC(0, e)}}
		w.enis[e] = l
		w.names[0][l.Index] = l.Name
	}
	return w
}

func (w *dpStubWorld) dev(nsID int) func(int) string {
	return func(idx int) string {
		if n, ok := w.names[nsID][idx]; ok {
			return n
		}
		return fmt.Sprintf("if%d", idx)
	}
}

func (w *dpStubWorld) newIdx(nsID int) int {
	if nsID == 0 {
		w.hostNext++
		return w.hostNext - 1
	}
	if w.podNext[nsID] == 0 {
		w.podNext[nsID] = 2
		w.names[nsID] = map[int]string{1: "lo"}
	}
	w.podNext[nsID]++
	return w.podNext[nsID] - 1
}

// dpInitialDump is the synthesized state of the stub world before any pod: a node with eth0 (own address, default routes) and two ENIs.
func dpInitialDump(nPods int) []vt.M {
	base := func(nsID int) vt.M {
		rules := []vt.M{}
		for _, f := range []int{4, 6} {
			rules = append(rules, dpRule(&netlink.Rule{Priority: 0, Table: unix.RT_TABLE_LOCAL}, f), dpRule(&netlink.Rule{Priority: 32766, Table: unix.RT_TABLE_MAIN}, f))
		}
		rules = append(rules, dpRule(&netlink.Rule{Priority: 32767, Table: unix.RT_TABLE_DEFAULT}, 4))
		return vt.M{"ns": nsID, "links": []vt.M{{"name": "lo", "idx": 1, "kind": "device", "peer": 0, "mac": ""}}, "addrs": []vt.M{}, "rules": rules, "routes": []vt.M{}, "neighs": []vt.M{}}
	}
	host := base(0)
	links := host["links"].([]vt.M)
	links = append(links, vt.M{"name": "eth0", "idx": 2, "kind": "device", "peer": 0, "mac": dpMAC(0, 0).String()},
		vt.M{"name": "eth1", "idx": 3, "kind": "device", "peer": 0, "mac": dpMAC(0, 1).String()},
		vt.M{"name": "eth2", "idx": 4, "kind": "device", "peer": 0, "mac": dpMAC(0, 2).String()})
	host["links"] = links
	dev := func(int) string { return "eth0" }
	n4, n6 := dpMust("10.88.0.0/24"), dpMust("fd88::/64")
	host["addrs"] = []vt.M{{"dev": "eth0", "ip": dpIP(dpHost4.IP), "len": 24, "scope": "universe"}, {"dev": "eth0", "ip": dpIP(dpHost6.IP), "len": 64, "scope": "universe"}}
	host["routes"] = []vt.M{
		dpRoute(&netlink.Route{LinkIndex: 2, Dst: n4, Scope: netlink.SCOPE_LINK, Protocol: unix.RTPROT_KERNEL}, 4, dev, false),
		dpRoute(&netlink.Route{LinkIndex: 2, Dst: n6, Priority: 256, Protocol: unix.RTPROT_KERNEL}, 6, dev, false),
		dpRoute(&netlink.Route{LinkIndex: 2, Gw: net.ParseIP("10.88.0.253"), Protocol: unix.RTPROT_BOOT}, 4, dev, false),
		dpRoute(&netlink.Route{LinkIndex: 2, Gw: net.ParseIP("fd88::fffd"), Priority: 1024, Protocol: unix.RTPROT_BOOT}, 6, dev, false),
		dpRoute(&netlink.Route{LinkIndex: 2, Dst: dpHost4, Table: unix.RT_TABLE_LOCAL, Type: unix.RTN_LOCAL, Scope: netlink.SCOPE_HOST, Protocol: unix.RTPROT_KERNEL}, 4, dev, false),
		dpRoute(&netlink.Route{LinkIndex: 2, Dst: dpHost6, Table: unix.RT_TABLE_LOCAL, Type: unix.RTN_LOCAL, Protocol: unix.RTPROT_KERNEL}, 6, dev, false),
	}
	out := []vt.M{host}
	for p := 1; p <= nPods; p++ {
		out = append(out, base(p))
	}
	return out
}

// dpSetupL1 calls the generators the way the Setup function of the datapath does and returns the projected links and configurations.
func (w *dpStubWorld) setupL1(st dpStep) (cfgRec vt.M, links []vt.M, confs []vt.M) {
	eni := w.enis[st.eni]
	cfg := dpConfig(st, eni.Attrs().Index, nil)
	pod := st.p
	slaveName := ""
	switch st.dp {
	case "policy":
		// PolicyRoute.Setup: veth pair, container side configured in the pod, then the ENI, then the host peer
		ci, hi := w.newIdx(pod), w.newIdx(0)
		cont := &netlink.Veth{LinkAttrs: netlink.LinkAttrs{Name: cfg.ContainerIfName, Index: ci, MTU: cfg.MTU, HardwareAddr: dpMAC(pod, ci)}}
		hostVeth := &netlink.Veth{LinkAttrs: netlink.LinkAttrs{Name: cfg.HostVETHName, Index: hi, MTU: cfg.MTU, HardwareAddr: dpMAC(100+pod, hi)}}
		w.names[pod][ci], w.names[0][hi] = cont.Name, hostVeth.Name
		links = append(links, dpLinkRec(pod, cont, cont.Name, "veth", hi), dpLinkRec(0, hostVeth, hostVeth.Name, "veth", ci))
		table := utils.GetRouteTableID(eni.Attrs().Index)
		confs = append(confs,
			dpConf(pod, cont, generateContCfgForPolicy(cfg, cont, hostVeth.Attrs().HardwareAddr), w.dev(pod)),
			dpConf(0, eni, GenerateENICfgForPolicy(cfg, eni, table), w.dev(0)),
			dpConf(0, hostVeth, GenerateHostPeerCfgForPolicy(cfg, hostVeth, table), w.dev(0)))
	case "ipvlan":
		// IPvlanDriver.Setup: parent, ipvlan slave in the pod, ipvl_<n> slave in the host namespace
		confs = append(confs, dpConf(0, eni, generateENICfgForIPVlan(cfg, eni), w.dev(0)))
		ci := w.newIdx(pod)
		cont := &netlink.IPVlan{LinkAttrs: netlink.LinkAttrs{Name: cfg.ContainerIfName, Index: ci, MTU: cfg.MTU, ParentIndex: eni.Attrs().Index, HardwareAddr: eni.Attrs().HardwareAddr}}
		w.names[pod][ci] = cont.Name
		links = append(links, dpLinkRec(pod, cont, cont.Name, "ipvlan", 0))
		confs = append(confs, dpConf(pod, cont, generateContCfgForIPVlan(cfg, cont), w.dev(pod)))
		slave, ok := w.slaves[eni.Attrs().Index]
		if !ok {
			si := w.newIdx(0)
			slave = &netlink.IPVlan{LinkAttrs: netlink.LinkAttrs{Name: (&IPvlanDriver{}).initSlaveName(eni.Attrs().Index), Index: si, MTU: cfg.MTU, ParentIndex: eni.Attrs().Index}}
			w.slaves[eni.Attrs().Index] = slave
			w.names[0][si] = slave.Attrs().Name
		}
		slaveName = slave.Attrs().Name
		links = append(links, dpLinkRec(0, slave, slaveName, "ipvlan", 0))
		confs = append(confs, dpConf(0, slave, generateSlaveLinkCfgForIPVlan(cfg, slave), w.dev(0)))
	case "exclusive":
		// ExclusiveENI.Setup: the ENI itself moves into the pod (one dedicated stand-in per attachment), optional veth1/host peer for eth0
		hi := w.newIdx(0)
		ded := &netlink.Device{LinkAttrs: netlink.LinkAttrs{Name: fmt.Sprintf("eni%d%d", st.p, st.i), Index: hi, MTU: 1500, HardwareAddr: dpMAC(50+pod, hi)}}
		cfg.ENIIndex = hi
		ci := w.newIdx(pod)
		moved := &netlink.Device{LinkAttrs: netlink.LinkAttrs{Name: ded.Name, Index: ci, MTU: 1500, HardwareAddr: ded.HardwareAddr}}
		w.names[pod][ci] = cfg.ContainerIfName
		links = append(links, dpLinkRec(pod, moved, cfg.ContainerIfName, "device", 0))
		confs = append(confs, dpConf(pod, moved, generateContCfgForExclusiveENI(cfg, moved), w.dev(pod)))
		eni = ded
		if !cfg.DisableCreatePeer && cfg.ContainerIfName == "eth0" {
			vi, ph := w.newIdx(pod), w.newIdx(0)
			veth1 := &netlink.Veth{LinkAttrs: netlink.LinkAttrs{Name: defaultVethForENI, Index: vi, MTU: cfg.MTU, HardwareAddr: dpMAC(pod, vi)}}
			hostPeer := &netlink.Veth{LinkAttrs: netlink.LinkAttrs{Name: cfg.HostVETHName, Index: ph, MTU: cfg.MTU, HardwareAddr: dpMAC(100+pod, ph)}}
			w.names[pod][vi], w.names[0][ph] = veth1.Name, hostPeer.Name
			links = append(links, dpLinkRec(pod, veth1, veth1.Name, "veth", ph), dpLinkRec(0, hostPeer, hostPeer.Name, "veth", vi))
			confs = append(confs, dpConf(pod, veth1, generateVeth1Cfg(cfg, veth1, hostPeer.Attrs().HardwareAddr), w.dev(pod)),
				dpConf(0, hostPeer, generateHostSlaveCfg(cfg, hostPeer), w.dev(0)))
		}
	case "vlan":
		// Vlan.Setup: trunk ENI, vlan sub-interface in the pod
		confs = append(confs, dpConf(0, eni, generateENICfgForVlan(cfg), w.dev(0)))
		ci := w.newIdx(pod)
		cont := &netlink.Vlan{LinkAttrs: netlink.LinkAttrs{Name: cfg.ContainerIfName, Index: ci, MTU: cfg.MTU, ParentIndex: eni.Attrs().Index, HardwareAddr: eni.Attrs().HardwareAddr}, VlanId: cfg.Vid}
		w.names[pod][ci] = cont.Name
		links = append(links, dpLinkRec(pod, cont, cont.Name, "vlan", 0))
		confs = append(confs, dpConf(pod, cont, generateContCfgForVlan(cfg, cont), w.dev(pod)))
	}
	return dpCfgRec(st, cfg, eni.Attrs().Name, slaveName), links, confs
}

// dpRandomScenarios adds seeded random scenarios over the same alphabet as the TLC-generated ones (random address plans included).
func dpRandomScenarios(n int, level int) [][]dpStep {
	rng := vt.Rand(int64(1300 + level))
	var out [][]dpStep
	dps := []string{"policy", "ipvlan", "exclusive", "vlan"}
	if level == 2 {
		dps = []string{"policy", "policy", "exclusive"}
	}
	fams := []string{"v4", "v6", "dual"}
	for k := 0; k < n; k++ {
		var sc []dpStep
		aset := 3 + rng.Intn(1000)
		fam := fams[rng.Intn(3)]
		live := map[int]bool{}
		// an ENI is a trunk or it is not: the pods sharing it agree (trunk needs tc actions: level 1 only)
		trunkENI := map[int]bool{1: level == 1 && rng.Intn(3) == 0, 2: level == 1 && rng.Intn(3) == 0}
		steps := 3 + rng.Intn(5)
		for j := 0; j < steps; j++ {
			if level == 2 && len(live) > 0 && rng.Intn(6) == 0 {
				sc = append(sc, dpStep{a: "enigone", eni: 1 + rng.Intn(2)})
				continue
			}
			p := 1 + rng.Intn(3)
			if live[p] && (level == 2 || rng.Intn(3) == 0) {
				if level == 2 {
					sc = append(sc, dpStep{a: "teardown", p: p, how: []string{"cni", "dp", "generic", "generic"}[rng.Intn(4)]})
					delete(live, p)
				}
				continue
			}
			if live[p] {
				continue
			}
			dp := dps[rng.Intn(len(dps))]
			multi := rng.Intn(3) == 0
			e := 1 + rng.Intn(2)
			st := dpStep{a: "setup", p: p, i: 0, dp: dp, fam: fam, eni: e, def: true, multi: multi, extra: rng.Intn(3), aset: aset, peer: rng.Intn(4) != 0,
				keep: level == 2 && rng.Intn(2) == 0}
			if level == 2 && rng.Intn(4) == 0 {
				st.steal = 1 + rng.Intn(3)
			}
			st.trunk = (dp == "policy" || dp == "ipvlan") && trunkENI[e]
			sc = append(sc, st)
			if multi {
				st2 := st
				st2.i, st2.def, st2.eni = 1, false, 3-st.eni
				st2.trunk = (dp == "policy" || dp == "ipvlan") && trunkENI[st2.eni]
				if dp == "exclusive" {
					st2.peer = false
				}
				sc = append(sc, st2)
			}
			live[p] = true
		}
		out = append(out, sc)
	}
	return out
}

// TestVerifDatapathL1 projects what the configuration generators produce for every scenario step.
func TestVerifDatapathL1(t *testing.T) {
	w, err := vt.NewWriter(vt.Env("VERIF_TRACE", ""))
	if err != nil {
		t.Fatal(err)
	}
	defer w.Close()
	scens := append(dpReadScenarios(t), dpRandomScenarios(vt.EnvInt("VERIF_RANDOM", 20), 1)...)
	for si, sc := range scens {
		world := newStubWorld()
		w.Emit(vt.M{"ev": "reset", "scen": si, "level": 1, "dump": dpInitialDump(3)})
		done := map[[2]int]bool{}
		for _, st := range sc {
			// teardown is imperative code (level 2): here a pod is set up once per scenario and later steps for it are skipped
			if st.a != "setup" || done[[2]int{st.p, st.i}] || (st.i == 0 && done[[2]int{st.p, 1}]) || (st.i == 1 && !done[[2]int{st.p, 0}]) {
				if st.a == "teardown" {
					done[[2]int{st.p, 1}] = true // no second interface after the pod was (notionally) torn down
				}
				continue
			}
			done[[2]int{st.p, st.i}] = true
			var cfgRec vt.M
			var links, confs []vt.M
			p := vt.Catch(func() { cfgRec, links, confs = world.setupL1(st) })
			if p != "" {
				w.Emit(vt.M{"ev": "panic", "step": fmt.Sprintf("%+v", st), "panic": p})
				break
			}
			w.Emit(vt.M{"ev": "setup_c", "step": dpStepRec(st), "cfg": cfgRec, "links": links, "confs": confs})
		}
	}
}

// ------------------------------------------------------------------------------------------------ level 2 (real kernel)

// dpNewNS creates a fresh network namespace and returns a handle that stays valid after the creating thread is gone.
func dpNewNS() (ns.NetNS, error) {
	type res struct {
		n   ns.NetNS
		err error
	}
	ch := make(chan res, 1)
	go func() {
		runtime.LockOSThread() // never unlocked: the thread is discarded with the goroutine
		if err := unix.Unshare(unix.CLONE_NEWNET); err != nil {
			ch <- res{nil, err}
			return
		}
		n, err := ns.GetNS(fmt.Sprintf("/proc/%d/task/%d/ns/net", os.Getpid(), unix.Gettid()))
		ch <- res{n, err}
	}()
	r := <-ch
	return r.n, r.err
}

func dpKind(l netlink.Link) string {
	switch l.(type) {
	case *netlink.Device:
		return "device"
	}
	return l.Type()
}

// dpDumpNS dumps links, addresses, rules, routes of all tables and permanent neighbours of the current namespace.
func dpDumpNS(nsID int) (vt.M, error) {
	links, err := netlink.LinkList()
	if err != nil {
		return nil, err
	}
	names := map[int]string{}
	lrec := []vt.M{}
	for _, l := range links {
		names[l.Attrs().Index] = l.Attrs().Name
		peer := 0
		if _, ok := l.(*netlink.Veth); ok {
			peer = l.Attrs().ParentIndex
		}
		lrec = append(lrec, vt.M{"name": l.Attrs().Name, "idx": l.Attrs().Index, "kind": dpKind(l), "peer": peer, "mac": l.Attrs().HardwareAddr.String()})
	}
	dev := func(idx int) string {
		if n, ok := names[idx]; ok {
			return n
		}
		if idx == 0 {
			return ""
		}
		return fmt.Sprintf("if%d", idx)
	}
	addrs, rules, routes, neighs := []vt.M{}, []vt.M{}, []vt.M{}, []vt.M{}
	for _, l := range links {
		al, err := netlink.AddrList(l, netlink.FAMILY_ALL)
		if err != nil {
			return nil, err
		}
		for _, a := range al {
			n := dpNet(a.IPNet)
			n["dev"], n["scope"] = l.Attrs().Name, dpScope(netlink.Scope(a.Scope))
			addrs = append(addrs, n)
		}
	}
	for _, fam := range []int{4, 6} {
		nf := netlink.FAMILY_V4
		if fam == 6 {
			nf = netlink.FAMILY_V6
		}
		rl, err := netlink.RuleList(nf)
		if err != nil {
			return nil, err
		}
		for i := range rl {
			rules = append(rules, dpRule(&rl[i], fam))
		}
		rt, err := netlink.RouteListFiltered(nf, &netlink.Route{Table: unix.RT_TABLE_UNSPEC}, netlink.RT_FILTER_TABLE)
		if err != nil {
			return nil, err
		}
		for i := range rt {
			routes = append(routes, dpRoute(&rt[i], fam, dev, false))
		}
		nl, err := netlink.NeighList(0, nf)
		if err != nil {
			return nil, err
		}
		for _, n := range nl {
			if n.State&netlink.NUD_PERMANENT == 0 {
				continue
			}
			neighs = append(neighs, vt.M{"dev": dev(n.LinkIndex), "ip": dpIP(n.IP), "mac": n.HardwareAddr.String()})
		}
	}
	return vt.M{"ns": nsID, "links": lrec, "addrs": addrs, "rules": rules, "routes": routes, "neighs": neighs}, nil
}

type dpPod struct {
	ns     ns.NetNS
	steps  []dpStep // attachments whose Setup succeeded
	cfgs   []*types.SetupConfig
	recs   []vt.M
	superseded bool             // its address was handed to another pod: the pod is gone, only its late (fallback) DEL is to come
	failed []*types.SetupConfig // policy-route attachments whose Setup failed: DEL still tears them down
}

type dpRealWorld struct {
	t      *testing.T
	host   ns.NetNS
	world  ns.NetNS
	pods   map[int]*dpPod
	eniIdx map[int]int // shared stand-in ENIs: number -> ifindex in the host namespace
	nDed   int
	eniGone map[int]bool                 // shared stand-in ENIs that were deleted ("detached") during the scenario
	freed  map[int]*terwayTypes.IPNetSet // pod slot -> address of the slot's last pod (first interface), after its teardown
}

func (rw *dpRealWorld) must(err error, what string) {
	if err != nil {
		rw.t.Fatalf("%s: %v", what, err)
	}
}

// addENI creates a veth standing in for an ENI (peer end in the "world" namespace) and brings it up.
func (rw *dpRealWorld) addENI(name string) int {
	peer := "w" + name
	rw.must(netlink.LinkAdd(&netlink.Veth{LinkAttrs: netlink.LinkAttrs{Name: name, MTU: 1500}, PeerName: peer}), "add "+name)
	pl, err := netlink.LinkByName(peer)
	rw.must(err, "peer of "+name)
	rw.must(netlink.LinkSetNsFd(pl, int(rw.world.Fd())), "move peer of "+name)
	_ = rw.world.Do(func(ns.NetNS) error {
		l, err := netlink.LinkByName(peer)
		if err == nil {
			err = netlink.LinkSetUp(l)
		}
		rw.must(err, "peer up "+name)
		return nil
	})
	l, err := netlink.LinkByName(name)
	rw.must(err, "get "+name)
	rw.must(netlink.LinkSetUp(l), "up "+name)
	return l.Attrs().Index
}

// newRealWorld turns the (private) namespace the test runs in into a node: lo, eth0 with the node addresses and default routes, two ENIs.
func newRealWorld(t *testing.T) *dpRealWorld {
	rw := &dpRealWorld{t: t, pods: map[int]*dpPod{}, eniIdx: map[int]int{}, freed: map[int]*terwayTypes.IPNetSet{}, eniGone: map[int]bool{}}
	var err error
	rw.host, err = ns.GetCurrentNS()
	rw.must(err, "host ns")
	rw.world, err = dpNewNS()
	rw.must(err, "world ns")
	lo, err := netlink.LinkByName("lo")
	rw.must(err, "lo")
	rw.must(netlink.LinkSetUp(lo), "lo up")
	idx := rw.addENI("eth0")
	eth0, _ := netlink.LinkByIndex(idx)
	rw.must(netlink.AddrAdd(eth0, &netlink.Addr{IPNet: &net.IPNet{IP: dpHost4.IP, Mask: net.CIDRMask(24, 32)}}), "eth0 v4")
	rw.must(netlink.AddrAdd(eth0, &netlink.Addr{IPNet: &net.IPNet{IP: dpHost6.IP, Mask: net.CIDRMask(64, 128)}, Flags: unix.IFA_F_NODAD}), "eth0 v6")
	rw.must(netlink.RouteAdd(&netlink.Route{LinkIndex: idx, Gw: net.ParseIP("10.88.0.253")}), "default v4")
	rw.must(netlink.RouteAdd(&netlink.Route{LinkIndex: idx, Gw: net.ParseIP("fd88::fffd")}), "default v6")
	rw.eniIdx[1] = rw.addENI("eth1")
	rw.eniIdx[2] = rw.addENI("eth2")
	return rw
}

func (rw *dpRealWorld) close() {
	for _, p := range rw.pods {
		_ = p.ns.Close()
	}
	_ = rw.world.Close()
	_ = rw.host.Close()
}

// dump records every namespace (host = 0, pods by number).
func (rw *dpRealWorld) dump() []vt.M {
	d, err := dpDumpNS(0)
	rw.must(err, "dump host")
	out := []vt.M{d}
	ids := []int{}
	for id := range rw.pods {
		ids = append(ids, id)
	}
	sort.Ints(ids)
	for _, id := range ids {
		var pd vt.M
		rw.must(rw.pods[id].ns.Do(func(ns.NetNS) error {
			var e error
			pd, e = dpDumpNS(id)
			return e
		}), "dump pod")
		out = append(out, pd)
	}
	return out
}

func (rw *dpRealWorld) linkName(idx int) string {
	l, err := netlink.LinkByIndex(idx)
	if err != nil {
		return ""
	}
	return l.Attrs().Name
}

// prepare does what the runtime / the node does before the CNI is called: the pod's namespace exists, the ENI is attached.
func (rw *dpRealWorld) prepare(st dpStep) int {
	pod := rw.pods[st.p]
	if pod == nil {
		n, err := dpNewNS()
		rw.must(err, "pod ns")
		pod = &dpPod{ns: n}
		rw.pods[st.p] = pod
		_ = n.Do(func(ns.NetNS) error {
			lo, err := netlink.LinkByName("lo")
			if err == nil {
				err = netlink.LinkSetUp(lo)
			}
			rw.must(err, "pod lo")
			return nil
		})
	}
	eniIndex := rw.eniIdx[st.eni]
	if st.dp == "exclusive" {
		rw.nDed++
		eniIndex = rw.addENI(fmt.Sprintf("eni%d%d%d", st.p, st.i, rw.nDed))
	}
	return eniIndex
}

// setup runs the real Setup of the datapath for one attachment, preceded by what cmdAdd does before it (host sysctls).
func (rw *dpRealWorld) setup(st dpStep, eniIndex int) (vt.M, error) {
	pod := rw.pods[st.p]
	var addr *terwayTypes.IPNetSet
	if st.keep && st.i == 0 {
		addr = rw.freed[st.p]
	}
	if addr == nil && st.steal > 0 && st.steal != st.p && st.i == 0 {
		// the daemon recycled the address of a veth pod whose DEL was lost or is late
		if v := rw.pods[st.steal]; v != nil && !v.superseded && len(v.steps) == 1 && v.steps[0].dp == "policy" && !rw.eniGone[v.steps[0].eni] {
			addr = v.cfgs[0].ContainerIPNet
		}
	}
	if st.i == 0 {
		delete(rw.freed, st.p)
	}
	cfg := dpConfig(st, eniIndex, addr)
	eniName := rw.linkName(eniIndex)
	rec := dpCfgRec(st, cfg, eniName, "")
	ctx := context.Background()
	rw.must(utils.EnsureHostNsConfig(cfg.ContainerIPNet.IPv4 != nil, cfg.ContainerIPNet.IPv6 != nil), "EnsureHostNsConfig")
	var err error
	switch st.dp {
	case "policy":
		err = NewPolicyRoute().Setup(ctx, cfg, pod.ns)
	case "exclusive":
		err = NewExclusiveENIDriver().Setup(ctx, cfg, pod.ns)
	default:
		rw.t.Fatalf("datapath %s cannot run on this kernel", st.dp)
	}
	k := 0
	for k < len(pod.steps) && pod.steps[k].i != st.i {
		k++
	}
	if k < len(pod.steps) {
		pod.steps, pod.cfgs, pod.recs = append(pod.steps[:k], pod.steps[k+1:]...), append(pod.cfgs[:k], pod.cfgs[k+1:]...), append(pod.recs[:k], pod.recs[k+1:]...)
	}
	if err == nil {
		pod.steps, pod.cfgs, pod.recs = append(pod.steps, st), append(pod.cfgs, cfg), append(pod.recs, rec)
		// an address has one holder: whoever else still carries it is gone
		same := func(a, b *net.IPNet) bool { return a != nil && b != nil && a.IP.Equal(b.IP) }
		for id, other := range rw.pods {
			if id == st.p {
				continue
			}
			for _, oc := range other.cfgs {
				if same(oc.ContainerIPNet.IPv4, cfg.ContainerIPNet.IPv4) || same(oc.ContainerIPNet.IPv6, cfg.ContainerIPNet.IPv6) {
					other.superseded = true
				}
			}
		}
	} else if st.dp == "policy" {
		pod.failed = append(pod.failed, cfg)
	}
	return rec, err
}

// teardown does what cmdDel does for the pod: GenericTearDown of the pod namespace, then the datapath's Teardown per attachment with
// the TeardownCfg parseTearDownConf builds (no host veth name). how = "dp": only PolicyRoute.Teardown, with the host veth name set.
// how = "generic": only GenericTearDown, which is where cmdDel stops when the daemon has no allocation record of the pod.
func (rw *dpRealWorld) teardown(p int, how string) error {
	pod := rw.pods[p]
	ctx := context.Background()
	for k, st := range pod.steps {
		if st.i == 0 && !pod.superseded {
			rw.freed[p] = pod.cfgs[k].ContainerIPNet
		}
	}
	if how != "dp" {
		if err := utils.GenericTearDown(ctx, pod.ns); err != nil {
			return fmt.Errorf("GenericTearDown: %w", err)
		}
	}
	if how == "generic" {
		return nil
	}
	var cfgs []*types.SetupConfig
	for k, cfg := range pod.cfgs {
		if pod.steps[k].dp == "policy" {
			cfgs = append(cfgs, cfg)
		}
	}
	for _, cfg := range append(cfgs, pod.failed...) {
		// parseTearDownConf resolves the ENI by MAC; when it is gone from the node the index stays 0
		eniIndex := cfg.ENIIndex
		if _, err := netlink.LinkByIndex(eniIndex); err != nil {
			eniIndex = 0
		}
		td := &types.TeardownCfg{DP: cfg.DP, ContainerIPNet: cfg.ContainerIPNet, ServiceCIDR: cfg.ServiceCIDR, ENIIndex: eniIndex}
		if how == "dp" {
			td.HostVETHName = cfg.HostVETHName
			td.ContainerIfName = cfg.ContainerIfName
		}
		if err := NewPolicyRoute().Teardown(ctx, td, pod.ns); err != nil {
			return fmt.Errorf("PolicyRoute.Teardown: %w", err)
		}
	}
	return nil
}

// rgets asks the kernel (`ip route get`) for the packets the specification reasons about, in the host and the pod namespaces.
func (rw *dpRealWorld) rgets(w *vt.Writer) {
	ext := map[int]net.IP{4: net.ParseIP("203.0.113.77"), 6: net.ParseIP("2001:db8:ffff::77")}
	ask := func(nsID int, src, dst net.IP, iif string) {
		opt := &netlink.RouteGetOptions{Iif: iif, SrcAddr: src}
		routes, err := netlink.RouteGetWithOptions(dst, opt)
		res := vt.M{"kind": "none", "dev": "", "gw": []int{}, "table": 0, "err": ""}
		if err != nil {
			res["err"] = err.Error()
		} else if len(routes) > 0 {
			r := routes[0]
			name := ""
			if l, e := netlink.LinkByIndex(r.LinkIndex); e == nil {
				name = l.Attrs().Name
			}
			res["kind"], res["dev"], res["gw"], res["table"] = dpType(r.Type), name, dpIP(r.Gw), r.Table
		}
		w.Emit(vt.M{"ev": "rget", "ns": nsID, "pkt": vt.M{"src": dpIP(src), "dst": dpIP(dst), "iif": iif, "oif": ""}, "res": res})
	}
	ids := []int{}
	for id := range rw.pods {
		ids = append(ids, id)
	}
	sort.Ints(ids)
	type att struct {
		st  dpStep
		cfg *types.SetupConfig
	}
	var atts []att
	for _, id := range ids {
		if rw.pods[id].superseded {
			continue
		}
		for k := range rw.pods[id].cfgs {
			atts = append(atts, att{rw.pods[id].steps[k], rw.pods[id].cfgs[k]})
		}
	}
	for _, a := range atts {
		for _, fam := range []int{4, 6} {
			n := map[int]*net.IPNet{4: a.cfg.ContainerIPNet.IPv4, 6: a.cfg.ContainerIPNet.IPv6}[fam]
			if n == nil {
				continue
			}
			ip := n.IP
			// host namespace: towards the pod (locally generated, forwarded from the ENI / eth0, from the other pods) and from the pod
			ask(0, nil, ip, "")
			ask(0, ext[fam], ip, "eth0")
			if a.st.dp == "policy" {
				if eniName := rw.linkName(a.cfg.ENIIndex); eniName != "" {
					ask(0, ext[fam], ip, eniName)
				}
				ask(0, ip, ext[fam], a.cfg.HostVETHName)
				for _, b := range atts {
					bn := map[int]*net.IPNet{4: b.cfg.ContainerIPNet.IPv4, 6: b.cfg.ContainerIPNet.IPv6}[fam]
					if b.st.dp == "policy" && bn != nil && !bn.IP.Equal(ip) {
						ask(0, bn.IP, ip, b.cfg.HostVETHName)
					}
				}
			}
			// pod namespace: from the pod address to the outside
			_ = rw.pods[a.st.p].ns.Do(func(ns.NetNS) error {
				ask(a.st.p, ip, ext[fam], "")
				ask(a.st.p, nil, ext[fam], "")
				return nil
			})
		}
	}
}

// TestVerifDatapathL2 runs Setup / Teardown sequences of the real datapaths on the real kernel. Must run inside `unshare -n`.
func TestVerifDatapathL2(t *testing.T) {
	runtime.LockOSThread()
	defer runtime.UnlockOSThread()
	if links, err := netlink.LinkList(); err != nil || len(links) != 1 {
		t.Fatalf("refusing to run outside a fresh private network namespace (links=%d err=%v)", len(links), err)
	}
	w, err := vt.NewWriter(vt.Env("VERIF_TRACE", ""))
	if err != nil {
		t.Fatal(err)
	}
	defer w.Close()
	scens := append(dpReadScenarios(t), dpRandomScenarios(vt.EnvInt("VERIF_RANDOM", 5), 2)...)
	shard, nshard := 0, 1
	fmt.Sscanf(vt.Env("VERIF_SHARD", "0/1"), "%d/%d", &shard, &nshard)
	rget := vt.Env("VERIF_RGET", "") != ""
	for si, sc := range scens {
		if si%nshard != shard {
			continue
		}
		// each scenario gets a fresh "host" namespace: a new one is created and entered on this (locked) thread
		hostNS, err := dpNewNS()
		if err != nil {
			t.Fatal(err)
		}
		if err := hostNS.Set(); err != nil {
			t.Fatal(err)
		}
		rw := newRealWorld(t)
		w.Emit(vt.M{"ev": "reset", "scen": si, "level": 2, "dump": rw.dump()})
		for _, st := range sc {
			switch st.a {
			case "setup":
				if st.dp != "policy" && st.dp != "exclusive" {
					continue
				}
				if st.dp == "policy" && rw.eniGone[st.eni] {
					continue // no pod is scheduled onto an ENI that is gone
				}
				eniIndex := rw.prepare(st)
				w.Emit(vt.M{"ev": "env", "what": "pod namespace / ENI present", "dump": rw.dump()})
				rec, err := rw.setup(st, eniIndex)
				es := ""
				if err != nil {
					es = err.Error()
				}
				w.Emit(vt.M{"ev": "setup_d", "step": dpStepRec(st), "cfg": rec, "ok": err == nil, "err": es, "dump": rw.dump()})
			case "enigone":
				// the ENI is detached / unplugged while pods may still use it
				if rw.eniGone[st.eni] || rw.eniIdx[st.eni] == 0 {
					continue
				}
				l, err := netlink.LinkByIndex(rw.eniIdx[st.eni])
				rw.must(err, "vanishing ENI")
				name := l.Attrs().Name
				rw.must(netlink.LinkDel(l), "delete ENI")
				rw.eniGone[st.eni] = true
				w.Emit(vt.M{"ev": "enigone", "step": dpStepRec(st), "eni": name, "dump": rw.dump()})
			case "teardown":
				if rw.pods[st.p] == nil {
					continue
				}
				how := st.how
				if rw.pods[st.p].superseded {
					how = "generic" // the daemon has no allocation record of a pod whose address it handed on: cmdDel stops after GenericTearDown
				}
				for _, s := range rw.pods[st.p].steps {
					if s.dp != "policy" && how == "dp" {
						how = "cni" // only the policy-route datapath has a Teardown of its own
					}
				}
				err := rw.teardown(st.p, how)
				es := ""
				if err != nil {
					es = err.Error()
				}
				gone := rw.pods[st.p]
				delete(rw.pods, st.p)
				w.Emit(vt.M{"ev": "teardown_d", "step": dpStepRec(st), "pod": st.p, "how": how, "ok": err == nil, "err": es, "dump": rw.dump()})
				_ = gone.ns.Close()
			}
			if rget {
				rw.rgets(w)
			}
		}
		rw.close()
		_ = hostNS.Close()
	}
}
