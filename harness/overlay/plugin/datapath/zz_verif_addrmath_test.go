//go:build verif && linux

package datapath

import (
	"encoding/binary"
	"net"
	"testing"

	"github.com/AliyunContainerService/terway/zzverif/vt"
	"github.com/vishvananda/netlink"
)

func TestVerifDstRule(t *testing.T) {
	cases, err := vt.ReadNDJSON(vt.Env("VERIF_CASES", ""))
	if err != nil {
		t.Fatal(err)
	}
	w, err := vt.NewWriter(vt.Env("VERIF_RESULTS", ""))
	if err != nil {
		t.Fatal(err)
	}
	defer w.Close()
	be := func(x uint32) []int {
		b := make([]byte, 4)
		binary.BigEndian.PutUint32(b, x)
		return vt.Ints(b)
	}
	for _, c := range cases {
		in := vt.Map(c["in"])
		if vt.Str(in["fn"]) != "dstrule" {
			continue
		}
		out := vt.M{}
		p := vt.Catch(func() {
			b := vt.Bytes(in["ip"])
			ipb := net.IP(b)
			if vt.Bool(in["form16"]) {
				ipb = net.IPv4(b[0], b[1], b[2], b[3])
			}
			n := &net.IPNet{IP: ipb, Mask: net.CIDRMask(vt.Int(in["plen"]), 32)}
			r, err := dstIPRule(3, n, 4, netlink.TCA_INGRESS_REDIR)
			if err != nil {
				panic(err)
			}
			f := r.toU32Filter()
			keys := []vt.M{}
			for _, k := range f.Sel.Keys {
				keys = append(keys, vt.M{"off": int(k.Off), "mask": be(k.Mask), "val": be(k.Val)})
			}
			out["keys"] = keys
			out["selfmatch"] = r.isMatch(f)
		})
		w.Write(vt.M{"id": c["id"], "out": out, "panic": p})
	}
}
