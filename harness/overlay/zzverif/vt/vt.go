//go:build verif

// Package vt is the shared trace / case I/O layer of the /verif conformance harnesses.
// It exists only in the build overlay (never in the repository tree).
package vt

import (
	"bufio"
	"encoding/json"
	"fmt"
	"math/rand"
	"os"
	"runtime/debug"
	"strconv"
	"strings"
	"sync"
	"sync/atomic"
)

// M is a JSON object.
type M = map[string]any

// Env returns the environment variable or a default.
func Env(k, def string) string {
	if v := os.Getenv(k); v != "" {
		return v
	}
	return def
}

func EnvInt(k string, def int) int {
	if v := os.Getenv(k); v != "" {
		if n, err := strconv.Atoi(v); err == nil {
			return n
		}
	}
	return def
}

func Seed() int64 { return int64(EnvInt("VERIF_SEED", 1)) }

func Rand(salt int64) *rand.Rand { return rand.New(rand.NewSource(Seed()*7919 + salt)) }

func Thorough() bool { return os.Getenv("VERIF_TIER") == "thorough" }

// ReadNDJSON reads a file of JSON objects, one per line.
func ReadNDJSON(path string) ([]M, error) {
	f, err := os.Open(path)
	if err != nil {
		return nil, err
	}
	defer f.Close()
	var out []M
	sc := bufio.NewScanner(f)
	sc.Buffer(make([]byte, 1<<20), 1<<26)
	for sc.Scan() {
		if len(sc.Bytes()) == 0 {
			continue
		}
		var m M
		dec := json.NewDecoder(bytesReader(sc.Bytes()))
		dec.UseNumber()
		if err := dec.Decode(&m); err != nil {
			return nil, fmt.Errorf("%s: %w", path, err)
		}
		out = append(out, m)
	}
	return out, sc.Err()
}

// ReadNDJSONString parses JSON objects from a string, one per line.
func ReadNDJSONString(s string) ([]M, error) {
	var out []M
	for _, line := range strings.Split(s, "\n") {
		if strings.TrimSpace(line) == "" {
			continue
		}
		var m M
		dec := json.NewDecoder(strings.NewReader(line))
		dec.UseNumber()
		if err := dec.Decode(&m); err != nil {
			return nil, err
		}
		out = append(out, m)
	}
	return out, nil
}

// Writer appends JSON lines to a file; safe for concurrent use; Seq is assigned at emission.
type Writer struct {
	mu  sync.Mutex
	f   *os.File
	w   *bufio.Writer
	seq int64
}

func NewWriter(path string) (*Writer, error) {
	f, err := os.Create(path)
	if err != nil {
		return nil, err
	}
	return &Writer{f: f, w: bufio.NewWriterSize(f, 1<<20)}, nil
}

func (w *Writer) Write(m any) {
	b, err := json.Marshal(m)
	if err != nil {
		panic(err)
	}
	w.mu.Lock()
	w.w.Write(b)
	w.w.WriteByte('\n')
	w.mu.Unlock()
}

// Emit writes an event with a process-wide sequence number taken under the writer's lock.
func (w *Writer) Emit(m M) {
	w.mu.Lock()
	w.seq++
	m["seq"] = w.seq
	b, err := json.Marshal(m)
	if err != nil {
		w.mu.Unlock()
		panic(err)
	}
	w.w.Write(b)
	w.w.WriteByte('\n')
	w.mu.Unlock()
}

func (w *Writer) Close() error {
	w.mu.Lock()
	defer w.mu.Unlock()
	if err := w.w.Flush(); err != nil {
		return err
	}
	return w.f.Close()
}

// Catch runs f and reports a panic as a string (empty when none).
func Catch(f func()) (p string) {
	defer func() {
		if r := recover(); r != nil {
			p = fmt.Sprintf("%v", r)
			if len(p) > 200 {
				p = p[:200]
			}
			_ = debug.Stack
		}
	}()
	f()
	return ""
}

// Int converts a decoded JSON number.
func Int(v any) int {
	switch x := v.(type) {
	case json.Number:
		n, _ := x.Int64()
		return int(n)
	case float64:
		return int(x)
	case int:
		return x
	case int64:
		return int(x)
	}
	return 0
}

func Str(v any) string {
	s, _ := v.(string)
	return s
}

func Bool(v any) bool {
	b, _ := v.(bool)
	return b
}

func List(v any) []any {
	l, _ := v.([]any)
	return l
}

func Map(v any) M {
	m, _ := v.(map[string]any)
	return m
}

// Bytes converts a JSON array of small ints to bytes.
func Bytes(v any) []byte {
	l := List(v)
	b := make([]byte, len(l))
	for i, x := range l {
		b[i] = byte(Int(x))
	}
	return b
}

// Ints converts bytes to a JSON-friendly []int (a []byte would be base64).
func Ints(b []byte) []int {
	r := make([]int, len(b))
	for i, x := range b {
		r[i] = int(x)
	}
	return r
}

var counter atomic.Int64

func Next() int64 { return counter.Add(1) }
