//go:build verif

package vt

import "bytes"

func bytesReader(b []byte) *bytes.Reader { return bytes.NewReader(b) }
