//go:build verif

// Package inputstok is the token table and case loop shared by the C15 (specs/Inputs.tla) harnesses.
// An input string of the specification is a tuple of tokens; Join concatenates them after replacing
// the symbolic names (bytes that cannot be written in a TLA+ string) by the bytes they stand for.
// It only builds inputs and projects outputs; it contains no product logic.
package inputstok

import (
	"strings"
	"testing"

	"github.com/AliyunContainerService/terway/zzverif/vt"
)

var repl = strings.NewReplacer(
	"<NUL>", "\x00",
	"<CJK>", "\u4e2d",
	"<ARD>", "\u0665", // ARABIC-INDIC DIGIT FIVE
	"<FW1>", "\uff11", // FULLWIDTH DIGIT ONE
	"<KELVIN>", "\u212a", // KELVIN SIGN, upper-case of nothing, lower-case is 'k'
	"<TAB>", "\t",
	"<NL>", "\n",
	"<NBSP>", "\u00a0",
	"<BAD8>", "\xff",
	"<DQ>", "\"",
	"<BS>", "\\",
	"<LONG9>", strings.Repeat("9", 4096),
	"<LONGA>", strings.Repeat("a", 4096),
	"<LONGSTR>", "\""+strings.Repeat("a", 70000)+"\"",
	"<DEEP>", strings.Repeat("[", 20000),
)

// Absent reports whether the token tuple is the "field not set" marker.
func Absent(v any) bool {
	l := vt.List(v)
	return len(l) == 1 && vt.Str(l[0]) == "<ABSENT>"
}

// Join turns a token tuple into the input string.
func Join(v any) string {
	var b strings.Builder
	for _, x := range vt.List(v) {
		b.WriteString(repl.Replace(vt.Str(x)))
	}
	return b.String()
}

// Set puts Join(v) under key k unless v is the Absent marker.
func Set(m map[string]string, k string, v any) {
	if !Absent(v) {
		m[k] = Join(v)
	}
}

// Limbs projects an unsigned value to its little-endian digits in the given base (no leading zeros;
// zero is the empty list), because TLC integers are 32-bit.
func Limbs(v uint64, base uint64) []int {
	r := []int{}
	for v > 0 {
		r = append(r, int(v%base))
		v /= base
	}
	return r
}

// Run is the case loop: for every case whose in.fn has a handler, run it under recover and write
// {id, out, panic}. A handler fills out; it must not contain product logic.
func Run(t *testing.T, handlers map[string]func(in vt.M, out vt.M)) {
	cases, err := vt.ReadNDJSON(vt.Env("VERIF_CASES", ""))
	if err != nil {
		t.Fatal(err)
	}
	w, err := vt.NewWriter(vt.Env("VERIF_RESULTS", ""))
	if err != nil {
		t.Fatal(err)
	}
	defer w.Close()
	n := 0
	for _, c := range cases {
		in := vt.Map(c["in"])
		h, ok := handlers[vt.Str(in["fn"])]
		if !ok {
			continue
		}
		out := vt.M{}
		p := vt.Catch(func() { h(in, out) })
		w.Write(vt.M{"id": c["id"], "out": out, "panic": p})
		n++
	}
	t.Logf("answered %d cases", n)
}
