//go:build verif

package funcs

import (
	"encoding/binary"
	"fmt"
	"net"
	"testing"

	"github.com/AliyunContainerService/terway/pkg/ip"
	"github.com/AliyunContainerService/terway/pkg/link"
	"github.com/AliyunContainerService/terway/pkg/tc"
	"github.com/AliyunContainerService/terway/plugin/driver/utils"
	"github.com/AliyunContainerService/terway/zzverif/vt"
	"github.com/vishvananda/netlink"
)

func u32(b uint32) []int {
	x := make([]byte, 4)
	binary.BigEndian.PutUint32(x, b)
	return vt.Ints(x)
}

func keysOut(keys []netlink.TcU32Key) []vt.M {
	r := []vt.M{}
	for _, k := range keys {
		r = append(r, vt.M{"off": int(k.Off), "mask": u32(k.Mask), "val": u32(k.Val)})
	}
	return r
}

func mkNet(in vt.M) *net.IPNet {
	b := vt.Bytes(in["ip"])
	plen := vt.Int(in["plen"])
	ipb := net.IP(b)
	if vt.Bool(in["form16"]) && len(b) == 4 {
		ipb = net.IPv4(b[0], b[1], b[2], b[3])
	}
	return &net.IPNet{IP: ipb, Mask: net.CIDRMask(plen, 8*len(b))}
}

func ipBytes(s string, fam int) []int {
	if s == "" {
		return []int{}
	}
	p := net.ParseIP(s)
	if p == nil {
		return []int{-1}
	}
	if fam == 4 {
		if p.To4() == nil {
			return []int{-2}
		}
		return vt.Ints(p.To4())
	}
	return vt.Ints(p.To16())
}

func rawBytes(p net.IP, fam int) []int {
	if p == nil {
		return []int{}
	}
	if fam == 4 && p.To4() != nil {
		return vt.Ints(p.To4())
	}
	return vt.Ints(p)
}

// TestVerifAddrMath runs the real C14 functions on every TLC-enumerated case.
func TestVerifAddrMath(t *testing.T) {
	cases, err := vt.ReadNDJSON(vt.Env("VERIF_CASES", ""))
	if err != nil {
		t.Fatal(err)
	}
	w, err := vt.NewWriter(vt.Env("VERIF_RESULTS", ""))
	if err != nil {
		t.Fatal(err)
	}
	defer w.Close()
	for _, c := range cases {
		in := vt.Map(c["in"])
		out := vt.M{}
		handled := true
		p := vt.Catch(func() {
			switch vt.Str(in["fn"]) {
			case "u32src":
				n := mkNet(in)
				if vt.Int(in["fam"]) == 4 {
					out["keys"] = keysOut([]netlink.TcU32Key{tc.U32IPv4Src(n)})
				} else {
					out["keys"] = keysOut(tc.U32IPv6Src(n))
				}
			case "u32match":
				out["keys"] = keysOut(tc.U32MatchSrc(mkNet(in)))
			case "gateway":
				fam := vt.Int(in["fam"])
				b := vt.Bytes(in["ip"])
				cidr := fmt.Sprintf("%s/%d", net.IP(b).String(), vt.Int(in["plen"]))
				gw := ip.DeriveGatewayIP(cidr)
				out["raw"] = gw
				out["cidr"] = cidr
				out["gw"] = ipBytes(gw, fam)
				_, n, err := net.ParseCIDR(cidr)
				if err != nil {
					panic(err)
				}
				out["idx"] = rawBytes(ip.GetIPAtIndex(*n, -3), fam)
			case "tableid":
				ids := []int{}
				for _, x := range vt.List(in["idx"]) {
					ids = append(ids, utils.GetRouteTableID(vt.Int(x)))
				}
				out["ids"] = ids
			case "vethname":
				names, again, lens := []string{}, []string{}, []int{}
				for _, x := range vt.List(in["ifs"]) {
					a, e1 := link.VethNameForPod(vt.Str(in["name"]), vt.Str(in["ns"]), vt.Str(x), vt.Str(in["prefix"]))
					b, e2 := link.VethNameForPod(vt.Str(in["name"]), vt.Str(in["ns"]), vt.Str(x), vt.Str(in["prefix"]))
					if e1 != nil || e2 != nil {
						a, b = "", "!"
					}
					names, again, lens = append(names, a), append(again, b), append(lens, len(a))
				}
				out["names"], out["again"], out["lens"] = names, again, lens
			default:
				handled = false
			}
		})
		if !handled {
			continue
		}
		w.Write(vt.M{"id": c["id"], "out": out, "panic": p})
	}
}
