//go:build verif

package funcs

import (
	"sync"
	"encoding/binary"
	"fmt"
	"net"
	"testing"

	"github.com/AliyunContainerService/terway/pkg/ip"
	"github.com/AliyunContainerService/terway/pkg/link"
	"github.com/AliyunContainerService/terway/pkg/tc"
	"github.com/AliyunContainerService/terway/plugin/driver/utils"
	"github.com/AliyunContainerService/terway/zzverif/vt"
	"github.com/vishvananda/netlink"
)

func u32(b uint32) []int {
	x := make([]byte, 4)
	binary.BigEndian.PutUint32(x, b)
	return vt.Ints(x)
}

func keysOut(keys []netlink.TcU32Key) []vt.M {
	r := []vt.M{}
	for _, k := range keys {
		r = append(r, vt.M{"off": int(k.Off), "mask": u32(k.Mask), "val": u32(k.Val)})
	}
	return r
}

func mkNet(in vt.M) *net.IPNet {
	b := vt.Bytes(in["ip"])
	plen := vt.Int(in["plen"])
	ipb := net.IP(b)
	if vt.Bool(in["form16"]) && len(b) == 4 {
		ipb = net.IPv4(b[0], b[1], b[2], b[3])
	}
	return &net.IPNet{IP: ipb, Mask: net.CIDRMask(plen, 8*len(b))}
}

func ipBytes(s string, fam int) []int {
	if s == "" {
		return []int{}
	}
	p := net.ParseIP(s)
	if p == nil {
		return []int{-1}
	}
	if fam == 4 {
		if p.To4() == nil {
			return []int{-2}
		}
		return vt.Ints(p.To4())
	}
	return vt.Ints(p.To16())
}

func rawBytes(p net.IP, fam int) []int {
	if p == nil {
		return []int{}
	}
	if fam == 4 && p.To4() != nil {
		return vt.Ints(p.To4())
	}
	return vt.Ints(p)
}

// TestVerifAddrMath runs the real C14 functions on every TLC-enumerated case.
func TestVerifAddrMath(t *testing.T) {
	cases, err := vt.ReadNDJSON(vt.Env("VERIF_CASES", ""))
	if err != nil {
		t.Fatal(err)
	}
	w, err := vt.NewWriter(vt.Env("VERIF_RESULTS", ""))
	if err != nil {
		t.Fatal(err)
	}
	defer w.Close()
	// "deterministic" also means: the same triple gets the same name when other callers are inside the function at the
	// same time (the daemon calls it from several goroutines). Every vethname case is recomputed by 8 goroutines at once;
	// a result that differs from the others (or a panic) replaces the second observation of that case below.
	type vkey struct {
		id any
		i  int
	}
	var vmu sync.Mutex
	odd := map[vkey]string{}
	first := map[vkey]string{}
	var vwg sync.WaitGroup
	for g := 0; g < 8; g++ {
		vwg.Add(1)
		go func(g int) {
			defer vwg.Done()
			for round := 0; round < 3; round++ {
				for k := range cases {
					c := cases[(k+g*7919)%len(cases)]
					in := vt.Map(c["in"])
					if vt.Str(in["fn"]) != "vethname" {
						continue
					}
					for i, x := range vt.List(in["ifs"]) {
						var a string
						if p := vt.Catch(func() {
							r, err := link.VethNameForPod(vt.Str(in["name"]), vt.Str(in["ns"]), vt.Str(x), vt.Str(in["prefix"]))
							if err != nil {
								r = "!err"
							}
							a = r
						}); p != "" {
							a = "!panic"
						}
						vmu.Lock()
						key := vkey{fmt.Sprint(c["id"]), i}
						if f, ok := first[key]; !ok {
							first[key] = a
						} else if f != a {
							odd[key] = a
						}
						vmu.Unlock()
					}
				}
			}
		}(g)
	}
	vwg.Wait()
	for _, c := range cases {
		in := vt.Map(c["in"])
		out := vt.M{}
		handled := true
		p := vt.Catch(func() {
			switch vt.Str(in["fn"]) {
			case "u32src":
				n := mkNet(in)
				if vt.Int(in["fam"]) == 4 {
					out["keys"] = keysOut([]netlink.TcU32Key{tc.U32IPv4Src(n)})
				} else {
					out["keys"] = keysOut(tc.U32IPv6Src(n))
				}
			case "u32match":
				out["keys"] = keysOut(tc.U32MatchSrc(mkNet(in)))
			case "gateway":
				fam := vt.Int(in["fam"])
				b := vt.Bytes(in["ip"])
				cidr := fmt.Sprintf("%s/%d", net.IP(b).String(), vt.Int(in["plen"]))
				gw := ip.DeriveGatewayIP(cidr)
				out["raw"] = gw
				out["cidr"] = cidr
				out["gw"] = ipBytes(gw, fam)
				_, n, err := net.ParseCIDR(cidr)
				if err != nil {
					panic(err)
				}
				out["idx"] = rawBytes(ip.GetIPAtIndex(*n, -3), fam)
			case "tableid":
				ids := []int{}
				for _, x := range vt.List(in["idx"]) {
					ids = append(ids, utils.GetRouteTableID(vt.Int(x)))
				}
				out["ids"] = ids
			case "vethname":
				names, again, lens := []string{}, []string{}, []int{}
				for _, x := range vt.List(in["ifs"]) {
					a, e1 := link.VethNameForPod(vt.Str(in["name"]), vt.Str(in["ns"]), vt.Str(x), vt.Str(in["prefix"]))
					b, e2 := link.VethNameForPod(vt.Str(in["name"]), vt.Str(in["ns"]), vt.Str(x), vt.Str(in["prefix"]))
					if e1 != nil || e2 != nil {
						a, b = "", "!"
					}
					key := vkey{fmt.Sprint(c["id"]), len(names)}
					if o, ok := odd[key]; ok {
						b = o // the concurrent callers did not agree among themselves
					} else if f, ok := first[key]; ok && f != a {
						b = f // they agreed, but not with the sequential answer
					}
					names, again, lens = append(names, a), append(again, b), append(lens, len(a))
				}
				out["names"], out["again"], out["lens"] = names, again, lens
			default:
				handled = false
			}
		})
		if !handled {
			continue
		}
		w.Write(vt.M{"id": c["id"], "out": out, "panic": p})
	}
}
