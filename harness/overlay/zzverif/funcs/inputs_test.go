//go:build verif

package funcs

import (
	"context"
	"testing"

	admissionv1 "k8s.io/api/admission/v1"
	corev1 "k8s.io/api/core/v1"
	metav1 "k8s.io/apimachinery/pkg/apis/meta/v1"
	"k8s.io/apimachinery/pkg/runtime"
	"k8s.io/apimachinery/pkg/util/json"
	"k8s.io/utils/ptr"
	"sigs.k8s.io/controller-runtime/pkg/client"
	"sigs.k8s.io/controller-runtime/pkg/client/fake"
	"sigs.k8s.io/controller-runtime/pkg/webhook/admission"

	"github.com/AliyunContainerService/terway/pkg/apis/network.alibabacloud.com/v1beta1"
	"github.com/AliyunContainerService/terway/pkg/controller/webhook"
	"github.com/AliyunContainerService/terway/rpc"
	"github.com/AliyunContainerService/terway/types"
	"github.com/AliyunContainerService/terway/types/controlplane"
	"github.com/AliyunContainerService/terway/types/daemon"
	"github.com/AliyunContainerService/terway/zzverif/inputstok"
	"github.com/AliyunContainerService/terway/zzverif/vt"
)

const inputsEniConf = `{"version":"1","max_pool_size":5,"vswitches":{"cn-a":["vsw-1"],"cn-b":["vsw-2"]},"security_group":"sg-1"}`

func inputsCM(name, conf string) *corev1.ConfigMap {
	return &corev1.ConfigMap{ObjectMeta: metav1.ObjectMeta{Name: name, Namespace: "kube-system"}, Data: map[string]string{"eni_conf": conf}}
}

func inputsPN(name string, st v1beta1.NetworkingStatus, sel bool) *v1beta1.PodNetworking {
	pn := &v1beta1.PodNetworking{
		ObjectMeta: metav1.ObjectMeta{Name: name},
		Spec: v1beta1.PodNetworkingSpec{
			VSwitchOptions: []string{"vsw-1"}, SecurityGroupIDs: []string{"sg-1"},
			AllocationType: v1beta1.AllocationType{Type: v1beta1.IPAllocTypeElastic},
		},
		Status: v1beta1.PodNetworkingStatus{Status: st, VSwitches: []v1beta1.VSwitch{{ID: "vsw-1", Zone: "cn-a"}}},
	}
	if sel {
		pn.Spec.Selector.PodSelector = &metav1.LabelSelector{MatchLabels: map[string]string{"app": "x"}}
	}
	return pn
}

// inputsCluster is the API-server content the webhook sees: the eni-config ConfigMap, some
// PodNetworkings, and a PodENI left behind by a previous incarnation of the pod.
func inputsCluster(cm any) client.Client {
	objs := []client.Object{}
	if !inputstok.Absent(cm) {
		objs = append(objs, inputsCM("eni-config", inputstok.Join(cm)))
	}
	return fake.NewClientBuilder().WithScheme(types.Scheme).WithObjects(objs...).WithObjects(
		&corev1.Namespace{ObjectMeta: metav1.ObjectMeta{Name: "default"}},
		inputsPN("pn1", v1beta1.NetworkingStatusReady, false),
		inputsPN("pn2", v1beta1.NetworkingStatusReady, false),
		inputsPN("notready", "Fail", false),
		inputsPN("withselector", v1beta1.NetworkingStatusReady, true),
		&v1beta1.PodENI{ObjectMeta: metav1.ObjectMeta{Name: "p", Namespace: "default"},
			Spec: v1beta1.PodENISpec{Zone: "cn-a", Allocations: []v1beta1.Allocation{{ENI: v1beta1.ENI{ID: "eni-1"}}}}},
	).Build()
}

func inputsAdmit(c client.Client, ipam, kind string, raw []byte, out vt.M) {
	cfg := &controlplane.Config{IPAMType: ipam, EnableTrunk: ptr.To(true), EnableWebhookInjectResource: ptr.To(true)}
	hook := webhook.MutatingHook(c, cfg)
	req := admission.Request{AdmissionRequest: admissionv1.AdmissionRequest{
		UID: "u", Kind: metav1.GroupVersionKind{Kind: kind}, Namespace: "default", Name: "p",
		Operation: admissionv1.Create, Object: runtime.RawExtension{Raw: raw}}}
	// hook.Handle would swallow a panic of the handler (controller-runtime recovers by default);
	// the handler itself is what the property is about.
	resp := hook.Handler.Handle(context.Background(), req)
	out["allowed"] = resp.Allowed
	out["patches"] = len(resp.Patches)
	out["done"] = true
}

func inputsIPSet(isNil bool, v4, v6 any) *rpc.IPSet {
	if isNil {
		return nil
	}
	return &rpc.IPSet{IPv4: inputstok.Join(v4), IPv6: inputstok.Join(v6)}
}

// TestVerifInputsExported runs the exported parsers of C15 (specs/Inputs.tla): the pod-networks
// annotation parsers, the admission webhook handler on annotated pods and on raw objects, the daemon
// configuration merge / ConfigMap loader, and the rpc.IPSet converters.
func TestVerifInputsExported(t *testing.T) {
	inputstok.Run(t, map[string]func(in, out vt.M){
		"podnetworks": func(in, out vt.M) {
			doc := inputstok.Join(in["doc"])
			pod := &corev1.Pod{ObjectMeta: metav1.ObjectMeta{Annotations: map[string]string{types.PodNetworks: doc}}}
			a, err := controlplane.ParsePodNetworksFromAnnotation(pod)
			out["err"] = err != nil
			out["n"] = 0
			if a != nil {
				out["n"] = len(a.PodNetworks)
			}
			r, err2 := controlplane.ParsePodNetworksFromRequest(map[string]string{types.PodNetworksRequest: doc})
			out["reqerr"], out["reqn"] = err2 != nil, len(r)
			out["done"] = true
		},
		"webhook": func(in, out vt.M) {
			anno := map[string]string{}
			inputstok.Set(anno, types.PodNetworks, in["pn"])
			inputstok.Set(anno, types.PodNetworksRequest, in["req"])
			inputstok.Set(anno, types.PodNetworking, in["pnw"])
			inputstok.Set(anno, types.PodENI, in["eni"])
			owner := "ReplicaSet"
			if vt.Bool(in["sts"]) {
				owner = "StatefulSet"
			}
			pod := &corev1.Pod{
				TypeMeta: metav1.TypeMeta{Kind: "Pod", APIVersion: "v1"},
				ObjectMeta: metav1.ObjectMeta{Name: "p", Namespace: "default", Labels: map[string]string{"app": "y"},
					OwnerReferences: []metav1.OwnerReference{{Kind: owner, Name: "o", APIVersion: "apps/v1", UID: "1"}}},
				Spec: corev1.PodSpec{HostNetwork: vt.Bool(in["hostnet"])},
			}
			if len(anno) > 0 {
				pod.Annotations = anno
			}
			for i := 0; i < vt.Int(in["containers"]); i++ {
				pod.Spec.Containers = append(pod.Spec.Containers, corev1.Container{Name: "c", Image: "i"})
			}
			raw, err := json.Marshal(pod)
			if err != nil {
				panic("harness: " + err.Error())
			}
			ipam := types.IPAMTypeDefault
			if vt.Str(in["ipam"]) == "crd" {
				ipam = types.IPAMTypeCRD
			}
			inputsAdmit(inputsCluster(in["cm"]), ipam, "Pod", raw, out)
		},
		"webhookraw": func(in, out vt.M) {
			inputsAdmit(inputsCluster([]any{inputsEniConf}), types.IPAMTypeCRD, vt.Str(in["kind"]), []byte(inputstok.Join(in["doc"])), out)
		},
		"config": func(in, out vt.M) {
			top, base := inputstok.Join(in["top"]), inputstok.Join(in["base"])
			c, err := daemon.MergeConfigAndUnmarshal([]byte(top), []byte(base))
			out["mergeerr"] = err != nil
			if err == nil {
				// exactly what every caller in the daemon does with an error-free result (builder.LoadGlobalConfig,
				// LoadDynamicConfig): use it without a nil check
				c.Populate()
				_ = c.Validate()
				_, _ = c.GetSecurityGroups(), c.GetVSwitchIDs()
			}
			objs := []client.Object{inputsCM("eni-config", base)}
			node := ""
			if top != "" {
				node = "n1"
				objs = append(objs, inputsCM("dyn", top),
					&corev1.Node{ObjectMeta: metav1.ObjectMeta{Name: "n1", Labels: map[string]string{"terway-config": "dyn"}}})
			}
			cl := fake.NewClientBuilder().WithScheme(types.Scheme).WithObjects(objs...).Build()
			_, err = daemon.ConfigFromConfigMap(context.Background(), cl, node)
			out["cmerr"] = err != nil
			out["done"] = true
		},
		"ipset": func(in, out vt.M) {
			ip := inputsIPSet(vt.Bool(in["ipnil"]), in["ip4"], in["ip6"])
			sub := inputsIPSet(vt.Bool(in["subnil"]), in["sub4"], in["sub6"])
			_, e1 := types.BuildIPNet(ip, sub)
			_, e2 := types.ToIPSet(ip)
			_, e3 := types.ToIPNetSet(sub)
			_, e4 := types.ToIPNetSet(ip)
			_, e5 := types.ToIPSet(sub)
			out["errs"] = []bool{e1 != nil, e2 != nil, e3 != nil, e4 != nil, e5 != nil}
			out["done"] = true
		},
	})
}
