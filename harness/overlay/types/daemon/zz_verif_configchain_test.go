//go:build verif

package daemon

// C20 (specs/ConfigChain.tla), configuration part: runs the real MergeConfigAndUnmarshal and
// GetConfigFromFileWithMerge on every TLC-enumerated (base, overlay) pair. The harness only
// translates the tagged JSON values of the spec into JSON text and projects the returned
// Config back into tagged values; it contains no merge logic.

import (
	"bytes"
	"context"
	"encoding/json"
	"fmt"
	"os"
	"path/filepath"
	"strings"
	"testing"

	corev1 "k8s.io/api/core/v1"
	metav1 "k8s.io/apimachinery/pkg/apis/meta/v1"
	"sigs.k8s.io/controller-runtime/pkg/client/fake"

	"github.com/AliyunContainerService/terway/zzverif/vt"
)

// c20FromTagged turns [t, v] of the spec into a plain Go value for json.Marshal.
func c20FromTagged(x any) any {
	m := vt.Map(x)
	switch vt.Str(m["t"]) {
	case "z":
		return nil
	case "s":
		return vt.Str(m["v"])
	case "n":
		return vt.Int(m["v"])
	case "b":
		return vt.Bool(m["v"])
	case "a":
		r := []any{}
		for _, e := range vt.List(m["v"]) {
			r = append(r, c20FromTagged(e))
		}
		return r
	case "o":
		r := map[string]any{}
		for k, e := range vt.Map(m["v"]) { // an empty object arrives as [] and yields no members
			r[k] = c20FromTagged(e)
		}
		return r
	}
	panic(fmt.Sprintf("harness: bad tagged value %v", x))
}

// c20ToTagged is the inverse, over values decoded with UseNumber.
func c20ToTagged(x any) vt.M {
	switch v := x.(type) {
	case nil:
		return vt.M{"t": "z", "v": "<null>"}
	case string:
		return vt.M{"t": "s", "v": v}
	case bool:
		return vt.M{"t": "b", "v": v}
	case json.Number:
		if n, err := v.Int64(); err == nil {
			return vt.M{"t": "n", "v": n}
		}
		if f, err := v.Float64(); err == nil && f == float64(int64(f)) {
			return vt.M{"t": "n", "v": int64(f)}
		}
		return vt.M{"t": "s", "v": "<float>" + v.String()}
	case []any:
		r := []any{}
		for _, e := range v {
			r = append(r, c20ToTagged(e))
		}
		return vt.M{"t": "a", "v": r}
	case map[string]any:
		r := vt.M{}
		for k, e := range v {
			r[k] = c20ToTagged(e)
		}
		return vt.M{"t": "o", "v": r}
	}
	panic(fmt.Sprintf("harness: cannot tag %T", x))
}

// c20Plain encodes a Config with its own JSON tags into a generic document; the two credential
// members (masked by their MarshalJSON) are put back in clear.
func c20Plain(c *Config) map[string]any {
	if c == nil {
		return map[string]any{}
	}
	b, err := json.Marshal(c)
	if err != nil {
		panic(err)
	}
	doc := map[string]any{}
	dec := json.NewDecoder(bytes.NewReader(b))
	dec.UseNumber()
	if err := dec.Decode(&doc); err != nil {
		panic(err)
	}
	doc["access_key"] = string(c.AccessID)
	doc["access_secret"] = string(c.AccessSecret)
	return doc
}

func c20Err(err error) string {
	if err == nil {
		return ""
	}
	s := err.Error()
	if s == "" {
		s = "error"
	}
	if len(s) > 200 {
		s = s[:200]
	}
	return s
}

func TestVerifConfigChainMerge(t *testing.T) {
	cases, err := vt.ReadNDJSON(vt.Env("VERIF_CASES", ""))
	if err != nil {
		t.Fatal(err)
	}
	w, err := vt.NewWriter(vt.Env("VERIF_RESULTS", ""))
	if err != nil {
		t.Fatal(err)
	}
	defer w.Close()

	dir := t.TempDir()
	noSecret := filepath.Join(dir, "no-addon-secret")
	withSecret := filepath.Join(dir, "addon-secret")
	if err := os.MkdirAll(withSecret, 0o700); err != nil {
		t.Fatal(err)
	}
	_ = os.WriteFile(filepath.Join(withSecret, addonSecretKeyID), []byte("ak-addon"), 0o600)
	_ = os.WriteFile(filepath.Join(withSecret, addonSecretKeySecret), []byte("sk-addon"), 0o600)
	saved := addonSecretRootPath
	defer func() { addonSecretRootPath = saved }()
	baseFile := filepath.Join(dir, "eni_conf")

	n := 0
	for _, c := range cases {
		in := vt.Map(c["in"])
		fn := vt.Str(in["fn"])
		if fn != "merge" && fn != "mergefile" && fn != "mergecm" {
			continue
		}
		n++
		out := vt.M{"cfg": c20ToTagged(map[string]any{}), "base": c20ToTagged(map[string]any{}), "twice": c20ToTagged(map[string]any{}),
			"err": "", "err_twice": "", "base_text": "", "overlay_text": ""}
		p := vt.Catch(func() {
			base, e1 := json.Marshal(c20FromTagged(in["base"]))
			overlay, e2 := json.Marshal(c20FromTagged(in["overlay"]))
			if e1 != nil || e2 != nil {
				panic(fmt.Sprint("harness: ", e1, e2))
			}
			if vt.Str(in["form"]) == "zero" {
				overlay = []byte{}
			}
			out["base_text"], out["overlay_text"] = string(base), string(overlay)
			addonSecretRootPath = noSecret
			if vt.Bool(in["addon"]) {
				addonSecretRootPath = withSecret
			}
			apply := func(top, bottom []byte) (*Config, error) {
				if fn == "merge" {
					return MergeConfigAndUnmarshal(top, bottom)
				}
				if fn == "mergecm" {
					// the cluster configuration and the node's dynamic configuration as ConfigMaps behind an API client
					cl := fake.NewClientBuilder().WithObjects(
						&corev1.ConfigMap{ObjectMeta: metav1.ObjectMeta{Namespace: "kube-system", Name: "eni-config"}, Data: map[string]string{"eni_conf": string(bottom)}},
						&corev1.ConfigMap{ObjectMeta: metav1.ObjectMeta{Namespace: "kube-system", Name: "dyn-1"}, Data: map[string]string{"eni_conf": string(top)}},
						&corev1.Node{ObjectMeta: metav1.ObjectMeta{Name: "node-1", Labels: map[string]string{"terway-config": "dyn-1"}}},
					).Build()
					return ConfigFromConfigMap(context.Background(), cl, "node-1")
				}
				if err := os.WriteFile(baseFile, bottom, 0o600); err != nil {
					panic(err)
				}
				return GetConfigFromFileWithMerge(baseFile, top)
			}

			once, err := apply(overlay, base)
			out["err"] = c20Err(err)
			out["cfg"] = c20ToTagged(c20Plain(once))

			// the base document on its own, decoded without any layering
			alone := &Config{}
			if err := json.Unmarshal(base, alone); err != nil {
				panic("harness: base does not decode: " + err.Error())
			}
			out["base"] = c20ToTagged(c20Plain(alone))

			// the same overlay once more, on top of the first result
			if err == nil {
				again, err := json.Marshal(c20Plain(once))
				if err != nil {
					panic(err)
				}
				twice, err := apply(overlay, again)
				out["err_twice"] = c20Err(err)
				out["twice"] = c20ToTagged(c20Plain(twice))
			}
		})
		if strings.HasPrefix(p, "harness:") {
			t.Fatalf("case %v: %s", c["id"], p)
		}
		w.Write(vt.M{"id": c["id"], "out": out, "panic": p})
	}
	t.Logf("answered %d merge cases", n)
}
