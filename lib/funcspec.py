"""Input-quantified properties: the TLA+ module is generator *and* judge.

  X.tla defines  DomSeq  (finite structured input domain, enumerated completely by TLC)
            and  Bad(c)  (set of violated clause names for c = [id, in, out, panic]).
  1. TLC evaluates DomSeq and writes it as ndjson            (X_Gen, generated wrapper)
  2. the Go harness runs the real functions on every case     (built from /repo's working tree)
  3. TLC walks the results, one state per case, evaluating Bad (X_Judge, generated wrapper)
"""
import json, os, time
from vlib import *

GEN = """---- MODULE %(m)s_Gen ----
EXTENDS %(m)s, Json, IOUtils
ASSUME PrintT(<<"domain", Len(DomSeq)>>)
ASSUME ndJsonSerialize(IOEnv.VERIF_CASES, [k \\in 1..Len(DomSeq) |-> [id |-> k, in |-> DomSeq[k]]])
VARIABLE z
GInit == z = 0
GNext == z' = z
====
"""
JUDGE = """---- MODULE %(m)s_Judge ----
EXTENDS %(m)s, Json, IOUtils
VARIABLES i, bad
Results == ndJsonDeserialize(IOEnv.VERIF_RESULTS)
N == Len(Results)
JInit == i = 0 /\\ bad = <<>>
JNext == \\/ /\\ i < N
            /\\ i' = i + 1
            /\\ LET b == Bad(Results[i + 1])
               IN  bad' = IF b = {} THEN bad ELSE Append(bad, [id |-> Results[i + 1].id, clauses |-> SetToSeq(b)])
         \\/ /\\ i = N
            /\\ i' = N + 1
            /\\ ndJsonSerialize(IOEnv.VERIF_VERDICT, bad)
            /\\ UNCHANGED bad
====
"""


def _write(d, name, text):
    with open(os.path.join(d, name), "w") as fh:
        fh.write(text)


def generate(ctx, module, consts):
    """Stage 1. Returns list of cases [{id, in}]."""
    cases = os.path.join(ctx.scratch, module + ".cases.ndjson")
    d = SPECS  # wrappers are written into the scratch copy by tlc(); stage them first
    stage = ctx.sub("stage")
    _write(stage, module + "_Gen.tla", GEN % dict(m=module))
    cfg = "INIT GInit\nNEXT GNext\nCHECK_DEADLOCK FALSE\nCONSTANTS\n" + "".join("  %s = %s\n" % kv for kv in consts.items())
    _write(stage, module + "_Gen.cfg", cfg)
    res = _tlc_staged(ctx, stage, module + "_Gen", timeout=600, env={"VERIF_CASES": cases}, workers=1)
    if not res.ok or not os.path.exists(cases):
        raise MachineryError("domain generation for %s failed:\n%s" % (module, res.out[-3000:]))
    rows = read_ndjson(cases)
    log("%s: domain of %d cases enumerated by TLC in %.1fs" % (module, len(rows), res.wall))
    return rows


def judge(ctx, module, consts, merged):
    """Stage 3. merged = [{id, in, out, panic}]. Returns list of {id, clauses}."""
    resf = os.path.join(ctx.scratch, module + ".results.ndjson")
    verdict = os.path.join(ctx.scratch, module + ".verdict.ndjson")
    write_ndjson(resf, merged)
    stage = ctx.sub("stage")
    _write(stage, module + "_Judge.tla", JUDGE % dict(m=module))
    cfg = "INIT JInit\nNEXT JNext\nCHECK_DEADLOCK FALSE\nCONSTANTS\n" + "".join("  %s = %s\n" % kv for kv in consts.items())
    _write(stage, module + "_Judge.cfg", cfg)
    if os.path.exists(verdict):
        os.remove(verdict)
    res = _tlc_staged(ctx, stage, module + "_Judge", timeout=1800, env={"VERIF_RESULTS": resf, "VERIF_VERDICT": verdict}, workers=1)
    if not res.ok or not os.path.exists(verdict):
        raise MachineryError("judging for %s failed (rc=%s):\n%s" % (module, res.rc, res.out[-3000:]))
    if res.distinct != len(merged) + 2:
        raise MachineryError("judge visited %d states for %d cases" % (res.distinct, len(merged)))
    log("%s: %d cases judged by TLC in %.1fs" % (module, len(merged), res.wall))
    return read_ndjson(verdict)


def _tlc_staged(ctx, stage, module, **kw):
    return tlc(ctx, module, stage=stage, **kw)


def run_harnesses(ctx, cases, entries):
    """Stage 2. entries = [(pkg, TestName, netns)]. Every case must be answered exactly once."""
    casef = os.path.join(ctx.scratch, "cases.ndjson")
    write_ndjson(casef, cases)
    bins = go_build_tests(ctx, sorted({e[0] for e in entries}))
    results = {}
    for pkg, test, netns in entries:
        outf = os.path.join(ctx.scratch, "res-%s-%s.ndjson" % (pkg.replace("/", "_"), test))
        rc, out = run_test_bin(ctx, bins[pkg], test, env={"VERIF_CASES": casef, "VERIF_RESULTS": outf}, timeout=1500, netns=netns)
        if rc != 0 or not os.path.exists(outf):
            raise MachineryError("harness %s/%s failed rc=%s:\n%s" % (pkg, test, rc, out[-3000:]))
        for r in read_ndjson(outf):
            if r["id"] in results:
                raise MachineryError("case %s answered twice" % r["id"])
            results[r["id"]] = r
    merged = []
    for c in cases:
        r = results.get(c["id"])
        if r is None:
            raise MachineryError("case %s (%s) not answered by any harness" % (c["id"], c["in"].get("fn")))
        merged.append(dict(id=c["id"], **{"in": c["in"]}, out=r.get("out") or {}, panic=r.get("panic") or ""))
    return merged


def check(ctx, module, entries, consts=None, assumptions=(), rule="", nontrivial=None, domain_note=""):
    consts = dict(consts or {})
    consts.setdefault("Tier", '"%s"' % ctx.tier)
    cases = generate(ctx, module, consts)
    merged = run_harnesses(ctx, cases, entries)
    bad = judge(ctx, module, consts, merged)
    byid = {m["id"]: m for m in merged}
    for b in bad:
        for cl in b["clauses"]:
            add_violation(ctx, cl, byid[b["id"]], what=json.dumps(byid[b["id"]]["in"], sort_keys=True)[:300])
    fns = {}
    for m in merged:
        fns[m["in"].get("fn", "?")] = fns.get(m["in"].get("fn", "?"), 0) + 1
    nt = len([m for m in merged if (nontrivial(m) if nontrivial else True)])
    samples = [merged[k] for k in sorted({0, len(merged) // 3, (2 * len(merged)) // 3, len(merged) - 1}) if 0 <= k < len(merged)]
    cov = dict(evaluations=len(merged), distinct_nontrivial=nt, rule=rule, samples=samples, exhaustive=True,
               traces_validated_against_impl=len(merged), cases_by_function=fns, domain=domain_note,
               failing_cases=len(bad))
    return finish(ctx, "model_checking", cov, list(assumptions))
